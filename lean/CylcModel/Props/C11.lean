/-
C11 — Completion: the completion expression and its evaluation.
(The pool-membership half of C11, `TaskPool.remove_if_complete`, belongs to the scheduler model.)
Property statements only, over the model `CylcModel/Outputs.lean`.
-/
import CylcModel.Outputs
namespace CylcModel.C11
open CylcModel CylcModel.Outputs CylcModel.BExpr
open CylcModel.Generated.Outputs

/-! ### Specification -/

/-- every required output is complete (an assignment over completion variables) -/
def AllReq (d : TaskDef) (σ : String → Bool) : Prop :=
  ∀ o ∈ d.outs, o.req = some true → σ (compvar o.trigger) = true

/-- the task definition has at least one required output -/
def HasRequired (d : TaskDef) : Prop := ∃ o ∈ d.outs, o.req = some true

/-- The property text: "requires every required output, tolerates failure only when succeeded or
failed is optional, and tolerates submit-failure and expiry only when those are optional". -/
def Spec (d : TaskDef) (σ : String → Bool) : Prop :=
  (AllReq d σ ∧ (failOpt d = true → σ "succeeded" = true))
  ∨ (failOpt d = true ∧ σ "failed" = true)
  ∨ (subOpt d = true ∧ σ "submit_failed" = true)
  ∨ (expOpt d = true ∧ σ "expired" = true)

/-! ### Sorting keeps the members -/

theorem mem_insertSorted (a x : String) (l : List String) :
    a ∈ insertSorted x l ↔ a = x ∨ a ∈ l := by
  induction l with
  | nil => simp [insertSorted]
  | cons y ys ih =>
    unfold insertSorted
    split
    · simp
    · split
      · rename_i h; subst h; simp
      · simp [ih]; constructor
        · rintro (h | h | h) <;> simp [h]
        · rintro (h | h | h) <;> simp [h]

theorem mem_sortDedup (a : String) (l : List String) : a ∈ sortDedup l ↔ a ∈ l := by
  induction l with
  | nil => simp [sortDedup]
  | cons y ys ih =>
    have : sortDedup (y :: ys) = insertSorted y (sortDedup ys) := rfl
    rw [this, mem_insertSorted, ih]; simp

theorem mem_requiredVars (d : TaskDef) (v : String) :
    v ∈ requiredVars d ↔ ∃ o ∈ d.outs, o.req = some true ∧ compvar o.trigger = v := by
  unfold requiredVars
  rw [mem_sortDedup]
  simp only [List.mem_map, List.mem_filter, beq_iff_eq]
  constructor
  · rintro ⟨o, ⟨ho, hr⟩, hv⟩; exact ⟨o, ho, hr, hv⟩
  · rintro ⟨o, ho, hr, hv⟩; exact ⟨o, ⟨ho, hr⟩, hv⟩

theorem allReq_iff (d : TaskDef) (σ : String → Bool) :
    AllReq d σ ↔ ∀ v ∈ requiredVars d, σ v = true := by
  constructor
  · intro h v hv
    obtain ⟨o, ho, hr, rfl⟩ := (mem_requiredVars d v).1 hv
    exact h o ho hr
  · intro h o ho hr
    exact h _ ((mem_requiredVars d _).2 ⟨o, ho, hr, rfl⟩)

theorem requiredVars_eq_nil (d : TaskDef) : requiredVars d = [] ↔ ¬ HasRequired d := by
  constructor
  · intro h ⟨o, ho, hr⟩
    have := (mem_requiredVars d (compvar o.trigger)).2 ⟨o, ho, hr, rfl⟩
    rw [h] at this; exact absurd this (by simp)
  · intro h
    cases hl : requiredVars d with
    | nil => rfl
    | cons v vs =>
      exfalso; apply h
      obtain ⟨o, ho, hr, _⟩ := (mem_requiredVars d v).1 (by rw [hl]; simp)
      exact ⟨o, ho, hr⟩

/-! ### Semantics of the pieces -/

theorem eval_conjAcc (σ : String → Bool) (acc : BExpr String) (l : List String) :
    eval σ (conjAcc acc l) = (eval σ acc && l.all σ) := by
  induction l generalizing acc with
  | nil => simp [conjAcc]
  | cons x xs ih => simp [conjAcc, ih, eval, Bool.and_assoc]

/-- step (1) is either absent (no required output) or one part that means "all required outputs" -/
theorem partRequired_spec (d : TaskDef) (σ : String → Bool) :
    (partRequired d = [] ∧ ¬ HasRequired d) ∨
    (∃ e s, partRequired d = [(e, s)] ∧ HasRequired d ∧ (eval σ e = true ↔ AllReq d σ)) := by
  unfold partRequired
  cases hl : requiredVars d with
  | nil => left; exact ⟨rfl, (requiredVars_eq_nil d).1 hl⟩
  | cons x xs =>
    right
    have hreq : HasRequired d := by
      apply Classical.byContradiction
      intro h; rw [(requiredVars_eq_nil d).2 h] at hl; cases hl
    cases xs with
    | nil =>
      refine ⟨_, _, rfl, hreq, ?_⟩
      rw [allReq_iff, hl]; simp [eval]
    | cons y ys =>
      refine ⟨_, _, rfl, hreq, ?_⟩
      rw [allReq_iff, hl, eval_conjAcc]; simp [eval]

/-- **default_expr_sem.**  For every task definition with a required output or optional success
(which `tweak_outputs` guarantees, `tweak_reachable`) and every assignment, the default completion
expression exists and is true exactly when the specification of the property text holds. -/
theorem default_expr_sem (d : TaskDef) (σ : String → Bool) (h : HasRequired d ∨ failOpt d = true) :
    ∃ e, (defaultExpr d).1 = some e ∧ (eval σ e = true ↔ Spec d σ) := by
  unfold defaultExpr defaultParts partPre partSuccess Spec
  rcases partRequired_spec d σ with ⟨hp, hno⟩ | ⟨e, s, hp, hreq, he⟩
  · -- no required output: success must be optional
    have hf : failOpt d = true := h.resolve_left hno
    have hall : AllReq d σ := fun o ho hr => absurd ⟨o, ho, hr⟩ hno
    rw [hp]
    cases hs : subOpt d <;> cases hx : expOpt d <;>
      simp [hf, orJoin, eval, hall, Bool.or_assoc]
  · rw [hp]
    cases hf : failOpt d <;> cases hs : subOpt d <;> cases hx : expOpt d <;>
      simp [orJoin, eval, he, Bool.or_assoc]

/-! ### `tweak_outputs` makes the hypothesis of `default_expr_sem` true -/

theorem hasRequired_of_reqOf {d : TaskDef} {t : String} (h : d.reqOf t = some true) : HasRequired d := by
  unfold TaskDef.reqOf at h
  cases hf : d.outs.find? (fun o => o.trigger == t) with
  | none => rw [hf] at h; cases h
  | some o => rw [hf] at h; exact ⟨o, List.mem_of_find?_eq_some hf, h⟩

/-- **tweak_reachable.**  After `TaskDef.tweak_outputs` a task definition (which always has the
`succeeded` output) has a required output or optional success. -/
theorem tweak_reachable (d : TaskDef) (hs : ∃ o ∈ d.outs, o.trigger = "succeeded") :
    HasRequired (tweakOutputs d) ∨ failOpt (tweakOutputs d) = true := by
  unfold tweakOutputs
  split
  · left
    obtain ⟨o, ho, ht⟩ := hs
    refine ⟨{ o with req := some true }, ?_, rfl⟩
    simp only [TaskDef.setReq, List.mem_map]
    exact ⟨o, ho, by simp [ht]⟩
  · rename_i hc
    cases h1 : d.reqOf "succeeded" with
    | some b =>
      cases b with
      | true => exact Or.inl (hasRequired_of_reqOf h1)
      | false => right; simp [failOpt, h1]
    | none =>
      cases h2 : d.reqOf "failed" with
      | some b =>
        cases b with
        | true => exact Or.inl (hasRequired_of_reqOf h2)
        | false => right; simp [failOpt, h2]
      | none => simp [h1, h2] at hc

/-! ### Variables of the default expression -/

def IsFinalVar (v : String) : Prop := v = "succeeded" ∨ v = "failed" ∨ v = "submit_failed" ∨ v = "expired"

def GoodParts (d : TaskDef) (p : List Part) : Prop :=
  ∀ q ∈ p, ∀ v ∈ vars q.1, v ∈ requiredVars d ∨ IsFinalVar v

theorem vars_conjAcc (acc : BExpr String) (l : List String) : vars (conjAcc acc l) = vars acc ++ l := by
  induction l generalizing acc with
  | nil => simp [conjAcc]
  | cons x xs ih => simp [conjAcc, ih, vars]

theorem mem_vars_orFold (v : String) (e : BExpr String) (rest : List Part) :
    v ∈ vars (rest.foldl (fun acc p => BExpr.or acc p.1) e) ↔ v ∈ vars e ∨ ∃ p ∈ rest, v ∈ vars p.1 := by
  induction rest generalizing e with
  | nil => simp
  | cons p ps ih => simp [ih, vars, or_assoc]

theorem goodParts_required (d : TaskDef) : GoodParts d (partRequired d) := by
  unfold partRequired GoodParts
  generalize requiredVars d = l
  cases l with
  | nil => intro q hq; simp at hq
  | cons x xs =>
    cases xs with
    | nil => intro q hq v hv; simp at hq; subst hq; simp [vars] at hv; left; simp [hv]
    | cons y ys =>
      intro q hq v hv; simp at hq; subst hq
      rw [vars_conjAcc] at hv; left; simpa [vars] using hv

theorem goodParts_success (d : TaskDef) (p : List Part) (h : GoodParts d p) : GoodParts d (partSuccess d p) := by
  unfold partSuccess
  split
  · cases p with
    | nil =>
      intro q hq v hv; simp at hq; subst hq
      simp [vars] at hv; right; unfold IsFinalVar; rcases hv with h | h <;> simp [h]
    | cons a as =>
      obtain ⟨e, s⟩ := a
      intro q hq v hv; simp at hq; subst hq
      simp [vars] at hv
      rcases hv with hv | hv | hv
      · exact h (e, s) (by simp) v hv
      · right; unfold IsFinalVar; simp [hv]
      · right; unfold IsFinalVar; simp [hv]
  · exact h

theorem goodParts_append (d : TaskDef) (p : List Part) (h : GoodParts d p) (v s : String) (hv : IsFinalVar v) :
    GoodParts d (p ++ [(.atom v, s)]) := by
  intro q hq w hw
  simp at hq
  rcases hq with hq | hq
  · exact h q hq w hw
  · subst hq; simp [vars] at hw; subst hw; exact Or.inr hv

theorem goodParts_pre (d : TaskDef) (p : List Part) (h : GoodParts d p) : GoodParts d (partPre d p) := by
  unfold partPre
  have h3 : GoodParts d (if subOpt d then p ++ [(.atom "submit_failed", "submit_failed")] else p) := by
    split
    · exact goodParts_append d p h _ _ (by unfold IsFinalVar; simp)
    · exact h
  simp only
  split
  · exact goodParts_append d _ h3 _ _ (by unfold IsFinalVar; simp)
  · exact h3

theorem defaultExpr_vars (d : TaskDef) (e : BExpr String) (h : (defaultExpr d).1 = some e) :
    ∀ v ∈ vars e, v ∈ requiredVars d ∨ IsFinalVar v := by
  have hg : GoodParts d (defaultParts d) :=
    goodParts_pre d _ (goodParts_success d _ (goodParts_required d))
  unfold defaultExpr at h
  cases hp : defaultParts d with
  | nil => rw [hp] at h; simp [orJoin] at h
  | cons a rest =>
    obtain ⟨e0, s0⟩ := a
    rw [hp] at h hg
    simp [orJoin] at h
    subst h
    intro v hv
    rw [mem_vars_orFold] at hv
    rcases hv with hv | ⟨p, hp', hv⟩
    · exact hg (e0, s0) (by simp) v hv
    · exact hg p (by simp [hp']) v hv

/-! ### `is_complete` of a `TaskOutputs` built from the task definition -/

theorem envOfKV_none (done : String → Bool) (kv : List (String × String)) (v : String)
    (h : v ∉ kv.map (·.1)) : envOfKV done kv v = none := by
  induction kv with
  | nil => rfl
  | cons a rest ih =>
    obtain ⟨c, m⟩ := a
    simp at h
    simp only [envOfKV]
    rw [ih (by simpa using h.2)]
    simp [Ne.symm h.1]

theorem envOfKV_mem (done : String → Bool) (kv : List (String × String)) (cv msg : String)
    (hn : (kv.map (·.1)).count cv ≤ 1) (hm : (cv, msg) ∈ kv) : envOfKV done kv cv = some (done msg) := by
  induction kv with
  | nil => simp at hm
  | cons a rest ih =>
    obtain ⟨c, m⟩ := a
    simp only [List.map_cons, List.count_cons] at hn
    simp only [List.mem_cons] at hm
    simp only [envOfKV]
    rcases hm with hm | hm
    · cases hm
      have h0 : (rest.map (·.1)).count cv = 0 := by simp at hn; omega
      rw [envOfKV_none done rest cv (List.count_eq_zero.1 h0)]; simp
    · have hpos : 0 < (rest.map (·.1)).count cv :=
        List.count_pos_iff.2 (List.mem_map.2 ⟨(cv, msg), hm, rfl⟩)
      have hne : ¬ (c == cv) = true := by
        intro h; rw [if_pos h] at hn; omega
      rw [if_neg hne] at hn
      rw [ih (by omega) hm]

theorem envOfKV_isSome (done : String → Bool) (kv : List (String × String)) (v : String)
    (h : v ∈ kv.map (·.1)) : ∃ b, envOfKV done kv v = some b := by
  induction kv with
  | nil => simp at h
  | cons a rest ih =>
    obtain ⟨c, m⟩ := a
    simp only [envOfKV]
    cases hr : envOfKV done rest v with
    | some b => exact ⟨b, rfl⟩
    | none =>
      simp at h
      rcases h with h | h
      · subst h; exact ⟨done m, by simp⟩
      · obtain ⟨b, hb⟩ := ih (by simpa using h); rw [hb] at hr; cases hr

theorem kvOf_keys (outs : List OutDef) : (kvOf outs).map (·.1) = compvars outs := by
  simp [kvOf, compvars, List.map_map, Function.comp_def]

/-- what the property needs to know about names: the completion variables that the expression uses
(those of the required outputs and of the four final outputs) belong to one output each, the required
outputs are Python names, nothing is called like a parameter of the evaluator -/
structure NamesOK (d : TaskDef) : Prop where
  unique : ∀ v, (v ∈ requiredVars d ∨ IsFinalVar v) → (compvars d.outs).count v ≤ 1
  reqNames : ∀ v ∈ requiredVars d, isPyName v = true
  noClash : ∀ v ∈ compvars d.outs, v ∉ evalKwClash

/-- the four final standard outputs are there, with message = trigger (`TaskDef._add_std_outputs`) -/
structure StdOK (outs : List OutDef) : Prop where
  succeeded : ∃ r, (⟨"succeeded", "succeeded", r⟩ : OutDef) ∈ outs
  failed : ∃ r, (⟨"failed", "failed", r⟩ : OutDef) ∈ outs
  submitFailed : ∃ r, (⟨"submit-failed", "submit-failed", r⟩ : OutDef) ∈ outs
  expired : ∃ r, (⟨"expired", "expired", r⟩ : OutDef) ∈ outs

/-- the specification over completed *messages* -/
def SpecM (d : TaskDef) (done : String → Bool) : Prop :=
  ((∀ o ∈ d.outs, o.req = some true → done o.message = true) ∧ (failOpt d = true → done "succeeded" = true))
  ∨ (failOpt d = true ∧ done "failed" = true)
  ∨ (subOpt d = true ∧ done "submit-failed" = true)
  ∨ (expOpt d = true ∧ done "expired" = true)

/-- the assignment `is_complete` hands to the evaluator -/
def sigmaOf (done : String → Bool) (outs : List OutDef) (v : String) : Bool := (envOf done outs v).getD false

theorem sigmaOf_out (done : String → Bool) (outs : List OutDef) (o : OutDef) (ho : o ∈ outs)
    (hn : (compvars outs).count (compvar o.trigger) ≤ 1) :
    sigmaOf done outs (compvar o.trigger) = done o.message := by
  unfold sigmaOf envOf
  rw [envOfKV_mem done (kvOf outs) (compvar o.trigger) o.message (by rw [kvOf_keys]; exact hn)
    (by simp only [kvOf, List.mem_map]; exact ⟨o, ho, rfl⟩)]
  rfl

theorem env_bound (done : String → Bool) (outs : List OutDef) (v : String) (h : v ∈ compvars outs) :
    envOf done outs v = some (sigmaOf done outs v) := by
  obtain ⟨b, hb⟩ := envOfKV_isSome done (kvOf outs) v (by rw [kvOf_keys]; exact h)
  unfold sigmaOf envOf; rw [hb]; rfl

theorem mem_compvars_of_mem {outs : List OutDef} {o : OutDef} (h : o ∈ outs) : compvar o.trigger ∈ compvars outs := by
  simp only [compvars, List.mem_map]; exact ⟨o, h, rfl⟩

theorem mem_compvars_std {outs : List OutDef} (t cv : String) (r : Option Bool) (hc : compvar t = cv)
    (hm : (⟨t, t, r⟩ : OutDef) ∈ outs) : cv ∈ compvars outs := by
  subst hc; exact mem_compvars_of_mem hm

theorem sigmaOf_std (done : String → Bool) (outs : List OutDef)
    (t cv : String) (r : Option Bool) (hc : compvar t = cv) (hm : (⟨t, t, r⟩ : OutDef) ∈ outs)
    (hn : (compvars outs).count cv ≤ 1) :
    sigmaOf done outs cv = done t := by
  subst hc; exact sigmaOf_out done outs ⟨t, t, r⟩ hm hn

theorem finalVar_bound {outs : List OutDef} (hs : StdOK outs) {v : String} (hv : IsFinalVar v) : v ∈ compvars outs := by
  rcases hv with h | h | h | h <;> subst h
  · obtain ⟨r, hr⟩ := hs.succeeded; exact mem_compvars_std "succeeded" _ r (by decide) hr
  · obtain ⟨r, hr⟩ := hs.failed; exact mem_compvars_std "failed" _ r (by decide) hr
  · obtain ⟨r, hr⟩ := hs.submitFailed; exact mem_compvars_std "submit-failed" _ r (by decide) hr
  · obtain ⟨r, hr⟩ := hs.expired; exact mem_compvars_std "expired" _ r (by decide) hr

theorem finalVar_pyName {v : String} (hv : IsFinalVar v) : isPyName v = true := by
  rcases hv with h | h | h | h <;> subst h <;> decide

theorem spec_iff_specM (d : TaskDef) (done : String → Bool)
    (hn : ∀ v, (v ∈ requiredVars d ∨ IsFinalVar v) → (compvars d.outs).count v ≤ 1) (hs : StdOK d.outs) :
    Spec d (sigmaOf done d.outs) ↔ SpecM d done := by
  have h1 : sigmaOf done d.outs "succeeded" = done "succeeded" := by
    obtain ⟨r, hr⟩ := hs.succeeded
    exact sigmaOf_std done d.outs "succeeded" _ r (by decide) hr (hn _ (Or.inr (Or.inl rfl)))
  have h2 : sigmaOf done d.outs "failed" = done "failed" := by
    obtain ⟨r, hr⟩ := hs.failed
    exact sigmaOf_std done d.outs "failed" _ r (by decide) hr (hn _ (Or.inr (Or.inr (Or.inl rfl))))
  have h3 : sigmaOf done d.outs "submit_failed" = done "submit-failed" := by
    obtain ⟨r, hr⟩ := hs.submitFailed
    exact sigmaOf_std done d.outs "submit-failed" _ r (by decide) hr (hn _ (Or.inr (Or.inr (Or.inr (Or.inl rfl)))))
  have h4 : sigmaOf done d.outs "expired" = done "expired" := by
    obtain ⟨r, hr⟩ := hs.expired
    exact sigmaOf_std done d.outs "expired" _ r (by decide) hr (hn _ (Or.inr (Or.inr (Or.inr (Or.inr rfl)))))
  have hu : ∀ o ∈ d.outs, o.req = some true → (compvars d.outs).count (compvar o.trigger) ≤ 1 :=
    fun o ho hr => hn _ (Or.inl ((mem_requiredVars d _).2 ⟨o, ho, hr, rfl⟩))
  have hall : AllReq d (sigmaOf done d.outs) ↔ ∀ o ∈ d.outs, o.req = some true → done o.message = true := by
    constructor
    · intro h o ho hr; rw [← sigmaOf_out done d.outs o ho (hu o ho hr)]; exact h o ho hr
    · intro h o ho hr; rw [sigmaOf_out done d.outs o ho (hu o ho hr)]; exact h o ho hr
  unfold Spec SpecM
  rw [h1, h2, h3, h4, hall]

/-- `is_complete` on a structured expression whose variables are all outputs and Python names -/
theorem isCompleteParsed_ok (e : BExpr String) (outs : List OutDef) (done : String → Bool)
    (hb : ∀ v ∈ vars e, v ∈ compvars outs) (hp : ∀ v ∈ vars e, isPyName v = true)
    (hc : ∀ v ∈ compvars outs, v ∉ evalKwClash) :
    isCompleteParsed (pyOfB e) outs done = .ok (eval (sigmaOf done outs) e) := by
  have hk : (compvars outs).any (fun x => evalKwClash.contains x) = false := by
    rw [List.any_eq_false]; intro v hv; simpa using hc v hv
  have hall : (vars e).all isPyName = true := by rw [List.all_eq_true]; exact hp
  unfold isCompleteParsed pyEvalParsed pyOfB
  rw [hk, hall]
  simp only [Bool.false_eq_true, if_false, if_true]
  rw [evalSC_total e (σ := sigmaOf done outs) (fun a ha => env_bound done outs a (hb a ha))]

/-- **complete_default_sem_partial.**  `TaskOutputs(tdef).is_complete()` without a user expression
equals the specification of the property text, for every task definition and every set of completed
outputs, *provided* the names are well-behaved (`NamesOK`).  Missing for the full statement: the
hypothesis `NamesOK` (see `complete_default_sem_counterexample`). -/
theorem complete_default_sem_partial (d : TaskDef) (done : String → Bool)
    (hr : HasRequired d ∨ failOpt d = true) (hn : NamesOK d) (hs : StdOK d.outs) :
    ∃ b, isCompleteDefault d done = .ok b ∧ (b = true ↔ SpecM d done) := by
  obtain ⟨e, he, hsem⟩ := default_expr_sem d (sigmaOf done d.outs) hr
  have hv := defaultExpr_vars d e he
  refine ⟨eval (sigmaOf done d.outs) e, ?_, ?_⟩
  · unfold isCompleteDefault
    rw [he]
    apply isCompleteParsed_ok
    · intro v hv'
      rcases hv v hv' with h | h
      · obtain ⟨o, ho, _, rfl⟩ := (mem_requiredVars d v).1 h; exact mem_compvars_of_mem ho
      · exact finalVar_bound hs h
    · intro v hv'
      rcases hv v hv' with h | h
      · exact hn.reqNames v h
      · exact finalVar_pyName h
    · exact hn.noClash
  · rw [hsem]; exact spec_iff_specM d done hn.unique hs

/-- decidable test used to evaluate concrete instances in the kernel -/
def isOk (b : Bool) : Except EvalErr Bool → Bool
  | .ok b' => b == b'
  | .error _ => false

theorem eq_of_isOk {b : Bool} {x : Except EvalErr Bool} (h : isOk b x = true) : x = .ok b := by
  cases x with
  | error e => simp [isOk] at h
  | ok b' => simp [isOk] at h; rw [h]

/-- The full-strength statement: no hypothesis on names. -/
def complete_default_sem_full : Prop :=
  ∀ (d : TaskDef) (done : String → Bool), (HasRequired d ∨ failOpt d = true) → StdOK d.outs →
    ∃ b, isCompleteDefault d done = .ok b ∧ (b = true ↔ SpecM d done)

/-- the six standard outputs as `TaskDef._add_std_outputs` creates them, success required -/
def stdOuts : List OutDef :=
  [⟨"expired", "expired", none⟩, ⟨"submitted", "submitted", none⟩, ⟨"submit-failed", "submit-failed", none⟩,
   ⟨"started", "started", none⟩, ⟨"succeeded", "succeeded", some true⟩, ⟨"failed", "failed", none⟩]

/-- required `x-y`, optional `x_y` -/
def collisionDef : TaskDef := ⟨stdOuts ++ [⟨"x-y", "m1", some true⟩, ⟨"x_y", "m2", some false⟩]⟩

theorem stdOK_stdOuts (rest : List OutDef) : StdOK (stdOuts ++ rest) :=
  ⟨⟨some true, by simp [stdOuts]⟩, ⟨none, by simp [stdOuts]⟩, ⟨none, by simp [stdOuts]⟩, ⟨none, by simp [stdOuts]⟩⟩

/-- **complete_default_sem_counterexample.**  `complete_default_sem_full` is false on the current code:
with outputs `x-y` (required) and `x_y` (optional) the task is complete once `succeeded` and `x_y`
are done, although the required output `x-y` is not. -/
theorem complete_default_sem_counterexample : ¬ complete_default_sem_full := by
  intro h
  obtain ⟨b, hb, hiff⟩ := h collisionDef (fun m => m == "succeeded" || m == "m2")
    (Or.inl ⟨⟨"succeeded", "succeeded", some true⟩, by simp [collisionDef, stdOuts], rfl⟩)
    (stdOK_stdOuts _)
  have hc : isCompleteDefault collisionDef (fun m => m == "succeeded" || m == "m2") = .ok true :=
    eq_of_isOk (by decide +kernel)
  rw [hc] at hb
  cases hb
  have hs := hiff.1 rfl
  have hf : failOpt collisionDef = false := by decide +kernel
  have h2 : subOpt collisionDef = false := by decide +kernel
  have h3 : expOpt collisionDef = false := by decide +kernel
  unfold SpecM at hs
  rw [hf, h2, h3] at hs
  rcases hs with ⟨hall, _⟩ | ⟨h, _⟩ | ⟨h, _⟩ | ⟨h, _⟩
  · have := hall ⟨"x-y", "m1", some true⟩ (by simp [collisionDef]) rfl
    revert this; decide
  all_goals cases h

/-! ### Monotonicity -/

theorem envOfKV_mono (done done' : String → Bool) (hle : ∀ m, done m = true → done' m = true)
    (kv : List (String × String)) (v : String) :
    (envOfKV done kv v).getD false = true → (envOfKV done' kv v).getD false = true := by
  induction kv with
  | nil => simp [envOfKV]
  | cons a rest ih =>
    obtain ⟨c, m⟩ := a
    simp only [envOfKV]
    cases h1 : envOfKV done rest v with
    | some b =>
      obtain ⟨b', hb'⟩ : ∃ b', envOfKV done' rest v = some b' := by
        cases h2 : envOfKV done' rest v with
        | some b' => exact ⟨b', rfl⟩
        | none =>
          -- the bound variables do not depend on `done`
          exfalso
          have : ∀ (kv : List (String × String)), envOfKV done' kv v = none → envOfKV done kv v = none := by
            intro kv
            induction kv with
            | nil => intro _; rfl
            | cons a rest ih =>
              obtain ⟨c, m⟩ := a
              simp only [envOfKV]
              cases h3 : envOfKV done' rest v with
              | some _ => simp
              | none => rw [ih h3]; split <;> simp
          rw [this rest h2] at h1; cases h1
      rw [hb']
      intro hb
      have := ih (by rw [h1]; exact hb)
      rw [hb'] at this; exact this
    | none =>
      have h2 : envOfKV done' rest v = none := by
        have : ∀ (kv : List (String × String)), envOfKV done kv v = none → envOfKV done' kv v = none := by
          intro kv
          induction kv with
          | nil => intro _; rfl
          | cons a rest ih =>
            obtain ⟨c, m⟩ := a
            simp only [envOfKV]
            cases h3 : envOfKV done rest v with
            | some _ => simp
            | none => rw [ih h3]; split <;> simp
        exact this rest h1
      rw [h2]
      by_cases hcv : c = v
      · simp only [hcv, if_true, Option.getD_some]; exact hle m
      · simp [hcv]

/-- **complete_mono.**  Completing more outputs never turns a complete task incomplete: for every
expression over the task's outputs, `is_complete` is monotone in the set of completed messages. -/
theorem complete_mono (e : BExpr String) (outs : List OutDef) (done done' : String → Bool)
    (hb : ∀ v ∈ vars e, v ∈ compvars outs) (hle : ∀ m, done m = true → done' m = true)
    (h : isCompleteParsed (.ok e) outs done = .ok true) : isCompleteParsed (.ok e) outs done' = .ok true := by
  have key : ∀ dn : String → Bool, isCompleteParsed (.ok e) outs dn =
      if (compvars outs).any (fun x => evalKwClash.contains x) then .error .type
      else .ok (eval (sigmaOf dn outs) e) := by
    intro dn
    unfold isCompleteParsed pyEvalParsed
    simp only []
    rw [evalSC_total e (σ := sigmaOf dn outs) (fun a ha => env_bound dn outs a (hb a ha))]
  rw [key] at h ⊢
  split at h
  · cases h
  · rename_i hk
    rw [if_neg hk]
    have h' : eval (sigmaOf done outs) e = true := by injection h
    have := eval_mono (σ := sigmaOf done outs) (τ := sigmaOf done' outs)
      (fun a ha => envOfKV_mono done done' hle (kvOf outs) a ha) e h'
    rw [this]

/-! ### Task definitions accepted by the configuration -/

theorem isFinalVar_iff (v : String) : IsFinalVar v ↔ v ∈ finalVars := by
  simp [IsFinalVar, finalVars]

/-- no collision on the used variables: each of them belongs to at most one output -/
theorem unique_of_not_collidesOn (d : TaskDef) (used : List String) (h : collidesOn d used = false)
    (v : String) (hv : v ∈ used ∨ IsFinalVar v) : (compvars d.outs).count v ≤ 1 := by
  by_cases hin : v ∈ compvars d.outs
  · unfold collidesOn at h
    rw [List.any_eq_false] at h
    have := h v hin
    simp only [Bool.and_eq_true, Bool.or_eq_true, List.contains_eq_mem, decide_eq_true_eq, not_and] at this
    have hc := this (hv.imp id (isFinalVar_iff v).1)
    omega
  · rw [List.count_eq_zero.2 hin]; exact Nat.zero_le _

/-- **configured_default_sem.**  The unrestricted statement for task definitions that
`_set_completion_expressions` accepts, once the code performs the two name checks and the evaluator
takes any variable name (the three generated facts; on the unrepaired tree they are false and
this theorem says nothing — see `complete_default_sem_counterexample`). -/
theorem configured_default_sem (hc : cfgRejectsCollision = true) (hu : cfgRejectsUnevaluable = true)
    (hk : evalKwClash = []) (d : TaskDef) (hr : HasRequired d ∨ failOpt d = true) (hs : StdOK d.outs)
    (text : String) (hcfg : configure d none = .ok text) (done : String → Bool) :
    text = (defaultExpr d).2 ∧ ∃ b, isCompleteDefault d done = .ok b ∧ (b = true ↔ SpecM d done) := by
  unfold configure configureDefault at hcfg
  rw [hc, hu] at hcfg
  simp only [Bool.true_and] at hcfg
  split at hcfg
  · cases hcfg
  · rename_i hnames
    split at hcfg
    · cases hcfg
    · rename_i hcol
      refine ⟨by injection hcfg with h; exact h.symm, ?_⟩
      apply complete_default_sem_partial d done hr _ hs
      refine ⟨?_, ?_, ?_⟩
      · exact unique_of_not_collidesOn d (requiredVars d) (by simpa using hcol)
      · intro v hv
        have : requiredNamesOk d = true := by simpa using hnames
        exact (List.all_eq_true.1 this) v hv
      · intro v _; rw [hk]; simp

/-! ### The blank expression of a removed task definition -/

/-- **final_completion_sem.**  With a blank completion expression the outputs are complete exactly when
a final output (succeeded, failed, submit-failed, expired) was generated. -/
theorem final_completion_sem (outs : List OutDef) (done : String → Bool)
    (hn : ∀ v, IsFinalVar v → (compvars outs).count v ≤ 1)
    (hc : ∀ v ∈ compvars outs, v ∉ evalKwClash) (hs : StdOK outs) :
    isCompleteText "" outs done =
      .ok (done "succeeded" || done "failed" || done "submit-failed" || done "expired") := by
  have hp : parsePy finalCompletion =
      .ok (.or (.or (.or (.atom "succeeded") (.atom "failed")) (.atom "submit_failed")) (.atom "expired")) := by
    decide +kernel
  have hk : (compvars outs).any (fun x => evalKwClash.contains x) = false := by
    rw [List.any_eq_false]; intro v hv; simpa using hc v hv
  obtain ⟨r1, h1⟩ := hs.succeeded
  obtain ⟨r2, h2⟩ := hs.failed
  obtain ⟨r3, h3⟩ := hs.submitFailed
  obtain ⟨r4, h4⟩ := hs.expired
  have e1 := env_bound done outs "succeeded" (mem_compvars_std "succeeded" _ r1 (by decide) h1)
  have e2 := env_bound done outs "failed" (mem_compvars_std "failed" _ r2 (by decide) h2)
  have e3 := env_bound done outs "submit_failed" (mem_compvars_std "submit-failed" _ r3 (by decide) h3)
  have e4 := env_bound done outs "expired" (mem_compvars_std "expired" _ r4 (by decide) h4)
  rw [sigmaOf_std done outs "succeeded" _ r1 (by decide) h1 (hn _ (Or.inl rfl))] at e1
  rw [sigmaOf_std done outs "failed" _ r2 (by decide) h2 (hn _ (Or.inr (Or.inl rfl)))] at e2
  rw [sigmaOf_std done outs "submit-failed" _ r3 (by decide) h3 (hn _ (Or.inr (Or.inr (Or.inl rfl))))] at e3
  rw [sigmaOf_std done outs "expired" _ r4 (by decide) h4 (hn _ (Or.inr (Or.inr (Or.inr rfl))))] at e4
  have hemp : ("" : String).isEmpty = true := by decide
  unfold isCompleteText isCompleteParsed pyEvalParsed
  rw [hemp]
  simp only [if_true]
  rw [hp, hk]
  simp only [Bool.false_eq_true, if_false, evalSC, e1, e2, e3, e4]
  cases done "succeeded" <;> cases done "failed" <;> cases done "submit-failed" <;> cases done "expired" <;> rfl

/-! ### Non-vacuity: the hypotheses are satisfiable by concrete, non-trivial task definitions -/

/-- success optional, submit-failure optional, required custom outputs `x`, `a-b-c`, optional `y` -/
def sampleDef : TaskDef :=
  ⟨[⟨"expired", "expired", none⟩, ⟨"submitted", "submitted", none⟩, ⟨"submit-failed", "submit-failed", some false⟩,
    ⟨"started", "started", none⟩, ⟨"succeeded", "succeeded", some false⟩, ⟨"failed", "failed", none⟩,
    ⟨"x", "msg x", some true⟩, ⟨"a-b-c", "msg abc", some true⟩, ⟨"y", "msg y", some false⟩]⟩

theorem sample_stdOK : StdOK sampleDef.outs :=
  ⟨⟨some false, by simp [sampleDef]⟩, ⟨none, by simp [sampleDef]⟩, ⟨some false, by simp [sampleDef]⟩,
   ⟨none, by simp [sampleDef]⟩⟩

theorem sample_hasRequired : HasRequired sampleDef := ⟨⟨"x", "msg x", some true⟩, by simp [sampleDef], rfl⟩

theorem sample_namesOK : NamesOK sampleDef where
  unique := fun v hv => unique_of_not_collidesOn sampleDef (requiredVars sampleDef) (by decide +kernel) v hv
  reqNames := by
    have : requiredNamesOk sampleDef = true := by decide +kernel
    intro v hv; exact (List.all_eq_true.1 this) v hv
  noClash := by
    have : (compvars sampleDef.outs).all (fun v => !evalKwClash.contains v) = true := by decide +kernel
    intro v hv; simpa using (List.all_eq_true.1 this) v hv

/-- `default_expr_sem`, `complete_default_sem_partial`: hypotheses hold for `sampleDef`, and the
expression is the documented one -/
example : (HasRequired sampleDef ∨ failOpt sampleDef = true) ∧ NamesOK sampleDef ∧ StdOK sampleDef.outs ∧
    (defaultExpr sampleDef).2 = "((a_b_c and x) and succeeded) or failed or submit_failed" :=
  ⟨Or.inl sample_hasRequired, sample_namesOK, sample_stdOK, by decide +kernel⟩

/-- `tweak_reachable`: a definition that does not mention success in the graph -/
example : ∃ o ∈ (⟨stdOuts.map fun o => { o with req := none }⟩ : TaskDef).outs, o.trigger = "succeeded" :=
  ⟨⟨"succeeded", "succeeded", none⟩, by simp [stdOuts], rfl⟩

/-- `complete_mono`: an expression over the outputs of `sampleDef` that is complete for one set of messages -/
example : (∀ v ∈ vars (BExpr.or (.and (.atom "x") (.atom "succeeded")) (.atom "failed")), v ∈ compvars sampleDef.outs) ∧
    isOk true (isCompleteParsed (.ok (BExpr.or (.and (.atom "x") (.atom "succeeded")) (.atom "failed"))) sampleDef.outs
      (fun m => m == "failed")) = true := by
  constructor
  · have : (vars (BExpr.or (.and (.atom "x") (.atom "succeeded")) (.atom "failed"))).all
        (fun v => (compvars sampleDef.outs).contains v) = true := by decide +kernel
    intro v hv; simpa using (List.all_eq_true.1 this) v hv
  · decide +kernel

/-- `configured_default_sem`: whatever the generated flags are, the configuration step accepts
`sampleDef`'s names (so the hypothesis `configure d none = .ok _` is satisfiable) -/
example : collidesOn sampleDef (requiredVars sampleDef) = false ∧ requiredNamesOk sampleDef = true := by
  constructor <;> decide +kernel

/-- `final_completion_sem`: the standard outputs alone -/
example : (∀ v, IsFinalVar v → (compvars stdOuts).count v ≤ 1) ∧ StdOK stdOuts := by
  refine ⟨fun v hv => unique_of_not_collidesOn ⟨stdOuts⟩ [] (by decide +kernel) v (Or.inr hv), ?_⟩
  have := stdOK_stdOuts []
  simpa using this

end CylcModel.C11
