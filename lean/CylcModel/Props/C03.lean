/-
C03 — No premature shutdown, no false stall, bounded response.
Statements only; lemmas are in `SchedLemmasC03`.  All theorems hold for every instance graph `g`, every
state `s` (reachable or not) and every operation.

Vocabulary (defined in `SchedLemmasC03`, each a plain statement about the pool):
  `NoActive s`            no proxy is preparing, submitted or running
  `NoReleasedWaiting s`   no proxy is waiting and released from the runahead pool
  `NoReadyWaiting s`      no proxy is waiting, released and has all prerequisites satisfied
  `Incomplete g x`        x is finished and its completion expression is false over its outputs
  `PartiallySatisfied g x` x is within the stop point and an unsatisfied prerequisite of x waits for an
                          output of an instance within the stop point
  `ShutdownOK g s`  = NoActive ∧ NoReleasedWaiting ∧ nobody Incomplete ∧ nobody PartiallySatisfied
  `StallSpec g s`   = NoActive ∧ NoReadyWaiting ∧ (somebody Incomplete ∨ somebody PartiallySatisfied)
  `decision g s`    = the state after `compute_runahead` + `release_runahead_tasks`, where `workflow_shutdown` looks
-/
import CylcModel.SchedLemmasC03
namespace CylcModel.C03
open CylcModel.Sched

/-- **shutdown_sound**: an operation makes the scheduler stop only if it is a main loop, the reason is the
automatic one, and the pool in which it stops — which is the pool the decision was taken on — satisfies `ShutdownOK`. -/
theorem shutdown_sound (g : Graph) (s : State) (op : Op) (h0 : s.stop = none)
    (h : (step g s op).stop.isSome = true) :
    op = .loop ∧ (step g s op).stop = some "AUTOMATIC" ∧ ShutdownOK g (step g s op) ∧
      (step g s op).pool = (decision g (clearOp s)).pool := by
  have hc : (clearOp s).stop = none := h0
  cases op with
  | loop =>
    have hm : step g s .loop = mainLoop g (clearOp s) := rfl
    rw [hm] at h ⊢
    obtain ⟨h1, h2, h3⟩ := mainLoop_shutdown g (clearOp s) hc h
    refine ⟨rfl, h3, ?_, h2⟩
    obtain ⟨a, b, c, d⟩ := h1
    exact ⟨fun x hx => a x (h2 ▸ hx), fun x hx => b x (h2 ▸ hx), fun x hx => c x (h2 ▸ hx), fun x hx => d x (h2 ▸ hx)⟩
  | subres p n ok sn =>
    exfalso
    have hm : step g s (.subres p n ok sn) =
        (processMessage g 4 (clearOp s) p n .internal sn (if ok then "submitted" else "submit-failed")).1 := rfl
    rw [hm, (fr_processMessage g 4 (clearOp s) p n .internal sn _).1, hc] at h
    simp at h
  | msg p n sn text =>
    exfalso
    have hm : (step g s (.msg p n sn text)).stop = s.stop := rfl
    rw [hm, h0] at h
    simp at h

/-- `check_auto_shutdown` itself: it answers yes only on a pool satisfying `ShutdownOK`, and does not alter the pool -/
theorem auto_shutdown_only_if_ok (g : Graph) (s : State) (h : (checkAutoShutdown g s).2 = true) :
    ShutdownOK g s ∧ (checkAutoShutdown g s).1.pool = s.pool :=
  autoShutdown_sound g s h

/-- `TaskPool.is_stalled` says exactly `StallSpec` -/
theorem is_stalled_iff (g : Graph) (s : State) : isStalled g s = true ↔ StallSpec g s :=
  isStalled_iff g s

/-- **stall_sound**: the stall flag goes up only in a main loop, and then `StallSpec` holds of the pool at the
decision point of that loop or of the pool the loop ends in (the two places `check_workflow_stalled` is called):
no job is active — so no job message can arrive —, no released waiting task is ready, and some task is
incomplete or partially satisfied within the stop point. -/
theorem stall_sound (g : Graph) (s : State) (op : Op) (hs : s.stalled = false)
    (h : (step g s op).stalled = true) :
    op = .loop ∧ (StallSpec g (decision g (clearOp s)) ∨ StallSpec g (step g s op)) := by
  cases op with
  | loop =>
    refine ⟨rfl, ?_⟩
    have hm : step g s .loop = mainLoop g (clearOp s) := rfl
    rw [hm] at h ⊢
    have hcs : (clearOp s).stalled = false := hs
    cases h0 : (clearOp s).stop with
    | some r =>
      exfalso
      have : mainLoop g (clearOp s) = clearOp s := by unfold mainLoop; simp [h0]
      rw [this, hcs] at h; exact absurd h (by simp)
    | none =>
      rcases mainLoop_stalled g (clearOp s) h0 hcs h with h1 | h1
      · exact Or.inl ((isStalled_iff g _).mp h1)
      · exact Or.inr ((isStalled_iff g _).mp h1)
  | subres p n ok sn =>
    exfalso
    have hm : step g s (.subres p n ok sn) =
        (processMessage g 4 (clearOp s) p n .internal sn (if ok then "submitted" else "submit-failed")).1 := rfl
    rw [hm, (fr_processMessage g 4 (clearOp s) p n .internal sn _).2.2] at h
    have : (clearOp s).stalled = false := hs
    rw [this] at h; exact absurd h (by simp)
  | msg p n sn text =>
    exfalso
    have hm : (step g s (.msg p n sn text)).stalled = s.stalled := rfl
    rw [hm, hs] at h; exact absurd h (by simp)

/-- **bounded_response**: a proxy that at the start of a main loop is waiting, not held, has all prerequisites
satisfied and is within the runahead limit (already released, or at a point `≤` the limit that this loop
computes) is submitted — under its next submit number — by that very main loop, whatever else is in the pool
or in the message queue. (Sched v1: no pause, no queue limits, zero-delay retry timers.) -/
theorem bounded_response (g : Graph) (s : State) (h0 : s.stop = none) (p : Int) (n : String) (x : Proxy)
    (hx : s.get? p n = some x) (hw : x.status = .waiting) (hh : x.held = false) (hp : x.prereqsSatisfied = true)
    (hr : x.runahead = false ∨ ∃ lim, (computeRunahead g (clearOp s)).rhLimit = some lim ∧ x.pt ≤ lim) :
    (p, n, x.submitNum + 1) ∈ (step g s .loop).launched :=
  mainLoop_bounded_response g (clearOp s) h0 p n x hx hw hh hp hr

/-! ### the stronger reading of "no false stall" fails (recorded finding `stall-runahead-pending`) -/

/-- a task that can make progress without intervention: waiting, not held, prerequisites satisfied, and released
from the runahead pool or at a point within the current runahead limit (released by the next main loop) -/
def CanProgress (s : State) (x : Proxy) : Prop :=
  x.status = .waiting ∧ x.held = false ∧ x.prereqsSatisfied = true ∧
    (x.runahead = false ∨ ∃ lim, s.rhLimit = some lim ∧ x.pt ≤ lim)

/-- "a stall is reported only when no task can make further progress": FALSE on the current code -/
def stall_sound_full : Prop :=
  ∀ (g : Graph) (s : State) (op : Op), s.stalled = false → (step g s op).stalled = true →
    ∀ x ∈ (step g s op).pool, ¬ CanProgress (step g s op) x

/-- `a:x => b`, `a:x & b => c`, `a:x => !a` in one cycle -/
def exPending : Graph :=
  { icp := 1, fcp := 1, start := 1, runahead := 1, seqs := [[1]], stopPoint := some 1,
    tasks := [
      { name := "a",
        insts := [(1, { pre := [], sui := [{ atoms := [(⟨1, "a", "xx"⟩, false)], expr := none }],
                        children := [("xx", [⟨"b", 1, false⟩, ⟨"c", 1, false⟩, ⟨"a", 1, false⟩])],
                        nextParentless := none })],
        firstParentless := some 1, completion := CE.var "succeeded",
        outputs := [⟨"submitted", "submitted"⟩, ⟨"started", "started"⟩, ⟨"succeeded", "succeeded"⟩, ⟨"x", "xx"⟩] },
      { name := "b",
        insts := [(1, { pre := [{ atoms := [(⟨1, "a", "xx"⟩, false)], expr := none }], sui := [], children := [],
                        nextParentless := none })],
        firstParentless := none, completion := CE.var "succeeded", outputs := [] },
      { name := "c",
        insts := [(1, { pre := [{ atoms := [(⟨1, "a", "xx"⟩, false), (⟨1, "b", "succeeded"⟩, false)], expr := none }],
                        sui := [], children := [], nextParentless := none })],
        firstParentless := none, completion := CE.var "succeeded", outputs := [] }] }

/-- 1/a runs and the scheduler is quiescent; its `xx` message is in the queue -/
def sPending : State :=
  [Op.loop, .subres 1 "a" true 1, .msg 1 "a" 1 "started", .loop, .loop, .msg 1 "a" 1 "xx"].foldl
    (step exPending) (init exPending)

/-- The main loop that processes `xx` spawns 1/b (ready) and 1/c (waits for 1/b) and removes 1/a by its suicide
trigger; no pooled proxy is updated, so the loop ends with the stall check, which ignores the still
runahead-flagged 1/b and reports a stall — although 1/b is within the runahead limit and is submitted by the
next main loop. -/
theorem stall_sound_full_counterexample : ¬ stall_sound_full := by
  intro h
  have h1 := h exPending sPending .loop (by decide) (by decide)
  have hx : ∃ x ∈ (step exPending sPending .loop).pool,
      x.name = "b" ∧ x.status = .waiting ∧ x.held = false ∧ x.prereqsSatisfied = true ∧ x.runahead = true ∧ x.pt ≤ 1 := by
    decide
  obtain ⟨x, hxm, _, hw, hh, hp, _, hle⟩ := hx
  exact h1 x hxm ⟨hw, hh, hp, Or.inr ⟨1, by decide, hle⟩⟩

-- … and the very next main loop submits it
example : (step exPending (step exPending sPending .loop) .loop).launched = [(1, "b", 1)] := by decide

/-! ### non-vacuity -/

/-- stop point before the only instance: the pool holds one runahead-limited proxy and the first main loop shuts down -/
def exShutdown : Graph :=
  { icp := 1, fcp := 1, start := 1, runahead := 1, seqs := [[1]], stopPoint := some 0,
    tasks := [
      { name := "a",
        insts := [(1, { pre := [], sui := [], children := [], nextParentless := none })],
        firstParentless := some 1, completion := CE.var "succeeded", outputs := [] }] }

example : (init exShutdown).stop = none ∧ (step exShutdown (init exShutdown) .loop).stop = some "AUTOMATIC" ∧
    ((step exShutdown (init exShutdown) .loop).pool.map fun x => (x.pt, x.status, x.runahead)) =
      [(1, Status.waiting, true)] := by decide

/-- a task whose completion expression cannot become true: it finishes incomplete and the workflow stalls -/
def exStall : Graph :=
  { icp := 1, fcp := 1, start := 1, runahead := 1, seqs := [[1]], stopPoint := some 1,
    tasks := [
      { name := "a",
        insts := [(1, { pre := [], sui := [], children := [], nextParentless := none })],
        firstParentless := some 1, completion := CE.var "x", outputs := [] }] }

example :
    ((run exStall [.loop, .subres 1 "a" true 1, .msg 1 "a" 1 "succeeded", .loop, .loop]).map fun s => s.stalled) =
      [false, false, false, false, false, true] := by decide

/-- three instances of a parentless task, stop point 2, limit P3: 1/a and 2/a are ready at start-up -/
def exReady : Graph :=
  { icp := 1, fcp := 3, start := 1, runahead := 3, seqs := [[1, 2, 3]], stopPoint := some 2,
    tasks := [
      { name := "a",
        insts := [(1, { pre := [], sui := [], children := [], nextParentless := some 2 }),
                  (2, { pre := [], sui := [], children := [], nextParentless := some 3 }),
                  (3, { pre := [], sui := [], children := [], nextParentless := none })],
        firstParentless := some 1, completion := CE.var "succeeded", outputs := [] }] }

example : ((init exReady).get? 2 "a").map (fun x => (x.status, x.held, x.prereqsSatisfied, x.runahead)) =
      some (Status.waiting, false, true, false) ∧
    (init exReady).stop = none ∧ (step exReady (init exReady) .loop).launched = [(1, "a", 1), (2, "a", 1)] := by decide

end CylcModel.C03
