/-
C11 (scheduler level) — a finished task is removed from the pool exactly when its completion expression
is true over its completed outputs, otherwise it is retained as incomplete.
(The expression-level half of C11 — the default completion expression — is `Props/C11.lean`.)
Statements only; lemmas are in `SchedLemmasC11S`.
-/
import CylcModel.SchedLemmasC11S
namespace CylcModel.C11S
open CylcModel.Sched

/-- **`remove_if_complete`, exactly**: an unfinished proxy is left alone; a finished one is retained
(state unchanged) when its completion expression is false over its completed outputs, and removed — no proxy
with its key remains, the removal is recorded with status and outputs — when the expression is true. -/
theorem removeIfComplete_exact (g : Graph) (s : State) (x : Proxy) :
    (x.status.isFinal = false → removeIfComplete g s x = s) ∧
    (∀ t, g.task? x.name = some t → x.status.isFinal = true →
      (isComplete t x.done = false → removeIfComplete g s x = s) ∧
      (isComplete t x.done = true →
        (∀ y ∈ (removeIfComplete g s x).pool, ¬ (y.pt = x.pt ∧ y.name = x.name)) ∧
        (∃ h ∈ (removeIfComplete g s x).hist, h.pt = x.pt ∧ h.name = x.name ∧ h.status = x.status ∧ h.done = x.done))) := by
  refine ⟨?_, ?_⟩
  · intro hnf; unfold removeIfComplete; simp [hnf]
  · intro t ht hf
    refine ⟨?_, ?_⟩
    · intro hc; unfold removeIfComplete; simp [hf, ht, hc]
    · intro hc
      have : removeIfComplete g s x = remove g s x := by unfold removeIfComplete; simp [hf, ht, hc]
      rw [this]
      unfold remove
      refine ⟨?_, ?_⟩
      · intro y hy hk
        simp only at hy
        have := (List.mem_filter.mp hy).2
        simp [hk.1, hk.2] at this
      · exact ⟨⟨x.pt, x.name, x.status, x.submitNum, x.done⟩, by simp, rfl, rfl, rfl, rfl⟩

/-- **After every output of a live proxy has been processed** (`spawn_on_output`, which `process_message`
calls for `submitted`, `started`, `succeeded`, `failed`, `submit-failed` and every newly completed custom
output) the proxy is still in the pool only if it is unfinished or incomplete — over its FULL set of
completed outputs. -/
theorem after_output_pooled_only_if_incomplete (g : Graph) (s : State) (hn : (s.pool.map fun x => (x.pt, x.name)).Nodup)
    (p : Int) (n out : String) :
    ∀ z ∈ (spawnOnOutput g s p n out).pool, z.pt = p → z.name = n → z.status.isFinal = true →
      ∀ t, g.task? n = some t → isComplete t z.done = false :=
  spawnOnOutput_key_exact hn p n out

/-- **History revival**: `spawn_task` never puts an instance back that the DB records as finished and complete. -/
theorem revived_only_if_incomplete (g : Graph) (s : State) (n : String) (p : Int) (x : Proxy)
    (h : spawnTask g s n p = some x) :
    x.status.isFinal = true → ∀ t, g.task? n = some t → isComplete t x.done = false :=
  spawnTask_exact h

/-- **Run invariant** (all instance graphs, all op lists, any fuel): at every operation boundary no pooled
proxy is finished and complete on the strength of its outputs other than the implied `submitted` / `started`. -/
theorem no_finished_complete_modulo_implied (g : Graph) (ops : List Op) :
    ∀ s ∈ run g ops, ∀ x ∈ s.pool, x.status.isFinal = true →
      ∀ t, g.task? x.name = some t → isComplete t (core x.done) = false :=
  fun s hs x hx => (allP_iff.mp (R_run g ops s hs).2) x hx

/-- **Run invariant, full output set**, for every task whose completion expression does not mention
`submitted` / `started` (`indepImplied`, decidable; true of every task without a `:submit` / `:start` trigger):
at every operation boundary a pooled finished proxy is incomplete. -/
theorem no_finished_complete_partial (g : Graph) (ops : List Op) :
    ∀ s ∈ run g ops, ∀ x ∈ s.pool, x.status.isFinal = true →
      ∀ t, g.task? x.name = some t → indepImplied t = true → isComplete t x.done = false := by
  intro s hs x hx hf t ht hi
  rw [← isComplete_core t x.done hi]
  exact no_finished_complete_modulo_implied g ops s hs x hx hf t ht

/-- The unrestricted statement (NOT proved here): needs that a proxy which reached `failed`/`succeeded`
already has `submitted` and `started` among its outputs — true of `processMessage` only with enough fuel
for the implied-output recursion (the model runs it with fuel 4, depth needed 3). -/
def no_finished_complete_full : Prop :=
  ∀ (g : Graph) (ops : List Op), ∀ s ∈ run g ops, ∀ x ∈ s.pool, x.status.isFinal = true →
    ∀ t, g.task? x.name = some t → isComplete t x.done = false

/-! ### non-vacuity -/

/-- one task whose completion expression names an output it does not have: it can only finish incomplete
(the kernel cannot evaluate `String.replace`, hence no example that needs `compVar` to be computed) -/
def exGraph : Graph :=
  { icp := 1, fcp := 1, start := 1, runahead := 1, seqs := [[1]], stopPoint := some 1,
    tasks := [
      { name := "a",
        insts := [(1, { pre := [], sui := [], children := [], nextParentless := none })],
        firstParentless := some 1,
        completion := CE.var "x",
        outputs := [] }] }

-- the job succeeds, the proxy is finished but incomplete: it is retained, and the workflow stalls
example :
    ((run exGraph [.loop, .subres 1 "a" true 1, .msg 1 "a" 1 "succeeded", .loop, .loop]).getLast?.map fun s =>
      (s.pool.map fun x => (x.pt, x.name, x.status), s.stalled, s.hist.length)) =
      some ([(1, "a", Status.succeeded)], true, 0) := by decide

example : indepImplied
    { name := "a", insts := [], firstParentless := none, completion := CE.var "x", outputs := [] } = true := by decide

-- removal when complete: `removeIfComplete` on a finished proxy whose expression is true (stated with the
-- evaluation of the expression as a hypothesis, see above)
example (t : TaskDefn) (x : Proxy) (g : Graph) (s : State) (ht : g.task? x.name = some t)
    (hf : x.status = .succeeded) (hc : isComplete t x.done = true) (_hx : x ∈ s.pool) :
    x ∉ (removeIfComplete g s x).pool := by
  intro hm
  exact ((removeIfComplete_exact g s x).2 t ht (by rw [hf]; rfl)).2 hc |>.1 x hm ⟨rfl, rfl⟩

end CylcModel.C11S
