/-
C09 — Task status transitions follow the lifecycle; outputs are monotone; implied outputs.

Statements only; proofs by reference to `SchedLemmasC09` (Part A: the per-task message step function
`Msg.step`; Part B: `Sched.processMessage` acts on the addressed proxy exactly as `Msg.step`).

Reading of the property text.  "changes along the lifecycle": the status moves *forward* in the order
waiting → preparing → submitted → running → succeeded | failed (submit-failed from waiting / preparing /
submitted, expired from waiting), stages may be skipped forward once a job exists ("started before
submitted" is an event order the property quantifies over), or returns to waiting from preparing / submitted /
running for an automatic retry (`Msg.Allowed`).  Out of waiting the only steps are job preparation and
expiry: a task waiting for its automatic retry is never moved by the job that failed
(`retry_pending_ignored`).  The full statement is false on cylc-flow: `lifecycle_full` /
`lifecycle_counterexample`; what holds is `lifecycle_partial`, for every input outside the explicit
set `Msg.Deviant` (findings believed-reversal and final-not-terminal).
-/
import CylcModel.SchedLemmasC09b
namespace CylcModel.C09
open CylcModel.Sched CylcModel.Msg

/-! ### the example task / graph of the non-vacuity examples -/

def exT : TaskDefn :=
  { name := "a",
    insts := [(1, { pre := [], sui := [], children := [], nextParentless := none })],
    firstParentless := some 1,
    completion := CE.and (CE.var "succeeded") (CE.var "x"),
    outputs := [⟨"submitted", "submitted"⟩, ⟨"started", "started"⟩, ⟨"succeeded", "succeeded"⟩,
                ⟨"failed", "failed"⟩, ⟨"submit-failed", "submit-failed"⟩, ⟨"x", "xx"⟩],
    execRetries := 1 }

def exGraph : Graph :=
  { icp := 1, fcp := 1, start := 1, runahead := 1, seqs := [[1]], stopPoint := some 1, tasks := [exT] }

/-- a proxy of the example task in a given status with given outputs, first job -/
def exP (st : Status) (done : List String) : PS :=
  { x := { pt := 1, name := "a", status := st, submitNum := 1, done := done, runahead := false }, tr := false }

theorem exT_std : StdOut (some exT) := by unfold StdOut; decide

/-! ### outputs are monotone -/

/-- **completed outputs are never un-completed** by a message — any flag, submit number, text and fuel;
the proxy keeps its identity and submit number, and a transient object stays transient. -/
theorem outputs_monotone (ot : Option TaskDefn) (fuel : Nat) (ps : PS) (flag : Flag) (sn : Nat) (msg : String) :
    (∀ m, m ∈ ps.x.done → m ∈ (step ot fuel ps flag sn msg).1.x.done) ∧
    (step ot fuel ps flag sn msg).1.x.submitNum = ps.x.submitNum ∧
    (step ot fuel ps flag sn msg).1.x.pt = ps.x.pt ∧ (step ot fuel ps flag sn msg).1.x.name = ps.x.name :=
  let h := step_frame ot fuel ps flag sn msg
  ⟨h.done, h.sn, h.pt, h.name⟩

/-- … and so by any sequence of deliveries (duplicates, stale and out-of-order messages, poll results) -/
theorem outputs_monotone_deliver (ot : Option TaskDefn) (ps : PS) (ms : List Dlv) :
    ∀ m, m ∈ ps.x.done → m ∈ (deliver ot ps ms).x.done := by
  have : ∀ (ms : List Dlv) (q : PS), Frame q (deliver ot q ms) := by
    intro ms; induction ms with
    | nil => intro q; exact Frame.refl _
    | cons m ms ih => intro q; exact Frame.trans (step_frame ot 4 q m.flag m.sn m.text) (ih _)
  exact (this ms ps).done

example : (step (some exT) 4 (exP .running ["submitted", "started"]) .received 1 "xx").1.x.done =
    ["submitted", "started", "xx"] := by decide

/-! ### implied outputs (and status / outputs consistency) -/

/-- **whenever succeeded or failed is complete, submitted and started are complete too** — together with:
a running / succeeded / failed task has submitted and started complete, a submitted task has submitted
complete (`Msg.Good`).  Preserved by every message whatsoever, for tasks with the standard outputs. -/
theorem implied_outputs (ot : Option TaskDefn) (hs : StdOut ot) (f : Nat) (ps : PS) (flag : Flag) (sn : Nat)
    (msg : String) (hg : Good ps.x) : Good (step ot (f + 3) ps flag sn msg).1.x :=
  good_step ot hs f ps flag sn msg hg

/-- … hence by any sequence of deliveries, from any consistent proxy (a new proxy is consistent) -/
theorem implied_outputs_deliver (ot : Option TaskDefn) (hs : StdOut ot) (ps : PS) (ms : List Dlv)
    (hg : Good ps.x) : Good (deliver ot ps ms).x := by
  have : ∀ (ms : List Dlv) (q : PS), Good q.x → Good (deliver ot q ms).x := by
    intro ms; induction ms with
    | nil => intro q hq; exact hq
    | cons m ms ih => intro q hq; exact ih _ (good_step ot hs 1 q m.flag m.sn m.text hq)
  exact this ms ps hg

theorem good_new (x : Proxy) (h : x.status = .waiting ∨ x.status = .preparing) (hd : x.done = []) : Good x := by
  unfold Good; rw [hd]; rcases h with h | h <;> simp [h]

/-- succeeded arriving before started and submitted: the implied outputs are completed first -/
example : (step (some exT) 4 (exP .preparing []) .received 1 "succeeded").1.x.status = .succeeded ∧
    "submitted" ∈ (step (some exT) 4 (exP .preparing []) .received 1 "succeeded").1.x.done ∧
    "started" ∈ (step (some exT) 4 (exP .preparing []) .received 1 "succeeded").1.x.done := by
  obtain ⟨e, _, hst, _⟩ := sum_succeeded (some exT) exT_std 1 (exP .preparing []) .received 1 (by decide)
  exact ⟨hst, (e "submitted").mpr (by simp), (e "started").mpr (by simp)⟩

/-! ### lifecycle -/

/-- the full statement of the property: every non-forced message moves a consistent proxy along the lifecycle -/
def lifecycle_full : Prop :=
  ∀ (ot : Option TaskDefn), StdOut ot → ∀ (ps : PS) (flag : Flag) (sn : Nat) (msg : String), Good ps.x →
    Allowed ps.x.status (step ot 4 ps flag sn msg).1.x.status = true

/-- cylc-flow believes poll results: a late `started` poll result takes a succeeded task back to running
(finding believed-reversal) … -/
theorem lifecycle_counterexample : ¬ lifecycle_full := by
  intro h
  have := h (some exT) exT_std (exP .succeeded ["submitted", "started", "succeeded"]) .polled 1 "started"
    (by unfold Good; decide)
  revert this; decide

/-- … and a job message after submit-failed is accepted (finding final-not-terminal) -/
theorem lifecycle_counterexample_received :
    Allowed .submitFailed
      (step (some exT) 4 (exP .submitFailed ["submit-failed"]) .received 1 "started").1.x.status = false := by
  obtain ⟨_, ⟨s2, hs2, hb⟩, _⟩ :=
    sum_started (some exT) exT_std 2 (exP .submitFailed ["submit-failed"]) .received 1 (by decide)
  have h2 : s2 = .submitFailed := by
    rcases hs2 with h | ⟨h, _⟩
    · exact h
    · exact absurd h (by decide)
  subst h2
  rcases hb with ⟨_, _, hr, _⟩ | ⟨_, _, hst⟩
  · exact absurd hr (by decide)
  · rw [hst]; decide

/-- **lifecycle**: outside the by-design deviations `Msg.Deviant`, a message moves the status forward
along the lifecycle or back to waiting for an automatic retry — and a return to waiting happens only on
a failure event while a retry is left, advancing that retry counter by one. -/
theorem lifecycle_partial (ot : Option TaskDefn) (hs : StdOut ot) (f : Nat) (ps : PS) (flag : Flag) (sn : Nat)
    (msg : String) (hg : Good ps.x) (hdev : Deviant ot flag ps.x msg = false) :
    Allowed ps.x.status (step ot (f + 3) ps flag sn msg).1.x.status = true ∧
    ((step ot (f + 3) ps flag sn msg).1.x.status = .waiting → ps.x.status ≠ .waiting →
      ((msg = "failed" ∧ ps.x.execTry < execMax ot ∧
          (step ot (f + 3) ps flag sn msg).1.x.execTry = ps.x.execTry + 1) ∨
       (msg = "submit-failed" ∧ ps.x.subTry < subMax ot ∧
          (step ot (f + 3) ps flag sn msg).1.x.subTry = ps.x.subTry + 1))) :=
  lifecycle_step ot hs f ps flag sn msg hg hdev

/-- **a task waiting for its automatic retry is not moved by the job that failed**: while the proxy is
waiting under the submit number of the failed job with a retry consumed, every message — duplicates and late
messages of that job, its poll results, submit results; any flag, text, submit number — is dropped: status,
outputs, try counters unchanged, no poll. -/
theorem retry_pending_ignored (ot : Option TaskDefn) (fuel : Nat) (ps : PS) (flag : Flag) (sn : Nat) (msg : String)
    (htr : ps.tr = false) (hw : ps.x.status = .waiting) (hsn : ps.x.submitNum > 0)
    (htry : ps.x.subTry > 0 ∨ ps.x.execTry > 0) : step ot fuel ps flag sn msg = (ps, false) :=
  retry_pending_dropped ot fuel ps flag sn msg htr hw hsn htry

/-- … and at the scheduler level the whole state is unchanged, for every instance graph and state -/
theorem retry_pending_ignored_sched (g : Graph) (fuel : Nat) (s : State) (p : Int) (n : String) (x : Proxy)
    (flag : Flag) (sn : Nat) (msg : String) (h : s.get? p n = some x) (hw : x.status = .waiting)
    (hsn : x.submitNum > 0) (htry : x.subTry > 0 ∨ x.execTry > 0) :
    processMessage g fuel s p n flag sn msg = (s, false) := by
  cases fuel with
  | zero => unfold processMessage; rfl
  | succ fuel =>
    unfold processMessage
    have hl : lookup s p n = some (x, false) := by unfold lookup; rw [h]
    simp only [hl]
    rcases htry with ht | ht <;> simp [hw, hsn, ht]

/-- the guard is what the example needs: a retried task waiting under job 1 ignores the late `started` -/
example : (step (some exT) 4 ⟨{ (exP .waiting ["submitted", "started"]).x with execTry := 1 }, false⟩
    .polled 1 "started").1.x.status = .waiting := by decide

/-- consecutive statuses of a trace respect the lifecycle -/
def Lifecycle : List Status → Prop
  | [] => True
  | [_] => True
  | a :: b :: rest => Allowed a b = true ∧ Lifecycle (b :: rest)

/-- no delivery of the sequence is one of the by-design deviations (in the state it is delivered in) -/
def NoDeviation (ot : Option TaskDefn) : PS → List Dlv → Prop
  | _, [] => True
  | ps, m :: ms => Deviant ot m.flag ps.x m.text = false ∧ NoDeviation ot (step ot 4 ps m.flag m.sn m.text).1 ms

/-- **lifecycle over arbitrary delivery sequences** (any interleaving of duplicates, stale and
out-of-order messages and poll results without a by-design deviation) -/
theorem lifecycle_trace (ot : Option TaskDefn) (hs : StdOut ot) :
    ∀ (ms : List Dlv) (ps : PS), Good ps.x → NoDeviation ot ps ms → Lifecycle (trace ot ps ms) := by
  intro ms; induction ms with
  | nil => intro ps _ _; exact trivial
  | cons m ms ih =>
    intro ps hg hnd
    have h1 := (lifecycle_step ot hs 1 ps m.flag m.sn m.text hg hnd.1).1
    have h2 := ih (step ot 4 ps m.flag m.sn m.text).1 (good_step ot hs 1 ps m.flag m.sn m.text hg) hnd.2
    cases ms with
    | nil => exact ⟨h1, trivial⟩
    | cons m' ms' => exact ⟨h1, h2⟩

/-- started before the submit result, a duplicate, a stale message of job 0, then the outcome -/
example : trace (some exT) (exP .preparing [])
    [⟨.received, 1, "started"⟩, ⟨.internal, 1, "submitted"⟩, ⟨.received, 1, "started"⟩,
     ⟨.received, 0, "failed"⟩, ⟨.received, 1, "failed"⟩] =
    [.preparing, .running, .running, .running, .running, .waiting] := by decide

example : NoDeviation (some exT) (exP .preparing [])
    [⟨.received, 1, "started"⟩, ⟨.internal, 1, "submitted"⟩, ⟨.received, 1, "failed"⟩] := by
  unfold NoDeviation NoDeviation NoDeviation NoDeviation; decide

/-! ### the scheduler-level lift: `Sched.processMessage` is `Msg.step` on the addressed proxy -/

/-- **Simulation.**  For every instance graph in which no task instance is its own graph child, every state
in which (p, n) has a live proxy or transient object `ps` not shadowed by an older transient object, and
every message: after `Sched.processMessage` the proxy / transient object of (p, n) is exactly
`Msg.step` of `ps`, the poll request is the same, and the shadowing condition is kept.  Spawning of
children, suicide triggers, removal on completion, parentless spawning and DB history all happen around it. -/
theorem processMessage_is_step (g : Graph) (hwf : noSelfChild g = true) (p : Int) (n : String) (fuel : Nat)
    (s : State) (ps : PS) (flag : Flag) (sn : Nat) (msg : String) (h : Sim p n s ps) :
    Sim p n (processMessage g fuel s p n flag sn msg).1 (step (g.task? n) fuel ps flag sn msg).1 ∧
    (processMessage g fuel s p n flag sn msg).2 = (step (g.task? n) fuel ps flag sn msg).2 :=
  pm_sim g hwf p n fuel s ps flag sn msg h

theorem sim_of_get (s : State) (p : Int) (n : String) (x : Proxy) (h : s.get? p n = some x) (hg : s.ghosts = []) :
    Sim p n s ⟨x, false⟩ := by
  refine ⟨by unfold lookup; rw [h], ?_⟩
  intro _ y hy; rw [hg] at hy; simp at hy

theorem stdOut_of_graph (g : Graph) (hso : stdOutputs g = true) (n : String) (t : TaskDefn)
    (ht : g.task? n = some t) : StdOut (g.task? n) := by
  rw [ht]
  have htm : t ∈ g.tasks := List.mem_of_find?_eq_some ht
  unfold stdOutputs at hso
  have := List.all_eq_true.mp hso t htm
  simpa [StdOut] using this

/-- **Lifecycle, outputs and consistency at the scheduler level**: a job message (submit result, received
message, poll result) processed by `Sched.processMessage` in ANY consistent state (`GoodState`: every pooled
proxy consistent and of a task of the graph, every DB record consistent or of a finished complete instance —
every state reached in a run is one, `implied_outputs_run`): if (p, n) is still pooled afterwards it is
`Msg.step` of the proxy before, so its outputs have only grown, it is consistent, and — unless the input is a
by-design deviation — its status moved along the lifecycle. -/
theorem sched_message (g : Graph) (hwf : noSelfChild g = true) (hso : stdOutputs g = true)
    (s : State) (p : Int) (n : String) (x : Proxy) (hg : GoodState g s) (h : s.get? p n = some x)
    (flag : Flag) (sn : Nat) (msg : String) (x' : Proxy)
    (h' : (processMessage g 4 s p n flag sn msg).1.get? p n = some x') :
    x' = (step (g.task? n) 4 ⟨x, false⟩ flag sn msg).1.x ∧
    (∀ m, m ∈ x.done → m ∈ x'.done) ∧ x'.submitNum = x.submitNum ∧ Good x' ∧
    (Deviant (g.task? n) flag x msg = false → Allowed x.status x'.status = true) := by
  have heq := pm_pool g hwf s p n x x' hg h flag sn msg h'
  have hxm : x ∈ s.pool := List.mem_of_find?_eq_some h
  have hxk := get?_some_key h
  obtain ⟨hgx, htx⟩ := hg.1 x hxm
  have hst : StdOut (g.task? n) := stdOut_of_task g hso n (by rw [← hxk.2]; exact htx)
  have hfr := step_frame (g.task? n) 4 ⟨x, false⟩ flag sn msg
  refine ⟨heq, ?_⟩
  rw [heq]
  exact ⟨hfr.done, hfr.sn, good_step (g.task? n) hst 1 ⟨x, false⟩ flag sn msg hgx,
    fun hd => (lifecycle_step (g.task? n) hst 1 ⟨x, false⟩ flag sn msg hgx hd).1⟩

/-! ### invariants of every run of the scheduler model -/

/-- **Every pooled proxy of every state of every run is consistent**: for every instance graph without
self-children whose tasks have the standard outputs, every op list (main loops, submit results, job messages
— any order, duplicated, stale — poll results; no job-vacation messages, see `vacation_step`): a running / succeeded / failed task has submitted and started
complete, a submitted task has submitted complete, and **whenever succeeded or failed is complete, submitted
and started are complete too**. -/
theorem implied_outputs_run (g : Graph) (hwf : noSelfChild g = true) (hso : stdOutputs g = true) (ops : List XOp)
    (hv : ∀ op ∈ ops, op.notVacation = true) : ∀ s ∈ runX g ops, ∀ x ∈ s.pool, Good x :=
  fun s hs x hx => ((good_runX g hwf hso ops hv s hs).2.1 x hx).1

/-- **Lifecycle in every run, for the ops that deliver one message** (a submit result: internal flag; a poll
result of the current job: polled flag): from every reached state, unless the input is a by-design
deviation, the status of the addressed proxy moves along the lifecycle (and it stays consistent, with its
outputs grown).  Received messages are processed in batches by the main loop, each message from a state
that satisfies the same invariant (`sched_message` applies to each of them). -/
theorem lifecycle_run (g : Graph) (hwf : noSelfChild g = true) (hso : stdOutputs g = true) (ops : List XOp)
    (hv : ∀ op ∈ ops, op.notVacation = true) :
    ∀ s ∈ runX g ops, ∀ (p : Int) (n : String) (x x' : Proxy) (flag : Flag) (sn : Nat) (msg : String),
      s.get? p n = some x → Deviant (g.task? n) flag x msg = false →
      (processMessage g 4 (clearOp s) p n flag sn msg).1.get? p n = some x' →
      Allowed x.status x'.status = true := by
  intro s hs p n x x' flag sn msg h hd h'
  have hg : GoodState g (clearOp s) := good_eq g s _ rfl rfl (good_runX g hwf hso ops hv s hs).2
  exact (sched_message g hwf hso (clearOp s) p n x hg h flag sn msg x' h').2.2.2.2 hd

/-! ### run signals and job vacation -/

/-- a failure reported with a run signal, or an abort, is the message `failed` (`split_run_signal`); other
texts, including a bare `aborted`, are taken as they are -/
example : canon "failed/ERR" = "failed" ∧ canon "failed/SIGTERM" = "failed" ∧ canon "aborted/by the job" = "failed" ∧
    canon "failed" = "failed" ∧ canon "aborted" = "aborted" ∧ canon "started" = "started" ∧
    canon "xx/y" = "xx/y" ∧ splitRunSignal "failed/EXIT" = ("failed", some "EXIT") := by decide

/-- **a vacation message (`vacated/<SIGNAL>`: the batch system pre-empted the job) never touches the
outputs, the identity or the submit number**; it is the one designed step back in the lifecycle
(running → submitted, finding job-vacated), and it keeps a proxy consistent when the job had been submitted. -/
theorem vacation_step (g : Graph) (x : Proxy) :
    (vacateProxy x).done = x.done ∧ (vacateProxy x).submitNum = x.submitNum ∧
    (vacateProxy x).pt = x.pt ∧ (vacateProxy x).name = x.name ∧
    ((vacateProxy x).status = x.status ∨ (vacateProxy x).status = .submitted) ∧
    (GoodT g x → "submitted" ∈ x.done → GoodT g (vacateProxy x)) := by
  refine ⟨?_, ?_, ?_, ?_, ?_, goodT_vacate g x⟩ <;> unfold vacateProxy <;> split <;> try split
  all_goals simp [reset_done, reset_submitNum, reset_pt, reset_name, reset_status_some, reset_status_none]

example : (vacateProxy (exP .running ["submitted", "started"]).x).status = .submitted := by decide

/-- `runX` extends `Sched.run`: op lists without poll results give the same states -/
theorem runX_base (g : Graph) (ops : List Op) : runX g (ops.map XOp.base) = run g ops := by
  unfold runX run
  have : ∀ (ops : List Op) (acc : List State × State),
      (List.foldl (fun (acc : List State × State) op => let s' := stepX g acc.2 op; (acc.1 ++ [s'], s')) acc
        (ops.map XOp.base)) =
      (List.foldl (fun (acc : List State × State) op => let s' := Sched.step g acc.2 op; (acc.1 ++ [s'], s')) acc ops) := by
    intro ops; induction ops with
    | nil => intro acc; rfl
    | cons op ops ih => intro acc; simp only [List.map_cons, List.foldl_cons, stepX]; exact ih _
  rw [this]

/-! ### outputs are monotone in every run of the scheduler model -/

/-- **Completed outputs are never un-completed in any run**: for every instance graph, every op list
(main loops, submit results, job messages, poll results) and every state `s` reached, one more op leaves
every output that is on record for any task instance on record — `recDone`: the outputs of the pooled
proxy of the instance, or, when it is not in the pool, of its latest DB record (from which a respawn
starts).  In particular the outputs of a proxy that stays in the pool only grow, and a proxy that is
removed and respawned gets all its outputs back. -/
theorem outputs_monotone_run (g : Graph) (ops : List XOp) :
    ∀ s ∈ runX g ops, ∀ (op : XOp) (p : Int) (n : String) (m : String),
      m ∈ recDone s p n → m ∈ recDone (stepX g s op) p n :=
  fun s hs op p n m hm => (mono_stepX g s op (nodup_runX g ops s hs)).le p n m hm

/-- the special case of a proxy that is pooled before and after the op -/
theorem outputs_monotone_pooled (g : Graph) (ops : List XOp) (s : State) (hs : s ∈ runX g ops) (op : XOp)
    (p : Int) (n : String) (x x' : Proxy) (h : s.get? p n = some x) (h' : (stepX g s op).get? p n = some x') :
    ∀ m, m ∈ x.done → m ∈ x'.done := by
  intro m hm
  have := outputs_monotone_run g ops s hs op p n m (by unfold recDone; rw [h]; exact hm)
  unfold recDone at this; rw [h'] at this; exact this

/-- the example graph satisfies the hypotheses of the lift -/
example : noSelfChild exGraph = true ∧ stdOutputs exGraph = true := by decide

/-- a run of the scheduler model with a poll result: prepared, submitted, poll result `started` of job 1;
the poll result of a job 0 that does not exist is dropped -/
example : ((runX exGraph [.base .loop, .base (.subres 1 "a" true 1), .poll 1 "a" 0 "succeeded",
      .poll 1 "a" 1 "started"]).map fun s => s.pool.map fun x => (x.status, x.done)) =
    [[(.waiting, [])], [(.preparing, [])], [(.submitted, ["submitted"])], [(.submitted, ["submitted"])],
     [(.running, ["submitted", "started"])]] := by
  decide

end CylcModel.C09
