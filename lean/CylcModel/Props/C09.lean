/-
C09 — placeholder while the lemma files are being written.
-/
import CylcModel.Msg
namespace CylcModel.C09
end CylcModel.C09
