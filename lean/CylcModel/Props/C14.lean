/-
C14 — Graph parsing is faithful and insensitive to presentation.

Models (lean/CylcModel/Graph.lean): `parseText` (text model: port of `GraphParser.parse_graph` on
characters), `parseStruct` / `parseStructWith` (structure model on graph ASTs: `SLine` = a lone
conjunction of nodes or a chain `head => c₁ => c₂ ...`).  Lemmas: lean/CylcModel/GraphLemmas.lean.

What is proved here, for every input (no bound on sizes):

* text layer  — `text_layer`, `parse_text_of_layout`: every layout of token lines (any white space at
  token boundaries, comments, blank / comment-only lines, line breaks next to `=>` `&` `|`) is read as
  the same canonical lines;
* structure layer — `lines_set_invariant` (duplicated lines and the order of lines do not matter),
  `chain_vs_pairs` (a chain cut at an inner element into two chains gives the same tables, given the
  mid-chain inference), `chain_vs_pairs_code` (the same for the code as probed),
  `chain_vs_pairs_counterexample` (it fails without that inference: the unchanged code);
* faithfulness — `triggers_recorded`, `triggers_origin`, `expression_meaning`: the recorded trigger
  expressions are exactly the written left-hand sides, and mean them; `optionality_recorded`,
  `optionality_origin`: the optionality table holds what the right-hand / lone nodes say;
* `node_text_injective`: valid node texts determine their nodes;
* malformed text — `malformed_rejected_partial_*`: leading / dangling operators, doubled operators, names
  separated by white space, bad nodes (on the checked lines) are rejected with GraphParseError.

Not proved (tied by the correspondence runs only): that `parseText` of canonical lines equals
`parseStruct` of the AST (the node / expression lexing of well-formed lines), and that *every* text
outside the grammar is rejected (false on the unchanged code: findings/C14.json).
-/
import CylcModel.GraphLemmas

namespace CylcModel.C14
open CylcModel.Graph CylcModel.Generated.GraphTables

/-! ### the generated tables are the ones the statements are about (K-T) -/

/-- operator strings, alternative qualifiers and the character classes the proofs rely on, as found in
the live source -/
theorem tables_ok :
    continuationStrs = [['=', '>'], ['&'], ['|']] ∧ badStrs = [['&', '&'], ['|', '|']] ∧ arrow = ['=', '>'] ∧
    stdQual "succeed".toList = "succeeded".toList ∧ stdQual "fail".toList = "failed".toList ∧
    stdQual "finish".toList = "finished".toList ∧ stdQual "start".toList = "started".toList ∧
    stdQual "submit".toList = "submitted".toList ∧ stdQual "submit-fail".toList = "submit-failed".toList ∧
    stdQual "expire".toList = "expired".toList ∧
    outSucceeded = "succeeded".toList ∧ outFailed = "failed".toList ∧ outFinished = "finished".toList ∧
    fullCls = nodesCls ∧ rhsCls = nodesCls ∧
    (∀ c ∈ ['&', '|', '(', ')', '=', '>', '!', '#', '?', ':', '[', ']', ' '], nodesCls.nameRest.contains c = false) ∧
    isWs ' ' = true ∧ isWs '\t' = true ∧ isWs '\n' = true := by
  decide

/-- **Whole nodes only.**  When `_proc_dep_pair` / `_compute_triggers` rewrite a node inside a recorded
expression (alias → standard qualifier, plain name → `:succeeded`, `:finished` → succeeded-or-failed) the
look-around sets of the live regexes stop the match wherever the text could continue as a longer node:
after a qualifier no qualifier character, `:` or `[` may follow; after a name no name character, `:` or
`[`; before a node no name character, `:`, `[` or `^`.  (So `a:submit` is not rewritten inside
`a:submit-fail`, `a` not inside `a-x`, `x-a` or `a[-P1]`.) -/
theorem rewrite_boundaries_ok :
    (∀ c ∈ nodesCls.qual, qualEndBlock.contains c = true) ∧ qualEndBlock.contains ':' = true ∧
    qualEndBlock.contains '[' = true ∧
    (∀ c ∈ nodesCls.nameRest, nameEndBlock.contains c = true) ∧ nameEndBlock.contains ':' = true ∧
    nameEndBlock.contains '[' = true ∧
    (∀ c ∈ nodesCls.nameRest, nodeStartBlock.contains c = true) ∧ nodeStartBlock.contains ':' = true ∧
    nodeStartBlock.contains '[' = true ∧ nodeStartBlock.contains '^' = true := by
  decide

/-! ### text layer -/

/-- **Text layer.** Any layout of token lines — white space at token boundaries, trailing comments,
blank and comment-only lines anywhere, line breaks (with their own comments and blank lines) next to
`=>`, `&` or `|` — is read by the first two loops of `parse_graph` as the canonical lines
(the tokens without any white space), in order. -/
theorem text_layer (pre : List Blank) (ls : List LLine) (hpre : ∀ b ∈ pre, BlankOk b)
    (hls : ∀ l ∈ ls, LineOk l) :
    fullLines (renderText pre ls) = some (ls.map LLine.canon) :=
  fullLines_render pre ls hpre hls

/-- the same with the executable layout check the driver runs on every generated form -/
theorem text_layer_checked (pre : List Blank) (ls : List LLine) (hpre : pre.all blankOkB = true)
    (hls : ls.all lineOkB = true) :
    fullLines (renderText pre ls) = some (ls.map LLine.canon) := by
  rw [List.all_eq_true] at hpre hls
  exact fullLines_render pre ls (fun b hb => blankOk_of_B (hpre b hb)) (fun l hl => lineOk_of_B (hls l hl))

/-- **Presentation at the text level.** Two layouts of the same token lines parse to the same result,
whatever the token lines are (well-formed or not). -/
theorem parse_text_of_layout (pre pre' : List Blank) (ls ls' : List LLine)
    (hpre : ∀ b ∈ pre, BlankOk b) (hpre' : ∀ b ∈ pre', BlankOk b)
    (hls : ∀ l ∈ ls, LineOk l) (hls' : ∀ l ∈ ls', LineOk l)
    (hsame : ls.map LLine.canon = ls'.map LLine.canon) :
    parseText (renderText pre ls) = parseText (renderText pre' ls') := by
  unfold parseText
  rw [fullLines_render pre ls hpre hls, fullLines_render pre' ls' hpre' hls', hsame]

/-! ### structure layer -/

/-- **Duplicated lines and the order of lines do not matter**: graphs whose lines form the same set
give the same tables (or are both rejected). -/
theorem lines_set_invariant (m : Bool) (L₁ L₂ : List SLine) (h : ∀ l, l ∈ L₁ ↔ l ∈ L₂) :
    REq (parseStructWith m L₁) (parseStructWith m L₂) :=
  parseStructWith_set_invariant m h

/-- **Chains versus pairs** (with the mid-chain inference of findings/C14-fix-3.diff): the chain
`h => a.. => m => b..` and the two chains `h => a.. => m`, `m => b..` give the same tables, among any
other lines.  Repeated, a chain is equivalent to its separate pairs. -/
theorem chain_vs_pairs (pre post : List SLine) (h : Tree Node) (a : List (List Node)) (m : List Node)
    (b : List (List Node)) (hb : b ≠ []) :
    REq (parseStructWith true (pre ++ [SLine.chain h (a ++ [m] ++ b)] ++ post))
        (parseStructWith true (pre ++ [SLine.chain h (a ++ [m]), SLine.chain (bigAnd default m) b] ++ post)) :=
  chain_split pre post h a m b hb

/-- the full statement about the code under test -/
def chain_vs_pairs_full : Prop :=
  ∀ (pre post : List SLine) (h : Tree Node) (a : List (List Node)) (m : List Node) (b : List (List Node)),
    b ≠ [] →
    REq (parseStruct (pre ++ [SLine.chain h (a ++ [m] ++ b)] ++ post))
        (parseStruct (pre ++ [SLine.chain h (a ++ [m]), SLine.chain (bigAnd default m) b] ++ post))

/-- **chain_vs_pairs for the code as probed**: holds whenever `translate()` found the mid-chain
inference in the live parser (after findings/C14-fix-3.diff); missing otherwise -/
theorem chain_vs_pairs_partial (hfix : midInfer = true) : chain_vs_pairs_full := by
  intro pre post h a m b hb
  unfold parseStruct
  rw [hfix]
  exact chain_split pre post h a m b hb

private def nd (c : Char) : Node := { name := [c] }
private def ndFailOpt : Node := { name := ['b'], qual := ['f', 'a', 'i', 'l'], opt := true }
private def cexChain : List SLine :=
  [.chain (.leaf (nd 'a')) [[nd 'b']], .chain (.leaf (nd 'x')) [[nd 'b'], [nd 'c']], .chain (.leaf ndFailOpt) [[nd 'd']]]
private def cexPairs : List SLine :=
  [.chain (.leaf (nd 'a')) [[nd 'b']], .chain (.leaf (nd 'x')) [[nd 'b']], .chain (bigAnd default [nd 'b']) [[nd 'c']],
   .chain (.leaf ndFailOpt) [[nd 'd']]]

/-- **Without the mid-chain inference the statement is false** (the unchanged code):
`a => b / x => b => c / b:fail? => d` is accepted, the same graph with line 2 as pairs is rejected. -/
theorem chain_vs_pairs_counterexample :
    ¬ (∀ (pre post : List SLine) (h : Tree Node) (a : List (List Node)) (m : List Node) (b : List (List Node)),
        b ≠ [] →
        REq (parseStructWith false (pre ++ [SLine.chain h (a ++ [m] ++ b)] ++ post))
            (parseStructWith false (pre ++ [SLine.chain h (a ++ [m]), SLine.chain (bigAnd default m) b] ++ post))) := by
  intro hall
  have h := hall [.chain (.leaf (nd 'a')) [[nd 'b']]] [.chain (.leaf ndFailOpt) [[nd 'd']]]
    (.leaf (nd 'x')) [] [nd 'b'] [[nd 'c']] (by simp)
  have e1 : (parseStructWith false cexChain).isSome = true := by decide
  have e2 : parseStructWith false cexPairs = none := by decide
  have h' : REq (parseStructWith false cexChain) (parseStructWith false cexPairs) := h
  rw [e2] at h'
  cases hc : parseStructWith false cexChain with
  | none => rw [hc] at e1; cases e1
  | some st => rw [hc] at h'; exact h'

/-! ### faithfulness -/

/-- **The recorded dependencies are the written ones (1).**  In an accepted graph, every link
`left => ... r ...` records under task `r` (no offset on `r`) the expression of every unit of `left`
(`left` itself if it is conditional or parenthesised, otherwise each `&`-joined node) with `r`'s suicide
flag. -/
theorem triggers_recorded {m : Bool} {L : List SLine} {st : St} (h : parseStructWith m L = some st)
    {p : SPair} (hp : p ∈ pairsOf L) {l : Tree Node} (hl : p.left = some l) {u : Tree Node}
    (hu : u ∈ leftUnits l) {r : Node} (hr : r ∈ p.rights) (hoff : r.offset = []) :
    ∃ ts, st.trigs.lookup (r.name, (exprOf u).render id) = some (ts, r.suicide) :=
  struct_trigs_recorded h hp hl hu hr hoff

/-- **The recorded dependencies are the written ones (2).**  Every non-empty trigger expression an
accepted graph records is the expression of a unit of the left side of a link whose right side names
the task; its trigger list are the atoms of that expression. -/
theorem triggers_origin {m : Bool} {L : List SLine} {st : St} (h : parseStructWith m L = some st)
    {n ex : Str} {v : List Str × Bool} (hlk : st.trigs.lookup (n, ex) = some v) (hne : ex ≠ []) :
    ∃ p ∈ pairsOf L, ∃ l, p.left = some l ∧ ∃ u ∈ leftUnits l, ∃ r ∈ p.rights, r.offset = [] ∧ n = r.name ∧
      ex = (exprOf u).render id ∧ v = ((exprOf u).leaves, r.suicide) :=
  struct_trigs_origin h hlk hne

/-- **Output optionality is what is written (1).**  In an accepted graph a right-hand or lone node with
an explicit qualifier (other than `finish`) and no suicide mark records that output - under its standard
name - as optional iff the node carries `?`. -/
theorem optionality_recorded {m : Bool} {L : List SLine} {st : St} (h : parseStructWith m L = some st)
    {p : SPair} (hp : p ∈ pairsOf L) {r : Node} (hr : r ∈ p.rights) (hs : r.suicide = false)
    (hq : r.qual ≠ []) (hz : stdQual r.qual ≠ []) (hf : stdQual r.qual ≠ outFinished) :
    st.opts.lookup (r.name, stdQual r.qual) = some r.opt :=
  struct_opts_recorded h hp hr hs hq hz hf

/-- **Output optionality is what is written (2).**  Every recorded optionality entry of an accepted
graph is declared by an occurrence of that task on the right of a pair (or as a lone / first node)
without suicide mark: its qualifier or the inferred `:succeeded` with the node's `?`, or `succeeded` /
`failed` (optional) through `:finish`. -/
theorem optionality_origin {m : Bool} {L : List SLine} {st : St} (h : parseStructWith m L = some st)
    {n o : Str} {b : Bool} (hlk : st.opts.lookup (n, o) = some b) :
    ∃ p ∈ pairsOf L, ∃ r ∈ p.rights, n = r.name ∧ r.suicide = false ∧
      ∃ f, (o = rightOutput (eocOf L) (midOf m L) f r ∧ b = r.opt) ∨
           (rightOutput (eocOf L) (midOf m L) f r = outFinished ∧ (o = outSucceeded ∨ o = outFailed) ∧ b = true) :=
  struct_opts_origin h hlk

/-- **The recorded expression means the written one**: under any valuation of the atoms
`NAME[OFFSET]:OUTPUT`, the recorded expression of `t` is true iff `t` is, reading a plain name as
`:succeeded`, a qualifier as its standard output and `:finish` as succeeded-or-failed. -/
theorem expression_meaning (σ : Str → Bool) (t : Tree Node) : (exprOf t).den σ = t.den (nodeDen σ) :=
  exprOf_den σ t

/-- valid node texts determine their nodes (so comparing node *texts*, as the code does for the
end-of-chain bookkeeping, is comparing nodes) -/
theorem node_text_injective {n r : Node} (hn : n.valid = true) (hr : r.valid = true) (h : n.text = r.text) :
    n = r :=
  text_injective hn hr h

/-! ### malformed text (partial: classes of malformed text, not all of it) -/

/-- a first line that starts with `=>`, `&` or `|` is rejected.
Partial result towards "every malformed line is rejected": see the header. -/
theorem malformed_rejected_partial_leading (text : Str) (l : Str) (ls : List Str)
    (h : nonBlankLines text = some (l :: ls)) (hop : startsAny continuationStrs l = true) :
    parseText text = .error .gpe := by
  apply parseText_of_fullLines_none
  unfold fullLines joinLines
  rw [h]
  simp only [Option.bind_some]
  exact joinGo_leading [] l ls hop

/-- a last line that ends with `=>`, `&` or `|` is rejected -/
theorem malformed_rejected_partial_dangling (text : Str) (ls : List Str) (l : Str)
    (h : nonBlankLines text = some (ls ++ [l])) (hop : endsAny continuationStrs l = true) :
    parseText text = .error .gpe := by
  apply parseText_of_fullLines_none
  unfold fullLines joinLines
  rw [h]
  simp only [Option.bind_some]
  exact joinGo_dangling l hop ls true []

/-- two names separated by white space on any line are rejected -/
theorem malformed_rejected_partial_spaces (text : Str) (l : Str) (hl : l ∈ splitOnChar '\n' text)
    (hb : isBlank (dropComment l) = false) (hs : badSpaces (dropComment l) = true) :
    parseText text = .error .gpe := by
  apply parseText_of_fullLines_none
  unfold fullLines
  rw [nonBlank_badSpaces hl hb hs]
  rfl

/-- `&&` / `||` on any line, and a bad node on a line the node check looks at (every line after the
repair recorded as finding `bad-node-not-last-line`, the last line before), are rejected -/
theorem malformed_rejected_partial_lines (text : Str) (full : List Str) (h : fullLines text = some full)
    (l : Str) (hl : l ∈ full)
    (hbad : hasSub ['&', '&'] l = true ∨ hasSub ['|', '|'] l = true ∨
      (lineHasBadNode l = true ∧ (nodeCheckAllLines = true ∨ full.getLast? = some l))) :
    parseText text = .error .gpe := by
  unfold parseText
  rw [h]
  apply parseFull_rejected
  unfold linesRejected
  simp only [Bool.or_eq_true, List.any_eq_true]
  rcases hbad with h1 | h1 | ⟨h1, h2⟩
  · exact Or.inl ⟨l, hl, Or.inl h1⟩
  · exact Or.inl ⟨l, hl, Or.inr h1⟩
  · right
    rcases h2 with h2 | h2
    · simp only [h2, if_true, List.any_eq_true]; exact ⟨l, hl, h1⟩
    · cases hn : nodeCheckAllLines with
      | true => simp only [if_true, List.any_eq_true]; exact ⟨l, hl, h1⟩
      | false => simp only [Bool.false_eq_true, if_false, h2]; exact h1

/-! ### non-vacuity -/

private def exSeg1 : Seg :=
  { items := [([' '], .node ['a']), (['\t'], .amp), ([], .node ['b', ':', 'x', '?']), ([' '], .arrow)],
    tailWs := [' '], comment := some ['c', ' ', '=', '>', ' ', '#'], blanks := [⟨[' '], some ['x']⟩, ⟨[], none⟩] }
private def exSeg2 : Seg :=
  { items := [([' ', ' '], .lp), ([], .node ['c']), ([' '], .bar), ([], .node ['!', 'd']), ([], .rp)],
    tailWs := [], comment := none, blanks := [] }
private def exPre : List Blank := [⟨['\t'], some ['h', 'i']⟩]

/-- a two-line layout with a continuation after `=>`, comments and blank lines satisfies the hypotheses -/
example : exPre.all blankOkB = true ∧ [[exSeg1, exSeg2], [exSeg2]].all lineOkB = true := by decide

example : fullLines (renderText exPre [[exSeg1, exSeg2], [exSeg2]]) =
    some ["a&b:x?=>(c|!d)".toList, "(c|!d)".toList] := by
  rw [text_layer_checked exPre _ (by decide) (by decide)]
  decide

/-- the chain `x => b => c` among other lines is accepted, so `chain_vs_pairs` is about real tables -/
example : (parseStructWith true
    ([.chain (.leaf (nd 'a')) [[nd 'b']]] ++ [.chain (.leaf (nd 'x')) ([] ++ [[nd 'b']] ++ [[nd 'c']])] ++ [])).isSome = true := by
  decide

/-- two different orders / a duplicate of the same lines -/
example : ∀ l, l ∈ [SLine.lone [nd 'a'], SLine.lone [nd 'b']] ↔ l ∈ [SLine.lone [nd 'b'], SLine.lone [nd 'a'], SLine.lone [nd 'b']] := by
  intro l; simp only [List.mem_cons, List.not_mem_nil, or_false]; tauto

/-- an accepted graph with a conditional left side: hypotheses of `triggers_recorded` are met -/
example : (parseStructWith false [.chain (.or (.leaf (nd 'a')) (.leaf ndFailOpt)) [[nd 'c']]]).isSome = true := by
  decide

/-- `x => b:fail?` is accepted: the hypotheses of `optionality_recorded` are met -/
example : (parseStructWith false [.chain (.leaf (nd 'x')) [[ndFailOpt]]]).isSome = true ∧
    ndFailOpt.qual ≠ [] ∧ stdQual ndFailOpt.qual ≠ [] ∧ stdQual ndFailOpt.qual ≠ outFinished := by
  decide

/-- malformed classes are inhabited -/
example : nonBlankLines "=> a".toList = some ("=>a".toList :: []) ∧ startsAny continuationStrs "=>a".toList = true := by
  decide
example : nonBlankLines "a =>".toList = some ([] ++ ["a=>".toList]) ∧ endsAny continuationStrs "a=>".toList = true := by
  decide
example : "foo bar => baz".toList ∈ splitOnChar '\n' "foo bar => baz".toList ∧
    isBlank (dropComment "foo bar => baz".toList) = false ∧ badSpaces (dropComment "foo bar => baz".toList) = true := by
  decide
example : fullLines "a && b => c".toList = some ["a&&b=>c".toList] ∧ hasSub ['&', '&'] "a&&b=>c".toList = true := by
  decide
example : fullLines "a => b:x:y".toList = some ["a=>b:x:y".toList] ∧ lineHasBadNode "a=>b:x:y".toList = true ∧
    ["a=>b:x:y".toList].getLast? = some "a=>b:x:y".toList := by
  decide

end CylcModel.C14
