/-
C12 — Required / optional output classification matches the expression; validation accepts only
expressions consistent with the graph; default skip-mode outputs.
Property statements only, over the model `CylcModel/Outputs.lean`.
-/
import CylcModel.Outputs
namespace CylcModel.C12
open CylcModel CylcModel.Outputs CylcModel.BExpr
open CylcModel.Generated.Outputs

/-! ### Specification -/

/-- "the expression is false whenever that output alone is missing (treating expired and submit-failed
as absent)", read at full strength: false under **every** assignment in which the output, `expired`,
`submit_failed` (and the disabled output, if any) are false. -/
def RequiredSem (e : BExpr String) (disable : Option String) (o : String) : Prop :=
  ∀ σ : String → Bool, σ o = false → σ "expired" = false → σ "submit_failed" = false →
    (∀ x, disable = some x → σ x = false) → eval σ e = false

/-- the single maximal assignment of that kind: everything true except the output, `expired`,
`submit_failed` and the disabled output -/
def maximalWithout (disable : Option String) (o : String) (v : String) : Bool :=
  decide (v ≠ o ∧ v ≠ "expired" ∧ v ≠ "submit_failed" ∧ disable ≠ some v)

/-- the documented table of `_check_completion_expression` (graph_opt, expr_opt: `some true` optional,
`some false` required, `none` not referenced / not in the graph).  The source comment marks the rows
(optional, unreferenced) and (required, optional) with a footnote about `submit-failed` and `expired`:
an unreferenced optional output is only an error for those two (a permitted pre-execution outcome
must be referenced), and required-but-optional-in-the-expression is an error for all other outputs
(upstream test `required-in-graph-optional-in-completion`). -/
def documented (g e : Option Bool) (pre : Bool) : Bool :=
  match g, e with
  | some true, some true => true
  | some true, some false => false
  | some true, none => !pre
  | some false, some true => pre
  | some false, some false => true
  | some false, none => false
  | none, _ => true

/-! ### Classification -/

theorem classEnv_eq (all : List String) (disable : Option String) (o v : String) (hv : v ∈ all) :
    classEnv all disable o v = some (maximalWithout disable o v) := by
  unfold classEnv maximalWithout
  by_cases h1 : disable = some v
  · simp [h1]
  · by_cases h2 : v = "expired" ∨ v = "submit_failed"
    · rcases h2 with h2 | h2 <;> simp [h2]
    · have h3 : v ≠ "expired" ∧ v ≠ "submit_failed" := ⟨fun h => h2 (Or.inl h), fun h => h2 (Or.inr h)⟩
      simp only [h1, hv, h3.1, h3.2, if_false, if_true, ne_eq, not_false_eq_true, and_true]
      congr 1
      by_cases hvo : v = o <;> simp [hvo]

theorem isOptional_eq (e : BExpr String) (all : List String) (disable : Option String) (o : String)
    (hv : ∀ v ∈ vars e, v ∈ all) :
    isOptional e all disable o = some (eval (maximalWithout disable o) e) :=
  evalSC_total e (fun a ha => classEnv_eq all disable o a (hv a ha))

/-- **required_iff_maximal.**  The code's test: required iff false under the single maximal assignment. -/
theorem required_iff_maximal (e : BExpr String) (all : List String) (disable : Option String) (o : String)
    (hv : ∀ v ∈ vars e, v ∈ all) :
    isOptional e all disable o = some false ↔ eval (maximalWithout disable o) e = false := by
  rw [isOptional_eq e all disable o hv]; simp

theorem requiredSem_iff_maximal (e : BExpr String) (disable : Option String) (o : String) :
    RequiredSem e disable o ↔ eval (maximalWithout disable o) e = false := by
  constructor
  · intro h
    apply h <;> simp [maximalWithout]
    intro x hx _ _ _; exact hx
  · intro h σ h1 h2 h3 h4
    cases hσ : eval σ e with
    | false => rfl
    | true =>
      have hle : BExpr.le σ (maximalWithout disable o) := by
        intro a ha
        unfold maximalWithout
        simp only [decide_eq_true_eq]
        refine ⟨?_, ?_, ?_, ?_⟩
        · intro hao; subst hao; rw [ha] at h1; cases h1
        · intro hae; subst hae; rw [ha] at h2; cases h2
        · intro has; subst has; rw [ha] at h3; cases h3
        · intro hd; have := h4 a hd; rw [ha] at this; cases this
      have := eval_mono hle e hσ
      rw [h] at this; cases this

/-- **required_iff_semantic.**  For every and/or expression over the task's outputs (no bound on its
size), every output and every `disable` argument: the value computed by `get_optional_outputs` is
"required" exactly when the expression is false under *every* assignment that leaves the output (and
expired, submit-failed, the disabled output) out — the single test the code performs is equivalent to
the universal statement because and/or expressions are monotone. -/
theorem required_iff_semantic (e : BExpr String) (all : List String) (disable : Option String) (o : String)
    (hv : ∀ v ∈ vars e, v ∈ all) :
    isOptional e all disable o = some false ↔ RequiredSem e disable o := by
  rw [required_iff_maximal e all disable o hv, requiredSem_iff_maximal]

/-! ### The dictionary returned by `get_optional_outputs` -/

theorem mem_insertSorted (a x : String) (l : List String) :
    a ∈ insertSorted x l ↔ a = x ∨ a ∈ l := by
  induction l with
  | nil => simp [insertSorted]
  | cons y ys ih =>
    unfold insertSorted
    split
    · simp
    · split
      · rename_i h; subst h; simp
      · simp [ih]; constructor
        · rintro (h | h | h) <;> simp [h]
        · rintro (h | h | h) <;> simp [h]

theorem mem_sortDedup (a : String) (l : List String) : a ∈ sortDedup l ↔ a ∈ l := by
  induction l with
  | nil => simp [sortDedup]
  | cons y ys ih =>
    have : sortDedup (y :: ys) = insertSorted y (sortDedup ys) := rfl
    rw [this, mem_insertSorted, ih]; simp

/-- what `optionalOutputs` returns for a parsed expression, entry by entry -/
theorem classification_entries (e : BExpr String) (outputs : List String) (disable : Option String)
    (l : List (String × Option Bool)) (h : optionalOutputs (.ok e) outputs disable = .ok l)
    (v : String) (r : Option Bool) :
    (v, r) ∈ l ↔ (v ∈ vars e ∧ r = isOptional e (outputs.map compvar) disable v ∧ r ≠ none)
               ∨ (v ∉ vars e ∧ v ∈ outputs.map compvar ∧ r = none) := by
  unfold optionalOutputs at h
  simp only at h
  split at h
  · cases h
  · split at h
    · cases h
    · rename_i hk hn
      injection h with h
      subst h
      simp only [List.mem_map, mem_sortDedup, List.mem_append, Prod.mk.injEq]
      have hn' : ∀ o ∈ vars e, isOptional e (outputs.map compvar) disable o ≠ none := by
        intro o ho hnone
        apply hn
        rw [List.any_eq_true]
        exact ⟨o, ho, by rw [hnone]; rfl⟩
      constructor
      · rintro ⟨w, hw, rfl, rfl⟩
        by_cases hin : w ∈ vars e
        · left; simp only [List.contains_eq_mem, hin, decide_true, if_true]
          exact ⟨trivial, trivial, hn' w hin⟩
        · right; rcases hw with hw | hw
          · exact absurd hw hin
          · refine ⟨hin, by simpa using hw, ?_⟩
            simp [hin]
      · rintro (⟨hin, hr, _⟩ | ⟨hin, hall, hr⟩)
        · exact ⟨v, Or.inl hin, rfl, by simp [hin, hr]⟩
        · exact ⟨v, Or.inr (by simpa using hall), rfl, by simp [hin, hr]⟩

/-- a valid expression (every name is an output) over clash-free names is always classified -/
theorem classification_total (e : BExpr String) (outputs : List String) (disable : Option String)
    (hv : ∀ v ∈ vars e, v ∈ outputs.map compvar)
    (hk : ∀ v ∈ classKeys (outputs.map compvar) disable, v ∉ evalKwClash) :
    ∃ l, optionalOutputs (.ok e) outputs disable = .ok l := by
  unfold optionalOutputs
  simp only
  have h1 : (classKeys (outputs.map compvar) disable).any (fun x => evalKwClash.contains x) = false := by
    rw [List.any_eq_false]; intro v hv'; simpa using hk v hv'
  have h2 : (vars e).any (fun o => (isOptional e (outputs.map compvar) disable o).isNone) = false := by
    rw [List.any_eq_false]; intro o _
    rw [isOptional_eq e _ disable o hv]; simp
  rw [h1, h2]
  exact ⟨_, rfl⟩

/-- **classification_keys.**  The classification lists exactly the referenced names and the outputs,
and an output is unreferenced (`None`) iff the expression does not mention it. -/
theorem classification_keys (e : BExpr String) (outputs : List String) (disable : Option String)
    (l : List (String × Option Bool)) (h : optionalOutputs (.ok e) outputs disable = .ok l) (v : String) :
    ((∃ r, (v, r) ∈ l) ↔ v ∈ vars e ∨ v ∈ outputs.map compvar) ∧
    ((v, none) ∈ l ↔ v ∉ vars e ∧ v ∈ outputs.map compvar) := by
  have key := classification_entries e outputs disable l h v
  constructor
  · constructor
    · rintro ⟨r, hr⟩
      rcases (key r).1 hr with ⟨hin, _, _⟩ | ⟨_, hall, _⟩
      · exact Or.inl hin
      · exact Or.inr hall
    · intro hv
      by_cases hin : v ∈ vars e
      · refine ⟨isOptional e (outputs.map compvar) disable v, (key _).2 (Or.inl ⟨hin, rfl, ?_⟩)⟩
        intro hnone
        have := (key none).2
        -- a referenced name whose evaluation raised would have made the whole call raise
        unfold optionalOutputs at h
        simp only at h
        split at h
        · cases h
        · split at h
          · cases h
          · rename_i _ hn
            apply hn; rw [List.any_eq_true]; exact ⟨v, hin, by rw [hnone]; rfl⟩
      · exact ⟨none, (key none).2 (Or.inr ⟨hin, hv.resolve_left hin, rfl⟩)⟩
  · rw [key none]
    constructor
    · rintro (⟨_, _, hne⟩ | ⟨a, b, _⟩)
      · exact absurd rfl hne
      · exact ⟨a, b⟩
    · rintro ⟨a, b⟩; exact Or.inr ⟨a, b, rfl⟩

/-- **optional_iff.**  For a valid expression: an output is classified required iff it is referenced
and semantically required; optional iff referenced and not required. -/
theorem optional_iff (e : BExpr String) (outputs : List String) (disable : Option String)
    (hv : ∀ v ∈ vars e, v ∈ outputs.map compvar)
    (l : List (String × Option Bool)) (h : optionalOutputs (.ok e) outputs disable = .ok l) (v : String) :
    ((v, some false) ∈ l ↔ v ∈ vars e ∧ RequiredSem e disable v) ∧
    ((v, some true) ∈ l ↔ v ∈ vars e ∧ ¬ RequiredSem e disable v) := by
  have key := classification_entries e outputs disable l h v
  have hsem := required_iff_semantic e (outputs.map compvar) disable v hv
  have hval := isOptional_eq e (outputs.map compvar) disable v hv
  constructor
  · rw [key (some false)]
    constructor
    · rintro (⟨hin, hr, _⟩ | ⟨_, _, hr⟩)
      · exact ⟨hin, hsem.1 hr.symm⟩
      · cases hr
    · rintro ⟨hin, hreq⟩
      exact Or.inl ⟨hin, (hsem.2 hreq).symm, by simp⟩
  · rw [key (some true)]
    constructor
    · rintro (⟨hin, hr, _⟩ | ⟨_, _, hr⟩)
      · refine ⟨hin, fun hreq => ?_⟩
        rw [hsem.2 hreq] at hr; cases hr
      · cases hr
    · rintro ⟨hin, hnreq⟩
      refine Or.inl ⟨hin, ?_, by simp⟩
      rw [hval]
      cases hb : eval (maximalWithout disable v) e with
      | true => rfl
      | false =>
        exfalso; apply hnreq; apply hsem.1; rw [hval, hb]

/-! ### Only and / or / names evaluate -/

/-- **whitelist_monotone.**  The node classes whitelisted by `CompletionEvaluator` (regenerated from the
source) are among Expression, Name, Load, BoolOp, And, Or, BinOp: no `Not`/`UnaryOp`, comparison,
conditional, constant or call — and `BinOp` is there without any operator class, so only and/or over
names can be evaluated and every completion expression is monotone. -/
theorem whitelist_monotone :
    ∀ c ∈ completionWhitelist, c ∈ ["And", "BinOp", "BoolOp", "Expression", "Load", "Name", "Or"] := by
  decide

/-! ### Graph / expression consistency -/

/-- **consistency_table.**  The accept/reject decision of `_check_completion_expression` per
(graph optionality, expression optionality, pre-execution output), tabulated by running the real
function, equals the documented table, for all 18 combinations. -/
theorem consistency_table (g e : Option Bool) (pre : Bool) : consistent g e pre = documented g e pre := by
  rcases g with _ | _ | _ <;> rcases e with _ | _ | _ <;> cases pre <;> decide

theorem lookup_mem {l : List (String × Option Bool)} {v : String} {r : Option Bool}
    (h : l.lookup v = some r) : (v, r) ∈ l := by
  induction l with
  | nil => simp [List.lookup] at h
  | cons a rest ih =>
    obtain ⟨k, x⟩ := a
    simp only [List.lookup] at h
    split at h
    · rename_i heq
      have : v = k := by simpa using heq
      injection h with h; subst h; subst this; simp
    · exact List.mem_cons_of_mem _ (ih h)

/-- **check_accept_consistent.**  Validation accepts a user completion expression only if, for every
output of the task, graph optionality and expression optionality are consistent according to the
documented table — and only if every name the expression classifies is an output of the task. -/
theorem check_accept_consistent (d : TaskDef) (text : String) (h : checkCompletion d text = .accept) :
    text.toList.contains '-' = false ∧
    ∃ l, optionalOutputs (parsePy text) (d.outs.map (·.trigger)) none = .ok l ∧
      (∀ p ∈ l, p.1 ∈ compvars d.outs) ∧
      ∀ v ∈ compvars d.outs, documented (graphOptionals d v) ((l.lookup v).getD none) (isPreExec v) = true := by
  unfold checkCompletion at h
  split at h
  · cases h
  · rename_i hhy
    refine ⟨by simpa using hhy, ?_⟩
    split at h
    · cases h
    · rename_i l hl
      refine ⟨l, hl, ?_⟩
      simp only at h
      split at h
      · rename_i hall
        rw [List.all_eq_true] at hall
        constructor
        · intro p hp
          have := hall p.1 ((mem_sortDedup _ _).2 (List.mem_append.2 (Or.inr (List.mem_map.2 ⟨p, hp, rfl⟩))))
          simp only [Bool.and_eq_true, List.contains_eq_mem, decide_eq_true_eq] at this
          exact this.1
        · intro v hv
          have := hall v ((mem_sortDedup _ _).2 (List.mem_append.2 (Or.inl hv)))
          simp only [Bool.and_eq_true] at this
          rw [← consistency_table]; exact this.2
      · cases h

/-! ### Skip mode -/

theorem compvar_idem (t : String) : compvar (compvar t) = compvar t := by
  unfold compvar
  rw [String.toList_ofList, List.map_map]
  congr 1
  apply List.map_congr_left
  intro c _
  simp only [Function.comp]
  split <;> simp_all

theorem compvars_map_compvar (outs : List OutDef) : (compvars outs).map compvar = compvars outs := by
  simp [compvars, List.map_map, Function.comp_def, compvar_idem]

/-- the message → trigger map of `TaskOutputs` sends every output's message back to its trigger
(true when messages are unique, which the configuration enforces) -/
def MsgUnique (outs : List OutDef) : Prop := ∀ o ∈ outs, triggerOf outs o.message = o.trigger

theorem requiredSem_disable (e : BExpr String) (x o : String) (h : RequiredSem e none o) :
    RequiredSem e (some x) o :=
  fun σ h1 h2 h3 _ => h σ h1 h2 h3 (fun _ hn => by cases hn)

/-- a referenced output that is semantically required (with `disable`) is among the required messages -/
theorem mem_requiredMessages (text : String) (e : BExpr String) (outs : List OutDef) (disable : Option String)
    (hp : parsePy text = .ok e) (hv : ∀ v ∈ vars e, v ∈ compvars outs)
    (req : List String) (hreq : requiredMessages text outs disable = .ok req)
    (o : OutDef) (ho : o ∈ outs) (href : compvar o.trigger ∈ vars e)
    (hsem : RequiredSem e disable (compvar o.trigger)) : o.message ∈ req := by
  unfold requiredMessages at hreq
  rw [hp] at hreq
  cases hl : optionalOutputs (.ok e) (compvars outs) disable with
  | error err => rw [hl] at hreq; cases hreq
  | ok l =>
    rw [hl] at hreq
    injection hreq with hreq
    subst hreq
    have hv' : ∀ v ∈ vars e, v ∈ (compvars outs).map compvar := by
      rw [compvars_map_compvar]; exact hv
    have hin := ((optional_iff e (compvars outs) disable hv' l hl (compvar o.trigger)).1).2 ⟨href, hsem⟩
    rw [mem_sortDedup]
    simp only [List.mem_map, List.mem_filter, List.contains_eq_mem, decide_eq_true_eq, beq_iff_eq]
    exact ⟨o, ⟨ho, ⟨(compvar o.trigger, some false), ⟨hin, rfl⟩, rfl⟩⟩, rfl⟩

/-- **skip_outputs_partial.**  Without `[skip]outputs`, the outputs skip mode generates contain
`submitted`, `started` and `succeeded`, and the message of every output that the completion expression
references and requires — *except* `failed`.  Missing for the full statement: the exclusion
`o.trigger ≠ "failed"` (see `skip_outputs_counterexample`). -/
theorem skip_outputs_partial (text : String) (e : BExpr String) (outs : List OutDef) (l : List String)
    (hp : parsePy text = .ok e) (hv : ∀ v ∈ vars e, v ∈ compvars outs) (hm : MsgUnique outs)
    (hstd : ∀ o ∈ outs, o.trigger = "succeeded" → o.message = "succeeded")
    (h : skipOutputs text outs [] = .ok l) :
    "submitted" ∈ l ∧ "started" ∈ l ∧ "succeeded" ∈ l ∧
    ∀ o ∈ outs, compvar o.trigger ∈ vars e → RequiredSem e none (compvar o.trigger) →
      o.trigger ≠ "failed" → o.message ∈ l := by
  unfold skipOutputs at h
  have hc : ([] : List String).contains "failed" = false := rfl
  simp only [hc, Bool.false_eq_true, if_false] at h
  cases hreq : requiredMessages text outs (some "failed") with
  | error err => rw [hreq] at h; cases h
  | ok req =>
    rw [hreq] at h
    injection h with h
    subst h
    refine ⟨?_, ?_, ?_, ?_⟩
    · rw [mem_sortDedup]; simp
    · rw [mem_sortDedup]; simp
    · rw [mem_sortDedup]; simp
    · intro o ho href hsem hnf
      rw [mem_sortDedup]
      by_cases hs : o.trigger = "succeeded"
      · rw [hstd o ho hs]; simp
      · have := mem_requiredMessages text e outs (some "failed") hp hv req hreq o ho href
          (requiredSem_disable e "failed" _ hsem)
        apply List.mem_append_left
        apply List.mem_append_left
        apply List.mem_append_right
        rw [List.mem_filter]
        refine ⟨this, ?_⟩
        rw [hm o ho]
        simp [hs, hnf]

/-- The full-strength statement: *every* required output is generated. -/
def skip_outputs_full : Prop :=
  ∀ (text : String) (e : BExpr String) (outs : List OutDef) (l : List String),
    parsePy text = .ok e → (∀ v ∈ vars e, v ∈ compvars outs) → MsgUnique outs →
    (∀ o ∈ outs, o.trigger = "succeeded" → o.message = "succeeded") →
    skipOutputs text outs [] = .ok l →
    ∀ o ∈ outs, compvar o.trigger ∈ vars e → RequiredSem e none (compvar o.trigger) → o.message ∈ l

/-- the six standard outputs of a task whose graph says `foo:fail => bar` -/
def failRequired : List OutDef :=
  [⟨"expired", "expired", none⟩, ⟨"submitted", "submitted", none⟩, ⟨"submit-failed", "submit-failed", none⟩,
   ⟨"started", "started", none⟩, ⟨"succeeded", "succeeded", none⟩, ⟨"failed", "failed", some true⟩]

def isOkList (want : List String) : Except EvalErr (List String) → Bool
  | .ok l => l == want
  | .error _ => false

theorem eq_of_isOkList {want : List String} {x : Except EvalErr (List String)} (h : isOkList want x = true) :
    x = .ok want := by
  cases x with
  | error e => simp [isOkList] at h
  | ok l => simp [isOkList] at h; rw [h]

/-- **skip_outputs_counterexample.**  `skip_outputs_full` is false on the current code: with the
completion expression `failed` (graph `foo:fail => bar`) skip mode generates submitted, started,
succeeded — the required output `failed` is missing. -/
theorem skip_outputs_counterexample : ¬ skip_outputs_full := by
  intro h
  have hp : parsePy "failed" = .ok (.atom "failed") := by decide +kernel
  have hs : skipOutputs "failed" failRequired [] = .ok ["started", "submitted", "succeeded"] :=
    eq_of_isOkList (by decide +kernel)
  have hv : ∀ v ∈ vars (BExpr.atom "failed"), v ∈ compvars failRequired := by
    intro v hv; simp [vars] at hv; subst hv; decide +kernel
  have hm : MsgUnique failRequired := by
    intro o ho
    simp only [failRequired, List.mem_cons, List.not_mem_nil, or_false] at ho
    rcases ho with rfl | rfl | rfl | rfl | rfl | rfl <;> decide +kernel
  have hstd : ∀ o ∈ failRequired, o.trigger = "succeeded" → o.message = "succeeded" := by
    intro o ho
    simp only [failRequired, List.mem_cons, List.not_mem_nil, or_false] at ho
    rcases ho with rfl | rfl | rfl | rfl | rfl | rfl <;> simp
  have := h "failed" (.atom "failed") failRequired _ hp hv hm hstd hs
    ⟨"failed", "failed", some true⟩ (by simp [failRequired])
    (by have : compvar "failed" = "failed" := by decide
        rw [this]; simp [vars])
    (by have : compvar "failed" = "failed" := by decide
        rw [this]; intro σ h1 _ _ _; simpa [eval] using h1)
  revert this
  decide

/-! ### Non-vacuity -/

/-- `required_iff_semantic`, `optional_iff`, `classification_keys`: the doctest expression of
`get_optional_outputs` over its five outputs — valid, classified without error, with an output of each
kind (optional `x`, unreferenced `expired`) -/
example :
    let e : BExpr String := .or (.and (.atom "succeeded") (.or (.atom "x") (.atom "y"))) (.atom "failed")
    let outputs := ["succeeded", "x", "y", "failed", "expired"]
    (∀ v ∈ vars e, v ∈ outputs.map compvar) ∧
    (match optionalOutputs (.ok e) outputs none with
     | .ok l => l == [("expired", none), ("failed", some true), ("succeeded", some true), ("x", some true), ("y", some true)]
     | .error _ => false) = true := by
  constructor
  · have : (vars (BExpr.or (.and (.atom "succeeded") (.or (.atom "x") (.atom "y"))) (.atom "failed"))).all
        (fun v => (["succeeded", "x", "y", "failed", "expired"].map compvar).contains v) = true := by decide +kernel
    intro v hv; simpa using (List.all_eq_true.1 this) v hv
  · decide +kernel

/-- a required output: `succeeded` in `(succeeded and x) or expired` -/
example : isOptional (.or (.and (.atom "succeeded") (.atom "x")) (.atom "expired"))
    ["succeeded", "x", "failed", "expired"] none "succeeded" = some false := by decide +kernel

/-- `check_accept_consistent`: an accepted expression (success optional in the graph, `x` optional) -/
example : checkCompletion
    ⟨[⟨"expired", "expired", none⟩, ⟨"submitted", "submitted", none⟩, ⟨"submit-failed", "submit-failed", none⟩,
      ⟨"started", "started", none⟩, ⟨"succeeded", "succeeded", some false⟩, ⟨"failed", "failed", none⟩,
      ⟨"x", "msg x", some false⟩]⟩ "(succeeded and x) or failed" = .accept := by decide +kernel

/-- `skip_outputs_partial`: required custom output `x` is generated by default -/
example : isOkList ["msg x", "started", "submitted", "succeeded"]
    (skipOutputs "succeeded and x"
      [⟨"expired", "expired", none⟩, ⟨"submitted", "submitted", none⟩, ⟨"submit-failed", "submit-failed", none⟩,
       ⟨"started", "started", none⟩, ⟨"succeeded", "succeeded", some true⟩, ⟨"failed", "failed", none⟩,
       ⟨"x", "msg x", some true⟩] []) = true := by decide +kernel

end CylcModel.C12
