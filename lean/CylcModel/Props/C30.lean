/-
C30 — Removing a task undoes exactly its effects.

Statements over the `Sched3Rm` model (scheduler core + flows + run-DB tables with queued / committed operations +
the `cylc remove` command: a line-by-line port of `commands.remove_tasks` / `_remove_matched_tasks`,
`TaskPool.remove`, `WorkflowDatabaseManager.remove_task_from_flows`, `Prerequisite.unset_naturally_satisfied`,
`Scheduler.kill_tasks`), for every instance graph `g`, state, id list, flow list and iteration order.  Proofs by
reference to `Sched3RmLemmas` / `Frame` / `Child` / `Db` / `Kill`.

Property text → theorems
* "removes those flows from it (and removes it from the pool when none remain)"
    `match_flows_spec`, `flows_removed`, `leaves_pool_iff_none_remain`
* "erases its history in those flows so it can run again later"
    `history_erased` (both tables, after the commit), `history_forgotten`, `runs_again` (`spawn_task` hands out a new
    instance), `erase_then_respawn`;  WHEN the commit happens is the defect found (finding `erase-deferred`):
    `erased_at_once_partial` / `_counterexample` / `_live`, `repaired_is_quiet`, and end to end `respawn_partial` / `_counterexample` /
    `_live` (a task removed and needed again within the same main loop is not spawned by the code as found)
* "unsets only prerequisites of its children that it satisfied naturally"
    `unset_exactly_natural`, `forced_kept`, `other_tasks_kept`, `natural_unset`, `changed_iff`, `child_prereqs_unset`
* "removes children left with no satisfied prerequisites"
    `child_untouched`, `child_kept`, `child_unqueued`, `child_removed`, `child_leaves_iff`,
    `child_history_erased_in_its_own_flows`
* "Other tasks' outputs, flows and prerequisites are left unchanged"
    `others_untouched` (the whole removal loop: every pooled proxy outside the closure of the matched ids -- the ids,
    their graph children, and the parentless successors of both -- is the same object afterwards),
    `kill_leaves_pool`, `removal_frame` (loop + kill), `other_history_kept` (DB rows of other tasks),
    `other_flows_history_kept` (rows of the same task in flows the removal does not concern)
* a matched id that is active in other flows only (finding `active-elsewhere-history-kept`):
    `elsewhere_partial` / `_counterexample` / `_live`

Not proved here (see statement_note of harness/props/c30.py): the DB statements assume that nothing is queued for
the two tables when the id is erased (`Quiet`); the frame does not include the ordinary runahead release that ends
the command; children are the *graph* children (an absolute trigger lists only the first dependent instance --
finding `abs-trigger-dependants`).
-/
import CylcModel.Sched3RmChild
import CylcModel.Sched3RmDb
import CylcModel.Sched3RmKill
import CylcModel.Generated.RmFlags

namespace CylcModel.C30
open CylcModel.Sched3Rm

/-! ### unsets only prerequisites that it satisfied naturally -/

/-- **`unset_naturally_satisfied(pt/name)`**: atom by atom, an atom on `pt/name` that is 'satisfied naturally' or
'satisfied from database' becomes unsatisfied and every other atom is kept as it is; the expression is kept. -/
theorem unset_exactly_natural (p : Pre) (pt : Int) (name : String) :
    (p.unsetNatural pt name).1.atoms = p.atoms.map (unsetAtom pt name) ∧ (p.unsetNatural pt name).1.expr = p.expr :=
  ⟨unsetNatural_atoms p pt name, rfl⟩

/-- a force-satisfied atom (`cylc set --pre`, `cylc trigger`) stays force-satisfied -/
theorem forced_kept (p : Pre) (pt : Int) (name : String) (a : Atom) (h : (a, Sat.forced) ∈ p.atoms) :
    (a, Sat.forced) ∈ (p.unsetNatural pt name).1.atoms := by
  rw [unsetNatural_atoms]
  refine List.mem_map.mpr ⟨(a, .forced), h, ?_⟩
  unfold unsetAtom Sat.natural
  simp

/-- an atom on another task keeps its state -/
theorem other_tasks_kept (p : Pre) (pt : Int) (name : String) (e : Atom × Sat) (h : e ∈ p.atoms)
    (hn : ¬ e.1.on pt name) : e ∈ (p.unsetNatural pt name).1.atoms := by
  rw [unsetNatural_atoms]
  refine List.mem_map.mpr ⟨e, h, ?_⟩
  unfold unsetAtom
  simp [hn]

/-- an atom the task satisfied naturally is unsatisfied afterwards -/
theorem natural_unset (p : Pre) (pt : Int) (name : String) (e : Atom × Sat) (h : e ∈ p.atoms)
    (ho : e.1.on pt name) (hs : e.2.natural) : (e.1, Sat.no) ∈ (p.unsetNatural pt name).1.atoms := by
  rw [unsetNatural_atoms]
  refine List.mem_map.mpr ⟨e, h, ?_⟩
  unfold unsetAtom
  simp [ho, hs]

/-- the return value: something changed iff the task had satisfied some atom naturally -/
theorem changed_iff (p : Pre) (pt : Int) (name : String) :
    (p.unsetNatural pt name).2 = true ↔ ∃ e ∈ p.atoms, e.1.on pt name ∧ e.2.natural :=
  unsetNatural_changed p pt name

/-! ### removes those flows from it, and removes it from the pool when none remain -/

/-- **`match_flows`**: the flows of the proxy the removal takes out -- all of them without `--flow`, else those
named (a no-flow proxy matches nothing) -/
theorem match_flows_spec (x : Proxy) (F : List Nat) (n : Nat) :
    n ∈ x.matchFlows F ↔ n ∈ x.flows ∧ (F = [] ∨ n ∈ F) :=
  mem_matchFlows x F n

/-- **some flows remain**: the proxy stays in the pool, the same object but for its flow numbers, which are its
old ones minus the flows the removal concerns -/
theorem flows_removed (g : Graph) (s : State) (x : Proxy) (F : List Nat)
    (hin : s.get? x.pt x.name = some x) (hne : (x.matchFlows F == x.flows) = false) :
    ∃ y, (removePooled g s x (x.matchFlows F)).get? x.pt x.name = some y ∧
      y = { x with flows := y.flows } ∧ ∀ n, n ∈ y.flows ↔ n ∈ x.flows ∧ ¬ (F = [] ∨ n ∈ F) := by
  refine ⟨_, removePooled_partial g s x _ hin hne, rfl, ?_⟩
  intro n
  simp only [mem_diffF, mem_matchFlows]
  constructor
  · rintro ⟨h1, h2⟩
    exact ⟨h1, fun hc => h2 ⟨h1, hc⟩⟩
  · rintro ⟨h1, h2⟩
    exact ⟨h1, fun hc => h2 hc.2⟩

/-- **out of the pool iff no flow remains** -/
theorem leaves_pool_iff_none_remain (g : Graph) (s : State) (x : Proxy) (F : List Nat)
    (hin : s.get? x.pt x.name = some x) :
    (removePooled g s x (x.matchFlows F)).get? x.pt x.name = none ↔ x.matchFlows F = x.flows := by
  constructor
  · intro h
    cases hb : (x.matchFlows F == x.flows) with
    | true => simpa using hb
    | false =>
      rw [removePooled_partial g s x _ hin hb] at h
      exact absurd h (by simp)
  · intro h
    exact removePooled_all g s x _ (by rw [h]; exact beq_self_eq_true _)

/-! ### the children: prerequisites unset, stand-down -/

/-- a downstream proxy that is not in the pool, or in none of the flows concerned, or without a prerequisite that
the removed task satisfied naturally, is not touched -/
theorem child_untouched (g : Graph) (ids : List Key) (k : Key) (F : List Nat) (st : State) (any : Bool) (ck : Key)
    (h : st.get? ck.1 ck.2 = none ∨
      ∃ c, st.get? ck.1 ck.2 = some c ∧ ((c.matchFlows F).isEmpty = true ∨ childChanged c k = false)) :
    standDown g ids k F (st, any) ck = (st, any) := by
  rcases h with h | ⟨c, h, h2 | h2⟩
  · exact standDown_not_pooled g ids k F st any ck h
  · exact standDown_not_concerned g ids k F st any ck c h h2
  · exact standDown_unchanged g ids k F st any ck c h h2

/-- in every other case the child's prerequisites -- normal and suicide -- are exactly the old ones with
`unset_naturally_satisfied(k)` applied (`unsetChild`; see `unset_exactly_natural`) -/
theorem child_prereqs_unset (c : Proxy) (k : Key) :
    (unsetChild c k).pre = c.pre.map (fun p => (p.unsetNatural k.1 k.2).1) ∧
    (unsetChild c k).sui = c.sui.map (fun p => (p.unsetNatural k.1 k.2).1) ∧
    (unsetChild c k).flows = c.flows ∧ (unsetChild c k).done = c.done ∧ (unsetChild c k).status = c.status := by
  unfold unsetChild
  simp [List.map_map, Function.comp_def]

/-- still ready (preparing or later, or in other flows too, or all prerequisites still satisfied): only the
prerequisites change -/
theorem child_kept (g : Graph) (ids : List Key) (k : Key) (F : List Nat) (st : State) (any : Bool) (ck : Key)
    (c : Proxy) (h : st.get? ck.1 ck.2 = some c) (hf : (c.matchFlows F).isEmpty = false)
    (hc : childChanged c k = true) (hr : stillReady c k F = true) :
    standDown g ids k F (st, any) ck = (st.put (unsetChild c k), true) :=
  standDown_kept g ids k F st any ck c h hf hc hr

/-- no longer ready, but matched itself or with some prerequisite still satisfied: it leaves the queue, and stays -/
theorem child_unqueued (g : Graph) (ids : List Key) (k : Key) (F : List Nat) (st : State) (any : Bool) (ck : Key)
    (c : Proxy) (h : st.get? ck.1 ck.2 = some c) (hf : (c.matchFlows F).isEmpty = false)
    (hc : childChanged c k = true) (hr : stillReady c k F = false)
    (hs : (ids.contains ck || ((unsetChild c k).reset (queued := some false)).anySatisfied) = true) :
    standDown g ids k F (st, any) ck =
      ((st.put (unsetChild c k)).put ((unsetChild c k).reset (queued := some false)), true) :=
  standDown_unqueued g ids k F st any ck c h hf hc hr hs

/-- **left with no satisfied prerequisite**: it leaves the pool -/
theorem child_removed (g : Graph) (ids : List Key) (k : Key) (F : List Nat) (st : State) (any : Bool) (ck : Key)
    (c : Proxy) (h : st.get? ck.1 ck.2 = some c) (hf : (c.matchFlows F).isEmpty = false)
    (hc : childChanged c k = true) (hr : stillReady c k F = false)
    (hs : (ids.contains ck || ((unsetChild c k).reset (queued := some false)).anySatisfied) = false) :
    (standDown g ids k F (st, any) ck).1.get? ck.1 ck.2 = none :=
  standDown_removed g ids k F st any ck c h hf hc hr hs

/-- **a child that stands down is erased from its own flows only**: the DB operation queued for it names the flows
its pool instance was removed in (`match_flows` of the child), not the flows named by the command -- with
`other_flows_history_kept`, what the child did in other flows stays in the database -/
theorem child_history_erased_in_its_own_flows (g : Graph) (ids : List Key) (k : Key) (F : List Nat) (st : State)
    (any : Bool) (ck : Key) (c : Proxy) (h : st.get? ck.1 ck.2 = some c) (hf : (c.matchFlows F).isEmpty = false)
    (hc : childChanged c k = true) (hr : stillReady c k F = false)
    (hs : (ids.contains ck || ((unsetChild c k).reset (queued := some false)).anySatisfied) = false) :
    standDown g ids k F (st, any) ck =
      ((removeTaskFromFlows
          (remove g ((st.put (unsetChild c k)).put ((unsetChild c k).reset (queued := some false)))
            ((unsetChild c k).reset (queued := some false)))
          ((unsetChild c k).reset (queued := some false)).name ((unsetChild c k).reset (queued := some false)).pt
          (c.matchFlows F)).1, true) :=
  standDown_removed_eq g ids k F st any ck c h hf hc hr hs

/-- **exactly those children leave the pool**: a pooled downstream proxy is gone after its stand-down step iff it
is concerned, lost a naturally satisfied prerequisite, is no longer ready, is not matched itself and has no
satisfied prerequisite left -/
theorem child_leaves_iff (g : Graph) (ids : List Key) (k : Key) (F : List Nat) (st : State) (any : Bool) (ck : Key)
    (c : Proxy) (h : st.get? ck.1 ck.2 = some c) :
    (standDown g ids k F (st, any) ck).1.get? ck.1 ck.2 = none ↔
      ((c.matchFlows F).isEmpty = false ∧ childChanged c k = true ∧ stillReady c k F = false ∧
       (ids.contains ck || ((unsetChild c k).reset (queued := some false)).anySatisfied) = false) := by
  have hk := get?_some_key st ck.1 ck.2 c h
  have hsome : (st.get? ck.1 ck.2).isSome := by rw [h]; rfl
  constructor
  · intro hn
    cases hf : (c.matchFlows F).isEmpty with
    | true =>
      rw [standDown_not_concerned g ids k F st any ck c h hf, h] at hn
      exact absurd hn (by simp)
    | false =>
      cases hc : childChanged c k with
      | false =>
        rw [standDown_unchanged g ids k F st any ck c h hc, h] at hn
        exact absurd hn (by simp)
      | true =>
        cases hr : stillReady c k F with
        | true =>
          rw [standDown_kept g ids k F st any ck c h hf hc hr] at hn
          have hp := get?_put_self st (unsetChild c k) (by
            show (st.get? c.pt c.name).isSome
            rw [hk.1, hk.2]; exact hsome)
          have e1 : (unsetChild c k).pt = ck.1 := hk.1
          have e2 : (unsetChild c k).name = ck.2 := hk.2
          rw [e1, e2] at hp
          simp only at hn
          rw [hp] at hn
          exact absurd hn (by simp)
        | false =>
          cases hs : (ids.contains ck || ((unsetChild c k).reset (queued := some false)).anySatisfied) with
          | false => exact ⟨rfl, rfl, rfl, rfl⟩
          | true =>
            rw [standDown_unqueued g ids k F st any ck c h hf hc hr hs] at hn
            have e1 : ((unsetChild c k).reset (queued := some false)).pt = ck.1 := by rw [reset_pt]; exact hk.1
            have e2 : ((unsetChild c k).reset (queued := some false)).name = ck.2 := by rw [reset_name]; exact hk.2
            have hp := get?_put_self (st.put (unsetChild c k)) ((unsetChild c k).reset (queued := some false)) (by
              rw [e1, e2]
              have := get?_put_self st (unsetChild c k) (by
                show (st.get? c.pt c.name).isSome
                rw [hk.1, hk.2]; exact hsome)
              have f1 : (unsetChild c k).pt = ck.1 := hk.1
              have f2 : (unsetChild c k).name = ck.2 := hk.2
              rw [f1, f2] at this
              rw [this]; rfl)
            rw [e1, e2] at hp
            simp only at hn
            rw [hp] at hn
            exact absurd hn (by simp)
  · rintro ⟨hf, hc, hr, hs⟩
    exact standDown_removed g ids k F st any ck c h hf hc hr hs

/-! ### erases its history in those flows so it can run again later -/

/-- **`remove_task_from_flows` + commit**: in both tables no row of the task carries a flow the removal concerns
(`Erased`: without `--flow` the rows are left with no flow at all), and the rows of every other task are exactly
what they were -/
theorem history_erased (s : State) (name : String) (p : Int) (F : List Nat) (hq : Quiet s) :
    (∀ r ∈ (dbFlush (removeTaskFromFlows s name p F).1).stRows, r.isOf name p → Erased F r.flows) ∧
    (∀ r ∈ (dbFlush (removeTaskFromFlows s name p F).1).outRows, r.isOf name p → Erased F r.flows) :=
  ⟨(erase_states s name p F hq).1, (erase_outputs s name p F hq).1⟩

theorem other_history_kept (s : State) (name : String) (p : Int) (F : List Nat) (hq : Quiet s) :
    (∀ r : StRow, ¬ r.isOf name p → (r ∈ (dbFlush (removeTaskFromFlows s name p F).1).stRows ↔ r ∈ s.stRows)) ∧
    (∀ r : OutRow, ¬ r.isOf name p → (r ∈ (dbFlush (removeTaskFromFlows s name p F).1).outRows ↔ r ∈ s.outRows)) :=
  ⟨(erase_states s name p F hq).2, (erase_outputs s name p F hq).2⟩

/-- **history in other flows is kept**: a flow set of the task's rows (either table) that contains none of the removed
flows is still the flow set of one of its rows after `remove_task_from_flows` + commit -/
theorem other_flows_history_kept (s : State) (name : String) (p : Int) (F : List Nat) (hq : Quiet s)
    (hF : F.isEmpty = false) :
    (∀ r ∈ s.stRows, r.isOf name p → hitB F r.flows = false →
      ∃ r' ∈ (dbFlush (removeTaskFromFlows s name p F).1).stRows, r'.isOf name p ∧ r'.flows = r.flows) ∧
    (∀ r ∈ s.outRows, r.isOf name p → hitB F r.flows = false →
      ∃ r' ∈ (dbFlush (removeTaskFromFlows s name p F).1).outRows, r'.isOf name p ∧ r'.flows = r.flows) :=
  ⟨fun r hr hk hc => erase_states_keeps s name p F hq hF r hr hk hc,
   fun r hr hk hc => erase_outputs_keeps s name p F hq hF r hr hk hc⟩

/-- with such rows `_get_task_history` finds no earlier status of the task in those flows -/
theorem history_forgotten (s : State) (name : String) (p : Int) (F F' : List Nat)
    (h : ∀ r ∈ s.stRows, r.isOf name p → Erased F r.flows) (hsub : F = [] ∨ ∀ n ∈ F', n ∈ F) :
    (taskHistory s name p F').2 = (none, false) :=
  taskHistory_forgotten s name p F F' h hsub

/-- **it can run again**: `spawn_task` hands out a new instance -- waiting, no completed outputs, in exactly the
requested flows -- for an instance of the graph that is not a pre-start instance of flow 1 -/
theorem runs_again (g : Graph) (s : State) (name : String) (p : Int) (F F' : List Nat) (fw : Bool)
    (hst : ∀ r ∈ s.stRows, r.isOf name p → Erased F r.flows)
    (hout : ∀ r ∈ s.outRows, r.isOf name p → Erased F r.flows)
    (hsub : F = [] ∨ ∀ n ∈ F', n ∈ F)
    (hwarm : (p < g.start && F'.contains 1 && !s.preStart.contains (name, p)) = false)
    (x0 : Proxy) (hmk : mkProxy g name p = some x0) :
    ∃ x, (spawnTask g s name p F' fw).2 = some x ∧ x.status = .waiting ∧ x.done = [] ∧
      x.pt = p ∧ x.name = name ∧ x.flows = F' :=
  spawn_after_erase g s name p F F' fw hst hout hsub hwarm x0 hmk

/-- erase + commit, then the next attempt to spawn the task in those flows yields a new instance -/
theorem erase_then_respawn (g : Graph) (s : State) (name : String) (p : Int) (F F' : List Nat) (fw : Bool)
    (hq : Quiet s) (hsub : F = [] ∨ ∀ n ∈ F', n ∈ F)
    (hwarm : (p < g.start && F'.contains 1 && !s.preStart.contains (name, p)) = false)
    (x0 : Proxy) (hmk : mkProxy g name p = some x0) :
    ∃ x, (spawnTask g (dbFlush (removeTaskFromFlows s name p F).1) name p F' fw).2 = some x ∧
      x.status = .waiting ∧ x.done = [] ∧ x.flows = F' := by
  have hpre : (dbFlush (removeTaskFromFlows s name p F).1).preStart = s.preStart := by
    unfold removeTaskFromFlows dbFlush
    simp only
    split <;> rfl
  obtain ⟨x, h1, h2, h3, _, _, h6⟩ := spawn_after_erase g (dbFlush (removeTaskFromFlows s name p F).1) name p F F' fw
    (erase_states s name p F hq).1 (erase_outputs s name p F hq).1 hsub (by rw [hpre]; exact hwarm) x0 hmk
  exact ⟨x, h1, h2, h3, h6⟩

/-! ### other tasks are left unchanged -/

/-- **the frame of the removal loop** (`for id_ in ids` of `_remove_matched_tasks`): a pooled proxy whose key is
outside the closure of the matched ids -- the ids, their graph children, and the parentless successors of both
(`spawn_next_parentless` of a removed proxy may merge flows into its successor) -- is in the pool afterwards, the
very same object: status, flows, outputs, prerequisites, flags -/
theorem others_untouched (g : Graph) (s : State) (ids : List Key) (F : List Nat) (chs : List (Key × List Key))
    (p : Int) (n : String) (x : Proxy)
    (hout : (p, n) ∉ ids.flatMap (closure1 g)) (hx : s.get? p n = some x) :
    (removeCore g s ids F chs).1.get? p n = some x :=
  removeCore_keeps g s ids F chs p n x hout hx

/-- **`kill_tasks`** works on the transient objects of the removed proxies: the pool is not touched -/
theorem kill_leaves_pool (g : Graph) (s : State) (keys : List Key) : (killTasks g s keys).pool = s.pool :=
  killTasks_pool g s keys

/-- loop + kill -/
theorem removal_frame (g : Graph) (s : State) (ids : List Key) (F : List Nat) (chs : List (Key × List Key))
    (p : Int) (n : String) (x : Proxy)
    (hout : (p, n) ∉ ids.flatMap (closure1 g)) (hx : s.get? p n = some x) :
    (killTasks g (removeCore g s ids F chs).1 (removeCore g s ids F chs).2.1).get? p n = some x := by
  rw [get?_congr (killTasks_pool _ _ _)]
  exact removeCore_keeps g s ids F chs p n x hout hx

/-! ### when is the history erased (finding `erase-deferred`) -/

/-- the full statement: when the per-id step of the command returns, the history is erased in the database
(for the behaviour of the live code, `RmFlags.commits`) -/
def erased_at_once_full : Prop :=
  ∀ (g : Graph), g.rmCommits = RmFlags.commits → ∀ (s : State) (k : Key) (F : List Nat), Quiet s →
    ∀ r ∈ (eraseHistory g s k F).1.stRows, r.isOf k.2 k.1 → Erased F r.flows

/-- repaired behaviour (flag true): the full statement holds -/
theorem erased_at_once_partial (g : Graph) (hg : g.rmCommits = true) (s : State) (k : Key) (F : List Nat)
    (hq : Quiet s) : ∀ r ∈ (eraseHistory g s k F).1.stRows, r.isOf k.2 k.1 → Erased F r.flows := by
  unfold eraseHistory
  simp only [hg, if_true]
  exact (erase_states s k.2 k.1 F hq).1

/-- the repaired code meets the hypothesis `Quiet` of the statements above by construction: a commit leaves nothing
queued, and it commits before the first matched id is handled and after every one -/
theorem repaired_is_quiet (g : Graph) (hg : g.rmCommits = true) (s : State) (k : Key) (F : List Nat) :
    Quiet (dbFlush s) ∧ Quiet (eraseHistory g s k F).1 := by
  refine ⟨⟨rfl, rfl, rfl, rfl⟩, ?_⟩
  unfold eraseHistory
  simp only [hg, if_true]
  exact ⟨rfl, rfl, rfl, rfl⟩

/-- the witness: one row of `1/b` in flow 1, nothing queued -/
def cexState : State := { stRows := [⟨"b", 1, [1], 0, false, .waiting, false⟩] }

/-- behaviour as found (flag false): the row is still there when the step returns -/
theorem erased_at_once_counterexample :
    ¬ ∀ (g : Graph), g.rmCommits = false → ∀ (s : State) (k : Key) (F : List Nat), Quiet s →
      ∀ r ∈ (eraseHistory g s k F).1.stRows, r.isOf k.2 k.1 → Erased F r.flows := by
  intro h
  have h1 := h { icp := 1, fcp := 1, start := 1, runahead := 1, tasks := [], seqs := [] } rfl cexState (1, "b") []
    ⟨rfl, rfl, rfl, rfl⟩ ⟨"b", 1, [1], 0, false, .waiting, false⟩ (by decide) ⟨rfl, rfl⟩ 1 (by simp)
  exact h1.1 rfl

/-- the truth of the full statement follows the flag probed from the live code -/
theorem erased_at_once_live : erased_at_once_full ↔ RmFlags.commits = true := by
  unfold erased_at_once_full
  generalize RmFlags.commits = f
  cases f
  · simp only [Bool.false_eq_true, iff_false]
    exact erased_at_once_counterexample
  · simp only [iff_true]
    exact fun g hg s k F hq => erased_at_once_partial g hg s k F hq

/-! ### a matched id that is active in other flows only (finding `active-elsewhere-history-kept`) -/

/-- the full statement: a matched id whose pooled proxy is in none of the given flows is still erased from those
flows in the DB and its children stand down, like an id that is not in the pool -/
def elsewhere_full : Prop :=
  ∀ (g : Graph), g.rmAlwaysDb = RmFlags.alwaysDb → ∀ (ids : List Key) (F : List Nat) (st : State) (tk : List Key)
    (any : Bool) (k : Key) (x : Proxy), st.get? k.1 k.2 = some x → (x.matchFlows F).isEmpty = true →
    (removeOne g ids F [] (st, tk, any) k).1 = (removeDownstream g st ids k F).1

theorem elsewhere_partial (g : Graph) (hg : g.rmAlwaysDb = true) (ids : List Key) (F : List Nat) (st : State)
    (tk : List Key) (any : Bool) (k : Key) (x : Proxy) (hx : st.get? k.1 k.2 = some x)
    (hm : (x.matchFlows F).isEmpty = true) :
    (removeOne g ids F [] (st, tk, any) k).1 = (removeDownstream g st ids k F).1 := by
  unfold removeOne
  simp only [hx, hm, hg, if_true]
  rfl

/-- the witness: `1/b` is in the pool in flow 2 and has a row in flow 1 -/
def cexElse : State :=
  { pool := [{ pt := 1, name := "b", flows := [2] }], stRows := [⟨"b", 1, [1], 1, false, .succeeded, false⟩] }

def cexGraph : Graph := { icp := 1, fcp := 1, start := 1, runahead := 1, tasks := [], seqs := [] }

/-- behaviour as found (flag false): nothing happens for such an id -- no DB operation is queued -/
theorem elsewhere_counterexample :
    ¬ ∀ (g : Graph), g.rmAlwaysDb = false → ∀ (ids : List Key) (F : List Nat) (st : State) (tk : List Key)
      (any : Bool) (k : Key) (x : Proxy), st.get? k.1 k.2 = some x → (x.matchFlows F).isEmpty = true →
      (removeOne g ids F [] (st, tk, any) k).1 = (removeDownstream g st ids k F).1 := by
  intro h
  have h1 := h cexGraph rfl [(1, "b")] [1] cexElse [] false (1, "b") { pt := 1, name := "b", flows := [2] }
    rfl (by decide)
  have h2 : (removeOne cexGraph [(1, "b")] [1] [] (cexElse, [], false) (1, "b")).1.qStUpd.length = 0 := by decide
  have h3 : (removeDownstream cexGraph cexElse [(1, "b")] (1, "b") [1]).1.qStUpd.length = 1 := by decide
  rw [h1, h3] at h2
  exact absurd h2 (by decide)

theorem elsewhere_live : elsewhere_full ↔ RmFlags.alwaysDb = true := by
  unfold elsewhere_full
  generalize RmFlags.alwaysDb = f
  cases f
  · simp only [Bool.false_eq_true, iff_false]
    exact elsewhere_counterexample
  · simp only [iff_true]
    exact fun g hg ids F st tk any k x hx hm => elsewhere_partial g hg ids F st tk any k x hx hm

/-! ### a concrete workflow: the defect end to end, non-vacuity of the hypotheses -/

/-- `a:start => b` and `c:start => b` on one cycle point -/
def exGraph (commits : Bool) : Graph :=
  let outs : List OutDef := [⟨"submitted", "submitted"⟩, ⟨"started", "started"⟩, ⟨"succeeded", "succeeded"⟩]
  { icp := 1, fcp := 1, start := 1, runahead := 1, seqs := [[1]], stopPoint := some 1, rmCommits := commits,
    tasks := [
      { name := "a", firstParentless := some 1, completion := CE.var "succeeded", outputs := outs,
        insts := [(1, { pre := [], sui := [], children := [("started", [⟨"b", 1, false⟩])], nextParentless := none,
                        parentlessIcp := true })] },
      { name := "c", firstParentless := some 1, completion := CE.var "succeeded", outputs := outs,
        insts := [(1, { pre := [], sui := [], children := [("started", [⟨"b", 1, false⟩])], nextParentless := none,
                        parentlessIcp := true })] },
      { name := "b", firstParentless := none, completion := CE.var "succeeded", outputs := outs,
        insts := [(1, { pre := [{ atoms := [(⟨1, "a", "started"⟩, .no)], expr := none },
                                { atoms := [(⟨1, "c", "started"⟩, .no)], expr := none }],
                        sui := [], children := [], nextParentless := none,
                        trigParents := [(1, "a"), (1, "c")],
                        tdefAtoms := [⟨1, "a", "started"⟩, ⟨1, "c", "started"⟩] })] }] }

def final (g : Graph) (ops : List Op) : State := ops.foldl (step g) (init g)

/-- `1/a` starts (`1/b` is spawned and waits for `1/c`), `1/b` is removed, and in the same main loop `1/c` starts -/
def raceOps : List Op :=
  [.loop, .subres 1 "a" true 1, .subres 1 "c" true 1, .msg 1 "a" 1 "started", .loop,
   .rm [(1, "b")] [] [] [], .msg 1 "c" 1 "started", .loop]

/-- the full statement: `1/b`, removed and then needed again, is spawned again -/
def respawn_full : Prop :=
  (((final (exGraph RmFlags.commits) raceOps).pool.map fun x => (x.pt, x.name)).contains (1, "b")) = true

/-- repaired behaviour: it is, as a new instance (waiting, no outputs, the prerequisite on `1/c` satisfied) -/
theorem respawn_partial :
    ((final (exGraph true) raceOps).pool.map fun x => (x.pt, x.name, x.status, x.done, x.flows)) =
      [(1, "a", .running, ["submitted", "started"], [1]), (1, "c", .running, ["submitted", "started"], [1]),
       (1, "b", .waiting, [], [1])] := by decide +kernel

/-- behaviour as found: it is not -- `spawn_task` reads the history the command has not yet erased ("task was
removed") -/
theorem respawn_counterexample :
    ((final (exGraph false) raceOps).pool.map fun x => (x.pt, x.name, x.status)) =
      [(1, "a", .running), (1, "c", .running)] := by decide +kernel

theorem respawn_live : respawn_full ↔ RmFlags.commits = true := by
  unfold respawn_full
  generalize RmFlags.commits = f
  cases f
  · simp only [Bool.false_eq_true, iff_false]
    decide +kernel
  · simp only [iff_true]
    decide +kernel

/-- before the removal `1/b` is in the pool with its prerequisite on `1/a` satisfied naturally; the removal takes
it out, queues (code as found) the erasure of its rows, and touches nothing else -/
example :
    let ops := [Op.loop, .subres 1 "a" true 1, .subres 1 "c" true 1, .msg 1 "a" 1 "started", .loop]
    ((final (exGraph false) ops).pool.map fun x => (x.pt, x.name, x.status, x.pre.map (·.atoms.map (·.2)))) =
      [(1, "a", .running, []), (1, "c", .submitted, []), (1, "b", .waiting, [[.nat], [.no]])] ∧
    ((final (exGraph false) (ops ++ [.rm [(1, "b")] [] [] []])).pool.map fun x => (x.pt, x.name, x.status)) =
      [(1, "a", .running), (1, "c", .submitted)] ∧
    (final (exGraph false) (ops ++ [.rm [(1, "b")] [] [] []])).qStUpd.length = 1 ∧
    (final (exGraph true) (ops ++ [.rm [(1, "b")] [] [] []])).qStUpd.length = 0 := by decide +kernel

/-- `others_untouched`: `1/a` is outside the closure of the matched id `1/b` -/
example : (1, "a") ∉ [(1, "b")].flatMap (closure1 (exGraph false)) := by decide +kernel

/-- `child_removed` / `child_kept`: removing the parent `1/a` makes the waiting `1/b` (no other prerequisite
satisfied) stand down -/
example :
    let ops := [Op.loop, .subres 1 "a" true 1, .subres 1 "c" true 1, .msg 1 "a" 1 "started", .loop]
    ((final (exGraph false) (ops ++ [.rm [(1, "a")] [] [] []])).pool.map fun x => (x.pt, x.name)) = [(1, "c")] ∧
    ((final (exGraph false) (ops ++ [.rm [(1, "c")] [] [] []])).pool.map fun x => (x.pt, x.name, x.pre.map (·.atoms.map (·.2)))) =
      [(1, "a", []), (1, "b", [[.nat], [.no]])] := by decide +kernel

/-- `history_erased` / `runs_again`: the hypotheses are met by a state with one committed row -/
example : Quiet cexState ∧ mkProxy (exGraph true) "b" 1 ≠ none := by
  refine ⟨⟨rfl, rfl, rfl, rfl⟩, ?_⟩
  decide

example : (dbFlush (removeTaskFromFlows cexState "b" 1 [1]).1).stRows.map (·.flows) = [[]] := by decide +kernel

/-- `flows_removed`: a proxy in flows 1 and 2 removed from flow 1 keeps flow 2 -/
example : diffF [1, 2] (({ pt := 1, name := "b", flows := [1, 2] } : Proxy).matchFlows [1]) = [2] := by decide

/-! ### more concrete values: the hypotheses of the theorems above are satisfiable -/

/-- `unset_exactly_natural`, `forced_kept`, `other_tasks_kept`, `natural_unset`, `changed_iff`: a prerequisite with a
naturally satisfied atom on `1/a`, a forced atom on `1/a`, and a naturally satisfied atom on `2/a` -/
example :
    let p : Pre := { atoms := [(⟨1, "a", "succeeded"⟩, .nat), (⟨1, "a", "started"⟩, .forced), (⟨2, "a", "succeeded"⟩, .db)],
                     expr := none }
    (p.unsetNatural 1 "a").1.atoms =
      [(⟨1, "a", "succeeded"⟩, .no), (⟨1, "a", "started"⟩, .forced), (⟨2, "a", "succeeded"⟩, .db)] ∧
    (p.unsetNatural 1 "a").2 = true ∧ (p.unsetNatural 3 "a").2 = false := by decide

/-- `child_removed` / `child_leaves_iff`: in the state before `cylc remove 1/a` of the workflow above the child `1/b` meets
every hypothesis (concerned, a prerequisite unset, no longer ready, not matched, nothing satisfied any more) -/
example :
    let st := final (exGraph false) [Op.loop, .subres 1 "a" true 1, .subres 1 "c" true 1, .msg 1 "a" 1 "started", .loop]
    ∃ c, st.get? 1 "b" = some c ∧ (c.matchFlows []).isEmpty = false ∧ childChanged c (1, "a") = true ∧
      stillReady c (1, "a") [] = false ∧
      ([(1, "a")].contains (1, "b") || ((unsetChild c (1, "a")).reset (queued := some false)).anySatisfied) = false := by
  refine ⟨_, rfl, ?_⟩
  decide +kernel

/-- `child_kept` (a child in another flow too is still "ready") and `child_untouched` (not concerned) -/
example :
    let c : Proxy := { pt := 1, name := "b", flows := [1, 2],
                       pre := [{ atoms := [(⟨1, "a", "succeeded"⟩, .nat)], expr := none }] }
    childChanged c (1, "a") = true ∧ stillReady c (1, "a") [1] = true ∧ (c.matchFlows [3]).isEmpty = true ∧
    childChanged c (1, "x") = false := by decide

/-- `flows_removed`, `leaves_pool_iff_none_remain`: a pooled proxy in flows 1 and 2 -/
example :
    let x : Proxy := { pt := 1, name := "b", flows := [1, 2] }
    let s : State := { pool := [x] }
    s.get? x.pt x.name = some x ∧ (x.matchFlows [1] == x.flows) = false ∧ x.matchFlows [] = x.flows ∧
    (removePooled cexGraph s x (x.matchFlows [1])).pool.map (·.flows) = [[2]] ∧
    (removePooled cexGraph s x (x.matchFlows [])).pool.map (·.flows) = [] := by
  refine ⟨rfl, ?_⟩
  decide +kernel

/-- `history_erased`, `other_history_kept`, `history_forgotten`, `erase_then_respawn`: two rows of `1/b` (flows 1 and
1,2), one of `1/a`; erasing flow 1 leaves `1/b` with flows [] and [2] and `1/a` alone; flow 1 has no history then -/
example :
    let s : State := { stRows := [⟨"b", 1, [1], 1, false, .succeeded, false⟩, ⟨"b", 1, [1, 2], 1, false, .succeeded, false⟩,
                                  ⟨"a", 1, [1], 1, false, .succeeded, false⟩] }
    Quiet s ∧
    (dbFlush (removeTaskFromFlows s "b" 1 [1]).1).stRows.map (fun r => (r.name, r.flows)) =
      [("b", []), ("b", [2]), ("a", [1])] ∧
    (taskHistory s "b" 1 [1]).2 = (some .succeeded, false) ∧
    (taskHistory (dbFlush (removeTaskFromFlows s "b" 1 [1]).1) "b" 1 [1]).2 = (none, false) := by
  refine ⟨⟨rfl, rfl, rfl, rfl⟩, ?_⟩
  decide +kernel

/-- `other_flows_history_kept`: `1/b` succeeded in flow 1 and waits in flow 2; erased from flow 2 its flow-1 row stays -/
example :
    let s : State := { stRows := [⟨"b", 1, [1], 1, false, .succeeded, false⟩, ⟨"b", 1, [2], 1, false, .waiting, false⟩] }
    Quiet s ∧ hitB [2] [1] = false ∧
    (dbFlush (removeTaskFromFlows s "b" 1 [2]).1).stRows.map (fun r => (r.flows, r.status)) =
      [([1], .succeeded), ([], .waiting)] := by
  refine ⟨⟨rfl, rfl, rfl, rfl⟩, ?_⟩
  decide +kernel

/-- `runs_again`: with that history erased `spawn_task` hands out `1/b` as a new waiting instance -/
example :
    let s : State := { stRows := [⟨"b", 1, [], 1, false, .succeeded, false⟩] }
    ((spawnTask (exGraph true) s "b" 1 [1]).2.map fun x => (x.status, x.done, x.flows, x.submitNum)) =
      some (.waiting, [], [1], 1) := by decide +kernel

/-- `kill_leaves_pool`, `removal_frame`: removing the running `1/a` kills its job on the transient object; `1/c` is
outside the closure of `1/a` and is the same object afterwards -/
example :
    let st := final (exGraph false) [Op.loop, .subres 1 "a" true 1, .subres 1 "c" true 1, .msg 1 "a" 1 "started", .loop]
    (1, "c") ∉ [(1, "a")].flatMap (closure1 (exGraph false)) ∧
    (removeCore (exGraph false) st [(1, "a")] []).2.1 = [(1, "a")] ∧
    ((killTasks (exGraph false) (removeCore (exGraph false) st [(1, "a")] []).1 [(1, "a")]).ghosts.map
      fun x => (x.pt, x.name, x.status, x.removed)) = [(1, "a", .failed, true), (1, "b", .waiting, false)] := by
  decide +kernel

end CylcModel.C30
