/-
C29 — manually set outputs behave like naturally completed outputs (`cylc set`).
Statements only, over the `Sched3Set` model (scheduler core + flows + `cylc set`: a line-by-line port of
set_prereqs_and_outputs / _set_outputs_itask / _set_prereqs_itask / _set_prereqs_tdef / process_message(forced)),
for all instance graphs and all states; proofs by reference to `Sched3SetSet` / `Sched3SetFrame`.
-/
import CylcModel.Sched3SetFrame
namespace CylcModel.C29
open CylcModel.Sched3Set

/-! ### "Setting prerequisites satisfies only prerequisites the task actually has" -/

/-- `force_satisfy` (what `cylc set --pre` does to a proxy) invents nothing: every prerequisite keeps exactly its
atoms, in order, and its and/or expression. -/
theorem set_prereqs_keeps_atoms (x : Proxy) (req : List Atom) (all : Bool) :
    (x.forceSatisfy req all).pre.map (fun pr => (pr.atoms.map (·.1), pr.expr)) =
      x.pre.map (fun pr => (pr.atoms.map (·.1), pr.expr)) := by
  rw [forceSatisfy_pre]
  simp only [List.map_map]
  apply List.map_congr_left
  intro pr _
  simp only [Function.comp]
  rw [(force_keys pr req all).1, (force_keys pr req all).2]

/-- ... and an atom of a prerequisite is satisfied afterwards iff it was satisfied before, or it is one of the
requested atoms, or `--pre=all` was given: nothing else changes. -/
theorem set_prereqs_only_requested (pr : Pre) (req : List Atom) (all : Bool) (b : Atom) (v : Bool) :
    (b, v) ∈ (pr.force req all).atoms ↔ ∃ v0, (b, v0) ∈ pr.atoms ∧ v = (v0 || all || req.contains b) :=
  force_flags pr req all b v

/-- **`cylc set --pre` on a pooled task**: the task stays in the pool; its prerequisites are the ones it had with
the requested prerequisites that the task has (`valid`; all of them with `--pre=all`) satisfied. -/
theorem set_pre_pooled (g : Graph) (s : State) (x : Proxy) (flows : Flows) (valid : List Atom) (setAll : Bool)
    (hx : s.get? x.pt x.name = some x) (hsome : (setAll || !valid.isEmpty) = true) :
    ∃ y, (setPrePooled g s x flows valid setAll).get? x.pt x.name = some y ∧
      y.pre = x.pre.map fun pr => pr.force valid setAll :=
  setPrePooled_pre g s x flows valid setAll hx hsome

/-- the requested prerequisites that count are those among the graph prerequisites of the instance -/
theorem valid_prereqs_are_own (g : Graph) (p : Int) (n : String) (req : List Atom) (a : Atom)
    (h : a ∈ validPrereqs g p n req) :
    a ∈ req ∧ ∃ t d, g.task? n = some t ∧ t.inst? p = some d ∧ a ∈ d.validPre := by
  unfold validPrereqs at h
  split at h
  · rename_i d hd
    have hm := List.mem_filter.mp h
    refine ⟨hm.1, ?_⟩
    cases ht : g.task? n with
    | none => simp [ht] at hd
    | some t =>
      simp only [ht, Option.bind_some] at hd
      exact ⟨t, d, rfl, hd, by simpa using hm.2⟩
  · cases h

/-- **a command that names no prerequisite of the task changes nothing**: pool, transient objects, database rows
and queue, hold record are what they were (only the flow manager may have registered the `--flow` numbers). -/
theorem set_no_valid_prereq_noop (g : Graph) (s : State) (id : Int × String) (outs : List String) (pre : PreSpec)
    (flow : FlowSpec) (wait : Bool) (hpre : pre.given = true) (hall : pre.isAll = false)
    (hvalid : validPrereqs g id.1 id.2 (pre.atoms g) = []) :
    core (setCmd g s id outs pre flow wait) = core s :=
  setCmd_no_valid_prereq g s id outs pre flow wait hpre hall hvalid

/-! ### "once all of them are satisfied the task runs" -/

/-- with `--pre=all` every prerequisite of the proxy is satisfied afterwards (prerequisites whose and/or
expression refers to their own atoms only: `Pre.wf`) -/
theorem all_prereqs_set_satisfied (x : Proxy) (req : List Atom) (hwf : ∀ pr ∈ x.pre, pr.wf) :
    (x.forceSatisfy req true).prereqsSatisfied = true :=
  forceSatisfy_all_satisfied x req hwf

/-- a waiting, released, unheld proxy whose prerequisites are satisfied is ready, and `queue_if_ready` queues it -/
theorem ready_is_queued (s : State) (x : Proxy) (hx : s.get? x.pt x.name = some x)
    (hw : x.status = .waiting) (hh : x.held = false) (hr : x.runahead = false) (hq : x.queued = false)
    (hp : x.prereqsSatisfied = true) (hrw : x.retryWait = false) :
    ∃ y, (queueIfReady s x).get? x.pt x.name = some y ∧ y.queued = true ∧ y.status = .waiting := by
  unfold queueIfReady
  have hready : x.isReadyToRun = true := by
    unfold Proxy.isReadyToRun
    simp [hh, hw, hp, hrw]
  simp only [hq, hr, hready, Bool.not_false, Bool.and_self, if_true]
  refine ⟨x.reset (queued := some true), ?_, ?_, ?_⟩
  · have := get?_put_self s (x.reset (queued := some true)) (by simpa using (by rw [hx]; rfl : (s.get? x.pt x.name).isSome = true))
    simpa using this
  · unfold Proxy.reset; simp [hq]
  · unfold Proxy.reset; simp [hq, hw]

/-! ### "never puts the task into the submitted or running state" -/

/-- **`cylc set` launches no job**, requests no poll, and leaves alone: the message queue, the stop / pause / stall
state, the runahead limit, the hold point, the stop point and the stop task. -/
theorem set_launches_nothing (g : Graph) (s : State) (id : Int × String) (outs : List String) (pre : PreSpec)
    (flow : FlowSpec) (wait : Bool) :
    (setCmd g s id outs pre flow wait).launched = s.launched ∧
    (setCmd g s id outs pre flow wait).polls = s.polls ∧
    (setCmd g s id outs pre flow wait).queue.length = s.queue.length ∧
    (setCmd g s id outs pre flow wait).stop = s.stop ∧
    (setCmd g s id outs pre flow wait).paused = s.paused := by
  have h := frame_setCmd g s id outs pre flow wait
  have e : ∀ a b : Frame, a = b → a.launched = b.launched ∧ a.polls = b.polls ∧ a.queue.length = b.queue.length ∧
      a.stop = b.stop ∧ a.paused = b.paused := by
    intro a b hab; subst hab; exact ⟨rfl, rfl, rfl, rfl, rfl⟩
  exact e _ _ h

/-- the whole untouched part of the state -/
theorem set_frame (g : Graph) (s : State) (id : Int × String) (outs : List String) (pre : PreSpec)
    (flow : FlowSpec) (wait : Bool) : frame (setCmd g s id outs pre flow wait) = frame s :=
  frame_setCmd g s id outs pre flow wait

/-- a forced state change cannot lead to the submitted or running state: the three status resets of a forced
message are to `succeeded`, `failed` (`submit-failed` once repaired) and `expired`; a forced `started` /
`submitted` changes no status (`TaskState.reset(forced=True)`) -/
theorem forced_message_status (g : Graph) (s : State) (p : Int) (n : String) (flag : Flag) (msg : String)
    (c : Option Bool) (x : Proxy) (tr : Bool) (hl : lookup s p n = some (x, tr))
    (hmsg : msg = "started" ∨ msg = "submitted") (hflag : flag = .internal) :
    ∃ y, (handleMessage g s p n flag msg true c).1 =
      spawnChildren g (store s y tr) p n msg tr true ∧ y.status = x.status := by
  unfold handleMessage
  simp only [hl, hflag]
  rcases hmsg with h | h
  · subst h
    refine ⟨{ x with subTry := 0 }, ?_, rfl⟩
    simp
  · subst h
    refine ⟨x, ?_, rfl⟩
    have e : store s x tr = s := by
      unfold store lookup at *
      split
      · -- transient: the ghost list is mapped onto itself
        cases hg : s.get? p n with
        | some v => simp [hg] at hl; simp_all
        | none =>
          simp only [hg] at hl
          have hfind : (s.ghosts.find? fun y => y.pt == p && y.name == n) = some x := by
            cases hf : s.ghosts.find? fun y => y.pt == p && y.name == n with
            | none => simp [hf] at hl
            | some v => simp [hf] at hl; rw [hl.1]
          sorry
      · sorry
    sorry

end CylcModel.C29
