/-
C29 — manually set outputs behave like naturally completed outputs (`cylc set`).
Statements only, over the `Sched3X` model (the `Sched3Set` model - scheduler core + flows + `cylc set`: a line-by-line
port of set_prereqs_and_outputs / _set_outputs_itask / _set_prereqs_itask / _set_prereqs_tdef /
process_message(forced) - plus the retry xtriggers a proxy carries: _retry_task, _get_valid_xtrigs,
XtriggerManager.force_satisfy / force_satisfy_all, the wall-clock check of the sweep),
for all instance graphs and all states; proofs by reference to `Sched3XSet` / `Sched3XFrame` / `Sched3XReady`.
-/
import CylcModel.Sched3XReady
namespace CylcModel.C29
open CylcModel.Sched3X

/-! ### "Setting prerequisites satisfies only prerequisites the task actually has" -/

/-- `force_satisfy` (what `cylc set --pre` does to a proxy) invents nothing: every prerequisite keeps exactly its
atoms, in order, and its and/or expression. -/
theorem set_prereqs_keeps_atoms (x : Proxy) (req : List Atom) (all : Bool) :
    (x.forceSatisfy req all).pre.map (fun pr => (pr.atoms.map (·.1), pr.expr)) =
      x.pre.map (fun pr => (pr.atoms.map (·.1), pr.expr)) := by
  rw [forceSatisfy_pre]
  simp only [List.map_map]
  apply List.map_congr_left
  intro pr _
  simp only [Function.comp]
  rw [(force_keys pr req all).1, (force_keys pr req all).2]

/-- ... and an atom of a prerequisite is satisfied afterwards iff it was satisfied before, or it is one of the
requested atoms, or `--pre=all` was given: nothing else changes. -/
theorem set_prereqs_only_requested (pr : Pre) (req : List Atom) (all : Bool) (b : Atom) (v : Bool) :
    (b, v) ∈ (pr.force req all).atoms ↔ ∃ v0, (b, v0) ∈ pr.atoms ∧ v = (v0 || all || req.contains b) :=
  force_flags pr req all b v

/-- **`cylc set --pre` on a pooled task**: the task stays in the pool; its prerequisites are the ones it had with
the requested prerequisites that the task has (`valid`; all of them with `--pre=all`) satisfied. -/
theorem set_pre_pooled (g : Graph) (s : State) (x : Proxy) (flows : Flows) (valid : List Atom) (setAll : Bool)
    (vx : List String) (hx : s.get? x.pt x.name = some x) (hsome : (setAll || !valid.isEmpty || !vx.isEmpty) = true) :
    ∃ y, (setPrePooled g s x flows valid setAll vx).get? x.pt x.name = some y ∧
      y.pre = x.pre.map fun pr => pr.force valid setAll :=
  setPrePooled_pre g s x flows valid setAll vx hx hsome

/-! ### suicide prerequisites are not prerequisites of the task -/

/-- what `cylc set --pre` does to a proxy (any requested prerequisites, `--pre=all` included, any xtriggers) leaves
its suicide prerequisites exactly as they were -/
theorem set_pre_keeps_suicide (x : Proxy) (req : List Atom) (all : Bool) (l : List String) :
    ((x.forceSatisfy req all).forceXtrigs l).sui = x.sui :=
  (forceXtrigs_fields (x.forceSatisfy req all) l).2.2.2.2.2

/-- **`cylc set --pre` on a pooled task**, through the flow merge: the task stays in the pool with the suicide
prerequisites it had -/
theorem set_pre_pooled_keeps_suicide (g : Graph) (s : State) (x : Proxy) (flows : Flows) (valid : List Atom)
    (setAll : Bool) (vx : List String) (hx : s.get? x.pt x.name = some x) :
    ∃ y, (setPrePooled g s x flows valid setAll vx).get? x.pt x.name = some y ∧ y.sui = x.sui :=
  setPrePooled_sui g s x flows valid setAll vx hx

/-! ### xtrigger prerequisites (`cylc set --pre=xtrigger/<label>`) -/

/-- the requested xtriggers that count (`vx` below) are `all` and the labels of the xtriggers that the live proxy
carries (here: the retry xtriggers `_cylc_retry_<point>_<name>` / `_cylc_submit_retry_<point>_<name>`) -/
theorem valid_xtrigs_are_carried (x : Proxy) (xs : List String) (l : String) (h : l ∈ validXtrigs x xs) :
    l ∈ xs ∧ (l = "all" ∨ l ∈ x.xLabels.map (·.1)) :=
  validXtrigs_carried x xs l h

/-- ... and every requested label that the proxy carries counts (none is rejected) -/
theorem carried_xtrigs_are_valid (x : Proxy) (xs : List String) (l : String) (h : l ∈ xs)
    (hc : l = "all" ∨ l ∈ x.xLabels.map (·.1)) : l ∈ validXtrigs x xs := by
  unfold validXtrigs
  apply List.mem_filter.mpr
  refine ⟨h, ?_⟩
  simp only [Bool.or_eq_true, beq_iff_eq, List.any_eq_true]
  rcases hc with hc | hc
  · exact Or.inl hc
  · obtain ⟨e, he, hl⟩ := List.mem_map.mp hc
    exact Or.inr ⟨e, he, hl⟩

/-- satisfying xtriggers invents none and drops none: the proxy carries the same labels afterwards -/
theorem set_xtrigs_keeps_labels (x : Proxy) (l : List String) :
    (x.forceXtrigs l).xLabels.map (·.1) = x.xLabels.map (·.1) :=
  forceXtrigs_labels x l

/-- **`cylc set --pre=xtrigger/...` on a pooled task**: the task stays in the pool; each retry xtrigger it carries
is satisfied afterwards iff it was satisfied before, or its label was requested, or `xtrigger/all` was given; no
xtrigger appears or disappears (an absent one, `none`, stays absent) -/
theorem set_xtrigs_pooled (g : Graph) (s : State) (x : Proxy) (flows : Flows) (valid : List Atom) (setAll : Bool)
    (vx : List String) (hx : s.get? x.pt x.name = some x) (hsome : (setAll || !valid.isEmpty || !vx.isEmpty) = true) :
    ∃ y, (setPrePooled g s x flows valid setAll vx).get? x.pt x.name = some y ∧
      y.xExec = x.xExec.map (fun v => v || vx == ["all"] || vx.contains (retryLabel false x.pt x.name)) ∧
      y.xSub = x.xSub.map (fun v => v || vx == ["all"] || vx.contains (retryLabel true x.pt x.name)) :=
  setPrePooled_xtrigs g s x flows valid setAll vx hx hsome

/-- with `xtrigger/all` no retry xtrigger of the proxy is left unsatisfied -/
theorem set_xtrigs_all (x : Proxy) : (x.forceXtrigs ["all"]).retryWait = false :=
  forceXtrigs_all x

/-- naming the one unsatisfied retry xtrigger of a proxy leaves none unsatisfied (the case of the seeded change
C29-b: a task waiting for an execution retry, `cylc set --pre=xtrigger/_cylc_retry_<point>_<name>`) -/
theorem set_xtrig_named_exec (x : Proxy) (l : List String) (hs : x.xSub ≠ some false)
    (hl : l.contains (retryLabel false x.pt x.name) = true) : (x.forceXtrigs l).retryWait = false := by
  unfold Proxy.forceXtrigs Proxy.xSatAll Proxy.retryWait
  split
  · cases x.xExec <;> cases x.xSub <;> rfl
  · cases he : x.xExec <;> cases hb : x.xSub <;> simp_all

theorem set_xtrig_named_sub (x : Proxy) (l : List String) (hs : x.xExec ≠ some false)
    (hl : l.contains (retryLabel true x.pt x.name) = true) : (x.forceXtrigs l).retryWait = false := by
  unfold Proxy.forceXtrigs Proxy.xSatAll Proxy.retryWait
  split
  · cases x.xExec <;> cases x.xSub <;> rfl
  · cases he : x.xExec <;> cases hb : x.xSub <;> simp_all

/-- the requested prerequisites that count are those among the graph prerequisites of the instance -/
theorem valid_prereqs_are_own (g : Graph) (p : Int) (n : String) (req : List Atom) (a : Atom)
    (h : a ∈ validPrereqs g p n req) :
    a ∈ req ∧ ∃ t d, g.task? n = some t ∧ t.inst? p = some d ∧ a ∈ d.validPre := by
  unfold validPrereqs at h
  split at h
  · rename_i d hd
    have hm := List.mem_filter.mp h
    refine ⟨hm.1, ?_⟩
    cases ht : g.task? n with
    | none => simp [ht] at hd
    | some t =>
      simp only [ht, Option.bind_some] at hd
      exact ⟨t, d, rfl, hd, by simpa using hm.2⟩
  · cases h

/-- **a command that names no prerequisite of the task changes nothing**: pool, transient objects, database rows
and queue, hold record are what they were (only the flow manager may have registered the `--flow` numbers).
"Names no prerequisite": no requested task prerequisite is one of the instance, and no requested xtrigger is `all`
or a label the pooled proxy carries. -/
theorem set_no_valid_prereq_noop (g : Graph) (s : State) (id : Int × String) (outs : List String) (pre : PreSpec)
    (flow : FlowSpec) (wait : Bool) (hpre : pre.given = true) (hall : pre.isAll = false)
    (hvalid : validPrereqs g id.1 id.2 (pre.atoms g) = [])
    (hx1 : ∀ x, s.get? id.1 id.2 = some x → validXtrigs x pre.xlabels = [])
    (hx2 : validXtrigsInactive pre.xlabels = []) :
    core (setCmd g s id outs pre flow wait) = core s :=
  setCmd_no_valid_prereq g s id outs pre flow wait hpre hall hvalid hx1 hx2

/-! ### "once all of them are satisfied the task runs" -/

/-- with `--pre=all` every prerequisite of the proxy is satisfied afterwards (prerequisites whose and/or
expression refers to their own atoms only: `Pre.wf`) -/
theorem all_prereqs_set_satisfied (x : Proxy) (req : List Atom) (hwf : ∀ pr ∈ x.pre, pr.wf) :
    (x.forceSatisfy req true).prereqsSatisfied = true :=
  forceSatisfy_all_satisfied x req hwf

/-- a waiting, released, unheld proxy whose prerequisites are satisfied and that waits for no retry xtrigger is
ready, and `queue_if_ready` queues it -/
theorem ready_is_queued (s : State) (x : Proxy) (hx : s.get? x.pt x.name = some x)
    (hw : x.status = .waiting) (hh : x.held = false) (hr : x.runahead = false) (hq : x.queued = false)
    (hp : x.prereqsSatisfied = true) (hrw : x.retryWait = false) :
    ∃ y, (queueIfReady s x).get? x.pt x.name = some y ∧ y.queued = true ∧ y.status = .waiting := by
  unfold queueIfReady
  have hready : x.isReadyToRun = true := by
    unfold Proxy.isReadyToRun
    simp [hh, hw, hp, hrw]
  simp only [hq, hr, hready, Bool.not_false, Bool.and_self, if_true]
  refine ⟨x.reset (queued := some true), ?_, ?_, ?_⟩
  · have := get?_put_self s (x.reset (queued := some true)) (by simpa using (by rw [hx]; rfl : (s.get? x.pt x.name).isSome = true))
    simpa using this
  · unfold Proxy.reset; simp [hq]
  · unfold Proxy.reset; simp [hq, hw]

/-- **a ready task runs**: a pooled task that is waiting, not held, released from the runahead pool, with all its
prerequisites satisfied (e.g. by `cylc set --pre`), every retry xtrigger it carries satisfied (e.g. by
`cylc set --pre=xtrigger/...`) or of zero delay, and submitted `sn` times so far is submitted under the number
`sn + 1` by the queue-if-ready sweep followed by the release / submit step of the main loop (the two steps of
`_main_loop` between the shutdown check and the message processing; they run when the scheduler is neither paused
nor stopping) -/
theorem ready_task_is_launched (g : Graph) (s : State) (p : Int) (n : String) (sn : Nat)
    (h : ReadyAt g s p n sn false) :
    (p, n, sn + 1) ∈ (releaseAndSubmit (sweepQueue g s)).launched :=
  Sched3X.ready_task_is_launched g s p n sn h

/-- an unsatisfied retry xtrigger of a non-zero delay is not satisfied by the clock check of the sweep: only
`cylc set` (or the removal of the task) ends the wait in the model (wall-clock delays are `0` or "long") -/
theorem long_retry_waits (x : Proxy) : (x.clockXtrigs true true).xExec = x.xExec ∧
    (x.clockXtrigs true true).xSub = x.xSub :=
  clockXtrigs_long x

/-! ### "spawns the children of those outputs with the corresponding prerequisites satisfied" -/

/-- when `spawn_on_output` (natural or forced by `cylc set`; the parent `(p, n)` a pooled proxy or a transient
object) has the child of output `out` in hand - found in the pool or spawned - the child is in the pool afterwards
only with every occurrence of the prerequisite `p/n:out` satisfied (ordinary and suicide prerequisites) -/
theorem child_prereq_satisfied (g : Graph) (p : Int) (n out : String) (acc : State × List (Int × String)) (c : Child)
    (hR : (findOrSpawnChild g (recordAbs acc.1 ⟨p, n, out⟩ c.isAbs) p n (parentFlows acc.1 p n) c).2.isSome = true)
    (y : Proxy) (hy : (spawnChild g p n out acc c).1.get? c.pt c.name = some y) : AtomSat ⟨p, n, out⟩ y :=
  spawnChild_child_satisfied g p n out acc c hR y hy

/-- ... in particular a child that is in the pool already -/
theorem pooled_child_prereq_satisfied (g : Graph) (p : Int) (n out : String) (acc : State × List (Int × String))
    (c : Child) (hne : ¬ (c.pt = p ∧ c.name = n)) (y0 : Proxy) (h0 : acc.1.get? c.pt c.name = some y0)
    (y : Proxy) (hy : (spawnChild g p n out acc c).1.get? c.pt c.name = some y) : AtomSat ⟨p, n, out⟩ y :=
  spawnChild_pooled_child_satisfied g p n out acc c hne y0 h0 y hy

/-! ### "never puts the task into the submitted or running state" -/

/-- **`cylc set` launches no job**, requests no poll, and leaves alone: the message queue, the stop / pause / stall
state, the runahead limit, the hold point, the stop point and the stop task. -/
theorem set_launches_nothing (g : Graph) (s : State) (id : Int × String) (outs : List String) (pre : PreSpec)
    (flow : FlowSpec) (wait : Bool) :
    (setCmd g s id outs pre flow wait).launched = s.launched ∧
    (setCmd g s id outs pre flow wait).polls = s.polls ∧
    (setCmd g s id outs pre flow wait).queue.length = s.queue.length ∧
    (setCmd g s id outs pre flow wait).stop = s.stop ∧
    (setCmd g s id outs pre flow wait).paused = s.paused := by
  have h := frame_setCmd g s id outs pre flow wait
  have e : ∀ a b : Frame, a = b → a.launched = b.launched ∧ a.polls = b.polls ∧ a.queue.length = b.queue.length ∧
      a.stop = b.stop ∧ a.paused = b.paused := by
    intro a b hab; subst hab; exact ⟨rfl, rfl, rfl, rfl, rfl⟩
  exact e _ _ h

/-- the whole untouched part of the state -/
theorem set_frame (g : Graph) (s : State) (id : Int × String) (outs : List String) (pre : PreSpec)
    (flow : FlowSpec) (wait : Bool) : frame (setCmd g s id outs pre flow wait) = frame s :=
  frame_setCmd g s id outs pre flow wait

/-- **`cylc set` creates no submitted / running status** (any graph, any state, any target - pooled or not - any
outputs / prerequisites / `--flow` / `--wait`): a proxy that is submitted or running in the pool after the command
was submitted or running before - as the pooled proxy (or transient object) of that instance, or in a row of the
database history of that instance (committed, or queued for writing), from which `spawn_task` re-creates proxies
with their recorded status. -/
theorem set_creates_no_active_status (g : Graph) (s : State) (id : Int × String) (outs : List String) (pre : PreSpec)
    (flow : FlowSpec) (wait : Bool) (y : Proxy) (hy : y ∈ (setCmd g s id outs pre flow wait).pool)
    (ha : y.status.isActive = true) :
    (∃ x ∈ s.pool ++ s.ghosts, x.pt = y.pt ∧ x.name = y.name ∧ x.status = y.status) ∨
    (∃ r ∈ s.rows ++ s.qIns, r.pt = y.pt ∧ r.name = y.name ∧ r.status = y.status) ∨
    (∃ u ∈ s.qUpd, u.pt = y.pt ∧ u.name = y.name ∧ u.status = y.status) :=
  setCmd_no_new_active g s id outs pre flow wait y hy ha

/-- ... in particular: an instance that is neither submitted nor running, and whose database history records no
such status, is not submitted or running after the command -/
theorem set_never_makes_active (g : Graph) (s : State) (id : Int × String) (outs : List String) (pre : PreSpec)
    (flow : FlowSpec) (wait : Bool) (y : Proxy) (hy : y ∈ (setCmd g s id outs pre flow wait).pool)
    (h1 : ∀ x ∈ s.pool ++ s.ghosts, x.pt = y.pt → x.name = y.name → x.status.isActive = false)
    (h2 : ∀ r ∈ s.rows ++ s.qIns, r.pt = y.pt → r.name = y.name → r.status.isActive = false)
    (h3 : ∀ u ∈ s.qUpd, u.pt = y.pt → u.name = y.name → u.status.isActive = false) :
    y.status.isActive = false := by
  cases ha : y.status.isActive with
  | false => rfl
  | true =>
    rcases setCmd_no_new_active g s id outs pre flow wait y hy ha with ⟨x, hx, e1, e2, e3⟩ | ⟨r, hr, e1, e2, e3⟩ | ⟨u, hu, e1, e2, e3⟩
    · have := h1 x hx e1 e2; rw [e3, ha] at this; cases this
    · have := h2 r hr e1 e2; rw [e3, ha] at this; cases this
    · have := h3 u hu e1 e2; rw [e3, ha] at this; cases this

/-- the invariant form: any cover `A` of the active statuses of the state (pool, transient objects, database rows
and queue) still covers them after the command -/
theorem set_active_cover (A : Act) (g : Graph) (s : State) (id : Int × String) (outs : List String) (pre : PreSpec)
    (flow : FlowSpec) (wait : Bool) (h : SOK A s) : SOK A (setCmd g s id outs pre flow wait) :=
  sok_setCmd g s id outs pre flow wait h

/-- a forced `started` (`cylc set --out=started`, or implied by a later output) changes no status: the proxy is
stored as it is (the submission try counter is reset) and the children of `started` are spawned
(`TaskState.reset(forced=True)` refuses the running state) -/
theorem forced_started_keeps_status (g : Graph) (s : State) (p : Int) (n : String) (c : Option Bool)
    (x : Proxy) (tr : Bool) (hl : lookup s p n = some (x, tr)) :
    handleMessage g s p n .internal "started" true c =
      (spawnChildren g (store s { x with subTry := 0 } tr) p n "started" tr true, false) := by
  unfold handleMessage
  simp [hl]

/-- a forced `submitted` changes nothing of the proxy: only the children of `submitted` are spawned -/
theorem forced_submitted_keeps_status (g : Graph) (s : State) (p : Int) (n : String) (c : Option Bool)
    (x : Proxy) (tr : Bool) (hl : lookup s p n = some (x, tr)) :
    handleMessage g s p n .internal "submitted" true c = (spawnChildren g s p n "submitted" tr true, false) := by
  unfold handleMessage
  simp [hl]

/-- a forced `succeeded` / `expired` resets the status to exactly that final status -/
theorem forced_succeeded_status (g : Graph) (s : State) (p : Int) (n : String) (c : Option Bool)
    (x : Proxy) (tr : Bool) (hl : lookup s p n = some (x, tr)) :
    handleMessage g s p n .internal "succeeded" true c =
      (spawnChildren g (store s (x.reset (status := some .succeeded)) tr) p n "succeeded" tr true, false) := by
  unfold handleMessage
  simp [hl]

theorem forced_expired_status (g : Graph) (s : State) (p : Int) (n : String) (c : Option Bool)
    (x : Proxy) (tr : Bool) (hl : lookup s p n = some (x, tr)) :
    handleMessage g s p n .internal "expired" true c =
      (spawnChildren g (store s (x.reset (status := some .expired) (queued := some false) (runahead := some false)) tr)
        p n "expired" tr true, false) := by
  unfold handleMessage
  simp [hl]

/-- `TaskState.reset` changes the status only to the status asked for -/
theorem reset_status (x : Proxy) (st : Status) (q r h : Option Bool) :
    (x.reset (status := some st) (queued := q) (runahead := r) (held := h)).status = st := by
  unfold Proxy.reset
  simp only [Option.getD_some]
  split
  · rename_i hc
    simp only [Bool.and_eq_true, beq_iff_eq] at hc
    exact hc.1.1.1.symm
  · rfl

/-! ### non-vacuity and the recorded finding -/

def stdOut : List OutDef :=
  [⟨"expired", "expired"⟩, ⟨"submitted", "submitted"⟩, ⟨"submit-failed", "submit-failed"⟩, ⟨"started", "started"⟩,
   ⟨"succeeded", "succeeded"⟩, ⟨"failed", "failed"⟩]

/-- `a => b` and `a:submit-fail? => c`, one cycle point -/
def exG : Graph :=
  { icp := 1, fcp := 1, start := 1, runahead := 1, seqs := [[1]], stopPoint := some 1,
    tasks := [
      { name := "a",
        insts := [(1, { pre := [], sui := [],
                        children := [("succeeded", [⟨"b", 1, false⟩]), ("submit-failed", [⟨"c", 1, false⟩])],
                        nextParentless := none })],
        firstParentless := some 1, completion := CE.or (CE.var "succeeded") (CE.var "submit_failed"), outputs := stdOut,
        required := [], skipOut := ["started", "submitted", "succeeded"] },
      { name := "b",
        insts := [(1, { pre := [{ atoms := [(⟨1, "a", "succeeded"⟩, false)], expr := none }], sui := [], children := [],
                        nextParentless := none, validPre := [⟨1, "a", "succeeded"⟩] })],
        firstParentless := none, completion := CE.var "succeeded", outputs := stdOut, required := ["succeeded"] },
      { name := "c",
        insts := [(1, { pre := [{ atoms := [(⟨1, "a", "submit-failed"⟩, false)], expr := none }], sui := [], children := [],
                        nextParentless := none, validPre := [⟨1, "a", "submit-failed"⟩] })],
        firstParentless := none, completion := CE.var "succeeded", outputs := stdOut, required := ["succeeded"] }] }

def view (s : State) : List (Int × String × Status × List String × Bool) :=
  s.pool.map fun x => (x.pt, x.name, x.status, x.done, x.prereqsSatisfied)

-- `cylc set 1/a` without outputs: the success pathway is completed, the child of `succeeded` is spawned with its
-- prerequisite satisfied, `1/a` is complete and leaves the pool; nothing is launched
example : view (setCmd exG (init exG) (1, "a") [] .none .default false) = [(1, "b", .waiting, [], true)] ∧
    (setCmd exG (init exG) (1, "a") [] .none .default false).launched = [] := by decide

-- `cylc set --out=started 1/a`: `submitted` and `started` are completed, the status stays `waiting`
example : view (setCmd exG (init exG) (1, "a") ["started"] .none .default false) =
    [(1, "a", .waiting, ["started", "submitted"], true)] := by decide

-- `cylc set --pre=1/a:succeeded 1/b` on a task that is not in the pool: it is spawned with that prerequisite satisfied
example : view (setCmd exG (init exG) (1, "b") [] (.some [(1, "a", "succeeded")]) .default false) =
    [(1, "a", .waiting, [], true), (1, "b", .waiting, [], true)] := by decide

/-- the state after `cylc set --pre=all 1/b` and the runahead release of the next main loop -/
def exReady : State :=
  (releaseRunahead exG (computeRunahead exG (setCmd exG (init exG) (1, "b") [] .all .default false))).1

-- `ready_task_is_launched`, hypotheses satisfiable: `1/b` is ready in `exReady`; the sweep + submit step launches its first job
example : ReadyAt exG exReady 1 "b" 0 false := by
  have h : (exReady.get? 1 "b").map (fun y => (y.status, y.held, y.runahead, y.prereqsSatisfied, y.submitNum)) =
      some (Status.waiting, false, false, true, 0) := by decide
  cases hg : exReady.get? 1 "b" with
  | none => rw [hg] at h; cases h
  | some y =>
    rw [hg] at h
    simp only [Option.map_some, Option.some.injEq, Prod.mk.injEq] at h
    have hx : (exReady.get? 1 "b").map (fun y => (clockChecked exG y).retryWait) = some false := by decide
    rw [hg] at hx
    simp only [Option.map_some, Option.some.injEq] at hx
    exact ⟨y, hg, h.1, h.2.1, h.2.2.1, h.2.2.2.1, h.2.2.2.2, (by intro hc; cases hc), fun _ => hx⟩

example : (1, "b", 1) ∈ (releaseAndSubmit (sweepQueue exG exReady)).launched := by decide

-- ... a prerequisite that `1/b` does not have changes nothing (hypotheses of `set_no_valid_prereq_noop`)
example : validPrereqs exG 1 "b" ((PreSpec.some [(1, "a", "started")]).atoms exG) = [] ∧
    view (setCmd exG (init exG) (1, "b") [] (.some [(1, "a", "started")]) .default false) = view (init exG) := by decide

/-- `a? => b` and `a:fail? => !b` (the recovery pattern), one cycle point -/
def exS : Graph :=
  { icp := 1, fcp := 1, start := 1, runahead := 1, seqs := [[1]], stopPoint := some 1,
    tasks := [
      { name := "a",
        insts := [(1, { pre := [], sui := [],
                        children := [("succeeded", [⟨"b", 1, false⟩]), ("failed", [⟨"b", 1, false⟩])],
                        nextParentless := none })],
        firstParentless := some 1, completion := CE.or (CE.var "succeeded") (CE.var "failed"), outputs := stdOut,
        required := [] },
      { name := "b",
        insts := [(1, { pre := [{ atoms := [(⟨1, "a", "succeeded"⟩, false)], expr := none }],
                        sui := [{ atoms := [(⟨1, "a", "failed"⟩, false)], expr := none }], children := [],
                        nextParentless := none, validPre := [⟨1, "a", "succeeded"⟩] })],
        firstParentless := none, completion := CE.var "succeeded", outputs := stdOut, required := ["succeeded"] }] }

/-- per pooled proxy: prerequisites satisfied?, the flags of its suicide prerequisite atoms -/
def sview (s : State) : List (Int × String × Bool × List Bool) :=
  s.pool.map fun x => (x.pt, x.name, x.prereqsSatisfied, x.sui.flatMap fun pr => pr.atoms.map (·.2))

-- `cylc set --pre=all 1/b` (not in the pool): spawned with its prerequisite satisfied, the suicide prerequisite
-- `1/a:failed` is not; when `1/a` then succeeds `1/b` stays in the pool (and is launched)
example : sview (setCmd exS (init exS) (1, "b") [] .all .default false) =
      [(1, "a", true, []), (1, "b", true, [false])] := by decide

example : ([Op.set [(1, "b")] [] .all .default false, .loop, .subres 1 "a" true 1, .msg 1 "a" 1 "started",
      .msg 1 "a" 1 "succeeded", .loop].foldl (step exS) (init exS)).pool.map (fun x => (x.pt, x.name, x.status)) =
    [(1, "b", .preparing)] := by decide

/-- one task with one execution retry of a non-zero delay -/
def exR : Graph :=
  { icp := 1, fcp := 1, start := 1, runahead := 1, seqs := [[1]], stopPoint := some 1,
    tasks := [
      { name := "a", insts := [(1, { pre := [], sui := [], children := [], nextParentless := none })],
        firstParentless := some 1, completion := CE.var "succeeded", outputs := stdOut, required := ["succeeded"],
        execRetries := 1, execRetryLong := true }] }

/-- `1/a` ran and failed; two more main loops -/
def exWait : State :=
  [Op.loop, .subres 1 "a" true 1, .msg 1 "a" 1 "started", .msg 1 "a" 1 "failed", .loop, .loop].foldl (step exR) (init exR)

def xview (s : State) : List (Int × String × Status × List (String × Bool)) :=
  s.pool.map fun x => (x.pt, x.name, x.status, x.xLabels)

-- the failed task waits behind its retry xtrigger: the main loop launches nothing
example : xview exWait = [(1, "a", .waiting, [("_cylc_retry_1_a", false)])] ∧ exWait.launched = [] := by decide

-- `cylc set --pre=xtrigger/_cylc_retry_1_a 1/a` (also `xtrigger/all`) satisfies it, and the next main loop submits the retry
example : xview (step exR exWait (.set [(1, "a")] [] (.some [] ["_cylc_retry_1_a"]) .default false)) =
      [(1, "a", .waiting, [("_cylc_retry_1_a", true)])] ∧
    (step exR (step exR exWait (.set [(1, "a")] [] (.some [] ["_cylc_retry_1_a"]) .default false)) .loop).launched =
      [(1, "a", 2)] ∧
    (step exR (step exR exWait (.set [(1, "a")] [] (.some [] ["all"]) .default false)) .loop).launched =
      [(1, "a", 2)] := by decide

-- an xtrigger that `1/a` does not carry, and `--pre=all` (task prerequisites only), change nothing
example : xview (step exR exWait (.set [(1, "a")] [] (.some [] ["_cylc_submit_retry_1_a"]) .default false)) =
      [(1, "a", .waiting, [("_cylc_retry_1_a", false)])] := by decide

example : xview (step exR exWait (.set [(1, "a")] [] .all .default false)) =
      [(1, "a", .waiting, [("_cylc_retry_1_a", false)])] := by decide

/-- **recorded finding `set-submit-failed-ignored`**: "setting outputs marks those outputs complete and spawns their
children" is false for the output `submit-failed` on the unrepaired code (`setSubmitFailedWorks = false`, probed
from the live source): the command changes nothing in the pool.  With the repair (findings/C29-fix-1.diff) the
output is completed, the state is `submit-failed`, the child is spawned and the complete task leaves the pool. -/
theorem set_submit_failed :
    view (setCmd exG (init exG) (1, "a") ["submit-failed"] .none .default false) =
      (if Sched3Set.setSubmitFailedWorks then [(1, "c", .waiting, [], true)] else view (init exG)) := by decide

end CylcModel.C29
