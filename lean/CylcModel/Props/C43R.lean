/-
C43R — stop point and stop task across `cylc reload` (the C43 clauses on the `Sched3Reload` model).
Statements only; proofs by reference to `Sched3ReloadStop`.

`StopOK fcp file s` = the stop-point state of `s` is coherent: the configuration has final point `fcp` and
flow.cylc stop point `file`; the pool's stop point is what the configuration yields from the `--stopcp` option
(set by `cylc stop <point>`, by a restart / reload from the DB), else flow.cylc, else the final point; all recorded
stop points lie within the final point; without an option the DB holds no stop point.  It holds in every state of
every run (`stop_state_coherent_run`).
-/
import CylcModel.Sched3ReloadStop
namespace CylcModel.C43R
open CylcModel.Sched3Reload

/-- **`cylc reload` preserves the pool's stop point** - for EVERY state whose stop-point state is coherent, for an
accepted definition that keeps the final point and the flow.cylc stop point as well as for a rejected one (and the
state stays coherent). -/
theorem reload_keeps_stop_point {fcp : Int} {file : Option Int} (ng : Option Graph) (s : State)
    (h : StopOK fcp file s) (hfile : ∀ p, file = some p → p ≤ fcp)
    (hg : ∀ g', ng = some g' → g'.fcp = fcp ∧ g'.cfgStopFile = file) :
    (reloadCmd ng s).stopPoint = s.stopPoint ∧ StopOK fcp file (reloadCmd ng s) :=
  reloadCmd_stop ng s h hfile hg

/-- **`cylc reload` preserves the stop task** and its finished flag - for every state and every definition. -/
theorem reload_keeps_stop_task (ng : Option Graph) (s : State) :
    (reloadCmd ng s).stopTask = s.stopTask ∧ (reloadCmd ng s).stopTaskFinished = s.stopTaskFinished :=
  reloadCmd_stopTask ng s

/-- **a main-loop iteration, with or without a queued reload command, does not move the stop point** -/
theorem main_loop_keeps_stop_point {fcp : Int} {file : Option Int} (s : State) (cmd : Option (Option Graph))
    (h : StopOK fcp file s) (hfile : ∀ p, file = some p → p ≤ fcp)
    (hc : ∀ g', cmd = some (some g') → g'.fcp = fcp ∧ g'.cfgStopFile = file) :
    (mainLoop s cmd).stopPoint = s.stopPoint :=
  mainLoop_stop s cmd h hfile hc

/-- `cylc stop <point>` (within the final point) puts exactly that point in force -/
theorem stop_command_sets_stop_point {fcp : Int} {file : Option Int} (s : State) (p : Int) (h : StopOK fcp file s)
    (hp : p ≤ fcp) : (setStopPoint s p).stopPoint = some p ∧ StopOK fcp file (setStopPoint s p) := by
  refine ⟨?_, stopOK_setStopPoint s p h hp⟩
  unfold setStopPoint
  split
  · rename_i he; simpa using he
  · simp only
    split
    · split <;> rfl
    · rfl

/-- **the stop-point state is coherent in every state of every run**: any flags, any well-formed start graph (its
stop point is the configured one or the final point), any op list whose stop points lie within the final point and
whose reloads keep the final point and the flow.cylc stop point. -/
theorem stop_state_coherent_run {fcp : Int} {file : Option Int} (fl : Flags) (g : Graph)
    (hg : g.fcp = fcp ∧ g.cfgStopFile = file ∧ g.stopPoint = some (file.getD fcp))
    (hfile : ∀ p, file = some p → p ≤ fcp) (ops : List Op) (hops : ∀ op ∈ ops, OpOK fcp file op) :
    ∀ s ∈ run fl g ops, StopOK fcp file s :=
  stopOK_run fl g hg hfile ops hops

/-- ... hence in every state of every run a reload (run between main loops or inside one) keeps the stop point
and the stop task. -/
theorem reload_keeps_stop_point_run {fcp : Int} {file : Option Int} (fl : Flags) (g : Graph)
    (hg : g.fcp = fcp ∧ g.cfgStopFile = file ∧ g.stopPoint = some (file.getD fcp))
    (hfile : ∀ p, file = some p → p ≤ fcp) (ops : List Op) (hops : ∀ op ∈ ops, OpOK fcp file op)
    (s : State) (hs : s ∈ run fl g ops) (ng : Option Graph)
    (hng : ∀ g', ng = some g' → g'.fcp = fcp ∧ g'.cfgStopFile = file) :
    (reloadCmd ng s).stopPoint = s.stopPoint ∧ (mainLoop s (some ng)).stopPoint = s.stopPoint ∧
      (reloadCmd ng s).stopTask = s.stopTask := by
  have h := stopOK_run fl g hg hfile ops hops s hs
  refine ⟨(reloadCmd_stop ng s h hfile hng).1, ?_, (reloadCmd_stopTask ng s).1⟩
  exact mainLoop_stop s (some ng) h hfile (fun g' e => hng g' (by injection e))

/-! ### Non-vacuity -/

/-- `P1 = a`, cycles 1..3 -/
def exG (tasks : List String) : Graph :=
  { icp := 1, fcp := 3, start := 1, runahead := 3, seqs := [[1, 2, 3]], stopPoint := some 3,
    tasks := tasks.map fun n =>
      { name := n,
        insts := [1, 2, 3].map fun p => ((p : Int), { pre := [], sui := [], children := [], nextParentless := none }),
        firstParentless := some 1, completion := CE.var "succeeded",
        outputs := [{ trigger := "succeeded", message := "succeeded" }] } }

-- the start-up state of a well-formed graph is coherent
example : StopOK 3 none (init {} (exG ["a"])) := stopOK_init _ _ ⟨rfl, rfl, rfl⟩
-- `cylc stop 2` while paused, then a reload with a new task, run at once: the stop point is still 2
example : ((reloadCmd (some (exG ["a", "b"])) (setStopPoint { (init {} (exG ["a"])) with paused := true } 2)).stopPoint,
    (setStopPoint { (init {} (exG ["a"])) with paused := true } 2).stopPoint) = (some 2, some 2) := by decide
-- ... also when the reload runs inside the next main loop; and the stop task survives
example : (mainLoop (setStopPoint { (init {} (exG ["a"])) with paused := true } 2) (some (some (exG ["a", "b"])))).stopPoint
    = some 2 := by decide
example : (reloadCmd (some (exG ["a", "b"])) { (init {} (exG ["a"])) with stopTask := some (2, "a") }).stopTask
    = some (2, "a") := by decide

end CylcModel.C43R
