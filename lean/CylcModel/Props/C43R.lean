/-
C43R — stop point / stop task across `cylc reload` (the C43 clauses on the Sched3Reload model).
-/
import CylcModel.Sched3ReloadLemmas
namespace CylcModel.C43R
open CylcModel.Sched3Reload

/-- a rejected definition moves neither the stop point nor the stop task -/
theorem rejected_reload_keeps_stop (s : State) :
    (reloadCmd none s).stopPoint = s.stopPoint ∧ (reloadCmd none s).stopTask = s.stopTask := by
  unfold reloadCmd reloadResume reloadParams reloadPause
  simp only
  split <;> split <;> simp [flushDb] <;> (repeat' split) <;> simp

end CylcModel.C43R
