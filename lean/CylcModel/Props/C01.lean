/-
C01 — Graph-faithful execution: exactly the graph-implied task instances run.
Property theorems only; the invariants are proved in `SchedActC01` (atomic actions), `SchedRefC01`
(every primitive of the `Sched` model is a sequence of atomic actions) and `SchedInvC01` (invariants).

Reading guide.  `run g ops` = all states of a run (after start-up, then after each operation) of the scheduler
model over the instance graph `g`; `s.launched` = the launches `(point, name, submit number)` of the operation
that produced `s`; `completedB s a` = output `a.out` of instance `(a.pt, a.task)` is recorded complete in `s`
(on the pooled proxy, or in the history of removed instances) — monotone along a run (`completed_monotone`).
`g.wf` (hypothesis on the graph, checked by the driver on every real graph): every task declares the five
standard job outputs.
-/
import CylcModel.SchedInvC01
namespace CylcModel.C01
open CylcModel.Sched

/-! ### submit_sound -/

/-- **submit_sound.** Every launch, in every state of every run (any graph, any list of main loops, submit
results and job messages): the instance is a valid instance of its task (`t.inst? p` is defined: on one of the
sequences) within `[icp, fcp]`; every prerequisite expression of the instance, as given by the graph, is true
when an atom counts as satisfied iff it is initially satisfied in the graph (pre-initial / pre-start) or its
upstream output has been completed in the run; and the instance is in the spawn-on-demand closure. -/
theorem submit_sound (g : Graph) (hwf : g.wf = true) (ops : List Op) :
    ∀ s ∈ run g ops, ∀ l ∈ s.launched, LaunchOK g (completedB s) l :=
  fun s hs => (c01_run hwf ops s hs).2.launched

/-- **submit_sound, with the order made explicit.** In every state `s` of every run and for every next
operation `op`: each launch recorded by `op` is justified (`LaunchOK`) by the outputs recorded complete in `s`,
i.e. *before* the operation — the prerequisites were satisfied by outputs actually completed upstream earlier. -/
theorem submit_sound_before (g : Graph) (hwf : g.wf = true) (ops : List Op) :
    ∀ s ∈ run g ops, ∀ (op : Op), ∀ l ∈ (step g s op).launched, LaunchOK g (completedB s) l :=
  fun s hs op => launch_justified_before hwf (c01_run hwf ops s hs).1 (c01_run hwf ops s hs).2 op

/-- unfolded form of `LaunchOK` for the reader -/
theorem launchOK_iff (g : Graph) (C : Atom → Bool) (p : Int) (n : String) (k : Nat) :
    LaunchOK g C (p, n, k) ↔
      ∃ t d, g.task? n = some t ∧ t.inst? p = some d ∧ g.icp ≤ p ∧ p ≤ g.fcp ∧
        (∀ pre ∈ d.pre, (pre.raise C).isSatisfied = true) ∧ Spawnable g (fun a => C a = true) n p :=
  Iff.rfl

/-- a launch can only come from a queued proxy: `releaseAndSubmit` (the only place where a proxy becomes
`preparing` and where a launch is recorded) launches exactly the queued proxies, under the next submit number -/
theorem launch_only_from_queued (s : State) :
    ∀ l ∈ (releaseAndSubmit s).launched,
      l ∈ s.launched ∨ ∃ x ∈ s.pool, x.queued = true ∧ l = (x.pt, x.name, x.submitNum + 1) := by
  intro l hl
  unfold releaseAndSubmit at hl
  simp only at hl
  split at hl
  · exact Or.inl hl
  · have key : ∀ (r : List Proxy) (st : State),
        (r.foldl (fun (st : State) x =>
          let y := x.reset (queued := some false)
          let y := { (y.reset (status := some .preparing)) with submitNum := x.submitNum + 1 }
          { (st.put y) with launched := st.launched ++ [(x.pt, x.name, x.submitNum + 1)] }) st).launched
        = st.launched ++ r.map fun x => (x.pt, x.name, x.submitNum + 1) := by
      intro r; induction r with
      | nil => intro st; simp
      | cons a r ih => intro st; simp only [List.foldl_cons, List.map_cons]; rw [ih]; simp
    have hl' : l ∈ (List.foldl (fun (st : State) x =>
          let y := x.reset (queued := some false)
          let y := { (y.reset (status := some .preparing)) with submitNum := x.submitNum + 1 }
          { (st.put y) with launched := st.launched ++ [(x.pt, x.name, x.submitNum + 1)] }) s
          (s.pool.filter (·.queued))).launched := hl
    rw [key] at hl'
    rcases List.mem_append.mp hl' with h | h
    · exact Or.inl h
    · obtain ⟨x, hx, rfl⟩ := List.mem_map.mp h
      have := List.mem_filter.mp hx
      exact Or.inr ⟨x, this.1, this.2, rfl⟩

/-- a proxy is queued only while every prerequisite expression is true (and it has been released from the
runahead pool): invariant of every state of every run -/
theorem queued_only_when_satisfied (g : Graph) (hwf : g.wf = true) (ops : List Op) :
    ∀ s ∈ run g ops, ∀ x ∈ s.pool, x.queued = true → x.prereqsSatisfied = true ∧ x.runahead = false :=
  fun s hs => (c01_run hwf ops s hs).2.queued

/-- **Inv_prereq.** The prerequisites of every pooled proxy are the prerequisites of its graph instance (same
expressions, same atoms), and a satisfied atom is one that is initially satisfied in the graph or whose
upstream output has been completed in the run (`Valid` unfolds to exactly this, see `valid_iff`). -/
theorem prereq_atoms_justified (g : Graph) (hwf : g.wf = true) (ops : List Op) :
    ∀ s ∈ run g ops, ∀ x ∈ s.pool, Valid g (completedB s) x :=
  fun s hs => (c01_run hwf ops s hs).2.valid

theorem valid_iff (g : Graph) (C : Atom → Bool) (x : Proxy) :
    Valid g C x ↔ ∃ t d, g.task? x.name = some t ∧ t.inst? x.pt = some d ∧ g.icp ≤ x.pt ∧ x.pt ≤ g.fcp ∧
      PresRel C d.pre x.pre ∧ PresRel C d.sui x.sui := Iff.rfl

/-- the record of absolute outputs (`abs_outputs_done`, which satisfies prerequisites of later-spawned
instances) holds completed outputs only -/
theorem abs_outputs_completed (g : Graph) (hwf : g.wf = true) (ops : List Op) :
    ∀ s ∈ run g ops, ∀ a ∈ s.absDone, completedB s a = true :=
  fun s hs => (c01_run hwf ops s hs).2.abs

/-! ### submit_closed -/

/-- **submit_closed.** Every pooled proxy, every recorded (removed) instance and hence every launched instance
is in the spawn-on-demand closure of the graph under the outputs completed so far: a parentless point of its
task, or a graph child of a completed output of an instance of the closure. -/
theorem submit_closed (g : Graph) (hwf : g.wf = true) (ops : List Op) :
    ∀ s ∈ run g ops,
      (∀ x ∈ s.pool, Spawnable g (fun a => completedB s a = true) x.name x.pt) ∧
      (∀ h ∈ s.hist, Spawnable g (fun a => completedB s a = true) h.name h.pt) ∧
      (∀ l ∈ s.launched, Spawnable g (fun a => completedB s a = true) l.2.1 l.1) := by
  intro s hs
  have h := (c01_run hwf ops s hs).2
  refine ⟨h.spPool, h.spHist, ?_⟩
  intro l hl
  obtain ⟨_, _, _, _, _, _, _, hsp⟩ := h.launched l hl
  exact hsp

/-! ### the tie of the theorems to the model's transitions -/

/-- every operation of the model is a finite sequence of atomic actions (`Act`: one proxy updated, spawned,
launched or removed, one absolute output recorded) — the invariants above are proved per atomic action -/
theorem step_refines (g : Graph) (hwf : g.wf = true) (s : State) (hi : RInv g s) (op : Op) :
    Steps g Kinds.all (clearOp s) (step g s op) :=
  steps_step hwf rfl (fun _ => rfl) (fun _ => rfl) rfl rfl hi op (Or.inl (fun _ => rfl))

/-- completed outputs are never forgotten: along atomic actions, hence along every run -/
theorem completed_monotone (g : Graph) (hwf : g.wf = true) (s s' : State) (hi : RInv g s)
    (h : Steps g Kinds.all s s') (a : Atom) (hc : completedB s a = true) : completedB s' a = true :=
  completedB_steps hwf h hi hc

/-! ### closure_complete (partial) -/

/-- the closure of *submitted* instances of DESIGN §5 C01.3: in the spawn closure, within the start and stop
points, with every prerequisite expression true -/
def InClosure (g : Graph) (C : Atom → Bool) (n : String) (p : Int) : Prop :=
  Spawnable g (fun a => C a = true) n p ∧ g.start ≤ p ∧ (∀ sp, g.stopPoint = some sp → p ≤ sp) ∧
  ∃ t d, g.task? n = some t ∧ t.inst? p = some d ∧ g.icp ≤ p ∧ p ≤ g.fcp ∧
    ∀ pre ∈ d.pre, (pre.raise C).isSatisfied = true

/-- **closure_complete, full statement — NOT proved** (needs the no-deadlock argument of C04 and the absence of
suicide triggers): when a run ends in automatic shutdown with every recorded instance finished and complete,
every instance of the closure has been submitted. The ⊆ direction is `submit_sound`/`submit_closed`; this ⊇
direction is checked by the judge on every real run of kind `complete` that shuts down by itself. -/
def closure_complete_full : Prop :=
  ∀ (g : Graph) (ops : List Op), g.wf = true →
    (∀ t ∈ g.tasks, ∀ pd ∈ t.insts, pd.2.sui = []) →
    ∀ s, (run g ops).getLast? = some s → s.stop = some "AUTOMATIC" →
    (∀ n p, InClosure g (completedB s) n p → ∃ h ∈ s.hist, h.pt = p ∧ h.name = n ∧ h.submitNum ≥ 1)

/-- what is proved of the ⊇ direction: every launched instance is in the closure of submitted instances up to
the start/stop-point clause (`submit_sound`), i.e. submitted ⊆ closure; and at an automatic shutdown decided by
`checkAutoShutdown` no proxy is preparing, submitted, running or released-and-waiting -/
theorem auto_shutdown_quiescent (g : Graph) (s : State) (h : (checkAutoShutdown g s).2 = true) :
    ∀ x ∈ (checkAutoShutdown g s).1.pool,
      x.status ≠ .preparing ∧ x.status ≠ .submitted ∧ x.status ≠ .running ∧
      ¬ (x.status = .waiting ∧ x.runahead = false) := by
  unfold checkAutoShutdown at h ⊢
  simp only at h ⊢
  split at h
  · cases h
  · split at h
    · cases h
    · rename_i hst hany
      simp only [hst, Bool.false_eq_true, if_false, hany]
      intro x hx
      have hx' := fun hc => hany (List.any_eq_true.mpr ⟨x, hx, hc⟩)
      simp only [Bool.or_eq_true, beq_iff_eq, Bool.and_eq_true, Bool.not_eq_true'] at hx'
      refine ⟨fun e => hx' (Or.inl (Or.inl (Or.inl e))), fun e => hx' (Or.inl (Or.inl (Or.inr e))),
        fun e => hx' (Or.inl (Or.inr e)), fun e => hx' (Or.inr e)⟩

/-! ### non-vacuity: a concrete graph and run -/

def stdOuts : List OutDef := [⟨"submitted", "submitted"⟩, ⟨"started", "started"⟩, ⟨"succeeded", "succeeded"⟩,
  ⟨"failed", "failed"⟩, ⟨"submit-failed", "submit-failed"⟩]

/-- `a:started => b` at the single point 1 -/
def exGraph : Graph :=
  { icp := 1, fcp := 1, start := 1, runahead := 1, seqs := [[1]], stopPoint := some 1,
    tasks := [
      { name := "a",
        insts := [(1, { pre := [], sui := [], children := [("started", [⟨"b", 1, false⟩])], nextParentless := none })],
        firstParentless := some 1, completion := CE.var "succeeded", outputs := stdOuts },
      { name := "b",
        insts := [(1, { pre := [{ atoms := [(⟨1, "a", "started"⟩, false)], expr := none }], sui := [], children := [],
                        nextParentless := none })],
        firstParentless := none, completion := CE.var "succeeded", outputs := stdOuts }] }

def exOps : List Op := [.loop, .subres 1 "a" true 1, .msg 1 "a" 1 "started", .loop, .loop]

-- the hypothesis holds, and the run launches `a`, then (after `a:started` was processed) `b`
example : exGraph.wf = true ∧
    (run exGraph exOps).map (·.launched) = [[], [(1, "a", 1)], [], [], [], [(1, "b", 1)]] := by decide

-- in the state with the launch of `b` the justifying output is recorded, and `b` was queued just before
example : ((run exGraph exOps).map fun s => (completedB s ⟨1, "a", "started"⟩,
      s.pool.map fun x => (x.name, x.queued, x.prereqsSatisfied))) =
    [(false, [("a", true, true)]), (false, [("a", false, true)]), (false, [("a", false, true)]),
     (false, [("a", false, true)]), (true, [("a", false, true), ("b", false, true)]),
     (true, [("a", false, true), ("b", false, true)])] := by decide

-- `submit_sound_before` on the example: the launch of `b` by the last operation is justified by the state before it
example : ((run exGraph exOps)[4]?.map fun s => ((step exGraph s .loop).launched, completedB s ⟨1, "a", "started"⟩)) =
    some ([(1, "b", 1)], true) := by decide

-- the start state of the example satisfies the refinement invariant (hypothesis of `step_refines`)
example : (keys (init exGraph)).Nodup := by decide

end CylcModel.C01
