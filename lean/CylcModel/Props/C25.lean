/-
C25  The published data store reflects the task pool - the delta algebra.

Proved here (for all stores, deltas, histories - no bound on sizes or lengths):
* `replay_equals_store`, `checksum_agree`: a subscriber that starts from a published snapshot and applies every
  published batch in order holds the scheduler's store (and computes the scheduler's checksums), when batches
  are published as they were applied; `replay_equals_store_partial` for any publication policy under the
  hypothesis that the scheduler's own application does not change the batch; `replay_aliased_counterexample`:
  with the code as found (`apply_delta` aliases the `added` elements) the full statement is false;
  `replay_code_as_probed`: the statement for the policy `translate()` probed in the code under test.
* `snapshot_idempotent` / `republish_counterexample`: a snapshot may be published twice, an ordinary batch not.
* `state_delta_sufficient` (the "only fields that differ" rule of `delta_task_state`), `held_delta_sufficient`,
  `flow_delta_sufficient`, `outputs_delta_sufficient`, `prereq_delta_sufficient` (+ the counterexample for a proxy
  without prerequisites): after the delta constructor and the flush the store element shows the proxy's value.

NOT a theorem (monitor only, see harness/props/c25.py): that every site of the scheduler that changes a task
proxy calls the matching `delta_*` method (about 40 call sites), that `update_data_structure` is reached after every
change, and that every applied batch is published exactly once.  Protobuf `MergeFrom` semantics are assumed
(see DataStore.lean).
-/
import CylcModel.DataStoreLemmas

/-! # C25 -/
namespace CylcModel.C25
open CylcModel.DataStore

/-- **The full statement for a publication policy**: whatever the scheduler did to its store (batches applied and
published, batches applied silently, re-initialisations, snapshots), and whatever the subscriber held before,
once a snapshot has been published and no silent change followed it, the subscriber's store - obtained by
applying the published batches in order - IS the scheduler's store. -/
def replay_equals_store_full (pol : PubPolicy) : Prop :=
  ∀ (ops : List SrvOp) (c0 : Store),
    (Sys.run pol ⟨{}, c0, false⟩ ops).synced = true →
      (Sys.run pol ⟨{}, c0, false⟩ ops).client = (Sys.run pol ⟨{}, c0, false⟩ ops).server

/-- **replay_equals_store_partial.** For ANY publication policy: if the scheduler's own application changes none
of the batches it publishes, the replayed store equals the scheduler's.  (What is missing for the full statement
under the `aliased` policy is exactly that hypothesis, see `replay_aliased_counterexample`.) -/
theorem replay_equals_store_partial (pol : PubPolicy) (ops : List SrvOp) (c0 : Store)
    (hu : ∀ op ∈ ops, Unchanged pol op)
    (hs : (Sys.run pol ⟨{}, c0, false⟩ ops).synced = true) :
    (Sys.run pol ⟨{}, c0, false⟩ ops).client = (Sys.run pol ⟨{}, c0, false⟩ ops).server :=
  (Inv_run pol ⟨{}, c0, false⟩ ops hu ⟨WFS_empty, by simp⟩).2 hs

/-- **replay_equals_store.** With faithful publication the full statement holds: for all histories of any
length, `foldl applyBatch` over the published batches reproduces the scheduler's store. -/
theorem replay_equals_store : replay_equals_store_full .faithful := by
  intro ops c0 hs
  refine replay_equals_store_partial .faithful ops c0 ?_ hs
  intro op _
  cases op <;> simp [Unchanged, publish_faithful]

/-- **checksum_agree.** ... and then the checksum a subscriber computes over each type of its store equals the
one the scheduler computes over its own (which is the one it publishes). -/
theorem checksum_agree (ops : List SrvOp) (c0 : Store)
    (hs : (Sys.run .faithful ⟨{}, c0, false⟩ ops).synced = true) (k : Key) :
    (Sys.run .faithful ⟨{}, c0, false⟩ ops).client.checksum k
      = (Sys.run .faithful ⟨{}, c0, false⟩ ops).server.checksum k := by
  rw [replay_equals_store ops c0 hs]

/-- the witness of the recorded finding `added-aliased`: a task proxy added and given an edge in the same batch -/
def aliasWitness : List SrvOp :=
  [.snap, .upd [.el { key := .taskProxies, added := [{ s := [("id", "t")] }],
                      updated := [{ s := [("id", "t")], r := [("edges", ["e1"])] }] }]]

set_option maxRecDepth 8000 in
/-- **replay_aliased_counterexample.** Under the `aliased` policy (the code as found: `apply_delta` keeps the
`added` elements of the delta itself, so the update of the same batch is already merged into the published
`added` element and the subscriber merges it a second time) the full statement is false: the subscriber ends
with `edges = [e1, e1]`, the scheduler with `[e1]`. -/
theorem replay_aliased_counterexample : ¬ replay_equals_store_full .aliased := by
  intro h
  have := h aliasWitness {} (by decide)
  revert this
  decide

/-- **replay_code_as_probed.** The statement about the code under test, whichever policy `translate()` found:
full once `added` elements are no longer aliased (after findings/C25-fix-1.diff). -/
theorem replay_code_as_probed (h : Generated.DataStoreTables.addedAliased = false) :
    replay_equals_store_full codePolicy := by
  have : codePolicy = .faithful := by simp [codePolicy, h]
  rw [this]; exact replay_equals_store

/-- **snapshot_idempotent.** Publishing the snapshot twice (as the start-up sequence does) is harmless. -/
theorem snapshot_idempotent (c s : Store) (h : WFS s) :
    applyBatch (applyBatch c (snapshot s)) (snapshot s) = applyBatch c (snapshot s) := by
  rw [applyBatch_snapshot c s h, applyBatch_snapshot s s h]

/-- **republish_counterexample.** Publishing an ordinary batch twice is not: repeated fields are appended twice
(the recorded finding `startup-republish`). -/
theorem republish_counterexample :
    ∃ (s : Store) (b : Batch), applyBatch (applyBatch s b) b ≠ applyBatch s b :=
  ⟨{ taskProxies := [("t", { s := [("id", "t")] })] },
   [.el { key := .taskProxies, updated := [{ s := [("id", "t")], r := [("edges", ["e1"])] }] }], by decide⟩

/-! ## the task-proxy deltas are sufficient -/

theorem tp_clear : clearFields .taskProxies = ["prerequisites"] := by decide

theorem tp_clear_ok (k : String) (hk : Elem.pathUnder "prerequisites" k = false) :
    ∀ f ∈ clearFields .taskProxies, Elem.pathUnder f k = false := by
  rw [tp_clear]; intro f hf; simp at hf; subst hf; exact hk

/-- **state_delta_sufficient.** After `delta_task_state` (which sets only the fields whose value differs from the
store element or from the pending delta) and the flush of the pending delta, the store element shows the status
and the held / queued / runahead flags of the task proxy - for any store element and any pending delta. -/
theorem state_delta_sufficient (store pending : Elem) (p : ProxyState) (stamp : String) :
    (flushTP store (deltaTaskState store pending p stamp)).getS "state" = p.status ∧
    (flushTP store (deltaTaskState store pending p stamp)).getB "is_held" = p.isHeld ∧
    (flushTP store (deltaTaskState store pending p stamp)).getB "is_queued" = p.isQueued ∧
    (flushTP store (deltaTaskState store pending p stamp)).getB "is_runahead" = p.isRunahead := by
  simp only [flushTP, Elem.getB]
  rw [getS_flush _ "state" (tp_clear_ok _ (by decide)), getS_flush _ "is_held" (tp_clear_ok _ (by decide)),
    getS_flush _ "is_queued" (tp_clear_ok _ (by decide)), getS_flush _ "is_runahead" (tp_clear_ok _ (by decide)),
    deltaTaskState_eq]
  refine ⟨readS_stepS_self _ _ _ _, ?_, ?_, ?_⟩
  · rw [readS_stepS_ne _ _ _ _ _ (by decide), readS_stepB_ne _ _ _ _ _ (by decide),
      readS_stepB_ne _ _ _ _ _ (by decide)]
    exact readS_stepB_self _ _ _ _
  · rw [readS_stepS_ne _ _ _ _ _ (by decide), readS_stepB_ne _ _ _ _ _ (by decide)]
    exact readS_stepB_self _ _ _ _
  · rw [readS_stepS_ne _ _ _ _ _ (by decide)]
    exact readS_stepB_self _ _ _ _

/-- **held_delta_sufficient.** `delta_task_held` + flush. -/
theorem held_delta_sufficient (store pending : Elem) (held : Bool) (stamp : String) :
    (flushTP store (deltaTaskHeld pending held stamp)).getB "is_held" = held := by
  simp only [flushTP, Elem.getB]
  rw [getS_flush _ "is_held" (tp_clear_ok _ (by decide)), deltaTaskHeld, Elem.setB, readS_setS_self]
  cases held <;> simp

/-- **flow_delta_sufficient.** `delta_task_flow_nums` + flush. -/
theorem flow_delta_sufficient (store pending : Elem) (flows stamp : String) :
    (flushTP store (deltaTaskFlowNums pending flows stamp)).getS "flow_nums" = flows := by
  simp only [flushTP]
  rw [getS_flush _ "flow_nums" (tp_clear_ok _ (by decide)), deltaTaskFlowNums, readS_setS_self]

/-- **outputs_delta_sufficient.** After `delta_task_outputs` + flush every output of the proxy is in the store
element with the proxy's value (label, message, satisfied - rendered as one text). -/
theorem outputs_delta_sufficient (store pending : Elem) (outs : AL String) (stamp label v : String)
    (h : AL.get? outs label = some v) :
    AL.get? ((flushTP store (deltaTaskOutputs pending outs stamp)).getM "outputs") label = some v := by
  have hne : outs.isEmpty = false := by cases outs <;> simp_all [AL.get?]
  have hp : AL.get? (deltaTaskOutputs pending outs stamp).m "outputs"
      = some (outs.foldr (fun q a => AL.upsert a q.1 q.2) ((pending.setS "stamp" stamp).getM "outputs")) := by
    simp only [deltaTaskOutputs, hne, Bool.false_eq_true, if_false, AL.get?_upsert_self]
  obtain ⟨base, hb⟩ := merge_m_get? (clearFor (clearFields .taskProxies) store (deltaTaskOutputs pending outs stamp))
    _ "outputs" _ hp
  simp only [flushTP, flush, Elem.getM, hb, Option.getD_some]
  rw [get?_foldr_upsert, get?_foldr_upsert, h]

/-- **prereq_delta_sufficient.** After `delta_task_prerequisite` + flush the store element holds exactly the
prerequisite dumps of the proxy - when the proxy has any (`hne`), the pending delta being a message (no repeated
field name, `hwf`). -/
theorem prereq_delta_sufficient (store pending : Elem) (pres : List String) (stamp : String)
    (hne : pres ≠ []) (hwf : (AL.keys pending.r).Nodup) :
    (flushTP store (deltaTaskPrereq pending pres stamp)).getR "prerequisites" = pres := by
  have he : pres.isEmpty = false := by cases pres <;> simp_all
  have hr : (deltaTaskPrereq pending pres stamp).r = AL.upsert pending.r "prerequisites" pres := by
    simp [deltaTaskPrereq, he, Elem.setS]
  have hg : AL.get? (deltaTaskPrereq pending pres stamp).r "prerequisites" = some pres := by
    rw [hr, AL.get?_upsert_self]
  have hn : (AL.keys (deltaTaskPrereq pending pres stamp).r).Nodup := by
    rw [hr]; exact keys_upsert_nodup _ _ _ hwf
  have hf : (deltaTaskPrereq pending pres stamp).hasField "prerequisites" = true := by
    simp only [Elem.hasField, Bool.or_eq_true, List.any_eq_true]
    have hpu : Elem.pathUnder "prerequisites" "prerequisites" = true := by decide
    exact Or.inl (Or.inr ⟨("prerequisites", pres), AL.mem_of_get? _ _ _ hg, hpu⟩)
  simp only [flushTP, flush]
  rw [merge_r_get? _ _ _ _ hn hg, tp_clear]
  simp only [clearFor, List.foldl_cons, List.foldl_nil, hf, if_true, Elem.getR, Elem.clearField]
  rw [get?_filter_none]
  · rfl
  · intro v; simp only [Bool.not_eq_false']; decide

/-- **prereq_delta_empty_counterexample.** Without `hne` the statement is false: a proxy without prerequisites
leaves the prerequisites already in the store untouched (an empty repeated field is not a set field, so
nothing is cleared).  Not reachable in the scheduler as long as a pooled proxy only loses its prerequisites through
a reload, which rebuilds the store. -/
theorem prereq_delta_empty_counterexample :
    ∃ store pending : Elem, (AL.keys pending.r).Nodup ∧
      (flushTP store (deltaTaskPrereq pending [] "x")).getR "prerequisites" ≠ [] :=
  ⟨{ r := [("prerequisites", ["old"])] }, {}, by decide, by decide⟩

/-! ## non-vacuity -/
set_option maxRecDepth 8000

/-- a history with a silent batch, a snapshot, an update that adds and prunes, a reload (reset + silent batch +
snapshot) and a further update: it ends synced, with a non-empty store -/
def exOps : List SrvOp :=
  [.loc [.el { key := .tasks, added := [{ s := [("id", "T"), ("stamp", "T@1")] }] }],
   .snap,
   .upd [.el { key := .familyProxies, added := [{ s := [("id", "F")], r := [("child_tasks", ["a", "b"])] }] },
         .el { key := .taskProxies,
               added := [{ s := [("id", "a"), ("first_parent", "F")] }, { s := [("id", "b"), ("first_parent", "F")] }] },
         .wf { updated := { r := [("task_proxies", ["a", "b"])] } }],
   .upd [.el { key := .taskProxies, updated := [{ s := [("id", "a"), ("state", "running")] }], pruned := ["b"] }],
   .reset,
   .loc [.el { key := .tasks, added := [{ s := [("id", "T"), ("stamp", "T@2")] }] }],
   .snap,
   .upd [.el { key := .taskProxies, added := [{ s := [("id", "a"), ("state", "waiting")] }] }]]

example : (Sys.run .faithful ⟨{}, { jobs := [("junk", {})] }, false⟩ exOps).synced = true := by decide
example : (Sys.run .faithful ⟨{}, { jobs := [("junk", {})] }, false⟩ exOps).server
    = { tasks := [("T", { s := [("id", "T"), ("stamp", "T@2")] })],
        taskProxies := [("a", { s := [("id", "a"), ("state", "waiting")] })] } := by decide
example : ∀ op ∈ exOps, Unchanged .aliased op := by
  intro op h
  simp only [exOps, List.mem_cons, List.not_mem_nil, or_false] at h
  rcases h with h | h | h | h | h | h | h | h <;> subst h <;> simp only [Unchanged] <;> decide
/-- in the middle of `exOps` the prune removed the relationships too -/
example : (Sys.run .faithful ⟨{}, {}, false⟩ (exOps.take 4)).server.familyProxies
    = [("F", { s := [("id", "F")], r := [("child_tasks", ["a"])] })] := by decide
example : (Sys.run .faithful ⟨{}, {}, false⟩ (exOps.take 4)).server.checksum .tasks = 28311750 := by decide +kernel
example : (Sys.run .aliased ⟨{}, {}, false⟩ aliasWitness).synced = true := by decide
example : Generated.DataStoreTables.addedAliased = false ∨ Generated.DataStoreTables.addedAliased = true := by decide
example : WFS { tasks := [("T", { s := [("id", "T")] })] } := by
  intro k; cases k <;> simp [Store.get, WFL, AL.keys, Elem.id, Elem.getS, AL.get?]

/-- `delta_task_state` on a store element that is stale in two fields, with a pending delta that already carries an
out-of-date value for a third: exactly the differing fields are set -/
example : deltaTaskState { s := [("id", "a"), ("state", "waiting"), ("is_queued", "true")] }
      { s := [("id", "a"), ("is_held", "true")] } ⟨"running", false, false, false⟩ "a@2"
    = { s := [("id", "a"), ("is_held", "false"), ("stamp", "a@2"), ("is_queued", "false"), ("state", "running")] } := by
  decide
example : AL.get? [("succeeded", "done"), ("x", "no")] "x" = some "no" := by decide
example : (["p1", "p2"] : List String) ≠ [] ∧ (AL.keys ({ r := [("jobs", ["j"])] } : Elem).r).Nodup := by decide
example : (flushTP { r := [("prerequisites", ["old"])], m := [("outputs", [("x", "no")])] }
      (deltaTaskPrereq (deltaTaskOutputs {} [("x", "yes")] "s") ["p1", "p2"] "s")).getR "prerequisites"
    = ["p1", "p2"] := by decide

end CylcModel.C25
