/-
C23 — Universal identifiers round-trip.
Property statements only; helper lemmas live in `CylcModel/IdentLemmas.lean`, the model and the
specification-side definitions (`wf`, `canonical`, `expected`, `cycleAmbiguous`, `LegacyParts`) in
`CylcModel/Ident.lean`, the character classes in `Generated/IdentTables.lean` (regenerated from the live
regexes on every run: every `by decide` about a class below is re-checked against the current source).

Prose ↔ statements.
* "For any valid identifier tokens (user, workflow, cycle, task, job and their selectors)" = `wf t`: every
  field present is non-empty, consists of characters of the class of its regex group (workflow: segments
  joined by single `/`; cycle: first character not `~ / :`; job: `NN` or ASCII digits), has no outer white
  space; selectors come with their token, job with task, task with cycle, `~user` + cycle with a workflow.
  No bound on any length.
* "formatting and re-parsing yields the same tokens (job numbers zero-padded)" = `detok_tok_partial`
  (`expected t sel` = `t` with the job padded to two digits, selectors dropped when not written).
  The full statement `detok_tok_full` is FALSE on the current code (`detok_tok_counterexample`): a cycle
  that contains `:` is read back as cycle + selector when no selector is written after it.
* "parsing then formatting a canonical identifier string yields the same string" = `tok_detok_partial`
  (canonical string = `canonical t sel`, the documented `~user/workflow:sel//cycle:sel/task:sel/job:sel`).
* "Relative and absolute forms agree on the task part" = `relative_absolute_agree` (full strength; no
  ambiguity hypothesis), `relative_absolute_defined` (the common value when the cycle is not ambiguous).
* "legacy task.cycle and cycle/task identifiers upgrade to the equivalent tokens" = `legacy_upgrade_partial`
  (both forms, lists of any length, absolute and relative calls), `legacy_upgrade_dot` (the `task.cycle`
  form at full strength); the full statement for `cycle/task` is false while the pattern demands two
  characters (`legacy_upgrade_counterexample`, conditional on the generated quantifier).
-/
import CylcModel.IdentLemmas
namespace CylcModel.C23
open CylcModel.Ident CylcModel.Generated.IdentTables

/-! ### the separators are excluded from the fields they delimit (generated tables) -/

/-- What the proofs below need from the live character classes. -/
theorem tables_separate :
    userCh '/' = false ∧ userCh ':' = false ∧ userCh '\n' = false
    ∧ wfCh ':' = false ∧ wfCh '\n' = false ∧ wfCh '~' = false
    ∧ wfSelCh '/' = false ∧ wfSelCh ':' = false
    ∧ cyc0Ch '/' = false ∧ cyc0Ch ':' = false ∧ cycCh '/' = false
    ∧ cycSelCh '/' = false ∧ cycSelCh ':' = false
    ∧ taskCh '/' = false ∧ taskCh ':' = false ∧ taskSelCh '/' = false ∧ taskSelCh ':' = false
    ∧ jobCh '/' = false ∧ jobCh ':' = false ∧ jobSelCh '/' = false ∧ jobSelCh ':' = false
    ∧ keyOrder = [.user, .workflow, .cycle, .task, .job] := by decide

example : wfCh 'a' = true ∧ cycCh ':' = true ∧ taskCh '~' = true := by decide

/-! ### tokens → string → tokens -/

/-- The full-strength statement: every valid combination of tokens can be written, and reading the
string back gives the same tokens with the job number zero-padded. -/
def detok_tok_full : Prop :=
  ∀ (t : Tokens) (sel : Bool), wf t = true →
    ∃ s, detokenise t sel false = some s ∧ tokenise s false = some (expected t sel)

/-- Proved part: it holds whenever the cycle text is not ambiguous (`cycleAmbiguous`: the cycle contains
a `:` followed by a non-empty colon-free tail and no cycle selector is written after it).  What is written
is the canonical string.  Missing for the full statement: exactly the ambiguous cycles, where it is false. -/
theorem detok_tok_partial (t : Tokens) (sel : Bool) (h : wf t = true) (hamb : cycleAmbiguous t sel = false) :
    detokenise t sel false = some (canonical t sel) ∧
    tokenise (canonical t sel) false = some (expected t sel) :=
  ⟨detokenise_canonical t sel (WF_of_wf h), tokenise_canonical t sel (WF_of_wf h) hamb⟩

example :
    let t : Tokens := { user := some "u".toList, workflow := some "a/b".toList, workflowSel := some "x y".toList,
                        cycle := some "2000:".toList, cycleSel := some "~s".toList, task := some "t.1".toList,
                        job := some "4".toList, jobSel := some "z".toList }
    wf t = true ∧ cycleAmbiguous t true = false ∧
      canonical t true = "~u/a/b:x y//2000::~s/t.1/04:z".toList ∧ (expected t true).job = some "04".toList := by
  decide

/-- `detok_tok_full` is false on the current code: `Tokens(workflow='w', cycle='a:b')` is written as
`w//a:b`, which reads back as cycle `a`, cycle selector `b`. -/
theorem detok_tok_counterexample : ¬ detok_tok_full := by
  intro h
  obtain ⟨s, h1, h2⟩ := h { workflow := some ['w'], cycle := some ['a', ':', 'b'] } false (by decide)
  have e : detokenise { workflow := some ['w'], cycle := some ['a', ':', 'b'] } false false
      = some ['w', '/', '/', 'a', ':', 'b'] := by decide
  rw [e] at h1
  cases h1
  revert h2
  decide

/-! ### string → tokens → string -/

/-- Parsing the canonical string of valid tokens and formatting the result returns the same string.
Partial in the same way as `detok_tok_partial` (for an ambiguous cycle such as `a :b` the string
`w//a :b` comes back as `w//a:b`). -/
theorem tok_detok_partial (t : Tokens) (sel : Bool) (h : wf t = true) (hamb : cycleAmbiguous t sel = false) :
    ∃ t', tokenise (canonical t sel) false = some t' ∧ detokenise t' sel false = some (canonical t sel) := by
  have hw := WF_of_wf h
  refine ⟨expected t sel, tokenise_canonical t sel hw hamb, ?_⟩
  rw [detokenise_canonical _ sel (hw.expected sel), canonical_expected hw sel]

example :
    let want : Tokens := { user := some "u".toList, workflow := some "w".toList, cycle := some "1".toList,
                           task := some "t".toList, job := some "07".toList }
    wf want = true ∧ canonical want false = "~u/w//1/t/07".toList ∧
      tokenise "~u/w//1/t/07".toList false = some want := by decide

/-! ### relative and absolute forms -/

/-- The relative identifier of the task part (`Tokens.relative_id` / `relative_id_with_selectors`), read
with `relative=True`, gives exactly the task part of what the absolute identifier reads as — for all valid
tokens with a cycle, ambiguous cycle texts included (both forms then misread the cycle in the same way). -/
theorem relative_absolute_agree (t : Tokens) (sel : Bool) (h : wf t = true) (hc : t.cycle.isSome) :
    ∃ abs rel, detokenise t sel false = some abs ∧ detokenise t.taskPart sel true = some rel ∧
      tokenise rel true = (tokenise abs false).map Tokens.taskPart := by
  have hw := WF_of_wf h
  refine ⟨canonical t sel, renderRel t sel, detokenise_canonical t sel hw, ?_, tokenise_relative_agree t sel hw hc⟩
  have := detokenise_relative t.taskPart sel (hw.taskPart hc) rfl rfl
  rwa [renderRel_taskPart] at this

/-- ... and when the cycle text is not ambiguous both readings are defined and are the expected tokens. -/
theorem relative_absolute_defined (t : Tokens) (sel : Bool) (h : wf t = true) (hc : t.cycle.isSome)
    (hamb : cycleAmbiguous t sel = false) :
    ∃ abs rel, detokenise t sel false = some abs ∧ detokenise t.taskPart sel true = some rel ∧
      tokenise abs false = some (expected t sel) ∧ tokenise rel true = some (expected t sel).taskPart := by
  have hw := WF_of_wf h
  refine ⟨canonical t sel, renderRel t sel, detokenise_canonical t sel hw, ?_,
    tokenise_canonical t sel hw hamb, tokenise_relative t sel hw hc hamb⟩
  have := detokenise_relative t.taskPart sel (hw.taskPart hc) rfl rfl
  rwa [renderRel_taskPart] at this

example :
    let t : Tokens := { user := some "u".toList, workflow := some "w".toList, cycle := some "1".toList,
                        task := some "t".toList, taskSel := some "failed".toList, job := some "1".toList }
    wf t = true ∧ t.cycle.isSome ∧ cycleAmbiguous t true = false ∧
      detokenise t.taskPart true true = some "1/t:failed/01".toList := by decide

/-! ### legacy identifiers -/

/-- The full-strength statement: a list of legal legacy identifiers (`task.cycle[:sel]` or
`cycle/task[:sel]`, cycle starting with a digit) is upgraded element-wise to the contemporary spelling,
which reads as the tokens cycle / task / task selector. -/
def legacy_upgrade_full : Prop :=
  ∀ (w : Str) (ps : List LegacyParts), ps ≠ [] → (∀ p ∈ ps, p.ok = true) →
    upgradeLegacyIds (w :: ps.map LegacyParts.text) false = w :: ps.map (fun p => p.contemporary false)
    ∧ upgradeLegacyIds (ps.map LegacyParts.text) true = ps.map (fun p => p.contemporary true)
    ∧ ∀ p ∈ ps, ∀ rel, tokenise (p.contemporary rel) rel = some p.tokens

/-- Proved part: every identifier whose cycle is longer than the number of characters its pattern demands
after the leading digit (`minLen`: 0 for `task.cycle`, currently 1 for `cycle/task`).  Missing for the
full statement: `cycle/task` with a one-character cycle, where it is false while `minLen = 1`. -/
theorem legacy_upgrade_partial (w : Str) (ps : List LegacyParts) (hne : ps ≠ [])
    (h : ∀ p ∈ ps, p.ok = true ∧ p.minLen < p.cycle.length) :
    upgradeLegacyIds (w :: ps.map LegacyParts.text) false = w :: ps.map (fun p => p.contemporary false)
    ∧ upgradeLegacyIds (ps.map LegacyParts.text) true = ps.map (fun p => p.contemporary true)
    ∧ ∀ p ∈ ps, ∀ rel, tokenise (p.contemporary rel) rel = some p.tokens := by
  refine ⟨?_, ?_, fun p hp rel => tokenise_contemporary p (h p hp).1 rel⟩
  · cases ps with
    | nil => exact absurd rfl hne
    | cons p ps =>
      have := upgradeAll_texts false (p :: ps) h
      simp only [List.map_cons] at this ⊢
      simp [upgradeLegacyIds, this]
  · simp [upgradeLegacyIds, upgradeAll_texts true ps h]

example :
    let ps : List LegacyParts := [⟨true, "t.a.s.k".toList, "1".toList, some "failed".toList⟩,
                                 ⟨false, "foo".toList, "20200101T00Z".toList, none⟩]
    (∀ p ∈ ps, p.ok = true ∧ p.minLen < p.cycle.length) ∧
      ps.map LegacyParts.text = ["t.a.s.k.1:failed".toList, "20200101T00Z/foo".toList] ∧
      ps.map (fun p => p.contemporary false) = ["//1/t.a.s.k:failed".toList, "//20200101T00Z/foo".toList] := by
  decide

/-- The `task.cycle[:sel]` form at full strength (its pattern asks for nothing after the leading digit). -/
theorem legacy_upgrade_dot (w : Str) (ps : List LegacyParts) (hne : ps ≠ [])
    (h : ∀ p ∈ ps, p.ok = true ∧ p.dot = true) :
    upgradeLegacyIds (w :: ps.map LegacyParts.text) false = w :: ps.map (fun p => p.contemporary false)
    ∧ upgradeLegacyIds (ps.map LegacyParts.text) true = ps.map (fun p => p.contemporary true)
    ∧ ∀ p ∈ ps, ∀ rel, tokenise (p.contemporary rel) rel = some p.tokens := by
  apply legacy_upgrade_partial w ps hne
  intro p hp
  obtain ⟨hok, hd⟩ := h p hp
  refine ⟨hok, ?_⟩
  have hmin : lgDotCycleMin = 0 := by decide
  have hlen : 0 < p.cycle.length := by
    have := (p.stripped_fields hok).1
    cases hc : p.cycle with
    | nil => rw [hc] at this; simp [stripped] at this
    | cons _ _ => simp
  simp [LegacyParts.minLen, hd, hmin, hlen]

example : (⟨true, "foo".toList, "1".toList, none⟩ : LegacyParts).ok = true := by decide

/-- `legacy_upgrade_full` is false while LEGACY_CYCLE_SLASH_TASK demands a character after the leading
digit (`lgSlashCycleMin = 1`, the `+` quantifier of the current source): `upgrade_legacy_ids('w', '1/foo')`
returns its arguments unchanged.  Stated conditionally on the generated constant so that the file still
checks once the pattern is repaired (findings/C23-fix-1.diff), when `legacy_upgrade_partial` covers
every legal identifier. -/
theorem legacy_upgrade_counterexample (hmin : lgSlashCycleMin = 1) : ¬ legacy_upgrade_full := by
  intro hfull
  have h := (hfull ['w'] [⟨false, ['f', 'o', 'o'], ['1'], none⟩] (by simp) (by decide)).1
  have e : upgradeLegacyIds [['w'], ['1', '/', 'f', 'o', 'o']] false = [['w'], ['1', '/', 'f', 'o', 'o']] := by
    have hs : legacySlash ['1', '/', 'f', 'o', 'o'] = none := by
      unfold legacySlash
      rw [hmin]
      decide
    have hd : legacyDot ['1', '/', 'f', 'o', 'o'] = none := by decide
    simp [upgradeLegacyIds, upgradeAll, legacyTokenise, hs, hd]
  have e2 : [⟨false, ['f', 'o', 'o'], ['1'], none⟩].map LegacyParts.text = [['1', '/', 'f', 'o', 'o']] := by decide
  rw [e2, e] at h
  revert h
  decide

end CylcModel.C23
