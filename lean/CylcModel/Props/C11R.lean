/-
C11 over stop + restart on the `Sched3Set` model (check C11R): what a restart reconstructs of the task pool — the
inputs of the completion decision (status, completed outputs) and of the continued run (flows, flow wait, held,
prerequisites) — in runs with `cylc set`, several flows, merges and flow wait.
Statements only; proofs by reference to `Sched3SetRestart`, `Sched3SetRestart2` / `Sched3SetNoDup*`.

The FULL statement "restart restores every pooled proxy exactly" is false on the current code (three recorded
findings); it is kept as `restart_flowwait_full` / `restart_outputs_full` with counterexamples, and the partial
statements say exactly what IS restored: everything except what the restart reads from the task_states /
task_outputs row of the proxy's flows (flow wait, submit number, outputs), which is restored iff that row agrees
with the proxy.
-/
import CylcModel.Sched3SetRestart2
namespace CylcModel.C11R
open CylcModel.Sched3Set

/-- the state after start-up and the given operations (the last state of `run g ops`) -/
def final (g : Graph) (ops : List Op) : State := ops.foldl (step g) (init g)

theorem final_mem_run (g : Graph) (ops : List Op) : final g ops ∈ run g ops := by
  unfold run final
  have key : ∀ (ops : List Op) (acc : List State) (cur : State), cur ∈ acc →
      ops.foldl (step g) cur ∈ (ops.foldl (fun (a : List State × State) op =>
          let s' := step g a.2 op; (a.1 ++ [s'], s')) (acc, cur)).1 := by
    intro ops
    induction ops with
    | nil => intro acc cur h; exact h
    | cons op ops ih =>
      intro acc cur _
      simp only [List.foldl_cons]
      exact ih _ _ (by simp)
  exact key ops [init g] (init g) (by simp)

/-- **Rows invariant**: in every state of every run no instance is pooled twice and every pooled proxy has the
task_states / task_outputs rows of exactly its flow numbers (committed or queued) — given the repaired behaviour of
`_load_historical_outputs` (flag `dbRowPerFlowSet`, probed from the live code; without the repair the rows can be
missing: findings/C29.json `set-db-row-missing`). -/
theorem rows_invariant (hflag : dbRowPerFlowSet = true) (g : Graph) (ops : List Op) :
    ∀ s ∈ run g ops, INV RowQ s :=
  Sched3Set.rows_invariant hflag g ops

/-- **Nothing pending is lost, nothing is invented**: stop + restart at ANY point of ANY run gives a pool with
exactly the same task instances (same order). -/
theorem restart_keeps_instances (hflag : dbRowPerFlowSet = true) (g : Graph) (ops : List Op) :
    ∀ s ∈ run g ops, (restart g s).pool.map Proxy.key = s.pool.map Proxy.key := by
  intro s hs
  exact restart_keys g s (rows_invariant hflag g ops s hs)

/-- **What a restart restores**, for every pooled proxy `x` of every reachable state: there is a committed row `r`
of exactly `x`'s flows, the restarted pool has `y` at `x`'s key with `x`'s flow numbers, prerequisite and suicide
prerequisite satisfaction, status (`preparing ↦ waiting`), held state (plus the tasks beyond the hold point: finding
`hold-point-reapplied`); flow wait, submit number and completed outputs of `y` are those recorded in `r`. -/
theorem restart_restores (hflag : dbRowPerFlowSet = true) (g : Graph) (ops : List Op) :
    ∀ s ∈ run g ops, ∀ x ∈ s.pool,
    ∃ r y, (atShutdown s).rows.find? (·.isKey x.pt x.name x.flows) = some r ∧
      (restart g s).get? x.pt x.name = some y ∧
      y.pt = x.pt ∧ y.name = x.name ∧ y.flows = x.flows ∧ y.pre = x.pre ∧ y.sui = x.sui ∧
      y.status = restoredStatus x.status ∧
      (x.held = true → y.held = true) ∧
      (y.held = true → x.held = true ∨ ∃ hp, s.holdPoint = some hp ∧ hp < x.pt) ∧
      y.flowWait = r.flowWait ∧
      y.submitNum = (if x.status == .preparing then r.submitNum - 1 else r.submitNum) ∧
      y.done = restoredDone g x r := by
  intro s hs x hx
  exact restart_reads_row g s (rows_invariant hflag g ops s hs) x hx

/-- corollary (the partial statement): when the committed row of `x`'s flows agrees with `x` on the flow-wait flag
(resp. records `x`'s completed outputs), the restart restores them -/
theorem restart_restores_when_row_agrees (hflag : dbRowPerFlowSet = true) (g : Graph) (ops : List Op) :
    ∀ s ∈ run g ops, ∀ x ∈ s.pool, ∀ r, (atShutdown s).rows.find? (·.isKey x.pt x.name x.flows) = some r →
      ∃ y, (restart g s).get? x.pt x.name = some y ∧
        (r.flowWait = x.flowWait → y.flowWait = x.flowWait) ∧
        (restoredDone g x r = x.done → y.done = x.done) := by
  intro s hs x hx r hr
  obtain ⟨r', y, hr', hy, _, _, _, _, _, _, _, _, hfw, _, hd⟩ := restart_restores hflag g ops s hs x hx
  rw [hr] at hr'
  simp only [Option.some.injEq] at hr'
  subst hr'
  exact ⟨y, hy, fun h => hfw.trans h, fun h => hd.trans h⟩

theorem pinv_true : PInv (fun _ _ => True) :=
  ⟨fun _ _ _ _ _ _ _ => trivial, fun _ _ _ _ _ => trivial, fun _ _ => trivial, fun _ _ _ => trivial⟩

/-- **What a restart does to every pooled proxy of every reachable state - no assumption on the live code**:
restored from the committed row of exactly its flows (fields as in `restart_restores`), or, when there is no such
row, dropped (finding `set-db-row-missing`; with the repair that case does not arise: `restart_keeps_instances`). -/
theorem restart_restores_or_drops (g : Graph) (ops : List Op) :
    ∀ s ∈ run g ops, ∀ x ∈ s.pool,
    (∃ r y, (atShutdown s).rows.find? (·.isKey x.pt x.name x.flows) = some r ∧
      (restart g s).get? x.pt x.name = some y ∧
      y.pt = x.pt ∧ y.name = x.name ∧ y.flows = x.flows ∧ y.pre = x.pre ∧ y.sui = x.sui ∧
      y.status = restoredStatus x.status ∧
      (x.held = true → y.held = true) ∧
      (y.held = true → x.held = true ∨ ∃ hp, s.holdPoint = some hp ∧ hp < x.pt) ∧
      y.flowWait = r.flowWait ∧
      y.submitNum = (if x.status == .preparing then r.submitNum - 1 else r.submitNum) ∧
      y.done = restoredDone g x r) ∨
    ((atShutdown s).rows.find? (·.isKey x.pt x.name x.flows) = none ∧ (restart g s).get? x.pt x.name = none) := by
  intro s hs x hx
  exact restart_reads_row_or_drops g s (inv_run pinv_true g ops s hs).1 x hx

/-- **A restart invents no task**: from ANY state, the instances of the restarted pool are a sub-list of the
instances pooled before the stop. -/
theorem restart_invents_nothing (g : Graph) (s : State) :
    ((restart g s).pool.map Proxy.key).Sublist (s.pool.map Proxy.key) :=
  restart_keys_sublist g s

/-- the restart does not touch the history that `spawn_task` consults ("nothing completed is re-run" is C08S
`no_rerun_in_flow` over these rows) -/
theorem restart_keeps_history (g : Graph) (s : State) : (restart g s).rows = (atShutdown s).rows := by
  rw [restart_eq]
  have hq : ∀ (R : State) (hp : Int), (setHoldPoint R hp).rows = R.rows ∧ (setHoldPoint R hp).qIns = R.qIns ∧
      (setHoldPoint R hp).qUpd = R.qUpd := by
    intro R hp
    unfold setHoldPoint
    dsimp only
    apply foldl_inv (fun (st : State) => st.rows = R.rows ∧ st.qIns = R.qIns ∧ st.qUpd = R.qUpd)
    · intro st x hst
      split
      · split
        · unfold holdActive
          dsimp only
          split
          · exact hst
          · exact hst
        · exact hst
      · exact hst
    · exact ⟨rfl, rfl, rfl⟩
  have hflush : ∀ t : State, t.qIns = [] → t.qUpd = [] → (flushDb t).rows = t.rows := by
    intro t h1 h2
    unfold flushDb
    simp [h1, h2]
  have hR1 : (reloaded g (atShutdown s)).qIns = [] := rfl
  have hR2 : (reloaded g (atShutdown s)).qUpd = [] := rfl
  have hR3 : (reloaded g (atShutdown s)).rows = (atShutdown s).rows := rfl
  generalize reloaded g (atShutdown s) = R at hR1 hR2 hR3
  split
  · rename_i hp _
    have := hq R hp
    rw [hflush _ (this.2.1.trans hR1) (this.2.2.trans hR2), this.1, hR3]
  · rw [hflush _ hR1 hR2, hR3]

/-! ### delivery: an output reported by the job is recorded, in any order of arrival -/

/-- the first step of `process_message` for an output message of the task (`set_message_complete`): the output is
among the completed outputs afterwards, whatever the status of the task and whatever arrived before - e.g. a custom
output after `succeeded` (the delivery judge checks this on every message the real scheduler receives) -/
theorem message_output_recorded (g : Graph) (x : Proxy) (msg : String) (forced : Bool)
    (h : hasOutput g x msg = true) : ((setComplete g x msg forced).1.done.contains msg) = true := by
  unfold setComplete
  rw [h]
  simp only [Bool.not_true, Bool.false_eq_true, if_false]
  split
  · rename_i hd; unfold Proxy.isDone at hd; exact hd
  · simp

/-- ... and completing an output never forgets one -/
theorem message_keeps_outputs (g : Graph) (x : Proxy) (msg : String) (forced : Bool) :
    ∀ m ∈ x.done, m ∈ (setComplete g x msg forced).1.done := by
  intro m hm
  unfold setComplete
  split
  · exact hm
  · split
    · exact hm
    · simp [hm]

/-! ### the full statement is false: flow wait and outputs -/

/-- every pooled proxy keeps its flow-wait flag over a restart -/
def flowWaitKept (g : Graph) (s : State) : Bool :=
  s.pool.all fun x => match (restart g s).get? x.pt x.name with
    | some y => y.flowWait == x.flowWait
    | none => false

/-- every pooled running / failed / succeeded proxy keeps its completed outputs over a restart -/
def outputsKept (g : Graph) (s : State) : Bool :=
  s.pool.all fun x => match (restart g s).get? x.pt x.name with
    | some y => !(x.status == .running || x.status == .failed || x.status == .succeeded) ||
                (y.done.all (x.done.contains ·) && x.done.all (y.done.contains ·))
    | none => false

def restart_flowwait_full : Prop := ∀ (g : Graph) (ops : List Op), flowWaitKept g (final g ops) = true

def restart_outputs_full : Prop := ∀ (g : Graph) (ops : List Op), outputsKept g (final g ops) = true

def stdOut : List OutDef :=
  [⟨"submitted", "submitted"⟩, ⟨"started", "started"⟩, ⟨"succeeded", "succeeded"⟩, ⟨"failed", "failed"⟩]

/-- `a => b => c` at cycle point 1 -/
def exG : Graph :=
  { icp := 1, fcp := 1, start := 1, runahead := 1, seqs := [[1]], stopPoint := some 1,
    tasks := [
      { name := "a",
        insts := [(1, { pre := [], sui := [], children := [("succeeded", [⟨"b", 1, false⟩])], nextParentless := none })],
        firstParentless := some 1, completion := CE.var "succeeded", outputs := stdOut, required := ["succeeded"] },
      { name := "b",
        insts := [(1, { pre := [{ atoms := [(⟨1, "a", "succeeded"⟩, false)], expr := none }], sui := [],
                        children := [("succeeded", [⟨"c", 1, false⟩])],
                        nextParentless := none, validPre := [⟨1, "a", "succeeded"⟩] })],
        firstParentless := none, completion := CE.var "succeeded", outputs := stdOut, required := ["succeeded"] },
      { name := "c",
        insts := [(1, { pre := [{ atoms := [(⟨1, "b", "succeeded"⟩, false)], expr := none }], sui := [], children := [],
                        nextParentless := none, validPre := [⟨1, "b", "succeeded"⟩] })],
        firstParentless := none, completion := CE.var "succeeded", outputs := stdOut, required := ["succeeded"] }] }

/-- finding `flow-wait-resurrected`: `cylc set --pre=all --flow=2 --wait 1/b`, then `--flow=3` merges and ends the
wait (in memory only); after stop + restart `1/b` waits for a merge again -/
def opsFlowWait : List Op :=
  [.set [(1, "b")] [] .all (.nums [2]) true, .loop, .set [(1, "b")] [] .all (.nums [3]) false, .loop,
   .stop "REQUEST(NOW-NOW)", .loop]

theorem restart_flowwait_counterexample : ¬ restart_flowwait_full := by
  intro h
  exact absurd (h exG opsFlowWait) (by decide)

/-- finding `new-row-drops-outputs`: `1/a` running (submitted, started complete), `cylc set --pre=all --flow=2 1/a`
merges flow 2 (fresh, empty task_outputs row); after stop + restart `1/a` has no completed outputs -/
def opsMergeOutputs : List Op :=
  [.loop, .subres 1 "a" true 1, .msg 1 "a" 1 "started", .loop, .set [(1, "a")] [] .all (.nums [2]) false, .loop,
   .stop "REQUEST(NOW-NOW)", .loop]

theorem restart_outputs_counterexample : ¬ restart_outputs_full := by
  intro h
  exact absurd (h exG opsMergeOutputs) (by decide)

/-! ### without the repair of `_load_historical_outputs` a restart can drop a pooled task -/

/-- the restarted pool holds exactly the same instances -/
def instancesKept (g : Graph) (s : State) : Bool := (restart g s).pool.map Proxy.key == s.pool.map Proxy.key

def restart_instances_full : Prop := ∀ (g : Graph) (ops : List Op), instancesKept g (final g ops) = true

/-- finding `set-db-row-missing` (C29): `cylc set --out=started --flow=1 --flow=2 1/b` records `1/b` in flows 1,2;
`1/a` then spawns `1/b` in flow 1 - overlapping, not equal: no row of exactly flow 1 - and a stop + restart drops it -/
def opsRowMissing : List Op :=
  [.set [(1, "b")] ["started"] .none (.nums [1, 2]) false, .loop, .subres 1 "a" true 1, .msg 1 "a" 1 "started",
   .msg 1 "a" 1 "succeeded", .loop, .stop "REQUEST(NOW-NOW)", .loop]

/-- on this history the instances survive the restart exactly when the live code has the repair -/
theorem restart_instances_live : instancesKept exG (final exG opsRowMissing) = dbRowPerFlowSet := by decide

theorem restart_instances_counterexample (h : dbRowPerFlowSet = false) : ¬ restart_instances_full := by
  intro hf
  have := hf exG opsRowMissing
  rw [restart_instances_live, h] at this
  cases this

theorem restart_instances_repaired (h : dbRowPerFlowSet = true) : restart_instances_full := by
  intro g ops
  unfold instancesKept
  rw [restart_keeps_instances h g ops _ (final_mem_run g ops)]
  exact beq_self_eq_true _

/-! ### non-vacuity -/

-- the history above really has `1/b` pooled (in flow 1) before the stop
example : (final exG opsRowMissing).pool.map (fun x => (x.pt, x.name, x.flows)) = [(1, "b", [1])] := by decide


-- flow wait set by `cylc set --wait` survives the restart (and the proxy really waits)
example : flowWaitKept exG (final exG [.set [(1, "b")] [] .all (.nums [2]) true, .loop, .stop "REQUEST(NOW-NOW)", .loop]) = true ∧
    ((restart exG (final exG [.set [(1, "b")] [] .all (.nums [2]) true, .loop, .stop "REQUEST(NOW-NOW)", .loop])).pool.map
      fun x => (x.pt, x.name, x.flows, x.flowWait)) = [(1, "a", [1], false), (1, "b", [2], true)] := by decide

-- outputs forced by `cylc set --out=started` on the running `1/a` survive the restart
example : outputsKept exG (final exG [.loop, .subres 1 "a" true 1, .loop, .set [(1, "a")] ["started"] .none .default false,
      .loop, .stop "REQUEST(NOW-NOW)", .loop]) = true := by decide


end CylcModel.C11R
