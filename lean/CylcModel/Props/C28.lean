/-
C28 — Group trigger runs each member once, honouring in-group order.

Statements over the `Sched3Trig` model (scheduler core + flows, run-DB tables, manual submission and the
`cylc trigger` command, a line-by-line port of `commands.force_trigger_tasks` / `_force_trigger_tasks` /
`_remove_matched_tasks` / `TaskPool._set_prereqs_tdef` / `queue_or_trigger` / `Scheduler.release_tasks_to_run`),
for every instance graph `g`, state, operation and iteration-order hint.  Proofs by reference to
`Sched3TrigLemmas`.

Property text → theorems
* "members with no prerequisites inside the group start first (not blocked by holds or a pause …)"
    `triggered_is_marked`, `triggered_again_is_not_requeued`, `triggered_submits_despite_hold_and_pause`
* "no member runs more than once per trigger" (per main loop and pooled instance)
    `submit_once_per_loop`
* "a group-start member that already has a live job is left to finish rather than resubmitted"
    `live_start_member_left_alone`, `non_start_member_queued_for_removal`
* every member is to run, so holds requested before the trigger are released: `trigger_releases_member_holds`
  (not for `--flow=none`, nor against the hold point: findings `flow-none-keeps-hold`, `hold-point-blocks-member`)
* "prerequisites on tasks outside the group are satisfied automatically"
    `off_group_forced`
* "other members run only after their in-group prerequisites are satisfied"
    `in_group_kept`, `live_parent_partial`, `live_parent_repaired`; the full statement `live_parent_full` is FALSE
    for cylc-flow as found (finding `live-parent-any-output`): `live_parent_counterexample`; `live_parent_live`
    ties the truth of the full statement to the behaviour flag probed from the live code
* the command handles each connected group on its own: `groups_cover`
* "no member runs more than once per trigger" FAILS for cylc-flow as found when the command meets a member that is
  pooled in other flows (finding `unpooled-object-triggered`): `unpooled_object_counterexample`

Not proved here (see statement_note of harness/props/c28.py): the end-to-end liveness statement "each member runs
exactly once more along every continuation" and the whole-command versions through `_remove_matched_tasks`.
-/
import CylcModel.Sched3TrigLemmas
import CylcModel.Generated.TrigFlags

namespace CylcModel.C28
open CylcModel.Sched3Trig

/-! ### group-start members start first, whatever holds and pause -/

/-- **`queue_or_trigger`**: the proxy is marked manual, waiting, not queued, waiting on job preparation, and its
key is put on the trigger-now list. -/
theorem triggered_is_marked (s : State) (x : Proxy) (hin : (s.get? x.pt x.name).isSome) :
    (x.pt, x.name) ∈ (queueOrTrigger s x).toTrigger ∧
    ∃ y, (queueOrTrigger s x).get? x.pt x.name = some y ∧
      y.manual = true ∧ y.wjp = true ∧ y.status = .waiting ∧ y.queued = false := by
  refine ⟨queueOrTrigger_mem s x, triggeredProxy x, ?_, triggeredProxy_flags x⟩
  have hp := queueOrTrigger_pool s x
  have hk := triggeredProxy_key x
  have h1 : (queueOrTrigger s x).get? x.pt x.name = (s.put (triggeredProxy x)).get? x.pt x.name := by
    unfold State.get?; rw [hp]
  rw [h1]
  have h2 := get?_put_self s (triggeredProxy x) (by rw [hk.1, hk.2]; exact hin)
  rw [hk.1, hk.2] at h2
  exact h2

/-- With the early return of `queue_or_trigger` (cylc-flow 6e65a44, flag `qotSkipsPrepped`): a proxy that is not yet
waiting on job preparation is marked exactly as above; one that already is (triggered before and not yet
submitted) only has its manual flag set -- it stays as it is in the pool otherwise and the trigger-now list is
not touched (it is on it already, or was handed to job preparation by its queue). -/
theorem triggered_again_is_not_requeued (skip : Bool) (s : State) (x : Proxy) :
    (x.wjp = false → queueOrTriggerG skip s x = queueOrTrigger s x) ∧
    (skip = true → x.wjp = true →
      (queueOrTriggerG skip s x).toTrigger = s.toTrigger ∧
      (queueOrTriggerG skip s x).pool = (s.put { x with manual := true }).pool) := by
  refine ⟨fun h => ?_, fun h1 h2 => ?_⟩
  · unfold queueOrTriggerG; simp [h]
  · unfold queueOrTriggerG; simp [h1, h2, State.put]

/-- **Not blocked by holds or a pause**: the submission step of a main loop launches a job for every pooled
instance whose key is on the trigger-now list — there is no hypothesis on the held flag of the proxy or on the
paused flag of the workflow (the step is skipped only when the scheduler is stopping, see `mainLoop`). -/
theorem triggered_submits_despite_hold_and_pause (s : State) (x : Proxy) (hx : x ∈ s.pool)
    (hk : (x.pt, x.name) ∈ s.toTrigger) :
    ∃ sn, (x.pt, x.name, sn) ∈ (releaseAndSubmit s).launched := by
  have hp : (x.pt, x.name) ∈ keys s := List.mem_map.mpr ⟨x, hx, rfl⟩
  exact triggered_launched s (x.pt, x.name) hk hp

/-- **Once per main loop**: the submission step launches at most one job per pooled instance (pool keys
distinct — C26 —, nothing launched yet in this operation, no phantom object pending). -/
theorem submit_once_per_loop (s : State) (h0 : s.launched = []) (hph : s.phantoms = []) (hnd : (keys s).Nodup) :
    ((releaseAndSubmit s).launched.map fun l => (l.1, l.2.1)).Nodup :=
  launched_keys_nodup s h0 hph hnd

/-! ### live members are left alone -/

/-- **A live group-start member is left to finish**: the per-member step of the command, on a pooled member
with no trigger parent in the group that is preparing / submitted / running (in some flow, not flow-waiting),
does not queue it for removal, does not put it on the trigger-now list, and leaves its status, submit number,
completed outputs, prerequisites, queue / hold / manual / job-prep flags as they are (only flow numbers merge). -/
theorem live_start_member_left_alone (g : Graph) (group : List (Int × String)) (flow : FlowSpec)
    (flowNums : List Nat) (st : State) (toRemove : List (Int × String)) (completed : Completed)
    (k : Int × String) (x : Proxy) (d : InstDef)
    (hx : st.get? k.1 k.2 = some x) (hd : instOf g k = some d)
    (hstart : d.trigParents.any group.contains = false)
    (hlive : (x.status == .preparing || x.status.isActive) = true)
    (hfl : x.flows.isEmpty = false) (hfw : x.flowWait = false) (hflow : flow ≠ .none) :
    let r := trigActiveOne g group flow flowNums (st, toRemove, completed) k
    r.2.1 = toRemove ∧ r.1.toTrigger = st.toTrigger ∧ r.1.phantoms = st.phantoms ∧
    ∃ y, r.1.get? k.1 k.2 = some y ∧ y.status = x.status ∧ y.submitNum = x.submitNum ∧ y.done = x.done ∧
      y.pre = x.pre ∧ y.wjp = x.wjp ∧ y.manual = x.manual ∧ y.queued = x.queued ∧ y.held = x.held := by
  have hnone : (flow == .none && !x.flows.isEmpty) = false := by
    have : (flow == FlowSpec.none) = false := by
      cases flow <;> simp_all
    rw [this]; rfl
  obtain ⟨h1, h2⟩ := trigActiveOne_live g group flow flowNums st toRemove completed k x d hx hd hstart hlive hnone
  have hkx := get?_some_key st k.1 k.2 x hx
  have hin : st.get? x.pt x.name = some x := by rw [hkx.1, hkx.2]; exact hx
  obtain ⟨m1, m2, _, y, m4, m5⟩ :=
    mergeFlows_unfinished g st x flowNums hin (isFinal_false_of_live x.status hlive) hfl hfw
  simp only
  rw [h1, h2]
  refine ⟨rfl, m1, m2, y, ?_, m5⟩
  rw [← hkx.1, ← hkx.2]; exact m4

/-- A pooled member that has a trigger parent in the group is (only) queued for removal by the per-member
step: it is respawned later, with its in-group prerequisites unsatisfied. -/
theorem non_start_member_queued_for_removal (g : Graph) (group : List (Int × String)) (flow : FlowSpec)
    (flowNums : List Nat) (st : State) (toRemove : List (Int × String)) (completed : Completed)
    (k : Int × String) (x : Proxy) (d : InstDef)
    (hx : st.get? k.1 k.2 = some x) (hd : instOf g k = some d)
    (hpar : d.trigParents.any group.contains = true) :
    trigActiveOne g group flow flowNums (st, toRemove, completed) k = (st, toRemove ++ [k], completed) :=
  trigActiveOne_nonstart g group flow flowNums st toRemove completed k x d hx hd hpar

/-! ### the trigger overrides holds requested before it -/

/-- **Holds of the members are released**: the command applies `release_held_tasks` to the members it removed
and to those outside the pool (`ids` below; everything but `--flow=none`, see `forceTriggerGroup`): none of them
is on the hold list afterwards, whether it was held in the pool, or recorded as a future / finished instance
by an earlier `cylc hold`; and no new entry appears. -/
theorem trigger_releases_member_holds (s : State) (ids : List (Int × String)) (qir : Bool) :
    (∀ k ∈ ids, (k.2, k.1) ∉ (releaseTasks s ids qir).tasksToHold) ∧
    (∀ e, e ∈ (releaseTasks s ids qir).tasksToHold → e ∈ s.tasksToHold) :=
  ⟨releaseTasks_released s ids qir, releaseTasks_sub s ids qir⟩

/-! ### off-group prerequisites are satisfied, in-group ones are kept -/

/-- **Off-group prerequisites are satisfied automatically**: the proxy `_set_prereqs_tdef` respawns for a
removed member (not parentless) has every prerequisite atom of its TaskDef that names a task outside the group
satisfied. -/
theorem off_group_forced (g : Graph) (s : State) (k : Int × String) (group : List (Int × String))
    (completed : Completed) (d : InstDef) (flows : List Nat) (wait : Bool) (s' : State) (x : Proxy) (pooled : Bool)
    (h : setPrereqsTdef g s k (respawnAtoms g.anyOutput group completed d) false flows wait = (s', some x, pooled)) :
    ∀ p ∈ x.pre, ∀ e ∈ p.atoms, e.1 ∈ d.tdefAtoms → group.contains (e.1.pt, e.1.task) = false → e.2.ok = true := by
  intro p hp e he hd hg
  exact setPrereqsTdef_forced g s k _ false flows wait s' x pooled h p hp e he
    (Or.inr (respawnAtoms_off g.anyOutput group completed d e.1 hd hg))

/-- … and a parentless member is respawned with all its prerequisites satisfied. -/
theorem parentless_all_forced (g : Graph) (s : State) (k : Int × String) (flows : List Nat) (wait : Bool)
    (s' : State) (x : Proxy) (pooled : Bool)
    (h : setPrereqsTdef g s k [] true flows wait = (s', some x, pooled)) :
    ∀ p ∈ x.pre, ∀ e ∈ p.atoms, e.2.ok = true := by
  intro p hp e he
  exact setPrereqsTdef_forced g s k [] true flows wait s' x pooled h p hp e he (Or.inl rfl)

/-- **In-group prerequisites are kept**: forcing the atoms `which` leaves every other atom of a prerequisite in
the state it had (in particular an unsatisfied in-group atom stays unsatisfied until its parent's output). -/
theorem in_group_kept (p : Pre) (which : List Atom) (e : Atom × Sat) (he : e ∈ p.atoms) (hn : e.1 ∉ which) :
    e ∈ (p.forceSatisfy which false).atoms :=
  forceSatisfy_kept p which false e he (Or.inl ⟨rfl, hn⟩)

/-- Whatever the behaviour flag: an in-group atom is among the forced ones only if its parent is a live
(submitted / running) group-start member that has completed *some* output. -/
theorem live_parent_partial (f : Bool) (group : List (Int × String)) (completed : Completed) (d : InstDef) (a : Atom)
    (ha : a ∈ respawnAtoms f group completed d) (hg : group.contains (a.pt, a.task) = true) :
    ∃ e ∈ completed, e.1 = (a.pt, a.task) :=
  respawnAtoms_in_group f group completed d a ha hg

/-- The full statement: an in-group atom is forced only on an output its live parent has *completed*
(for the behaviour of the live code, `TrigFlags.anyOutput`). -/
def live_parent_full : Prop :=
  ∀ (group : List (Int × String)) (completed : Completed) (d : InstDef) (a : Atom),
    a ∈ respawnAtoms TrigFlags.anyOutput group completed d → group.contains (a.pt, a.task) = true →
    ∃ e ∈ completed, e.1 = (a.pt, a.task) ∧ a.out ∈ e.2

/-- Repaired behaviour (flag false): the full statement holds. -/
theorem live_parent_repaired (group : List (Int × String)) (completed : Completed) (d : InstDef) (a : Atom)
    (ha : a ∈ respawnAtoms false group completed d) (hg : group.contains (a.pt, a.task) = true) :
    ∃ e ∈ completed, e.1 = (a.pt, a.task) ∧ a.out ∈ e.2 :=
  respawnAtoms_in_group_repaired group completed d a ha hg

/-- the witness: group {1/a, 1/b}, `1/a` running with `submitted` and `started` complete, `1/b` waits for
`1/a:succeeded` -/
def cexInst : InstDef :=
  { pre := [], sui := [], children := [], nextParentless := none, tdefAtoms := [⟨1, "a", "succeeded"⟩] }

/-- Behaviour as found (flag true): the prerequisite `1/a:succeeded` is forced although `1/a` has only started. -/
theorem live_parent_counterexample :
    ¬ ∀ (group : List (Int × String)) (completed : Completed) (d : InstDef) (a : Atom),
      a ∈ respawnAtoms true group completed d → group.contains (a.pt, a.task) = true →
      ∃ e ∈ completed, e.1 = (a.pt, a.task) ∧ a.out ∈ e.2 := by
  intro h
  have := h [(1, "a"), (1, "b")] [((1, "a"), ["submitted", "started"])] cexInst ⟨1, "a", "succeeded"⟩
    (by decide) (by decide)
  obtain ⟨e, he, _, h2⟩ := this
  simp only [List.mem_singleton] at he
  subst he
  revert h2
  decide

/-- The truth of the full statement follows the flag probed from the live code: it holds exactly for the
repaired behaviour. -/
theorem live_parent_live : live_parent_full ↔ TrigFlags.anyOutput = false := by
  unfold live_parent_full
  generalize TrigFlags.anyOutput = f
  cases f
  · simp only [iff_true]
    exact fun group completed d a => live_parent_repaired group completed d a
  · simp only [Bool.true_eq_false, iff_false]
    exact live_parent_counterexample

/-! ### connected groups -/

/-- Every id of the command lands in one of the connected groups, and the groups contain ids of the command
only (each group is then triggered on its own, `forceTrigger`). -/
theorem groups_cover (g : Graph) (ids : List (Int × String)) :
    (∀ k ∈ ids, ∃ grp ∈ groupsOf g ids, k ∈ grp) ∧ ∀ grp ∈ groupsOf g ids, ∀ k ∈ grp, k ∈ ids := by
  unfold groupsOf
  exact ⟨(groupsOf_fold_cover g ids ids []).2,
    groupsOf_fold_sub g ids ids [] (fun _ h => h) (fun _ h => absurd h (by simp))⟩

/-! ### a concrete workflow: non-vacuity of the hypotheses -/

/-- `a => b` on one cycle point -/
def exGraph : Graph :=
  let outs : List OutDef := [⟨"submitted", "submitted"⟩, ⟨"started", "started"⟩, ⟨"succeeded", "succeeded"⟩]
  { icp := 1, fcp := 1, start := 1, runahead := 1, seqs := [[1]], stopPoint := some 1,
    tasks := [
      { name := "a", firstParentless := some 1, completion := CE.var "succeeded", outputs := outs,
        insts := [(1, { pre := [], sui := [], children := [("succeeded", [⟨"b", 1, false⟩])], nextParentless := none,
                        parentlessIcp := true })] },
      { name := "b", firstParentless := none, completion := CE.var "succeeded", outputs := outs,
        insts := [(1, { pre := [{ atoms := [(⟨1, "a", "succeeded"⟩, .no)], expr := none }], sui := [], children := [],
                        nextParentless := none, trigParents := [(1, "a")], tdefAtoms := [⟨1, "a", "succeeded"⟩] })] }] }

def final (g : Graph) (ops : List Op) : State := ops.foldl (step g) (init g)

def trigAB : Op := .trigger [(1, "a"), (1, "b")] .dflt false []

/-- held and paused, then triggered: `1/a` (group start) is on the trigger-now list and is launched by the next
main loop all the same; `1/b` (only an in-group prerequisite) is not spawned before `1/a:succeeded`. -/
example :
    (final exGraph [.hold [(1, "a")], .pause, trigAB]).toTrigger = [(1, "a")] ∧
    ((final exGraph [.hold [(1, "a")], .pause, trigAB]).pool.map fun x => (x.pt, x.name, x.held, x.manual)) =
      [(1, "a", true, true)] ∧
    (final exGraph [.hold [(1, "a")], .pause, trigAB]).paused = true ∧
    (final exGraph [.hold [(1, "a")], .pause, trigAB, .loop]).launched = [(1, "a", 1)] := by decide +kernel

/-- `1/a` running (live), then triggered with `1/b`: `1/a` keeps status and job; with the behaviour as found
(flag true) `1/b` is launched by the next loop while `1/a` is still running — the defect; with the repaired
behaviour (flag false) it is not (it is spawned when `1/a` succeeds). -/
example :
    let ops := [Op.loop, .subres 1 "a" true 1, .msg 1 "a" 1 "started", .loop, trigAB, .loop]
    ((final exGraph ops).pool.map fun x => (x.pt, x.name, x.status, x.submitNum)) =
      [(1, "a", .running, 1), (1, "b", .preparing, 1)] ∧
    ((final { exGraph with anyOutput := false } ops).pool.map fun x => (x.pt, x.name, x.status, x.submitNum)) =
      [(1, "a", .running, 1)] := by decide +kernel

/-- the hypotheses of `live_start_member_left_alone` are met by the running `1/a` of that history -/
example :
    let st := final exGraph [Op.loop, .subres 1 "a" true 1, .msg 1 "a" 1 "started", .loop]
    ∃ x d, st.get? 1 "a" = some x ∧ instOf exGraph (1, "a") = some d ∧
      d.trigParents.any [(1, "a"), (1, "b")].contains = false ∧
      (x.status == .preparing || x.status.isActive) = true ∧ x.flows.isEmpty = false ∧ x.flowWait = false := by
  refine ⟨_, _, rfl, rfl, ?_⟩
  decide +kernel

/-! ### the unpooled object (finding `unpooled-object-triggered`) -/

/-- `d; d[^]:x => e` on one cycle point: `1/e` has an absolute trigger on `1/d:x` only, so it counts as parentless -/
def exGraphAbs : Graph :=
  let outs : List OutDef := [⟨"submitted", "submitted"⟩, ⟨"started", "started"⟩, ⟨"succeeded", "succeeded"⟩]
  { icp := 1, fcp := 1, start := 1, runahead := 1, seqs := [[1]], stopPoint := some 1,
    tasks := [
      { name := "d", firstParentless := some 1, completion := CE.var "succeeded", outputs := outs ++ [⟨"x", "xx"⟩],
        insts := [(1, { pre := [], sui := [], children := [("xx", [⟨"e", 1, true⟩])], nextParentless := none,
                        parentlessIcp := true })] },
      { name := "e", firstParentless := some 1, completion := CE.var "succeeded", outputs := outs, hasAbs := true,
        insts := [(1, { pre := [{ atoms := [(⟨1, "d", "xx"⟩, .no)], expr := none }], sui := [], children := [],
                        nextParentless := none, trigParents := [(1, "d")], tdefAtoms := [⟨1, "d", "xx"⟩],
                        parentlessIcp := true })] }] }

/-- `1/d` running, `1/e` waiting in flow 1, then `cylc trigger --flow=new 1/d 1/e` -/
def opsAbs : List Op :=
  [.loop, .subres 1 "d" true 1, .msg 1 "d" 1 "started", .loop, .trigger [(1, "d"), (1, "e")] .new false []]

/-- **Behaviour as found: one instance, two jobs.**  The command cannot remove the flow-1 proxy of `1/e`, spawns a
second object for flow 2 that the pool refuses, and triggers it all the same: the next main loop submits `1/e`
job 1 from the unpooled object, and when `1/d:x` arrives the pooled `1/e` is submitted as job 1 again.  With the
repaired behaviour (flag `triggerUnpooled` false) there is one submission. -/
theorem unpooled_object_counterexample :
    (final exGraphAbs (opsAbs ++ [.loop])).launched = [(1, "e", 1)] ∧
    (final exGraphAbs (opsAbs ++ [.loop, .msg 1 "d" 1 "xx", .loop, .loop])).launched = [(1, "e", 1)] ∧
    (final { exGraphAbs with triggerUnpooled := false } (opsAbs ++ [.loop])).launched = [] ∧
    (final { exGraphAbs with triggerUnpooled := false } (opsAbs ++ [.loop, .msg 1 "d" 1 "xx", .loop, .loop])).launched
      = [(1, "e", 1)] := by decide +kernel

/-- `groups_cover`, `off_group_forced`: a two-group command and a respawn with a forced off-group atom -/
example : groupsOf exGraph [(1, "a"), (1, "b")] = [[(1, "a"), (1, "b")]] := by decide +kernel

/-- `cylc hold 1/b` (not yet in the pool), then the group trigger: `1/b` is off the hold list again -/
example :
    (final exGraph [.hold [(1, "b")]]).tasksToHold = [("b", 1)] ∧
    (final exGraph [.hold [(1, "b")], trigAB]).tasksToHold = [] := by decide +kernel

end CylcModel.C28
