/-
C13 — Prerequisite satisfaction equals the trigger expression's truth.
Property statements only; the model is `CylcModel/Prereq.lean`, helper lemmas are in
`CylcModel/PrereqLemmas.lean`.

Reading guide.  A dependency is a list of triggers `trigs` (in `Dependency.task_triggers` order)
and an expression `e : BExpr` over trigger indices (`and`, `or`, explicit parentheses); its token
list is `e.render` (`&` binds tighter than `|`).  `build c trigs e.render` is the model of
`Dependency.get_prerequisite(point, tdef)`, `observe pr ops` the list of `is_satisfied()` results
after the build and after each operation (`satisfy_me`, `unset_naturally_satisfied`,
`set_satisfied`).  The specification side is `specTrace`/`truthOf`: the state of every upstream
output is tracked by three one-line maps, and the expression is evaluated by `BExpr.eval`.
-/
import CylcModel.PrereqLemmas
namespace CylcModel.C13
open CylcModel.Prereq

/-! ### 1. The regex rewrite acts on every trigger text separately -/

/-- `rewrite_faithful`, general form: for **any** ordered key set whose messages contain none of
`& | ( )`, and any well-formed token list, the sequence of `re.sub` passes of
`set_conditional_expr` rewrites the expression text exactly as it rewrites each trigger text
on its own (no match can straddle an operator, begin or end at one). -/
theorem rewrite_acts_atomwise (keys : List Key) (hk : ∀ k ∈ keys, k.SepFree) (toks : List Tok)
    (hwf : WF toks = true) (f : Nat → Str) :
    rewriteText keys (exprText f toks) = exprText (fun i => rewriteText keys (f i)) toks :=
  rewriteText_exprText keys hk toks hwf f

/-- `rewrite_faithful`: under the decidable `NoCollision` predicate on the ordered key set, the
conditional expression of the built prerequisite is the expression with every trigger replaced by
its own `bool(self._satisfied[(point, task, output)])`. -/
theorem rewrite_faithful (c : Ctx) (trigs : List Trig) (e : BExpr) (h : Hyp c trigs e)
    (hnc : NoCollision (keysOf (buildSat c trigs)) = true) :
    rewriteText (keysOf (buildSat c trigs)) (exprText (atomMsg c trigs) e.render) =
      exprText (fun i => (keyAt c trigs i).tmpl) e.render :=
  cond_text h hnc

example : Hyp ⟨2, 1, 1, renderInt⟩
    [⟨"foo".toList, .rel (-1), "succeeded".toList⟩, ⟨"foofoo".toList, .none, "failed".toList⟩]
    (.or (.atom 0) (.atom 1)) ∧
    NoCollision (keysOf (buildSat ⟨2, 1, 1, renderInt⟩
      [⟨"foo".toList, .rel (-1), "succeeded".toList⟩, ⟨"foofoo".toList, .none, "failed".toList⟩])) = true := by
  refine ⟨⟨?_, ?_, ?_, ?_⟩, ?_⟩
  · decide
  · intro j hj
    have : j = 0 ∨ j = 1 := by simp at hj; omega
    rcases this with rfl | rfl <;> decide
  · decide
  · decide
  · decide

/-! ### 2. Python evaluation of the rewritten text is the expression's truth -/

/-- Lexing and parsing (Python precedence: `&` over `|`, parentheses) the rewritten text of
`e` yields `e.eval` over the truthiness of the `_satisfied` entries. -/
theorem eval_rewritten_text (look : Key → Option Bool) (key : Nat → Key) (v : Nat → Bool) (e : BExpr)
    (hq : ∀ i ∈ e.atoms, (key i).NoQuote) (hv : ∀ i ∈ e.atoms, look (key i) = some (v i)) :
    pyEval look (exprText (fun i => (key i).tmpl) e.render) = some (e.eval v) := by
  have hlex := lex_exprText key e.render (fun i hi => hq i ((mem_render_atom e i).mp hi))
    ((exprText (fun i => (key i).tmpl) e.render).length + 1) (by omega)
  have hparse := parse_render look key v e hv
  simp only [pyEval, hlex, hparse, V3.truthy_ofBool]

set_option maxRecDepth 8192 in
example : pyEval (fun _ => some true) (exprText (fun i => (Key.mk ['1'] ['a'] [Char.ofNat (120 + i)]).tmpl)
    (BExpr.and (.or (.atom 0) (.atom 1)) (.atom 2)).render) = some true := by
  decide

/-! ### 3. The cache is never stale; `is_satisfied()` is the expression's truth -/

/-- `cache_sound` + `prereq_sem` (partial: under `NoCollision`).  For every context, trigger list,
expression, and **every** sequence of operations, each `is_satisfied()` result — whether
computed or taken from `_cached_satisfied` — is the truth of the expression over the current
states of the upstream outputs (`specTrace` starts from `lookFn (buildSat ..)`, characterised by
`initial_state` below, and follows the operations by `specStep`). -/
theorem prereq_sem_partial (c : Ctx) (trigs : List Trig) (e : BExpr) (h : Hyp c trigs e)
    (hnc : NoCollision (keysOf (buildSat c trigs)) = true) (ops : List Op) :
    observe (build c trigs e.render) ops =
      (specTrace (lookFn (buildSat c trigs)) ops).map fun σ => some (truthOf c trigs e σ) := by
  have := observe_inv h hnc ops (build c trigs e.render) (inv_build c trigs e)
  rwa [(build_sat c trigs e.render).1] at this

example : observe (build ⟨2, 1, 1, renderInt⟩
      [⟨"foo".toList, .rel (-1), "succeeded".toList⟩, ⟨"foofoo".toList, .none, "failed".toList⟩]
      (BExpr.or (.atom 0) (.atom 1)).render)
    [.sat [⟨"2".toList, "foofoo".toList, "failed".toList⟩] .natural, .unset "2/foofoo".toList]
    = [some false, some true, some false] := by
  decide

/-- The initial state of an upstream output is that of the last trigger with its key:
satisfied iff the trigger has an offset and its point is before the initial point, or before the
start point while the dependent task is not. -/
theorem initial_state (c : Ctx) (trigs : List Trig) (k : Key) :
    lookFn (buildSat c trigs) k =
      (trigs.reverse.find? fun t => decide (t.key c = k)).map fun t => initVal (t.initSat c) :=
  lookupKey_buildSat c trigs k

/-- "Dependencies on instances before the initial cycle point count as satisfied." -/
theorem pre_initial_satisfied (c : Ctx) (t : Trig) (hoff : t.off ≠ .none) (hpre : t.point c < c.icp) :
    t.initSat c = true := by
  unfold Trig.initSat
  cases hto : t.off with
  | none => exact absurd hto hoff
  | _ => simp [hpre]

example : (Trig.mk "a".toList (.rel (-2)) "succeeded".toList).initSat ⟨1, 1, 1, renderInt⟩ = true := by
  decide

/-! ### 4. The statement without `NoCollision`

`anchoredRewrite` is regenerated on every run by probing the real `set_conditional_expr`: `false`
for the `\\b<msg>\\b` patterns, `true` once operands are matched only between operators
(findings/C13-fix-1.diff).  Exactly one of the two theorems below has a satisfiable hypothesis. -/
open CylcModel.Generated.PrereqTemplates (anchoredRewrite)

/-- the full-strength statement: no collision hypothesis -/
def prereq_sem_full : Prop :=
  ∀ (c : Ctx) (trigs : List Trig) (e : BExpr), Hyp c trigs e → ∀ ops : List Op,
    observe (build c trigs e.render) ops =
      (specTrace (lookFn (buildSat c trigs)) ops).map fun σ => some (truthOf c trigs e σ)

/-- With the `\\b` patterns the full statement is false.  `foo | foo[-P2] => bar` at cycle 1
(initial point 1), triggers in the order (foo, foo[-P2]): `\\b1/foo succeeded\\b` also matches
inside `-1/foo succeeded`; the pre-initial (satisfied) `-1/foo` is lost and `is_satisfied()` is
`False` although the expression is true. -/
theorem prereq_sem_counterexample : anchoredRewrite = false → ¬ prereq_sem_full := by
  first
  | (intro hA; exact absurd hA (by decide))      -- the source no longer uses the `\\b` patterns
  | (intro _ hfull
     have h := hfull ⟨1, 1, 1, renderInt⟩
       [⟨"foo".toList, .none, "succeeded".toList⟩, ⟨"foo".toList, .rel (-2), "succeeded".toList⟩]
       (.or (.atom 0) (.atom 1))
       ⟨by decide, by
         intro j hj
         have : j = 0 ∨ j = 1 := by simp at hj; omega
         rcases this with rfl | rfl <;> decide, by decide, by decide⟩ []
     revert h
     decide)

/-- distinct upstream outputs have distinct `point/task output` texts -/
def DistinctMsgs (c : Ctx) (trigs : List Trig) : Prop :=
  ((keysOf (buildSat c trigs)).map Key.msg).Nodup

instance (c : Ctx) (trigs : List Trig) : Decidable (DistinctMsgs c trigs) := by
  unfold DistinctMsgs; infer_instance

/-- With anchored patterns `NoCollision` always holds, hence the full statement: for every
dependency (messages free of `& | ( )` and of quote characters, distinct texts, every trigger
used) and every operation sequence, `is_satisfied()` is the expression's truth. -/
theorem prereq_sem_anchored (hA : anchoredRewrite = true) (c : Ctx) (trigs : List Trig) (e : BExpr)
    (h : Hyp c trigs e) (hd : DistinctMsgs c trigs) (ops : List Op) :
    observe (build c trigs e.render) ops =
      (specTrace (lookFn (buildSat c trigs)) ops).map fun σ => some (truthOf c trigs e σ) :=
  prereq_sem_partial c trigs e h
    (noCollision_of_anchored hA _ (fun k hk => by
      obtain ⟨t, ht, rfl⟩ := (mem_keysOf_buildSat c trigs k).mp hk
      exact ⟨h.sep t ht, h.quote t ht⟩) hd) ops

-- the collision witness of the counterexample meets every hypothesis of `prereq_sem_anchored`
-- except the regenerated constant
example : DistinctMsgs ⟨1, 1, 1, renderInt⟩
    [⟨"foo".toList, .none, "succeeded".toList⟩, ⟨"foo".toList, .rel (-2), "succeeded".toList⟩] := by
  decide

end CylcModel.C13
