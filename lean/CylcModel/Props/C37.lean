/-
C37 — Template variables survive restart unchanged.

Property statements only.  Model: `CylcModel/PyLit.lean` (token-level `repr` / `ast.literal_eval`,
`evalVar` = `templatevars.eval_var`, `putDb` = `put_workflow_template_vars` + commit, `restore` =
`Scheduler._load_template_vars` over the rows of `workflow_template_vars`); lemmas:
`CylcModel/PyLitLemmas.lean`.  Values are arbitrarily nested (no bound on depth or size).

Leaves (numbers, strings, bytes) are opaque: a leaf token carries its value, i.e. Python's lexer
and its `repr` of `str` / `bytes` / `int` / finite `float` are assumed to round-trip (trusted
base, exercised on every generated case).  What is proved is everything structural.

`wf v`  : `v` denotes a Python object (elements of sets and keys of dicts are hashable).
`rep v` : no `Ellipsis`, `inf`, `nan` anywhere inside `v`.
`reject`: behaviour of `eval_var` — `true` = values that cannot be read back from their `repr`
          are refused at start (the repaired code), `false` = they are accepted (probed from
          the live code into `Generated.PyLitCfg.rejectsUnrestorable`).
-/
import CylcModel.PyLitLemmas
namespace CylcModel.C37
open CylcModel.PyLit

/-! ## 1. repr / literal_eval -/

/-- **`literal_eval(repr(v)) = v`**, identical value and type, for every representable value:
any nesting of lists, tuples (empty, one element, more), sets (empty: `set()`), dicts, negative
numbers, `-0.0`, `None`, booleans, strings, bytes. -/
theorem eval_repr (v : Val) (hw : wf v = true) (hr : rep v = true) : literalEval (reprToks v) = .ok v :=
  literalEval_repr v hw hr

/-- ... and it FAILS (the restart aborts) as soon as `Ellipsis`, `inf` or `nan` occurs anywhere
inside the value: their `repr` is a name `literal_eval` does not know. -/
theorem eval_repr_unrepresentable (v : Val) (hw : wf v = true) (hr : rep v = false) :
    literalEval (reprToks v) = .bad :=
  literalEval_repr_bad v hw hr

/-- non-vacuity: `[1, 'x', {2: (3.5, None)}, {4, -5}, set(), (), (6,), -0.0]` -/
example :
    let v : Val := .list (.cons (.leaf (.int 1)) (.cons (.leaf (.str [120]))
      (.cons (.dict (.cons (.leaf (.int 2)) (.tuple (.cons (.leaf (.float false (.fin "3.5"))) (.cons (.leaf .none) .nil))) .nil))
      (.cons (.set (.cons (.leaf (.int 4)) (.cons (.leaf (.int (-5))) .nil)))
      (.cons (.set .nil) (.cons (.tuple .nil) (.cons (.tuple (.cons (.leaf (.int 6)) .nil))
      (.cons (.leaf (.float true (.fin "0.0"))) .nil))))))))
    wf v = true ∧ rep v = true ∧ literalEval (reprToks v) = .ok v := by
  refine ⟨by decide, by decide, by rfl⟩

example : wf (.list (.cons (.leaf (.float false .inf)) .nil)) = true ∧
    rep (.list (.cons (.leaf (.float false .inf)) .nil)) = false := by decide

/-! ## 2. restart -/

/-- what the scheduler ends with after: store `tv` in the table `db`, then for every restart
read the table back under the command-line variables `cli` and store the result again -/
def restarts (reject : Bool) : Db → TV → List TV → Res TV
  | _, tv, [] => .ok tv
  | db, tv, cli :: more =>
    match putDb db tv with
    | none => .bad
    | some db' =>
      match restore reject db' cli with
      | .ok tv' => restarts reject db' tv' more
      | .bad => .bad
      | .unsup => .unsup

/-- the value of variable `k` after the restarts: the last command line that gave it, else the first start -/
def lastGiven (tv0 : TV) (clis : List TV) (k : String) : Option Val :=
  clis.foldl (fun acc cli => (lookup cli k).orElse (fun _ => acc)) (lookup tv0 k)

/-- One restart.  `tv0`: the template variables of the running workflow (distinct keys, all
storable), `db`: the table before they are stored (its keys are among those of `tv0` — empty at
the first start).  Then storing succeeds, the restart succeeds, and afterwards every variable has
exactly the command-line value if it was given again, else exactly its previous value
(**command-line precedence + identity**); the invariant holds again for the next restart. -/
theorem restart_spec (reject : Bool) (db : Db) (tv0 cli : TV)
    (hdb : (keys db).Nodup) (hsub : ∀ k ∈ keys db, k ∈ keys tv0)
    (hnd : (keys tv0).Nodup) (hst : ∀ p ∈ tv0, Storable p.2) :
    ∃ db' tv1, putDb db tv0 = some db' ∧ restore reject db' cli = .ok tv1 ∧
      (∀ k, lookup tv1 k = (lookup cli k).orElse (fun _ => lookup tv0 k)) ∧
      (keys db').Nodup ∧ (∀ k ∈ keys db', k ∈ keys tv1) ∧ ((keys cli).Nodup → (keys tv1).Nodup) := by
  obtain ⟨h1, h2, h3⟩ := foldl_upsert_spec tv0 db hnd
  have hput : putDb db tv0 = some (tv0.foldl (fun d p => upsert d p.1 (reprToks p.2)) db) := by
    unfold putDb
    have : tv0.any (fun p => reprFails p.2) = false := by
      rw [List.any_eq_false]; intro p hp; simp [(hst p hp).2.2]
    simp [this]
  generalize tv0.foldl (fun d p => upsert d p.1 (reprToks p.2)) db = db' at *
  have hnd' := h3 hdb
  have hkeys : ∀ k, k ∈ keys db' ↔ k ∈ keys tv0 := fun k =>
    ⟨fun h => ((h2 k).1 h).elim (hsub k) id, fun h => (h2 k).2 (Or.inr h)⟩
  -- every row holds the repr of the variable's value
  let f : String × List Tok → Val := fun r => (lookup tv0 r.1).getD (.leaf .none)
  have hrow : ∀ r ∈ db', ∃ v, lookup tv0 r.1 = some v ∧ r.2 = reprToks v ∧ Storable v := by
    intro r hr
    have hk : r.1 ∈ keys tv0 := (hkeys r.1).1 (List.mem_map.2 ⟨r, hr, rfl⟩)
    cases hl : lookup tv0 r.1 with
    | none => exact absurd hk ((lookup_none_iff tv0 r.1).1 hl)
    | some v =>
      have := h1 r.1
      rw [lookup_mem db' hnd' r hr, hl] at this
      exact ⟨v, rfl, by simpa using this, hst _ (mem_of_lookup tv0 r.1 v hl)⟩
  have hev : ∀ r ∈ db', evalVar reject r.2 = .ok (f r) := by
    intro r hr
    obtain ⟨v, hl, hv, hs⟩ := hrow r hr
    simp only [f, hl, Option.getD_some, hv]
    exact evalVar_repr reject v hs
  have hres := restore_eq reject db' cli f hnd' hev
  refine ⟨db', _, hput, hres, ?_, hnd', ?_, ?_⟩
  · intro k
    rw [lookup_append, lookup_filter_map]
    cases hc : lookup cli k with
    | some v => simp
    | none =>
      have hk : cli.any (fun p => p.1 == k) = false := by
        rw [Bool.eq_false_iff]; exact fun h => (lookup_none_iff cli k).1 hc ((any_key cli k).1 h)
      simp only [Option.orElse_none, hk, Bool.false_eq_true, if_false]
      cases hfind : db'.find? (fun r => r.1 == k) with
      | none =>
        have : k ∉ keys tv0 := by
          intro hk0
          obtain ⟨r, hr, rfl⟩ := List.mem_map.1 ((hkeys k).2 hk0)
          have := List.find?_eq_none.1 hfind r hr
          simp at this
        simp [(lookup_none_iff tv0 k).2 this]
      | some r =>
        have hr := List.mem_of_find?_eq_some hfind
        have hrk : r.1 = k := by simpa using List.find?_some hfind
        obtain ⟨v, hl, _, _⟩ := hrow r hr
        simp only [Option.map_some, f, hl, Option.getD_some]
        rw [← hrk, hl]
  · intro k hk
    simp only [keys, List.map_append, List.mem_append, List.map_map]
    by_cases hc : k ∈ keys cli
    · exact Or.inl hc
    · refine Or.inr ?_
      obtain ⟨r, hr, rfl⟩ := List.mem_map.1 hk
      refine List.mem_map.2 ⟨r, List.mem_filter.2 ⟨hr, ?_⟩, rfl⟩
      have : cli.any (fun p => p.1 == r.1) = false := by
        rw [Bool.eq_false_iff]; exact fun h => hc ((any_key cli r.1).1 h)
      simp [this]
  · intro hcn
    simp only [keys, List.map_append, List.map_map]
    rw [List.nodup_append]
    refine ⟨hcn, ?_, ?_⟩
    · have : ((db'.filter (fun r => !cli.any (fun p => p.1 == r.1))).map ((fun x => x.1) ∘ fun r => (r.1, f r)))
          = (db'.filter (fun r => !cli.any (fun p => p.1 == r.1))).map (·.1) := by
        apply List.map_congr_left; intro r _; rfl
      rw [this]
      exact (List.Nodup.sublist (List.Sublist.map _ List.filter_sublist) hnd')
    · intro a ha b hb
      obtain ⟨r, hr, rfl⟩ := List.mem_map.1 hb
      have hrf := (List.mem_filter.1 hr).2
      intro e
      have : cli.any (fun p => p.1 == r.1) = true := (any_key cli r.1).2 (by simpa [keys, e] using ha)
      simp [this] at hrf

/-- **Command-line precedence**, spelled out: after the restart a variable given on the restart
command line has the command-line value, any other variable has exactly its previous value. -/
theorem cli_precedence (reject : Bool) (db : Db) (tv0 cli : TV)
    (hdb : (keys db).Nodup) (hsub : ∀ k ∈ keys db, k ∈ keys tv0)
    (hnd : (keys tv0).Nodup) (hst : ∀ p ∈ tv0, Storable p.2) :
    ∃ db' tv1, putDb db tv0 = some db' ∧ restore reject db' cli = .ok tv1 ∧
      (∀ k v, lookup cli k = some v → lookup tv1 k = some v) ∧
      (∀ k, lookup cli k = none → lookup tv1 k = lookup tv0 k) := by
  obtain ⟨db', tv1, h1, h2, h3, _⟩ := restart_spec reject db tv0 cli hdb hsub hnd hst
  refine ⟨db', tv1, h1, h2, ?_, ?_⟩
  · intro k v hk; rw [h3 k, hk]; rfl
  · intro k hk; rw [h3 k, hk]; rfl

/-- **Any number of restarts.**  First start with variables `tv0`, then restarts with command
lines `clis`: if every value involved is storable, every restart succeeds and in the end each
variable has exactly the value of the last command line that gave it, else the value it was
first started with — identical value and type. -/
theorem restarts_spec (reject : Bool) (clis : List TV) :
    ∀ (db : Db) (tv0 : TV), (keys db).Nodup → (∀ k ∈ keys db, k ∈ keys tv0) → (keys tv0).Nodup →
      (∀ p ∈ tv0, Storable p.2) → (∀ cli ∈ clis, (keys cli).Nodup ∧ ∀ p ∈ cli, Storable p.2) →
      ∃ tv, restarts reject db tv0 clis = .ok tv ∧ ∀ k, lookup tv k = lastGiven tv0 clis k := by
  induction clis with
  | nil => intro db tv0 _ _ _ _ _; exact ⟨tv0, rfl, fun k => rfl⟩
  | cons cli more ih =>
    intro db tv0 hdb hsub hnd hst hcl
    obtain ⟨db', tv1, hput, hres, hlook, hnd', hsub', hnd1⟩ := restart_spec reject db tv0 cli hdb hsub hnd hst
    have hc := hcl cli (by simp)
    have hst1 : ∀ p ∈ tv1, Storable p.2 := by
      intro p hp
      have := hlook p.1
      rw [lookup_mem tv1 (hnd1 hc.1) p hp] at this
      cases hcl' : lookup cli p.1 with
      | some v =>
        rw [hcl'] at this
        have hv : v = p.2 := by simpa using this.symm
        exact hv ▸ hc.2 _ (mem_of_lookup cli p.1 v hcl')
      | none =>
        rw [hcl'] at this
        simp only [Option.orElse_none] at this
        exact hst _ (mem_of_lookup tv0 p.1 p.2 this.symm)
    obtain ⟨tv, hr, hl⟩ := ih db' tv1 hnd' hsub' (hnd1 hc.1) hst1 (fun c hc' => hcl c (by simp [hc']))
    refine ⟨tv, by simp [restarts, hput, hres, hr], ?_⟩
    intro k
    rw [hl k]
    simp only [lastGiven, List.foldl_cons, hlook k]

/-- non-vacuity: start with `A = [1, (2,)]`, `B = 'old'`; restart with `B = -1.5`, `C = {}`; restart with nothing -/
example :
    let a : Val := .list (.cons (.leaf (.int 1)) (.cons (.tuple (.cons (.leaf (.int 2)) .nil)) .nil))
    let tv0 : TV := [("A", a), ("B", .leaf (.str [111, 108, 100]))]
    let clis : List TV := [[("B", .leaf (.float true (.fin "1.5"))), ("C", .dict .nil)], []]
    restarts false [] tv0 clis = .ok [("A", a), ("B", .leaf (.float true (.fin "1.5"))), ("C", .dict .nil)] := by
  rfl

/-! ## 3. the property -/

/-- accepted at start: a Python object that `eval_var` returns for some text -/
def Accepted (reject : Bool) (v : Val) : Prop := wf v = true ∧ reprFails v = false ∧ ∃ toks, evalVar reject toks = .ok v

/-- The full-strength statement for a behaviour `reject` of `eval_var`: whatever was accepted when
the workflow first started is restored by a restart with the identical value and type, and the
variables given again on the command line take the new value. -/
def survive_full (reject : Bool) : Prop :=
  ∀ (tv0 cli : TV), (keys tv0).Nodup → (∀ p ∈ tv0, Accepted reject p.2) →
    ∃ db tv1, putDb [] tv0 = some db ∧ restore reject db cli = .ok tv1 ∧
      ∀ k, lookup tv1 k = (lookup cli k).orElse (fun _ => lookup tv0 k)

/-- With the repaired `eval_var` everything that is accepted can be stored and read back. -/
theorem accepted_storable (v : Val) (h : Accepted true v) : Storable v := by
  obtain ⟨hw, hf, toks, ht⟩ := h
  refine ⟨hw, ?_, hf⟩
  cases hr : rep v with
  | true => rfl
  | false =>
    exfalso
    unfold evalVar at ht
    cases hl : literalEval toks with
    | ok w =>
      rw [hl] at ht
      simp only [Bool.true_and] at ht
      split at ht
      · cases ht
      · rename_i hc
        cases ht
        simp [literalEval_repr_bad v hw hr, Res.isOk] at hc
    | bad => rw [hl] at ht; cases ht
    | unsup => rw [hl] at ht; cases ht

/-- **The property, for the repaired `eval_var`.** -/
theorem survive : survive_full true := by
  intro tv0 cli hnd hacc
  obtain ⟨db', tv1, h1, h2, h3, _⟩ := restart_spec true [] tv0 cli (by simp [keys]) (by simp [keys]) hnd
    (fun p hp => accepted_storable p.2 (hacc p hp))
  exact ⟨db', tv1, h1, h2, h3⟩

/-- The same for ANY behaviour of `eval_var` (in particular the unrepaired one), for values that
are storable.  Missing w.r.t. the full statement: accepted values containing `Ellipsis`, `inf`
or `nan`, or an integer too long for `repr`. -/
theorem survive_partial (reject : Bool) (tv0 cli : TV) (hnd : (keys tv0).Nodup) (hst : ∀ p ∈ tv0, Storable p.2) :
    ∃ db tv1, putDb [] tv0 = some db ∧ restore reject db cli = .ok tv1 ∧
      ∀ k, lookup tv1 k = (lookup cli k).orElse (fun _ => lookup tv0 k) := by
  obtain ⟨db', tv1, h1, h2, h3, _⟩ := restart_spec reject [] tv0 cli (by simp [keys]) (by simp [keys]) hnd hst
  exact ⟨db', tv1, h1, h2, h3⟩

/-- The full statement for the behaviour probed on the live code. -/
theorem survive_live (hlive : Generated.PyLitCfg.rejectsUnrestorable = true) :
    survive_full Generated.PyLitCfg.rejectsUnrestorable := by
  rw [hlive]; exact survive

/-- With the unrepaired `eval_var` the full statement is false: `-s X=1e999` is accepted (`inf`),
stored as the text `inf`, and the restart cannot read it back. -/
theorem survive_counterexample : ¬ survive_full false := by
  intro h
  obtain ⟨db, tv1, h1, h2, _⟩ := h [("X", .leaf (.float false .inf))] [] (by decide)
    (by
      intro p hp
      simp only [List.mem_cons, List.not_mem_nil, or_false] at hp
      subst hp
      exact ⟨by decide, by decide, [.float .inf], by rfl⟩)
  have e1 : putDb [] [("X", Val.leaf (.float false .inf))] = some [("X", [.name "inf"])] := by rfl
  rw [e1] at h1
  cases h1
  have e2 : restore false [("X", [Tok.name "inf"])] [] = .bad := by rfl
  rw [e2] at h2
  cases h2

example : Accepted false (.leaf .ellipsis) := ⟨by decide, by decide, [.dots], by rfl⟩
example : Accepted true (.leaf (.int (-3))) := ⟨by decide, by decide, [.minus, .int 3], by rfl⟩

end CylcModel.C37
