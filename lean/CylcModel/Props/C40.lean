/-
C40 — Workflow-state queries match exactly what was recorded.
Property statements only; helper lemmas live in `CylcModel/LikeLemmas.lean`.

Prose ↔ statements.  "A workflow-state query for a task, cycle and status or output returns exactly
the recorded task instances that match" = `query_exact` (result = the specification's filter of the
recorded rows, for every database and query); "where `*` … matches any sequence of characters and
every other character matches only itself (case-sensitively)" = `starMatch`, characterised by
`starMatch_star_iff` / `starMatch_literal` / `starMatch_nil`, and carried into the code by
`like_translation` / `field_filter_exact` (what SQLite does with the pattern the code hands it);
"flow filtering keeps only instances in the requested flow" = `flow_filter`.
-/
import CylcModel.LikeLemmas
namespace CylcModel.C40
open CylcModel.Like

/-- `*` matches any sequence of characters (any prefix `a` of the text, possibly empty). -/
theorem starMatch_star_iff (p s : Str) :
    starMatch ('*' :: p) s = true ↔ ∃ a b, s = a ++ b ∧ starMatch p b = true := by
  simp [starMatch, anySuffix_iff]

example : starMatch "*_1".toList "foo_1".toList = true := by decide

/-- every other character matches only itself. -/
theorem starMatch_literal (c : Char) (hc : c ≠ '*') (p s : Str) :
    starMatch (c :: p) s = true ↔ ∃ t, s = c :: t ∧ starMatch p t = true := by
  cases s with
  | nil => simp [starMatch, hc]
  | cons x t =>
    simp only [starMatch, hc, if_false, Bool.and_eq_true, beq_iff_eq]
    constructor
    · rintro ⟨rfl, h⟩; exact ⟨t, rfl, h⟩
    · rintro ⟨t', h, ht⟩
      simp at h
      obtain ⟨rfl, rfl⟩ := h
      exact ⟨rfl, ht⟩

example : ('_' : Char) ≠ '*' ∧ starMatch "_1".toList "_1".toList = true ∧ starMatch "_1".toList "X1".toList = false := by
  decide

/-- the empty pattern matches only the empty text. -/
theorem starMatch_nil (s : Str) : starMatch [] s = true ↔ s = [] := by
  cases s <;> simp [starMatch]

example : starMatch [] [] = true ∧ starMatch [] "a".toList = false := by decide

/-- The three clauses above are the whole relation. -/
theorem starMatch_iff_rel (p s : Str) : starMatch p s = true ↔ StarRel p s :=
  CylcModel.Like.starMatch_iff_rel p s

example : StarRel ['a', '*'] ['a', 'b'] :=
  .lit 'a' _ _ (by decide) (.star [] ['b'] [] _ rfl .nil)

/-- The SQLite operator the code uses, applied to the code's rewrite of the pattern, decides
exactly the `*`-wildcard relation — for every pattern and text (any length, any characters).
Stated over the operator / rewrite table regenerated from the live source. -/
theorem like_translation (pat s : Str) : sqlMatch (translate pat) s = starMatch pat s :=
  sqlMatch_translate pat s

example : sqlMatch (translate "foo_*".toList) "fooX1".toList = false ∧
    sqlMatch (translate "a?[*".toList) "a?[x".toList = true := by decide

/-- The task / cycle condition of the query (pattern operator when the text contains `*`,
`==` otherwise) is the `*`-wildcard relation. -/
theorem field_filter_exact (pat s : Str) : fieldFilter pat s = starMatch pat s :=
  fieldFilter_eq pat s

example : fieldFilter "FOO_1".toList "foo_1".toList = false ∧ fieldFilter "f*".toList "foo_1".toList = true := by decide

/-- A query that is not rejected returns exactly the recorded rows selected by the specification:
name and cycle match under `starMatch`, the status / output selector matches, the row has a status,
and its flow set contains the requested flow. -/
theorem query_exact (db : Db) (q : Query) (h : pollingError q = false) :
    query db q = .rows (Spec.rows db q) := by
  have e1 : stateRowOk q = Spec.stateRowOk q := funext (stateRowOk_eq q)
  have e2 : outRowOk q = Spec.outRowOk q := funext (outRowOk_eq q)
  unfold query Spec.rows
  simp only [h, e1, e2]
  cases q.mode <;> simp

example : pollingError ⟨some "foo_*".toList, some "1".toList, some "succeeded", .status, some 1⟩ = false := by decide

/-- Flow filtering: a recorded row selected for a query that asks for flow `n` is in flow `n`. -/
theorem flow_filter (q : Query) (n : Int) (hq : q.flow = some n) :
    (∀ r : StateRow, Spec.stateRowOk q r = true → n ∈ r.flows) ∧
    (∀ r : OutRow, Spec.outRowOk q r = true → n ∈ r.flows) := by
  constructor
  · intro r h
    simp only [Spec.stateRowOk, Bool.and_eq_true, flowOk, hq] at h
    simpa using h.2
  · intro r h
    simp only [Spec.outRowOk, Bool.and_eq_true, flowOk, hq] at h
    simpa using h.1.2

example : Spec.stateRowOk ⟨none, none, none, .status, some 2⟩ ⟨"a".toList, "1".toList, [1, 2], 1, some "failed"⟩ = true := by
  decide

/-- Why the unrepaired translation (`*` → `%`, operator `LIKE`) does not satisfy the property:
`_` is a LIKE wildcard (and ASCII case is folded), so `foo_*` selects `fooX1`. -/
theorem like_percent_counterexample :
    ¬ ∀ pat s : Str, likeMatch (pat.map fun c => if c = '*' then '%' else c) s = starMatch pat s := by
  intro h
  have := h "foo_*".toList "fooX1".toList
  revert this
  decide

end CylcModel.C40
