/-
C08 — Flow numbers propagate, merge and are never reused.  Component level (`FlowMgr` + the
`workflow_flows` table): "A new flow started by command always gets a number never used before
in the workflow's history, including across restarts."

Statements are over **all** histories of `get_flow()` / `get_flow(n)` / `cli_to_flow_nums(...)` /
clean restart with an arbitrary pool, of any length, with arbitrary integers. The judge
`Flow.Spec.judge` (the property on observed answers) is proved to accept every run of the model.
Helper lemmas: `CylcModel/FlowLemmas.lean`.

The parts of C08 about children inheriting / merging flows and not re-running a task live in
`TaskPool` and are lifted at the scheduler level (not here).
-/
import CylcModel.FlowLemmas
namespace CylcModel.C08
open CylcModel.Flow

/-- **fresh_flow.** Over every history (any length, any integers, any restarts with any pool), no
`new` flow of the model ever gets a number that was returned or named before, and the answers
always have the right shape: the only way the judge can reject a run of the model is the
`TypeError` of a manager that was restarted before any flow existed. -/
theorem fresh_flow (ops : List Op) (f : Spec.Fail)
    (h : Spec.judge ops (run init ops) = .error f) : ∃ k, f = .noNumber k true :=
  run_accepted ops init {} 0 inv_init f h

/-- **new_gets_number.** When a flow exists before the first restart (always so in the scheduler),
or when the code falls back to a number on an empty table, the judge accepts the whole run:
every new flow gets a number, and a fresh one. -/
theorem new_gets_number (ops : List Op)
    (h : emptyTableCounter ≠ none ∨ flowBeforeRestart ops = true) :
    Spec.judge ops (run init ops) = .ok () := by
  apply run_ok ops init {} 0 inv_init (by simp [init])
  rcases h with h | h
  · exact Or.inl h
  · exact Or.inr (Or.inr h)

/-- The full statement without the side condition. -/
def new_gets_number_full : Prop := ∀ ops : List Op, Spec.judge ops (run init ops) = .ok ()

/-- With `counter = None` after loading an empty table (the behaviour of the unpatched code, see
findings/C08-fix-1.diff) the full statement fails: restart before any flow, then `--flow=new`. -/
theorem blank_restart_counterexample (h : emptyTableCounter = none) : ¬ new_gets_number_full := by
  intro hall
  have := hall [.restart [], .new]
  simp [Spec.judge, run, step, getNew, init, maxOf, h, Spec.runJudge, Spec.stepJudge] at this

/-- and holds once the code falls back to a number (`... or 0`) -/
theorem new_gets_number_full_of_fallback (h : emptyTableCounter ≠ none) : new_gets_number_full :=
  fun ops => new_gets_number ops (Or.inl h)

/-! ### non-vacuity -/

/-- a history that satisfies the side condition, with a manually named flow in the way of the
counter, a restart that forgets flows, and two more new flows: accepted -/
example : flowBeforeRestart [.new, .num 2, .restart [1], .new, .cli .new] = true := rfl

example : Spec.judge [.new, .num 2, .restart [1], .new, .cli .new]
    (run init [.new, .num 2, .restart [1], .new, .cli .new]) = .ok () :=
  new_gets_number _ (Or.inr rfl)

/-- the hypothesis of `fresh_flow` is met (a rejected run exists) exactly in the blank-restart case -/
example (h : emptyTableCounter = none) :
    Spec.judge [.restart [], .new] (run init [.restart [], .new]) = .error (.noNumber 1 true) := by
  simp [Spec.judge, run, step, getNew, init, maxOf, h, Spec.runJudge, Spec.stepJudge]

/-- the judge is not trivially accepting: a reused number is rejected -/
example : Spec.judge [.new, .num 2, .new] [.num 1, .num 2, .num 2] = .error (.reused 2 2) := by rfl

/-- `Inv` is satisfiable by a non-initial state -/
example : Inv { counter := some 3, flows := [3, 1], table := [3, 2, 1] } { used := [1, 2, 3], blank := false } := by
  constructor
  · decide
  · decide
  · intro n hn
    simp at hn
    rcases hn with rfl | rfl | rfl
    · left; simp
    · right; exact ⟨3, rfl, by omega⟩
    · left; simp
  · intro h; cases h

end CylcModel.C08
