/-
C32 — Clock expiry only expires eligible tasks.  (theorems: work in progress)
-/
import CylcModel.Sched3Exp
namespace CylcModel.C32
open CylcModel.Sched3Exp

theorem placeholder : True := trivial

end CylcModel.C32
