/-
C32 — Clock expiry only expires eligible tasks.

Statements over the `Sched3Exp` model (Sched2 + virtual clock + `clock_expire_tasks` / `clock_expire` /
`process_message(expired)` / spawning on the `expired` output + manual trigger of one task), for every instance
graph and every op list.  Every transition of a proxy into `expired` is recorded in `State.expLog` by the one
function that performs it (`processExpired`), with the proxy as it was immediately before and the clock; the log
of every op is compared with the expiry events of the real scheduler by the correspondence check.
Proofs by reference to `Sched3ExpLemmas*` (one lemma per primitive of the model, lifted over all op lists).
-/
import CylcModel.Sched3ExpLemmasL
import CylcModel.Sched3ExpLemmasK2
namespace CylcModel.C32
open CylcModel.Sched3Exp

/-! ### expire_guard -/

/-- **expire_guard**, full statement: in every state of every run, every expiry logged by the op that led to the
state was a *waiting*, *not manually triggered* proxy with an expiry time, and the clock had reached that time. -/
def expire_guard_full : Prop :=
  ∀ (g : Graph) (ops : List Op), ∀ s ∈ run g ops, ∀ e ∈ s.expLog, GoodEvent e

/-- **expire_guard** for histories in which no job sends the message text `expired`. -/
theorem expire_guard_partial (g : Graph) (ops : List Op) (h : NoExpiredMsg ops) :
    ∀ s ∈ run g ops, ∀ e ∈ s.expLog, GoodEvent e :=
  fun s hs => goodLog_run g ops (Or.inl h) s hs

/-- **expire_guard** holds for all histories once a job message `expired` is ignored
(`ExpFlags.jobMsgExpires = false`, probed from the live code: findings/C32-proposal-1.diff). -/
theorem expire_guard_live (h : ExpFlags.jobMsgExpires = false) : expire_guard_full :=
  fun g ops s hs => goodLog_run g ops (Or.inr h) s hs

/-- a one-cycle workflow: `a` (clock-expire, expiry time 7200) with `a:expire? => b` -/
def exGraph : Graph :=
  { icp := 1, fcp := 1, start := 1, runahead := 1, seqs := [[1]], stopPoint := some 1, now0 := 3600,
    tasks := [
      { name := "a",
        insts := [(1, { pre := [], sui := [], children := [("expired", [⟨"b", 1, false⟩])], nextParentless := none,
                        expire := some 7200 })],
        firstParentless := some 1,
        completion := CE.or (CE.var "succeeded") (CE.var "expired"),
        outputs := [⟨"expired", "expired"⟩, ⟨"succeeded", "succeeded"⟩] },
      { name := "b",
        insts := [(1, { pre := [{ atoms := [(⟨1, "a", "expired"⟩, false)], expr := none }], sui := [], children := [],
                        nextParentless := none })],
        firstParentless := none,
        completion := CE.var "succeeded",
        outputs := [⟨"succeeded", "succeeded"⟩] }] }

/-- the code as found: a job message `expired` expires a task that is *preparing*, one hour before its expiry
time (the real scheduler does the same: finding `job-message-expired`). -/
theorem expire_guard_counterexample (h : ExpFlags.jobMsgExpires = true) : ¬ expire_guard_full := by
  first
    | exact absurd h (by decide)
    | (intro hall
       have hbad : ∃ s ∈ run exGraph [.loop, .msg 1 "a" 1 "expired", .loop], ∃ e ∈ s.expLog,
           e.frm = Status.preparing ∧ e.now = 3600 ∧ e.exp = some 7200 := by decide
       obtain ⟨s, hs, e, he, hf, _, _⟩ := hbad
       have := (hall exGraph _ s hs e he).1
       rw [hf] at this
       exact absurd this (by decide))

/-- the statement about the code under test, whichever behaviour `translate()` found in it -/
theorem expire_guard_code (g : Graph) (ops : List Op)
    (h : ExpFlags.jobMsgExpires = true → NoExpiredMsg ops) : ∀ s ∈ run g ops, ∀ e ∈ s.expLog, GoodEvent e := by
  cases hf : ExpFlags.jobMsgExpires with
  | false => exact fun s hs => goodLog_run g ops (Or.inr hf) s hs
  | true => exact fun s hs => goodLog_run g ops (Or.inl (h hf)) s hs

-- non-vacuity: the clock reaches 7200, the next main loop expires the waiting 1/a (one good event) and spawns 1/b;
-- with a manual trigger in between nothing expires and 1/a is submitted
example : NoExpiredMsg [.tick 3600, .loop] ∧
    ((run exGraph [.tick 3600, .loop]).map fun s => s.expLog.map fun e => (e.pt, e.name, e.frm, e.manual)) =
      [[], [], [(1, "a", Status.waiting, false)]] ∧
    ((run exGraph [.tick 3600, .loop]).map fun s => s.expLog.map fun e => (e.exp, e.now)) =
      [[], [], [(some 7200, 7200)]] := by
  refine ⟨?_, by decide, by decide⟩
  intro p n sn t hm; simp at hm

example : ((run exGraph [.tick 3600, .trig 1 "a", .loop]).map fun s => (s.expLog.length, s.launched)) =
    [(0, []), (0, []), (0, []), (0, [(1, "a", 1)])] := by decide

/-! ### expired_never_submits -/

/-- **expired_never_submits** (state form): in every state of every run an expired proxy is not queued, not marked
for manual submission (flag, `waiting_on_job_prep`, `tasks_to_trigger_now`) - nothing that `release_tasks_to_run`
looks at can select it. -/
theorem expired_inert (g : Graph) (ops : List Op) (h : NoExpiredMsg ops ∨ ExpFlags.jobMsgExpires = false) :
    ∀ s ∈ run g ops, ∀ x ∈ s.pool, x.status = .expired →
      x.queued = false ∧ x.manual = false ∧ x.wjp = false ∧ (x.pt, x.name) ∉ s.toTrigger := by
  intro s hs x hx he
  have hinv := inv_run g ops h s hs
  obtain ⟨hq, hm, _⟩ := (hinv.1 x hx).2 he
  refine ⟨hq, hm, ?_, ?_⟩
  · cases hw : x.wjp with
    | false => rfl
    | true => have := (hinv.1 x hx).1 hw; rw [hm] at this; exact absurd this (by decide)
  · intro hk
    have := hinv.2.1 _ hk x hx rfl
    rw [hm] at this; exact absurd this (by decide)

/-- **expired_never_submits** (trace form): along every run, every job launch is recorded by a main loop, for a proxy
that was in the pool and **not expired** at the moment that loop handed it to job submission - which is after the
clock expiry of the same loop (`releasePoint` = the state after the queue sweep and `clock_expire_tasks`). -/
theorem expired_never_submits (g : Graph) (ops pre post : List Op) (op : Op)
    (h : NoExpiredMsg ops ∨ ExpFlags.jobMsgExpires = false) (he : ops = pre ++ op :: post) :
    ∀ l ∈ (step g (pre.foldl (step g) (init g)) op).launched,
      op = .loop ∧ ∃ r, releasePoint g (clearOp (pre.foldl (step g) (init g))) = some r ∧
        ∃ x ∈ r.pool, x.pt = l.1 ∧ x.name = l.2.1 ∧ x.status ≠ .expired := by
  apply step_launch_not_expired
  apply inv_foldl g pre _ (inv_init g)
  rcases h with h | h
  · exact Or.inl ⟨queueOK_init g, noExpiredMsg_prefix (he ▸ h)⟩
  · exact Or.inr h

/-- the expiry itself takes the proxy out of its queue: whatever proxy `state_reset(expired)` is applied to -/
theorem expiry_unqueues (x : Proxy) : x.expireReset.status = .expired ∧ x.expireReset.queued = false := by
  unfold Proxy.expireReset
  exact ⟨reset_status_some _ _ _ _ _, reset_queued_some _ _ _ _ _⟩

-- non-vacuity: 1/a is queued at start-up; the clock passes its expiry time; the main loop expires it and launches
-- nothing for it; it stays out of every later launch
example : ((run exGraph [.tick 3600, .loop, .loop, .loop]).map fun s => s.pool.map fun x => (x.pt, x.name, x.status)) =
      [[(1, "a", Status.waiting)], [(1, "a", Status.waiting)], [(1, "b", Status.waiting)],
       [(1, "b", Status.preparing)], [(1, "b", Status.preparing)]] ∧
    ((run exGraph [.tick 3600, .loop, .loop, .loop]).map fun s => s.launched) =
      [[], [], [], [(1, "b", 1)], []] ∧
    ((run exGraph [.tick 3600, .loop, .loop, .loop]).map fun s => s.expLog.map fun e => (e.pt, e.name, e.queued)) =
      [[], [], [(1, "a", true)], [], []] := by
  refine ⟨by decide, by decide, by decide⟩

/-! ### expire_children -/

/-- **expire_children**, upper bound, for every state and every pooled proxy: after the `expired` output of the
proxy is processed, every key in the pool was in the pool before, or is a child of that output in the graph, or is the
next parentless instance of a proxy removed meanwhile (a child with a suicide trigger on the output). -/
theorem expire_children_only (g : Graph) (s : State) (x x0 : Proxy) (hx : s.get? x.pt x.name = some x0) :
    ∀ z ∈ (processExpired g s x false).pool,
      (z.pt, z.name) ∈ keysOf s.pool ∨
      (z.pt, z.name) ∈ (childrenOf g x "expired").map (fun c => (c.pt, c.name)) ∨
      ∃ y ∈ (processExpired g s x false).ghosts, y.name = z.name ∧ nextParentless g y = some z.pt :=
  fun z hz => processExpired_keys g s x x0 hx z hz

/-- **expire_children**, lower bound, one child at a time: after the step of `spawn_on_output` that handles child `c`
of the `expired` output of `(p, n)`, every proxy in the pool under the key of `c` - found there, or just spawned -
has all its prerequisite atoms (ordinary and suicide) on that output satisfied. -/
theorem expire_children_satisfied (g : Graph) (p : Int) (n : String) (acc : State × List (Int × String)) (c : Child) :
    ∀ z ∈ (spawnChild g p n "expired" acc c).1.pool, z.pt = c.pt → z.name = c.name →
      AtomSat z ⟨p, n, "expired"⟩ :=
  spawnChild_sat g p n "expired" acc c

/-- **expire_children** along runs, no hypothesis on the history: every expiry event of every run (of a proxy that
was still in the pool) reports as *added to the pool* only children of the `expired` output of the expired instance,
or the next parentless instance of a task that the same event reports as *removed*. -/
theorem expire_children_logged (g : Graph) (ops : List Op) :
    ∀ s ∈ run g ops, ∀ e ∈ s.expLog, e.tr = false → ∀ k ∈ e.added,
      k ∈ kidsAt g e.pt e.name ∨ ∃ r ∈ e.removed, r.2 = k.2 ∧ nextParentlessAt g r = some k.1 :=
  fun s hs e he => goodKids_run g ops s hs e he

-- non-vacuity: the expiry of 1/a spawns exactly its expire child 1/b, with the prerequisite on 1/a:expired satisfied
example : ((run exGraph [.tick 3600, .loop]).map fun s => s.pool.map fun x => (x.pt, x.name, x.prereqsSatisfied)) =
      [[(1, "a", true)], [(1, "a", true)], [(1, "b", true)]] ∧
    ((run exGraph [.tick 3600, .loop]).map fun s => s.expLog.map fun e => e.added) = [[], [], [[(1, "b")]]] ∧
    ((run exGraph [.tick 3600, .loop]).map fun s => s.expLog.map fun e => e.sat) = [[], [], [[(1, "b")]]] ∧
    ((run exGraph [.tick 3600, .loop]).map fun s => s.expLog.map fun e => e.removed) = [[], [], [[(1, "a")]]] := by
  refine ⟨by decide, by decide, by decide, by decide⟩

end CylcModel.C32
