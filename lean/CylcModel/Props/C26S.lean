import CylcModel.Sched3SetLemmas
namespace CylcModel.C26S
end CylcModel.C26S
