/-
C26 on the `Sched3Set` model (check C26S) — task pool bookkeeping is internally consistent in runs with
`cylc set` (outputs / prerequisites on pooled, inactive, future, finished and leaf instances), several flows, flow
merges, flow wait and stop + restart.  Statements only; proofs by reference to `Sched3SetNoDup` / `Sched3SetNoDup2`
(one lemma per primitive of the model, lifted over all op lists).
-/
import CylcModel.Sched3SetNoDup2
namespace CylcModel.C26S
open CylcModel.Sched3Set

theorem pinv_true : PInv (fun _ _ => True) :=
  ⟨fun _ _ _ _ _ _ _ => trivial, fun _ _ _ _ _ => trivial, fun _ _ => trivial, fun _ _ _ => trivial⟩

/-- **No two proxies for one (cycle point, task name)** in every state of every run of the `Sched3Set` model — any
instance graph, any list of main loops, submit results, job messages, hold / release / hold-point / stop / pause
commands, `cylc set` commands (outputs or prerequisites, any --flow option, --wait, on pooled or inactive instances)
and restarts. -/
theorem pool_no_duplicates (g : Graph) (ops : List Op) :
    ∀ s ∈ run g ops, ((s.pool.map fun x => (x.pt, x.name)).Nodup) := by
  intro s hs
  exact (inv_run pinv_true g ops s hs).1

/-- the invariant is inductive: **every operation keeps it from any state that has it** (not only from reachable
states) — in particular `cylc set` on an instance that is not in the pool, and a restart -/
theorem step_keeps_no_duplicates (g : Graph) (s : State) (op : Op) (h : ND s) : ND (step g s op) :=
  (inv_step pinv_true g s op ⟨h, fun _ _ => trivial⟩).1

theorem set_keeps_no_duplicates (g : Graph) (s : State) (id : Int × String) (outs : List String) (pre : PreSpec)
    (flow : FlowSpec) (wait : Bool) (h : ND s) : ND (setCmd g s id outs pre flow wait) :=
  (inv_setCmd pinv_true g id outs pre flow wait ⟨h, fun _ _ => trivial⟩).1

theorem merge_keeps_no_duplicates (g : Graph) (s : State) (x : Proxy) (f : Flows) (h : ND s) : ND (mergeFlows g s x f) :=
  (inv_mergeFlows pinv_true g x f ⟨h, fun _ _ => trivial⟩).1

theorem restart_keeps_no_duplicates (g : Graph) (s : State) (h : ND s) : ND (restart g s) :=
  (inv_restart pinv_true g ⟨h, fun _ _ => trivial⟩).1

/-- `add_to_pool` of an instance whose key is in the pool changes nothing (the second proxy object is dropped) -/
theorem add_present_noop (s : State) (x : Proxy) (h : (s.get? x.pt x.name).isSome = true) : s.add x = s := by
  unfold State.add
  rw [h]; rfl

/-- **every look-up finds the filed proxy itself**: with no duplicates, the proxy the pool returns for the key of a
pooled proxy `x` (the model's `_get_task_by_id` / `get_task`) is `x` -/
theorem lookup_returns_filed (s : State) (x : Proxy) (h : ND s) (hx : x ∈ s.pool) : s.get? x.pt x.name = some x := by
  have key : ∀ (l : List Proxy), (l.map Proxy.key).Nodup → x ∈ l →
      l.find? (fun y => y.pt == x.pt && y.name == x.name) = some x := by
    intro l
    induction l with
    | nil => intro _ hx; cases hx
    | cons y ys ih =>
      intro hn hx
      simp only [List.map_cons, List.nodup_cons] at hn
      rcases List.mem_cons.mp hx with rfl | hx'
      · simp [List.find?]
      · have hne : (y.pt == x.pt && y.name == x.name) = false := by
          cases hc : (y.pt == x.pt && y.name == x.name) with
          | false => rfl
          | true =>
            simp only [Bool.and_eq_true, beq_iff_eq] at hc
            exfalso
            apply hn.1
            have : y.key = x.key := by unfold Proxy.key; rw [hc.1, hc.2]
            rw [this]
            exact List.mem_map.mpr ⟨x, hx', rfl⟩
        simp only [List.find?, hne]
        exact ih hn.2 hx'
  exact key s.pool h hx

/-- in every state of every run each pooled proxy is what the pool returns for its key -/
theorem lookup_consistent (g : Graph) (ops : List Op) :
    ∀ s ∈ run g ops, ∀ x ∈ s.pool, s.get? x.pt x.name = some x := by
  intro s hs x hx
  exact lookup_returns_filed s x (inv_run pinv_true g ops s hs).1 hx

/-- **The `task_pool` table is exactly the pool after a main-loop iteration** (unless that iteration shut the
scheduler down): status, flows and held state included, since the rows *are* the proxies. -/
theorem db_pool_exact (g : Graph) (s : State) (h : (mainLoop g s).stop = none) (h0 : s.stop = none) :
    (mainLoop g s).db = some (mainLoop g s).pool := by
  have hcs : ∀ t : State, t.db = some t.pool → (checkStalled g t).db = some (checkStalled g t).pool := by
    intro t ht
    unfold checkStalled
    split
    · exact ht
    · split
      · exact ht
      · split
        · exact ht
        · exact ht
  have hfin : ∀ t : State, (finishLoop g t).db = some (finishLoop g t).pool := by
    intro t
    unfold finishLoop
    dsimp only
    generalize (if t.pool.any (·.upd) = true then { t with restartWait := false } else t) = s1
    generalize (if (t.schedUpd || t.pool.any (·.upd)) = true then
        { putTaskPool s1 with stalled := false, schedUpd := false,
                              pool := (putTaskPool s1).pool.map fun x => { x with upd := false } }
      else s1) = s2
    split
    · apply hcs; rfl
    · rfl
  have hcan : ∀ t : State, canStop t = true → t.stopMode.isSome = true := by
    intro t ht
    unfold canStop at ht
    split at ht
    · cases ht
    · rename_i heq; rw [heq]; rfl
  unfold mainLoop at h ⊢
  split at h
  · rename_i hs; rw [h0] at hs; cases hs
  · split
    · rename_i hs; rw [h0] at hs; cases hs
    · dsimp only at h ⊢
      generalize (releaseRunahead g (computeRunahead g s)).1 = s1 at h ⊢
      generalize (if s1.stopMode.isNone = true then
          (if (stopTaskDone s1).2 = true then { (stopTaskDone s1).1 with stopMode := some "AUTOMATIC" }
           else if (checkAutoShutdown g (stopTaskDone s1).1).2 = true then
             { (checkAutoShutdown g (stopTaskDone s1).1).1 with stopMode := some "AUTOMATIC" }
           else (checkAutoShutdown g (stopTaskDone s1).1).1)
        else s1) = s2 at h ⊢
      split at h
      · rename_i hc
        have := hcan s2 hc
        simp only at h
        rw [h] at this
        cases this
      · rename_i hc
        simp only [hc]
        exact hfin _

/-! ### non-vacuity -/

def stdOut : List OutDef :=
  [⟨"submitted", "submitted"⟩, ⟨"started", "started"⟩, ⟨"succeeded", "succeeded"⟩, ⟨"failed", "failed"⟩]

/-- `a => b` at cycle points 1..2, `b` a leaf -/
def exG : Graph :=
  { icp := 1, fcp := 2, start := 1, runahead := 1, seqs := [[1, 2]], stopPoint := some 2,
    tasks := [
      { name := "a",
        insts := [(1, { pre := [], sui := [], children := [("succeeded", [⟨"b", 1, false⟩])], nextParentless := some 2 }),
                  (2, { pre := [], sui := [], children := [("succeeded", [⟨"b", 2, false⟩])], nextParentless := none })],
        firstParentless := some 1, completion := CE.var "succeeded", outputs := stdOut, required := ["succeeded"] },
      { name := "b",
        insts := [(1, { pre := [{ atoms := [(⟨1, "a", "succeeded"⟩, false)], expr := none }], sui := [], children := [],
                        nextParentless := none, validPre := [⟨1, "a", "succeeded"⟩] }),
                  (2, { pre := [{ atoms := [(⟨2, "a", "succeeded"⟩, false)], expr := none }], sui := [], children := [],
                        nextParentless := none, validPre := [⟨2, "a", "succeeded"⟩] })],
        firstParentless := none, completion := CE.var "succeeded", outputs := stdOut, required := ["succeeded"] }] }

-- `cylc set --out=succeeded 2/b` (inactive leaf, nothing pooled at its point... 2/a is), then `--pre=all 2/b` twice in
-- two flows (the second merges), then stop + restart: four distinct keys, the merged flows survive
example : ((run exG [.set [(2, "b")] ["succeeded"] .none .default false,
                     .set [(2, "b")] [] .all (.nums [2]) true,
                     .set [(2, "b")] [] .all (.nums [3]) false,
                     .stop "REQUEST(NOW-NOW)", .loop, .restart]).getLast?.map fun s =>
    s.pool.map fun x => (x.pt, x.name, x.flows)) = some [(1, "a", [1]), (2, "a", [1]), (2, "b", [2, 3])] := by
  decide

example : (mainLoop exG (init exG)).stop = none ∧
    ((mainLoop exG (init exG)).db.map fun l => l.map fun x => (x.pt, x.name, x.status)) =
      some [(1, "a", Status.preparing), (2, "a", Status.preparing)] := by decide

end CylcModel.C26S
