/-
C05 — Internal queue limits are never exceeded (component level: `IndepQueueManager` /
`LimitedTaskQueue`).

"Each task name belongs to exactly one internal queue (the last queue that lists it, else the
default queue), and a queue never releases a task while the number of its [active] members is at
its limit. Queued tasks are released in the order they were queued, skipping held ones; only
manual triggering may exceed a limit."

Statements are for **all** configurations (any number of queues, overlapping member lists, nested
families, any limits), all task tables and all operation histories of any length
(push / push-if-limited / release with an arbitrary counter / remove / hold / unhold / adopt).
`Queue.Spec.judge` is the property as an executable predicate over observations; it is proved to
accept every run of the model (refinement). Helper lemmas: `CylcModel/QueueLemmas.lean`.

The model is parametrised by what `release` does with held tasks it skipped (`HeldPolicy`); the
policy of the code under test is read off the live code into `Generated/QueueConsts.lean`
(`heldRotates`, `codePolicy`).

Scheduler-level part of C05 (who counts what as active, manual trigger) is lifted through `Sched`.
-/
import CylcModel.QueueLemmas
namespace CylcModel.C05
open CylcModel.Queue

deriving instance DecidableEq for Except

/-! ### membership -/

/-- **membership_partition.** For every configuration in which "default" is iterated first (parsec
always yields it first), with distinct queue names, and every family tree in which task names are
not family names: `IndepQueueManager.__init__` keeps the queues of the configuration in order, and
every task name is a member of exactly one queue — the last non-default queue that lists it
(directly or through a family), else "default". -/
theorem membership_partition (cfg : List QCfg) (all : List Name) (desc : Desc) (qs : List LQ)
    (wf : WfCfg cfg all desc) (hmk : mk cfg all desc = some qs) :
    qs.map (·.name) = cfg.map (·.name) ∧ qs.map (·.limit) = cfg.map (·.limit) ∧
    ∀ n ∈ all, ∃ q ∈ qs, q.name = Spec.expectedQueue cfg all desc n ∧ n ∈ q.members ∧
      ∀ q' ∈ qs, n ∈ q'.members → q' = q := by
  rcases mk_spec cfg all desc qs wf hmk with ⟨shape, _, hmem⟩
  have qnames : qs.map (·.name) = cfg.map (·.name) := by
    have := congrArg (List.map (fun t : Name × Nat × List Nat => t.1)) shape
    simpa [List.map_map, Function.comp_def] using this
  have qlimits : qs.map (·.limit) = cfg.map (·.limit) := by
    have := congrArg (List.map (fun t : Name × Nat × List Nat => t.2.1)) shape
    simpa [List.map_map, Function.comp_def] using this
  refine ⟨qnames, qlimits, ?_⟩
  intro n hn
  have hin : Spec.expectedQueue cfg all desc n ∈ qs.map (·.name) := by
    rw [qnames]; exact expectedQueue_mem cfg all desc n wf.head
  rcases List.mem_map.1 hin with ⟨q, hq, hqn⟩
  refine ⟨q, hq, hqn, (hmem q hq n).2 ⟨hn, hqn⟩, ?_⟩
  intro q' hq' hn'
  have := (hmem q' hq' n).1 hn'
  exact eq_of_name_eq (by rw [qnames]; exact wf.names) hq' hq (this.2.trans hqn.symm)

/-- no queue has a member that is not a task name -/
theorem members_are_tasks (cfg : List QCfg) (all : List Name) (desc : Desc) (qs : List LQ)
    (wf : WfCfg cfg all desc) (hmk : mk cfg all desc = some qs) :
    ∀ q ∈ qs, ∀ x ∈ q.members, x ∈ all := by
  rcases mk_spec cfg all desc qs wf hmk with ⟨_, _, hmem⟩
  intro q hq x hx
  exact ((hmem q hq x).1 hx).1

/-- The partition statement without "default first". -/
def membership_partition_any_order : Prop :=
  ∀ (cfg : List QCfg) (all : List Name) (desc : Desc) (qs : List LQ),
    (cfg.map (·.name)).Nodup → (∀ n ∈ all, isFam desc n = false) → mk cfg all desc = some qs →
    ∀ n ∈ all, ∀ q ∈ qs, n ∈ q.members → q.name = Spec.expectedQueue cfg all desc n

/-- `_make_indep` relies on "default" being iterated first: written after another queue (in a plain
dict; parsec never does this), a task listed in that queue stays in "default" as well. -/
theorem default_not_first_counterexample (h : qDefault = "default") : ¬ membership_partition_any_order := by
  intro hall
  have := hall [⟨"q", 1, ["a"]⟩, ⟨"default", 0, []⟩] ["a"] []
    [⟨"q", 1, ["a"], []⟩, ⟨"default", 0, ["a"], []⟩]
    (by decide) (by decide) (by rw [mk, h]; decide) "a" (by simp) ⟨"default", 0, ["a"], []⟩ (by simp) (by simp)
  revert this
  rw [Spec.expectedQueue, h]
  decide

/-! ### one `release` call of one queue, any state -/

/-- **release_limit.** A limited queue releases nothing when its active members are at (or above)
the limit, and never releases past the limit: `active + released ≤ max(limit, active)`. Any deque,
any held set, any counter, either policy. -/
theorem release_limit (pol : HeldPolicy) (isHeld : Nat → Bool) (nameOf : Nat → Name) (q : LQ) (a : Active)
    (hL : q.limit ≠ 0) :
    (q.limit ≤ nActive a q.members → (releaseQ pol isHeld nameOf q a).2.1 = []) ∧
    nActive a q.members + (releaseQ pol isHeld nameOf q a).2.1.length ≤ max q.limit (nActive a q.members) := by
  have := releaseLoop_limit q.limit hL isHeld nameOf q.deque (nActive a q.members) a
  refine ⟨?_, this⟩
  intro hge
  have hlen : (releaseQ pol isHeld nameOf q a).2.1.length = 0 := by
    simp only [releaseQ]
    omega
  exact List.eq_nil_of_length_eq_zero hlen

/-- **release_order.** What one call releases is a prefix of the non-held tasks of the deque in
deque order (head = oldest); held tasks are never released; nothing is invented. -/
theorem release_order (pol : HeldPolicy) (isHeld : Nat → Bool) (nameOf : Nat → Name) (q : LQ) (a : Active) :
    Spec.isPrefix (releaseQ pol isHeld nameOf q a).2.1 (q.deque.filter fun t => !isHeld t) = true ∧
    (∀ t ∈ (releaseQ pol isHeld nameOf q a).2.1, isHeld t = false ∧ t ∈ q.deque) := by
  rcases releaseLoop_split q.limit isHeld nameOf q.deque (nActive a q.members) a with ⟨P, S, h1, h2, _, _⟩
  simp only [releaseQ]
  rw [h2, h1, List.filter_append]
  refine ⟨isPrefix_append _ _, ?_⟩
  intro t ht
  have := List.mem_filter.1 ht
  exact ⟨by simpa using this.2, List.mem_append_left _ this.1⟩

/-- a queue without limit releases every non-held task -/
theorem release_unlimited (pol : HeldPolicy) (isHeld : Nat → Bool) (nameOf : Nat → Name) (q : LQ) (a : Active)
    (hL : q.limit = 0) :
    (releaseQ pol isHeld nameOf q a).2.1 = q.deque.filter fun t => !isHeld t := by
  have : ∀ (dq : List Nat) (n : Nat) (a : Active),
      (releaseLoop 0 isHeld nameOf dq n a).released = dq.filter fun t => !isHeld t := by
    intro dq
    induction dq with
    | nil => intro n a; rfl
    | cons t ts ih =>
      intro n a
      simp only [releaseLoop, beq_self_eq_true, Bool.true_or, if_true]
      by_cases hh : isHeld t = true
      · simp [hh, ih]
      · simp [hh, ih]
  simp only [releaseQ, hL]
  exact this _ _ _

/-! ### whole histories: the judge accepts the model (refinement) -/

/-- **limit_and_order_keep (full statement, policy `keep`).** For every well-formed configuration,
every task table and every well-formed history of any length, the property judge accepts the
model that leaves skipped held tasks in place: membership is the partition above; every release
stays within every queue's limit given the counter handed in; released tasks are exactly a prefix
of the queue's non-held tasks in the order they were queued, across holds, removals, manual
queueing and adoptions; nothing is released twice or after removal. -/
theorem limit_and_order_keep (i : Spec.Input) (qs : List LQ)
    (wf : WfCfg i.cfg i.allTasks i.desc) (hmk : mk i.cfg i.allTasks i.desc = some qs)
    (hops : Spec.wfOps i.allTasks i.names ([], []) i.ops = true) :
    Spec.judge i (obsQueues qs) (run .keep i.names { queues := qs, held := [] } i.ops) = .ok () :=
  judge_accepts .keep i qs wf hmk hops (Or.inl rfl)

/-- **limit_and_order_partial (either policy, no holds).** Same statement for the model with the
policy of the code as it is (`rotate`: skipped held tasks are re-queued at the newest end),
restricted to histories in which no task is ever held. Missing for the full statement: order
after a queued task was held during a release — see `order_rotate_counterexample`. -/
theorem limit_and_order_partial (pol : HeldPolicy) (i : Spec.Input) (qs : List LQ)
    (wf : WfCfg i.cfg i.allTasks i.desc) (hmk : mk i.cfg i.allTasks i.desc = some qs)
    (hops : Spec.wfOps i.allTasks i.names ([], []) i.ops = true) (hnohold : noHold i.ops = true) :
    Spec.judge i (obsQueues qs) (run pol i.names { queues := qs, held := [] } i.ops) = .ok () :=
  judge_accepts pol i qs wf hmk hops (Or.inr hnohold)

/-- The full statement for a policy. -/
def limit_and_order_full (pol : HeldPolicy) : Prop :=
  ∀ (i : Spec.Input) (qs : List LQ), WfCfg i.cfg i.allTasks i.desc → mk i.cfg i.allTasks i.desc = some qs →
    Spec.wfOps i.allTasks i.names ([], []) i.ops = true →
    Spec.judge i (obsQueues qs) (run pol i.names { queues := qs, held := [] } i.ops) = .ok ()

theorem limit_and_order_full_keep : limit_and_order_full .keep :=
  fun i qs wf hmk hops => limit_and_order_keep i qs wf hmk hops

/-- the witness of the recorded finding `held-requeue-order`: limit 1; a, b, c queued; a held
during the first release; after "unhold a" the next release gives c instead of a -/
def witness : Spec.Input :=
  { cfg := [⟨"default", 1, []⟩], allTasks := ["a", "b", "c"], desc := [("root", ["a", "b", "c"])],
    names := ["a", "b", "c"],
    ops := [.push 0, .push 1, .push 2, .hold 0, .release [], .unhold 0, .release [], .release []] }

/-- **order_rotate_counterexample.** With the `rotate` policy (the unpatched code) the full
statement is false: the judge rejects the run on `witness` (queued order violated at the second
release). -/
theorem order_rotate_counterexample (h : qDefault = "default") : ¬ limit_and_order_full .rotate := by
  intro hall
  have := hall witness [⟨"default", 1, ["a", "b", "c"], []⟩]
    ⟨by rw [h]; decide, by decide, by decide⟩ (by rw [mk, h]; decide) (by decide)
  revert this
  unfold Spec.judge Spec.checkMembership Spec.expectedQueue
  rw [h]
  decide

/-- **code_as_probed.** The statement about the code under test, whichever policy `translate()`
found in it: full when it keeps held tasks in place (`heldRotates = false`, i.e. after
findings/C05-fix-1.diff), restricted to hold-free histories otherwise. -/
theorem code_as_probed (i : Spec.Input) (qs : List LQ)
    (wf : WfCfg i.cfg i.allTasks i.desc) (hmk : mk i.cfg i.allTasks i.desc = some qs)
    (hops : Spec.wfOps i.allTasks i.names ([], []) i.ops = true) (h : heldRotates = false ∨ noHold i.ops = true) :
    Spec.judge i (obsQueues qs) (run codePolicy i.names { queues := qs, held := [] } i.ops) = .ok () := by
  apply judge_accepts codePolicy i qs wf hmk hops
  rcases h with h | h
  · left; simp [codePolicy, h]
  · exact Or.inr h

/-! ### non-vacuity -/

/-- a well-formed configuration with overlapping memberships through a nested family -/
def exCfg : List QCfg := [⟨"default", 2, []⟩, ⟨"big", 1, ["FAM", "x"]⟩, ⟨"sml", 2, ["b", "nosuch"]⟩]
def exAll : List Name := ["a", "b", "x", "y"]
def exDesc : Desc := [("root", ["FAM", "SUB", "a", "b", "x", "y"]), ("FAM", ["SUB", "a", "b"]), ("SUB", ["b"])]

example (h : qDefault = "default") : WfCfg exCfg exAll exDesc :=
  ⟨by rw [h]; decide, by decide, by decide⟩

/-- `a` (via FAM) and `x` end in `big`, `b` (listed by FAM and by `sml`) in the later `sml`, `y` in default -/
example (h : qDefault = "default") : mk exCfg exAll exDesc =
    some [⟨"default", 2, ["y"], []⟩, ⟨"big", 1, ["a", "x"], []⟩, ⟨"sml", 2, ["b"], []⟩] := by
  rw [mk, h]; decide

/-- a well-formed history with a hold, a manual queueing, a removal and an adoption -/
example : Spec.wfOps exAll ["a", "b", "x", "orphan"] ([], [])
    [.push 0, .push 1, .hold 0, .release [("a", 1)], .pushIfLimited 2 [("x", 1)],
     .remove 1, .push 1, .adopt ["orphan"], .push 3, .unhold 0, .release []] = true := by decide

example : noHold [.push 0, .push 1, .release [("a", 1)], .unhold 0, .release []] = true := by decide

/-- `release_limit` / `release_order` on a state where both the limit and a held task bite:
limit 2, one active, deque 5(held) 6 7 → releases 6 only -/
example : (releaseQ .rotate (fun t => t == 5) (fun _ => "a") ⟨"q", 2, ["a"], [5, 6, 7]⟩ [("a", 1)]).2.1 = [6] := by
  decide

/-- the judge is not trivially accepting: it rejects an over-limit release -/
example (h : qDefault = "default") :
    Spec.judge { witness with ops := [.push 0, .push 1, .release []] }
      [("default", ["a", "b", "c"])] [.unit, .unit, .ids [0, 1]]
      = .error (.overLimit 2 "default" 0 2 1) := by
  unfold Spec.judge Spec.checkMembership Spec.expectedQueue
  rw [h]
  decide

end CylcModel.C05
