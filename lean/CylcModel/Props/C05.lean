/-
C05 — Internal queue limits are never exceeded. (placeholder while the model is being tied)
-/
import CylcModel.Queue
namespace CylcModel.C05
end CylcModel.C05
