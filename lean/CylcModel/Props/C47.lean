/-
C47 — Platform and host selection avoids unreachable hosts.

"Selecting a host for a platform never returns a host known to be unreachable while the platform has
another host, and selecting a platform from a group never returns a platform all of whose hosts are
unreachable while another member has a reachable host; only when none remain is a
no-hosts/no-platforms error raised. A platform name resolves to the last-defined platform whose name
pattern fully matches it."

Statements are for **all** platform / group definition lists (any number, any order), all host
lists, all bad-host sets, all match relations (`Env.pm`, `Env.gm`: regex matching is an input of
the model), all selection methods and all random streams `cs` (`random.choice` is an input).
"Last-defined" is spelled out on indices: `i` matches and no `j > i` does.

Model: `CylcModel/Platform.lean`; helper lemmas: `CylcModel/PlatformLemmas.lean`.  The behaviour flag
`lhGuardPrefix` is probed from the live code into `Generated/PlatformCfg.lean`.
-/
import CylcModel.PlatformLemmas
namespace CylcModel.C47
open CylcModel.Platform

deriving instance DecidableEq for Except

/-! ### hosts of a platform -/

/-- **host_not_bad.** Whatever the selection method and the random stream, a host returned by
`get_host_from_platform` is one of the platform's hosts and is not in the bad-host set. -/
theorem host_not_bad (hosts : List Host) (method : String) (bad : List Host) (cs cs' : List Nat) (h : Host)
    (hr : getHost hosts method bad cs = .ok (h, cs')) : h ∈ hosts ∧ h ∉ bad := by
  unfold getHost at hr
  cases hg : goodHosts hosts bad with
  | nil => rw [hg] at hr; cases hr
  | cons x xs =>
    rw [hg] at hr
    have hm : h ∈ goodHosts hosts bad := by rw [hg]; exact pick_mem hr
    exact mem_goodHosts.1 hm

/-- **no_hosts_only_when_none.** `NoHostsError` is raised exactly when every host of the platform is
in the bad-host set. -/
theorem no_hosts_only_when_none (hosts : List Host) (method : String) (bad : List Host) (cs : List Nat) :
    getHost hosts method bad cs = .error .noHosts ↔ ∀ h ∈ hosts, h ∈ bad := by
  unfold getHost
  cases hg : goodHosts hosts bad with
  | nil =>
    simp only [true_iff]
    intro h hh
    by_cases hb : h ∈ bad
    · exact hb
    · have : h ∈ goodHosts hosts bad := mem_goodHosts.2 ⟨hh, hb⟩
      rw [hg] at this; cases this
  | cons x xs =>
    have hx : x ∈ hosts ∧ x ∉ bad := mem_goodHosts.1 (by rw [hg]; simp)
    constructor
    · intro h
      have := (pick_error h).1
      cases this
    · intro h; exact absurd (h x hx.1) hx.2

/-- **host_selected_when_available.** With a supported selection method, a platform that has a host
outside the bad-host set always yields a host (no error). -/
theorem host_selected_when_available (hosts : List Host) (method : String) (bad : List Host) (cs : List Nat)
    (hm : methodKind method ≠ none) (hex : ∃ h ∈ hosts, h ∉ bad) :
    ∃ h cs', getHost hosts method bad cs = .ok (h, cs') := by
  unfold getHost
  rcases hex with ⟨h, h1, h2⟩
  cases hg : goodHosts hosts bad with
  | nil => have : h ∈ goodHosts hosts bad := mem_goodHosts.2 ⟨h1, h2⟩; rw [hg] at this; cases this
  | cons x xs => exact pick_ok_of_supported x xs cs hm

/-! ### platforms of a group -/

/-- **group_never_selects_dead.** `get_platform_from_group`, for a group whose members are platform
names (none of them is itself matched by a group pattern): the selected name is a member of the
group, and when there are bad hosts the platform it resolves to keeps a host outside the bad set. -/
theorem group_never_selects_dead (e : Env) (G : GroupDef) (bad : List Host) (cs cs' : List Nat) (n : Name)
    (flat : ∀ m ∈ G.members, FlatName e m) (hr : groupFrom e G bad cs = .ok (n, cs')) :
    n ∈ G.members ∧ (bad ≠ [] → ∃ p, platformLookup e n = .ok p ∧ ∃ h ∈ p.hosts, h ∉ bad) := by
  unfold groupFrom at hr
  by_cases hb : bad.isEmpty = true
  · have hbe : bad = [] := List.isEmpty_iff.1 hb
    simp only [hb, if_true] at hr
    cases hmem : G.members with
    | nil => rw [hmem] at hr; simp [resolveAll] at hr
    | cons x xs =>
      rw [hmem] at hr
      simp only at hr
      exact ⟨pick_mem hr, fun h => absurd hbe h⟩
  · simp only [hb] at hr
    cases hra : resolveAll e G.members cs with
    | error x => rw [hra] at hr; cases hr
    | ok v =>
      rcases v with ⟨ms, cs1⟩
      rw [hra] at hr
      simp only [Bool.false_eq_true, if_false] at hr
      rcases resolveAll_flat G.members cs ms cs1 flat hra with ⟨_, hnames, hlook⟩
      cases hal : aliveNames ms bad with
      | nil =>
        rw [hal] at hr
        simp only at hr
        cases hr2 : resolveAll e G.members cs1 with
        | error x => rw [hr2] at hr; cases hr
        | ok v2 => rw [hr2] at hr; cases hr
      | cons y ys =>
        rw [hal] at hr
        simp only at hr
        have hn : n ∈ aliveNames ms bad := by rw [hal]; exact pick_mem hr
        rcases mem_aliveNames.1 hn with ⟨hs, hin, hgood⟩
        refine ⟨?_, fun _ => ?_⟩
        · rw [← hnames]; exact List.mem_map.2 ⟨(n, hs), hin, rfl⟩
        · rcases hlook (n, hs) hin with ⟨p, hp, hph⟩
          exact ⟨p, hp, by rw [hph]; exact hgood⟩

/-- **no_platforms_only_when_none.** `NoPlatformsError` from a group of platform names means that no
member keeps a host outside the bad set (every member that resolves has all its hosts in `bad`). -/
theorem no_platforms_only_when_none (e : Env) (G : GroupDef) (bad : List Host) (cs : List Nat) (c : List Host)
    (flat : ∀ m ∈ G.members, FlatName e m) (hr : groupFrom e G bad cs = .error (.noPlatforms c)) :
    ∀ m ∈ G.members, ∀ p, platformLookup e m = .ok p → ∀ h ∈ p.hosts, h ∈ bad := by
  unfold groupFrom at hr
  by_cases hb : bad.isEmpty = true
  · simp only [hb, if_true] at hr
    cases hmem : G.members with
    | nil => intro m hm; cases hm
    | cons x xs =>
      rw [hmem] at hr
      simp only at hr
      have := (pick_error hr).1
      cases this
  · simp only [hb] at hr
    cases hra : resolveAll e G.members cs with
    | error x =>
      rw [hra] at hr
      simp only [Bool.false_eq_true, if_false, Except.error.injEq] at hr
      subst hr
      rcases resolveAll_flat_error G.members cs _ flat hra with ⟨m, _, h2⟩
      exfalso
      unfold platformLookup at h2
      split at h2
      · cases h2
      · split at h2
        · split at h2 <;> cases h2
        · split at h2
          · split at h2 <;> cases h2
          · cases h2
    | ok v =>
      rcases v with ⟨ms, cs1⟩
      rw [hra] at hr
      simp only [Bool.false_eq_true, if_false] at hr
      rcases resolveAll_flat G.members cs ms cs1 flat hra with ⟨_, hnames, hlook⟩
      cases hal : aliveNames ms bad with
      | cons y ys =>
        rw [hal] at hr
        simp only at hr
        have := (pick_error hr).1
        cases this
      | nil =>
        intro m hm p hp h hh
        rw [← hnames] at hm
        rcases List.mem_map.1 hm with ⟨⟨m', hs⟩, hin, hm'⟩
        simp only at hm'; subst hm'
        rcases hlook (m', hs) hin with ⟨p', hp', hph⟩
        simp only at hp' hph
        rw [hp] at hp'
        cases hp'
        by_cases hbad : h ∈ bad
        · exact hbad
        · have : m' ∈ aliveNames ms bad := mem_aliveNames.2 ⟨hs, hin, h, by rw [← hph]; exact hh, hbad⟩
          rw [hal] at this; cases this

/-- **alive_member_selected.** If every member of a group of platform names resolves, the selection
method is supported and some member keeps a host outside the bad set, a platform is selected (no
error) — so a no-platforms error is raised *only* when none remain. -/
theorem alive_member_selected (e : Env) (G : GroupDef) (bad : List Host) (cs : List Nat)
    (flat : ∀ m ∈ G.members, FlatName e m) (hm : methodKind G.method ≠ none)
    (hres : ∀ m ∈ G.members, ∃ p, platformLookup e m = .ok p)
    (hex : ∃ m ∈ G.members, ∃ p, platformLookup e m = .ok p ∧ ∃ h ∈ p.hosts, h ∉ bad) :
    ∃ n cs', groupFrom e G bad cs = .ok (n, cs') := by
  unfold groupFrom
  rcases hex with ⟨m, hmm, p, hp, h, hh, hbad⟩
  by_cases hb : bad.isEmpty = true
  · simp only [hb, if_true]
    cases hmem : G.members with
    | nil => rw [hmem] at hmm; cases hmm
    | cons x xs => exact pick_ok_of_supported x xs cs hm
  · simp only [hb, Bool.false_eq_true, if_false]
    rcases resolveAll_flat_ok G.members cs flat hres with ⟨ms, hms⟩
    rw [hms]
    rcases resolveAll_flat G.members cs ms cs flat hms with ⟨_, hnames, hlook⟩
    have hm_in : m ∈ ms.map (·.1) := by rw [hnames]; exact hmm
    rcases List.mem_map.1 hm_in with ⟨⟨m', hs⟩, hin, hm'⟩
    simp only at hm'; subst hm'
    rcases hlook (m', hs) hin with ⟨p', hp', hph⟩
    simp only at hp' hph
    rw [hp] at hp'; cases hp'
    have : m' ∈ aliveNames ms bad := mem_aliveNames.2 ⟨hs, hin, h, by rw [← hph]; exact hh, hbad⟩
    cases hal : aliveNames ms bad with
    | nil => rw [hal] at this; cases this
    | cons y ys => simp only [hal]; exact pick_ok_of_supported y ys cs hm

/-- **platform_not_dead.** `platform_from_name(name, bad_hosts=bad)` where the last-defined group
pattern matching `name` is group `g`, a group of platform names, and `bad` is not empty: the platform
returned is the resolution of a member of that group and has a host outside the bad set. -/
theorem platform_not_dead (e : Env) (name : Name) (bad : List Host) (cs cs' : List Nat) (p : Plat)
    (g : Nat) (G : GroupDef) (hG : e.groups[g]? = some G)
    (hmatch : e.gm name g = true) (hlast : ∀ j, g < j → j < e.groups.length → e.gm name j = false)
    (flat : ∀ m ∈ G.members, FlatName e m) (hbad : bad ≠ [])
    (hr : platformFromName e name bad cs = .ok (p, cs')) :
    ∃ sel ∈ G.members, platformLookup e sel = .ok p ∧ ∃ h ∈ p.hosts, h ∉ bad := by
  have hlt : g < e.groups.length := by
    rcases List.getElem?_eq_some_iff.1 hG with ⟨h, _⟩; exact h
  have hg : lookupLast (e.gm name) e.groups.length = some g :=
    (lookupLast_some_iff _ _ _).2 ⟨hlt, hmatch, hlast⟩
  unfold platformFromName at hr
  rw [hg] at hr
  simp only [hG] at hr
  cases hgf : groupFrom e G bad cs with
  | error x => rw [hgf] at hr; cases hr
  | ok v =>
    rcases v with ⟨sel, cs1⟩
    rw [hgf] at hr
    simp only at hr
    rcases group_never_selects_dead e G bad cs cs1 sel flat hgf with ⟨hsel, hal⟩
    rcases hal hbad with ⟨p', hp', hgood⟩
    rw [hp'] at hr
    simp only [Except.ok.injEq, Prod.mk.injEq] at hr
    rcases hr with ⟨h1, _⟩
    subst h1
    exact ⟨sel, hsel, hp', hgood⟩

/-! ### name resolution -/

/-- **last_match_wins.** For a name that no group pattern matches, in a configuration that passes the
"localhost is not a regex" guard: if definition `i` matches the name and no later definition does,
`platform_from_name` returns definition `i` (with the name filled in, and the name as the only host
when the definition has no hosts) — independently of bad hosts and random numbers. -/
theorem last_match_wins (e : Env) (name : Name) (bad : List Host) (cs : List Nat) (i : Nat) (d : PlatDef)
    (hnog : ∀ g, g < e.groups.length → e.gm name g = false)
    (hguard : ∀ d ∈ e.plats, guardClash d = false)
    (hd : e.plats[i]? = some d) (hmatch : e.pm name i = true)
    (hlast : ∀ j, i < j → j < e.plats.length → e.pm name j = false) :
    platformFromName e name bad cs = .ok (platOf name d, cs) := by
  have hlt : i < e.plats.length := by
    rcases List.getElem?_eq_some_iff.1 hd with ⟨h, _⟩; exact h
  have hg : lookupLast (e.gm name) e.groups.length = none := (lookupLast_none_iff _ _).2 hnog
  have hp : lookupLast (e.pm name) e.plats.length = some i :=
    (lookupLast_some_iff _ _ _).2 ⟨hlt, hmatch, hlast⟩
  have hany : e.plats.any guardClash = false := by
    rw [List.any_eq_false]; intro d hd; simp [hguard d hd]
  unfold platformFromName
  rw [hg]
  simp only [platformLookup, hany, Bool.false_eq_true, if_false, hp, hd]

/-- **unmatched_name_errors.** A name matched by no group, no platform definition and not a run-mode
name is a `PlatformLookupError`. -/
theorem unmatched_name_errors (e : Env) (name : Name) (bad : List Host) (cs : List Nat)
    (hnog : ∀ g, g < e.groups.length → e.gm name g = false)
    (hnop : ∀ j, j < e.plats.length → e.pm name j = false) (hj : jobless.contains name = false) :
    platformFromName e name bad cs = .error .lookup := by
  have hg : lookupLast (e.gm name) e.groups.length = none := (lookupLast_none_iff _ _).2 hnog
  have hp : lookupLast (e.pm name) e.plats.length = none := (lookupLast_none_iff _ _).2 hnop
  unfold platformFromName
  rw [hg]
  have hj' : name ∉ jobless := by simpa using hj
  by_cases hany : e.plats.any guardClash = true <;> simp [platformLookup, hp, hj', hany]

/-- The resolution statement with the guard as documented ("regular expressions which match
"localhost" may not [be used]"): no regex pattern fully matches "localhost". -/
def last_match_wins_full : Prop :=
  ∀ (e : Env) (name : Name) (bad : List Host) (cs : List Nat) (i : Nat) (d : PlatDef),
    (∀ g, g < e.groups.length → e.gm name g = false) →
    (∀ d ∈ e.plats, d.lhFull = false) →
    e.plats[i]? = some d → e.pm name i = true →
    (∀ j, i < j → j < e.plats.length → e.pm name j = false) →
    platformFromName e name bad cs = .ok (platOf name d, cs)

/-- On code whose guard uses `re.match` (prefix match; `lhGuardPrefix = true`, see
findings/C47-fix-1.diff) the documented form fails: the pattern `local(_big)?` matches the prefix
"local" of "localhost", so every lookup — here of `local_big`, which the pattern fully matches —
raises `PlatformLookupError`. -/
theorem last_match_wins_full_counterexample (h : lhGuardPrefix = true) : ¬ last_match_wins_full := by
  intro hall
  have := hall
    { plats := [⟨"localhost", ["localhost"], "definition order", "t0", false, false⟩,
                ⟨"local(_big)?", ["a"], "random", "t1", true, false⟩],
      groups := [], pm := fun n i => (n == "local_big" && i == 1) || (n == "localhost" && i == 0),
      gm := fun _ _ => false }
    "local_big" [] [] 1 ⟨"local(_big)?", ["a"], "random", "t1", true, false⟩
    (by intro g hg; simp at hg) (by decide) rfl (by decide) (by intro j h1 h2; simp at h2; omega)
  simp [platformFromName, lookupLast, platformLookup, guardClash, h] at this

/-- and holds once the guard uses a full match -/
theorem last_match_wins_full_of_fullmatch_guard (h : lhGuardPrefix = false) : last_match_wins_full := by
  intro e name bad cs i d hnog hfull hd hm hl
  exact last_match_wins e name bad cs i d hnog (by intro d hd; simp [guardClash, h, hfull d hd]) hd hm hl

/-! ### non-vacuity -/

/-- an environment with a regex platform, a comma list, an override and a group -/
def exEnv : Env :=
  { plats := [⟨"localhost", ["localhost"], "definition order", "t0", false, false⟩,
              ⟨"hpc\\d", ["login1", "login2"], "random", "t1", false, false⟩,
              ⟨"box, hpc2", [], "definition order", "t2", false, false⟩],
    groups := [⟨"pool", ["hpc1", "box"], "random"⟩],
    pm := fun n i => (i == 0 && n == "localhost") || (i == 1 && (n == "hpc1" || n == "hpc2"))
      || (i == 2 && (n == "box" || n == "hpc2")),
    gm := fun n g => g == 0 && n == "pool" }

example : getHost ["a", "b", "c"] "random" ["b"] [3] = .ok ("c", []) := by decide
example : getHost ["a", "b"] "definition order" ["a"] [] = .ok ("b", []) := by decide
example : getHost ["a", "b"] "random" ["b", "a"] [1] = .error .noHosts := by decide
example : ∃ h ∈ ["a", "b"], h ∉ ["a"] := ⟨"b", by decide, by decide⟩
example : methodKind "random" ≠ none := by decide

/-- the hypotheses of the group theorems are met: `pool` is a group of platform names -/
example : ∀ m ∈ (⟨"pool", ["hpc1", "box"], "random"⟩ : GroupDef).members, FlatName exEnv m := by
  intro m hm
  simp only [List.mem_cons, List.not_mem_nil, or_false] at hm
  rcases hm with h | h <;> subst h <;> (show lookupLast _ _ = none) <;> decide

/-- hpc1's hosts are all bad: the group yields `box` whatever the random number -/
example : groupFrom exEnv ⟨"pool", ["hpc1", "box"], "random"⟩ ["login1", "login2"] [7] = .ok ("box", []) := by decide
example : groupFrom exEnv ⟨"pool", ["hpc1", "box"], "random"⟩ ["login1", "login2", "box"] [7]
    = .error (.noPlatforms ["box", "login1", "login2"]) := by decide
example : platformFromName exEnv "pool" ["login1", "login2"] [3] = .ok (⟨"box", ["box"], "definition order", "t2"⟩, []) := by decide
/-- `hpc2` is matched by definitions 1 and 2: the later one wins -/
example : platformFromName exEnv "hpc2" [] [] = .ok (platOf "hpc2" ⟨"box, hpc2", [], "definition order", "t2", false, false⟩, []) := by decide
example : platformFromName exEnv "nowhere" [] [] = .error .lookup := by decide
example : ∀ d ∈ exEnv.plats, guardClash d = false := by decide

end CylcModel.C47
