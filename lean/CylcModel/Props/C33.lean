/-
C33 — Xtriggers are called with the documented discipline.

"For each xtrigger function signature, at most one call is in progress at a time, consecutive calls
are at least the configured interval apart, and once a call succeeds the function is not called
again for that signature while any task still needs it. Every task depending on a succeeded
signature becomes satisfied."

The property is the monitor `Xtrig.Spec.judge` (the judge of the driver): it follows a history of
operations and the submissions / task flags observed after each, with its own bookkeeping
(calls in flight; time and interval of the last submission per signature; signatures that
succeeded and have been needed by some pool task ever since) and rejects
  `oneInFlight`      - a submission of a signature that is still in flight,
  `interval`         - a submission earlier than previous submission + interval of the submitting label,
  `callAfterSuccess` - a submission of a succeeded signature some task has needed ever since,
  `notSatisfied`     - a call that leaves a label waiting for a succeeded signature unsatisfied.
Statements are for **all** configurations (any labels, intervals, clock labels, any signature
function - so any sharing of signatures between tasks and labels) and all operation histories of
any length (`advance`, `spawn`, `remove`, `call`, `callback` with any result, `housekeep`, `load`,
`force`). Proofs: `CylcModel/XtrigLemmas.lean` (coupling invariant manager ↔ monitor).
-/
import CylcModel.XtrigLemmas
namespace CylcModel.C33
open CylcModel.Xtrig

deriving instance DecidableEq for Except

/-- the full statement: the monitor accepts every run of the manager -/
def discipline_full : Prop :=
  ∀ (env : Env) (ops : List Op), Spec.judge env ops (run env init ops).2 = .ok ()

/-- accepted, or rejected only for the recorded finding `interval-after-forget` -/
def Acceptable : Except Spec.Fail Unit → Prop
  | .ok _ => True
  | .error (.intervalAfterForget _ _ _ _ _) => True
  | .error _ => False

theorem judge_of_monitor {env : Env} {ops : List Op} {obs : List Out}
    (h : (∃ m', Spec.monitor env 0 {} ops obs = .ok m') ∨ IsForget (Spec.monitor env 0 {} ops obs)) :
    Acceptable (Spec.judge env ops obs) := by
  unfold Spec.judge
  cases hx : Spec.monitor env 0 {} ops obs with
  | ok m => trivial
  | error e =>
    rw [hx] at h
    rcases h with ⟨m', h⟩ | h
    · cases h
    · cases e <;> first | exact h.elim | trivial

/-- **discipline_partial.** For every configuration and every history, the monitor's verdict on the
manager's run is `ok`, or the one rejection `intervalAfterForget`: a signature whose previous call
*succeeded* is called again before that call's interval is over (possible only after housekeeping
forgot the result). So in every history: never two calls of a signature in flight; consecutive calls
with no success in between are at least the interval apart; no call of a succeeded signature that a
task has needed ever since; every call satisfies all labels waiting for succeeded signatures.
Missing for the full statement: the interval across a success + housekeeping, see
`interval_after_forget_counterexample`. -/
theorem discipline_partial (env : Env) (ops : List Op) :
    Acceptable (Spec.judge env ops (run env init ops).2) := by
  apply judge_of_monitor
  rcases monitor_run env false ops 0 init {} (coupled_init env false) (by intro h; cases h) with ⟨m', h, _⟩ | ⟨_, h⟩
  · exact Or.inl ⟨m', h⟩
  · exact Or.inr h

/-- **discipline_no_forget (full verdict).** On histories without housekeeping the monitor accepts
the run outright: the literal interval clause holds as long as nothing is forgotten. -/
theorem discipline_no_forget (env : Env) (ops : List Op) (h : ∀ op ∈ ops, isHousekeep op = false) :
    Spec.judge env ops (run env init ops).2 = .ok () := by
  rcases monitor_run env true ops 0 init {} (coupled_init env true) (fun _ => h) with ⟨m', hm, _⟩ | ⟨hc, _⟩
  · simp only [Spec.judge, hm, Except.map]
  · cases hc

/-- witness of finding `interval-after-forget`: one signature (interval 10) for every task; task 0 is
satisfied at t=0, housekeeping forgets the result (nobody waits for it), task 1 is spawned and the
function is called again at t=0 -/
def witnessEnv : Env := { cfg := fun l => ⟨l, false, 10, 0⟩, sigOf := fun _ _ => "f()" }
def witnessOps : List Op :=
  [.spawn 0 ["x"], .call 0, .callback "f()" true [], .call 0, .housekeep false, .spawn 1 ["x"], .call 1]

/-- **interval_after_forget_counterexample.** The full statement is false on the code as it is. -/
theorem interval_after_forget_counterexample : ¬ discipline_full := by
  intro h
  have := h witnessEnv witnessOps
  revert this
  decide

/-! ### the clauses one operation at a time (direct statements over the manager model) -/

/-- **one_in_flight / no_call_after_success (one operation).** Whatever the state, an operation submits
a signature only if no call of it is in progress (`active`) and it has not succeeded (`sat_xtrig`). -/
theorem submit_only_fresh (env : Env) (s : State) (op : Op) (l : Label) (sig : Sig)
    (h : (l, sig) ∈ (step env s op).2.subs) : sig ∉ s.active ∧ sig ∉ keys s.sat :=
  ⟨(step_subs_fresh env s op (l, sig) h).2, (step_subs_fresh env s op (l, sig) h).1⟩

/-- **success_remembered.** A succeeded signature stays recorded through every operation except a
housekeeping at a moment when no pool task waits for it. -/
theorem success_remembered (env : Env) (s : State) (op : Op) (sig : Sig) (h : sig ∈ keys s.sat)
    (hk : isHousekeep op = false ∨ sig ∈ needed env s.pool) : sig ∈ keys (step env s op).1.sat :=
  step_sat_kept env s op sig h hk

/-- **dependents_satisfied (one call).** After `call_xtriggers_async(t)` no label of `t` that waits for a
succeeded signature (or is a wall-clock label whose time has passed) is left unsatisfied - for any
bookkeeping `m` of succeeded signatures that the manager still records. -/
theorem dependents_satisfied (env : Env) (s : State) (id : Nat) (t : Task) (m : Spec.Mon)
    (hf : findTask s.pool id = some t) (hnow : m.now = s.now) (hsucc : ∀ x ∈ m.succ, x ∈ keys s.sat) :
    Spec.unsatisfiedDue env m id t.xt (step env s (.call id)).2.xt = none := by
  rw [step_call_eq env s id t hf]
  exact (callLoop_model env s.now id t.xt (accOf s)).2.2.2.2 m hnow hsucc

/-! ### non-vacuity -/

/-- a configuration with a shared signature under two labels with different intervals, a per-task
signature and a wall-clock label -/
def exEnv : Env :=
  { cfg := fun l => if l = "c" then ⟨l, true, 0, 7⟩ else if l = "y" then ⟨l, false, 3, 0⟩ else ⟨l, false, 5, 0⟩,
    sigOf := fun id l => if l = "c" then "wall_clock(trigger_time=7)" else if l = "z" then s!"g({id})" else "f()" }

/-- retries at the interval, a failed and a successful callback, two dependants, clock, housekeeping -/
def exOps : List Op :=
  [.spawn 0 ["x", "c"], .spawn 1 ["y", "z"], .call 0, .call 1, .callback "f()" false [], .call 1,
   .advance 4, .call 0, .advance 1, .call 0, .advance 3, .call 1, .callback "f()" true [("k", "v")],
   .call 0, .call 1, .housekeep false, .callback "g(1)" true [], .call 1, .housekeep false]

/-- the run does submit, retry, satisfy and forget -/
example : (run exEnv init exOps).2.map (·.subs) =
    [[], [], [("x", "f()")], [("z", "g(1)")], [], [], [], [], [], [("x", "f()")], [], [], [], [], [], [], [], [], []] := by
  decide

example : ((run exEnv init exOps).1.pool.map (·.xt)) = [[("x", true), ("c", true)], [("y", true), ("z", true)]] := by
  decide

/-- `discipline_partial` is about a monitor that does accept this run ... -/
example : Spec.judge exEnv exOps (run exEnv init exOps).2 = .ok () := by decide

/-- ... and that rejects what the property forbids: a second submission while the first is in flight -/
example : Spec.judge exEnv [.spawn 0 ["x"], .spawn 1 ["y"], .call 0, .call 1]
    [{ xt := [false] }, { xt := [false] }, { subs := [("x", "f()")], xt := [false] }, { subs := [("y", "f()")], xt := [false] }]
    = .error (.oneInFlight 3 "f()") := by decide

/-- a retry before the interval is over -/
example : Spec.judge exEnv [.spawn 0 ["x"], .call 0, .callback "f()" false [], .advance 4, .call 0]
    [{ xt := [false] }, { subs := [("x", "f()")], xt := [false] }, {}, {}, { subs := [("x", "f()")], xt := [false] }]
    = .error (.interval 4 "f()" 0 4 5) := by decide

/-- a call after success while a task still needs the signature, and an unsatisfied dependant -/
example : Spec.judge exEnv [.spawn 0 ["x"], .spawn 1 ["y"], .call 0, .callback "f()" true [], .advance 9, .call 1]
    [{ xt := [false] }, { xt := [false] }, { subs := [("x", "f()")], xt := [false] }, {}, {},
     { subs := [("y", "f()")], xt := [false] }]
    = .error (.callAfterSuccess 5 "f()") := by decide

example : Spec.judge exEnv [.spawn 0 ["x"], .spawn 1 ["y"], .call 0, .callback "f()" true [], .call 1]
    [{ xt := [false] }, { xt := [false] }, { subs := [("x", "f()")], xt := [false] }, {}, { xt := [false] }]
    = .error (.notSatisfied 4 1 "y") := by decide

/-- hypotheses of `discipline_no_forget`, `submit_only_fresh`, `success_remembered`, `dependents_satisfied` are met -/
example : ∀ op ∈ exOps.take 15, isHousekeep op = false := by decide
example : ("x", "f()") ∈ (step exEnv (run exEnv init (exOps.take 2)).1 (.call 0)).2.subs := by decide
example : "f()" ∈ keys (run exEnv init (exOps.take 13)).1.sat ∧
    "f()" ∈ needed exEnv (run exEnv init (exOps.take 13)).1.pool := by decide
example : findTask (run exEnv init (exOps.take 13)).1.pool 1 = some ⟨1, [("y", false), ("z", false)]⟩ := by decide

end CylcModel.C33
