/-
C36 — Configuration processing is idempotent.

Property statements only.  Model: `CylcModel/Lines.lean` (`readAndProc` = `fileparse.read_and_proc`:
include inlining, Jinja2 as an opaque function `J`, `_concatenate`, final strip; `dump` = the
processed file `parse()` writes; `splitLines` = reading it back); lemmas: `CylcModel/LinesLemmas.lean`.
Files, line lists, lines, the include map and `J` are arbitrary (no bound on sizes).

`parse(file) = P (read_and_proc file)` for the key/value grammar `P`, which is not modelled: the
statements are about the processed lines, and the configuration statement holds for EVERY function `P`.

Behaviour flags (`Generated.LinesCfg`): `cc` — `_concatenate` checks every completed logical line;
`ke` — the final strip keeps trailing whitespace that hides a backslash.  Both `false` = the
unrepaired code.
-/
import CylcModel.LinesLemmas
namespace CylcModel.C36
open CylcModel.Lines

/-- the processed lines contain nothing that is processed again: no `%include` line, no Jinja2 shebang first -/
def NoDirective (ps : List Line) : Prop := (∀ l ∈ ps, includeMatch l = none) ∧ isJinja ps = false

/-- no line contains a line break character of text-mode reading (file lines and
`str.splitlines` output never do) -/
def NoLineBreaks (ps : List Line) : Prop := ∀ l ∈ ps, NoNL l

/-- `_concatenate` is idempotent (repaired check): joining continuation lines a second time changes nothing. -/
theorem concat_idem (ls cs : List Line) (h : concatenate true ls = some cs) : concatenate true cs = some cs :=
  concatenate_of_clean true cs (concatenate_clean ls cs h)

/-- the final strip is idempotent, for both behaviours -/
theorem strip_idem (ke : Bool) (l : Line) : finalStrip ke (finalStrip ke l) = finalStrip ke l :=
  finalStrip_idem ke l

example : concatenate true ["a \\".toList, "b \\".toList, "c".toList, "d \\\\".toList] = some ["a b c".toList, "d ".toList] := by
  decide

/-- What a second pass does to processed lines that are clean (no trailing backslash, no
backslash followed only by whitespace outside a comment), for ANY behaviour of the code:
re-reading the dumped file gives exactly the same lines. -/
theorem reproc_identity_partial (cc ke : Bool) (J : List Line → Option (List Line)) (files : Files) (text : List Char)
    (ps : List Line) (h : readAndProc cc ke J files text = some ps)
    (hne : ps ≠ []) (hnl : NoLineBreaks ps) (hnd : NoDirective ps) (hclean : ∀ l ∈ ps, Clean l)
    (J' : List Line → Option (List Line)) (files' : Files) :
    readAndProc cc ke J' files' (dump ps) = some ps := by
  -- the lines are fixed points of the final strip
  have hfix : ps.map (finalStrip ke) = ps := by
    unfold readAndProc at h
    cases h1 : inline includeDepth files (splitLines text) with
    | none => simp [h1] at h
    | some inl =>
      simp only [h1] at h
      cases h2 : (if isJinja inl then J inl else some inl) with
      | none => simp [h2] at h
      | some jl =>
        simp only [h2] at h
        cases h3 : concatenate cc jl with
        | none => simp [h3] at h
        | some cl =>
          simp only [h3, Option.some.injEq] at h
          subst h
          simp [List.map_map, Function.comp_def, finalStrip_idem]
  unfold readAndProc
  rw [splitLines_dump ps hne hnl, inline_plain files' ps hnd.1]
  simp only [hnd.2, Bool.false_eq_true, if_false, concatenate_of_clean cc ps hclean, hfix]

/-- The full-strength statement for a behaviour `(cc, ke)` of the code: whatever the source, the
include files and Jinja2 produce, if the processed lines contain no directive, then reading the
processed file back gives exactly the processed lines — hence `parse` gives exactly the same
configuration, for every key/value grammar `P`. -/
def reproc_identity_full (cc ke : Bool) : Prop :=
  ∀ (J : List Line → Option (List Line)) (files : Files) (text : List Char) (ps : List Line),
    readAndProc cc ke J files text = some ps → ps ≠ [] → NoLineBreaks ps → NoDirective ps →
    ∀ (J' : List Line → Option (List Line)) (files' : Files), readAndProc cc ke J' files' (dump ps) = some ps

/-- **Idempotence for the repaired code.** -/
theorem reproc_identity : reproc_identity_full true true := by
  intro J files text ps h hne hnl hnd J' files'
  refine reproc_identity_partial true true J files text ps h hne hnl hnd ?_ J' files'
  unfold readAndProc at h
  cases h1 : inline includeDepth files (splitLines text) with
  | none => simp [h1] at h
  | some inl =>
    simp only [h1] at h
    cases h2 : (if isJinja inl then J inl else some inl) with
    | none => simp [h2] at h
    | some jl =>
      simp only [h2] at h
      cases h3 : concatenate true jl with
      | none => simp [h3] at h
      | some cl =>
        simp only [h3, Option.some.injEq] at h
        subst h
        intro l hl
        obtain ⟨c, hc, rfl⟩ := List.mem_map.1 hl
        exact finalStrip_clean c (concatenate_clean jl cl h3 c hc)

/-- ... hence the same configuration, whatever the key/value grammar `P` is. -/
theorem config_same {β : Type} (P : List Line → β) (J : List Line → Option (List Line)) (files : Files) (text : List Char)
    (ps : List Line) (h : readAndProc true true J files text = some ps) (hne : ps ≠ [])
    (hnl : NoLineBreaks ps) (hnd : NoDirective ps) (J' : List Line → Option (List Line)) (files' : Files) :
    (readAndProc true true J' files' (dump ps)).map P = (readAndProc true true J files text).map P := by
  rw [reproc_identity J files text ps h hne hnl hnd J' files', h]

/-- The full statement for the behaviour probed on the live code. -/
theorem reproc_identity_live (h1 : Generated.LinesCfg.checkCompleted = true) (h2 : Generated.LinesCfg.keepExposed = true) :
    reproc_identity_full Generated.LinesCfg.checkCompleted Generated.LinesCfg.keepExposed := by
  rw [h1, h2]; exact reproc_identity

def noJ : List Line → Option (List Line) := fun _ => none

/-- non-vacuity: a file with a section, a continuation, a multi-line value, trailing whitespace,
a comment and an include; the hypotheses hold for its processed lines -/
example :
    let files : Files := [("inc.cylc".toList, ["    k = v  ".toList, "    # c".toList])]
    let text := "[a]\n    x = 1, \\\n        2\n%include 'inc.cylc'\n    m = \"\"\"\n  line \\\n   two\n  \"\"\"\n".toList
    let ps := ["[a]".toList, "    x = 1,         2".toList, "    k = v".toList, "    # c".toList, "    m = \"\"\"".toList,
               "  line    two".toList, "  \"\"\"".toList]
    readAndProc true true noJ files text = some ps ∧ ps ≠ [] ∧ NoDirective ps ∧
      readAndProc true true noJ [] (dump ps) = some ps := by
  refine ⟨by decide, by decide, ⟨by decide, by decide⟩, by decide⟩

/-- With the unrepaired code the full statement is false: a comment line ending with a backslash
followed by a blank is harmless in the source, but the final strip turns the backslash into a
line continuation in the processed file, which then swallows the next line. -/
theorem reproc_identity_counterexample : ¬ reproc_identity_full false false := by
  intro h
  have := h noJ [] "# c \\ \nx = 1\n".toList ["# c \\".toList, "x = 1".toList] (by decide) (by decide)
    (by intro l hl; simp only [List.mem_cons, List.not_mem_nil, or_false] at hl; rcases hl with rfl | rfl <;> exact ⟨by decide, by decide⟩)
    ⟨by decide, by decide⟩ noJ []
  revert this
  decide

/-- the second unrepaired path: whitespace after the continuation character on a CONTINUATION
line is not detected, and the stripped result joins the following line in the second pass -/
example : readAndProc false false noJ [] "x = a \\\n b \\ \ny = 1\n".toList = some ["x = a  b \\".toList, "y = 1".toList] ∧
    readAndProc false false noJ [] (dump ["x = a  b \\".toList, "y = 1".toList]) = some ["x = a  b y = 1".toList] ∧
    readAndProc true true noJ [] "x = a \\\n b \\ \ny = 1\n".toList = none := by
  decide

end CylcModel.C36
