/-
C39 — Workflow names cannot escape the cylc-run directory.
Property statements only; helper lemmas live in `CylcModel/PathNameLemmas.lean`.

Prose ↔ statements.  "Every workflow name or ID that passes validation" = `validate cls name chk = .ok`
(the model of `validate_workflow_name`, for *every* name and every reading of `\w`, `\d`);
"resolves to a path strictly inside the cylc-run directory" = `name_inside` (component level, any
run directory) and `name_inside_string` (the same on the path text that `get_workflow_run_dir`
normalises); "and contains no reserved directory name when reserved names are checked" =
`no_reserved_component` with `reserved_table_complete` and `runN_rejected`.
-/
import CylcModel.PathNameLemmas
namespace CylcModel.C39
open CylcModel.PathName

/-- An accepted name, resolved below any run directory `runD` (component list), ends up at
`runD/c₁/…/cₖ` with `k ≥ 1` proper components: a strict descendant. The same components are the
normalised name. -/
theorem name_inside (cls : CharCls) (name : Str) (chk : Bool) (h : validate cls name chk = .ok)
    (runD : List Str) :
    ∃ cs, cs ≠ [] ∧ (∀ c ∈ cs, Proper c) ∧ resolveUnder runD name = runD ++ cs ∧
      normpath name = joinSlash cs := by
  obtain ⟨hne, hdd, hnp, _⟩ := accepted_core cls name chk h
  refine ⟨(normGo false [] (splitSlash name)).reverse, by simpa using hne,
    accepted_proper cls name chk h, ?_, hnp⟩
  have := normGo_sim (splitSlash name) [] runD.reverse (by simp) hdd
  simp only [List.nil_append] at this
  simp [resolveUnder, this]

example : validate ⟨Char.isAlphanum, Char.isDigit⟩ "a/b/../../c".toList false = .ok := by decide
example : validate ⟨Char.isAlphanum, Char.isDigit⟩ "a/b/../../../c".toList false = .pointsAbove := by decide

/-- The same on the text: for a run directory `/d₁/…/dₙ` (proper components) the path
`/d₁/…/dₙ/NAME`, normalised as `get_workflow_run_dir` does, is `/d₁/…/dₙ/c₁/…/cₖ`, `k ≥ 1`. -/
theorem name_inside_string (cls : CharCls) (name : Str) (chk : Bool) (h : validate cls name chk = .ok)
    (runD : List Str) (hD : runD ≠ []) (hP : ∀ c ∈ runD, Proper c) :
    ∃ cs, cs ≠ [] ∧ (∀ c ∈ cs, Proper c) ∧
      normpath ('/' :: (joinSlash runD ++ '/' :: name)) = '/' :: joinSlash (runD ++ cs) := by
  obtain ⟨cs, hcs, hprop, hres, _⟩ := name_inside cls name chk h runD
  refine ⟨cs, hcs, hprop, ?_⟩
  -- the text starts with exactly one slash
  obtain ⟨d, ds, rfl⟩ : ∃ d ds, runD = d :: ds := by
    cases runD with
    | nil => exact absurd rfl hD
    | cons d ds => exact ⟨d, ds, rfl⟩
  have hd := hP d (by simp)
  obtain ⟨x, xs, rfl⟩ : ∃ x xs, d = x :: xs := by
    cases d with
    | nil => exact absurd rfl hd.1
    | cons x xs => exact ⟨x, xs, rfl⟩
  have hx : x ≠ '/' := by
    intro e; apply hd.2.2.2; simp [e]
  have hslash : ∀ c ∈ (x :: xs) :: ds, '/' ∉ c := fun c hc => (hP c hc).2.2.2
  have hjoin : ∃ rest, joinSlash ((x :: xs) :: ds) ++ '/' :: name = x :: rest := by
    cases ds with
    | nil => exact ⟨xs ++ '/' :: name, by simp [joinSlash]⟩
    | cons e es => exact ⟨xs ++ '/' :: (joinSlash (e :: es) ++ '/' :: name), by simp [joinSlash]⟩
  obtain ⟨rest, hrest⟩ := hjoin
  have hinit : initialSlashes ('/' :: (joinSlash ((x :: xs) :: ds) ++ '/' :: name)) = 1 := by
    rw [hrest]; unfold initialSlashes; split <;> simp_all
  have hsplit : splitSlash ('/' :: (joinSlash ((x :: xs) :: ds) ++ '/' :: name)) =
      [] :: (((x :: xs) :: ds) ++ splitSlash name) := by
    simp [splitSlash, split_join_append _ name (by simp) hslash]
  have hgo : normGo true [] ([] :: (((x :: xs) :: ds) ++ splitSlash name)) =
      normGo true ((((x :: xs) :: ds)).reverse) (splitSlash name) := by
    rw [normGo]
    simp only [true_or, if_true]
    rw [normGo_push true _ _ [] hP]
    simp
  have this : (normGo true ((x :: xs) :: ds).reverse (splitSlash name)).reverse = ((x :: xs) :: ds) ++ cs := by
    simpa [resolveUnder] using hres
  have h10 : ((1 : Nat) != 0) = true := by decide
  simp only [normpath, hinit, hsplit, h10, hgo, this]
  simp

example : Proper "cylc-run".toList := by decide

/-- With the reserved-name check, no component of the resolved path is a reserved name or
`run<digits>` (in the code's reading: the generated `RESERVED_NAMES` table and `^run\d+$`). -/
theorem no_reserved_component (cls : CharCls) (name : Str) (h : validate cls name true = .ok)
    (runD : List Str) :
    ∃ cs, cs ≠ [] ∧ resolveUnder runD name = runD ++ cs ∧
      ∀ c ∈ cs, Generated.NameRules.reserved.contains c = false ∧ isRunN cls c = false := by
  obtain ⟨cs, hcs, hprop, hres, hnp⟩ := name_inside cls name true h runD
  refine ⟨cs, hcs, hres, ?_⟩
  obtain ⟨_, _, _, hro⟩ := accepted_core cls name true h
  have hro := hro rfl
  rw [hnp] at hro
  have hparts : parts (joinSlash cs) = cs := by
    unfold parts
    rw [split_join cs hcs (fun c hc => (hprop c hc).2.2.2)]
    apply List.filter_eq_self.mpr
    intro c hc
    have := hprop c hc
    simp [this.1, this.2.1]
  simp only [reservedOk, hparts, List.all_eq_true] at hro
  intro c hc
  have := hro c hc
  simpa [isReserved] using this

example : validate ⟨Char.isAlphanum, Char.isDigit⟩ "a/log/../b".toList true = .ok ∧
    validate ⟨Char.isAlphanum, Char.isDigit⟩ "a/log".toList true = .reserved ∧
    validate ⟨Char.isAlphanum, Char.isDigit⟩ "a/run12".toList true = .reserved := by decide

/-- Every name the run-directory layout reserves is in the code's table (regenerated from
`WorkflowFiles.RESERVED_NAMES` on every run). -/
theorem reserved_table_complete :
    ∀ n ∈ Spec.reservedNames, Generated.NameRules.reserved.contains n.toList = true := by
  decide

/-- `run` followed by one or more digits is rejected by the reserved-name check. -/
theorem runN_rejected (cls : CharCls) (ds : Str) (hne : ds ≠ []) (hd : ds.all cls.isDigit = true) :
    isReserved cls ('r' :: 'u' :: 'n' :: ds) = true := by
  cases ds with
  | nil => exact absurd rfl hne
  | cons d ds =>
    have : isRunN cls ('r' :: 'u' :: 'n' :: d :: ds) = true := by
      simp at hd
      unfold isRunN dollarBodies
      split
      · simp [hd.1]; exact .inl hd.2
      · simp [hd.1]; exact hd.2
    simp [isReserved, this]

example : isReserved ⟨Char.isAlphanum, Char.isDigit⟩ "run007".toList = true := by decide

end CylcModel.C39
