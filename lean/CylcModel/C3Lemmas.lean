/-
Helper lemmas for C35 (C3 linearisation): specification-level reading of one `merge`
round, the unfolding equations of `merge`, and the invariants of `mroAll`.
-/
import CylcModel.C3

namespace CylcModel.C3

set_option linter.unusedSectionVars false
set_option linter.unusedVariables false

variable {α : Type} [DecidableEq α]

/-! ### specification vocabulary -/

/-- `c` occurs in the tail of some sequence -/
def InSomeTail (seqs : List (List α)) (c : α) : Prop := ∃ s ∈ seqs, c ∈ s.tail

/-- nothing left to merge -/
def AllEmpty (seqs : List (List α)) : Prop := ∀ s ∈ seqs, s = []

/-- a sequence that offers no candidate: empty, or its head occurs in some tail -/
def Blocked (seqs : List (List α)) (s : List α) : Prop :=
  s = [] ∨ ∃ h u, s = h :: u ∧ InSomeTail seqs h

/-- `c` is "the first head that is in no tail": the head of a sequence, in no tail, and
every earlier sequence is blocked -/
def FirstGoodHead (seqs : List (List α)) (c : α) : Prop :=
  ∃ pre t post, seqs = pre ++ (c :: t) :: post ∧ ¬ InSomeTail seqs c ∧ ∀ s ∈ pre, Blocked seqs s

/-- a merge step at which every head occurs in some tail -/
def Stuck (seqs : List (List α)) : Prop := (∃ s ∈ seqs, s ≠ []) ∧ ∀ s ∈ seqs, Blocked seqs s

/-- The linearisation rule as a relation: repeatedly take the first good head. -/
inductive Lin : List (List α) → List α → Prop where
  | done {seqs} : AllEmpty seqs → Lin seqs []
  | step {seqs c l} : FirstGoodHead seqs c → Lin (removeCand c seqs) l → Lin seqs (c :: l)

/-- states reachable by merge rounds -/
inductive Reach : List (List α) → List (List α) → Prop where
  | refl {seqs} : Reach seqs seqs
  | step {seqs c s'} : FirstGoodHead seqs c → Reach (removeCand c seqs) s' → Reach seqs s'

/-! ### `good`, `findCand` -/

theorem good_iff {seqs : List (List α)} {c : α} : good seqs c = true ↔ ¬ InSomeTail seqs c := by
  simp [good, inTail, InSomeTail]

theorem good_false_iff {seqs : List (List α)} {c : α} : good seqs c = false ↔ InSomeTail seqs c := by
  rw [← Bool.not_eq_true, good_iff]; exact Classical.not_not

theorem findCand_some {all l : List (List α)} {c : α} (h : findCand all l = some c) :
    ∃ pre t post, l = pre ++ (c :: t) :: post ∧ good all c = true ∧
      ∀ s ∈ pre, s = [] ∨ ∃ h u, s = h :: u ∧ good all h = false := by
  induction l with
  | nil => simp [findCand] at h
  | cons s rest ih =>
    cases s with
    | nil =>
      simp only [findCand] at h
      obtain ⟨pre, t, post, e, g, b⟩ := ih h
      refine ⟨[] :: pre, t, post, by simp [e], g, ?_⟩
      intro s hs
      rcases List.mem_cons.mp hs with hs | hs
      · exact Or.inl hs
      · exact b s hs
    | cons a t =>
      simp only [findCand] at h
      by_cases hg : good all a = true
      · simp only [hg, if_true, Option.some.injEq] at h
        subst h
        exact ⟨[], t, rest, by simp, hg, by simp⟩
      · simp only [hg] at h
        obtain ⟨pre, t', post, e, g, b⟩ := ih h
        refine ⟨(a :: t) :: pre, t', post, by simp [e], g, ?_⟩
        intro s hs
        rcases List.mem_cons.mp hs with hs | hs
        · exact Or.inr ⟨a, t, hs, by simpa using hg⟩
        · exact b s hs

theorem findCand_of_decomp {all : List (List α)} {c : α} {t : List α} {post : List (List α)} :
    ∀ (pre : List (List α)), good all c = true →
      (∀ s ∈ pre, s = [] ∨ ∃ h u, s = h :: u ∧ good all h = false) →
      findCand all (pre ++ (c :: t) :: post) = some c := by
  intro pre g b
  induction pre with
  | nil => simp [findCand, g]
  | cons s pre ih =>
    have ih' := ih (fun s hs => b s (List.mem_cons_of_mem _ hs))
    rcases b s (List.mem_cons_self) with hs | ⟨h, u, hs, hb⟩
    · subst hs; simpa [findCand] using ih'
    · subst hs; simpa [findCand, hb] using ih'

theorem findCand_none {all l : List (List α)} (h : findCand all l = none) :
    ∀ s ∈ l, s = [] ∨ ∃ h u, s = h :: u ∧ good all h = false := by
  induction l with
  | nil => intro s hs; cases hs
  | cons s rest ih =>
    cases s with
    | nil =>
      simp only [findCand] at h
      intro s hs
      rcases List.mem_cons.mp hs with hs | hs
      · exact Or.inl hs
      · exact ih h s hs
    | cons a t =>
      simp only [findCand] at h
      by_cases hg : good all a = true
      · simp [hg] at h
      · simp only [hg] at h
        intro s hs
        rcases List.mem_cons.mp hs with hs | hs
        · exact Or.inr ⟨a, t, hs, by simpa using hg⟩
        · exact ih h s hs

theorem findCand_eq_none_of {all l : List (List α)}
    (h : ∀ s ∈ l, s = [] ∨ ∃ h u, s = h :: u ∧ good all h = false) : findCand all l = none := by
  induction l with
  | nil => rfl
  | cons s rest ih =>
    have ih' := ih (fun s hs => h s (List.mem_cons_of_mem _ hs))
    rcases h s (List.mem_cons_self) with hs | ⟨a, u, hs, hb⟩
    · subst hs; simpa [findCand] using ih'
    · subst hs; simpa [findCand, hb] using ih'

/-! ### filtering the empty sequences does not matter -/

theorem findCand_nonEmpty (all l : List (List α)) : findCand all (nonEmpty l) = findCand all l := by
  induction l with
  | nil => rfl
  | cons s rest ih =>
    cases s with
    | nil => simpa [nonEmpty, findCand] using ih
    | cons a t =>
      have : nonEmpty ((a :: t) :: rest) = (a :: t) :: nonEmpty rest := by simp [nonEmpty]
      rw [this]; simp only [findCand]; rw [ih]

theorem inSomeTail_nonEmpty {seqs : List (List α)} {c : α} :
    InSomeTail (nonEmpty seqs) c ↔ InSomeTail seqs c := by
  constructor
  · rintro ⟨s, hs, hc⟩
    exact ⟨s, (List.mem_filter.mp hs).1, hc⟩
  · rintro ⟨s, hs, hc⟩
    refine ⟨s, List.mem_filter.mpr ⟨hs, ?_⟩, hc⟩
    cases s with
    | nil => simp at hc
    | cons a t => simp

theorem good_nonEmpty (seqs : List (List α)) (c : α) : good (nonEmpty seqs) c = good seqs c := by
  by_cases h : InSomeTail seqs c
  · rw [good_false_iff.mpr h, good_false_iff.mpr (inSomeTail_nonEmpty.mpr h)]
  · have h' : ¬ InSomeTail (nonEmpty seqs) c := fun x => h (inSomeTail_nonEmpty.mp x)
    rw [good_iff.mpr h, good_iff.mpr h']

theorem findCand_congr_good {a b : List (List α)} (h : ∀ c, good a c = good b c) (l : List (List α)) :
    findCand a l = findCand b l := by
  induction l with
  | nil => rfl
  | cons s rest ih =>
    cases s with
    | nil => simpa [findCand] using ih
    | cons x t => simp only [findCand, h, ih]

theorem nonEmpty_eq_nil_iff {seqs : List (List α)} : nonEmpty seqs = [] ↔ AllEmpty seqs := by
  simp only [nonEmpty, List.filter_eq_nil_iff, AllEmpty]
  constructor
  · intro h s hs
    have := h s hs
    cases s with
    | nil => rfl
    | cons a t => simp at this
  · intro h s hs
    rw [h s hs]; simp

theorem nonEmpty_idem (seqs : List (List α)) : nonEmpty (nonEmpty seqs) = nonEmpty seqs := by
  simp [nonEmpty]

theorem nonEmpty_removeCand (c : α) (seqs : List (List α)) :
    nonEmpty (removeCand c (nonEmpty seqs)) = nonEmpty (removeCand c seqs) := by
  induction seqs with
  | nil => rfl
  | cons s rest ih =>
    cases s with
    | nil =>
      have : nonEmpty (([] : List α) :: rest) = nonEmpty rest := by simp [nonEmpty]
      rw [this, ih]
      simp [removeCand, nonEmpty, dropHead]
    | cons a t =>
      have : nonEmpty ((a :: t) :: rest) = (a :: t) :: nonEmpty rest := by simp [nonEmpty]
      rw [this]
      simp only [removeCand, List.map_cons, nonEmpty, List.filter_cons] at ih ⊢
      rw [ih]

theorem merge_body (seqs : List (List α)) : merge seqs =
    if nonEmpty seqs = [] then some []
    else match findCand (nonEmpty seqs) (nonEmpty seqs) with
      | none => none
      | some c => (merge (removeCand c (nonEmpty seqs))).map (c :: ·) := by
  rw [merge]
  split
  · rfl
  · split <;> rename_i h <;> simp [h]

theorem merge_congr {a b : List (List α)} (h : nonEmpty a = nonEmpty b) : merge a = merge b := by
  rw [merge_body a, merge_body b, h]

/-- The recursive equation of `merge`, without the per-round filtering. -/
theorem merge_unfold (seqs : List (List α)) : merge seqs =
    if nonEmpty seqs = [] then some []
    else match findCand seqs seqs with
      | none => none
      | some c => (merge (removeCand c seqs)).map (c :: ·) := by
  rw [merge_body]
  have e : findCand (nonEmpty seqs) (nonEmpty seqs) = findCand seqs seqs := by
    rw [findCand_nonEmpty]
    exact findCand_congr_good (good_nonEmpty seqs) seqs
  rw [e]
  split
  · rfl
  · split
    · rfl
    · rename_i c _
      rw [merge_congr (nonEmpty_removeCand c seqs)]

/-! ### one round, read from the specification side -/

theorem firstGoodHead_iff {seqs : List (List α)} {c : α} :
    FirstGoodHead seqs c ↔ findCand seqs seqs = some c := by
  constructor
  · rintro ⟨pre, t, post, e, g, b⟩
    have := findCand_of_decomp (all := seqs) (c := c) (t := t) (post := post) pre (good_iff.mpr g)
      (fun s hs => by
        rcases b s hs with h | ⟨h, u, e', hb⟩
        · exact Or.inl h
        · exact Or.inr ⟨h, u, e', good_false_iff.mpr hb⟩)
    rw [← e] at this; exact this
  · intro h
    obtain ⟨pre, t, post, e, g, b⟩ := findCand_some h
    refine ⟨pre, t, post, e, good_iff.mp g, ?_⟩
    intro s hs
    rcases b s hs with h | ⟨h, u, e', hb⟩
    · exact Or.inl h
    · exact Or.inr ⟨h, u, e', good_false_iff.mp hb⟩

theorem firstGoodHead_unique {seqs : List (List α)} {c c' : α}
    (h : FirstGoodHead seqs c) (h' : FirstGoodHead seqs c') : c = c' := by
  have a := firstGoodHead_iff.mp h
  have b := firstGoodHead_iff.mp h'
  rw [a] at b; exact Option.some.inj b

theorem stuck_iff {seqs : List (List α)} :
    Stuck seqs ↔ nonEmpty seqs ≠ [] ∧ findCand seqs seqs = none := by
  constructor
  · rintro ⟨⟨s, hs, hne⟩, b⟩
    refine ⟨fun h => hne (nonEmpty_eq_nil_iff.mp h s hs), findCand_eq_none_of ?_⟩
    intro s hs
    rcases b s hs with h | ⟨h, u, e', hb⟩
    · exact Or.inl h
    · exact Or.inr ⟨h, u, e', good_false_iff.mpr hb⟩
  · rintro ⟨hne, hf⟩
    refine ⟨?_, ?_⟩
    · apply Classical.byContradiction
      intro hcon
      apply hne
      apply nonEmpty_eq_nil_iff.mpr
      intro s hs
      apply Classical.byContradiction
      intro hs'
      exact hcon ⟨s, hs, hs'⟩
    · intro s hs
      rcases findCand_none hf s hs with h | ⟨h, u, e', hb⟩
      · exact Or.inl h
      · exact Or.inr ⟨h, u, e', good_false_iff.mp hb⟩

theorem merge_allEmpty {seqs : List (List α)} (h : AllEmpty seqs) : merge seqs = some [] := by
  rw [merge_unfold, if_pos (nonEmpty_eq_nil_iff.mpr h)]

theorem firstGoodHead_not_allEmpty {seqs : List (List α)} {c : α} (h : FirstGoodHead seqs c) :
    ¬ AllEmpty seqs := by
  obtain ⟨pre, t, post, e, -, -⟩ := h
  intro ha
  have := ha (c :: t) (by rw [e]; simp)
  cases this

theorem merge_step {seqs : List (List α)} {c : α} (h : FirstGoodHead seqs c) :
    merge seqs = (merge (removeCand c seqs)).map (c :: ·) := by
  rw [merge_unfold, if_neg (fun x => firstGoodHead_not_allEmpty h (nonEmpty_eq_nil_iff.mp x)),
    firstGoodHead_iff.mp h]

theorem merge_stuck {seqs : List (List α)} (h : Stuck seqs) : merge seqs = none := by
  obtain ⟨hne, hf⟩ := stuck_iff.mp h
  rw [merge_unfold, if_neg hne, hf]

theorem trichotomy (seqs : List (List α)) :
    AllEmpty seqs ∨ (∃ c, FirstGoodHead seqs c) ∨ Stuck seqs := by
  by_cases h : nonEmpty seqs = []
  · exact Or.inl (nonEmpty_eq_nil_iff.mp h)
  · cases hf : findCand seqs seqs with
    | none => exact Or.inr (Or.inr (stuck_iff.mpr ⟨h, hf⟩))
    | some c => exact Or.inr (Or.inl ⟨c, firstGoodHead_iff.mpr hf⟩)

theorem merge_eq_nil {seqs : List (List α)} (h : merge seqs = some []) : AllEmpty seqs := by
  rcases trichotomy seqs with ha | ⟨c, hc⟩ | hs
  · exact ha
  · rw [merge_step hc] at h
    cases hm : merge (removeCand c seqs) <;> simp [hm] at h
  · rw [merge_stuck hs] at h; cases h

theorem merge_eq_cons {seqs : List (List α)} {c : α} {l : List α} (h : merge seqs = some (c :: l)) :
    FirstGoodHead seqs c ∧ merge (removeCand c seqs) = some l := by
  rcases trichotomy seqs with ha | ⟨c', hc⟩ | hs
  · rw [merge_allEmpty ha] at h; cases h
  · rw [merge_step hc] at h
    cases hm : merge (removeCand c' seqs) with
    | none => simp [hm] at h
    | some l' =>
      simp only [hm, Option.map_some, Option.some.injEq, List.cons.injEq] at h
      obtain ⟨rfl, rfl⟩ := h
      exact ⟨hc, hm⟩
  · rw [merge_stuck hs] at h; cases h

theorem merge_eq_none {seqs : List (List α)} (h : merge seqs = none) :
    Stuck seqs ∨ ∃ c, FirstGoodHead seqs c ∧ merge (removeCand c seqs) = none := by
  rcases trichotomy seqs with ha | ⟨c, hc⟩ | hs
  · rw [merge_allEmpty ha] at h; cases h
  · right
    refine ⟨c, hc, ?_⟩
    rw [merge_step hc] at h
    cases hm : merge (removeCand c seqs) with
    | none => rfl
    | some l' => simp [hm] at h
  · exact Or.inl hs

/-! ### `dropHead` / `removeCand` -/

theorem dropHead_sublist (c : α) (s : List α) : (dropHead c s).Sublist s := by
  cases s with
  | nil => simp [dropHead]
  | cons h t =>
    by_cases hc : h = c
    · simp [dropHead, hc]
    · simp [dropHead, hc]

theorem mem_of_mem_dropHead {c x : α} {s : List α} (h : x ∈ dropHead c s) : x ∈ s :=
  (dropHead_sublist c s).subset h

theorem mem_dropHead_or {c x : α} {s : List α} (h : x ∈ s) : x = c ∨ x ∈ dropHead c s := by
  cases s with
  | nil => cases h
  | cons a t =>
    by_cases hc : a = c
    · simp only [dropHead, hc, if_true]
      rcases List.mem_cons.mp h with h | h
      · exact Or.inl (h.trans hc)
      · exact Or.inr h
    · simp only [dropHead, hc, if_false]
      exact Or.inr h

theorem not_mem_dropHead {seqs : List (List α)} {c : α} (hg : ¬ InSomeTail seqs c)
    {s : List α} (hs : s ∈ seqs) : c ∉ dropHead c s := by
  cases s with
  | nil => simp [dropHead]
  | cons a t =>
    have ht : c ∉ t := fun hc => hg ⟨a :: t, hs, by simpa using hc⟩
    by_cases hc : a = c
    · simpa [dropHead, hc] using ht
    · simp only [dropHead, hc, if_false, List.mem_cons, not_or]
      exact ⟨fun e => hc e.symm, ht⟩

/-- a sequence is a subsequence of `c ::` (what is left of it after removing the head `c`) -/
theorem sublist_cons_dropHead {seqs : List (List α)} {c : α} (hg : ¬ InSomeTail seqs c)
    {s l : List α} (hs : s ∈ seqs) (h : (dropHead c s).Sublist l) : s.Sublist (c :: l) := by
  cases s with
  | nil => simp
  | cons a t =>
    by_cases hc : a = c
    · subst hc
      simp only [dropHead, if_true] at h
      exact h.cons_cons a
    · simp only [dropHead, hc, if_false] at h
      exact h.cons c

/-! ### properties of a successful merge -/

theorem merge_sublist {seqs : List (List α)} {l : List α} (h : merge seqs = some l) :
    ∀ s ∈ seqs, s.Sublist l := by
  induction l generalizing seqs with
  | nil =>
    intro s hs
    rw [merge_eq_nil h s hs]
    exact List.Sublist.refl _
  | cons c l ih =>
    obtain ⟨⟨pre, t, post, e, hg, hb⟩, hm⟩ := merge_eq_cons h
    intro s hs
    have := ih hm (dropHead c s) (List.mem_map.mpr ⟨s, hs, rfl⟩)
    exact sublist_cons_dropHead hg hs this

theorem merge_mem {seqs : List (List α)} {l : List α} (h : merge seqs = some l) (x : α) :
    x ∈ l ↔ ∃ s ∈ seqs, x ∈ s := by
  induction l generalizing seqs with
  | nil =>
    have ha := merge_eq_nil h
    constructor
    · intro hx; cases hx
    · rintro ⟨s, hs, hx⟩
      rw [ha s hs] at hx; cases hx
  | cons c l ih =>
    obtain ⟨⟨pre, t, post, e, hg, hb⟩, hm⟩ := merge_eq_cons h
    rw [List.mem_cons, ih hm]
    constructor
    · rintro (rfl | ⟨s', hs', hx⟩)
      · exact ⟨x :: t, by rw [e]; simp, by simp⟩
      · obtain ⟨s, hs, rfl⟩ := List.mem_map.mp hs'
        exact ⟨s, hs, mem_of_mem_dropHead hx⟩
    · rintro ⟨s, hs, hx⟩
      rcases mem_dropHead_or (c := c) hx with hx | hx
      · exact Or.inl hx
      · exact Or.inr ⟨dropHead c s, List.mem_map.mpr ⟨s, hs, rfl⟩, hx⟩

theorem merge_nodup {seqs : List (List α)} {l : List α} (h : merge seqs = some l) : l.Nodup := by
  induction l generalizing seqs with
  | nil => exact List.nodup_nil
  | cons c l ih =>
    obtain ⟨⟨pre, t, post, e, hg, hb⟩, hm⟩ := merge_eq_cons h
    refine List.nodup_cons.mpr ⟨?_, ih hm⟩
    intro hc
    obtain ⟨s', hs', hx⟩ := (merge_mem hm c).mp hc
    obtain ⟨s, hs, rfl⟩ := List.mem_map.mp hs'
    exact not_mem_dropHead hg hs hx

/-- the head of the result is the head of the first sequence when that head is in no tail -/
theorem merge_head {c : α} {t : List α} {rest : List (List α)} {l : List α}
    (h : merge ((c :: t) :: rest) = some l) (hg : ¬ InSomeTail ((c :: t) :: rest) c) :
    l.head? = some c := by
  have hf : FirstGoodHead ((c :: t) :: rest) c := ⟨[], t, rest, rfl, hg, by simp⟩
  cases l with
  | nil => exact absurd (merge_eq_nil h) (firstGoodHead_not_allEmpty hf)
  | cons c' l =>
    have := firstGoodHead_unique hf (merge_eq_cons h).1
    simp [this]

/-! ### `merge` decides the linearisation relation -/

theorem lin_of_merge {seqs : List (List α)} {l : List α} (h : merge seqs = some l) : Lin seqs l := by
  induction l generalizing seqs with
  | nil => exact Lin.done (merge_eq_nil h)
  | cons c l ih =>
    obtain ⟨hf, hm⟩ := merge_eq_cons h
    exact Lin.step hf (ih hm)

theorem merge_of_lin {seqs : List (List α)} {l : List α} (h : Lin seqs l) : merge seqs = some l := by
  induction h with
  | done ha => exact merge_allEmpty ha
  | step hf _ ih => rw [merge_step hf, ih]; rfl

theorem reach_stuck_of_merge_none : ∀ (n : Nat) (seqs : List (List α)), total seqs ≤ n →
    merge seqs = none → ∃ s', Reach seqs s' ∧ Stuck s' := by
  intro n
  induction n with
  | zero =>
    intro seqs hn h
    rcases merge_eq_none h with hs | ⟨c, hc, hm⟩
    · exact ⟨seqs, Reach.refl, hs⟩
    · obtain ⟨pre, t, post, e, -, -⟩ := hc
      have := total_removeCand_lt (c := c) (t := t) (seqs := seqs) (by rw [e]; simp)
      omega
  | succ n ih =>
    intro seqs hn h
    rcases merge_eq_none h with hs | ⟨c, hc, hm⟩
    · exact ⟨seqs, Reach.refl, hs⟩
    · obtain ⟨pre, t, post, e, -, -⟩ := id hc
      have := total_removeCand_lt (c := c) (t := t) (seqs := seqs) (by rw [e]; simp)
      obtain ⟨s', hr, hs'⟩ := ih (removeCand c seqs) (by omega) hm
      exact ⟨s', Reach.step hc hr, hs'⟩

theorem merge_none_of_reach {seqs s' : List (List α)} (hr : Reach seqs s') (hs : Stuck s') :
    merge seqs = none := by
  induction hr with
  | refl => exact merge_stuck hs
  | step hf _ ih => rw [merge_step hf, ih hs]; rfl

end CylcModel.C3

namespace CylcModel.C3

set_option linter.unusedSectionVars false
set_option linter.unusedVariables false

variable {α : Type} [DecidableEq α]

/-! ### the table of linearisations -/

/-- names declared in a table -/
def names (t : Table α) : List α := t.map Prod.fst

/-- one declaration processed -/
def step (t : Table α) (d : α × List α) : Table α := t ++ [(d.1, mroOf t d.1 d.2)]

def run (t : Table α) (decls : List (α × List α)) : Table α := decls.foldl step t

theorem mroAll_eq_run (decls : List (α × List α)) : mroAll decls = run [] decls := rfl

theorem run_append (t : Table α) (a b : List (α × List α)) : run t (a ++ b) = run (run t a) b := by
  simp [run, List.foldl_append]

theorem names_step (t : Table α) (d : α × List α) : names (step t d) = names t ++ [d.1] := by
  simp [names, step]

theorem names_run (t : Table α) (decls : List (α × List α)) :
    names (run t decls) = names t ++ decls.map Prod.fst := by
  induction decls generalizing t with
  | nil => simp [run]
  | cons d rest ih =>
    have : run t (d :: rest) = run (step t d) rest := rfl
    rw [this, ih, names_step]; simp

theorem get_cons (t : Table α) (y x : α) (r : Res α) :
    Table.get ((y, r) :: t) x = if x = y then r else Table.get t x := by
  unfold Table.get
  by_cases h : x = y
  · subst h; simp [List.lookup]
  · have : (x == y) = false := by simpa using h
    simp [List.lookup, this, h]

theorem get_append_of_mem {t u : Table α} {x : α} (h : x ∈ names t) :
    Table.get (t ++ u) x = Table.get t x := by
  induction t with
  | nil => simp [names] at h
  | cons e t ih =>
    obtain ⟨y, r⟩ := e
    simp only [List.cons_append, get_cons]
    by_cases hx : x = y
    · simp [hx]
    · simp only [hx, if_false]
      apply ih
      simp only [names, List.map_cons, List.mem_cons] at h
      rcases h with h | h
      · exact absurd h hx
      · exact h

theorem get_append_of_not_mem {t u : Table α} {x : α} (h : x ∉ names t) :
    Table.get (t ++ u) x = Table.get u x := by
  induction t with
  | nil => rfl
  | cons e t ih =>
    obtain ⟨y, r⟩ := e
    simp only [names, List.map_cons, List.mem_cons, not_or] at h
    simp only [List.cons_append, get_cons, h.1, if_false]
    exact ih h.2

theorem get_undef_of_not_mem {t : Table α} {x : α} (h : x ∉ names t) : Table.get t x = .undef := by
  have := get_append_of_not_mem (t := t) (u := []) h
  simpa [Table.get] using this

theorem mem_names_of_get_ok {t : Table α} {x : α} {l : List α} (h : Table.get t x = .ok l) :
    x ∈ names t := by
  apply Classical.byContradiction
  intro hn
  rw [get_undef_of_not_mem hn] at h
  cases h

theorem mem_of_get_ok {t : Table α} {x : α} {l : List α} (h : Table.get t x = .ok l) :
    (x, Res.ok l) ∈ t := by
  induction t with
  | nil => simp [Table.get] at h
  | cons e t ih =>
    obtain ⟨y, r⟩ := e
    rw [get_cons] at h
    by_cases hx : x = y
    · simp only [hx, if_true] at h
      subst h; subst hx; simp
    · simp only [hx, if_false] at h
      exact List.mem_cons_of_mem _ (ih h)

theorem get_run_of_mem {t : Table α} {x : α} (decls : List (α × List α)) (h : x ∈ names t) :
    Table.get (run t decls) x = Table.get t x := by
  induction decls generalizing t with
  | nil => rfl
  | cons d rest ih =>
    have e : run t (d :: rest) = run (step t d) rest := rfl
    rw [e, ih (by rw [names_step]; simp [h])]
    exact get_append_of_mem h

/-- well-formed hierarchy: names distinct, parents declared earlier (or never) -/
def WF (decls : List (α × List α)) : Prop :=
  (decls.map Prod.fst).Nodup ∧ topoOrdered decls = true

theorem topo_tail {d : α × List α} {rest : List (α × List α)} (h : topoOrdered (d :: rest) = true) :
    topoOrdered rest = true := by
  simp only [topoOrdered, Bool.and_eq_true] at h
  exact h.2

theorem topo_drop {pre l : List (α × List α)} (h : topoOrdered (pre ++ l) = true) :
    topoOrdered l = true := by
  induction pre with
  | nil => exact h
  | cons d pre ih => exact ih (topo_tail h)

theorem topo_head {c : α} {ps : List α} {post : List (α × List α)}
    (h : topoOrdered ((c, ps) :: post) = true) : c ∉ ps ∧ ∀ e ∈ post, e.1 ∉ ps := by
  simp only [topoOrdered, Bool.and_eq_true, List.all_eq_true, Bool.not_eq_true',
    List.contains_eq_mem, decide_eq_false_iff_not] at h
  exact ⟨h.1.2, h.1.1⟩

/-- the entry of a declaration is `mroOf` over the table of the earlier declarations -/
theorem get_run_decl {pre post : List (α × List α)} {c : α} {ps : List α}
    (hnd : ((pre ++ (c, ps) :: post).map Prod.fst).Nodup) :
    Table.get (run [] (pre ++ (c, ps) :: post)) c = mroOf (run [] pre) c ps := by
  have hc : c ∉ names (run [] pre) := by
    rw [names_run]
    simp only [names, List.map_nil, List.nil_append]
    rw [List.map_append, List.map_cons] at hnd
    intro hm
    have := (List.nodup_append.mp hnd).2.2 c hm c (by simp)
    exact this rfl
  rw [run_append]
  have e : run (run [] pre) ((c, ps) :: post) = run (step (run [] pre) (c, ps)) post := rfl
  rw [e, get_run_of_mem post (by rw [names_step]; simp)]
  unfold step
  rw [get_append_of_not_mem hc, get_cons]
  simp

theorem parentLins_congr {t t' : Table α} {ps : List α} (h : ∀ p ∈ ps, Table.get t p = Table.get t' p) :
    parentLins t ps = parentLins t' ps := by
  induction ps with
  | nil => rfl
  | cons p ps ih =>
    simp only [parentLins]
    rw [h p (by simp), ih (fun q hq => h q (List.mem_cons_of_mem _ hq))]

theorem mroOf_congr {t t' : Table α} {c : α} {ps : List α}
    (h : ∀ p ∈ ps, Table.get t p = Table.get t' p) : mroOf t c ps = mroOf t' c ps := by
  simp only [mroOf, parentLins_congr h]

/-- a parent's entry is final once its child is declared -/
theorem get_parent_stable {pre post : List (α × List α)} {c : α} {ps : List α}
    (hwf : WF (pre ++ (c, ps) :: post)) {p : α} (hp : p ∈ ps) :
    Table.get (run [] pre) p = Table.get (run [] (pre ++ (c, ps) :: post)) p := by
  obtain ⟨hc, hpost⟩ := topo_head (topo_drop hwf.2)
  by_cases hm : p ∈ names (run [] pre)
  · rw [run_append, get_run_of_mem _ hm]
  · rw [get_undef_of_not_mem hm, get_undef_of_not_mem]
    rw [names_run] at hm ⊢
    simp only [names, List.map_nil, List.nil_append, List.map_append, List.map_cons, List.mem_append,
      List.mem_cons, List.mem_map, not_or] at hm ⊢
    refine ⟨hm, fun e => hc (e ▸ hp), ?_⟩
    rintro ⟨e, he, rfl⟩
    exact hpost e he hp

/-- The table satisfies the recursive definition of `C3.mro`. -/
theorem mro_fixpoint_aux {pre post : List (α × List α)} {c : α} {ps : List α}
    (hwf : WF (pre ++ (c, ps) :: post)) :
    Table.get (mroAll (pre ++ (c, ps) :: post)) c = mroOf (mroAll (pre ++ (c, ps) :: post)) c ps := by
  rw [mroAll_eq_run, get_run_decl hwf.1]
  exact mroOf_congr fun p hp => get_parent_stable hwf hp

theorem mro_fixpoint {decls : List (α × List α)} (hwf : WF decls) {c : α} {ps : List α}
    (hd : (c, ps) ∈ decls) : Table.get (mroAll decls) c = mroOf (mroAll decls) c ps := by
  obtain ⟨pre, post, rfl⟩ := List.append_of_mem hd
  exact mro_fixpoint_aux hwf

end CylcModel.C3

namespace CylcModel.C3

set_option linter.unusedSectionVars false
set_option linter.unusedVariables false

variable {α : Type} [DecidableEq α]

/-! ### what a successful `mroOf` gives -/

theorem parentLins_error {t : Table α} {ps : List α} {e : Res α}
    (h : parentLins t ps = .error e) : e = .bad ∨ e = .undef := by
  induction ps with
  | nil => simp [parentLins] at h
  | cons p ps ih =>
    simp only [parentLins] at h
    cases hp : Table.get t p with
    | ok l =>
      simp only [hp] at h
      cases hr : parentLins t ps with
      | error e' =>
        simp only [hr, Except.map, Except.error.injEq] at h
        subst h; exact ih hr
      | ok ls' => simp [hr, Except.map] at h
    | bad => simp only [hp, Except.error.injEq] at h; exact Or.inl h.symm
    | undef => simp only [hp, Except.error.injEq] at h; exact Or.inr h.symm

theorem parentLins_ok_left {t : Table α} {ps : List α} {ls : List (List α)}
    (h : parentLins t ps = .ok ls) : ∀ p ∈ ps, ∃ l ∈ ls, Table.get t p = .ok l := by
  induction ps generalizing ls with
  | nil => intro p hp; cases hp
  | cons q ps ih =>
    simp only [parentLins] at h
    cases hq : Table.get t q with
    | ok l =>
      simp only [hq] at h
      cases hr : parentLins t ps with
      | error e => simp [hr, Except.map] at h
      | ok ls' =>
        simp only [hr, Except.map, Except.ok.injEq] at h
        subst h
        intro p hp
        rcases List.mem_cons.mp hp with rfl | hp
        · exact ⟨l, by simp, hq⟩
        · obtain ⟨l', hl', hg⟩ := ih hr p hp
          exact ⟨l', List.mem_cons_of_mem _ hl', hg⟩
    | bad => simp [hq] at h
    | undef => simp [hq] at h

theorem parentLins_ok_right {t : Table α} {ps : List α} {ls : List (List α)}
    (h : parentLins t ps = .ok ls) : ∀ l ∈ ls, ∃ p ∈ ps, Table.get t p = .ok l := by
  induction ps generalizing ls with
  | nil =>
    simp only [parentLins, Except.ok.injEq] at h
    subst h; intro l hl; cases hl
  | cons q ps ih =>
    simp only [parentLins] at h
    cases hq : Table.get t q with
    | ok l =>
      simp only [hq] at h
      cases hr : parentLins t ps with
      | error e => simp [hr, Except.map] at h
      | ok ls' =>
        simp only [hr, Except.map, Except.ok.injEq] at h
        subst h
        intro l' hl'
        rcases List.mem_cons.mp hl' with rfl | hl'
        · exact ⟨q, by simp, hq⟩
        · obtain ⟨p, hp, hg⟩ := ih hr l' hl'
          exact ⟨p, List.mem_cons_of_mem _ hp, hg⟩
    | bad => simp [hq] at h
    | undef => simp [hq] at h

/-- unpack `mroOf t c ps = ok L` -/
theorem mroOf_ok {t : Table α} {c : α} {ps L : List α} (h : mroOf t c ps = .ok L) :
    ∃ ls, parentLins t ps = .ok ls ∧ merge ([c] :: ls ++ [ps]) = some L := by
  unfold mroOf at h
  cases hp : parentLins t ps with
  | error e =>
    simp only [hp] at h
    rcases parentLins_error hp with rfl | rfl <;> cases h
  | ok ls =>
    simp only [hp] at h
    cases hm : merge ([c] :: ls ++ [ps]) with
    | none => rw [hm] at h; cases h
    | some l =>
      rw [hm] at h
      simp only [Res.ok.injEq] at h
      subst h
      exact ⟨ls, rfl, hm⟩

end CylcModel.C3

namespace CylcModel.C3

set_option linter.unusedSectionVars false
set_option linter.unusedVariables false

variable {α : Type} [DecidableEq α]

/-! ### linearisations only mention declared names -/

theorem mem_seqs {c : α} {ls : List (List α)} {ps s : List α} :
    s ∈ [c] :: ls ++ [ps] ↔ s = [c] ∨ s ∈ ls ∨ s = ps := by
  simp

def Closed (t : Table α) : Prop := ∀ x l, (x, Res.ok l) ∈ t → ∀ y ∈ l, y ∈ names t

theorem closed_nil : Closed ([] : Table α) := by
  intro x l h; cases h

theorem closed_step {t : Table α} (h : Closed t) (d : α × List α) : Closed (step t d) := by
  intro x l hx y hy
  rw [names_step]
  simp only [step, List.mem_append, List.mem_singleton, Prod.mk.injEq] at hx
  rcases hx with hx | ⟨rfl, hx⟩
  · exact List.mem_append_left _ (h x l hx y hy)
  · obtain ⟨ls, hp, hm⟩ := mroOf_ok hx.symm
    obtain ⟨s, hs, hys⟩ := (merge_mem hm y).mp hy
    rw [mem_seqs] at hs
    rcases hs with rfl | hs | rfl
    · simp only [List.mem_singleton] at hys
      subst hys; simp
    · obtain ⟨p, hpp, hg⟩ := parentLins_ok_right hp s hs
      exact List.mem_append_left _ (h p s (mem_of_get_ok hg) y hys)
    · obtain ⟨l', _, hg⟩ := parentLins_ok_left hp y hys
      exact List.mem_append_left _ (mem_names_of_get_ok hg)

theorem closed_run {t : Table α} (h : Closed t) (decls : List (α × List α)) : Closed (run t decls) := by
  induction decls generalizing t with
  | nil => exact h
  | cons d rest ih => exact ih (closed_step h d)

/-- Everything the property theorems need about one entry of the table. -/
theorem mro_facts_aux {pre post : List (α × List α)} {c : α} {ps L : List α}
    (hwf : WF (pre ++ (c, ps) :: post))
    (h : Table.get (mroAll (pre ++ (c, ps) :: post)) c = .ok L) :
    ∃ ls, parentLins (mroAll (pre ++ (c, ps) :: post)) ps = .ok ls ∧
      merge ([c] :: ls ++ [ps]) = some L ∧ (∀ l ∈ ls, c ∉ l) ∧ c ∉ ps := by
  have hfix := mro_fixpoint_aux hwf
  rw [h] at hfix
  obtain ⟨ls, hp, hm⟩ := mroOf_ok hfix.symm
  refine ⟨ls, hp, hm, ?_, (topo_head (topo_drop hwf.2)).1⟩
  intro l hl hc
  obtain ⟨p, hpp, hg⟩ := parentLins_ok_right hp l hl
  rw [mroAll_eq_run, ← get_parent_stable hwf hpp] at hg
  have hcl : Closed (run ([] : Table α) pre) := closed_run closed_nil pre
  have := hcl p l (mem_of_get_ok hg) c hc
  rw [names_run] at this
  simp only [names, List.map_nil, List.nil_append] at this
  have hnd := hwf.1
  rw [List.map_append, List.map_cons] at hnd
  exact (List.nodup_append.mp hnd).2.2 c this c (by simp) rfl

theorem mro_facts {decls : List (α × List α)} (hwf : WF decls) {c : α} {ps L : List α}
    (hd : (c, ps) ∈ decls) (h : Table.get (mroAll decls) c = .ok L) :
    ∃ ls, parentLins (mroAll decls) ps = .ok ls ∧
      merge ([c] :: ls ++ [ps]) = some L ∧ (∀ l ∈ ls, c ∉ l) ∧ c ∉ ps := by
  obtain ⟨pre, post, rfl⟩ := List.append_of_mem hd
  exact mro_facts_aux hwf h

theorem decl_unique {decls : List (α × List α)} (hnd : (decls.map Prod.fst).Nodup) {c : α}
    {ps ps' : List α} (h : (c, ps) ∈ decls) (h' : (c, ps') ∈ decls) : ps = ps' := by
  induction decls with
  | nil => cases h
  | cons d rest ih =>
    simp only [List.map_cons, List.nodup_cons] at hnd
    rcases List.mem_cons.mp h with h | h <;> rcases List.mem_cons.mp h' with h' | h'
    · rw [← h] at h'; exact (Prod.mk.inj h').2.symm
    · exfalso; apply hnd.1; rw [← h]
      exact List.mem_map.mpr ⟨(c, ps'), h', rfl⟩
    · exfalso; apply hnd.1; rw [← h']
      exact List.mem_map.mpr ⟨(c, ps), h, rfl⟩
    · exact ih hnd.2 h h'

theorem declared_of_get_ok {decls : List (α × List α)} {p : α} {l : List α}
    (h : Table.get (mroAll decls) p = .ok l) : ∃ ps, (p, ps) ∈ decls := by
  have := mem_names_of_get_ok h
  rw [mroAll_eq_run, names_run] at this
  simp only [names, List.map_nil, List.nil_append, List.mem_map] at this
  obtain ⟨⟨a, b⟩, hab, rfl⟩ := this
  exact ⟨b, hab⟩

/-- the inheritance relation: reflexive-transitive closure of "is a declared parent of" -/
inductive Anc (decls : List (α × List α)) : α → α → Prop where
  | self (c : α) : Anc decls c c
  | parent {c p x : α} {ps : List α} : (c, ps) ∈ decls → p ∈ ps → Anc decls p x → Anc decls c x

theorem head_mem {l : List α} {c : α} (h : l.head? = some c) : c ∈ l := by
  cases l with
  | nil => cases h
  | cons a t => simp only [List.head?_cons, Option.some.injEq] at h; simp [h]

theorem mro_head_of_facts {c : α} {ps L : List α} {ls : List (List α)}
    (hm : merge ([c] :: ls ++ [ps]) = some L) (hls : ∀ l ∈ ls, c ∉ l) (hps : c ∉ ps) :
    L.head? = some c := by
  apply merge_head hm
  rintro ⟨s, hs, hc⟩
  replace hs : s ∈ [c] :: ls ++ [ps] := hs
  rw [mem_seqs] at hs
  rcases hs with rfl | hs | rfl
  · simp at hc
  · exact hls s hs (List.mem_of_mem_tail hc)
  · exact hps (List.mem_of_mem_tail hc)

theorem mem_anc_aux {decls : List (α × List α)} (hwf : WF decls) :
    ∀ (n : Nat) (c : α) (ps L : List α), (c, ps) ∈ decls → Table.get (mroAll decls) c = .ok L →
      L.length ≤ n → ∀ x, x ∈ L → Anc decls c x := by
  intro n
  induction n with
  | zero =>
    intro c ps L hd hg hn x hx
    have : L = [] := List.eq_nil_of_length_eq_zero (by omega)
    subst this; cases hx
  | succ n ih =>
    intro c ps L hd hg hn x hx
    obtain ⟨ls, hp, hm, hls, hps⟩ := mro_facts hwf hd hg
    obtain ⟨s, hs, hxs⟩ := (merge_mem hm x).mp hx
    rw [mem_seqs] at hs
    rcases hs with rfl | hs | rfl
    · simp only [List.mem_singleton] at hxs
      subst hxs; exact Anc.self _
    · obtain ⟨p, hpp, hgp⟩ := parentLins_ok_right hp s hs
      obtain ⟨ps', hd'⟩ := declared_of_get_ok hgp
      have hsub : s.Sublist L := merge_sublist hm s (mem_seqs.mpr (Or.inr (Or.inl hs)))
      have hcL : c ∈ L := head_mem (mro_head_of_facts hm hls hps)
      have hlt : s.length < L.length := by
        rcases Nat.lt_or_ge s.length L.length with h | h
        · exact h
        · have := hsub.eq_of_length_le h
          subst this
          exact absurd hcL (hls s hs)
      exact Anc.parent hd hpp (ih p ps' s hd' hgp (by omega) x hxs)
    · exact Anc.parent hd hxs (Anc.self _)

theorem anc_mem {decls : List (α × List α)} (hwf : WF decls) {c x : α} (ha : Anc decls c x) :
    ∀ (ps L : List α), (c, ps) ∈ decls → Table.get (mroAll decls) c = .ok L → x ∈ L := by
  induction ha with
  | self c =>
    intro ps L hd hg
    obtain ⟨ls, hp, hm, hls, hps⟩ := mro_facts hwf hd hg
    exact head_mem (mro_head_of_facts hm hls hps)
  | @parent c p x ps' hd' hpp _ ih =>
    intro ps L hd hg
    have := decl_unique hwf.1 hd hd'
    subst this
    obtain ⟨ls, hp, hm, hls, hps⟩ := mro_facts hwf hd hg
    obtain ⟨l, hl, hgp⟩ := parentLins_ok_left hp p hpp
    obtain ⟨ps'', hd''⟩ := declared_of_get_ok hgp
    have hx := ih ps'' l hd'' hgp
    exact (merge_sublist hm l (mem_seqs.mpr (Or.inr (Or.inl hl)))).subset hx

end CylcModel.C3

namespace CylcModel.C3

set_option linter.unusedSectionVars false
set_option linter.unusedVariables false

variable {α : Type} [DecidableEq α]

/-! ### a kernel-reducible copy of `merge`, used only to evaluate concrete examples -/

def mergeF : Nat → List (List α) → Option (List α)
  | 0, _ => none
  | n + 1, seqs =>
    if nonEmpty seqs = [] then some []
    else match findCand seqs seqs with
      | none => none
      | some c => (mergeF n (removeCand c seqs)).map (c :: ·)

theorem mergeF_eq : ∀ (n : Nat) (seqs : List (List α)), total seqs < n → mergeF n seqs = merge seqs := by
  intro n
  induction n with
  | zero => intro seqs h; omega
  | succ n ih =>
    intro seqs h
    rw [merge_unfold]
    simp only [mergeF]
    split
    · rfl
    · cases hf : findCand seqs seqs with
      | none => rfl
      | some c =>
        obtain ⟨t, ht⟩ := findCand_head hf
        have := total_removeCand_lt ht
        simp only
        rw [ih _ (by omega)]

/-- parents in declared order, after the class itself -/
theorem cons_sublist_of {c : α} {ps L : List α} (hh : L.head? = some c) (hs : ps.Sublist L)
    (hc : c ∉ ps) : (c :: ps).Sublist L := by
  cases L with
  | nil => cases hh
  | cons a L' =>
    simp only [List.head?_cons, Option.some.injEq] at hh
    subst hh
    cases hs with
    | cons _ h => exact h.cons_cons a
    | cons_cons _ h => exact absurd (by simp) hc

theorem parentLins_bad_iff {t : Table α} {ps : List α} (hu : ∀ p ∈ ps, Table.get t p ≠ .undef) :
    (∃ e, parentLins t ps = .error e) ↔ ∃ p ∈ ps, Table.get t p = .bad := by
  constructor
  · rintro ⟨e, he⟩
    induction ps generalizing e with
    | nil => simp [parentLins] at he
    | cons q ps ih =>
      simp only [parentLins] at he
      cases hq : Table.get t q with
      | ok l =>
        simp only [hq] at he
        cases hr : parentLins t ps with
        | error e' =>
          obtain ⟨p, hp, hb⟩ := ih (fun p hp => hu p (List.mem_cons_of_mem _ hp)) _ hr
          exact ⟨p, List.mem_cons_of_mem _ hp, hb⟩
        | ok ls' => simp [hr, Except.map] at he
      | bad => exact ⟨q, by simp, hq⟩
      | undef => exact absurd hq (hu q (by simp))
  · rintro ⟨p, hp, hb⟩
    cases hr : parentLins t ps with
    | error e => exact ⟨e, rfl⟩
    | ok ls =>
      obtain ⟨l, _, hg⟩ := parentLins_ok_left hr p hp
      rw [hb] at hg; cases hg

theorem parentLins_error_bad {t : Table α} {ps : List α} (hu : ∀ p ∈ ps, Table.get t p ≠ .undef)
    {e : Res α} (h : parentLins t ps = .error e) : e = .bad := by
  induction ps generalizing e with
  | nil => simp [parentLins] at h
  | cons q ps ih =>
    simp only [parentLins] at h
    cases hq : Table.get t q with
    | ok l =>
      simp only [hq] at h
      cases hr : parentLins t ps with
      | error e' =>
        simp only [hr, Except.map, Except.error.injEq] at h
        subst h
        exact ih (fun p hp => hu p (List.mem_cons_of_mem _ hp)) hr
      | ok ls' => simp [hr, Except.map] at h
    | bad => simp only [hq, Except.error.injEq] at h; exact h.symm
    | undef => exact absurd hq (hu q (by simp))

end CylcModel.C3
