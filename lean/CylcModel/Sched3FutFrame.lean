/-
The generic pass of `Sched3FutLemmas.Frame`: `Holds Q J` is preserved by every primitive of the `Sched3Fut` model
(one lemma per primitive).  The three places where an invariant needs its own argument - the release step
(`releaseRunahead`), `setStopPoint` and `restart` - take that argument as a hypothesis.
-/
import CylcModel.Sched3FutLemmas

namespace CylcModel.Sched3Fut

variable {g : Graph} {Q : Proxy → Prop} {J : State → Prop}

/-! ### touch, computeRunahead, setMaxFut: the pool is not touched -/

theorem pool_touch (g : Graph) (s : State) (n : String) (p : Int) : (touch g s n p).pool = s.pool := by
  unfold touch; split
  · rfl
  · split
    · rfl
    · split <;> rfl

theorem pool_computeRunahead (g : Graph) (s : State) (f : Bool) : (computeRunahead g s f).pool = s.pool := by
  unfold computeRunahead
  simp only
  split
  · rfl
  · split <;> rfl

theorem pool_setMaxFut (g : Graph) (s : State) : (setMaxFut g s).pool = s.pool := by
  unfold setMaxFut
  simp only
  split
  · rw [pool_computeRunahead]
  · rfl

theorem holds_of_pool_core (F : Frame g Q J) (s s' : State) (hp : s'.pool = s.pool) (hc : core s' = core s)
    (h : Holds Q J s) : Holds Q J s' :=
  ⟨fun x hx => h.1 x (hp ▸ hx), F.jcongr s s' hc h.2⟩

theorem holds_touch (F : Frame g Q J) (s : State) (n : String) (p : Int) (h : Holds Q J s) :
    Holds Q J (touch g s n p) :=
  ⟨fun x hx => h.1 x (pool_touch g s n p ▸ hx), F.jtouch s n p h.2⟩

theorem holds_computeRunahead (F : Frame g Q J) (s : State) (f : Bool) (h : Holds Q J s) :
    Holds Q J (computeRunahead g s f) :=
  ⟨fun x hx => h.1 x (pool_computeRunahead g s f ▸ hx), F.jcompute s f h.2⟩

theorem holds_put (F : Frame g Q J) {s : State} {x : Proxy} (h : Holds Q J s) (hx : Q x) : Holds Q J (s.put x) := by
  refine ⟨?_, F.jcongr _ _ (core_put s x) h.2⟩
  intro y hy
  rcases mem_put hy with rfl | hy
  · exact hx
  · exact h.1 y hy

theorem holds_get? {s : State} {p : Int} {n : String} {x : Proxy} (h : Holds Q J s) (hg : s.get? p n = some x) : Q x :=
  h.1 x (get?_mem hg)

/-! ### spawnTask -/

theorem find?_map_set (n : String) (k : Int) : ∀ l : List (String × Int),
    (l.map fun e => if (e.1 == n) = true then (n, k) else e).find? (fun x => x.1 == n) =
      (l.find? (fun x => x.1 == n)).map fun _ => (n, k) := by
  intro l
  induction l with
  | nil => rfl
  | cons e l ih =>
    simp only [List.map_cons, List.find?_cons]
    by_cases he : (e.1 == n) = true
    · simp [he]
    · simp only [he, Bool.false_eq_true, if_false]
      exact ih

theorem offOf_touch_self (g : Graph) (s : State) (n : String) (p : Int) :
    ∀ k, instOff g n p = some k → ∃ k', (touch g s n p).offOf n = some k' ∧ k ≤ k' := by
  intro k hk
  unfold touch
  rw [hk]
  simp only
  cases h0 : s.offOf n with
  | none =>
    simp only
    refine ⟨k, ?_, Int.le_refl _⟩
    unfold State.offOf at h0 ⊢
    simp only [List.find?_append]
    cases hf : List.find? (fun x => x.1 == n) s.tdefOff with
    | some v => simp [hf] at h0
    | none => simp
  | some k0 =>
    simp only
    split
    · refine ⟨k, ?_, Int.le_refl _⟩
      unfold State.offOf at h0 ⊢
      simp only
      rw [find?_map_set]
      cases hf : List.find? (fun x => x.1 == n) s.tdefOff with
      | none => simp [hf] at h0
      | some v => simp
    · exact ⟨k0, h0, by omega⟩

theorem pool_holdOnSpawn (s : State) (n : String) (p : Int) (y : Proxy) : (holdOnSpawn s n p y).1.pool = s.pool := by
  unfold holdOnSpawn
  split
  · rfl
  · split
    · split <;> rfl
    · rfl

theorem core_holdOnSpawn (s : State) (n : String) (p : Int) (y : Proxy) : core (holdOnSpawn s n p y).1 = core s := by
  unfold holdOnSpawn
  split
  · rfl
  · split
    · split <;> rfl
    · rfl

theorem offOf_holdOnSpawn (s : State) (n : String) (p : Int) (y : Proxy) (m : String) :
    (holdOnSpawn s n p y).1.offOf m = s.offOf m := by
  unfold holdOnSpawn
  split
  · rfl
  · split
    · split <;> rfl
    · rfl

theorem key_holdOnSpawn (s : State) (n : String) (p : Int) (y : Proxy) :
    (holdOnSpawn s n p y).2.pt = y.pt ∧ (holdOnSpawn s n p y).2.name = y.name := by
  unfold holdOnSpawn
  split
  · exact ⟨reset_pt _ _ _ _ _, reset_name _ _ _ _ _⟩
  · split
    · split
      · exact ⟨reset_pt _ _ _ _ _, reset_name _ _ _ _ _⟩
      · exact ⟨rfl, rfl⟩
    · exact ⟨rfl, rfl⟩

theorem key_absSatisfy (g : Graph) (s : State) (n : String) (y : Proxy) :
    (absSatisfy g s n y).pt = y.pt ∧ (absSatisfy g s n y).name = y.name := by
  unfold absSatisfy
  split
  · split
    · exact ⟨foldl_satisfyMe_pt _ _, foldl_satisfyMe_name _ _⟩
    · exact ⟨rfl, rfl⟩
  · exact ⟨rfl, rfl⟩

theorem key_mkProxy {g : Graph} {n : String} {p : Int} {x : Proxy} (h : mkProxy g n p = some x) :
    x.pt = p ∧ x.name = n := by
  unfold mkProxy at h
  cases ht : g.task? n with
  | none => simp [ht] at h
  | some t =>
    simp only [ht, Option.bind_eq_bind, Option.bind_some] at h
    split at h
    · simp at h
    · cases hd : t.inst? p with
      | none => simp [hd] at h
      | some d =>
        simp [hd] at h
        subst h
        exact ⟨rfl, rfl⟩

theorem key_revive {g : Graph} {n : String} {hist : Option Hist} {x y : Proxy} (h : revive g n hist x = some y) :
    y.pt = x.pt ∧ y.name = x.name := by
  unfold revive at h
  split at h
  · simp at h; subst h; exact ⟨rfl, rfl⟩
  · split at h
    · simp at h
    · split at h
      · split at h
        · split at h
          · simp at h
          · simp at h; subst h; exact ⟨rfl, rfl⟩
        · simp at h
      · simp at h; subst h; exact ⟨rfl, rfl⟩

theorem pool_refuse (s : State) (n : String) (p : Int) (h : Option Hist) : (refuse s n p h).pool = s.pool := by
  unfold refuse; split <;> rfl

theorem core_refuse (s : State) (n : String) (p : Int) (h : Option Hist) : core (refuse s n p h) = core s := by
  unfold refuse; split <;> rfl

theorem pool_spawnTask (g : Graph) (s : State) (n : String) (p : Int) : (spawnTask g s n p).1.pool = s.pool := by
  unfold spawnTask
  split
  · rfl
  · split
    · rfl
    · split
      · exact pool_touch _ _ _ _
      · simp only
        split
        · rw [pool_refuse, pool_holdOnSpawn, pool_touch]
        · rw [pool_holdOnSpawn, pool_touch]

theorem holds_spawnTask (F : Frame g Q J) (s : State) (n : String) (p : Int) (h : Holds Q J s) :
    Holds Q J (spawnTask g s n p).1 := by
  unfold spawnTask
  split
  · exact h
  · split
    · exact h
    · split
      · exact holds_touch F _ _ _ h
      · rename_i y0 _
        simp only
        have h1 := holds_touch F s n p h
        have h2 : Holds Q J (holdOnSpawn (touch g s n p) n p y0).1 :=
          holds_of_pool_core F _ _ (pool_holdOnSpawn _ _ _ y0) (core_holdOnSpawn _ _ _ y0) h1
        split
        · exact holds_of_pool_core F _ _ (pool_refuse _ _ _ _) (core_refuse _ _ _ _) h2
        · exact h2

/-- the only way `spawn_task` returns a proxy -/
theorem spawnTask_some_eq {g : Graph} {s : State} {n : String} {p : Int} {y : Proxy}
    (h : (spawnTask g s n p).2 = some y) :
    ∃ x y0, mkProxy g n p = some x ∧ revive g n (histOf s n p) x = some y0 ∧
      beyondStop (holdOnSpawn (touch g s n p) n p y0).1 p (holdOnSpawn (touch g s n p) n p y0).2 = false ∧
      spawnTask g s n p = ((holdOnSpawn (touch g s n p) n p y0).1,
        some (absSatisfy g (holdOnSpawn (touch g s n p) n p y0).1 n (holdOnSpawn (touch g s n p) n p y0).2)) := by
  by_cases hw : ((histOf s n p).isNone && decide (p < g.start)) = true
  · simp [spawnTask, hw] at h
  · cases hm : mkProxy g n p with
    | none => simp [spawnTask, hw, hm] at h
    | some x =>
      cases hr : revive g n (histOf s n p) x with
      | none => simp [spawnTask, hw, hm, hr] at h
      | some y0 =>
        by_cases hb : beyondStop (holdOnSpawn (touch g s n p) n p y0).1 p (holdOnSpawn (touch g s n p) n p y0).2 = true
        · simp [spawnTask, hw, hm, hr, hb] at h
        · refine ⟨x, y0, rfl, hr, by simpa using hb, ?_⟩
          simp [spawnTask, hw, hm, hr, hb]

/-- what `spawn_task` returns is an instance `p/n` whose task definition has been touched at `p` -/
theorem spawnTask_some {g : Graph} {s : State} {n : String} {p : Int} {y : Proxy}
    (h : (spawnTask g s n p).2 = some y) :
    y.pt = p ∧ y.name = n ∧ Touched g (spawnTask g s n p).1 y := by
  obtain ⟨x, y0, hx, hy0, _, heq⟩ := spawnTask_some_eq h
  rw [heq] at h ⊢
  simp only [Option.some.injEq] at h
  subst h
  have k1 := key_mkProxy hx
  have k2 := key_revive hy0
  have k3 := key_holdOnSpawn (touch g s n p) n p y0
  have k4 := key_absSatisfy g (holdOnSpawn (touch g s n p) n p y0).1 n (holdOnSpawn (touch g s n p) n p y0).2
  have hpt : (absSatisfy g (holdOnSpawn (touch g s n p) n p y0).1 n (holdOnSpawn (touch g s n p) n p y0).2).pt = p := by
    rw [k4.1, k3.1, k2.1, k1.1]
  have hnm : (absSatisfy g (holdOnSpawn (touch g s n p) n p y0).1 n (holdOnSpawn (touch g s n p) n p y0).2).name = n := by
    rw [k4.2, k3.2, k2.2, k1.2]
  refine ⟨hpt, hnm, ?_⟩
  intro k hk
  rw [hpt, hnm] at hk
  rw [hnm]
  simp only
  rw [offOf_holdOnSpawn]
  exact offOf_touch_self g s n p k hk

/-! ### add_to_pool and parentless spawning -/

theorem pool_ghostTouch (g : Graph) (s : State) (x : Proxy) : (ghostTouch g s x).pool = s.pool := by
  unfold ghostTouch
  exact foldl_inv (fun st : State => st.pool = s.pool) _ (by intro st k h; rw [pool_touch]; exact h) _ _ rfl

theorem pool_enterPool (g : Graph) (s : State) (x : Proxy) : (enterPool g s x).pool = insertBucket x s.pool := by
  unfold enterPool; rw [pool_ghostTouch]

/-- the pool after `add_to_pool` of a new key -/
theorem pool_add (g : Graph) (s : State) (x : Proxy) (h : s.get? x.pt x.name = none) :
    (State.add g s x).pool = insertBucket x s.pool := by
  unfold State.add
  simp only [h, Option.isSome_none, Bool.false_eq_true, if_false]
  split
  · rw [pool_setMaxFut, pool_enterPool]
  · rw [pool_enterPool]

theorem mem_add {g : Graph} {s : State} {x y : Proxy} (h : y ∈ (State.add g s x).pool) : y = x ∨ y ∈ s.pool := by
  cases hg : s.get? x.pt x.name with
  | some v =>
    have : State.add g s x = s := by unfold State.add; simp [hg]
    rw [this] at h; exact Or.inr h
  | none =>
    rw [pool_add g s x hg] at h
    exact (mem_insertBucket x y s.pool).mp h

theorem holds_add (F : Frame g Q J) (s : State) (x : Proxy) (h : Holds Q J s) (hx : Q x) (ht : Touched g s x) :
    Holds Q J (State.add g s x) := by
  refine ⟨?_, F.jadd s x h.2 ht⟩
  intro y hy
  rcases mem_add hy with rfl | hy
  · exact hx
  · exact h.1 y hy

theorem holds_spawnAndAdd (F : Frame g Q J) (s : State) (n : String) (p : Int) (h : Holds Q J s) :
    Holds Q J (spawnAndAdd g s n p) := by
  unfold spawnAndAdd
  split
  · exact h
  · split
    · rename_i x hx
      exact holds_add F _ _ (holds_spawnTask F s n p h) (F.qspawn s n p x h.2 hx) (spawnTask_some hx).2.2
    · exact holds_spawnTask F s n p h

theorem holds_spawnNextParentless (F : Frame g Q J) (s : State) (x : Proxy) (h : Holds Q J s) :
    Holds Q J (spawnNextParentless g s x) := by
  unfold spawnNextParentless
  split
  · exact h
  · split
    · exact holds_spawnAndAdd F _ _ _ h
    · exact h

/-! ### the release step: the flip of `is_runahead` is the caller's business -/

theorem holds_releaseOne (F : Frame g Q J) (s : State) (x : Proxy) (h : Holds Q J s)
    (hrel : ∀ y, s.get? x.pt x.name = some y → Q (y.reset (runahead := some false))) :
    Holds Q J (releaseOne g s x) := by
  unfold releaseOne
  apply holds_spawnNextParentless F
  split
  · rename_i y hy
    exact holds_put F h (hrel y hy)
  · exact h

theorem mem_releaseMe {s : State} {lim : Int} {x : Proxy} (h : x ∈ releaseMe s lim) :
    x ∈ s.pool ∧ x.pt ≤ lim ∧ x.runahead = true := by
  unfold releaseMe at h
  have := List.mem_filter.mp h
  simp only [Bool.and_eq_true, decide_eq_true_eq] at this
  exact ⟨this.1, this.2.1, this.2.2⟩

/-- `release_runahead_tasks`: whatever is released lies at or before the limit the call started with -/
theorem holds_releaseRunahead (F : Frame g Q J) (s : State) (h : Holds Q J s)
    (hrel : ∀ lim y, s.rhLimit = some lim → y.pt ≤ lim → Q y → Q (y.reset (runahead := some false))) :
    Holds Q J (releaseRunahead g s).1 := by
  unfold releaseRunahead
  split
  · exact h
  · rename_i lim hlim
    split
    · exact h
    · simp only
      apply foldl_inv_mem (Holds Q J)
      · intro st x hx hst
        apply holds_releaseOne F st x hst
        intro y hy
        apply hrel lim y hlim _ (holds_get? hst hy)
        rw [(get?_key hy).1]
        exact (mem_releaseMe hx).2.1
      · exact h

/-! ### queueing, holding -/

theorem isReady_waiting {x : Proxy} (h : x.isReadyToRun = true) : x.status = .waiting := by
  unfold Proxy.isReadyToRun at h
  simp only [Bool.and_eq_true, beq_iff_eq] at h
  exact h.1.1.2

theorem holds_queueIfReady (F : Frame g Q J) (s : State) (x : Proxy) (h : Holds Q J s) (hx : Q x) :
    Holds Q J (queueIfReady s x) := by
  unfold queueIfReady
  split
  · rename_i hc
    simp only [Bool.and_eq_true, Bool.not_eq_eq_eq_not, Bool.not_true] at hc
    exact holds_put F h (F.qqueue x hx hc.1.2 (isReady_waiting hc.2))
  · exact h

theorem holds_holdActive (F : Frame g Q J) (s : State) (x : Proxy) (h : Holds Q J s) (hx : Q x) :
    Holds Q J (holdActive s x) := by
  unfold holdActive
  simp only
  have h1 : Holds Q J (s.put (x.reset (held := some true))) :=
    holds_put F h (F.qupd _ _ hx (upd_reset x none none _ (by simp) (by simp)))
  split
  · exact h1
  · exact holds_of_pool_core F (s.put (x.reset (held := some true))) _ rfl rfl h1

theorem reset_held_runahead (x : Proxy) (b : Option Bool) : (x.reset (held := b)).runahead = x.runahead := by
  unfold Proxy.reset; simp only; split <;> rfl

theorem holds_releaseHeldActive (F : Frame g Q J) (s : State) (x : Proxy) (h : Holds Q J s) (hx : Q x) :
    Holds Q J (releaseHeldActive s x) := by
  unfold releaseHeldActive
  simp only
  refine holds_of_pool_core F (if x.held = true then _ else s) _ rfl rfl ?_
  split
  · have hy : Q (x.reset (held := some false)) := F.qupd _ _ hx (upd_reset x none none _ (by simp) (by simp))
    apply holds_put F h
    split
    · rename_i hc
      simp only [Bool.and_eq_true, Bool.not_eq_eq_eq_not, Bool.not_true] at hc
      exact F.qqueue _ hy hc.1 (isReady_waiting hc.2)
    · exact hy
  · exact h

/-! ### removal -/

theorem holds_dropKey (F : Frame g Q J) (s : State) (x : Proxy) (h : Holds Q J s) : Holds Q J (dropKey g s x) := by
  refine ⟨?_, F.jdrop s x h.2⟩
  intro y hy
  unfold dropKey at hy
  split at hy
  · rw [pool_setMaxFut] at hy
    exact h.1 y (List.mem_filter.mp hy).1
  · exact h.1 y (List.mem_filter.mp hy).1

theorem holds_remove (F : Frame g Q J) (s : State) (x : Proxy) (h : Holds Q J s) (hx : Q x) :
    Holds Q J (remove g s x) := by
  unfold remove
  simp only
  have h1 := holds_releaseHeldActive F s x h hx
  apply holds_dropKey F
  split
  · exact holds_spawnNextParentless F _ _ h1
  · exact h1

theorem holds_removeIfComplete (F : Frame g Q J) (s : State) (x : Proxy) (h : Holds Q J s) (hx : Q x) :
    Holds Q J (removeIfComplete g s x) := by
  unfold removeIfComplete
  split
  · exact h
  · simp only
    have h0 : Holds Q J (if (s.stopTask == some (x.pt, x.name)) = true then { s with stopTaskFinished := true } else s) := by
      split
      · exact holds_of_pool_core F s _ rfl rfl h
      · exact h
    split
    · exact h0
    · split
      · exact holds_remove F _ _ h0 hx
      · exact h0

/-! ### spawn_on_output -/

theorem holds_recordAbs (F : Frame g Q J) (st : State) (c : Child) (a : Atom) (h : Holds Q J st) :
    Holds Q J (recordAbs st c a) := by
  unfold recordAbs
  simp only
  have h0 : Holds Q J (if (c.isAbs && !st.absDone.contains a) = true then { st with absDone := st.absDone ++ [a] } else st) := by
    split
    · exact holds_of_pool_core F st _ rfl rfl h
    · exact h
  split
  · exact holds_of_pool_core F (if (c.isAbs && !st.absDone.contains a) = true then { st with absDone := st.absDone ++ [a] } else st) _ rfl rfl h0
  · exact h0

theorem holds_satisfyTargets (F : Frame g Q J) (a : Atom) : ∀ (ks : List (Int × String)) (acc : State × List (Int × String)),
    Holds Q J acc.1 → Holds Q J (satisfyTargets a acc ks).1 := by
  intro ks
  unfold satisfyTargets
  induction ks with
  | nil => intro acc h; exact h
  | cons k ks ih =>
    intro acc h
    simp only [List.foldl_cons]
    apply ih
    split
    · exact h
    · rename_i z hz
      exact holds_put F h (F.qupd _ _ (holds_get? h hz) (upd_satisfyMe _ _))

theorem holds_spawnChild (F : Frame g Q J) (p : Int) (n out : String) (acc : State × List (Int × String))
    (c : Child) (h : Holds Q J acc.1) : Holds Q J (spawnChild g p n out acc c).1 := by
  unfold spawnChild
  simp only
  have h0 := holds_recordAbs F acc.1 c ⟨p, n, out⟩ h
  generalize recordAbs acc.1 c ⟨p, n, out⟩ = st0 at h0 ⊢
  split
  · exact holds_satisfyTargets F _ _ _ h0
  · split
    · exact holds_spawnTask F _ _ _ h0
    · rename_i y hy
      apply holds_satisfyTargets F
      exact holds_add F _ _ (holds_spawnTask F _ _ _ h0)
        (F.qupd _ _ (F.qspawn _ _ _ y h0.2 hy) (upd_satisfyMe _ _)) (spawnTask_some hy).2.2

theorem holds_removeSuicides (F : Frame g Q J) : ∀ (ks : List (Int × String)) (s : State), Holds Q J s →
    Holds Q J (removeSuicides g s ks) := by
  intro ks
  unfold removeSuicides
  induction ks with
  | nil => intro s h; exact h
  | cons k ks ih =>
    intro s h
    simp only [List.foldl_cons]
    apply ih
    split
    · rename_i z hz
      exact holds_remove F _ _ h (holds_get? h hz)
    · exact h

theorem holds_spawnOnOutput (F : Frame g Q J) (s : State) (p : Int) (n out : String) (h : Holds Q J s) :
    Holds Q J (spawnOnOutput g s p n out) := by
  unfold spawnOnOutput
  split
  · exact h
  · simp only
    have h1 : ∀ (cs : List Child) (acc : State × List (Int × String)), Holds Q J acc.1 →
        Holds Q J (cs.foldl (spawnChild g p n out) acc).1 := by
      intro cs; induction cs with
      | nil => intro acc ha; exact ha
      | cons c cs ih => intro acc ha; exact ih _ (holds_spawnChild F p n out acc c ha)
    generalize hR : (List.foldl (spawnChild g p n out) (s, []) _) = R
    have hRn : Holds Q J R.1 := by rw [← hR]; exact h1 _ _ h
    have h3 := holds_removeSuicides F R.2 R.1 hRn
    split
    · rename_i x' hx'
      exact holds_removeIfComplete F _ _ h3 (holds_get? h3 hx')
    · exact h3

/-! ### messages -/

theorem holds_store (F : Frame g Q J) {s : State} {x : Proxy} {tr : Bool} (h : Holds Q J s)
    (hx : tr = false → Q x) : Holds Q J (store s x tr) := by
  unfold store
  split
  · exact holds_of_pool_core F s _ rfl rfl h
  · rename_i htr
    exact holds_put F h (hx (by simpa using htr))

theorem holds_spawnChildren (F : Frame g Q J) (s : State) (p : Int) (n out : String) (tr : Bool)
    (h : Holds Q J s) : Holds Q J (spawnChildren g s p n out tr) := by
  unfold spawnChildren; split
  · exact h
  · exact holds_spawnOnOutput F _ _ _ _ h

theorem lookup_holds {s : State} {p : Int} {n : String} {x : Proxy} {tr : Bool} (h : Holds Q J s)
    (hl : lookup s p n = some (x, tr)) (htr : tr = false) : Q x := by
  unfold lookup at hl
  split at hl
  · rename_i y hy
    simp only [Option.some.injEq, Prod.mk.injEq] at hl
    obtain ⟨rfl, _⟩ := hl
    exact holds_get? h hy
  · simp only [Option.map_eq_some_iff, Prod.mk.injEq] at hl
    obtain ⟨_, _, _, h2⟩ := hl
    rw [htr] at h2
    exact absurd h2 (by decide)

/-- closes `Upd x y` for the proxy updates of `processMessage` -/
macro "upd_tac" : tactic => `(tactic| (
  unfold Upd atomKeys
  simp only [Proxy.reset, setComplete]
  (repeat' split) <;> simp_all))

theorem upd_first (g : Graph) (x : Proxy) (msg : String) :
    Upd x (if (msg == "submit-failed" || msg == "failed") = true then (x, some false) else setComplete g x msg).1 := by
  upd_tac
theorem upd_running (x : Proxy) : Upd x { (x.reset (status := some .running)) with subTry := 0 } := by upd_tac
theorem upd_succeeded (x : Proxy) : Upd x (x.reset (status := some .succeeded)) := by upd_tac
theorem upd_retry_exec (x : Proxy) (n : Nat) (h : (x.timers && decide (x.execTry < n)) = true) :
    Upd x { (x.reset (status := some .waiting)) with execTry := x.execTry + 1, retryWait := true } := by upd_tac
theorem upd_retry_sub (x : Proxy) (n : Nat) (h : (x.timers && decide (x.subTry < n)) = true) :
    Upd x { (x.reset (status := some .waiting)) with subTry := x.subTry + 1, retryWait := true } := by upd_tac
theorem upd_failed (g : Graph) (x : Proxy) :
    Upd x (if (x.status != .failed) = true then setComplete g (x.reset (status := some .failed)) "failed"
      else (x.reset (status := some .failed), none)).1 := by upd_tac
theorem upd_subfailed (g : Graph) (x : Proxy) :
    Upd x (if (x.status != .submitFailed) = true then setComplete g (x.reset (status := some .submitFailed)) "submit-failed"
      else (x.reset (status := some .submitFailed), none)).1 := by upd_tac
theorem upd_submitted (x : Proxy) : Upd x ((x.reset (status := some .submitted)).reset (queued := some false)) := by
  upd_tac

theorem holds_processMessage (F : Frame g Q J) : ∀ (fuel : Nat) (s : State) (p : Int) (n : String) (flag : Flag)
    (sn : Nat) (msg : String), Holds Q J s → Holds Q J (processMessage g fuel s p n flag sn msg).1 := by
  intro fuel
  induction fuel with
  | zero => intro s p n flag sn msg h; exact h
  | succ fuel ih =>
    intro s p n flag sn msg h
    unfold processMessage
    split
    · exact h
    · rename_i x tr hlk
      split
      · exact h
      · split
        · exact h
        · simp only
          have hstore : Holds Q J (store s (if (msg == "submit-failed" || msg == "failed") = true then (x, some false)
              else setComplete g x msg).1 tr) :=
            holds_store F h (fun htr => F.qupd _ _ (lookup_holds h hlk htr) (upd_first g x msg))
          have himp : ∀ (l : List String) (st : State), Holds Q J st →
              Holds Q J (l.foldl (fun st m => (processMessage g fuel st p n .internal sn m).1) st) := by
            intro l; induction l with
            | nil => intro st hst; exact hst
            | cons a l ihl => intro st hst; exact ihl _ (ih _ _ _ _ _ _ hst)
          generalize hS : (List.foldl (fun st m => (processMessage g fuel st p n Flag.internal sn m).1) _ _) = S
          have hSn : Holds Q J S := by rw [← hS]; exact himp _ _ hstore
          clear hS hstore himp
          split
          · exact hSn
          · rename_i x' tr' hlk'
            have hx' : tr' = false → Q x' := lookup_holds hSn hlk'
            split
            · -- started
              split
              · exact hSn
              · exact holds_spawnChildren F _ _ _ _ _ (holds_store F hSn (fun htr => F.qupd _ _ (hx' htr) (upd_running _)))
            · split
              · -- succeeded
                exact holds_spawnChildren F _ _ _ _ _ (holds_store F hSn (fun htr => F.qupd _ _ (hx' htr) (upd_succeeded _)))
              · split
                · -- failed
                  split
                  · exact hSn
                  · split
                    all_goals (
                      split
                      · rename_i hretry
                        exact holds_store F hSn (fun htr => F.qupd _ _ (hx' htr) (upd_retry_exec _ _ hretry))
                      · exact holds_spawnChildren F _ _ _ _ _ (holds_store F hSn
                          (fun htr => F.qupd _ _ (hx' htr) (upd_failed g _))))
                · split
                  · -- submit-failed
                    split
                    · exact hSn
                    · split
                      all_goals (
                        split
                        · rename_i hretry
                          exact holds_store F hSn (fun htr => F.qupd _ _ (hx' htr) (upd_retry_sub _ _ hretry))
                        · exact holds_spawnChildren F _ _ _ _ _ (holds_store F hSn
                            (fun htr => F.qupd _ _ (hx' htr) (upd_subfailed g _))))
                  · split
                    · -- submitted
                      split
                      · exact hSn
                      · split
                        · exact holds_spawnChildren F _ _ _ _ _ (holds_store F hSn
                            (fun htr => F.qupd _ _ (hx' htr) (upd_submitted _)))
                        · exact holds_spawnChildren F _ _ _ _ _ hSn
                    · split
                      all_goals (
                        split
                        · exact holds_spawnChildren F _ _ _ _ _ hSn
                        · exact hSn)

theorem holds_processGroupMsgs (F : Frame g Q J) (p : Int) (n : String) : ∀ (msgs : List Msg) (st : State),
    Holds Q J st → Holds Q J (processGroupMsgs g p n msgs st).1 := by
  intro msgs st h
  unfold processGroupMsgs
  have : ∀ (l : List Msg) (acc : State × Bool), Holds Q J acc.1 →
      Holds Q J (l.foldl (fun (acc : State × Bool) m =>
        ((processMessage g 4 acc.1 p n .received m.submitNum m.text).1,
         acc.2 || (processMessage g 4 acc.1 p n .received m.submitNum m.text).2)) acc).1 := by
    intro l; induction l with
    | nil => intro acc ha; exact ha
    | cons m l ihl =>
      intro acc ha
      simp only [List.foldl_cons]
      apply ihl
      exact holds_processMessage F 4 _ _ _ _ _ _ ha
  exact this msgs (st, false) h

theorem holds_processGroup (F : Frame g Q J) (acc : State × List (Int × String)) (grp : (Int × String) × List Msg)
    (h : Holds Q J acc.1) : Holds Q J (processGroup g acc grp).1 := by
  unfold processGroup
  split
  · exact h
  · simp only
    have h2 := holds_processGroupMsgs F grp.1.1 grp.1.2 grp.2 acc.1 h
    split
    · exact holds_of_pool_core F (processGroupMsgs g grp.1.1 grp.1.2 grp.2 acc.1).1 _ rfl rfl h2
    · exact h2

theorem holds_processQueue (F : Frame g Q J) (s : State) (h : Holds Q J s) : Holds Q J (processQueue g s) := by
  unfold processQueue
  simp only
  have h0 : Holds Q J { s with queue := [] } := holds_of_pool_core F s _ rfl rfl h
  have h1 : ∀ (l : List ((Int × String) × List Msg)) (acc : State × List (Int × String)), Holds Q J acc.1 →
      Holds Q J (l.foldl (processGroup g) acc).1 := by
    intro l; induction l with
    | nil => intro acc ha; exact ha
    | cons a l ih => intro acc ha; exact ih _ (holds_processGroup F acc a ha)
  have h2 := h1 (groupMsgs s.queue) ({ s with queue := [] }, []) h0
  exact foldl_inv (Holds Q J) _ (fun st k hst => holds_touch F st k.2 k.1 hst) _ _ h2

/-! ### the main loop after the release step -/

theorem upd_retryWait (y : Proxy) : Upd y { y with retryWait := false } := ⟨rfl, rfl, id, rfl, rfl, fun h => Or.inl h, rfl⟩

theorem holds_sweepOne (F : Frame g Q J) (st : State) (x : Proxy) (h : Holds Q J st) : Holds Q J (sweepOne st x) := by
  unfold sweepOne
  split
  · rename_i y hy
    split
    · have hq : Q { y with retryWait := false } := F.qupd _ _ (holds_get? h hy) (upd_retryWait y)
      exact holds_queueIfReady F _ _ (holds_put F h hq) hq
    · exact h
  · exact h

theorem holds_sweepQueue (F : Frame g Q J) (s : State) (h : Holds Q J s) : Holds Q J (sweepQueue s) := by
  unfold sweepQueue
  exact foldl_inv (Holds Q J) _ (fun st x hst => holds_sweepOne F st x hst) _ _ h

theorem holds_releaseAndSubmit (F : Frame g Q J) (s : State) (h : Holds Q J s) : Holds Q J (releaseAndSubmit s) := by
  unfold releaseAndSubmit
  simp only
  split
  · exact h
  · refine holds_of_pool_core F (List.foldl _ s _) _ rfl rfl ?_
    apply foldl_inv_mem (Holds Q J)
    · intro st x hx hst
      have hx' := List.mem_filter.mp hx
      simp only [Bool.and_eq_true] at hx'
      have hq : Q (launchProxy x) := F.qlaunch x (h.1 x hx'.1) hx'.2.1
      have h1 := holds_put F hst hq
      exact ⟨h1.1, F.jlaunch _ x h1.2 (h.1 x hx'.1) hx'.2.1⟩
    · exact h

theorem pool_checkStalled (g : Graph) (s : State) : (checkStalled g s).pool = s.pool := by
  unfold checkStalled; split
  · rfl
  · split
    · rfl
    · split <;> rfl

theorem core_checkStalled (g : Graph) (s : State) : core (checkStalled g s) = core s := by
  unfold checkStalled; split
  · rfl
  · split
    · rfl
    · split <;> rfl

theorem holds_checkStalled (F : Frame g Q J) (s : State) (h : Holds Q J s) : Holds Q J (checkStalled g s) :=
  holds_of_pool_core F s _ (pool_checkStalled g s) (core_checkStalled g s) h

theorem holds_checkAutoShutdown (F : Frame g Q J) (s : State) (h : Holds Q J s) :
    Holds Q J (checkAutoShutdown g s).1 := by
  unfold checkAutoShutdown
  split
  · exact h
  · simp only
    split
    · exact holds_checkStalled F s h
    · split
      · exact holds_checkStalled F s h
      · exact holds_of_pool_core F (checkStalled g s) _ rfl rfl (holds_checkStalled F s h)

theorem holds_stopTaskDone (F : Frame g Q J) (s : State) (h : Holds Q J s) : Holds Q J (stopTaskDone s).1 := by
  unfold stopTaskDone
  split
  · exact holds_of_pool_core F s _ rfl rfl h
  · exact h

theorem holds_shutdownDecision (F : Frame g Q J) (s : State) (h : Holds Q J s) : Holds Q J (shutdownDecision g s) := by
  unfold shutdownDecision
  have h1 := holds_stopTaskDone F s h
  have h2 := holds_checkAutoShutdown F _ h1
  split
  · split
    · exact holds_of_pool_core F (stopTaskDone s).1 _ rfl rfl h1
    · split
      · exact holds_of_pool_core F (checkAutoShutdown g (stopTaskDone s).1).1 _ rfl rfl h2
      · exact h2
  · exact h

theorem upd_updFlag (x : Proxy) : Upd x { x with upd := false } := ⟨rfl, rfl, id, rfl, rfl, fun h => Or.inl h, rfl⟩

theorem keys_map_upd (l : List Proxy) :
    (l.map fun x => ({ x with upd := false } : Proxy)).map (fun x => (x.pt, x.name)) = l.map fun x => (x.pt, x.name) := by
  simp only [List.map_map]
  apply List.map_congr_left
  intro x _
  rfl

theorem holds_preCommit (F : Frame g Q J) (s : State) (h : Holds Q J s) : Holds Q J (preCommit s) := by
  unfold preCommit
  simp only
  have h1 : Holds Q J (if (s.pool.any (·.upd)) = true then { s with restartWait := false } else s) := by
    split
    · exact holds_of_pool_core F s _ rfl rfl h
    · exact h
  generalize (if (s.pool.any (·.upd)) = true then { s with restartWait := false } else s) = s1 at h1 ⊢
  have h2 : Holds Q J (if hasUpdates s = true then
      { s1 with stalled := false, schedUpd := false, pool := s1.pool.map fun x => { x with upd := false } } else s1) := by
    split
    · refine ⟨?_, F.jcongr s1 _ ?_ h1.2⟩
      · intro y hy
        simp only [List.mem_map] at hy
        obtain ⟨z, hz, rfl⟩ := hy
        exact F.qupd _ _ (h1.1 z hz) (upd_updFlag z)
      · unfold core keys
        simp only
        rw [keys_map_upd]
    · exact h1
  generalize (if hasUpdates s = true then
      { s1 with stalled := false, schedUpd := false, pool := s1.pool.map fun x => { x with upd := false } } else s1) = s2 at h2 ⊢
  exact holds_of_pool_core F s2 _ rfl rfl h2

theorem holds_finishLoop (F : Frame g Q J) (s : State) (h : Holds Q J s) : Holds Q J (finishLoop g s) := by
  unfold finishLoop
  split
  · exact holds_checkStalled F _ (holds_preCommit F s h)
  · exact holds_preCommit F s h

theorem holds_loopBody (F : Frame g Q J) (s : State) (h : Holds Q J s) : Holds Q J (loopBody g s) := by
  unfold loopBody
  simp only
  apply holds_finishLoop F
  apply holds_processQueue F
  have h1 := holds_sweepQueue F s h
  split
  · exact holds_releaseAndSubmit F _ h1
  · exact h1

/-- the main loop: the release step is the caller's business (`hrel`, at the limit `compute_runahead` leaves) -/
theorem holds_mainLoop (F : Frame g Q J) (s : State) (h : Holds Q J s)
    (hrel : ∀ lim y, (computeRunahead g s).rhLimit = some lim → y.pt ≤ lim → Q y →
      Q (y.reset (runahead := some false))) :
    Holds Q J (mainLoop g s) := by
  unfold mainLoop
  split
  · exact h
  · simp only
    have h1 : Holds Q J (preShutdown g s) := by
      unfold preShutdown
      exact holds_releaseRunahead F _ (holds_computeRunahead F s false h) hrel
    have h2 := holds_shutdownDecision F _ h1
    split
    · exact holds_of_pool_core F (shutdownDecision g (preShutdown g s)) _ rfl rfl h2
    · exact holds_loopBody F _ h2

/-! ### commands that only hold / release -/

theorem holds_setHoldPoint (F : Frame g Q J) (s : State) (p : Int) (h : Holds Q J s) : Holds Q J (setHoldPoint s p) := by
  unfold setHoldPoint
  simp only
  have h0 : Holds Q J { s with holdPoint := some p } := holds_of_pool_core F s _ rfl rfl h
  refine foldl_inv (Holds Q J) _ ?_ _ _ h0
  intro st x hst
  split
  · split
    · rename_i y hy
      exact holds_holdActive F _ _ hst (holds_get? hst hy)
    · exact hst
  · exact hst

theorem holds_holdTasks (F : Frame g Q J) (s : State) (ids : List (Int × String)) (h : Holds Q J s) :
    Holds Q J (holdTasks s ids) := by
  unfold holdTasks
  refine foldl_inv (Holds Q J) _ ?_ _ _ h
  intro st k hst
  split
  · rename_i y hy
    exact holds_holdActive F _ _ hst (holds_get? hst hy)
  · split
    · exact hst
    · exact holds_of_pool_core F st _ rfl rfl hst

theorem holds_releaseTasks (F : Frame g Q J) (s : State) (ids : List (Int × String)) (h : Holds Q J s) :
    Holds Q J (releaseTasks s ids) := by
  unfold releaseTasks
  refine foldl_inv (Holds Q J) _ ?_ _ _ h
  intro st k hst
  split
  · exact hst
  · split
    · rename_i y hy
      exact holds_releaseHeldActive F _ _ hst (holds_get? hst hy)
    · exact holds_of_pool_core F st _ rfl rfl hst

theorem holds_releaseHoldPoint (F : Frame g Q J) (s : State) (h : Holds Q J s) : Holds Q J (releaseHoldPoint s) := by
  unfold releaseHoldPoint
  simp only
  have h0 : Holds Q J { s with holdPoint := none } := holds_of_pool_core F s _ rfl rfl h
  generalize hS : (List.foldl (fun st x => match st.get? x.pt x.name with
      | some y => releaseHeldActive st y | none => st) { s with holdPoint := none } s.pool) = S
  have h1 : Holds Q J S := by
    rw [← hS]
    refine foldl_inv (Holds Q J) _ ?_ _ _ h0
    intro st x hst
    split
    · rename_i y hy
      exact holds_releaseHeldActive F _ _ hst (holds_get? hst hy)
    · exact hst
  exact holds_of_pool_core F S _ rfl rfl h1

theorem holds_clearOp (F : Frame g Q J) (s : State) (h : Holds Q J s) : Holds Q J (clearOp s) :=
  ⟨h.1, F.jclear s h.2⟩

/-- every op except the main loop, `cylc stop <point>` and restart -/
theorem holds_step_plain (F : Frame g Q J) (s : State) (op : Op) (h : Holds Q J s)
    (h1 : op ≠ .loop) (h2 : ∀ p, op ≠ .stopPoint p) (h3 : op ≠ .restart) : Holds Q J (step g s op) := by
  unfold step
  have hc := holds_clearOp F s h
  cases op with
  | loop => exact absurd rfl h1
  | subres p n ok sn => exact holds_processMessage F 4 _ _ _ _ _ _ hc
  | msg p n sn text => exact holds_of_pool_core F (clearOp s) _ rfl rfl hc
  | hold ids => exact holds_holdTasks F _ _ hc
  | release ids => exact holds_releaseTasks F _ _ hc
  | setHoldPoint p => exact holds_setHoldPoint F _ _ hc
  | releaseHoldPoint => exact holds_releaseHoldPoint F _ hc
  | stop mode => exact holds_of_pool_core F (clearOp s) _ rfl rfl hc
  | stopPoint p => exact absurd rfl (h2 p)
  | stopTask p n => exact holds_of_pool_core F (clearOp s) _ rfl rfl hc
  | pause => exact holds_of_pool_core F (clearOp s) _ rfl rfl hc
  | resume => exact holds_of_pool_core F (clearOp s) _ rfl rfl hc
  | restart => exact absurd rfl h3

/-! ### start-up -/

theorem holds_releaseRunaheadN (F : Frame g Q J)
    (hrel : ∀ st lim y, J st → st.rhLimit = some lim → y.pt ≤ lim → Q y → Q (y.reset (runahead := some false))) :
    ∀ (n : Nat) (s : State), Holds Q J s → Holds Q J (releaseRunaheadN g n s) := by
  intro n
  induction n with
  | zero => intro s h; exact h
  | succ n ih =>
    intro s h
    unfold releaseRunaheadN
    have h1 := holds_releaseRunahead F s h (fun lim y hl hy hq => hrel s lim y h.2 hl hy hq)
    split
    · exact ih _ h1
    · exact h1

theorem holds_init (F : Frame g Q J) (h0 : J { stopPoint := g.stopPoint })
    (hrel : ∀ st lim y, J st → st.rhLimit = some lim → y.pt ≤ lim → Q y → Q (y.reset (runahead := some false))) :
    Holds Q J (init g) := by
  unfold init loadFromPoint
  simp only
  have hs0 : Holds Q J ({ stopPoint := g.stopPoint } : State) := ⟨by intro x hx; simp at hx, h0⟩
  have h1 : Holds Q J (g.tasks.foldl (fun st t =>
      match t.firstParentless with
      | some p => spawnAndAdd g st t.name p
      | none => st) ({ stopPoint := g.stopPoint } : State)) := by
    refine foldl_inv (Holds Q J) _ ?_ _ _ hs0
    intro st t hst
    split
    · exact holds_spawnAndAdd F _ _ _ hst
    · exact hst
  have h2 := holds_releaseRunaheadN F hrel 10 _ (holds_computeRunahead F _ false h1)
  refine foldl_inv (Holds Q J) _ ?_ _ _ h2
  intro st x hst
  split
  · rename_i y hy
    exact holds_queueIfReady F _ _ hst (holds_get? hst hy)
  · exact hst

/-! ### restart: the new process and the rows are the caller's business -/

theorem holds_loadRow (F : Frame g Q J) (st : State) (x : Proxy) (h : Holds Q J st)
    (hq1 : Q { restoreProxy x with runahead := true }) (hq2 : Q (restoreProxy x)) : Holds Q J (loadRow g st x) := by
  unfold loadRow
  simp only
  apply holds_put F _ hq2
  apply holds_add F _ _ (holds_touch F st _ _ h) hq1
  intro k hk
  exact offOf_touch_self g st (restoreProxy x).name (restoreProxy x).pt k hk

theorem holds_restart (F : Frame g Q J) (s : State) (hbase : Holds Q J (restartBase g s))
    (hrow : ∀ x ∈ s.pool, Q { restoreProxy x with runahead := true } ∧ Q (restoreProxy x)) :
    Holds Q J (restart g s) := by
  unfold restart
  simp only
  have h1 : Holds Q J (s.pool.foldl (loadRow g) (restartBase g s)) := by
    apply foldl_inv_mem (Holds Q J)
    · intro st x hx hst
      exact holds_loadRow F st x hst (hrow x hx).1 (hrow x hx).2
    · exact hbase
  split
  · exact holds_setHoldPoint F _ _ h1
  · exact h1

/-! ### what `spawn_task` returns is fresh -/

/-- a freshly spawned proxy: runahead-limited and not queued -/
def Fresh (y : Proxy) : Prop := y.runahead = true ∧ y.queued = false

theorem mkProxy_fresh {g : Graph} {n : String} {p : Int} {x : Proxy} (h : mkProxy g n p = some x) : Fresh x := by
  unfold mkProxy at h
  cases ht : g.task? n with
  | none => simp [ht] at h
  | some t =>
    simp only [ht, Option.bind_eq_bind, Option.bind_some] at h
    split at h
    · simp at h
    · cases hd : t.inst? p with
      | none => simp [hd] at h
      | some d =>
        simp [hd] at h
        subst h
        exact ⟨rfl, rfl⟩

theorem mkProxy_pre {g : Graph} {n : String} {p : Int} {x : Proxy} (h : mkProxy g n p = some x) :
    ∃ t d, g.task? n = some t ∧ t.inst? p = some d ∧ x.pre = d.pre := by
  unfold mkProxy at h
  cases ht : g.task? n with
  | none => simp [ht] at h
  | some t =>
    simp only [ht, Option.bind_eq_bind, Option.bind_some] at h
    split at h
    · simp at h
    · cases hd : t.inst? p with
      | none => simp [hd] at h
      | some d =>
        simp [hd] at h
        subst h
        exact ⟨t, d, rfl, hd, rfl⟩

theorem revive_fresh {g : Graph} {n : String} {hist : Option Hist} {x y : Proxy} (h : revive g n hist x = some y)
    (hx : Fresh x) : Fresh y ∧ y.pre = x.pre := by
  unfold revive at h
  split at h
  · simp at h; subst h; exact ⟨hx, rfl⟩
  · split at h
    · simp at h
    · split at h
      · split at h
        · split at h
          · simp at h
          · simp at h; subst h; exact ⟨hx, rfl⟩
        · simp at h
      · simp at h; subst h; exact ⟨hx, rfl⟩

theorem fresh_reset_held (y : Proxy) (b : Option Bool) (h : Fresh y) : Fresh (y.reset (held := b)) := by
  unfold Proxy.reset
  simp only
  split
  · exact h
  · exact h

theorem holdOnSpawn_fresh (s : State) (n : String) (p : Int) (y : Proxy) (h : Fresh y) :
    Fresh (holdOnSpawn s n p y).2 ∧ (holdOnSpawn s n p y).2.pre = y.pre := by
  unfold holdOnSpawn
  split
  · exact ⟨fresh_reset_held _ _ h, reset_pre _ _ _ _ _⟩
  · split
    · split
      · exact ⟨fresh_reset_held _ _ h, reset_pre _ _ _ _ _⟩
      · exact ⟨h, rfl⟩
    · exact ⟨h, rfl⟩

theorem fresh_foldl_satisfyMe (l : List Atom) : ∀ (y : Proxy), Fresh y → Fresh (l.foldl (fun z a => z.satisfyMe a) y) := by
  induction l with
  | nil => intro y h; exact h
  | cons a l ih => intro y h; exact ih _ h

theorem atomKeys_foldl_satisfyMe (l : List Atom) : ∀ (y : Proxy),
    atomKeys (l.foldl (fun z a => z.satisfyMe a) y) = atomKeys y := by
  induction l with
  | nil => intro y; rfl
  | cons a l ih => intro y; simp only [List.foldl_cons]; rw [ih, atomKeys_satisfyMe]

theorem absSatisfy_fresh (g : Graph) (s : State) (n : String) (y : Proxy) (h : Fresh y) :
    Fresh (absSatisfy g s n y) ∧ atomKeys (absSatisfy g s n y) = atomKeys y := by
  unfold absSatisfy
  split
  · split
    · exact ⟨fresh_foldl_satisfyMe _ _ h, atomKeys_foldl_satisfyMe _ _⟩
    · exact ⟨h, rfl⟩
  · exact ⟨h, rfl⟩

theorem spawnTask_fresh {g : Graph} {s : State} {n : String} {p : Int} {y : Proxy}
    (h : (spawnTask g s n p).2 = some y) : Fresh y := by
  obtain ⟨x, y0, hx, hy0, _, heq⟩ := spawnTask_some_eq h
  rw [heq] at h
  simp only [Option.some.injEq] at h
  subst h
  exact (absSatisfy_fresh _ _ _ _ (holdOnSpawn_fresh _ _ _ _ (revive_fresh hy0 (mkProxy_fresh hx)).1).1).1

end CylcModel.Sched3Fut
