/-
Helper lemmas for the DataStore model (C25): association lists, `MergeFrom`, well-formed stores
(unique keys, every element filed under its own id) preserved by `apply_delta`, the snapshot restores
the store, the server/subscriber invariant, reading a field through a flush.
-/
import CylcModel.DataStore
namespace CylcModel.DataStore
open AL

/-! ### association lists -/
namespace AL
variable {β : Type}

theorem get?_upsert_self (l : AL β) (k : String) (v : β) : (upsert l k v).get? k = some v := by
  induction l with
  | nil => simp [upsert, get?]
  | cons p t ih =>
    obtain ⟨a, w⟩ := p
    by_cases h : a = k
    · simp [upsert, get?, h]
    · simp [upsert, get?, h, ih]

theorem get?_upsert_ne (l : AL β) (k x : String) (v : β) (h : k ≠ x) : (upsert l k v).get? x = l.get? x := by
  induction l with
  | nil => simp [upsert, get?, h]
  | cons p t ih =>
    obtain ⟨a, w⟩ := p
    by_cases h1 : a = k
    · subst h1; simp [upsert, get?, h]
    · by_cases h2 : a = x
      · subst h2; simp [upsert, get?, h1]
      · simp [upsert, get?, h1, h2, ih]

theorem get?_eq_none_iff (l : AL β) (k : String) : l.get? k = none ↔ k ∉ keys l := by
  induction l with
  | nil => simp [get?, keys]
  | cons p t ih =>
    obtain ⟨a, w⟩ := p
    by_cases h : a = k
    · simp [get?, keys, h]
    · have : ¬ k = a := fun e => h e.symm
      simp [get?, keys, h, this] at ih ⊢
      exact ih

theorem mem_of_get? (l : AL β) (k : String) (v : β) (h : l.get? k = some v) : (k, v) ∈ l := by
  induction l with
  | nil => simp [get?] at h
  | cons p t ih =>
    obtain ⟨a, w⟩ := p
    by_cases h1 : a = k
    · simp [get?, h1] at h; subst h; subst h1; simp
    · simp [get?, h1] at h; exact List.mem_cons_of_mem _ (ih h)

theorem upsert_of_not_mem (l : AL β) (k : String) (v : β) (h : k ∉ keys l) : upsert l k v = l ++ [(k, v)] := by
  induction l with
  | nil => simp [upsert]
  | cons p t ih =>
    obtain ⟨a, w⟩ := p
    have h1 : ¬ a = k := fun e => h (by simp [keys, e])
    have h2 : k ∉ keys t := fun e => h (by simp only [keys, List.map_cons, List.mem_cons]; exact Or.inr e)
    simp [upsert, h1, ih h2]

theorem keys_upsert_of_mem (l : AL β) (k : String) (v : β) (h : k ∈ keys l) : keys (upsert l k v) = keys l := by
  induction l with
  | nil => simp [keys] at h
  | cons p t ih =>
    obtain ⟨a, w⟩ := p
    by_cases h1 : a = k
    · simp [upsert, keys, h1]
    · have h2 : k ∈ keys t := by
        simp only [keys, List.map_cons, List.mem_cons] at h
        rcases h with h | h
        · exact absurd h.symm h1
        · exact h
      have := ih h2
      simp only [keys] at this
      simp [upsert, h1, keys, this]

theorem mem_upsert (l : AL β) (k : String) (v : β) (p : String × β) (h : p ∈ upsert l k v) :
    p = (k, v) ∨ p ∈ l := by
  induction l with
  | nil => simp [upsert] at h; exact Or.inl h
  | cons q t ih =>
    obtain ⟨a, w⟩ := q
    by_cases h1 : a = k
    · subst h1
      simp only [upsert, if_true, List.mem_cons] at h
      rcases h with h | h
      · exact Or.inl h
      · exact Or.inr (List.mem_cons_of_mem _ h)
    · simp only [upsert, h1, if_false, List.mem_cons] at h
      rcases h with h | h
      · exact Or.inr (by simp [h])
      · rcases ih h with h | h
        · exact Or.inl h
        · exact Or.inr (List.mem_cons_of_mem _ h)

theorem erase_sublist (l : AL β) (k : String) : (erase l k).Sublist l := by
  induction l with
  | nil => simp [erase]
  | cons q t ih =>
    obtain ⟨a, w⟩ := q
    by_cases h1 : a = k
    · simp [erase, h1]
    · simp [erase, h1, ih]

end AL

/-! ### elements -/
namespace Elem

theorem get?_filter {β : Type} (l : AL β) (k : String) (pred : String × β → Bool)
    (h : ∀ v, pred (k, v) = true) : AL.get? (l.filter pred) k = AL.get? l k := by
  induction l with
  | nil => simp [AL.get?]
  | cons q t ih =>
    obtain ⟨a, w⟩ := q
    by_cases h1 : a = k
    · subst h1; simp [List.filter, h, AL.get?]
    · by_cases h2 : pred (a, w) = true
      · simp [List.filter, h2, AL.get?, h1, ih]
      · simp [List.filter, h2, AL.get?, h1, ih]

theorem getS_clearField (e : Elem) (f k : String) (h : pathUnder f k = false) :
    (e.clearField f).getS k = e.getS k := by
  simp only [getS, clearField]
  rw [get?_filter]
  intro v; simp [h]

theorem getS_merge (d u : Elem) (k : String) :
    (d.merge u).getS k = if u.s.has k then u.getS k else d.getS k := by
  simp only [getS, merge, AL.has]
  generalize u.s = us
  induction us with
  | nil => simp [AL.get?]
  | cons p t ih =>
    obtain ⟨a, w⟩ := p
    by_cases h1 : a = k
    · subst h1; simp [AL.get?_upsert_self, AL.get?]
    · simp only [List.foldr_cons, AL.get?, h1, if_false]
      rw [AL.get?_upsert_ne _ _ _ _ h1]
      exact ih

theorem getS_setS_self (e : Elem) (k v : String) : (e.setS k v).getS k = v := by
  simp [getS, setS, AL.get?_upsert_self]

theorem getS_setS_ne (e : Elem) (k x v : String) (h : k ≠ x) : (e.setS k v).getS x = e.getS x := by
  simp [getS, setS, AL.get?_upsert_ne _ _ _ _ h]

theorem has_setS_self (e : Elem) (k v : String) : (e.setS k v).s.has k = true := by
  simp [setS, AL.has, AL.get?_upsert_self]

theorem id_remR (e : Elem) (p x : String) : (e.remR p x).id = e.id := by
  unfold remR
  split
  · rfl
  · simp [Elem.id, getS]

end Elem

/-! ### well-formed stores -/

/-- keys are unique and every element is filed under its own id -/
def WFL (l : AL Elem) : Prop := (AL.keys l).Nodup ∧ ∀ p ∈ l, p.2.id = p.1

def WFS (s : Store) : Prop := ∀ k, WFL (s.get k)

theorem WFL_nil : WFL [] := ⟨by simp [AL.keys], by simp⟩

theorem WFL_upsert (l : AL Elem) (e : Elem) (k : String) (hk : e.id = k) (h : WFL l) : WFL (l.upsert k e) := by
  obtain ⟨h1, h2⟩ := h
  refine ⟨?_, ?_⟩
  · by_cases hm : k ∈ AL.keys l
    · rw [AL.keys_upsert_of_mem _ _ _ hm]; exact h1
    · rw [AL.upsert_of_not_mem _ _ _ hm]
      simp only [AL.keys, List.map_append, List.map_cons, List.map_nil]
      simp only [AL.keys] at h1 hm
      rw [List.nodup_append]
      refine ⟨h1, by simp, ?_⟩
      intro a ha b hb
      simp at hb
      subst hb
      intro e; subst e; exact hm ha
  · intro p hp
    rcases AL.mem_upsert _ _ _ _ hp with hp | hp
    · subst hp; exact hk
    · exact h2 p hp

theorem WFL_erase (l : AL Elem) (k : String) (h : WFL l) : WFL (l.erase k) := by
  obtain ⟨h1, h2⟩ := h
  have hs := AL.erase_sublist l k
  refine ⟨?_, fun p hp => h2 p (hs.subset hp)⟩
  exact List.Nodup.sublist (List.Sublist.map _ hs) h1

theorem WFL_addElems (l : AL Elem) (es : List Elem) (h : WFL l) : WFL (addElems l es) := by
  unfold addElems
  induction es generalizing l with
  | nil => exact h
  | cons e t ih => exact ih _ (WFL_upsert l e e.id rfl h)

theorem id_clearFor (clear : List String) (hc : ∀ f ∈ clear, Elem.pathUnder f "id" = false) (d u : Elem) :
    (clearFor clear d u).id = d.id := by
  unfold clearFor
  induction clear generalizing d with
  | nil => rfl
  | cons f t ih =>
    simp only [List.foldl_cons]
    rw [ih (fun g hg => hc g (List.mem_cons_of_mem _ hg))]
    split
    · exact Elem.getS_clearField d f "id" (hc f (by simp))
    · rfl

theorem id_flush (clear : List String) (hc : ∀ f ∈ clear, Elem.pathUnder f "id" = false) (d u : Elem)
    (h : d.id = u.id) : (flush clear d u).id = u.id := by
  simp only [flush, Elem.id, Elem.getS_merge]
  split
  · rfl
  · have := id_clearFor clear hc d u
    simp only [Elem.id] at this h
    rw [this, h]

theorem WFL_updElem (clear : List String) (hc : ∀ f ∈ clear, Elem.pathUnder f "id" = false)
    (l : AL Elem) (u : Elem) (h : WFL l) : WFL (updElem clear l u) := by
  unfold updElem
  split
  · exact h
  · rename_i d hd
    have := h.2 _ (AL.mem_of_get? _ _ _ hd)
    exact WFL_upsert l _ _ (id_flush clear hc d u this) h

theorem WFL_updElems (clear : List String) (hc : ∀ f ∈ clear, Elem.pathUnder f "id" = false)
    (l : AL Elem) (us : List Elem) (h : WFL l) : WFL (updElems clear l us) := by
  unfold updElems
  induction us generalizing l with
  | nil => exact h
  | cons u t ih => exact ih _ (WFL_updElem clear hc l u h)

theorem WFL_modify_remR (l : AL Elem) (k p x : String) (h : WFL l) :
    WFL (modify l k (fun e => e.remR p x)) := by
  unfold modify
  split
  · exact h
  · rename_i e he
    have := h.2 _ (AL.mem_of_get? _ _ _ he)
    exact WFL_upsert l _ _ (by rw [Elem.id_remR]; exact this) h

theorem clear_ok (k : Key) : ∀ f ∈ clearFields k, Elem.pathUnder f "id" = false := by
  cases k <;> decide

/-! ### stores -/

theorem Store.get_set_self (s : Store) (k : Key) (l : AL Elem) : (s.set k l).get k = l := by
  cases k <;> rfl

theorem Store.get_set_ne (s : Store) (k k' : Key) (l : AL Elem) (h : k ≠ k') : (s.set k l).get k' = s.get k' := by
  cases k <;> cases k' <;> first | rfl | exact absurd rfl h

theorem Store.workflow_set (s : Store) (k : Key) (l : AL Elem) : (s.set k l).workflow = s.workflow := by
  cases k <;> rfl

theorem WFS_empty : WFS {} := by intro k; cases k <;> exact WFL_nil

theorem WFS_set (s : Store) (k : Key) (l : AL Elem) (h : WFS s) (hl : WFL l) : WFS (s.set k l) := by
  intro k'
  by_cases e : k = k'
  · subst e; rw [Store.get_set_self]; exact hl
  · rw [Store.get_set_ne _ _ _ _ e]; exact h k'

theorem WFS_workflow (s : Store) (w : Elem) (h : WFS s) : WFS { s with workflow := w } := by
  intro k; have := h k; cases k <;> exact this

theorem WFS_fp (s : Store) (l : AL Elem) (h : WFS s) (hl : WFL l) : WFS { s with familyProxies := l } := by
  have := WFS_set s .familyProxies l h hl
  exact this

theorem WFS_tp (s : Store) (l : AL Elem) (h : WFS s) (hl : WFL l) : WFS { s with taskProxies := l } := by
  have := WFS_set s .taskProxies l h hl
  exact this

theorem WFS_mk (e f fp j t tp : AL Elem) (w : Elem) (h1 : WFL e) (h2 : WFL f) (h3 : WFL fp) (h4 : WFL j)
    (h5 : WFL t) (h6 : WFL tp) : WFS ⟨e, f, fp, j, t, tp, w⟩ := by
  intro k; cases k <;> assumption

theorem WFS_pruneOne (key : Key) (s : Store) (del : String) (h : WFS s) : WFS (pruneOne key s del) := by
  have he := h .edges; have hf := h .families; have hfp := h .familyProxies
  have hj := h .jobs; have ht := h .tasks; have htp := h .taskProxies
  simp only [Store.get] at he hf hfp hj ht htp
  unfold pruneOne
  split
  · exact h
  · cases key <;> simp only [Store.set, Store.get] <;> apply WFS_mk <;>
      first
      | assumption
      | exact WFL_erase _ _ (by assumption)
      | exact WFL_modify_remR _ _ _ _ (by assumption)
      | exact WFL_modify_remR _ _ _ _ (WFL_modify_remR _ _ _ _ (by assumption))
      | exact WFL_erase _ _ (WFL_modify_remR _ _ _ _ (by assumption))

theorem WFS_pruneAll (key : Key) (s : Store) (dels : List String) (h : WFS s) :
    WFS (dels.foldl (pruneOne key) s) := by
  induction dels generalizing s with
  | nil => exact h
  | cons d t ih => exact ih _ (WFS_pruneOne key s d h)

theorem WFS_applyRaw (s : Store) (d : Delta) (h : WFS s) : WFS (applyRaw s d) := by
  unfold applyRaw
  apply WFS_pruneAll
  have h1 : WFS (s.set d.key (addElems (s.get d.key) d.added)) :=
    WFS_set _ _ _ h (WFL_addElems _ _ (h d.key))
  apply WFS_set _ _ _ h1
  apply WFL_updElems _ (clear_ok d.key)
  exact h1 d.key

theorem WFS_applySrv (s : Store) (d : AnyDelta) (h : WFS s) : WFS (applySrv s d) := by
  cases d with
  | el d => exact WFS_applyRaw s d h
  | wf d => exact WFS_workflow _ _ h

theorem WFS_applyBatchSrv (s : Store) (b : Batch) (h : WFS s) : WFS (applyBatchSrv s b) := by
  unfold applyBatchSrv
  induction b generalizing s with
  | nil => exact h
  | cons d t ih => exact ih _ (WFS_applySrv s d h)

/-! ### the snapshot restores the store -/

theorem addElems_restore_aux (acc l : AL Elem) (h : WFL (acc ++ l)) :
    addElems acc (l.map (·.2)) = acc ++ l := by
  induction l generalizing acc with
  | nil => simp [addElems]
  | cons p t ih =>
    obtain ⟨k, e⟩ := p
    have hid : e.id = k := h.2 (k, e) (by simp)
    have hk : k ∉ AL.keys acc := by
      have := h.1
      simp only [AL.keys, List.map_append, List.map_cons] at this
      rw [List.nodup_append] at this
      intro hm
      exact this.2.2 k hm k (by simp) rfl
    have step : addElems acc (((k, e) :: t).map (·.2)) = addElems (acc ++ [(k, e)]) (t.map (·.2)) := by
      simp only [addElems, List.map_cons, List.foldl_cons]
      rw [hid, AL.upsert_of_not_mem _ _ _ hk]
    rw [step, ih (acc ++ [(k, e)]) (by simpa using h)]
    simp

theorem addElems_restore (l : AL Elem) (h : WFL l) : addElems [] (l.map (·.2)) = l := by
  have := addElems_restore_aux [] l (by simpa using h)
  simpa using this

theorem Elem.merge_empty (d : Elem) : d.merge {} = d := by
  simp [Elem.merge]

theorem applyRawW_snapshot (w : Elem) : applyRawW {} { reloaded := true, added := w } = w := by
  unfold applyRawW
  have h1 : ∀ f, Elem.hasField ({} : Elem) f = false := by intro f; simp [Elem.hasField]
  have h2 : Elem.getB ({} : Elem) "states_updated" = false := by simp [Elem.getB, Elem.getS, AL.get?]
  simp only [h1, h2, Bool.or_self, Bool.false_eq_true, if_false]
  have h3 : ∀ (l : List String) (x : Elem), l.foldl (fun w _ => w) x = x := by
    intro l; induction l with
    | nil => intro x; rfl
    | cons a t ih => intro x; exact ih x
  have h4 : ∀ (l : List (String × Nat)) (x : Elem), l.foldl (fun w _ => w) x = x := by
    intro l; induction l with
    | nil => intro x; rfl
    | cons a t ih => intro x; exact ih x
  simp only [h3, h4, Elem.merge_empty]
  by_cases he : w.isEmpty = true
  · simp only [he, if_true]
    obtain ⟨s, r, m⟩ := w
    simp [Elem.isEmpty] at he
    obtain ⟨⟨a, b⟩, c⟩ := he
    subst a; subst b; subst c; rfl
  · simp [he]

theorem applyRaw_snapshot (c : Store) (k : Key) (l : AL Elem) (h : WFL l) :
    applyRaw (c.set k []) { key := k, reloaded := true, added := l.map (·.2) } = c.set k l := by
  simp only [applyRaw, updElems, List.foldl_nil, Store.get_set_self]
  rw [addElems_restore l h]
  cases k <;> rfl

theorem applyBatch_snapshot (c s : Store) (h : WFS s) : applyBatch c (snapshot s) = s := by
  simp only [applyBatch, snapshot, Key.all, List.map_cons, List.map_nil, List.cons_append, List.nil_append,
    List.foldl_cons, List.foldl_nil, applyAny, if_true]
  rw [applyRaw_snapshot _ _ _ (h .edges), applyRaw_snapshot _ _ _ (h .families),
    applyRaw_snapshot _ _ _ (h .familyProxies), applyRaw_snapshot _ _ _ (h .jobs),
    applyRaw_snapshot _ _ _ (h .tasks), applyRaw_snapshot _ _ _ (h .taskProxies), applyRawW_snapshot]
  cases s; cases c; rfl

/-! ### replay -/

theorem applyAny_setReloaded_false (s : Store) (d : AnyDelta) :
    applyAny s (d.setReloaded false) = applySrv s d := by
  cases d <;> simp [AnyDelta.setReloaded, applyAny, applySrv] <;> rfl

theorem applyBatch_published (s : Store) (b : Batch) :
    applyBatch s (b.map (AnyDelta.setReloaded false)) = applyBatchSrv s b := by
  unfold applyBatch applyBatchSrv
  induction b generalizing s with
  | nil => rfl
  | cons d t ih => simp only [List.map_cons, List.foldl_cons, applyAny_setReloaded_false]; exact ih _

theorem publish_faithful (b : Batch) : publish .faithful b = b := by
  unfold publish
  induction b with
  | nil => rfl
  | cons d t ih => cases d <;> simp [publishDelta, ih]

/-- the invariant: the server store is well formed; a synced client equals it -/
def Inv (y : Sys) : Prop := WFS y.server ∧ (y.synced = true → y.client = y.server)

/-- publication policy `pol` does not change batch `b` -/
def Unchanged (pol : PubPolicy) : SrvOp → Prop
  | .upd b => publish pol b = b
  | _ => True

theorem Inv_step (pol : PubPolicy) (y : Sys) (op : SrvOp) (hu : Unchanged pol op) (h : Inv y) :
    Inv (y.step pol op) := by
  obtain ⟨hw, hs⟩ := h
  cases op with
  | upd b =>
    simp only [Unchanged] at hu
    refine ⟨WFS_applyBatchSrv _ _ hw, ?_⟩
    intro hsy
    simp only [Sys.step] at hsy ⊢
    rw [hu, applyBatch_published, hs hsy]
  | loc b => exact ⟨WFS_applyBatchSrv _ _ hw, by simp [Sys.step]⟩
  | snap => exact ⟨hw, fun _ => applyBatch_snapshot _ _ hw⟩
  | reset => exact ⟨WFS_empty, by simp [Sys.step]⟩

theorem Inv_run (pol : PubPolicy) (y : Sys) (ops : List SrvOp) (hu : ∀ op ∈ ops, Unchanged pol op) (h : Inv y) :
    Inv (y.run pol ops) := by
  unfold Sys.run
  induction ops generalizing y with
  | nil => exact h
  | cons op t ih =>
    exact ih _ (fun o ho => hu o (List.mem_cons_of_mem _ ho)) (Inv_step pol y op (hu op (by simp)) h)

end CylcModel.DataStore

/-! ### reading a field of the store after a pending delta is flushed -/
namespace CylcModel.DataStore

theorem AL.has_upsert_ne {β : Type} (l : AL β) (k x : String) (v : β) (h : k ≠ x) :
    AL.has (AL.upsert l k v) x = AL.has l x := by
  simp [AL.has, AL.get?_upsert_ne _ _ _ _ h]

/-- value of scalar `k` of the store element once pending delta `P` is merged into it -/
def readS (store P : Elem) (k : String) : String := if AL.has P.s k then P.getS k else store.getS k

theorem getS_clearFor (clear : List String) (k : String) (hc : ∀ f ∈ clear, Elem.pathUnder f k = false)
    (d u : Elem) : (clearFor clear d u).getS k = d.getS k := by
  unfold clearFor
  induction clear generalizing d with
  | nil => rfl
  | cons f t ih =>
    simp only [List.foldl_cons]
    rw [ih (fun g hg => hc g (List.mem_cons_of_mem _ hg))]
    split
    · exact Elem.getS_clearField d f k (hc f (by simp))
    · rfl

theorem getS_flush (clear : List String) (k : String) (hc : ∀ f ∈ clear, Elem.pathUnder f k = false)
    (d u : Elem) : (flush clear d u).getS k = readS d u k := by
  simp only [flush, Elem.getS_merge, readS, getS_clearFor clear k hc]

theorem readS_setS_self (store P : Elem) (k v : String) : readS store (P.setS k v) k = v := by
  simp [readS, Elem.has_setS_self, Elem.getS_setS_self]

theorem readS_setS_ne (store P : Elem) (g k v : String) (h : g ≠ k) :
    readS store (P.setS g v) k = readS store P k := by
  simp only [readS, Elem.getS_setS_ne _ _ _ _ h]
  simp only [Elem.setS, AL.has_upsert_ne _ _ _ _ h]

/-- one flag of `delta_task_state` -/
def stepB (store P : Elem) (f : String) (val : Bool) : Elem :=
  if store.getB f != val || P.getB f != val then P.setB f val else P
/-- the status of `delta_task_state` -/
def stepS (store P : Elem) (f : String) (val : String) : Elem :=
  if store.getS f != val || P.getS f != val then P.setS f val else P

theorem readS_stepB_ne (store P : Elem) (g k : String) (val : Bool) (h : g ≠ k) :
    readS store (stepB store P g val) k = readS store P k := by
  unfold stepB; split
  · exact readS_setS_ne _ _ _ _ _ h
  · rfl

theorem readS_stepS_ne (store P : Elem) (g k : String) (val : String) (h : g ≠ k) :
    readS store (stepS store P g val) k = readS store P k := by
  unfold stepS; split
  · exact readS_setS_ne _ _ _ _ _ h
  · rfl

theorem readS_stepB_self (store P : Elem) (f : String) (val : Bool) :
    (readS store (stepB store P f val) f == "true") = val := by
  unfold stepB
  split
  · rw [Elem.setB, readS_setS_self]; cases val <;> simp
  · rename_i h
    simp only [Bool.or_eq_true, bne_iff_ne, ne_eq, not_or, Decidable.not_not] at h
    simp only [readS]
    split
    · exact h.2
    · exact h.1

theorem readS_stepS_self (store P : Elem) (f : String) (val : String) :
    readS store (stepS store P f val) f = val := by
  unfold stepS
  split
  · exact readS_setS_self _ _ _ _
  · rename_i h
    simp only [Bool.or_eq_true, bne_iff_ne, ne_eq, not_or, Decidable.not_not] at h
    simp only [readS]
    split
    · exact h.2
    · exact h.1

theorem deltaTaskState_eq (store pending : Elem) (p : ProxyState) (stamp : String) :
    deltaTaskState store pending p stamp =
      stepS store (stepB store (stepB store (stepB store (pending.setS "stamp" stamp)
        "is_held" p.isHeld) "is_queued" p.isQueued) "is_runahead" p.isRunahead) "state" p.status := by
  rfl

end CylcModel.DataStore

namespace CylcModel.DataStore

/-! ### maps and repeated fields through a merge -/

theorem get?_foldr_upsert (kv base : AL String) (x : String) :
    AL.get? (kv.foldr (fun q a => AL.upsert a q.1 q.2) base) x =
      match AL.get? kv x with | some v => some v | none => AL.get? base x := by
  induction kv with
  | nil => simp [AL.get?]
  | cons q t ih =>
    obtain ⟨a, w⟩ := q
    by_cases h : a = x
    · subst h; simp [AL.get?_upsert_self, AL.get?]
    · simp only [List.foldr_cons, AL.get?, h, if_false]
      rw [AL.get?_upsert_ne _ _ _ _ h]; exact ih

theorem merge_m_get? (d u : Elem) (k : String) (kv : AL String) (h : AL.get? u.m k = some kv) :
    ∃ base, AL.get? (d.merge u).m k = some (kv.foldr (fun q a => AL.upsert a q.1 q.2) base) := by
  simp only [Elem.merge]
  generalize u.m = um at h
  induction um with
  | nil => simp [AL.get?] at h
  | cons p t ih =>
    obtain ⟨a, w⟩ := p
    by_cases h1 : a = k
    · subst h1
      simp only [AL.get?, if_true, Option.some.injEq] at h
      subst h
      exact ⟨_, by simp only [List.foldr_cons]; rw [AL.get?_upsert_self]⟩
    · simp only [AL.get?, h1, if_false] at h
      obtain ⟨base, hb⟩ := ih h
      exact ⟨base, by simp only [List.foldr_cons]; rw [AL.get?_upsert_ne _ _ _ _ h1]; exact hb⟩

theorem get?_filter_none {β : Type} (l : AL β) (k : String) (pred : String × β → Bool)
    (h : ∀ v, pred (k, v) = false) : AL.get? (l.filter pred) k = none := by
  induction l with
  | nil => simp [AL.get?]
  | cons q t ih =>
    obtain ⟨a, w⟩ := q
    by_cases h1 : a = k
    · subst h1; simp [List.filter, h, ih]
    · by_cases h2 : pred (a, w) = true
      · simp [List.filter, h2, AL.get?, h1, ih]
      · simp [List.filter, h2, ih]

theorem merge_r_untouched (base : AL (List String)) (t : AL (List String)) (k : String) (h : k ∉ AL.keys t) :
    AL.get? (t.foldr (fun p acc => AL.upsert acc p.1 ((AL.get? acc p.1).getD [] ++ p.2)) base) k = AL.get? base k := by
  induction t with
  | nil => rfl
  | cons p t ih =>
    obtain ⟨a, w⟩ := p
    have h1 : a ≠ k := fun e => h (by simp [AL.keys, e])
    have h2 : k ∉ AL.keys t := fun e => h (by simp only [AL.keys, List.map_cons, List.mem_cons]; exact Or.inr e)
    simp only [List.foldr_cons]
    rw [AL.get?_upsert_ne _ _ _ _ h1]; exact ih h2

theorem merge_r_get? (d u : Elem) (k : String) (v : List String) (hn : (AL.keys u.r).Nodup)
    (h : AL.get? u.r k = some v) : (d.merge u).getR k = d.getR k ++ v := by
  simp only [Elem.merge, Elem.getR]
  generalize u.r = ur at h hn
  induction ur with
  | nil => simp [AL.get?] at h
  | cons p t ih =>
    obtain ⟨a, w⟩ := p
    simp only [AL.keys, List.map_cons, List.nodup_cons] at hn
    by_cases h1 : a = k
    · subst h1
      simp only [AL.get?, if_true, Option.some.injEq] at h
      subst h
      simp only [List.foldr_cons]
      rw [AL.get?_upsert_self, merge_r_untouched _ _ _ hn.1]
      rfl
    · simp only [AL.get?, h1, if_false] at h
      simp only [List.foldr_cons]
      rw [AL.get?_upsert_ne _ _ _ _ h1]
      exact ih h hn.2

theorem keys_upsert_nodup {β : Type} (l : AL β) (k : String) (v : β) (h : (AL.keys l).Nodup) :
    (AL.keys (AL.upsert l k v)).Nodup := by
  by_cases hm : k ∈ AL.keys l
  · rw [AL.keys_upsert_of_mem _ _ _ hm]; exact h
  · rw [AL.upsert_of_not_mem _ _ _ hm]
    simp only [AL.keys, List.map_append, List.map_cons, List.map_nil]
    simp only [AL.keys] at h hm
    rw [List.nodup_append]
    refine ⟨h, by simp, ?_⟩
    intro a ha b hb
    simp at hb
    subst hb
    intro e; subst e; exact hm ha

end CylcModel.DataStore

