/-
The flow-manager part of the state (`flowCounter`, `flowsKnown`, `flowsDb`) is touched only by `cylc set`
(`cli_to_flow_nums`), start-up and restart: frame lemmas for every other primitive of the `Sched3Set` model
(same proofs as in Sched3SetFrame, for another projection of the state).
-/
import CylcModel.Sched3SetFlowInv2

namespace CylcModel.Sched3Set

/-- the flow manager and the `workflow_flows` table -/
structure FM where
  counter : Nat
  known : Flows
  db : Flows

def fm (s : State) : FM := { counter := s.flowCounter, known := s.flowsKnown, db := s.flowsDb }

@[simp] theorem fm_put (s : State) (x : Proxy) : fm (s.put x) = fm s := rfl
@[simp] theorem fm_add (s : State) (x : Proxy) : fm (s.add x) = fm s := by unfold State.add; split <;> rfl
@[simp] theorem fm_dbInsert (s : State) (x : Proxy) : fm (dbInsert s x) = fm s := rfl
@[simp] theorem fm_dbQueue (s : State) (k : UpdKind) (x : Proxy) (o : List (String × Bool)) :
    fm (dbQueue s k x o) = fm s := rfl
@[simp] theorem fm_dbUpdateState (s : State) (x : Proxy) (t : Bool) : fm (dbUpdateState s x t) = fm s := rfl
@[simp] theorem fm_dbUpdateOutputs (g : Graph) (s : State) (x : Proxy) : fm (dbUpdateOutputs g s x) = fm s := rfl
@[simp] theorem fm_dbUpdateFlowWait (s : State) (x : Proxy) : fm (dbUpdateFlowWait s x) = fm s := rfl
@[simp] theorem fm_flushDb (s : State) : fm (flushDb s) = fm s := rfl
@[simp] theorem fm_store (s : State) (x : Proxy) (t : Bool) : fm (store s x t) = fm s := by
  unfold store; split <;> rfl



theorem fm_loadHistoricalOutputs (g : Graph) (s : State) (x : Proxy) :
    fm (loadHistoricalOutputs g s x).1 = fm s := by
  unfold loadHistoricalOutputs
  simp only
  split
  · rfl
  · split <;> rfl

theorem fm_holdNew (s : State) (x : Proxy) : fm (holdNew s x).1 = fm s := by
  unfold holdNew
  split
  · rfl
  · split
    · split <;> rfl
    · rfl

theorem fm_finishSpawn (t : TaskDefn) (s : State) (x : Proxy) (b : Bool) : fm (finishSpawn t s x b).1 = fm s := by
  unfold finishSpawn
  dsimp only
  have h := fm_holdNew s x
  generalize holdNew s x = H at h
  split
  · rw [fm_dbInsert]; exact h
  · exact h

theorem fm_spawnOnAllOutputsWith (spawn : State → String → Int → Flows → State × Option Proxy)
    (hspawn : ∀ st n q f, fm (spawn st n q f).1 = fm st) (g : Graph) (s : State) (x : Proxy) :
    fm (spawnOnAllOutputsWith spawn g s x) = fm s := by
  unfold spawnOnAllOutputsWith
  split
  · rfl
  · split
    · rfl
    · apply foldl_inv (fun st => fm st = fm s)
      · intro st o hst
        apply foldl_inv (fun st => fm st = fm s)
        · intro st c hst
          split
          · exact hst
          · have := hspawn st c.name c.pt x.flows
            split
            · rename_i heq; rw [heq] at this; simp only at this; rw [fm_add, this]; exact hst
            · rename_i heq; rw [heq] at this; simp only at this; rw [this]; exact hst
        · exact hst
      · rfl

theorem fm_spawnTask (g : Graph) : ∀ (fuel : Nat) (s : State) (name : String) (p : Int) (F : Flows) (fw : Bool),
    fm (spawnTask g fuel s name p F fw).1 = fm s := by
  intro fuel
  induction fuel with
  | zero => intro s name p F fw; unfold spawnTask; rfl
  | succ fuel ih =>
    intro s name p F fw
    unfold spawnTask
    dsimp only
    split
    · rfl
    · split
      · rename_i x0 t _ _
        have hL := fm_loadHistoricalOutputs g s
          { x0 with flows := F, status := (taskHistory s name p F).2.1.getD Status.waiting,
                    submitNum := (taskHistory s name p F).1, flowWait := fw }
        generalize loadHistoricalOutputs g s
          { x0 with flows := F, status := (taskHistory s name p F).2.1.getD Status.waiting,
                    submitNum := (taskHistory s name p F).1, flowWait := fw } = L at hL
        split
        · exact hL
        · have hW : fm (if (histFinal (taskHistory s name p F).2.1 && (taskHistory s name p F).2.2) = true then
              afterFlowWait (spawnOnAllOutputsWith (fun st n q f => spawnTask g fuel st n q f false) g L.1 L.2) L.2
            else L).1 = fm s := by
            split
            · unfold afterFlowWait
              simp only [fm_dbUpdateFlowWait]
              rw [fm_spawnOnAllOutputsWith _ (fun st n q f => ih st n q f false)]
              exact hL
            · exact hL
          generalize (if (histFinal (taskHistory s name p F).2.1 && (taskHistory s name p F).2.2) = true then
              afterFlowWait (spawnOnAllOutputsWith (fun st n q f => spawnTask g fuel st n q f false) g L.1 L.2) L.2
            else L) = W at hW
          split
          · exact hW
          · simp only; rw [fm_finishSpawn]; exact hW
      · rfl

theorem fm_spawnOnAllOutputs (g : Graph) (s : State) (x : Proxy) : fm (spawnOnAllOutputs g s x) = fm s := by
  unfold spawnOnAllOutputs
  exact fm_spawnOnAllOutputsWith _ (fun st n q f => fm_spawnTask g spawnFuel st n q f false) g s x

theorem fm_mergeFlows (g : Graph) (s : State) (x : Proxy) (f : Flows) : fm (mergeFlows g s x f) = fm s := by
  unfold mergeFlows
  split
  · rfl
  · dsimp only
    split
    · rfl
    · split
      · rw [fm_spawnOnAllOutputs]; rfl
      · rfl

theorem fm_spawnAndAdd (g : Graph) (s : State) (name : String) (p : Int) (F : Flows) :
    fm (spawnAndAdd g s name p F) = fm s := by
  unfold spawnAndAdd
  split
  · exact fm_mergeFlows g s _ F
  · have := fm_spawnTask g spawnFuel s name p F false
    split
    · rename_i heq; rw [heq] at this; simp only at this; rw [fm_add, this]
    · rename_i heq; rw [heq] at this; simp only at this; exact this

theorem fm_spawnNextParentless (g : Graph) (s : State) (x : Proxy) : fm (spawnNextParentless g s x) = fm s := by
  unfold spawnNextParentless
  split
  · rfl
  · split
    · exact fm_spawnAndAdd g s _ _ _
    · rfl

theorem fm_releaseHeldActive (s : State) (x : Proxy) : fm (releaseHeldActive s x) = fm s := by
  unfold releaseHeldActive
  dsimp only
  split <;> rfl

theorem fm_remove (g : Graph) (s : State) (x : Proxy) : fm (remove g s x) = fm s := by
  unfold remove
  dsimp only
  have h1 := fm_releaseHeldActive s x
  generalize releaseHeldActive s x = s1 at h1
  have h2 : fm (if (!((s1.get? x.pt x.name).getD x).flows.isEmpty && ((s1.get? x.pt x.name).getD x).runahead) = true
      then spawnNextParentless g s1 ((s1.get? x.pt x.name).getD x) else s1) = fm s := by
    split
    · rw [fm_spawnNextParentless]; exact h1
    · exact h1
  generalize (if (!((s1.get? x.pt x.name).getD x).flows.isEmpty && ((s1.get? x.pt x.name).getD x).runahead) = true
      then spawnNextParentless g s1 ((s1.get? x.pt x.name).getD x) else s1) = s2 at h2
  split
  · simp only [fm_flushDb, fm_dbUpdateState]
    exact h2
  · exact h2

theorem fm_removeIfComplete (g : Graph) (s : State) (x : Proxy) : fm (removeIfComplete g s x) = fm s := by
  unfold removeIfComplete
  split
  · rfl
  · dsimp only
    have h1 : fm (if (s.stopTask == some (x.pt, x.name)) = true then { s with stopTaskFinished := true } else s) = fm s := by
      split <;> rfl
    generalize (if (s.stopTask == some (x.pt, x.name)) = true then { s with stopTaskFinished := true } else s) = s1 at h1
    split
    · exact h1
    · split
      · rw [fm_remove]; exact h1
      · exact h1

theorem fm_recordAbs (st : State) (atom : Atom) (b : Bool) : fm (recordAbs st atom b) = fm st := by
  unfold recordAbs
  dsimp only
  split
  · split <;> rfl
  · split <;> rfl

theorem fm_findOrSpawnChild (g : Graph) (st : State) (p : Int) (n : String) (pf : Flows) (c : Child) :
    fm (findOrSpawnChild g st p n pf c).1 = fm st := by
  unfold findOrSpawnChild
  split
  · dsimp only
    split
    · rfl
    · exact fm_mergeFlows g st _ pf
  · split
    · rfl
    · exact fm_spawnTask g spawnFuel st c.name c.pt pf false

theorem fm_satisfyTargets (atom : Atom) (targets : List (Int × String)) (acc : State × List (Int × String)) :
    fm (satisfyTargets atom targets acc).1 = fm acc.1 := by
  unfold satisfyTargets
  apply foldl_inv (fun (a : State × List (Int × String)) => fm a.1 = fm acc.1)
  · intro a k ha
    split
    · exact ha
    · simp only [fm_put]; exact ha
  · rfl

theorem fm_spawnChild (g : Graph) (p : Int) (n out : String) (acc : State × List (Int × String)) (c : Child) :
    fm (spawnChild g p n out acc c).1 = fm acc.1 := by
  unfold spawnChild
  dsimp only
  have h0 := fm_recordAbs acc.1 ⟨p, n, out⟩ c.isAbs
  generalize recordAbs acc.1 ⟨p, n, out⟩ c.isAbs = st0 at h0
  have hR := fm_findOrSpawnChild g st0 p n (parentFlows acc.1 p n) c
  generalize findOrSpawnChild g st0 p n (parentFlows acc.1 p n) c = R at hR
  split
  · simp only; rw [hR, h0]
  · rw [fm_satisfyTargets]
    simp only
    split
    · rw [hR, h0]
    · rw [fm_add, hR, h0]

theorem fm_removeSuicides (g : Graph) (s : State) (ks : List (Int × String)) :
    fm (removeSuicides g s ks) = fm s := by
  unfold removeSuicides
  apply foldl_inv (fun st => fm st = fm s)
  · intro st k hst
    split
    · rw [fm_remove]; exact hst
    · exact hst
  · rfl

theorem fm_spawnChild_fold (g : Graph) (p : Int) (n out : String) :
    ∀ (cs : List Child) (acc : State × List (Int × String)),
      fm (cs.foldl (spawnChild g p n out) acc).1 = fm acc.1 := by
  intro cs
  induction cs with
  | nil => intro acc; rfl
  | cons c cs ih => intro acc; simp only [List.foldl_cons]; rw [ih, fm_spawnChild]

theorem fm_spawnOnOutput (g : Graph) (s : State) (p : Int) (n out : String) :
    fm (spawnOnOutput g s p n out) = fm s := by
  unfold spawnOnOutput
  split
  · rfl
  · rename_i x _ _
    split
    · exact fm_removeIfComplete g s _
    · dsimp only
      have hR := fm_spawnChild_fold g p n out (childrenIfFlows g x out) (s, [])
      generalize (List.foldl (spawnChild g p n out) (s, []) (childrenIfFlows g x out)) = R at hR
      have h3 := fm_removeSuicides g R.1 R.2
      generalize removeSuicides g R.1 R.2 = s3 at h3
      have h4 : fm (if R.2.isEmpty = true then s3 else flushDb s3) = fm s := by
        split
        · rw [h3, hR]
        · rw [fm_flushDb, h3, hR]
      generalize (if R.2.isEmpty = true then s3 else flushDb s3) = s4 at h4
      split
      · rw [fm_removeIfComplete]; exact h4
      · exact h4

theorem fm_spawnChildren (g : Graph) (s : State) (p : Int) (n out : String) (tr forced : Bool) :
    fm (spawnChildren g s p n out tr forced) = fm s := by
  unfold spawnChildren
  dsimp only
  have h1 : ∀ s1, (s1 = (match lookup s p n with | some (x, _) => dbUpdateOutputs g s x | none => s)) →
      fm s1 = fm s := by
    intro s1 h; rw [h]; split <;> rfl
  split
  · exact h1 _ rfl
  · rw [fm_spawnOnOutput]; exact h1 _ rfl

theorem fm_ite_fst (c : Bool) (a b : State × Bool) (s : State) (ha : fm a.1 = fm s) (hb : fm b.1 = fm s) :
    fm (if c = true then a else b).1 = fm s := by
  cases c <;> simp [ha, hb]

theorem fm_handleMessage (g : Graph) (s : State) (p : Int) (n : String) (flag : Flag) (msg : String)
    (forced : Bool) (completed : Option Bool) :
    fm (handleMessage g s p n flag msg forced completed).1 = fm s := by
  unfold handleMessage
  split
  · rfl
  · repeat' split
    all_goals first
      | rfl
      | (simp only [fm_spawnChildren, fm_store]; done)
      | (apply fm_ite_fst <;> simp only [fm_spawnChildren, fm_store])

/-- a forced (or any) message leaves the fm alone -/
theorem fm_processMessage (g : Graph) : ∀ (fuel : Nat) (s : State) (p : Int) (n : String) (flag : Flag) (sn : Nat)
    (msg : String) (forced : Bool), fm (processMessage g fuel s p n flag sn msg forced).1 = fm s := by
  intro fuel
  induction fuel with
  | zero => intro s p n flag sn msg forced; rfl
  | succ fuel ih =>
    intro s p n flag sn msg forced
    unfold processMessage
    split
    · rfl
    · rename_i x tr _
      split
      · rfl
      · split
        · rfl
        · dsimp only
          have himp : ∀ (l : List String) (st : State),
              fm (l.foldl (fun st m => (processMessage g fuel st p n .internal sn m forced).1) st) = fm st := by
            intro l; induction l with
            | nil => intro st; rfl
            | cons a l ihl => intro st; simp only [List.foldl_cons]; rw [ihl, ih]
          rw [fm_handleMessage, himp, fm_store]

theorem fm_forceOutput (g : Graph) (p : Int) (n : String) (acc : State × Bool) (m : String) :
    fm (forceOutput g p n acc m).1 = fm acc.1 := by
  unfold forceOutput
  split
  · rfl
  · split
    · rfl
    · exact fm_processMessage g 4 acc.1 p n _ _ m true

theorem fm_setOutputsItask (g : Graph) (s : State) (p : Int) (n : String) (outs : List String) :
    fm (setOutputsItask g s p n outs) = fm s := by
  unfold setOutputsItask
  split
  · rfl
  · dsimp only
    rename_i t _
    have hR : ∀ (l : List String) (acc : State × Bool), fm (l.foldl (forceOutput g p n) acc).1 = fm acc.1 := by
      intro l; induction l with
      | nil => intro acc; rfl
      | cons m l ih => intro acc; simp only [List.foldl_cons]; rw [ih, fm_forceOutput]
    generalize hRR : List.foldl (forceOutput g p n) (s, true) _ = R
    have hRf : fm R.1 = fm s := by rw [← hRR, hR]
    split
    · exact hRf
    · split
      · rw [fm_store]; exact hRf
      · simp only [fm_flushDb, fm_dbUpdateOutputs, fm_dbUpdateState, fm_store]; exact hRf

end CylcModel.Sched3Set
