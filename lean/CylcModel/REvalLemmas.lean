/-
Helper lemmas for C24 (restricted evaluation): the visitor visits every node, children of
visited nodes are nodes, values produced by `eval` come from resolving a `Name` of the tree.
-/
import CylcModel.REval

namespace CylcModel.REval

open CylcModel.Generated.REval

/-! ### `nodes` -/

mutual
theorem self_mem_nodes : ∀ e : PyExpr, e ∈ nodes e
  | .node k t cs => by simp [nodes]
end

theorem mem_nodesList_of_mem {c : PyExpr} : ∀ {cs : List PyExpr}, c ∈ cs → ∀ {n}, n ∈ nodes c → n ∈ nodesList cs
  | [], h, _, _ => by cases h
  | d :: ds, h, n, hn => by
    simp only [nodesList, List.mem_append]
    rcases List.mem_cons.mp h with rfl | h
    · exact Or.inl hn
    · exact Or.inr (mem_nodesList_of_mem h hn)

mutual
/-- the nodes below a node of the tree are nodes of the tree -/
theorem nodes_trans : ∀ (e : PyExpr) {n : PyExpr}, n ∈ nodes e → ∀ {m}, m ∈ nodes n → m ∈ nodes e
  | .node k t cs, n, hn, m, hm => by
    simp only [nodes, List.mem_cons] at hn
    rcases hn with rfl | hn
    · exact hm
    · simp only [nodes, List.mem_cons]
      exact Or.inr (nodesList_trans cs hn hm)
theorem nodesList_trans : ∀ (cs : List PyExpr) {n : PyExpr}, n ∈ nodesList cs → ∀ {m}, m ∈ nodes n → m ∈ nodesList cs
  | [], n, hn, _, _ => by simp [nodesList] at hn
  | c :: cs, n, hn, m, hm => by
    simp only [nodesList, List.mem_append] at hn ⊢
    rcases hn with hn | hn
    · exact Or.inl (nodes_trans c hn hm)
    · exact Or.inr (nodesList_trans cs hn hm)
end

/-- a child of a node of the tree is a node of the tree -/
theorem child_mem_nodes {e n c : PyExpr} (hn : n ∈ nodes e) (hc : c ∈ n.children) : c ∈ nodes e := by
  apply nodes_trans e hn
  cases n with
  | node k t cs =>
    simp only [nodes, List.mem_cons]
    exact Or.inr (mem_nodesList_of_mem hc (self_mem_nodes c))

/-! ### `check` visits every node -/

mutual
theorem check_none_iff (wl : List String) : ∀ e : PyExpr,
    check wl e = none ↔ ∀ n ∈ nodes e, allowed wl n.kind = true
  | .node k t cs => by
    simp only [check, nodes, List.mem_cons, forall_eq_or_imp, PyExpr.kind]
    by_cases h : allowed wl k = true
    · simp only [h, if_true, true_and]
      exact checkList_none_iff wl cs
    · simp [h]
theorem checkList_none_iff (wl : List String) : ∀ cs : List PyExpr,
    checkList wl cs = none ↔ ∀ n ∈ nodesList cs, allowed wl n.kind = true
  | [] => by simp [checkList, nodesList]
  | c :: cs => by
    simp only [checkList, nodesList, List.mem_append]
    cases h : check wl c with
    | some k =>
      simp only [false_iff, reduceCtorEq]
      intro hall
      have := (check_none_iff wl c).mpr (fun n hn => hall n (Or.inl hn))
      rw [h] at this; cases this
    | none =>
      simp only
      rw [checkList_none_iff wl cs]
      have hc := (check_none_iff wl c).mp h
      constructor
      · intro hr n hn
        rcases hn with hn | hn
        · exact hc n hn
        · exact hr n hn
      · intro hall n hn
        exact hall n (Or.inr hn)
end

mutual
/-- the reported class is the class of the first (pre-order) node that is not whitelisted -/
theorem check_some (wl : List String) : ∀ (e : PyExpr) {k : String}, check wl e = some k →
    ∃ pre n post, nodes e = pre ++ n :: post ∧ n.kind = k ∧ allowed wl k = false ∧
      ∀ m ∈ pre, allowed wl m.kind = true
  | .node k' t cs, k, h => by
    simp only [check] at h
    by_cases ha : allowed wl k' = true
    · simp only [ha, if_true] at h
      obtain ⟨pre, n, post, e, hk, hf, hp⟩ := checkList_some wl cs h
      refine ⟨.node k' t cs :: pre, n, post, by simp [nodes, e], hk, hf, ?_⟩
      intro m hm
      rcases List.mem_cons.mp hm with rfl | hm
      · exact ha
      · exact hp m hm
    · simp only [ha] at h
      simp only [if_false, Option.some.injEq, Bool.false_eq_true] at h
      subst h
      exact ⟨[], .node k' t cs, nodesList cs, by simp [nodes], rfl, by simpa using ha, by simp⟩
theorem checkList_some (wl : List String) : ∀ (cs : List PyExpr) {k : String}, checkList wl cs = some k →
    ∃ pre n post, nodesList cs = pre ++ n :: post ∧ n.kind = k ∧ allowed wl k = false ∧
      ∀ m ∈ pre, allowed wl m.kind = true
  | [], k, h => by simp [checkList] at h
  | c :: cs, k, h => by
    simp only [checkList] at h
    cases hc : check wl c with
    | some k' =>
      simp only [hc, Option.some.injEq] at h
      subst h
      obtain ⟨pre, n, post, e, hk, hf, hp⟩ := check_some wl c hc
      exact ⟨pre, n, post ++ nodesList cs, by simp [nodesList, e], hk, hf, hp⟩
    | none =>
      simp only [hc] at h
      obtain ⟨pre, n, post, e, hk, hf, hp⟩ := checkList_some wl cs h
      refine ⟨nodes c ++ pre, n, post, by simp [nodesList, e], hk, hf, ?_⟩
      intro m hm
      rcases List.mem_append.mp hm with hm | hm
      · exact (check_none_iff wl c).mp hc m hm
      · exact hp m hm
end

/-! ### the class table -/

theorem lookup_mem {l : List (String × List String)} {k : String} {v : List String}
    (h : l.lookup k = some v) : (k, v) ∈ l := by
  induction l with
  | nil => simp [List.lookup] at h
  | cons e l ih =>
    obtain ⟨a, b⟩ := e
    simp only [List.lookup] at h
    by_cases hk : k = a
    · subst hk
      simp only [beq_self_eq_true, Option.some.injEq] at h
      subst h; simp
    · have : (k == a) = false := by simpa using hk
      simp only [this] at h
      exact List.mem_cons_of_mem _ (ih h)

/-- a statement about every class of the table and every class outside it is a statement about
every class name -/
theorem allowed_char {wl kinds : List String}
    (htab : ∀ e ∈ astClasses, (e.2.any fun a => wl.contains a) = true → e.1 ∈ kinds)
    (hwl : ∀ a ∈ wl, a ∈ kinds) {k : String} (h : allowed wl k = true) : k ∈ kinds := by
  unfold allowed allowedIn ancestorsIn at h
  cases hl : astClasses.lookup k with
  | some anc =>
    rw [hl] at h
    exact htab (k, anc) (lookup_mem hl) h
  | none =>
    rw [hl] at h
    simp only [Option.getD_none, List.any_cons, List.any_nil, Bool.or_false, List.contains_eq_mem,
      decide_eq_true_eq] at h
    exact hwl k h

/-! ### evaluation: values are resolved names of the tree -/

/-- `v` is what some `Name` node of the tree resolves to -/
def FromName (cfg : EvalCfg) (vars : Vars) (ns : List PyExpr) (v : Val) : Prop :=
  ∃ n ∈ ns, n.kind = "Name" ∧ resolve cfg vars n.tag = some v

/-- every truth-tested variable is a supplied variable that is named in the tree -/
def TouchedOK (vars : Vars) (ns : List PyExpr) (t : List String) : Prop :=
  ∀ y ∈ t, hasVar vars y = true ∧ ∃ n ∈ ns, n.kind = "Name" ∧ n.tag = y

theorem resolve_var {cfg : EvalCfg} {vars : Vars} {x y : String} (h : resolve cfg vars x = some (.var y)) :
    y = x ∧ hasVar vars x = true := by
  unfold resolve at h
  split at h
  · cases h
  · split at h
    · rename_i hv
      simp only [Option.some.injEq, Val.var.injEq] at h
      exact ⟨h.symm, hv⟩
    · split at h
      · cases h
      · split at h <;> cases h

theorem touchOf_ok {cfg : EvalCfg} {vars : Vars} {ns : List PyExpr} {v : Val}
    (h : FromName cfg vars ns v) : TouchedOK vars ns (touchOf v) := by
  intro y hy
  cases v with
  | var x =>
    simp only [touchOf, List.mem_singleton] at hy
    subst hy
    obtain ⟨n, hn, hk, hr⟩ := h
    obtain ⟨e, hv⟩ := resolve_var hr
    exact ⟨e ▸ hv, n, hn, hk, e.symm⟩
  | globalEntry _ => simp [touchOf] at hy
  | builtin _ => simp [touchOf] at hy
  | debugConst => simp [touchOf] at hy

theorem TouchedOK.append {vars : Vars} {ns : List PyExpr} {a b : List String}
    (ha : TouchedOK vars ns a) (hb : TouchedOK vars ns b) : TouchedOK vars ns (a ++ b) := by
  intro y hy
  rcases List.mem_append.mp hy with h | h
  · exact ha y h
  · exact hb y h

theorem TouchedOK.mono {vars : Vars} {ns ms : List PyExpr} {t : List String}
    (h : TouchedOK vars ns t) (hs : ∀ n ∈ ns, n ∈ ms) : TouchedOK vars ms t := by
  intro y hy
  obtain ⟨hv, n, hn, hk, ht⟩ := h y hy
  exact ⟨hv, n, hs n hn, hk, ht⟩

theorem FromName.mono {cfg : EvalCfg} {vars : Vars} {ns ms : List PyExpr} {v : Val}
    (h : FromName cfg vars ns v) (hs : ∀ n ∈ ns, n ∈ ms) : FromName cfg vars ms v := by
  obtain ⟨n, hn, hk, hr⟩ := h
  exact ⟨n, hs n hn, hk, hr⟩

/-- what `eval` may return on a tree with nodes `ns` -/
def OutOK (cfg : EvalCfg) (vars : Vars) (ns : List PyExpr) : Outcome → Prop
  | .value v t => FromName cfg vars ns v ∧ TouchedOK vars ns t
  | .nameError x t => (∃ n ∈ ns, n.kind = "Name" ∧ n.tag = x ∧ resolve cfg vars x = none) ∧ TouchedOK vars ns t
  | .unmodelled => True

theorem OutOK.mono {cfg : EvalCfg} {vars : Vars} {ns ms : List PyExpr} {o : Outcome}
    (h : OutOK cfg vars ns o) (hs : ∀ n ∈ ns, n ∈ ms) : OutOK cfg vars ms o := by
  cases o with
  | value v t => exact ⟨h.1.mono hs, h.2.mono hs⟩
  | nameError x t =>
    obtain ⟨⟨n, hn, hk, ht, hr⟩, h2⟩ := h
    exact ⟨⟨n, hs n hn, hk, ht, hr⟩, h2.mono hs⟩
  | unmodelled => trivial

theorem OutOK.prepend {cfg : EvalCfg} {vars : Vars} {ns : List PyExpr} {o : Outcome} {t : List String}
    (h : OutOK cfg vars ns o) (ht : TouchedOK vars ns t) : OutOK cfg vars ns (o.prepend t) := by
  cases o with
  | value v t' => exact ⟨h.1, ht.append h.2⟩
  | nameError x t' => exact ⟨h.1, ht.append h.2⟩
  | unmodelled => trivial

mutual
theorem eval_ok (cfg : EvalCfg) (vars : Vars) : ∀ e : PyExpr, OutOK cfg vars (nodes e) (eval cfg vars e)
  | .node k tag cs => by
    unfold eval
    split
    · -- Expression
      match cs with
      | [b] =>
        simp only
        exact (eval_ok cfg vars b).mono (fun n hn => by simp [nodes, nodesList, hn])
      | [] => trivial
      | _ :: _ :: _ => trivial
    · split
      · -- Name
        rename_i hk
        match cs with
        | [ctx] =>
          simp only
          split
          · cases hr : resolve cfg vars tag with
            | some v =>
              simp only
              refine ⟨⟨.node k tag [ctx], by simp [nodes], by simpa [PyExpr.kind] using hk, hr⟩, ?_⟩
              intro y hy; cases hy
            | none =>
              simp only
              refine ⟨⟨.node k tag [ctx], by simp [nodes], by simpa [PyExpr.kind] using hk, rfl, hr⟩, ?_⟩
              intro y hy; cases hy
          · trivial
        | [] => trivial
        | _ :: _ :: _ => trivial
      · split
        · -- BoolOp
          match cs with
          | op :: vs =>
            simp only
            have sub : ∀ n ∈ nodesList vs, n ∈ nodes (.node k tag (op :: vs)) := by
              intro n hn; simp [nodes, nodesList, hn]
            split
            · exact (evalBool_ok cfg vars true vs).mono sub
            · split
              · exact (evalBool_ok cfg vars false vs).mono sub
              · trivial
          | [] => trivial
        · trivial
theorem evalBool_ok (cfg : EvalCfg) (vars : Vars) (isAnd : Bool) : ∀ vs : List PyExpr,
    OutOK cfg vars (nodesList vs) (evalBool cfg vars isAnd vs)
  | [] => by unfold evalBool; trivial
  | [v] => by
    unfold evalBool
    exact (eval_ok cfg vars v).mono (fun n hn => by simp [nodesList, hn])
  | v :: w :: rest => by
    unfold evalBool
    have hv := (eval_ok cfg vars v).mono (ms := nodesList (v :: w :: rest))
      (fun n hn => by simp [nodesList, hn])
    have hrest := (evalBool_ok cfg vars isAnd (w :: rest)).mono (ms := nodesList (v :: w :: rest))
      (fun n hn => by
        simp only [nodesList, List.mem_append] at hn ⊢
        exact Or.inr hn)
    cases he : eval cfg vars v with
    | value x t =>
      rw [he] at hv
      simp only
      have htouch : TouchedOK vars (nodesList (v :: w :: rest)) (t ++ touchOf x) :=
        hv.2.append (touchOf_ok hv.1)
      split
      · exact hrest.prepend htouch
      · exact ⟨hv.1, htouch⟩
    | nameError x t => rw [he] at hv; exact hv
    | unmodelled => trivial
end

end CylcModel.REval
