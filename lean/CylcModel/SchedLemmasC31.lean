/-
C31: sequential tasks.  The shape of the instance graph of a sequential task (the implicit previous-instance
prerequisite) is an explicit decidable hypothesis; with it, `submit_sound` of C01 gives the order property.
-/
import CylcModel.SchedInvC01

namespace CylcModel.Sched

theorem isSeqPre_sat {g : Graph} {q : Int} {n : String} {pre : Pre} {C : Atom → Bool}
    (h : isSeqPre g q n pre = true) (hs : (pre.raise C).isSatisfied = true) :
    q < g.start ∨ C ⟨q, n, "succeeded"⟩ = true := by
  unfold isSeqPre at h
  split at h
  · rename_i a b hat
    simp only [Bool.and_eq_true, beq_iff_eq, Bool.or_eq_true, Bool.not_eq_true', decide_eq_true_eq] at h
    obtain ⟨⟨ha, hb⟩, he⟩ := h
    subst ha
    have hflag : (b || C ⟨q, n, "succeeded"⟩) = true := by
      unfold Pre.isSatisfied Pre.raise at hs
      simp only [hat, List.map_cons, List.map_nil] at hs
      rcases he with he | he
      · simp only [he, List.all_cons, List.all_nil, Bool.and_true] at hs
        exact hs
      · simp only [he, BE.eval, List.getElem?_cons_zero] at hs
        exact hs
    simp only [Bool.or_eq_true] at hflag
    rcases hflag with hb' | hc
    · rcases hb with hb | hb
      · rw [hb] at hb'; cases hb'
      · exact Or.inl hb
    · exact Or.inr hc
  · cases h

theorem inst?_mem {t : TaskDefn} {p : Int} {d : InstDef} (h : t.inst? p = some d) : (p, d) ∈ t.insts := by
  unfold TaskDefn.inst? at h
  simp only [Option.map_eq_some_iff] at h
  obtain ⟨pd, hf, hd⟩ := h
  have hm := List.mem_of_find?_eq_some hf
  have hp := List.find?_some hf
  simp only [beq_iff_eq] at hp
  have : pd = (p, d) := by rw [← hp, ← hd]
  rw [← this]; exact hm

/-- **C31 order**: in every state of every run, a launch of an instance of a sequential task (a task whose
instance graph has the sequential shape) is justified by the `succeeded` output of the nearest previous
instance being complete, unless that instance lies before the start point. -/
theorem seq_launch_after_prev {g : Graph} (hwf : g.wf = true) {n : String} (hshape : g.seqShape n = true)
    (ops : List Op) : ∀ s ∈ run g ops, ∀ l ∈ s.launched, l.2.1 = n →
      ∀ t q, g.task? n = some t → prevInst t l.1 = some q →
        q < g.start ∨ completedB s ⟨q, n, "succeeded"⟩ = true := by
  intro s hs l hl hn t q ht hq
  obtain ⟨t', d, h1, h2, _, _, h5, _⟩ := (c01_run hwf ops s hs).2.launched l hl
  rw [hn, ht] at h1
  have htt : t = t' := Option.some.inj h1
  subst htt
  unfold Graph.seqShape at hshape
  rw [ht] at hshape
  have := List.all_eq_true.mp hshape (l.1, d) (inst?_mem h2)
  simp only [hq] at this
  obtain ⟨pre, hpre, hsp⟩ := List.any_eq_true.mp this
  exact isSeqPre_sat hsp (h5 pre hpre)

end CylcModel.Sched
