/-
Helper lemmas for property C38 (`PathClean`).

Part A: `parse_rm_dirs` — an accepted pattern is a `/`-joined list of proper components (no `..`),
        hence every lexical glob match stays below the directory the glob starts in.
Part B: the filtering loop of `glob_in_run_dir`.
Part C: containment of the deleting operations (`Shr`, `Inside`, the walk through the ancestors).
Part D: completeness (what is matched is gone afterwards).
Part E: the tidy-up after the deletion (`runN`, `_cylc-install`, empty parents).
-/
import CylcModel.PathClean
import CylcModel.PathNameLemmas
import CylcModel.FsLemmas

namespace CylcModel.PathClean
open CylcModel.Fs
open CylcModel.PathName

/-! ## Part A: parse_rm_dirs -/

theorem isAbs_normpath_of_slashes (p : Str) (h : initialSlashes p ≠ 0) : isAbs (normpath p) = true := by
  have hne : p ≠ [] := by intro e; subst e; simp [initialSlashes] at h
  unfold normpath
  simp only [hne, if_false]
  have hk : ∃ k, initialSlashes p = k + 1 := ⟨initialSlashes p - 1, by omega⟩
  obtain ⟨k, hk⟩ := hk
  simp only [hk, List.replicate_succ, List.cons_append]
  split
  · next h2 => simp at h2
  · simp [isAbs]

theorem initialSlashes_zero_of_rel (p : Str) (h : isAbs (normpath p) = false) : initialSlashes p = 0 := by
  by_cases h0 : initialSlashes p = 0
  · exact h0
  · rw [isAbs_normpath_of_slashes p h0] at h; cases h

/-- a relative, normalised pattern that is not `.`, `..` or `../…` was produced by a walk that
never went up -/
theorem rel_norm_core (p : Str) (hne : p ≠ []) (habs : isAbs (normpath p) = false)
    (hdot : normpath p ≠ dot) (hdd : normpath p ≠ dotdot)
    (hpre : dotdotSlash.isPrefixOf (normpath p) = false) :
    normGo false [] (splitSlash p) ≠ [] ∧ dotdot ∉ normGo false [] (splitSlash p) ∧
    normpath p = joinSlash (normGo false [] (splitSlash p)).reverse := by
  have h0 := initialSlashes_zero_of_rel p habs
  have hnp : normpath p =
      (if joinSlash (normGo false [] (splitSlash p)).reverse = [] then dot
       else joinSlash (normGo false [] (splitSlash p)).reverse) := by
    simp [normpath, hne, h0]
  generalize hr : normGo false [] (splitSlash p) = r at hnp
  have hmem : ∀ c ∈ r, c ≠ [] := by
    intro c hc
    have := normGo_mem false (splitSlash p) [] c (by rw [hr]; exact hc)
    simp at this
    exact this.2.1
  have hbd : BottomDD r := by
    rw [← hr]; exact bottomDD_normGo _ [] (by intro hm; simp at hm)
  have hjne : ∀ a t, r.reverse = a :: t → joinSlash r.reverse ≠ [] := by
    intro a t hrev
    have ha : a ≠ [] := hmem a (by
      have : a ∈ r.reverse := by rw [hrev]; simp
      simpa using this)
    have hj := join_head a t ha
    rw [hrev]
    intro e; rw [e] at hj
    cases a with
    | nil => exact ha rfl
    | cons x xs => simp at hj
  have key : r ≠ [] ∧ dotdot ∉ r := by
    constructor
    · intro e
      subst e
      apply hdot
      rw [hnp]; simp [joinSlash]
    · intro hd
      have hl := hbd hd
      have : ∃ t, r.reverse = dotdot :: t := by
        cases hrev : r.reverse with
        | nil => simp at hrev; subst hrev; simp at hd
        | cons a t =>
          have : r.reverse.head? = some dotdot := by rw [List.head?_reverse]; exact hl
          rw [hrev] at this
          simp at this
          exact ⟨t, by rw [this]⟩
      obtain ⟨t, ht⟩ := this
      have hnn := hjne dotdot t ht
      rw [if_neg hnn, ht] at hnp
      cases t with
      | nil => exact hdd (by rw [hnp]; rfl)
      | cons b bs =>
        rw [hnp] at hpre
        simp [joinSlash, dotdot, dotdotSlash, List.isPrefixOf] at hpre
  refine ⟨key.1, key.2, ?_⟩
  rw [hnp]
  cases hrev : r.reverse with
  | nil => simp at hrev; exact absurd hrev key.1
  | cons a t =>
    have := hjne a t hrev
    rw [hrev] at this
    simp [this]

/-- what `parsePart` accepts: proper components joined by `/`, optionally followed by one `/` -/
theorem parsePart_ok (sp : Char → Bool) (part pat : Str) (h : parsePart sp part = .ok pat) :
    ∃ cs : List Str, cs ≠ [] ∧ (∀ c ∈ cs, Proper c) ∧
      (pat = joinSlash cs ∨ pat = joinSlash cs ++ ['/']) := by
  unfold parsePart at h
  simp only [] at h
  split at h
  · cases h
  · next hne =>
    split at h
    · cases h
    · next habs =>
      split at h
      · cases h
      · next hnot =>
        have habs' : isAbs (normpath (strip sp part)) = false := by simpa using habs
        have hdot : normpath (strip sp part) ≠ dot := fun e => hnot (.inl e)
        have hdd : normpath (strip sp part) ≠ dotdot := fun e => hnot (.inr (.inl e))
        have hpre : dotdotSlash.isPrefixOf (normpath (strip sp part)) = false := by
          cases hb : dotdotSlash.isPrefixOf (normpath (strip sp part)) with
          | false => rfl
          | true => exact absurd (.inr (.inr hb)) hnot
        obtain ⟨h1, h2, h3⟩ := rel_norm_core (strip sp part) hne habs' hdot hdd hpre
        refine ⟨(normGo false [] (splitSlash (strip sp part))).reverse, by simpa using h1, ?_, ?_⟩
        · intro c hc
          have hc' : c ∈ normGo false [] (splitSlash (strip sp part)) := by simpa using hc
          have := normGo_mem false (splitSlash (strip sp part)) [] c hc'
          simp at this
          exact ⟨this.2.1, this.2.2, fun e => h2 (e ▸ hc'), splitSlash_noSlash _ c this.1⟩
        · simp only [PartResult.ok.injEq] at h
          rw [h3] at h
          split at h
          · exact .inr h.symm
          · exact .inl h.symm

/-- the components of an accepted pattern, as glob sees them -/
theorem parsePart_split (sp : Char → Bool) (part pat : Str) (h : parsePart sp part = .ok pat) :
    ∀ c ∈ splitSlash pat, c ≠ [] → Proper c := by
  obtain ⟨cs, hne, hp, hpat⟩ := parsePart_ok sp part pat h
  have hs : ∀ c ∈ cs, '/' ∉ c := fun c hc => (hp c hc).2.2.2
  rcases hpat with rfl | rfl
  · rw [split_join cs hne hs]
    intro c hc _; exact hp c hc
  · rw [split_join_append cs [] hne hs]
    intro c hc hcn
    simp [splitSlash] at hc
    rcases hc with hc | hc
    · exact hp c hc
    · exact absurd hc hcn

theorem parseRmDirs_go_mem (sp : Char → Bool) (parts acc out : List Str)
    (hacc : ∀ pat ∈ acc, ∃ part, parsePart sp part = .ok pat)
    (h : parseRmDirs.go sp acc parts = some out) :
    ∀ pat ∈ out, ∃ part, parsePart sp part = .ok pat := by
  induction parts generalizing acc with
  | nil =>
    simp [parseRmDirs.go] at h
    subst h
    intro pat hp
    exact hacc pat (by simpa using hp)
  | cons p ps ih =>
    simp only [parseRmDirs.go] at h
    split at h
    · exact ih acc hacc h
    · next pat hpp =>
      apply ih _ _ h
      intro x hx
      split at hx
      · exact hacc x hx
      · simp at hx
        rcases hx with rfl | hx
        · exact ⟨p, hpp⟩
        · exact hacc x hx
    · cases h
    · cases h

theorem parseRmDirs_mem (sp : Char → Bool) (items out : List Str) (h : parseRmDirs sp items = some out) :
    ∀ pat ∈ out, ∃ part, parsePart sp part = .ok pat :=
  parseRmDirs_go_mem sp _ [] out (by simp) h

/-- a lexical match of a pattern whose non-empty components are proper consists of proper names -/
theorem lexMatch_proper (isEntry : Str → Prop) (fn : Str → Str → Prop) (hE : ∀ n, isEntry n → Proper n)
    (ps ns : List Str) (h : LexMatch isEntry fn ps ns) (hp : ∀ c ∈ ps, c ≠ [] → Proper c) :
    ∀ n ∈ ns, Proper n := by
  induction h with
  | nil => simp
  | slash => simp
  | lit c ps ns _ hc _ ih =>
    intro n hn
    simp at hn
    rcases hn with rfl | hn
    · exact hp n (by simp) hc
    · exact ih (fun c hc => hp c (by simp [hc])) n hn
  | magic c m ps ns _ _ he _ _ ih =>
    intro n hn
    simp at hn
    rcases hn with rfl | hn
    · exact hE n he
    · exact ih (fun c hc => hp c (by simp [hc])) n hn
  | deepZero ps ns _ ih => exact ih (fun c hc => hp c (by simp [hc]))
  | deepMore m ps ns he _ ih =>
    intro n hn
    simp at hn
    rcases hn with rfl | hn
    · exact hE n he
    · exact ih hp n hn

/-! ## Part B: the filtering loop of glob_in_run_dir -/

/-- no ancestor of `m` (run dir … parent of `m`) is a symlink other than one of `sds` -/
def Safe (fs : Fs) (n : Nat) (runDir : P) (sds : List P) (m : P) : Prop :=
  ∀ k, k < m.length → isLink fs n (runDir ++ m.take k) = true → m.take k ∈ sds

instance (fs : Fs) (n : Nat) (runDir : P) (sds : List P) (m : P) : Decidable (Safe fs n runDir sds m) := by
  unfold Safe; exact inferInstance

theorem mem_ancestors (rel a : P) : a ∈ ancestors rel ↔ ∃ k, k < rel.length ∧ a = rel.take k := by
  simp only [ancestors, List.mem_map, List.mem_range]
  constructor
  · rintro ⟨k, hk, rfl⟩; exact ⟨k, hk, rfl⟩
  · rintro ⟨k, hk, rfl⟩; exact ⟨k, hk, rfl⟩

theorem scanAnc_keep (fs : Fs) (n : Nat) (runDir : P) (sds mts results : List P) (path : P) :
    ∀ (as ex ex' : List P), scanAnc fs n runDir sds mts results path as ex = (true, ex') →
      ∀ a ∈ as, isLink fs n (runDir ++ a) = true → a ∈ sds := by
  intro as
  induction as with
  | nil => intro _ _ _ a ha; simp at ha
  | cons b bs ih =>
    intro ex ex' h a ha hl
    unfold scanAnc at h
    split at h
    · simp at h
    · split at h
      · simp at h
      · next hbad =>
        split at h
        · simp at h
        · split at h
          · simp at h
          · simp at ha
            rcases ha with rfl | ha
            · simp [hl] at hbad
              exact hbad
            · exact ih ex ex' h a ha hl

theorem filterLoop_safe (fs : Fs) (n : Nat) (runDir : P) (sds mts : List P) :
    ∀ (rest results ex : List P), (∀ p ∈ results, Safe fs n runDir sds p) →
      ∀ p ∈ filterLoop fs n runDir sds mts rest results ex, Safe fs n runDir sds p := by
  intro rest
  induction rest with
  | nil => intro results ex h p hp; simp [filterLoop] at hp; exact h p hp
  | cons path rest ih =>
    intro results ex h p hp
    simp only [filterLoop] at hp
    generalize hr : scanAnc fs n runDir sds mts results path (ancestors path) ex = r at hp
    obtain ⟨keep, ex'⟩ := r
    simp only at hp
    cases keep with
    | false => exact ih results ex' h p (by simpa using hp)
    | true =>
      apply ih (path :: results) ex' _ p (by simpa using hp)
      intro x hx
      simp at hx
      rcases hx with rfl | hx
      · intro k hk hl
        exact scanAnc_keep fs n runDir sds mts results x _ ex ex' hr (x.take k)
          ((mem_ancestors x _).mpr ⟨k, hk, rfl⟩) hl
      · exact h x hx

/-- **every path `glob_in_run_dir` returns has no ancestor that is a non-standard symlink** -/
theorem globInRunDir_safe (fs : Fs) (n : Nat) (runDir : P) (sds raw : List P) :
    ∀ p ∈ globInRunDir fs n runDir sds raw, Safe fs n runDir sds p := by
  intro p hp
  unfold globInRunDir at hp
  simp only at hp
  split at hp
  · split at hp
    · simp at hp
    · exact filterLoop_safe fs n runDir sds _ _ [] [] (by simp) p hp
  · exact filterLoop_safe fs n runDir sds _ _ [] [] (by simp) p hp

/-! ## Part C: containment -/

/-- the directory entry a path names (last component not followed), semantically -/
def LRes (fs : Fs) (p q : P) : Prop :=
  (p = [] ∧ q = []) ∨
  ∃ d last, p = p.dropLast ++ [last] ∧ Res fs [] p.dropLast d ∧ kindAt fs d = some .dir ∧ q = d ++ [last]

theorem LRes.mono {fs' fs : Fs} (hs : SubFs fs' fs) {p q : P} (h : LRes fs' p q) : LRes fs p q := by
  rcases h with h | ⟨d, last, h1, h2, h3, h4⟩
  · exact .inl h
  · exact .inr ⟨d, last, h1, h2.mono hs, hs _ _ h3, h4⟩

theorem lres_LRes {fs : Fs} {n : Nat} {p q : P} (h : lres fs n p = some q) : LRes fs p q := by
  rcases lres_sound h with h | ⟨d, last, h1, h2, h3, _, h5⟩
  · exact .inl h
  · exact .inr ⟨d, last, h1, h2, h3, h5⟩

/-- **inside the workflow**: at or below the run-directory entry, below the directory the run dir
resolves to, or below the directory one of the standard symlink dirs `S` resolves to (all in the
tree `fs0` as it was before cleaning) -/
def Inside (fs0 : Fs) (runDir : P) (S : List P) (p : P) : Prop :=
  (∃ q, LRes fs0 runDir q ∧ q <+: p) ∨ (∃ r, Res fs0 [] runDir r ∧ r <+: p) ∨
  (∃ s ∈ S, ∃ t, Res fs0 [] (runDir ++ s) t ∧ t <+: p)

theorem Inside.up {fs0 : Fs} {runDir : P} {S : List P} {p q : P} (h : Inside fs0 runDir S p)
    (hpq : p <+: q) : Inside fs0 runDir S q := by
  rcases h with ⟨x, h1, h2⟩ | ⟨x, h1, h2⟩ | ⟨s, hs, t, h1, h2⟩
  · exact .inl ⟨x, h1, h2.trans hpq⟩
  · exact .inr (.inl ⟨x, h1, h2.trans hpq⟩)
  · exact .inr (.inr ⟨s, hs, t, h1, h2.trans hpq⟩)

/-- `fs'` is `fs` with some entries deleted, all of them satisfying `A` -/
def Shr (A : P → Prop) (fs fs' : Fs) : Prop := SubFs fs' fs ∧ ∀ e ∈ fs, e ∉ fs' → A e.1

theorem Shr.refl (A : P → Prop) (fs : Fs) : Shr A fs fs := ⟨SubFs.refl fs, fun _ he hne => absurd he hne⟩

theorem Shr.trans {A : P → Prop} {a b c : Fs} (h1 : Shr A a b) (h2 : Shr A b c) : Shr A a c := by
  refine ⟨h2.1.trans h1.1, fun e he hne => ?_⟩
  by_cases hb : e ∈ b
  · exact h2.2 e hb hne
  · exact h1.2 e he hb

theorem shr_rmtree {A : P → Prop} (fs : Fs) (q : P) (h : ∀ p, q <+: p → A p) : Shr A fs (rmtree fs q) :=
  ⟨subFs_rmtree fs q, fun _ he hne => h _ (mem_rmtree he hne)⟩

theorem shr_remove {A : P → Prop} (fs : Fs) (q : P) (h : A q) : Shr A fs (remove fs q) :=
  ⟨subFs_remove fs q, fun e he hne => by rw [mem_remove he hne]; exact h⟩

theorem shr_removeDirOrFile {A : P → Prop} (hA : ∀ p q, A p → p <+: q → A q) (fs : Fs) (n : Nat) (p : P)
    (hq : ∀ q, lres fs n p = some q → A q) : Shr A fs (removeDirOrFile fs n p).1 := by
  unfold removeDirOrFile
  split
  · exact Shr.refl A fs
  · next q hl =>
    split
    · exact shr_rmtree fs q (fun x hx => hA _ _ (hq q hl) hx)
    · exact shr_remove fs q (hq q hl)
    · exact Shr.refl A fs

theorem shr_removeDirAndTarget {A : P → Prop} (hA : ∀ p q, A p → p <+: q → A q) (fs : Fs) (n : Nat) (p : P)
    (hq : ∀ q, lres fs n p = some q → A q) (ht : ∀ t, resolve fs n [] p = some t → A t) :
    Shr A fs (removeDirAndTarget fs n p).1 := by
  unfold removeDirAndTarget
  split
  · exact Shr.refl A fs
  · split
    · -- a link: target tree, then the link itself
      have h1 : Shr A fs (match resolve fs n [] p with | some t => rmtree fs t | none => fs) := by
        split
        · next t hr => exact shr_rmtree fs t (fun x hx => hA _ _ (ht t hr) hx)
        · exact Shr.refl A fs
      have key : ∀ fs1, Shr A fs fs1 → Shr A fs (match lres fs1 n p with
          | some q => if (kindAt fs1 q).isSome then (remove fs1 q, none) else (fs1, some Err.fileNotFound)
          | none => (fs1, some Err.fileNotFound)).1 := by
        intro fs1 h1
        split
        · next q hl =>
          split
          · exact h1.trans (shr_remove fs1 q (hq q (lres_mono h1.1 n p q hl)))
          · exact h1
        · exact h1
      exact key _ h1
    · split
      · exact Shr.refl A fs
      · next q hr => exact shr_rmtree fs q (fun x hx => hA _ _ (ht q hr) hx)

theorem isLink_snoc {fs : Fs} {n : Nat} (p : P) (c : Name) (d t : P) (rel : Bool)
    (hd : resolve fs n [] p = some d) (hdir : kindAt fs d = some .dir)
    (hk : kindAt fs (d ++ [c]) = some (.link t rel)) : isLink fs n (p ++ [c]) = true := by
  unfold isLink lkind lres
  rw [List.getLast?_concat, List.dropLast_concat]
  simp [hd, hdir, hk, Kind.isLink]

/-- the walk through the ancestors: if no non-empty prefix of `m` is a link outside `S`, and what
the run dir and the members of `S` resolve to is allowed, then what `runDir/m` resolves to is allowed -/
theorem walk_allowed {fs : Fs} {n : Nat} {runDir : P} {S : List P} {A : P → Prop}
    (hA : ∀ p q, A p → p <+: q → A q)
    (hrun : ∀ d, Res fs [] runDir d → A d)
    (hstd : ∀ s ∈ S, ∀ d, Res fs [] (runDir ++ s) d → A d)
    (m : P)
    (hanc : ∀ k, 0 < k → k ≤ m.length → isLink fs n (runDir ++ m.take k) = true → m.take k ∈ S) :
    ∀ k, k ≤ m.length → ∀ d, resolve fs n [] (runDir ++ m.take k) = some d → A d := by
  intro k
  induction k with
  | zero =>
    intro _ d h
    simp at h
    exact hrun d (resolve_sound _ _ _ _ h)
  | succ k ih =>
    intro hk d h
    have hk' : k < m.length := by omega
    have htake : m.take (k + 1) = m.take k ++ [m[k]] := by
      rw [List.take_succ_eq_append_getElem hk']
    rw [htake, ← List.append_assoc] at h
    obtain ⟨d', hd'⟩ := resolve_prefix n [] (runDir ++ m.take k) [m[k]] d h
    have hAd' := ih (by omega) d' hd'
    have hR := resolve_sound _ _ _ _ h
    obtain ⟨d'', h1, h2, h3⟩ := hR.split (runDir ++ m.take k) [m[k]] rfl (kindAt_root fs)
    have hdd : d'' = d' := h1.det (resolve_sound _ _ _ _ hd')
    subst hdd
    rcases h2.single with ⟨rfl, _⟩ | ⟨t, rel, hkl, _⟩
    · exact hA _ _ hAd' (List.prefix_append _ _)
    · -- the component is a link: it must be one of `S`
      have hlink : isLink fs n (runDir ++ m.take (k + 1)) = true := by
        rw [htake, ← List.append_assoc]
        exact isLink_snoc _ _ d'' t rel hd' (h3 (by simp)) hkl
      have hS := hanc (k + 1) (by omega) hk hlink
      apply hstd _ hS d
      rw [htake, ← List.append_assoc]
      exact hR

theorem lres_snoc {fs : Fs} {n : Nat} {p q : P} {c : Name} (h : lres fs n (p ++ [c]) = some q) :
    ∃ d, resolve fs n [] p = some d ∧ kindAt fs d = some .dir ∧ q = d ++ [c] := by
  unfold lres at h
  rw [List.getLast?_concat, List.dropLast_concat] at h
  simp only at h
  split at h
  · next d hd =>
    split at h
    · next hk => simp at h; exact ⟨d, hd, hk, h.symm⟩
    · cases h
  · cases h

theorem Safe.mono_set {fs : Fs} {n : Nat} {runDir : P} {sds S : List P} (hsub : ∀ a ∈ sds, a ∈ S) {m : P}
    (h : Safe fs n runDir sds m) : Safe fs n runDir S m := fun k hk hl => hsub _ (h k hk hl)

/-- the entry named by a safe path below the run dir is inside the workflow.  `fsk` = the tree when
the path was checked, `fs ⊆ fsk ⊆ fs0` the tree when it is used -/
theorem lres_inside {fs0 fsk fs : Fs} {n : Nat} {runDir : P} {S : List P}
    (h0 : SubFs fsk fs0) (hk : SubFs fs fsk) (m : P) (hsafe : Safe fsk n runDir S m)
    (q : P) (h : lres fs n (runDir ++ m) = some q) : Inside fs0 runDir S q := by
  rcases List.eq_nil_or_concat m with rfl | ⟨m', c, rfl⟩
  · simp only [List.append_nil] at h
    exact .inl ⟨q, (lres_LRes h).mono (hk.trans h0), List.prefix_refl _⟩
  · simp only [List.concat_eq_append] at h hsafe
    rw [← List.append_assoc] at h
    obtain ⟨d, hd, _, rfl⟩ := lres_snoc h
    have hd' := resolve_mono hk _ _ _ _ hd
    have hw := walk_allowed (fs := fsk) (n := n) (runDir := runDir) (S := S) (A := Inside fs0 runDir S)
      (fun _ _ hp hpq => hp.up hpq)
      (fun d hr => .inr (.inl ⟨d, hr.mono h0, List.prefix_refl _⟩))
      (fun s hs d hr => .inr (.inr ⟨s, hs, d, hr.mono h0, List.prefix_refl _⟩))
      m'
      (fun k _ hkl hl => by
        have := hsafe k (by simp; omega) (by rw [List.take_append_of_le_length hkl]; exact hl)
        rwa [List.take_append_of_le_length hkl] at this)
      m'.length (Nat.le_refl _) d (by simpa using hd')
    exact hw.up (List.prefix_append _ _)

/-- `S` is closed under "ancestor that is a link": what `get_symlink_dirs` returns -/
def LinkClosed (fs0 : Fs) (n : Nat) (runDir : P) (S : List P) : Prop :=
  ∀ sd ∈ S, ∀ k, isLink fs0 n (runDir ++ sd.take k) = true → sd.take k ∈ S

theorem shr_rdat_std {fs0 fs : Fs} {n : Nat} {runDir : P} {S : List P} (hc : LinkClosed fs0 n runDir S)
    (h0 : SubFs fs fs0) (sd : P) (hsd : sd ∈ S) :
    Shr (Inside fs0 runDir S) fs (removeDirAndTarget fs n (runDir ++ sd)).1 := by
  apply shr_removeDirAndTarget (fun _ _ hp hpq => hp.up hpq)
  · intro q hq
    exact lres_inside (SubFs.refl fs0) h0 sd (fun k _ hl => hc sd hsd k hl) q hq
  · intro t ht
    exact .inr (.inr ⟨sd, hsd, t, (resolve_sound _ _ _ _ ht).mono h0, List.prefix_refl _⟩)

theorem shr_rdat_run {fs0 fs : Fs} {n : Nat} {runDir : P} {S : List P} (h0 : SubFs fs fs0) :
    Shr (Inside fs0 runDir S) fs (removeDirAndTarget fs n runDir).1 := by
  apply shr_removeDirAndTarget (fun _ _ hp hpq => hp.up hpq)
  · intro q hq
    exact .inl ⟨q, (lres_LRes hq).mono h0, List.prefix_refl _⟩
  · intro t ht
    exact .inr (.inl ⟨t, (resolve_sound _ _ _ _ ht).mono h0, List.prefix_refl _⟩)

theorem cleanSymlinkDirs_shr {fs0 : Fs} {n : Nat} {runDir : P} {S : List P}
    (hc : LinkClosed fs0 n runDir S) :
    ∀ (sds : List P) (fs : Fs) (ms : List P), (∀ sd ∈ sds, sd ∈ S) → SubFs fs fs0 →
      Shr (Inside fs0 runDir S) fs (cleanSymlinkDirs n runDir sds fs ms).1 ∧
      ∀ p ∈ (cleanSymlinkDirs n runDir sds fs ms).2.1, p ∈ ms := by
  intro sds
  induction sds with
  | nil => intro fs ms _ _; exact ⟨Shr.refl _ _, fun p hp => hp⟩
  | cons sd sds ih =>
    intro fs ms hS h0
    unfold cleanSymlinkDirs
    split
    · have hstep := shr_rdat_std hc h0 sd (hS sd (by simp))
      generalize hr : removeDirAndTarget fs n (runDir ++ sd) = r at hstep
      obtain ⟨fs1, e⟩ := r
      cases e with
      | some e => exact ⟨hstep, fun p hp => hp⟩
      | none =>
        simp only
        split
        · exact ⟨hstep, fun p hp => hp⟩
        · obtain ⟨h1, h2⟩ := ih fs1 (ms.erase sd) (fun x hx => hS x (by simp [hx])) (hstep.1.trans h0)
          exact ⟨hstep.trans h1, fun p hp => List.mem_of_mem_erase (h2 p hp)⟩
    · exact ih fs ms (fun x hx => hS x (by simp [hx])) h0

theorem cleanRest_shr {fs0 fsk : Fs} {n : Nat} {runDir : P} {S : List P} (skip : Bool)
    (h0 : SubFs fsk fs0) :
    ∀ (ms : List P) (fs : Fs), SubFs fs fsk → (∀ m ∈ ms, Safe fsk n runDir S m) →
      Shr (Inside fs0 runDir S) fs (cleanRest skip n runDir ms fs).1 := by
  intro ms
  induction ms with
  | nil => intro fs _ _; exact Shr.refl _ _
  | cons m ms ih =>
    intro fs hk hsafe
    unfold cleanRest
    split
    · exact ih fs hk (fun x hx => hsafe x (by simp [hx]))
    · have hstep : Shr (Inside fs0 runDir S) fs (removeDirOrFile fs n (runDir ++ m)).1 :=
        shr_removeDirOrFile (fun _ _ hp hpq => hp.up hpq) fs n _
          (fun q hq => lres_inside h0 hk m (hsafe m (by simp)) q hq)
      generalize hr : removeDirOrFile fs n (runDir ++ m) = r at hstep
      obtain ⟨fs1, e⟩ := r
      cases e with
      | some e => exact hstep
      | none => exact hstep.trans (ih fs1 (hstep.1.trans hk) (fun x hx => hsafe x (by simp [hx])))

theorem cleanUsingGlob_shr {fs0 fsk : Fs} {n : Nat} {runDir : P} {S : List P} (skip : Bool)
    (hc : LinkClosed fs0 n runDir S) (h0 : SubFs fsk fs0) (raw : List P) :
    Shr (Inside fs0 runDir S) fsk (cleanUsingGlob skip fsk n runDir S raw).1 := by
  unfold cleanUsingGlob
  simp only
  have hsub : ∀ a ∈ symlinkDirPathOrder.filter (fun d => S.contains d), a ∈ S := by
    intro a ha
    have := (List.mem_filter.mp ha).2
    simpa using this
  generalize symlinkDirPathOrder.filter (fun d => S.contains d) = sds at hsub
  have hsafe := globInRunDir_safe fsk n runDir sds raw
  generalize globInRunDir fsk n runDir sds raw = ms at hsafe
  split
  · exact Shr.refl _ _
  · obtain ⟨h1, h2⟩ := cleanSymlinkDirs_shr hc sds fsk ms hsub h0
    generalize hr : cleanSymlinkDirs n runDir sds fsk ms = r at h1 h2
    obtain ⟨fs1, ms1, e, early⟩ := r
    cases e with
    | some e => exact h1
    | none =>
      cases early with
      | true => exact h1
      | false =>
        simp only
        exact h1.trans (cleanRest_shr skip h0 ms1 fs1 h1.1
          (fun m hm => (hsafe m (h2 m hm)).mono_set hsub))

theorem cleanMain_go_shr {fs0 : Fs} {n : Nat} {runDir : P} {S : List P} (skip : Bool)
    (hc : LinkClosed fs0 n runDir S) :
    ∀ (pats : List (List P)) (fs : Fs), SubFs fs fs0 →
      Shr (Inside fs0 runDir S) fs (cleanMain.go skip n runDir S pats fs).1 := by
  intro pats
  induction pats with
  | nil => intro fs _; exact Shr.refl _ _
  | cons raw rest ih =>
    intro fs h0
    unfold cleanMain.go
    have hstep := cleanUsingGlob_shr skip hc h0 raw
    generalize hr : cleanUsingGlob skip fs n runDir S raw = r at hstep
    obtain ⟨fs1, e⟩ := r
    cases e with
    | some e => exact hstep
    | none => exact hstep.trans (ih fs1 (hstep.1.trans h0))

theorem cleanMain_whole_shr {fs0 : Fs} {n : Nat} {runDir : P} {S : List P}
    (hc : LinkClosed fs0 n runDir S) (keys : List P) :
    ∀ (ds : List P) (fs : Fs), (∀ d ∈ ds, d ∈ S) → SubFs fs fs0 →
      Shr (Inside fs0 runDir S) fs (cleanMain.whole n runDir keys ds fs).1 := by
  intro ds
  induction ds with
  | nil =>
    intro fs _ h0
    unfold cleanMain.whole
    split
    · exact Shr.refl _ _
    · exact shr_rdat_run h0
  | cons d ds ih =>
    intro fs hS h0
    unfold cleanMain.whole
    have hstep := shr_rdat_std hc h0 d (hS d (by simp))
    generalize hr : removeDirAndTarget fs n (runDir ++ d) = r at hstep
    obtain ⟨fs1, e⟩ := r
    cases e with
    | some e => exact hstep
    | none => exact hstep.trans (ih fs1 (fun x hx => hS x (by simp [hx])) (hstep.1.trans h0))

/-- containment of the deleting part of `clean`, for any closed set `S` of symlink dirs -/
theorem cleanMain_shr {fs0 : Fs} {n : Nat} {runDir : P} {S : List P} (skip : Bool)
    (hc : LinkClosed fs0 n runDir S) (pats : Option (List (List P))) :
    Shr (Inside fs0 runDir S) fs0 (cleanMain skip fs0 n runDir S pats).1 := by
  cases pats with
  | some pats => exact cleanMain_go_shr skip hc pats fs0 (SubFs.refl fs0)
  | none => exact cleanMain_whole_shr hc S S fs0 (fun _ h => h) (SubFs.refl fs0)

/-! ### what `get_symlink_dirs` returns is closed -/

theorem getSymlinkDirs_go_spec (fs : Fs) (n : Nat) (runDir idc : P) :
    ∀ (ds : List P) (r : List (P × P)), getSymlinkDirs.go fs n runDir idc ds = some r →
      (∀ x ∈ r, x.1 ∈ ds) ∧ (∀ d ∈ ds, isLink fs n (runDir ++ d) = true → d ∈ r.map (·.1)) := by
  intro ds
  induction ds with
  | nil =>
    intro r h
    simp [getSymlinkDirs.go] at h
    subst h
    simp
  | cons d ds ih =>
    intro r h
    unfold getSymlinkDirs.go at h
    split at h
    · next hl =>
      simp only at h
      split at h
      · cases h
      · split at h
        · cases h
        · cases hg : getSymlinkDirs.go fs n runDir idc ds with
          | none => simp [hg] at h
          | some r' =>
            simp [hg] at h
            subst h
            obtain ⟨h1, h2⟩ := ih r' hg
            constructor
            · intro x hx
              simp at hx
              rcases hx with rfl | hx
              · simp
              · simp [h1 x hx]
            · intro d' hd' hl'
              simp at hd'
              rcases hd' with rfl | hd'
              · simp
              · have := h2 d' hd' hl'
                simp at this ⊢
                exact .inr this
    · next hl =>
      obtain ⟨h1, h2⟩ := ih r h
      constructor
      · intro x hx; simp [h1 x hx]
      · intro d' hd' hl'
        simp at hd'
        rcases hd' with rfl | hd'
        · exact absurd hl' hl
        · exact h2 d' hd' hl'

theorem linkClosed_of_getSymlinkDirs {fs0 : Fs} {n : Nat} {runDir idc : P} {sdl : List (P × P)}
    (htab : ∀ d ∈ symlinkDirNames, ∀ k, k ≤ d.length → d.take k ∈ symlinkDirNames)
    (h : getSymlinkDirs fs0 n runDir idc = some sdl) : LinkClosed fs0 n runDir (sdl.map (·.1)) := by
  obtain ⟨h1, h2⟩ := getSymlinkDirs_go_spec fs0 n runDir idc symlinkDirNames sdl h
  intro sd hsd k hl
  have hsd' : sd ∈ symlinkDirNames := by
    simp at hsd
    obtain ⟨t, ht⟩ := hsd
    exact h1 _ ht
  apply h2 _ _ hl
  by_cases hk : k ≤ sd.length
  · exact htab sd hsd' k hk
  · rw [List.take_of_length_le (by omega)]; exact hsd'

/-! ## Part D: completeness -/

theorem lexists_mono {fs' fs : Fs} (hs : SubFs fs' fs) (n : Nat) (p : P)
    (h : lexists fs' n p = true) : lexists fs n p = true := by
  unfold lexists lkind at h ⊢
  cases hl : lres fs' n p with
  | none => simp [hl] at h
  | some q =>
    rw [lres_mono hs n p q hl]
    simp only [hl, Option.bind_some] at h ⊢
    cases hk : kindAt fs' q with
    | none => simp [hk] at h
    | some k => rw [hs _ _ hk]; rfl

theorem lexists_false_mono {fs' fs : Fs} (hs : SubFs fs' fs) (n : Nat) (p : P)
    (h : lexists fs n p = false) : lexists fs' n p = false := by
  cases h' : lexists fs' n p with
  | false => rfl
  | true => rw [lexists_mono hs n p h'] at h; cases h

theorem kindAt_filter_gone (keep : P → Bool) (fs : Fs) (q : P) (hq : q ≠ []) (hk : keep q = false) :
    kindAt (fs.filter fun e => keep e.1) q = none := by
  unfold kindAt
  simp only [hq, if_false]
  rw [look_filter]
  simp [hk]

/-- once the entry `q` that `p` names is taken out of the tree, `p` does not exist any more -/
theorem lexists_gone {fs fs1 : Fs} {n : Nat} {p q : P} (hs : SubFs fs1 fs) (hl : lres fs n p = some q)
    (hg : kindAt fs1 q = none) : lexists fs1 n p = false := by
  unfold lexists lkind
  cases hl1 : lres fs1 n p with
  | none => rfl
  | some q' =>
    have := lres_mono hs n p q' hl1
    rw [hl] at this
    cases this
    simp [hg]

theorem lres_ne_nil {fs : Fs} {n : Nat} {p q : P} (hp : p ≠ []) (h : lres fs n p = some q) : q ≠ [] := by
  rcases lres_sound h with ⟨h1, _⟩ | ⟨d, last, _, _, _, _, rfl⟩
  · exact absurd h1 hp
  · simp

theorem removeDirOrFile_gone {fs fs1 : Fs} {n : Nat} {p : P} (hp : p ≠ [])
    (h : removeDirOrFile fs n p = (fs1, none)) : lexists fs1 n p = false := by
  unfold removeDirOrFile at h
  split at h
  · cases h
  · next q hl =>
    have hq := lres_ne_nil hp hl
    split at h
    · simp at h; subst h
      exact lexists_gone (subFs_rmtree fs q) hl
        (kindAt_filter_gone (fun x => !q.isPrefixOf x) fs q hq (by simp))
    · simp at h; subst h
      exact lexists_gone (subFs_remove fs q) hl
        (kindAt_filter_gone (fun x => x != q) fs q hq (by simp))
    · cases h

theorem removeDirOrFile_sub (fs : Fs) (n : Nat) (p : P) : SubFs (removeDirOrFile fs n p).1 fs :=
  (shr_removeDirOrFile (A := fun _ => True) (fun _ _ _ _ => trivial) fs n p (fun _ _ => trivial)).1

theorem removeDirAndTarget_sub (fs : Fs) (n : Nat) (p : P) : SubFs (removeDirAndTarget fs n p).1 fs :=
  (shr_removeDirAndTarget (A := fun _ => True) (fun _ _ _ _ => trivial) fs n p (fun _ _ => trivial)
    (fun _ _ => trivial)).1

theorem removeDirAndTarget_gone {fs fs1 : Fs} {n : Nat} {p : P} (hp : p ≠ [])
    (hlink : isLink fs n p = true) (h : removeDirAndTarget fs n p = (fs1, none)) :
    lexists fs1 n p = false := by
  unfold removeDirAndTarget at h
  split at h
  · cases h
  · have key : ∀ fs2, SubFs fs2 fs → (match lres fs2 n p with
          | some q => if (kindAt fs2 q).isSome then (remove fs2 q, none) else (fs2, some Err.fileNotFound)
          | none => (fs2, some Err.fileNotFound)) = (fs1, (none : Option Err)) → lexists fs1 n p = false := by
      intro fs2 _ h2
      split at h2
      · next q hl =>
        split at h2
        · simp at h2; subst h2
          exact lexists_gone (subFs_remove fs2 q) hl
            (kindAt_filter_gone (fun x => x != q) fs2 q (lres_ne_nil hp hl) (by simp))
        · cases h2
      · cases h2
    refine key _ ?_ h
    split
    · exact subFs_rmtree fs _
    · exact SubFs.refl fs

/-- if a path exists, so does every non-empty prefix of it -/
theorem lexists_prefix {fs : Fs} {n : Nat} (x y : P) (hx : x ≠ []) (h : lexists fs n (x ++ y) = true) :
    lexists fs n x = true := by
  rcases List.eq_nil_or_concat y with rfl | ⟨y', c, rfl⟩
  · simpa using h
  · simp only [List.concat_eq_append] at h
    unfold lexists lkind at h
    cases hl : lres fs n (x ++ (y' ++ [c])) with
    | none => simp [hl] at h
    | some q =>
      rw [← List.append_assoc] at hl
      obtain ⟨d, hd, _, _⟩ := lres_snoc hl
      obtain ⟨dx, hdx⟩ := resolve_prefix n [] x y' d hd
      rcases List.eq_nil_or_concat x with rfl | ⟨x', cx, rfl⟩
      · exact absurd rfl hx
      · simp only [List.concat_eq_append] at hdx ⊢
        obtain ⟨d0, hd0⟩ := resolve_prefix n [] x' [cx] dx hdx
        obtain ⟨d0', h1, h2, h3⟩ := (resolve_sound _ _ _ _ hdx).split x' [cx] rfl (kindAt_root fs)
        have : d0' = d0 := h1.det (resolve_sound _ _ _ _ hd0)
        subst this
        have hk : (kindAt fs (d0' ++ [cx])).isSome = true := by
          rcases h2.single with ⟨rfl, hk | hk⟩ | ⟨t, rel, hk, _⟩ <;> simp [hk]
        unfold lexists lkind lres
        rw [List.getLast?_concat, List.dropLast_concat]
        simp [hd0, h3 (by simp), hk]

theorem lexists_false_ext {fs : Fs} {n : Nat} (x y : P) (hx : x ≠ []) (h : lexists fs n x = false) :
    lexists fs n (x ++ y) = false := by
  cases h' : lexists fs n (x ++ y) with
  | false => rfl
  | true => rw [lexists_prefix x y hx h'] at h; cases h

/-! ### the filter loses nothing: every safe match has an ancestor-or-self among the results -/

theorem mem_insertSorted (x a : P) (l : List P) : a ∈ insertSorted x l ↔ a = x ∨ a ∈ l := by
  induction l with
  | nil => simp [insertSorted]
  | cons y ys ih =>
    simp only [insertSorted]
    split
    · simp
    · simp [ih]; constructor
      · rintro (h | h | h) <;> simp [h]
      · rintro (h | h | h) <;> simp [h]

theorem mem_sortPaths (a : P) (l : List P) : a ∈ sortPaths l ↔ a ∈ l := by
  induction l with
  | nil => simp [sortPaths]
  | cons x xs ih =>
    have : sortPaths (x :: xs) = insertSorted x (sortPaths xs) := rfl
    rw [this, mem_insertSorted, ih]; simp

/-- invariant of `subpath_excludes`: non-standard links and results only -/
def ExInv (fs : Fs) (n : Nat) (runDir : P) (sds results ex : List P) : Prop :=
  ∀ a ∈ ex, (isLink fs n (runDir ++ a) = true ∧ a ∉ sds) ∨ a ∈ results

theorem scanAnc_spec (fs : Fs) (n : Nat) (runDir : P) (sds mts results : List P) (path : P) :
    ∀ (as ex : List P) (b : Bool) (ex' : List P),
      scanAnc fs n runDir sds mts results path as ex = (b, ex') →
      ExInv fs n runDir sds results ex →
      ExInv fs n runDir sds results ex' ∧
      (b = false → (∃ a ∈ as, a ∈ results) ∨ (∃ a ∈ as, a ∈ mts) ∨
        (∃ a ∈ as, isLink fs n (runDir ++ a) = true ∧ a ∉ sds)) := by
  intro as
  induction as with
  | nil =>
    intro ex b ex' h hinv
    simp [scanAnc] at h
    obtain ⟨rfl, rfl⟩ := h
    exact ⟨hinv, fun h => by cases h⟩
  | cons a as ih =>
    intro ex b ex' h hinv
    unfold scanAnc at h
    split at h
    · next hc =>
      simp at h; obtain ⟨rfl, rfl⟩ := h
      refine ⟨hinv, fun _ => ?_⟩
      rcases hinv a (by simpa using hc) with hb | hr
      · exact .inr (.inr ⟨a, by simp, hb⟩)
      · exact .inl ⟨a, by simp, hr⟩
    · split at h
      · next hbad =>
        simp at h; obtain ⟨rfl, rfl⟩ := h
        simp at hbad
        have hb : isLink fs n (runDir ++ a) = true ∧ a ∉ sds := ⟨hbad.1, by simpa using hbad.2⟩
        refine ⟨?_, fun _ => .inr (.inr ⟨a, by simp, hb⟩)⟩
        intro x hx
        simp at hx
        rcases hx with rfl | hx
        · exact .inl hb
        · exact hinv x hx
      · split at h
        · next hres =>
          simp at h; obtain ⟨rfl, rfl⟩ := h
          simp at hres
          refine ⟨?_, fun _ => .inl ⟨a, by simp, hres.2⟩⟩
          intro x hx
          simp at hx
          rcases hx with rfl | hx
          · exact .inr hres.2
          · exact hinv x hx
        · split at h
          · next hpar =>
            simp at h; obtain ⟨rfl, rfl⟩ := h
            simp at hpar
            exact ⟨hinv, fun _ => .inr (.inl ⟨a, by simp, hpar.1.2⟩)⟩
          · obtain ⟨h1, h2⟩ := ih ex b ex' h hinv
            refine ⟨h1, fun hb => ?_⟩
            rcases h2 hb with ⟨x, hx, hr⟩ | ⟨x, hx, hr⟩ | ⟨x, hx, hr⟩
            · exact .inl ⟨x, by simp [hx], hr⟩
            · exact .inr (.inl ⟨x, by simp [hx], hr⟩)
            · exact .inr (.inr ⟨x, by simp [hx], hr⟩)

theorem filterLoop_results (fs : Fs) (n : Nat) (runDir : P) (sds mts : List P) :
    ∀ (rest results ex : List P), ∀ p ∈ results, p ∈ filterLoop fs n runDir sds mts rest results ex := by
  intro rest
  induction rest with
  | nil => intro results ex p hp; simpa [filterLoop] using hp
  | cons path rest ih =>
    intro results ex p hp
    simp only [filterLoop]
    generalize scanAnc fs n runDir sds mts results path (ancestors path) ex = r
    obtain ⟨keep, ex'⟩ := r
    simp only
    apply ih
    split
    · simp [hp]
    · exact hp

/-- each safe element of the work list ends up covered by a result, or has a proper ancestor among
all the matches -/
theorem filterLoop_covers1 (fs : Fs) (n : Nat) (runDir : P) (sds mts : List P) :
    ∀ (rest results ex : List P), ExInv fs n runDir sds results ex →
      ∀ m ∈ rest, Safe fs n runDir sds m →
        (∃ p ∈ filterLoop fs n runDir sds mts rest results ex, p <+: m) ∨
        (∃ a ∈ ancestors m, a ∈ mts) := by
  intro rest
  induction rest with
  | nil => intro _ _ _ m hm; simp at hm
  | cons path rest ih =>
    intro results ex hinv m hm hsafe
    simp only [filterLoop]
    generalize hr : scanAnc fs n runDir sds mts results path (ancestors path) ex = r
    obtain ⟨keep, ex'⟩ := r
    simp only
    have hspec := scanAnc_spec fs n runDir sds mts results path _ ex keep ex' hr hinv
    have hinv' : ExInv fs n runDir sds (if keep = true then path :: results else results) ex' := by
      intro a ha
      rcases hspec.1 a ha with h | h
      · exact .inl h
      · right; split
        · simp [h]
        · exact h
    simp at hm
    by_cases hmp : m = path
    · subst hmp
      cases keep with
      | true =>
        left
        exact ⟨m, filterLoop_results fs n runDir sds mts rest _ ex' m (by simp), List.prefix_refl _⟩
      | false =>
        rcases hspec.2 rfl with ⟨a, ha, har⟩ | ⟨a, ha, ham⟩ | ⟨a, ha, hl, hn⟩
        · left
          obtain ⟨k, hk, rfl⟩ := (mem_ancestors m a).mp ha
          exact ⟨_, filterLoop_results fs n runDir sds mts rest _ ex' _ (by simpa using har),
            List.take_prefix _ _⟩
        · exact .inr ⟨a, ha, ham⟩
        · obtain ⟨k, hk, rfl⟩ := (mem_ancestors m a).mp ha
          exact absurd (hsafe k hk hl) hn
    · rcases hm with hm | hm
      · exact absurd hm hmp
      · exact ih _ ex' hinv' m hm hsafe

theorem Safe.take {fs : Fs} {n : Nat} {runDir : P} {sds : List P} {m : P} (h : Safe fs n runDir sds m)
    (k : Nat) : Safe fs n runDir sds (m.take k) := by
  intro j hj hl
  have hj' : j < m.length := by simp at hj; omega
  have hjk : j ≤ k := by simp at hj; omega
  have e : (m.take k).take j = m.take j := by rw [List.take_take]; congr 1; omega
  rw [e] at hl ⊢
  exact h j hj' hl

/-- **the filter loses nothing**: every safe match has an ancestor-or-self among the results -/
theorem filterLoop_covers (fs : Fs) (n : Nat) (runDir : P) (sds mts : List P) :
    ∀ (len : Nat) (m : P), m.length ≤ len → m ∈ mts → Safe fs n runDir sds m →
      ∃ p ∈ filterLoop fs n runDir sds mts mts [] [], p <+: m := by
  intro len
  induction len with
  | zero =>
    intro m hl hm hs
    rcases filterLoop_covers1 fs n runDir sds mts mts [] [] (by intro a ha; simp at ha) m hm hs with h | ⟨a, ha, _⟩
    · exact h
    · obtain ⟨k, hk, _⟩ := (mem_ancestors m a).mp ha
      omega
  | succ len ih =>
    intro m hl hm hs
    rcases filterLoop_covers1 fs n runDir sds mts mts [] [] (by intro a ha; simp at ha) m hm hs with h | ⟨a, ha, ham⟩
    · exact h
    · obtain ⟨k, hk, rfl⟩ := (mem_ancestors m a).mp ha
      obtain ⟨p, hp, hpre⟩ := ih (m.take k) (by simp; omega) ham (hs.take k)
      exact ⟨p, hp, hpre.trans (List.take_prefix _ _)⟩

theorem globInRunDir_covers (fs : Fs) (n : Nat) (runDir : P) (sds raw : List P) (m : P) (hm : m ∈ raw)
    (hs : Safe fs n runDir sds m) (hex : lexists fs n (runDir ++ m) = true) :
    ∃ p ∈ globInRunDir fs n runDir sds raw, p <+: m := by
  have hm' : m ∈ sortPaths raw := (mem_sortPaths m raw).mpr hm
  unfold globInRunDir
  simp only
  split
  · next m0 heq =>
    rw [heq] at hm'
    simp at hm'
    subst hm'
    simp only [hex, Bool.not_true, Bool.false_eq_true, if_false]
    have := filterLoop_covers fs n runDir sds [m] m.length m (Nat.le_refl _) (by simp) hs
    simpa [heq] using this
  · exact filterLoop_covers fs n runDir sds _ m.length m (Nat.le_refl _) hm' hs

/-! ### the two removal loops -/

theorem cleanSymlinkDirs_complete {n : Nat} {runDir : P} (hrd : runDir ≠ []) :
    ∀ (sds : List P) (fs : Fs) (ms : List P) (fs1 : Fs) (ms1 : List P) (early : Bool),
      cleanSymlinkDirs n runDir sds fs ms = (fs1, ms1, none, early) →
      SubFs fs1 fs ∧ (early = true → lexists fs1 n runDir = false) ∧
      ∀ p ∈ ms, p ∈ ms1 ∨ lexists fs1 n (runDir ++ p) = false := by
  intro sds
  induction sds with
  | nil =>
    intro fs ms fs1 ms1 early h
    simp [cleanSymlinkDirs] at h
    obtain ⟨rfl, rfl, rfl⟩ := h
    exact ⟨SubFs.refl _, fun h => (by cases h), fun p hp => .inl hp⟩
  | cons sd sds ih =>
    intro fs ms fs1 ms1 early h
    unfold cleanSymlinkDirs at h
    split at h
    · next hcond =>
      simp at hcond
      have hsub := removeDirAndTarget_sub fs n (runDir ++ sd)
      generalize hr : removeDirAndTarget fs n (runDir ++ sd) = r at h hsub
      obtain ⟨fs2, e⟩ := r
      cases e with
      | some e => simp at h
      | none =>
        have hgone := removeDirAndTarget_gone (by simp [hrd]) hcond.2 hr
        simp only at h hsub
        split at h
        · next hsd =>
          simp at h
          obtain ⟨rfl, rfl, rfl⟩ := h
          subst hsd
          refine ⟨hsub, fun _ => by simpa using hgone, fun p hp => .inl hp⟩
        · obtain ⟨h1, h2, h3⟩ := ih fs2 (ms.erase sd) fs1 ms1 early h
          refine ⟨h1.trans hsub, h2, fun p hp => ?_⟩
          by_cases hps : p = sd
          · subst hps
            exact .inr (lexists_false_mono h1 n _ hgone)
          · exact h3 p ((List.mem_erase_of_ne hps).mpr hp)
    · exact ih fs ms fs1 ms1 early h

theorem cleanRest_sub (skip : Bool) (n : Nat) (runDir : P) :
    ∀ (ms : List P) (fs : Fs), SubFs (cleanRest skip n runDir ms fs).1 fs := by
  intro ms
  induction ms with
  | nil => intro fs; exact SubFs.refl fs
  | cons m ms ih =>
    intro fs
    unfold cleanRest
    split
    · exact ih fs
    · have hsub := removeDirOrFile_sub fs n (runDir ++ m)
      generalize removeDirOrFile fs n (runDir ++ m) = r at hsub
      obtain ⟨fs1, e⟩ := r
      cases e with
      | some e => exact hsub
      | none => exact (ih fs1).trans hsub

theorem cleanRest_complete (skip : Bool) {n : Nat} {runDir : P} (hrd : runDir ≠ []) :
    ∀ (ms : List P) (fs fs' : Fs), cleanRest skip n runDir ms fs = (fs', none) →
      ∀ m ∈ ms, lexists fs' n (runDir ++ m) = false := by
  intro ms
  induction ms with
  | nil => intro _ _ _ m hm; simp at hm
  | cons x ms ih =>
    intro fs fs' h m hm
    have hsubAll := cleanRest_sub skip n runDir (x :: ms) fs
    rw [h] at hsubAll
    unfold cleanRest at h
    split at h
    · next hskip =>
      simp at hskip
      simp at hm
      rcases hm with rfl | hm
      · exact lexists_false_mono hsubAll n _ hskip.2
      · exact ih fs fs' h m hm
    · generalize hr : removeDirOrFile fs n (runDir ++ x) = r at h
      obtain ⟨fs1, e⟩ := r
      cases e with
      | some e => simp at h
      | none =>
        simp only at h
        have hgone := removeDirOrFile_gone (by simp [hrd]) hr
        have hsub1 := cleanRest_sub skip n runDir ms fs1
        rw [h] at hsub1
        simp at hm
        rcases hm with rfl | hm
        · exact lexists_false_mono hsub1 n _ hgone
        · exact ih fs1 fs' h m hm

theorem cleanSymlinkDirs_sub (n : Nat) (runDir : P) :
    ∀ (sds : List P) (fs : Fs) (ms : List P), SubFs (cleanSymlinkDirs n runDir sds fs ms).1 fs := by
  intro sds
  induction sds with
  | nil => intro fs ms; exact SubFs.refl fs
  | cons sd sds ih =>
    intro fs ms
    unfold cleanSymlinkDirs
    split
    · have hsub := removeDirAndTarget_sub fs n (runDir ++ sd)
      generalize removeDirAndTarget fs n (runDir ++ sd) = r at hsub
      obtain ⟨fs2, e⟩ := r
      cases e with
      | some e => exact hsub
      | none =>
        simp only
        split
        · exact hsub
        · exact (ih fs2 (ms.erase sd)).trans hsub
    · exact ih fs ms

theorem cleanUsingGlob_sub (skip : Bool) (fs : Fs) (n : Nat) (runDir : P) (S raw : List P) :
    SubFs (cleanUsingGlob skip fs n runDir S raw).1 fs := by
  unfold cleanUsingGlob
  simp only
  generalize symlinkDirPathOrder.filter (fun d => S.contains d) = sds
  generalize globInRunDir fs n runDir sds raw = ms
  split
  · exact SubFs.refl fs
  · have h1 := cleanSymlinkDirs_sub n runDir sds fs ms
    generalize cleanSymlinkDirs n runDir sds fs ms = r at h1
    obtain ⟨fs1, ms1, e, early⟩ := r
    cases e with
    | some e => exact h1
    | none =>
      cases early with
      | true => exact h1
      | false => exact (cleanRest_sub skip n runDir ms1 fs1).trans h1

/-- **every match is deleted**: if `_clean_using_glob` ends without an exception, no raw match
that is reachable without passing a non-standard symlink exists afterwards -/
theorem cleanUsingGlob_complete (skip : Bool) {fs fs' : Fs} {n : Nat} {runDir : P} (hrd : runDir ≠ [])
    (S raw : List P) (h : cleanUsingGlob skip fs n runDir S raw = (fs', none)) :
    ∀ m ∈ raw, Safe fs n runDir (symlinkDirPathOrder.filter fun d => S.contains d) m →
      lexists fs' n (runDir ++ m) = false := by
  intro m hm hsafe
  unfold cleanUsingGlob at h
  simp only at h
  generalize hsds : symlinkDirPathOrder.filter (fun d => S.contains d) = sds at h hsafe
  cases hex : lexists fs n (runDir ++ m) with
  | false =>
    -- it was not there in the first place
    have hsub : SubFs fs' fs := by
      have := cleanUsingGlob_sub skip fs n runDir S raw
      unfold cleanUsingGlob at this
      simp only at this
      rw [hsds, h] at this
      exact this
    exact lexists_false_mono hsub n _ hex
  | true =>
    obtain ⟨p, hp, hpre⟩ := globInRunDir_covers fs n runDir sds raw m hm hsafe hex
    generalize globInRunDir fs n runDir sds raw = ms at h hp
    split at h
    · next hemp => simp at hemp; subst hemp; simp at hp
    · generalize hr : cleanSymlinkDirs n runDir sds fs ms = r at h
      obtain ⟨fs1, ms1, e, early⟩ := r
      obtain ⟨y, rfl⟩ := hpre
      cases e with
      | some e => simp at h
      | none =>
        obtain ⟨h1, h2, h3⟩ := cleanSymlinkDirs_complete hrd sds fs ms fs1 ms1 early hr
        have hpgone : lexists fs' n (runDir ++ p) = false := by
          cases early with
          | true =>
            simp at h; subst h
            exact lexists_false_ext runDir p hrd (h2 rfl)
          | false =>
            simp only at h
            rcases h3 p hp with hp1 | hg
            · exact cleanRest_complete skip hrd ms1 fs1 fs' h p hp1
            · have hsub := cleanRest_sub skip n runDir ms1 fs1
              rw [h] at hsub
              exact lexists_false_mono hsub n _ hg
        rw [← List.append_assoc]
        exact lexists_false_ext (runDir ++ p) y (by simp [hrd]) hpgone

/-- with the guard (`skipsMissing`), the removal loop never raises -/
theorem cleanRest_no_error (n : Nat) (runDir : P) :
    ∀ (ms : List P) (fs : Fs), (cleanRest true n runDir ms fs).2 = none := by
  intro ms
  induction ms with
  | nil => intro fs; rfl
  | cons m ms ih =>
    intro fs
    unfold cleanRest
    split
    · exact ih fs
    · next hskip =>
      simp at hskip
      have hstep : (removeDirOrFile fs n (runDir ++ m)).2 = none := by
        unfold lexists lkind at hskip
        unfold removeDirOrFile
        cases hl : lres fs n (runDir ++ m) with
        | none => simp [hl] at hskip
        | some q =>
          simp only [hl, Option.bind_some] at hskip ⊢
          cases hk : kindAt fs q with
          | none => simp [hk] at hskip
          | some k => cases k <;> rfl
      generalize removeDirOrFile fs n (runDir ++ m) = r at hstep
      obtain ⟨fs1, e⟩ := r
      simp at hstep
      subst hstep
      exact ih fs1

/-! ## Part E: the tidy-up after the deletion -/

theorem Shr.imp {A B : P → Prop} {a b : Fs} (hAB : ∀ p, A p → B p) (h : Shr A a b) : Shr B a b :=
  ⟨h.1, fun e he hne => hAB _ (h.2 e he hne)⟩

/-- the entries named by the ancestors `path.take k` of `path`, at most `depth` levels up -/
def ParentOf (fs0 : Fs) (path : P) (depth : Nat) (p : P) : Prop :=
  ∃ k, path.length ≤ k + depth ∧ k < path.length ∧ LRes fs0 (path.take k) p

theorem removeEmptyParents_shr {fs0 : Fs} (n : Nat) (path : P) (depth : Nat) :
    ∀ (rem i : Nat) (fs : Fs), SubFs fs fs0 → i + rem ≤ depth →
      Shr (ParentOf fs0 path depth) fs (removeEmptyParents n path rem i fs) := by
  intro rem
  induction rem with
  | zero => intro i fs _ _; exact Shr.refl _ _
  | succ r ih =>
    intro i fs h0 hi
    unfold removeEmptyParents
    simp only
    split
    · exact ih (i + 1) fs h0 (by omega)
    · split
      · next q hl =>
        split
        · next hc =>
          simp at hc
          obtain ⟨⟨hk, hq⟩, _⟩ := hc
          have hlen : path.length ≠ 0 := by
            intro e
            have : path = [] := List.length_eq_zero_iff.mp e
            subst this
            simp [lres] at hl
            exact hq hl
          have hA : ParentOf fs0 path depth q :=
            ⟨path.length - 1 - i, by omega, by omega, (lres_LRes hl).mono h0⟩
          have hstep : Shr (ParentOf fs0 path depth) fs (remove fs q) := shr_remove fs q hA
          exact hstep.trans (ih (i + 1) (remove fs q) (hstep.1.trans h0) (by omega))
        · exact Shr.refl _ _
      · exact Shr.refl _ _

open CylcModel.Generated in
/-- what the tidy-up may take away, in the tree `fs0` as it was before cleaning: the `runN` link next
to the run dir, `_cylc-install` next to the run dir (with its contents), parent directories of the
run dir below `cylc-run`, parent directories of the symlink-dir targets inside their
`cylc-run/<id>/<dir>` tail -/
def TidyPath (fs0 : Fs) (runDir idc : P) (sdl : List (P × P)) (p : P) : Prop :=
  LRes fs0 (runDir.dropLast ++ [CleanCfg.runN.toList]) p ∨
  (∃ q, LRes fs0 (runDir.dropLast ++ [CleanCfg.installDirname.toList]) q ∧ q <+: p) ∨
  ParentOf fs0 runDir (idc.length - 1) p ∨
  ∃ x ∈ sdl, ParentOf fs0 x.2 ((idc ++ x.1).length - 1) p

theorem tidy_fold_shr {fs0 : Fs} (n : Nat) (runDir idc : P) (sdl : List (P × P)) :
    ∀ (l : List (P × P)) (fs : Fs), (∀ x ∈ l, x ∈ sdl) → SubFs fs fs0 →
      Shr (TidyPath fs0 runDir idc sdl) fs
        (l.foldl (fun f (x : P × P) => removeEmptyParents n x.2 ((idc ++ x.1).length - 1) 0 f) fs) := by
  intro l
  induction l with
  | nil => intro fs _ _; exact Shr.refl _ _
  | cons x l ih =>
    intro fs hl h0
    simp only [List.foldl_cons]
    have hstep : Shr (TidyPath fs0 runDir idc sdl) fs
        (removeEmptyParents n x.2 ((idc ++ x.1).length - 1) 0 fs) :=
      (removeEmptyParents_shr n x.2 _ _ 0 fs h0 (by omega)).imp
        (fun p hp => .inr (.inr (.inr ⟨x, hl x (by simp), hp⟩)))
    exact hstep.trans (ih _ (fun y hy => hl y (by simp [hy])) (hstep.1.trans h0))

open CylcModel.Generated in
/-- "Remove `runN` symlink if it's now broken" -/
def tidyRunN (n : Nat) (runDir : P) (fs : Fs) : Fs :=
  match lres fs n (runDir.dropLast ++ [CleanCfg.runN.toList]) with
  | some q =>
    match kindAt fs q with
    | some (.link t rel) =>
      if !pexists fs n runDir && rel && t = q.dropLast ++ [runDir.getLast?.getD []] then remove fs q else fs
    | _ => fs
  | none => fs

open CylcModel.Generated in
/-- "Remove _cylc-install if it's the only thing left" -/
def tidyInstall (n : Nat) (runDir : P) (fs1 : Fs) : Fs :=
  match resolve fs1 n [] runDir.dropLast with
  | some d =>
    if (childNames fs1 d).all (fun c => c = CleanCfg.installDirname.toList)
        && isDir fs1 n (runDir.dropLast ++ [CleanCfg.installDirname.toList]) then
      (removeDirOrFile fs1 n (runDir.dropLast ++ [CleanCfg.installDirname.toList])).1
    else fs1
  | none => fs1

theorem tidy_eq (n : Nat) (runDir idc : P) (sdl : List (P × P)) (fs : Fs) :
    tidy n runDir idc sdl fs =
      sdl.foldl (fun f (x : P × P) => removeEmptyParents n x.2 ((idc ++ x.1).length - 1) 0 f)
        (removeEmptyParents n runDir (idc.length - 1) 0 (tidyInstall n runDir (tidyRunN n runDir fs))) := rfl

open CylcModel.Generated in
theorem tidyRunN_shr {fs0 fs : Fs} (n : Nat) (runDir idc : P) (sdl : List (P × P)) (h0 : SubFs fs fs0) :
    Shr (TidyPath fs0 runDir idc sdl) fs (tidyRunN n runDir fs) := by
  unfold tidyRunN
  split
  · next q hl =>
    split
    · split
      · exact shr_remove fs q (.inl ((lres_LRes hl).mono h0))
      · exact Shr.refl _ _
    · exact Shr.refl _ _
  · exact Shr.refl _ _

open CylcModel.Generated in
theorem tidyInstall_shr {fs0 fs1 : Fs} (n : Nat) (runDir idc : P) (sdl : List (P × P)) (h0 : SubFs fs1 fs0) :
    Shr (TidyPath fs0 runDir idc sdl) fs1 (tidyInstall n runDir fs1) := by
  unfold tidyInstall
  split
  · split
    · refine (shr_removeDirOrFile
        (A := fun p => ∃ q, LRes fs0 (runDir.dropLast ++ [CleanCfg.installDirname.toList]) q ∧ q <+: p)
        (fun p q ⟨x, hx, hxp⟩ hpq => ⟨x, hx, hxp.trans hpq⟩) fs1 n _
        (fun q hq => ⟨q, (lres_LRes hq).mono h0, List.prefix_refl _⟩)).imp
        (fun p hp => .inr (.inl hp))
    · exact Shr.refl _ _
  · exact Shr.refl _ _

theorem tidy_shr {fs0 fs : Fs} (n : Nat) (runDir idc : P) (sdl : List (P × P)) (h0 : SubFs fs fs0) :
    Shr (TidyPath fs0 runDir idc sdl) fs (tidy n runDir idc sdl fs) := by
  rw [tidy_eq]
  have h1 := tidyRunN_shr n runDir idc sdl h0
  have h2 := tidyInstall_shr n runDir idc sdl (h1.1.trans h0)
  have h02 : SubFs (tidyInstall n runDir (tidyRunN n runDir fs)) fs0 := h2.1.trans (h1.1.trans h0)
  have h3 : Shr (TidyPath fs0 runDir idc sdl) _
      (removeEmptyParents n runDir (idc.length - 1) 0 (tidyInstall n runDir (tidyRunN n runDir fs))) :=
    (removeEmptyParents_shr n runDir _ _ 0 _ h02 (by omega)).imp (fun p hp => .inr (.inr (.inl hp)))
  have h4 := tidy_fold_shr n runDir idc sdl sdl _ (fun _ h => h) (h3.1.trans h02)
  exact h1.trans (h2.trans (h3.trans h4))

/-- **everything `clean` deletes** is inside the workflow or is one of the tidy-up paths -/
theorem clean_shr {fs0 : Fs} {n : Nat} {runDir idc : P} {sdl : List (P × P)} (skip : Bool)
    (htab : ∀ d ∈ symlinkDirNames, ∀ k, k ≤ d.length → d.take k ∈ symlinkDirNames)
    (hsd : getSymlinkDirs fs0 n runDir idc = some sdl) (pats : Option (List (List P))) :
    Shr (fun p => Inside fs0 runDir (sdl.map (·.1)) p ∨ TidyPath fs0 runDir idc sdl p) fs0
      (clean skip fs0 n runDir idc pats).1 := by
  unfold clean
  simp only [hsd]
  have hm := cleanMain_shr skip (linkClosed_of_getSymlinkDirs htab hsd) pats
  generalize cleanMain skip fs0 n runDir (sdl.map (·.1)) pats = r at hm
  obtain ⟨fs1, e⟩ := r
  cases e with
  | some e => exact hm.imp (fun p hp => .inl hp)
  | none =>
    exact (hm.imp (fun p hp => .inl hp)).trans ((tidy_shr n runDir idc sdl hm.1).imp (fun p hp => .inr hp))

theorem removeEmptyParents_step (n : Nat) (path : P) (r i : Nat) (fs : Fs) :
    removeEmptyParents n path (r + 1) i fs = removeEmptyParents n path r (i + 1) fs ∨
    (∃ q, isEmptyDir fs q = true ∧
      removeEmptyParents n path (r + 1) i fs = removeEmptyParents n path r (i + 1) (remove fs q)) ∨
    removeEmptyParents n path (r + 1) i fs = fs := by
  simp only [removeEmptyParents]
  split
  · exact .inl rfl
  · split
    · next q _ =>
      split
      · next hc =>
        simp at hc
        exact .inr (.inl ⟨q, hc.2, rfl⟩)
      · exact .inr (.inr rfl)
    · exact .inr (.inr rfl)

theorem removeEmptyParents_mem (n : Nat) (path : P) :
    ∀ (rem i : Nat) (fs : Fs), ∀ e ∈ removeEmptyParents n path rem i fs, e ∈ fs := by
  intro rem
  induction rem with
  | zero => intro i fs e he; exact he
  | succ r ih =>
    intro i fs e he
    rcases removeEmptyParents_step n path r i fs with h | ⟨q, _, h⟩ | h
    · rw [h] at he; exact ih _ _ e he
    · rw [h] at he; exact remove_sub fs _ e (ih _ _ e he)
    · rw [h] at he; exact he

/-- `remove_empty_parents` only ever removes directories with nothing below them: an entry that
disappears leaves no entry strictly below it behind -/
theorem removeEmptyParents_only_empty (n : Nat) (path : P) :
    ∀ (rem i : Nat) (fs : Fs), ∀ e ∈ fs, e ∉ removeEmptyParents n path rem i fs →
      ∀ e' ∈ removeEmptyParents n path rem i fs, ¬ (e.1 <+: e'.1 ∧ e'.1 ≠ e.1) := by
  intro rem
  induction rem with
  | zero => intro i fs e he hne; exact absurd he hne
  | succ r ih =>
    intro i fs e he hne e' he'
    rcases removeEmptyParents_step n path r i fs with h | ⟨q, hemp, h⟩ | h
    · rw [h] at hne he'; exact ih _ _ e he hne e' he'
    · rw [h] at hne he'
      by_cases hq : e ∈ remove fs q
      · exact ih _ _ e hq hne e' he'
      · have heq : e.1 = q := mem_remove he hq
        have he'fs : e' ∈ fs := remove_sub fs q e' (removeEmptyParents_mem n path _ _ _ e' he')
        unfold isEmptyDir at hemp
        have := (List.all_eq_true.mp hemp) e' he'fs
        rw [heq]
        intro ⟨hp, hn⟩
        simp [List.isPrefixOf_iff_prefix.mpr hp, hn] at this
    · rw [h] at hne; exact absurd he hne

end CylcModel.PathClean
