/-
Helper lemmas for C27 over the `Sched3Reload` model, one lemma per primitive, lifted over op lists with `run_inv`.
Families:

* `nodup_*`          : no two pooled proxies share (point, name) - preserved by every primitive of the model, reload
                       included (`nodup_run`);
* `*_mid`            : what `put` / `remove` / the sweep step do to a pool `done ++ x :: rest` with distinct keys;
* `reloadFold_spec`, `reloadTaskdefs_pool` : `_reload_taskdefs` replaces every pool entry by its fate (`succOf`), in place;
* `reloadPre_*`, `lastState_*` : the prerequisites of a successor;
* `Fate`, `fate_*`   : releasing runahead-limited tasks (the tail of the reload command) touches nothing but the flag;
* `reloadCmd_*`      : the whole command;
* `sweepQueue_pool`, `sweep_requeues` : the queue-if-ready sweep of the main loop, entry by entry.
-/
import CylcModel.Sched3Reload

namespace CylcModel.Sched3Reload

/-! ### Generic lifting (copies of the `Sched` v1 lemmas, stated for `Sched3Reload`) -/

theorem foldl_inv {α σ} (P : σ → Prop) (f : σ → α → σ) (h : ∀ s a, P s → P (f s a)) :
    ∀ (l : List α) (s : σ), P s → P (l.foldl f s) := by
  intro l; induction l with
  | nil => intro s hs; exact hs
  | cons a l ih => intro s hs; exact ih _ (h s a hs)

/-- every state of a run satisfies `P` when the start-up state does and every step preserves it -/
theorem run_inv (P : State → Prop) (fl : Flags) (g : Graph) (h0 : P (init fl g))
    (hs : ∀ s op, P s → P (step s op)) : ∀ ops, ∀ s ∈ run fl g ops, P s := by
  intro ops
  unfold run
  have key : ∀ (ops : List Op) (acc : List State) (cur : State),
      (∀ s ∈ acc, P s) → P cur →
      ∀ s ∈ (ops.foldl (fun (a : List State × State) op =>
          let s' := step a.2 op; (a.1 ++ [s'], s')) (acc, cur)).1, P s := by
    intro ops
    induction ops with
    | nil => intro acc cur hacc _ s hm; exact hacc s hm
    | cons op ops ih =>
      intro acc cur hacc hcur
      simp only [List.foldl_cons]
      apply ih
      · intro s hm
        rcases List.mem_append.mp hm with h | h
        · exact hacc s h
        · simp at h; subst h; exact hs _ _ hcur
      · exact hs _ _ hcur
  exact key ops [init fl g] (init fl g) (by intro s hm; simp at hm; subst hm; exact h0) h0

/-! ### `reloadProxy` -/

/-- the fields a reload copies to the successor of a proxy -/
def SameCore (x y : Proxy) : Prop :=
  y.pt = x.pt ∧ y.name = x.name ∧ y.status = x.status ∧ y.flows = x.flows ∧ y.submitNum = x.submitNum ∧
  y.held = x.held ∧ y.runahead = x.runahead ∧ y.done = x.done ∧ y.outs = x.outs ∧ y.comp = x.comp ∧
  y.execTry = x.execTry ∧ y.subTry = x.subTry ∧ y.retryWait = x.retryWait ∧ y.upd = x.upd

theorem sameCore_refl (x : Proxy) : SameCore x x := by
  unfold SameCore; simp

theorem sameCore_trans {x y z : Proxy} (h1 : SameCore x y) (h2 : SameCore y z) : SameCore x z := by
  unfold SameCore at *
  obtain ⟨a1, a2, a3, a4, a5, a6, a7, a8, a9, a10, a11, a12, a13, a14⟩ := h1
  obtain ⟨b1, b2, b3, b4, b5, b6, b7, b8, b9, b10, b11, b12, b13, b14⟩ := h2
  exact ⟨b1.trans a1, b2.trans a2, b3.trans a3, b4.trans a4, b5.trans a5, b6.trans a6, b7.trans a7, b8.trans a8,
    b9.trans a9, b10.trans a10, b11.trans a11, b12.trans a12, b13.trans a13, b14.trans a14⟩

theorem reloadProxy_sameCore (g' : Graph) (s : State) (x : Proxy) : SameCore x (reloadProxy g' s x) := by
  unfold reloadProxy SameCore
  split <;> simp

theorem reloadProxy_queued (g' : Graph) (s : State) (x : Proxy) : (reloadProxy g' s x).queued = false := by
  unfold reloadProxy
  split <;> rfl


/-! ### Keys of the pool -/

def keys (s : State) : List (Int × String) := s.pool.map fun x => (x.pt, x.name)

/-- no two proxies for the same (point, name) -/
def NoDup (s : State) : Prop := (keys s).Nodup

theorem keys_put (s : State) (x : Proxy) : keys (s.put x) = keys s := by
  unfold keys State.put
  simp only [List.map_map]
  apply List.map_congr_left
  intro y _
  simp only [Function.comp]
  split
  · rename_i h
    simp only [Bool.and_eq_true, beq_iff_eq] at h
    rw [h.1, h.2]
  · rfl

theorem get?_none_not_mem (s : State) (p : Int) (n : String) (h : s.get? p n = none) :
    (p, n) ∉ keys s := by
  unfold State.get? at h
  unfold keys
  intro hm
  obtain ⟨y, hy, hk⟩ := List.mem_map.mp hm
  have := List.find?_eq_none.mp h y hy
  simp only [Prod.mk.injEq] at hk
  simp [hk.1, hk.2] at this

theorem nodup_add (s : State) (x : Proxy) (h : NoDup s) : NoDup (s.add x) := by
  unfold State.add
  split
  · exact h
  · rename_i hn
    have hn' : s.get? x.pt x.name = none := by
      cases hg : s.get? x.pt x.name with
      | none => rfl
      | some v => simp [hg] at hn
    unfold NoDup keys
    simp only [List.map_append, List.map_cons, List.map_nil]
    apply List.nodup_append.mpr
    refine ⟨h, by simp, ?_⟩
    intro a ha b hb
    simp at hb; subst hb
    intro heq; subst heq
    exact get?_none_not_mem s x.pt x.name hn' ha

theorem nodup_put (s : State) (x : Proxy) (h : NoDup s) : NoDup (s.put x) := by
  unfold NoDup; rw [keys_put]; exact h

theorem nodup_filter (s : State) (f : Proxy → Bool) (h : NoDup s) :
    NoDup { s with pool := s.pool.filter f } := by
  unfold NoDup keys at *
  exact List.Nodup.sublist (List.Sublist.map _ List.filter_sublist) h

/-- `NoDup` only looks at the pool -/
theorem nodup_of_pool {s t : State} (hp : t.pool = s.pool) (h : NoDup s) : NoDup t := by
  unfold NoDup keys at *; rw [hp]; exact h

theorem pool_flushDb (s : State) : (flushDb s).pool = s.pool := by
  unfold flushDb
  split <;> (dsimp only; split <;> rfl)

theorem nodup_flushDb (s : State) (h : NoDup s) : NoDup (flushDb s) := nodup_of_pool (pool_flushDb s) h

theorem pool_spawnTask (g : Graph) (s : State) (n : String) (p : Int) : (spawnTask g s n p).1.pool = s.pool := by
  unfold spawnTask
  dsimp only
  repeat' split
  all_goals first | rfl | skip
  all_goals (rename_i h; revert h; repeat' split)
  all_goals first | (intro h; injection h with h1 h2; subst h1; rfl) | skip

theorem nodup_spawnAndAdd (g : Graph) (s : State) (n : String) (p : Int) (h : NoDup s) :
    NoDup (spawnAndAdd g s n p) := by
  unfold spawnAndAdd
  split
  · exact h
  · have hp := pool_spawnTask g s n p
    split
    · rename_i s' x heq
      have : s'.pool = s.pool := by rw [← hp, heq]
      exact nodup_add _ _ (nodup_of_pool this h)
    · rename_i s' heq
      have : s'.pool = s.pool := by rw [← hp, heq]
      exact nodup_of_pool this h

theorem nodup_spawnNextParentless (g : Graph) (s : State) (x : Proxy) (h : NoDup s) :
    NoDup (spawnNextParentless g s x) := by
  unfold spawnNextParentless
  split
  · exact h
  · split
    · exact nodup_spawnAndAdd _ _ _ _ h
    · exact h

theorem pool_computeRunahead (g : Graph) (s : State) (f : Bool) : (computeRunahead g s f).pool = s.pool := by
  unfold computeRunahead
  simp only
  split
  · rfl
  · split <;> rfl

theorem nodup_computeRunahead (g : Graph) (s : State) (f : Bool) (h : NoDup s) :
    NoDup (computeRunahead g s f) := nodup_of_pool (pool_computeRunahead g s f) h

theorem nodup_releaseRunahead (g : Graph) (s : State) (h : NoDup s) : NoDup (releaseRunahead g s).1 := by
  unfold releaseRunahead
  split
  · exact h
  · split
    · exact h
    · simp only
      apply foldl_inv NoDup _ _ _ _ h
      intro st x hst
      apply nodup_spawnNextParentless
      split
      · exact nodup_put _ _ hst
      · exact hst

theorem nodup_releaseRunaheadN (g : Graph) : ∀ (n : Nat) (s : State), NoDup s → NoDup (releaseRunaheadN g n s) := by
  intro n; induction n with
  | zero => intro s h; exact h
  | succ n ih =>
    intro s h
    unfold releaseRunaheadN
    simp only
    split
    · exact ih _ (nodup_releaseRunahead g s h)
    · exact nodup_releaseRunahead g s h

theorem nodup_queueIfReady (s : State) (x : Proxy) (h : NoDup s) : NoDup (queueIfReady s x) := by
  unfold queueIfReady; split
  · exact nodup_put _ _ h
  · exact h

theorem nodup_holdActive (s : State) (x : Proxy) (h : NoDup s) : NoDup (holdActive s x) := by
  unfold holdActive
  simp only
  split
  · exact nodup_put _ _ h
  · exact nodup_of_pool rfl (nodup_put _ _ h)

theorem nodup_releaseHeldActive (s : State) (x : Proxy) (h : NoDup s) : NoDup (releaseHeldActive s x) := by
  unfold releaseHeldActive
  simp only
  split
  · exact nodup_of_pool rfl (nodup_put _ _ h)
  · exact nodup_of_pool rfl h

theorem nodup_loadFromPoint (fl : Flags) (g : Graph) : NoDup (loadFromPoint fl g) := by
  unfold loadFromPoint
  simp only
  apply foldl_inv NoDup
  · intro st x hst
    split
    · exact nodup_queueIfReady _ _ hst
    · exact hst
  · apply nodup_releaseRunaheadN
    apply nodup_computeRunahead
    apply foldl_inv NoDup
    · intro st t hst
      split
      · exact nodup_spawnAndAdd _ _ _ _ hst
      · exact hst
    · unfold NoDup keys; simp

theorem nodup_releaseAndSubmit (s : State) (h : NoDup s) : NoDup (releaseAndSubmit s) := by
  unfold releaseAndSubmit
  simp only
  split
  · exact h
  · show NoDup _
    refine nodup_of_pool rfl (?_ : NoDup (List.foldl _ s _))
    apply foldl_inv NoDup
    · intro st x hst
      exact nodup_of_pool rfl (nodup_put _ _ hst)
    · exact h

theorem nodup_remove (g : Graph) (s : State) (x : Proxy) (h : NoDup s) : NoDup (remove g s x) := by
  unfold remove
  simp only
  apply nodup_flushDb
  have h0 := nodup_releaseHeldActive s x h
  generalize releaseHeldActive s x = s1 at h0 ⊢
  have h1 : NoDup (if (!((s1.get? x.pt x.name).getD x).flows.isEmpty && ((s1.get? x.pt x.name).getD x).runahead) = true
      then spawnNextParentless g s1 ((s1.get? x.pt x.name).getD x) else s1) := by
    split
    · exact nodup_spawnNextParentless _ _ _ h0
    · exact h0
  exact nodup_filter _ _ h1

theorem nodup_removeIfComplete (g : Graph) (s : State) (x : Proxy) (h : NoDup s) :
    NoDup (removeIfComplete g s x) := by
  unfold removeIfComplete
  split
  · exact h
  · simp only
    have h1 : NoDup (if (s.stopTask == some (x.pt, x.name)) = true then { s with stopTaskFinished := true } else s) := by
      split
      · exact nodup_of_pool rfl h
      · exact h
    generalize (if (s.stopTask == some (x.pt, x.name)) = true then { s with stopTaskFinished := true } else s) = s1
      at h1 ⊢
    split
    · exact nodup_remove _ _ _ h1
    · exact h1

theorem nodup_spawnChild (g : Graph) (p : Int) (n out : String) (acc : State × List (Int × String)) (c : Child)
    (h : NoDup acc.1) : NoDup (spawnChild g p n out acc c).1 := by
  obtain ⟨st, sui⟩ := acc
  unfold spawnChild
  simp only
  have hA : NoDup (if c.isAbs = true then flushDb st else st) := by
    split
    · exact nodup_flushDb _ h
    · exact h
  generalize (if c.isAbs = true then flushDb st else st) = stA at hA ⊢
  have h0 : NoDup (if (c.isAbs && !stA.absDone.contains ⟨p, n, out⟩) = true then
      { stA with absDone := stA.absDone ++ [⟨p, n, out⟩] } else stA) := by
    split
    · exact nodup_of_pool rfl hA
    · exact hA
  generalize (if (c.isAbs && !stA.absDone.contains ⟨p, n, out⟩) = true then
      { stA with absDone := stA.absDone ++ [⟨p, n, out⟩] } else stA) = st0 at h0 ⊢
  have hfold : ∀ (ks : List (Int × String)) (a : State × List (Int × String)), NoDup a.1 →
      NoDup (ks.foldl (fun (a : State × List (Int × String)) k =>
        match a.1.get? k.1 k.2 with
        | none => a
        | some z =>
          let z := z.satisfyMe ⟨p, n, out⟩
          (a.1.put z, if (z.suicideNow && !a.2.contains k) = true then a.2 ++ [k] else a.2)) a).1 := by
    intro ks; induction ks with
    | nil => intro a ha; exact ha
    | cons k ks ih =>
      intro a ha
      apply ih
      simp only
      split
      · exact ha
      · exact nodup_put _ _ ha
  cases hg : st0.get? c.pt c.name with
  | some y =>
    simp only [Option.isSome_some]
    apply hfold
    exact h0
  | none =>
    simp only [Option.isSome_none]
    generalize hsp : spawnTask g st0 c.name c.pt = R
    obtain ⟨st1, child⟩ := R
    have hp : st1.pool = st0.pool := by
      have := pool_spawnTask g st0 c.name c.pt
      rw [hsp] at this; exact this
    have h1 : NoDup st1 := nodup_of_pool hp h0
    dsimp only
    split
    · exact h1
    · apply hfold
      simp only [Bool.false_eq_true, if_false]
      exact nodup_add _ _ h1

theorem nodup_spawnOnOutput (g : Graph) (s : State) (p : Int) (n out : String) (h : NoDup s) :
    NoDup (spawnOnOutput g s p n out) := by
  unfold spawnOnOutput
  split
  · exact h
  · simp only
    have h1 : ∀ (cs : List Child) (acc : State × List (Int × String)), NoDup acc.1 →
        NoDup (cs.foldl (spawnChild g p n out) acc).1 := by
      intro cs; induction cs with
      | nil => intro acc ha; exact ha
      | cons c cs ih => intro acc ha; exact ih _ (nodup_spawnChild g p n out acc c ha)
    have h2 : ∀ (ks : List (Int × String)) (st : State), NoDup st →
        NoDup (ks.foldl (fun (st : State) k => match st.get? k.1 k.2 with
          | some z => remove g st z
          | none => st) st) := by
      intro ks; induction ks with
      | nil => intro st hst; exact hst
      | cons k ks ih =>
        intro st hst
        apply ih
        simp only
        split
        · exact nodup_remove _ _ _ hst
        · exact hst
    generalize hR : (List.foldl (spawnChild g p n out) (s, []) _) = R
    have hRn : NoDup R.1 := by rw [← hR]; exact h1 _ _ h
    have h3 := h2 R.2 R.1 hRn
    split
    · exact nodup_removeIfComplete _ _ _ h3
    · exact h3

theorem nodup_store (s : State) (x : Proxy) (tr : Bool) (h : NoDup s) : NoDup (store s x tr) := by
  unfold store; split
  · exact nodup_of_pool rfl h
  · exact nodup_put _ _ h

theorem pool_putOutputs (s : State) (x : Proxy) : (putOutputs s x).pool = s.pool := by
  unfold putOutputs; split <;> rfl

theorem nodup_spawnChildren (g : Graph) (s : State) (p : Int) (n out : String) (tr : Bool) (h : NoDup s) :
    NoDup (spawnChildren g s p n out tr) := by
  unfold spawnChildren
  simp only
  have key : ∀ S : State, NoDup S → NoDup (if tr = true then S else spawnOnOutput g S p n out) := by
    intro S hS
    split
    · exact hS
    · exact nodup_spawnOnOutput _ _ _ _ _ hS
  apply key
  split
  · exact nodup_of_pool (pool_putOutputs _ _) h
  · exact h

theorem nodup_processMessage (g : Graph) : ∀ (fuel : Nat) (s : State) (p : Int) (n : String) (flag : Flag)
    (sn : Nat) (msg : String), NoDup s → NoDup (processMessage g fuel s p n flag sn msg).1 := by
  intro fuel
  induction fuel with
  | zero => intro s p n flag sn msg h; exact h
  | succ fuel ih =>
    intro s p n flag sn msg h
    unfold processMessage
    split
    · exact h
    · rename_i x tr _
      split
      · exact h
      · split
        · exact h
        · simp only
          have hstore : ∀ (y : Proxy), NoDup (store s y tr) := fun y => nodup_store _ _ _ h
          have himp : ∀ (l : List String) (st : State), NoDup st →
              NoDup (l.foldl (fun st m => (processMessage g fuel st p n .internal sn m).1) st) := by
            intro l; induction l with
            | nil => intro st hst; exact hst
            | cons a l ihl => intro st hst; exact ihl _ (ih _ _ _ _ _ _ hst)
          generalize hS : (List.foldl (fun st m => (processMessage g fuel st p n Flag.internal sn m).1) _ _) = S
          have hSn : NoDup S := by rw [← hS]; exact himp _ _ (hstore _)
          split
          · exact hSn
          · repeat' split
            all_goals first
              | exact hSn
              | exact nodup_store _ _ _ hSn
              | exact nodup_spawnChildren _ _ _ _ _ _ (nodup_store _ _ _ hSn)
              | exact nodup_spawnChildren _ _ _ _ _ _ hSn

theorem nodup_processQueue (g : Graph) (s : State) (h : NoDup s) : NoDup (processQueue g s) := by
  unfold processQueue
  apply foldl_inv NoDup
  · intro st grp hst
    simp only
    split
    · exact hst
    · have : ∀ (l : List Msg) (acc : State × Bool), NoDup acc.1 →
          NoDup (l.foldl (fun (acc : State × Bool) m =>
            let (st', pl) := processMessage g 4 acc.1 grp.1.1 grp.1.2 .received m.submitNum m.text
            (st', acc.2 || pl)) acc).1 := by
        intro l; induction l with
        | nil => intro acc ha; exact ha
        | cons m l ihl =>
          intro acc ha
          apply ihl
          exact nodup_processMessage g 4 _ _ _ _ _ _ ha
      have h2 := this grp.2 (st, false) hst
      split
      · exact nodup_of_pool rfl h2
      · exact h2
  · exact nodup_of_pool rfl h

theorem pool_checkStalled (g : Graph) (s : State) : (checkStalled g s).pool = s.pool := by
  unfold checkStalled; split
  · rfl
  · split
    · rfl
    · split <;> rfl

theorem pool_checkAutoShutdown (g : Graph) (s : State) : (checkAutoShutdown g s).1.pool = s.pool := by
  unfold checkAutoShutdown
  simp only
  split
  · rfl
  · split
    · exact pool_checkStalled g s
    · split
      · exact pool_checkStalled g s
      · exact pool_checkStalled g s

theorem nodup_sweepQueue (s : State) (h : NoDup s) : NoDup (sweepQueue s) := by
  unfold sweepQueue
  apply foldl_inv NoDup
  · intro st x hst
    split
    · split
      · exact nodup_queueIfReady _ _ (nodup_put _ _ hst)
      · exact hst
    · exact hst
  · exact h

theorem keys_mapUpd (l : List Proxy) (f : Proxy → Proxy) (hf : ∀ x, (f x).pt = x.pt ∧ (f x).name = x.name) :
    (l.map f).map (fun x => (x.pt, x.name)) = l.map fun x => (x.pt, x.name) := by
  simp only [List.map_map]
  apply List.map_congr_left
  intro x _
  simp only [Function.comp, (hf x).1, (hf x).2]

theorem nodup_finishLoop (g : Graph) (s : State) (h : NoDup s) : NoDup (finishLoop g s) := by
  unfold finishLoop
  simp only
  have h4 : NoDup (if (s.pool.any (·.upd)) = true then { s with restartWait := false } else s) := by
    split
    · exact nodup_of_pool rfl h
    · exact h
  generalize (if (s.pool.any (·.upd)) = true then { s with restartWait := false } else s) = s1 at h4 ⊢
  have key : ∀ S : State, NoDup S →
      NoDup (if (!(s.schedUpd || s.pool.any (·.upd)) && (flushDb { S with db := some S.pool }).stopMode.isNone) = true
        then checkStalled g (flushDb { S with db := some S.pool }) else flushDb { S with db := some S.pool }) := by
    intro S hS
    have hf : NoDup (flushDb { S with db := some S.pool }) := nodup_flushDb _ (nodup_of_pool rfl hS)
    split
    · exact nodup_of_pool (pool_checkStalled g _) hf
    · exact hf
  apply key
  split
  · unfold NoDup keys at *
    simp only
    rw [List.map_map]; exact h4
  · exact h4

theorem keys_mapReset (l : List Proxy) (f : Proxy → Proxy) (hf : ∀ x, (f x).pt = x.pt ∧ (f x).name = x.name) :
    (l.map f).map (fun x => (x.pt, x.name)) = l.map fun x => (x.pt, x.name) := by
  simp only [List.map_map]
  apply List.map_congr_left
  intro x _
  simp only [Function.comp, (hf x).1, (hf x).2]

theorem reset_key (x : Proxy) (a : Option Status) (b c d : Option Bool) :
    (x.reset a b c d).pt = x.pt ∧ (x.reset a b c d).name = x.name := by
  unfold Proxy.reset
  simp only
  split <;> exact ⟨rfl, rfl⟩

theorem nodup_setStopPoint (s : State) (p : Int) (h : NoDup s) : NoDup (setStopPoint s p) := by
  unfold setStopPoint
  split
  · exact h
  · simp only
    split
    · split
      · unfold NoDup keys at *
        simp only
        rw [keys_mapReset]
        · exact h
        · intro x
          split
          · exact reset_key x _ _ _ _
          · exact ⟨rfl, rfl⟩
      · exact nodup_of_pool rfl h
    · exact nodup_of_pool rfl h

theorem nodup_setHoldPoint (s : State) (p : Int) (h : NoDup s) : NoDup (setHoldPoint s p) := by
  unfold setHoldPoint
  simp only
  apply foldl_inv NoDup
  · intro st x hst
    split
    · split
      · exact nodup_holdActive _ _ hst
      · exact hst
    · exact hst
  · exact nodup_of_pool rfl h

theorem nodup_holdTasks (s : State) (ids : List (Int × String)) (h : NoDup s) : NoDup (holdTasks s ids) := by
  unfold holdTasks
  apply foldl_inv NoDup
  · intro st k hst
    split
    · exact nodup_holdActive _ _ hst
    · split
      · exact hst
      · exact nodup_of_pool rfl hst
  · exact h

theorem nodup_releaseTasks (s : State) (ids : List (Int × String)) (h : NoDup s) : NoDup (releaseTasks s ids) := by
  unfold releaseTasks
  apply foldl_inv NoDup
  · intro st k hst
    split
    · exact hst
    · split
      · exact nodup_releaseHeldActive _ _ hst
      · exact nodup_of_pool rfl hst
  · exact h

theorem nodup_releaseHoldPoint (s : State) (h : NoDup s) : NoDup (releaseHoldPoint s) := by
  unfold releaseHoldPoint
  simp only
  refine nodup_of_pool rfl (?_ : NoDup (List.foldl _ _ _))
  apply foldl_inv NoDup
  · intro st x hst
    split
    · exact nodup_releaseHeldActive _ _ hst
    · exact hst
  · exact nodup_of_pool rfl h

theorem nodup_restart (g : Graph) (s : State) (h : NoDup s) : NoDup (restart g s) := by
  unfold restart
  simp only
  have hbase : ∀ (f : Proxy → Proxy), (∀ x, (f x).pt = x.pt ∧ (f x).name = x.name) →
      ((flushDb s).pool.map f).map (fun x => (x.pt, x.name)) = keys s := by
    intro f hf
    rw [keys_mapReset _ f hf, pool_flushDb]; rfl
  split
  · apply nodup_setHoldPoint
    unfold NoDup keys
    simp only
    rw [hbase]
    · exact h
    · intro x
      split <;> (split <;> exact ⟨rfl, rfl⟩)
  · unfold NoDup keys
    simp only
    rw [hbase]
    · exact h
    · intro x
      split <;> (split <;> exact ⟨rfl, rfl⟩)

/-! ### List facts about keyed pools -/

def pkey (x : Proxy) : Int × String := (x.pt, x.name)

theorem keymatch_iff (y x : Proxy) : (y.pt == x.pt && y.name == x.name) = true ↔ pkey y = pkey x := by
  unfold pkey
  simp only [Bool.and_eq_true, beq_iff_eq, Prod.mk.injEq]

/-- replacing the entries with the key of `x` leaves a list without that key alone -/
theorem map_put_of_not_mem (l : List Proxy) (x : Proxy) (h : pkey x ∉ l.map pkey) :
    l.map (fun y => if (y.pt == x.pt && y.name == x.name) = true then x else y) = l := by
  induction l with
  | nil => rfl
  | cons a l ih =>
    simp only [List.map_cons, List.mem_cons, not_or] at h ⊢
    have ha : ¬ ((a.pt == x.pt && a.name == x.name) = true) := by
      rw [keymatch_iff]; exact fun e => h.1 e.symm
    simp only [ha, Bool.false_eq_true, if_false]
    rw [ih h.2]

theorem filter_key_of_not_mem (l : List Proxy) (x : Proxy) (h : pkey x ∉ l.map pkey) :
    l.filter (fun y => !(y.pt == x.pt && y.name == x.name)) = l := by
  induction l with
  | nil => rfl
  | cons a l ih =>
    simp only [List.map_cons, List.mem_cons, not_or] at h
    have ha : ¬ ((a.pt == x.pt && a.name == x.name) = true) := by
      rw [keymatch_iff]; exact fun e => h.1 e.symm
    rw [List.filter_cons]
    simp only [Bool.not_eq_true] at ha
    simp only [ha, Bool.not_false, if_true]
    rw [ih h.2]

theorem find_key_of_not_mem (l : List Proxy) (p : Int) (n : String) (h : (p, n) ∉ l.map pkey) :
    l.find? (fun y => y.pt == p && y.name == n) = none := by
  apply List.find?_eq_none.mpr
  intro y hy hm
  apply h
  simp only [Bool.and_eq_true, beq_iff_eq] at hm
  exact List.mem_map.mpr ⟨y, hy, by unfold pkey; rw [hm.1, hm.2]⟩

/-- in a pool `done ++ x :: rest` with distinct keys the lookup of the key of `x` finds `x` -/
theorem get?_mid (s : State) (done rest : List Proxy) (x : Proxy) (hp : s.pool = done ++ x :: rest)
    (hd : pkey x ∉ done.map pkey) : s.get? x.pt x.name = some x := by
  unfold State.get?
  rw [hp, List.find?_append, find_key_of_not_mem done x.pt x.name hd]
  simp

theorem put_mid (s : State) (done rest : List Proxy) (x y : Proxy) (hp : s.pool = done ++ x :: rest)
    (hk : pkey y = pkey x) (hd : pkey x ∉ done.map pkey) (hr : pkey x ∉ rest.map pkey) :
    (s.put y).pool = done ++ y :: rest := by
  unfold State.put
  simp only
  rw [hp, List.map_append, List.map_cons]
  have hky : pkey y ∉ done.map pkey := by rw [hk]; exact hd
  have hky' : pkey y ∉ rest.map pkey := by rw [hk]; exact hr
  rw [map_put_of_not_mem done y hky, map_put_of_not_mem rest y hky']
  have : (x.pt == y.pt && x.name == y.name) = true := by rw [keymatch_iff]; exact hk.symm
  simp only [this, if_true]

theorem filter_mid (done rest : List Proxy) (x z : Proxy) (hk : pkey z = pkey x)
    (hd : pkey x ∉ done.map pkey) (hr : pkey x ∉ rest.map pkey) :
    (done ++ x :: rest).filter (fun y => !(y.pt == z.pt && y.name == z.name)) = done ++ rest := by
  have hkz : pkey z ∉ done.map pkey := by rw [hk]; exact hd
  have hkz' : pkey z ∉ rest.map pkey := by rw [hk]; exact hr
  rw [List.filter_append, List.filter_cons, filter_key_of_not_mem done z hkz, filter_key_of_not_mem rest z hkz']
  have : (x.pt == z.pt && x.name == z.name) = true := by rw [keymatch_iff]; exact hk.symm
  simp [this]

theorem task?_none_of_not_mem (g' : Graph) (n : String) (h : n ∉ g'.tasks.map (·.name)) : g'.task? n = none := by
  unfold Graph.task?
  apply List.find?_eq_none.mpr
  intro t ht hm
  apply h
  simp only [beq_iff_eq] at hm
  exact List.mem_map.mpr ⟨t, ht, hm⟩

theorem task?_none_of_orphan (g g' : Graph) (n : String) (h : (orphansOf g g').contains n = true) :
    g'.task? n = none := by
  apply task?_none_of_not_mem
  unfold orphansOf at h
  simp only [List.contains_eq_mem, List.mem_filter, decide_eq_true_eq, Bool.not_eq_true'] at h
  intro hm
  have := h.2
  simp [hm] at this

theorem nextParentless_none (g' : Graph) (x : Proxy) (h : g'.task? x.name = none) : nextParentless g' x = none := by
  unfold nextParentless
  simp [h]

theorem spawnNextParentless_none (g' : Graph) (s : State) (x : Proxy) (h : g'.task? x.name = none) :
    spawnNextParentless g' s x = s := by
  unfold spawnNextParentless
  split
  · rfl
  · rw [nextParentless_none g' x h]

theorem reset_pkey (x : Proxy) (a : Option Status) (b c d : Option Bool) : pkey (x.reset a b c d) = pkey x := by
  unfold pkey
  rw [(reset_key x a b c d).1, (reset_key x a b c d).2]

theorem releaseHeldActive_mid (st : State) (done rest : List Proxy) (x : Proxy)
    (hp : st.pool = done ++ x :: rest) (hd : pkey x ∉ done.map pkey) (hr : pkey x ∉ rest.map pkey) :
    ∃ w, pkey w = pkey x ∧ w.name = x.name ∧ (releaseHeldActive st x).pool = done ++ w :: rest := by
  unfold releaseHeldActive
  simp only
  split
  · split
    · refine ⟨_, ?_, ?_, put_mid st done rest x _ hp ?_ hd hr⟩
      · rw [reset_pkey, reset_pkey]
      · have := reset_pkey ((x.reset none none none (some false))) none (some true) none none
        have h2 := reset_pkey x none none none (some false)
        unfold pkey at this h2
        simp only [Prod.mk.injEq] at this h2
        rw [this.2, h2.2]
      · rw [reset_pkey, reset_pkey]
    · refine ⟨_, ?_, ?_, put_mid st done rest x _ hp ?_ hd hr⟩
      · rw [reset_pkey]
      · have h2 := reset_pkey x none none none (some false)
        unfold pkey at h2
        simp only [Prod.mk.injEq] at h2
        exact h2.2
      · rw [reset_pkey]
  · exact ⟨x, rfl, rfl, hp⟩

theorem fl_flushDb (s : State) : (flushDb s).fl = s.fl ∧ (flushDb s).dbOut = s.dbOut := by
  unfold flushDb
  split <;> (dsimp only; split <;> exact ⟨rfl, rfl⟩)

theorem fl_releaseHeldActive (s : State) (x : Proxy) :
    (releaseHeldActive s x).fl = s.fl ∧ (releaseHeldActive s x).dbOut = s.dbOut := by
  unfold releaseHeldActive
  simp only
  split
  · split <;> exact ⟨rfl, rfl⟩
  · exact ⟨rfl, rfl⟩

/-- removal of a proxy whose task the (new) configuration does not know: exactly that entry goes -/
theorem remove_mid (g' : Graph) (st : State) (done rest : List Proxy) (x : Proxy)
    (hp : st.pool = done ++ x :: rest) (hd : pkey x ∉ done.map pkey) (hr : pkey x ∉ rest.map pkey)
    (horph : g'.task? x.name = none) :
    (remove g' st x).pool = done ++ rest ∧ (remove g' st x).fl = st.fl ∧ (remove g' st x).dbOut = st.dbOut := by
  obtain ⟨w, hkw, hnw, hpw⟩ := releaseHeldActive_mid st done rest x hp hd hr
  have hfl := fl_releaseHeldActive st x
  unfold remove
  simp only
  generalize releaseHeldActive st x = s1 at hpw hfl ⊢
  have hget : s1.get? x.pt x.name = some w := by
    have hdw : pkey w ∉ done.map pkey := by rw [hkw]; exact hd
    have := get?_mid s1 done rest w hpw hdw
    unfold pkey at hkw
    simp only [Prod.mk.injEq] at hkw
    rw [hkw.1, hkw.2] at this
    exact this
  simp only [hget, Option.getD_some]
  have hw : g'.task? w.name = none := by rw [hnw]; exact horph
  have hsn : (if (!w.flows.isEmpty && w.runahead) = true then spawnNextParentless g' s1 w else s1) = s1 := by
    split
    · exact spawnNextParentless_none g' s1 w hw
    · rfl
  rw [hsn]
  refine ⟨?_, ?_, ?_⟩
  · rw [pool_flushDb]
    simp only
    rw [hpw]
    have hdw : pkey w ∉ done.map pkey := by rw [hkw]; exact hd
    have hrw : pkey w ∉ rest.map pkey := by rw [hkw]; exact hr
    exact filter_mid done rest w w rfl hdw hrw
  · rw [(fl_flushDb _).1]; exact hfl.1
  · rw [(fl_flushDb _).2]; exact hfl.2

/-! ### What `_reload_taskdefs` does to the pool, entry by entry -/

/-- the fate of one pooled proxy: dropped (`none`), kept as an orphan, or replaced by its successor -/
def succOf (g' : Graph) (orphans : List String) (s : State) (x : Proxy) : Option Proxy :=
  if orphans.contains x.name then
    if x.status == .waiting || (s.fl.dropHeldOrphans && (x.held || x.queued)) then none
    else some { x with noSpawn := true }
  else some (reloadProxy g' s x)

theorem checkOutput_congr (s t : State) (a : Atom) (h : t.dbOut = s.dbOut) : checkOutput t a = checkOutput s a := by
  unfold checkOutput; rw [h]

theorem reloadPre_congr (s t : State) (old new : List Pre) (h : t.dbOut = s.dbOut) :
    reloadPre t old new = reloadPre s old new := by
  unfold reloadPre
  simp only [checkOutput_congr s t _ h]

theorem reloadProxy_congr (g' : Graph) (s t : State) (x : Proxy) (h : t.dbOut = s.dbOut) :
    reloadProxy g' t x = reloadProxy g' s x := by
  unfold reloadProxy
  split
  · simp only [reloadPre_congr s t _ _ h]
  · rfl

theorem reloadProxy_pkey (g' : Graph) (s : State) (x : Proxy) : pkey (reloadProxy g' s x) = pkey x := by
  have h := reloadProxy_sameCore g' s x
  unfold pkey; rw [h.1, h.2.1]

theorem succOf_congr (g' : Graph) (orphans : List String) (s t : State) (x : Proxy)
    (hfl : t.fl = s.fl) (hdb : t.dbOut = s.dbOut) : succOf g' orphans t x = succOf g' orphans s x := by
  unfold succOf
  rw [hfl, reloadProxy_congr g' s t x hdb]

theorem reloadOne_mid (g' : Graph) (orphans : List String) (st : State) (done rest : List Proxy) (x : Proxy)
    (hp : st.pool = done ++ x :: rest) (hd : pkey x ∉ done.map pkey) (hr : pkey x ∉ rest.map pkey)
    (horph : orphans.contains x.name = true → g'.task? x.name = none) :
    (reloadOne g' orphans st x).pool = done ++ (succOf g' orphans st x).toList ++ rest ∧
    (reloadOne g' orphans st x).fl = st.fl ∧ (reloadOne g' orphans st x).dbOut = st.dbOut := by
  unfold reloadOne succOf
  rw [get?_mid st done rest x hp hd]
  simp only
  split
  · rename_i ho
    split
    · have := remove_mid g' st done rest x hp hd hr (horph ho)
      simpa using this
    · refine ⟨?_, rfl, rfl⟩
      rw [put_mid st done rest x { x with noSpawn := true } hp rfl hd hr]
      simp
  · refine ⟨?_, rfl, rfl⟩
    rw [put_mid st done rest x (reloadProxy g' st x) hp (reloadProxy_pkey g' st x) hd hr]
    simp

theorem succOf_pkey (g' : Graph) (orphans : List String) (s : State) (x y : Proxy)
    (h : succOf g' orphans s x = some y) : pkey y = pkey x := by
  unfold succOf at h
  split at h
  · split at h
    · cases h
    · cases h; rfl
  · cases h; exact reloadProxy_pkey g' s x

/-- the fold of `_reload_taskdefs` over the pool: every entry is replaced by its fate, in place -/
theorem reloadFold_spec (g' : Graph) (orphans : List String) (s0 : State) :
    ∀ (l done : List Proxy) (st : State), st.pool = done ++ l → ((done ++ l).map pkey).Nodup →
      st.fl = s0.fl → st.dbOut = s0.dbOut →
      (∀ x ∈ l, orphans.contains x.name = true → g'.task? x.name = none) →
      (l.foldl (reloadOne g' orphans) st).pool = done ++ l.filterMap (succOf g' orphans s0) ∧
      (l.foldl (reloadOne g' orphans) st).fl = s0.fl ∧ (l.foldl (reloadOne g' orphans) st).dbOut = s0.dbOut := by
  intro l
  induction l with
  | nil =>
    intro done st hp _ hfl hdb _
    simp only [List.foldl_nil, List.filterMap_nil]
    exact ⟨hp, hfl, hdb⟩
  | cons x l ih =>
    intro done st hp hnd hfl hdb horph
    simp only [List.foldl_cons]
    -- distinct keys
    have hnd' := hnd
    rw [List.map_append, List.map_cons] at hnd'
    have hdx : pkey x ∉ done.map pkey := by
      intro hm
      have := (List.nodup_append.mp hnd').2.2 _ hm _ (List.mem_cons_self)
      exact this rfl
    have hrx : pkey x ∉ l.map pkey := (List.nodup_cons.mp (List.nodup_append.mp hnd').2.1).1
    obtain ⟨h1, h2, h3⟩ := reloadOne_mid g' orphans st done l x hp hdx hrx (horph x (List.mem_cons_self))
    rw [succOf_congr g' orphans s0 st x hfl hdb] at h1
    cases hs : succOf g' orphans s0 x with
    | none =>
      rw [hs] at h1
      simp only [Option.toList_none, List.append_nil] at h1
      have hnd2 : ((done ++ l).map pkey).Nodup := by
        rw [List.map_append]
        exact List.nodup_append.mpr ⟨(List.nodup_append.mp hnd').1, (List.nodup_cons.mp (List.nodup_append.mp hnd').2.1).2,
          fun a ha b hb => (List.nodup_append.mp hnd').2.2 a ha b (List.mem_cons_of_mem _ hb)⟩
      have := ih done _ h1 hnd2 (h2.trans hfl) (h3.trans hdb) (fun y hy => horph y (List.mem_cons_of_mem _ hy))
      simpa [List.filterMap_cons, hs] using this
    | some y =>
      rw [hs] at h1
      have hky := succOf_pkey g' orphans s0 x y hs
      have h1' : (reloadOne g' orphans st x).pool = (done ++ [y]) ++ l := by
        rw [h1]; simp
      have hnd2 : (((done ++ [y]) ++ l).map pkey).Nodup := by
        have : ((done ++ [y]) ++ l).map pkey = (done ++ x :: l).map pkey := by
          simp [List.map_append, hky]
        rw [this]; exact hnd
      have := ih (done ++ [y]) _ h1' hnd2 (h2.trans hfl) (h3.trans hdb)
        (fun z hz => horph z (List.mem_cons_of_mem _ hz))
      simpa [List.filterMap_cons, hs] using this

/-- **`_reload_taskdefs` on the pool**: with distinct keys, the pool afterwards is the pool before with every
entry replaced by its fate (`succOf`), order kept. -/
theorem reloadTaskdefs_pool (g' : Graph) (s : State) (cs : Option Int) (h : NoDup s) :
    (reloadTaskdefs g' s cs).pool = s.pool.filterMap (succOf g' (orphansOf s.g g') s) := by
  unfold reloadTaskdefs
  simp only
  have := reloadFold_spec g' (orphansOf s.g g') s s.pool []
    { s with g := g', stopPoint := some (cs.getD g'.fcp),
             qMembers := g'.tasks.map (·.name) ++ (if s.fl.adoptOrphans then orphansOf s.g g' else []) }
    (by simp) (by simp only [List.nil_append]; exact h) rfl rfl
    (fun x _ ho => task?_none_of_orphan s.g g' x.name ho)
  simpa using this.1

theorem filterMap_keys_sublist (f : Proxy → Option Proxy) (hf : ∀ x y, f x = some y → pkey y = pkey x) :
    ∀ l : List Proxy, ((l.filterMap f).map pkey).Sublist (l.map pkey) := by
  intro l
  induction l with
  | nil => simp
  | cons a l ih =>
    rw [List.filterMap_cons]
    cases hfa : f a with
    | none => simp only [List.map_cons]; exact List.Sublist.cons _ ih
    | some y =>
      simp only [List.map_cons]
      rw [hf a y hfa]
      exact List.Sublist.cons_cons _ ih

theorem nodup_reloadTaskdefs (g' : Graph) (s : State) (cs : Option Int) (h : NoDup s) :
    NoDup (reloadTaskdefs g' s cs) := by
  unfold NoDup keys
  rw [reloadTaskdefs_pool g' s cs h]
  exact List.Nodup.sublist
    (filterMap_keys_sublist _ (fun x y hxy => succOf_pkey g' _ s x y hxy) s.pool) h

theorem pool_reloadPause (s : State) : (reloadPause s).pool = s.pool := by
  unfold reloadPause
  split
  · rfl
  · rw [pool_flushDb]

theorem pool_reloadResume (b : Bool) (s : State) : (reloadResume b s).pool = s.pool := by
  unfold reloadResume
  split
  · rfl
  · rw [pool_flushDb]

theorem nodup_reloadApply (g' : Graph) (s : State) (h : NoDup s) : NoDup (reloadApply g' s) := by
  unfold reloadApply
  simp only
  have h1 : NoDup (reloadTaskdefs g' (reloadDbWrite s) (reloadCfgStop g' s)) :=
    nodup_reloadTaskdefs _ _ _ (nodup_of_pool rfl h)
  split
  · exact nodup_releaseRunahead _ _ (nodup_computeRunahead _ _ _ h1)
  · exact nodup_computeRunahead _ _ _ h1

theorem nodup_reloadCmd (ng : Option Graph) (s : State) (h : NoDup s) : NoDup (reloadCmd ng s) := by
  unfold reloadCmd
  simp only
  apply nodup_of_pool (pool_reloadResume _ _).symm.symm
  have h1 : NoDup (reloadParams (reloadPause s)) := nodup_of_pool (t := reloadParams (reloadPause s))
    (by unfold reloadParams; exact pool_reloadPause s) h
  split
  · exact h1
  · exact nodup_reloadApply _ _ h1

theorem nodup_workflowShutdown (g : Graph) (s : State) (h : NoDup s) : NoDup (workflowShutdown g s) := by
  unfold workflowShutdown
  split
  · have hst : NoDup (stopTaskDone s).1 := by
      unfold stopTaskDone; split
      · exact nodup_of_pool rfl h
      · exact h
    generalize stopTaskDone s = R at hst ⊢
    obtain ⟨s2, std⟩ := R
    simp only at hst ⊢
    split
    · exact nodup_of_pool rfl hst
    · have hc := nodup_of_pool (pool_checkAutoShutdown g s2) hst
      generalize checkAutoShutdown g s2 = R2 at hc ⊢
      obtain ⟨s3, auto⟩ := R2
      simp only at hc ⊢
      split
      · exact nodup_of_pool rfl hc
      · exact hc
  · exact h

theorem nodup_applyCmd (s : State) (cmd : Option (Option Graph)) (h : NoDup s) : NoDup (applyCmd s cmd) := by
  unfold applyCmd
  split
  · exact nodup_of_pool rfl (nodup_reloadCmd _ _ h)
  · exact h

theorem nodup_loopRest (s : State) (h : NoDup s) : NoDup (loopRest s) := by
  unfold loopRest
  simp only
  apply nodup_finishLoop
  apply nodup_processQueue
  split
  · exact nodup_releaseAndSubmit _ (nodup_sweepQueue _ h)
  · exact nodup_sweepQueue _ h

theorem nodup_loopBody (s : State) (cmd : Option (Option Graph)) (h : NoDup s) : NoDup (loopBody s cmd) :=
  nodup_loopRest _ (nodup_applyCmd _ _ h)

theorem nodup_mainLoop (s : State) (cmd : Option (Option Graph)) (h : NoDup s) : NoDup (mainLoop s cmd) := by
  unfold mainLoop
  split
  · exact h
  · simp only
    have h2 := nodup_workflowShutdown s.g _ (nodup_releaseRunahead s.g _ (nodup_computeRunahead s.g s false h))
    split
    · exact nodup_of_pool rfl h2
    · exact nodup_loopBody _ _ h2

theorem nodup_eraseHistory (s : State) (p : Int) (n : String) (h : NoDup s) : NoDup (eraseHistory s p n) :=
  nodup_of_pool rfl h

theorem nodup_standDown (g : Graph) (p : Int) (n : String) (st : State) (c : Int × String) (h : NoDup st) :
    NoDup (standDown g p n st c).1 := by
  unfold standDown
  split
  · exact h
  · split
    · exact h
    · simp only
      split
      · exact nodup_put _ _ h
      · split
        · exact nodup_put _ _ (nodup_put _ _ h)
        · exact nodup_eraseHistory _ _ _ (nodup_remove _ _ _ (nodup_put _ _ (nodup_put _ _ h)))

theorem nodup_standDownAll (g : Graph) (p : Int) (n : String) (cs : List (Int × String)) (s : State)
    (h : NoDup s) : NoDup (standDownAll g p n s cs).1 := by
  unfold standDownAll
  have hfold : ∀ (l : List (Int × String)) (acc : State × Bool), NoDup acc.1 →
      NoDup (l.foldl (fun (acc : State × Bool) c =>
        ((standDown g p n acc.1 c).1, acc.2 || (standDown g p n acc.1 c).2)) acc).1 := by
    intro l
    induction l with
    | nil => intro acc ha; exact ha
    | cons c l ih =>
      intro acc ha
      simp only [List.foldl_cons]
      apply ih
      exact nodup_standDown g p n acc.1 c ha
  exact hfold cs (s, false) h

theorem nodup_removeTail (g : Graph) (s : State) (b : Bool) (h : NoDup s) : NoDup (removeTail g s b) := by
  unfold removeTail
  split
  · split
    · exact nodup_releaseRunahead _ _ (nodup_computeRunahead _ _ _ h)
    · exact nodup_computeRunahead _ _ _ h
  · exact h

theorem nodup_removeTarget (g : Graph) (s : State) (p : Int) (n : String) (h : NoDup s) :
    NoDup (removeTarget g s p n) := by
  unfold removeTarget
  split
  · exact nodup_remove _ _ _ h
  · exact h

theorem nodup_removeTask (g : Graph) (s : State) (p : Int) (n : String) (order : List (Int × String))
    (h : NoDup s) : NoDup (removeTask g s p n order) := by
  unfold removeTask
  split
  · exact h
  · simp only
    split
    · exact h
    · apply nodup_removeTail
      apply nodup_flushDb
      apply nodup_eraseHistory
      apply nodup_standDownAll
      apply nodup_removeTarget
      exact nodup_flushDb _ h

theorem nodup_forceOutput (g : Graph) (s : State) (x : Proxy) (msg : String) (h : NoDup s) :
    NoDup (forceOutput g s x msg) := by
  unfold forceOutput
  split
  · exact h
  · exact nodup_spawnChildren _ _ _ _ _ _ (nodup_put _ _ h)

theorem nodup_setTail (s : State) (p : Int) (n : String) (h : NoDup s) : NoDup (setTail s p n) := by
  unfold setTail
  split
  · split
    · exact nodup_put _ _ h
    · exact h
  · exact h

theorem nodup_setOut (g : Graph) (s : State) (p : Int) (n : String) (trig : String) (h : NoDup s) :
    NoDup (setOut g s p n trig) := by
  unfold setOut
  split
  · exact h
  · split
    · exact nodup_setTail _ _ _ h
    · exact nodup_setTail _ _ _ (nodup_forceOutput _ _ _ _ h)

theorem nodup_step (s : State) (op : Op) (h : NoDup s) : NoDup (step s op) := by
  unfold step
  have hc : NoDup (clearOp s) := nodup_of_pool rfl h
  simp only
  cases op with
  | loop => exact nodup_mainLoop _ _ hc
  | subres p n ok sn => exact nodup_processMessage _ 4 _ _ _ _ _ _ hc
  | msg p n sn text => exact nodup_of_pool rfl hc
  | hold ids => exact nodup_holdTasks _ _ hc
  | release ids => exact nodup_releaseTasks _ _ hc
  | setHoldPoint p => exact nodup_setHoldPoint _ _ hc
  | releaseHoldPoint => exact nodup_releaseHoldPoint _ hc
  | stop mode => exact nodup_of_pool rfl hc
  | stopPoint p => exact nodup_setStopPoint _ _ hc
  | stopTask p n => exact nodup_of_pool rfl hc
  | pause => exact nodup_of_pool rfl hc
  | resume => exact nodup_of_pool rfl hc
  | restart => exact nodup_restart _ _ hc
  | reload ng inloop skipped =>
    simp only
    split
    · exact hc
    · split
      · exact nodup_mainLoop _ _ hc
      · exact nodup_reloadCmd _ _ hc
  | rm p n order => exact nodup_removeTask _ _ _ _ _ hc
  | setOut p n trig => exact nodup_setOut _ _ _ _ _ hc

/-- in every state of every run - any flags, instance graph and op list (reloads with any new graphs included) -
no two proxies share (point, name) -/
theorem nodup_run (fl : Flags) (g : Graph) (ops : List Op) : ∀ s ∈ run fl g ops, NoDup s :=
  run_inv NoDup fl g (nodup_loadFromPoint fl g) nodup_step ops

/-! ### Element-wise consequences of `reloadTaskdefs_pool` -/

theorem mem_reloadTaskdefs (g' : Graph) (s : State) (cs : Option Int) (h : NoDup s) (y : Proxy) :
    y ∈ (reloadTaskdefs g' s cs).pool ↔ ∃ x ∈ s.pool, succOf g' (orphansOf s.g g') s x = some y := by
  rw [reloadTaskdefs_pool g' s cs h, List.mem_filterMap]

/-- distinct keys: an entry of the pool with the key of `x` is `x` -/
theorem eq_of_pkey_eq {l : List Proxy} (hnd : (l.map pkey).Nodup) {x y : Proxy} (hx : x ∈ l) (hy : y ∈ l)
    (hk : pkey x = pkey y) : x = y := by
  induction l with
  | nil => cases hx
  | cons a l ih =>
    rw [List.map_cons] at hnd
    obtain ⟨hna, hnl⟩ := List.nodup_cons.mp hnd
    rcases List.mem_cons.mp hx with rfl | hx'
    · rcases List.mem_cons.mp hy with rfl | hy'
      · rfl
      · exact absurd (List.mem_map.mpr ⟨y, hy', hk.symm⟩) hna
    · rcases List.mem_cons.mp hy with rfl | hy'
      · exact absurd (List.mem_map.mpr ⟨x, hx', hk⟩) hna
      · exact ih hnl hx' hy'

/-- the key of a pooled proxy is gone after `_reload_taskdefs` exactly when its fate is `none` -/
theorem key_gone_iff (g' : Graph) (s : State) (cs : Option Int) (h : NoDup s) (x : Proxy) (hx : x ∈ s.pool) :
    pkey x ∉ (reloadTaskdefs g' s cs).pool.map pkey ↔ succOf g' (orphansOf s.g g') s x = none := by
  constructor
  · intro hgone
    cases hs : succOf g' (orphansOf s.g g') s x with
    | none => rfl
    | some y =>
      exfalso; apply hgone
      exact List.mem_map.mpr ⟨y, (mem_reloadTaskdefs g' s cs h y).mpr ⟨x, hx, hs⟩, succOf_pkey _ _ _ _ _ hs⟩
  · intro hs hm
    obtain ⟨y, hy, hky⟩ := List.mem_map.mp hm
    obtain ⟨x', hx', hs'⟩ := (mem_reloadTaskdefs g' s cs h y).mp hy
    have hk' := succOf_pkey _ _ _ _ _ hs'
    have : x' = x := eq_of_pkey_eq h hx' hx (by rw [← hk', hky])
    subst this
    rw [hs] at hs'; cases hs'

/-! ### Prerequisites of a successor -/

/-- the state an atom had before the reload (the last occurrence counts) -/
def lastState (old : List Pre) (a : Atom) : Option Bool :=
  (((old.flatMap (·.atoms)).filter (·.1 == a)).getLast?).map (·.2)

theorem reloadPre_length (s : State) (old new : List Pre) : (reloadPre s old new).length = new.length := by
  unfold reloadPre; simp

/-- the successor has exactly the prerequisites of the new definition: same atoms (keys), same expressions -/
theorem reloadPre_shape (s : State) (old new : List Pre) :
    (reloadPre s old new).map (fun p => (p.atoms.map (·.1), p.expr)) = new.map (fun p => (p.atoms.map (·.1), p.expr)) := by
  unfold reloadPre
  simp only [List.map_map]
  apply List.map_congr_left
  intro pr _
  simp only [Function.comp, List.map_map, Prod.mk.injEq, and_true]
  apply List.map_congr_left
  intro a _
  simp only [Function.comp]
  split <;> rfl

/-- every atom of the successor: the pre-reload state if the atom existed, else the DB lookup -/
theorem reloadPre_state (s : State) (old new : List Pre) (pr : Pre) (hpr : pr ∈ reloadPre s old new)
    (a : Atom) (v : Bool) (hav : (a, v) ∈ pr.atoms) :
    v = (lastState old a).getD (checkOutput s a) := by
  unfold reloadPre at hpr
  obtain ⟨pr0, _, rfl⟩ := List.mem_map.mp hpr
  simp only at hav
  obtain ⟨⟨a0, v0⟩, _, heq⟩ := List.mem_map.mp hav
  unfold lastState
  simp only at heq
  split at heq
  · rename_i w hw
    simp only [Prod.mk.injEq] at heq
    obtain ⟨rfl, rfl⟩ := heq
    rw [hw]; rfl
  · rename_i hw
    simp only [Prod.mk.injEq] at heq
    obtain ⟨rfl, rfl⟩ := heq
    rw [hw]; rfl

theorem lastState_none_iff (old : List Pre) (a : Atom) :
    lastState old a = none ↔ a ∉ (old.flatMap (·.atoms)).map (·.1) := by
  unfold lastState
  simp only [Option.map_eq_none_iff, List.getLast?_eq_none_iff, List.filter_eq_nil_iff, beq_iff_eq]
  constructor
  · intro h hm
    obtain ⟨b, hb, rfl⟩ := List.mem_map.mp hm
    exact h b hb rfl
  · intro h b hb heq
    exact h (List.mem_map.mpr ⟨b, hb, heq⟩)

theorem lastState_some_mem (old : List Pre) (a : Atom) (v : Bool) (h : lastState old a = some v) :
    (a, v) ∈ old.flatMap (·.atoms) := by
  unfold lastState at h
  obtain ⟨b, hb, rfl⟩ := Option.map_eq_some_iff.mp h
  have hm := List.mem_of_getLast? hb
  have := List.mem_filter.mp hm
  have hk : b.1 = a := by simpa using this.2
  have : b = (a, b.2) := by rw [← hk]
  rw [← this]
  exact (List.mem_filter.mp hm).1

/-! ### Releasing runahead-limited tasks touches nothing but the runahead flag -/

/-- `y` is `x` except that the runahead limit may have been lifted (and the updated flag raised) -/
def SameButRh (x y : Proxy) : Prop :=
  y.pt = x.pt ∧ y.name = x.name ∧ y.status = x.status ∧ y.flows = x.flows ∧ y.submitNum = x.submitNum ∧
  y.held = x.held ∧ y.queued = x.queued ∧ y.done = x.done ∧ y.pre = x.pre ∧ y.sui = x.sui ∧
  (y.runahead = x.runahead ∨ y.runahead = false)

theorem sameButRh_refl (x : Proxy) : SameButRh x x := by unfold SameButRh; simp

theorem sameButRh_trans {x y z : Proxy} (h1 : SameButRh x y) (h2 : SameButRh y z) : SameButRh x z := by
  unfold SameButRh at *
  obtain ⟨a1, a2, a3, a4, a5, a6, a7, a8, a9, a10, a11⟩ := h1
  obtain ⟨b1, b2, b3, b4, b5, b6, b7, b8, b9, b10, b11⟩ := h2
  refine ⟨b1.trans a1, b2.trans a2, b3.trans a3, b4.trans a4, b5.trans a5, b6.trans a6, b7.trans a7, b8.trans a8,
    b9.trans a9, b10.trans a10, ?_⟩
  rcases b11 with h | h
  · rcases a11 with h' | h'
    · exact Or.inl (h.trans h')
    · exact Or.inr (h.trans h')
  · exact Or.inr h

theorem sameButRh_reset (x : Proxy) : SameButRh x (x.reset (runahead := some false)) := by
  unfold Proxy.reset SameButRh
  simp only [Option.getD_none, Option.getD_some]
  split <;> simp

/-- every proxy of `s` still has a counterpart in `t`, the same but for the runahead flag -/
def Fate (s t : State) : Prop := ∀ x ∈ s.pool, ∃ y ∈ t.pool, SameButRh x y

theorem fate_refl (s : State) : Fate s s := fun x hx => ⟨x, hx, sameButRh_refl x⟩

theorem fate_of_pool_superset {s t u : State} (h : Fate s t) (hsub : ∀ y ∈ t.pool, y ∈ u.pool) : Fate s u :=
  fun x hx => let ⟨y, hy, hxy⟩ := h x hx; ⟨y, hsub y hy, hxy⟩

theorem mem_add (s : State) (x y : Proxy) (h : y ∈ s.pool) : y ∈ (s.add x).pool := by
  unfold State.add
  split
  · exact h
  · simp only [List.mem_append]; exact Or.inl h

theorem mem_spawnAndAdd (g : Graph) (s : State) (n : String) (p : Int) (y : Proxy) (h : y ∈ s.pool) :
    y ∈ (spawnAndAdd g s n p).pool := by
  unfold spawnAndAdd
  split
  · exact h
  · have hp := pool_spawnTask g s n p
    split
    · rename_i s' x heq
      have : s'.pool = s.pool := by rw [← hp, heq]
      exact mem_add _ _ _ (this ▸ h)
    · rename_i s' heq
      have : s'.pool = s.pool := by rw [← hp, heq]
      exact this ▸ h

theorem mem_spawnNextParentless (g : Graph) (s : State) (x y : Proxy) (h : y ∈ s.pool) :
    y ∈ (spawnNextParentless g s x).pool := by
  unfold spawnNextParentless
  split
  · exact h
  · split
    · exact mem_spawnAndAdd _ _ _ _ _ h
    · exact h

theorem get?_mem (s : State) (p : Int) (n : String) (y : Proxy) (h : s.get? p n = some y) :
    y ∈ s.pool ∧ y.pt = p ∧ y.name = n := by
  unfold State.get? at h
  have h1 := List.mem_of_find?_eq_some h
  have h2 := List.find?_some h
  simp only [Bool.and_eq_true, beq_iff_eq] at h2
  exact ⟨h1, h2.1, h2.2⟩

theorem mem_put_self (s : State) (z y0 : Proxy) (hy0 : y0 ∈ s.pool) (hk : pkey z = pkey y0) : z ∈ (s.put z).pool := by
  unfold State.put
  simp only
  apply List.mem_map.mpr
  refine ⟨y0, hy0, ?_⟩
  have : (y0.pt == z.pt && y0.name == z.name) = true := by rw [keymatch_iff]; exact hk.symm
  simp [this]

theorem mem_put_other (s : State) (z y : Proxy) (hy : y ∈ s.pool) (hk : pkey y ≠ pkey z) : y ∈ (s.put z).pool := by
  unfold State.put
  simp only
  apply List.mem_map.mpr
  refine ⟨y, hy, ?_⟩
  have : ¬ ((y.pt == z.pt && y.name == z.name) = true) := by rw [keymatch_iff]; exact hk
  simp [this]

/-- lifting the runahead limit of the (unique) proxy with a given key keeps `Fate` -/
theorem fate_put_reset (s st : State) (hst : NoDup st) (h : Fate s st) (p : Int) (n : String) (y0 : Proxy)
    (hg : st.get? p n = some y0) : Fate s (st.put (y0.reset (runahead := some false))) := by
  obtain ⟨hy0, hp, hn⟩ := get?_mem st p n y0 hg
  have hkz : pkey (y0.reset (runahead := some false)) = pkey y0 := reset_pkey _ _ _ _ _
  intro x hx
  obtain ⟨y, hy, hxy⟩ := h x hx
  by_cases hk : pkey y = pkey y0
  · have : y = y0 := eq_of_pkey_eq hst hy hy0 hk
    subst this
    exact ⟨_, mem_put_self st _ y hy hkz, sameButRh_trans hxy (sameButRh_reset y)⟩
  · exact ⟨y, mem_put_other st _ y hy (by rw [hkz]; exact hk), hxy⟩

theorem fate_releaseRunahead (g : Graph) (s : State) (h : NoDup s) : Fate s (releaseRunahead g s).1 := by
  unfold releaseRunahead
  split
  · exact fate_refl s
  · split
    · exact fate_refl s
    · simp only
      -- invariant of the fold: distinct keys and `Fate`
      have key : ∀ (l : List Proxy) (st : State), NoDup st → Fate s st →
          NoDup (l.foldl (fun (st : State) x =>
            let st := match st.get? x.pt x.name with
              | some y => st.put (y.reset (runahead := some false))
              | none => st
            spawnNextParentless g st x) st) ∧
          Fate s (l.foldl (fun (st : State) x =>
            let st := match st.get? x.pt x.name with
              | some y => st.put (y.reset (runahead := some false))
              | none => st
            spawnNextParentless g st x) st) := by
        intro l
        induction l with
        | nil => intro st h1 h2; exact ⟨h1, h2⟩
        | cons a l ih =>
          intro st h1 h2
          simp only [List.foldl_cons]
          apply ih
          · apply nodup_spawnNextParentless
            split
            · exact nodup_put _ _ h1
            · exact h1
          · apply fate_of_pool_superset (t := match st.get? a.pt a.name with
              | some y => st.put (y.reset (runahead := some false))
              | none => st)
            · split
              · rename_i y hg
                exact fate_put_reset s st h1 h2 a.pt a.name y hg
              · exact h2
            · intro y hy
              exact mem_spawnNextParentless _ _ _ _ hy
      exact (key _ s h (fate_refl s)).2

theorem fate_computeRunahead (g : Graph) (s : State) (f : Bool) : Fate s (computeRunahead g s f) := by
  intro x hx
  exact ⟨x, by rw [pool_computeRunahead]; exact hx, sameButRh_refl x⟩

theorem fate_trans {s t u : State} (h1 : Fate s t) (h2 : Fate t u) : Fate s u := by
  intro x hx
  obtain ⟨y, hy, hxy⟩ := h1 x hx
  obtain ⟨z, hz, hyz⟩ := h2 y hy
  exact ⟨z, hz, sameButRh_trans hxy hyz⟩

/-! ### The whole command -/

theorem reloadPrep_fields (s : State) :
    (reloadDbWrite (reloadParams (reloadPause s))).pool = s.pool ∧
    (reloadDbWrite (reloadParams (reloadPause s))).g = s.g ∧
    (reloadDbWrite (reloadParams (reloadPause s))).fl = s.fl ∧
    (reloadDbWrite (reloadParams (reloadPause s))).dbOut = s.dbOut := by
  unfold reloadDbWrite reloadParams reloadPause
  split
  · exact ⟨rfl, rfl, rfl, rfl⟩
  · refine ⟨pool_flushDb _, ?_, (fl_flushDb _).1, (fl_flushDb _).2⟩
    unfold flushDb
    split <;> (dsimp only; split <;> rfl)

theorem succOf_prep (g' : Graph) (s : State) (x : Proxy) :
    succOf g' (orphansOf (reloadDbWrite (reloadParams (reloadPause s))).g g')
      (reloadDbWrite (reloadParams (reloadPause s))) x = succOf g' (orphansOf s.g g') s x := by
  obtain ⟨_, hg, hfl, hdb⟩ := reloadPrep_fields s
  rw [hg]
  exact succOf_congr g' _ s _ x hfl hdb

theorem fate_reloadApply_tail (g' : Graph) (s1 : State) (h : NoDup s1) :
    Fate s1 (let hasBase := !s1.pool.isEmpty || (minOf (g'.seqs.filterMap fun q => q.find? (· ≥ g'.start))).isSome
      let s := computeRunahead g' s1 (force := true)
      if hasBase then (releaseRunahead g' s).1 else s) := by
  simp only
  split
  · exact fate_trans (fate_computeRunahead g' s1 true)
      (fate_releaseRunahead g' _ (nodup_computeRunahead g' s1 true h))
  · exact fate_computeRunahead g' s1 true

/-- **`cylc reload`, accepted definition**: every proxy that `_reload_taskdefs` leaves in the pool is still there
when the command returns, the same but for a lifted runahead limit. -/
theorem reloadCmd_fate (g' : Graph) (s : State) (h : NoDup s) :
    ∀ y ∈ (reloadTaskdefs g' (reloadDbWrite (reloadParams (reloadPause s)))
              (reloadCfgStop g' (reloadParams (reloadPause s)))).pool,
      ∃ z ∈ (reloadCmd (some g') s).pool, SameButRh y z := by
  intro y hy
  have hnd : NoDup (reloadDbWrite (reloadParams (reloadPause s))) :=
    nodup_of_pool (reloadPrep_fields s).1 h
  have h1 := nodup_reloadTaskdefs g' _ (reloadCfgStop g' (reloadParams (reloadPause s))) hnd
  obtain ⟨z, hz, hyz⟩ := fate_reloadApply_tail g' _ h1 y hy
  refine ⟨z, ?_, hyz⟩
  unfold reloadCmd
  simp only
  rw [pool_reloadResume]
  unfold reloadApply
  exact hz

/-- a pooled proxy whose task is still defined: its successor is in the pool after the command -/
theorem reloadCmd_survivor (g' : Graph) (s : State) (h : NoDup s) (x : Proxy) (hx : x ∈ s.pool)
    (hdef : (orphansOf s.g g').contains x.name = false) :
    ∃ z ∈ (reloadCmd (some g') s).pool, SameButRh (reloadProxy g' s x) z := by
  apply reloadCmd_fate g' s h
  have hnd : NoDup (reloadDbWrite (reloadParams (reloadPause s))) :=
    nodup_of_pool (reloadPrep_fields s).1 h
  rw [mem_reloadTaskdefs g' _ _ hnd]
  refine ⟨x, by rw [(reloadPrep_fields s).1]; exact hx, ?_⟩
  rw [succOf_prep]
  unfold succOf
  rw [hdef]
  simp

/-- a pooled proxy whose definition was removed and that is neither waiting nor (unrepaired code) held / queued
stays in the pool, barred from spawning -/
theorem reloadCmd_orphan_kept (g' : Graph) (s : State) (h : NoDup s) (x : Proxy) (hx : x ∈ s.pool)
    (horph : (orphansOf s.g g').contains x.name = true)
    (hst : (x.status == .waiting || (s.fl.dropHeldOrphans && (x.held || x.queued))) = false) :
    ∃ z ∈ (reloadCmd (some g') s).pool, SameButRh { x with noSpawn := true } z := by
  apply reloadCmd_fate g' s h
  have hnd : NoDup (reloadDbWrite (reloadParams (reloadPause s))) :=
    nodup_of_pool (reloadPrep_fields s).1 h
  rw [mem_reloadTaskdefs g' _ _ hnd]
  refine ⟨x, by rw [(reloadPrep_fields s).1]; exact hx, ?_⟩
  rw [succOf_prep]
  unfold succOf
  rw [horph, hst]
  simp

/-- a rejected definition: the pool is untouched -/
theorem reloadCmd_rejected_pool (s : State) : (reloadCmd none s).pool = s.pool := by
  unfold reloadCmd
  simp only
  rw [pool_reloadResume]
  unfold reloadParams
  exact pool_reloadPause s

/-! ### The queue-if-ready sweep, entry by entry -/

/-- what the sweep of the main loop does to one proxy -/
def sweepOne (y : Proxy) : Proxy :=
  if y.status == Status.waiting && !y.queued && !y.runahead then
    let y := { y with retryWait := false }
    if !y.queued && !y.runahead && y.isReadyToRun then y.reset (queued := some true) else y
  else y

theorem sweepOne_pkey (y : Proxy) : pkey (sweepOne y) = pkey y := by
  unfold sweepOne
  split
  · simp only
    split
    · rw [reset_pkey]; rfl
    · rfl
  · rfl

theorem sweepStep_mid (st : State) (done rest : List Proxy) (x : Proxy)
    (hp : st.pool = done ++ x :: rest) (hd : pkey x ∉ done.map pkey) (hr : pkey x ∉ rest.map pkey) :
    (match st.get? x.pt x.name with
      | some y =>
        if y.status == Status.waiting && !y.queued && !y.runahead then
          let y := { y with retryWait := false }
          queueIfReady (st.put y) y
        else st
      | none => st).pool = done ++ sweepOne x :: rest := by
  rw [get?_mid st done rest x hp hd]
  simp only
  unfold sweepOne
  split
  · simp only
    have hp1 : (st.put { x with retryWait := false }).pool = done ++ { x with retryWait := false } :: rest :=
      put_mid st done rest x _ hp rfl hd hr
    have hd' : pkey ({ x with retryWait := false } : Proxy) ∉ done.map pkey := hd
    have hr' : pkey ({ x with retryWait := false } : Proxy) ∉ rest.map pkey := hr
    unfold queueIfReady
    split
    · exact put_mid (st.put { x with retryWait := false }) done rest { x with retryWait := false }
        (({ x with retryWait := false } : Proxy).reset (queued := some true)) hp1 (reset_pkey _ _ _ _ _) hd' hr'
    · exact hp1
  · exact hp

/-- **the sweep, on the pool**: with distinct keys every entry is swept in place -/
theorem sweepFold_spec : ∀ (l done : List Proxy) (st : State), st.pool = done ++ l →
    ((done ++ l).map pkey).Nodup →
    (l.foldl (fun st x => match st.get? x.pt x.name with
      | some y =>
        if y.status == Status.waiting && !y.queued && !y.runahead then
          let y := { y with retryWait := false }
          queueIfReady (st.put y) y
        else st
      | none => st) st).pool = done ++ l.map sweepOne := by
  intro l
  induction l with
  | nil => intro done st hp _; simpa using hp
  | cons x l ih =>
    intro done st hp hnd
    simp only [List.foldl_cons, List.map_cons]
    have hnd' := hnd
    rw [List.map_append, List.map_cons] at hnd'
    have hdx : pkey x ∉ done.map pkey := by
      intro hm
      exact (List.nodup_append.mp hnd').2.2 _ hm _ (List.mem_cons_self) rfl
    have hrx : pkey x ∉ l.map pkey := (List.nodup_cons.mp (List.nodup_append.mp hnd').2.1).1
    have h1 := sweepStep_mid st done l x hp hdx hrx
    have h1' : (match st.get? x.pt x.name with
      | some y =>
        if y.status == Status.waiting && !y.queued && !y.runahead then
          let y := { y with retryWait := false }
          queueIfReady (st.put y) y
        else st
      | none => st).pool = (done ++ [sweepOne x]) ++ l := by rw [h1]; simp
    have hnd2 : (((done ++ [sweepOne x]) ++ l).map pkey).Nodup := by
      have : ((done ++ [sweepOne x]) ++ l).map pkey = (done ++ x :: l).map pkey := by
        simp [List.map_append, sweepOne_pkey]
      rw [this]; exact hnd
    have := ih (done ++ [sweepOne x]) _ h1' hnd2
    simpa using this

theorem sweepQueue_pool (s : State) (h : NoDup s) : (sweepQueue s).pool = s.pool.map sweepOne := by
  unfold sweepQueue
  have := sweepFold_spec s.pool [] s (by simp) (by simp only [List.nil_append]; exact h)
  rw [List.nil_append] at this
  exact this

/-- a waiting, released, unqueued proxy that is ready to run (its retry wait over) is queued by the sweep -/
theorem sweepOne_queues (y : Proxy) (hw : y.status = .waiting) (hr : y.runahead = false)
    (hready : ({ y with retryWait := false } : Proxy).isReadyToRun = true) : (sweepOne y).queued = true := by
  unfold sweepOne
  by_cases hq : y.queued = true
  · simp [hq]
  · have hq' : y.queued = false := by simpa using hq
    have hc : (y.status == Status.waiting && !y.queued && !y.runahead) = true := by simp [hw, hq', hr]
    rw [if_pos hc]
    have hc2 : (!({ y with retryWait := false } : Proxy).queued && !({ y with retryWait := false } : Proxy).runahead
        && ({ y with retryWait := false } : Proxy).isReadyToRun) = true := by
      rw [hready]; simp [hq', hr]
    simp only
    rw [if_pos hc2]
    unfold Proxy.reset
    simp [hq']

/-- **queued flag at main-loop granularity**: after the sweep every pooled proxy that is waiting, not
runahead-limited and ready to run is queued - in particular the successors a reload left unqueued. -/
theorem sweep_requeues (s : State) (h : NoDup s) (x : Proxy) (hx : x ∈ s.pool) (hw : x.status = .waiting)
    (hr : x.runahead = false) (hready : ({ x with retryWait := false } : Proxy).isReadyToRun = true) :
    ∃ y ∈ (sweepQueue s).pool, pkey y = pkey x ∧ y.queued = true := by
  refine ⟨sweepOne x, ?_, sweepOne_pkey x, sweepOne_queues x hw hr hready⟩
  rw [sweepQueue_pool s h]
  exact List.mem_map.mpr ⟨x, hx, rfl⟩

end CylcModel.Sched3Reload
