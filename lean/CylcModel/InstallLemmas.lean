/-
Helper lemmas for the `Install` model (C48).
-/
import CylcModel.Install
namespace CylcModel.Install

theorem foldl_max_ge (l : List Nat) : ∀ a, a ≤ l.foldl max a ∧ ∀ m ∈ l, m ≤ l.foldl max a := by
  induction l with
  | nil => intro a; simp
  | cons x xs ih =>
    intro a
    simp only [List.foldl_cons, List.mem_cons]
    rcases ih (max a x) with ⟨h1, h2⟩
    refine ⟨by omega, ?_⟩
    intro m hm
    rcases hm with hm | hm
    · subst hm; omega
    · exact h2 m hm

theorem foldl_max_le (l : List Nat) : ∀ a b, a ≤ b → (∀ m ∈ l, m ≤ b) → l.foldl max a ≤ b := by
  induction l with
  | nil => intro a b h _; simpa using h
  | cons x xs ih =>
    intro a b h hl
    simp only [List.foldl_cons]
    apply ih
    · have := hl x (by simp); omega
    · intro m hm; exact hl m (by simp [hm])

theorem le_maxList {l : List Nat} {m : Nat} (h : m ∈ l) : m ≤ maxList l := (foldl_max_ge l 0).2 m h

theorem maxList_eq {l : List Nat} {k : Nat} (hk : k ∈ l) (hmax : ∀ m ∈ l, m ≤ k) : maxList l = k := by
  have h1 : maxList l ≤ k := foldl_max_le l 0 k (Nat.zero_le _) hmax
  have h2 := le_maxList hk
  omega

/-- the state invariant: run directories are distinct; `runN`, when present, points to an existing
numbered run which is the highest-numbered one; a workflow directory that is itself a run directory
holds no runs -/
structure Inv (st : St) : Prop where
  nodup : (ids st).Nodup
  latest : ∀ k, st.runN = some k → RunId.num k ∈ ids st ∧ ∀ m ∈ nums st, m ≤ k
  flat : st.flat.isSome → st.runs = [] ∧ st.runN = none

theorem inv_init : Inv init := ⟨by simp [ids, init], by simp [init], by simp [init]⟩

theorem mem_nums {st : St} {m : Nat} : m ∈ nums st ↔ RunId.num m ∈ ids st := by
  unfold nums
  simp only [List.mem_filterMap]
  constructor
  · rintro ⟨r, hr, h⟩
    cases r with
    | num k => simp [numOf] at h; subst h; exact hr
    | named s => simp [numOf] at h
  · intro h; exact ⟨_, h, rfl⟩

/-- under the invariant the next run number is above every existing number, and it is one more than
the highest existing number -/
theorem nextNum_spec {st : St} (inv : Inv st) :
    (∀ m ∈ nums st, m < nextNum st) ∧ nextNum st = maxList (nums st) + 1 := by
  unfold nextNum
  cases h : st.runN with
  | none =>
    simp only [and_true]
    intro m hm; have := le_maxList hm; omega
  | some k =>
    rcases inv.latest k h with ⟨h1, h2⟩
    have hk : k ∈ nums st := mem_nums.2 h1
    simp only
    refine ⟨fun m hm => by have := h2 m hm; omega, ?_⟩
    rw [maxList_eq hk h2]

theorem hasNumbered_false {st : St} (h : hasNumbered st = false) : nums st = [] := by
  unfold hasNumbered at h
  rw [List.any_eq_false] at h
  unfold nums
  rw [List.filterMap_eq_nil_iff]
  intro r hr
  have := h r hr
  cases hn : numOf r with
  | none => rfl
  | some k => rw [hn] at this; simp at this

theorem ids_filter (st : St) (p : RunId → Bool) :
    (st.runs.filter fun x => p x.1).map (·.1) = (ids st).filter p := by
  unfold ids
  induction st.runs with
  | nil => rfl
  | cons x xs ih =>
    simp only [List.filter_cons, List.map_cons]
    by_cases hp : p x.1 = true
    · simp [hp, ih]
    · simp [hp, ih]

theorem ids_reinstall (st : St) (r : RunId) (stamp : Nat) :
    (st.runs.map fun x => if x.1 == r then (r, stamp) else x).map (·.1) = ids st := by
  unfold ids
  induction st.runs with
  | nil => rfl
  | cons x xs ih =>
    simp only [List.map_cons, List.cons.injEq]
    refine ⟨?_, ih⟩
    by_cases h : (x.1 == r) = true
    · simp only [h, if_true]; exact (beq_iff_eq.1 h).symm
    · simp [h]

theorem inv_of_runs_filter {st st' : St} {r : RunId} (inv : Inv st)
    (hruns : st'.runs = st.runs.filter (fun x => x.1 != r)) (hflat : st'.flat = st.flat)
    (hN : ∀ k, st'.runN = some k → st.runN = some k ∧ r ≠ .num k) : Inv st' := by
  have hids : ids st' = (ids st).filter (fun x => x != r) := by
    have := ids_filter st (fun x => x != r)
    unfold ids; rw [hruns]; exact this
  refine ⟨?_, ?_, ?_⟩
  · rw [hids]; exact inv.nodup.filter _
  · intro k hk
    rcases hN k hk with ⟨hk', hne⟩
    rcases inv.latest k hk' with ⟨h1, h2⟩
    refine ⟨?_, ?_⟩
    · rw [hids]
      simp only [List.mem_filter, bne_iff_ne, ne_eq]
      exact ⟨h1, fun h => hne h.symm⟩
    · intro m hm
      rw [mem_nums, hids] at hm
      exact h2 m (mem_nums.2 (List.mem_filter.1 hm).1)
  · intro hf
    rw [hflat] at hf
    have := inv.flat hf
    refine ⟨by rw [hruns, this.1]; rfl, ?_⟩
    cases h : st'.runN with
    | none => rfl
    | some k => have := (hN k h).1; rw [(inv.flat hf).2] at this; cases this

/-- cleaning a run keeps the invariant -/
theorem inv_cleanRun {st : St} (inv : Inv st) (r : RunId) : Inv (cleanRun st r) := by
  unfold cleanRun
  by_cases hc : (ids st).contains r = true
  · simp only [hc, if_true]
    refine inv_of_runs_filter (st := st) (r := r) inv (by rfl) (by rfl) ?_
    intro k hk
    simp only at hk
    cases hN : st.runN with
    | none => rw [hN] at hk; cases hk
    | some k' =>
      rw [hN] at hk
      simp only at hk
      by_cases hr : (r == RunId.num k') = true
      · simp [hr] at hk
      · simp only [hr, Bool.false_eq_true, if_false, Option.some.injEq] at hk
        subst hk
        exact ⟨rfl, fun h => hr (by rw [h]; simp)⟩
  · simp only [hc, Bool.false_eq_true, if_false]
    exact inv

end CylcModel.Install
