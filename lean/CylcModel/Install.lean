/-
Install — executable model of run-directory numbering in `cylc/flow/install.py`
(`install_workflow`, `get_run_dir_info`, `link_runN`/`unlink_runN`, `reinstall_workflow`),
`cylc/flow/pathutil.py::get_next_rundir_number` and the tidy-up of `cylc/flow/clean.py::clean`.

State = what is under `~/cylc-run/<workflow>`: the run directories (numbered `runK` or named) with
the *stamp* of the install/reinstall that last wrote them (the harness changes a file in the source
before every operation, so a stamp identifies the operation whose files the directory holds), the
target of the `runN` symlink, and whether the workflow directory itself is a run directory
(`--no-run-name`).  Operations get their stamp from their position in the history.

The filesystem is assumed (mkdir/symlink/rsync/rmtree do what they say).
-/
import CylcModel.Generated.InstallCfg
namespace CylcModel.Install

inductive RunId where
  | num (k : Nat)          -- `runK`
  | named (s : String)     -- `--run-name=s`
  deriving DecidableEq, Repr

structure St where
  runs : List (RunId × Nat)     -- run directories in creation order, with their stamp
  runN : Option Nat             -- `runN -> runK`
  flat : Option Nat             -- `~/cylc-run/<workflow>` itself is a run directory (stamp)
  deriving DecidableEq, Repr

def init : St := ⟨[], none, none⟩

inductive Op where
  | install                       -- cylc install (numbered run)
  | installNamed (s : String)     -- cylc install --run-name=s
  | installFlat                   -- cylc install --no-run-name
  | clean (r : RunId)             -- cylc clean <wf>/<run>
  | cleanAll                      -- cylc clean <wf>
  | cleanRunN                     -- cylc clean <wf>/runN
  | reinstall (r : RunId)         -- cylc reinstall <wf>/<run>
  | reinstallFlat                 -- cylc reinstall <wf>   (when <wf> itself is a run directory)
  | rmRunN                        -- the user removes the runN symlink
  | relink (k : Nat)              -- the user points runN at an existing runK
  deriving DecidableEq, Repr

inductive Res where
  | ok (installed : Option RunId)   -- the run directory written (install / reinstall), if any
  | err                             -- WorkflowFilesError
  deriving DecidableEq, Repr

def ids (st : St) : List RunId := st.runs.map (·.1)

def numOf : RunId → Option Nat
  | .num k => some k
  | .named _ => none

def nums (st : St) : List Nat := (ids st).filterMap numOf

def hasNamed (st : St) : Bool := (ids st).any fun r => (numOf r).isNone
def hasNumbered (st : St) : Bool := (ids st).any fun r => (numOf r).isSome

def maxList (l : List Nat) : Nat := l.foldl max 0

/-- `get_next_rundir_number`: one more than the target of `runN` if the link is there, else one more
than the highest numbered run directory (1 when there is none) -/
def nextNum (st : St) : Nat :=
  match st.runN with
  | some k => k + 1
  | none => maxList (nums st) + 1

/-- `~/cylc-run/<workflow>` exists -/
def baseExists (st : St) : Bool := !st.runs.isEmpty || st.flat.isSome

def nameOk (s : String) : Bool := okRunNames.contains s

/-- `clean(<wf>/<run>)`: remove the directory; remove `runN` if it pointed at it (a directory that
is not there is not an error) -/
def cleanRun (st : St) (r : RunId) : St :=
  if (ids st).contains r then
    { st with runs := st.runs.filter (fun x => x.1 != r),
              runN := match st.runN with
                | some k => if r == .num k then none else some k
                | none => none }
  else st

def step (st : St) (stamp : Nat) : Op → St × Res
  | .install =>
    -- get_run_dir_info: named runs present -> error before anything is touched
    if hasNamed st then (st, .err)
    else
      let k := nextNum st
      let st1 := { st with runN := none }            -- unlink_runN happens before the remaining checks
      if st.flat.isSome then (st1, .err)             -- check_nested_dirs: the workflow dir is a run dir
      else if (ids st).contains (.num k) then (st1, .err)     -- "already exists"
      else ({ st1 with runs := st.runs ++ [(.num k, stamp)], runN := some k }, .ok (some (.num k)))
  | .installNamed s =>
    if !nameOk s then (st, .err)                     -- reserved / invalid run name
    else if hasNumbered st then (st, .err)           -- "--run-name option not allowed"
    else if st.flat.isSome then (st, .err)
    else if (ids st).contains (.named s) then (st, .err)
    else ({ st with runs := st.runs ++ [(.named s, stamp)] }, .ok (some (.named s)))
  | .installFlat =>
    if baseExists st then (st, .err)
    else ({ st with flat := some stamp }, .ok none)
  | .clean r => (cleanRun st r, .ok none)
  | .cleanAll => (if baseExists st then init else st, .ok none)
  | .cleanRunN =>
    match st.runN with
    | some k => (cleanRun st (.num k), .ok none)
    | none => (st, .ok none)
  | .reinstall r =>
    if (ids st).contains r then
      ({ st with runs := st.runs.map fun x => if x.1 == r then (r, stamp) else x }, .ok (some r))
    else (st, .err)
  | .reinstallFlat =>
    match st.flat with
    | some _ => ({ st with flat := some stamp }, .ok none)
    | none => (st, .err)
  | .rmRunN => ({ st with runN := none }, .ok none)
  | .relink k => (if (ids st).contains (.num k) then { st with runN := some k } else st, .ok none)

/-- run a history from `st`; operation number `i` (counted from `i0`) uses stamp `i + 1`;
returns the state and result after every operation -/
def runFrom (st : St) (i0 : Nat) : List Op → List (St × Res)
  | [] => []
  | op :: ops =>
    let r := step st (i0 + 1) op
    r :: runFrom r.1 (i0 + 1) ops

def run (ops : List Op) : List (St × Res) := runFrom init 0 ops

/-- final state of a history -/
def finalFrom (st : St) (i0 : Nat) : List Op → St
  | [] => st
  | op :: ops => finalFrom (step st (i0 + 1) op).1 (i0 + 1) ops

/-- numbers issued by the successful numbered installs of a history, in order -/
def issuedFrom (st : St) (i0 : Nat) : List Op → List Nat
  | [] => []
  | op :: ops =>
    let r := step st (i0 + 1) op
    let rest := issuedFrom r.1 (i0 + 1) ops
    match op, r.2 with
    | .install, .ok (some (.num k)) => k :: rest
    | _, _ => rest

end CylcModel.Install
