/-
Lemmas about the `Sched3Crash` model (C20): how the scheduler's primitives touch the database part of the state.

`DStep s s'`: `s'` is reached from `s` by memory-only changes, by queueing database operations that leave a queued
task-pool write alone, and by commit boundaries (`commit`, or `put_task_pool` immediately followed by `commit`).
Every primitive of the model is such a step (one lemma per primitive), so any predicate closed under the three
generators is an invariant of every run segment: the process stays alive while no fuse burns (`Alive`), a task-pool
write is never left queued (`QP`), a dead process commits nothing (`Frozen`).
-/
import CylcModel.Sched3Crash

namespace CylcModel.Sched3Crash

/-! ### Generic lifting -/

theorem foldl_inv {α σ} (P : σ → Prop) (f : σ → α → σ) (h : ∀ s a, P s → P (f s a)) :
    ∀ (l : List α) (s : σ), P s → P (l.foldl f s) := by
  intro l; induction l with
  | nil => intro s hs; exact hs
  | cons a l ih => intro s hs; exact ih _ (h s a hs)

/-- every state of a run satisfies `P` when the start-up state does and every step preserves it -/
theorem run_inv (P : State → Prop) (g : Graph) (h0 : P (init g)) (hs : ∀ s op, P s → P (step g s op)) :
    ∀ ops, ∀ s ∈ run g ops, P s := by
  intro ops
  unfold run
  have key : ∀ (ops : List Op) (acc : List State) (cur : State),
      (∀ s ∈ acc, P s) → P cur →
      ∀ s ∈ (ops.foldl (fun (a : List State × State) op =>
          let s' := step g a.2 op; (a.1 ++ [s'], s')) (acc, cur)).1, P s := by
    intro ops
    induction ops with
    | nil => intro acc cur hacc _ s hm; exact hacc s hm
    | cons op ops ih =>
      intro acc cur hacc hcur
      simp only [List.foldl_cons]
      apply ih
      · intro s hm
        rcases List.mem_append.mp hm with h | h
        · exact hacc s h
        · simp at h; subst h; exact hs _ _ hcur
      · exact hs _ _ hcur
  exact key ops [init g] (init g) (by intro s hm; simp at hm; subst hm; exact h0) h0

/-! ### Steps of the database part -/

inductive DStep : State → State → Prop
  /-- memory changes and queued operations other than a task-pool write -/
  | quiet {s s' : State} : s'.dead = s.dead → s'.fuse = s.fuse → s'.cdb = s.cdb → s'.q.pool = s.q.pool → DStep s s'
  | commit (s : State) : DStep s (commit s)
  /-- `put_task_pool`, memory changes, then the commit -/
  | commitPool {s s1 : State} : s1.dead = s.dead → s1.fuse = s.fuse → s1.cdb = s.cdb → s1.q = (putTaskPool s).q →
      DStep s (CylcModel.Sched3Crash.commit s1)
  | trans {a b c : State} : DStep a b → DStep b c → DStep a c

theorem DStep.refl (s : State) : DStep s s := DStep.quiet rfl rfl rfl rfl

theorem dstep_foldl {α} (f : State → α → State) (h : ∀ s a, DStep s (f s a)) :
    ∀ (l : List α) (s : State), DStep s (l.foldl f s) := by
  intro l; induction l with
  | nil => intro s; exact DStep.refl s
  | cons a l ih => intro s; exact DStep.trans (h s a) (ih _)

/-- a fold whose accumulator carries the state in its first component -/
theorem dstep_foldl_fst {α β} (f : State × β → α → State × β) (h : ∀ acc a, DStep acc.1 (f acc a).1) :
    ∀ (l : List α) (acc : State × β), DStep acc.1 (l.foldl f acc).1 := by
  intro l; induction l with
  | nil => intro acc; exact DStep.refl _
  | cons a l ih => intro acc; exact DStep.trans (h acc a) (ih _)

/-- a predicate closed under the generators is preserved along `DStep` -/
theorem dstep_inv (P : State → Prop)
    (hq : ∀ s s' : State, s'.dead = s.dead → s'.fuse = s.fuse → s'.cdb = s.cdb → s'.q.pool = s.q.pool → P s → P s')
    (hc : ∀ s, P s → P (commit s))
    (hp : ∀ s s1 : State, s1.dead = s.dead → s1.fuse = s.fuse → s1.cdb = s.cdb → s1.q = (putTaskPool s).q → P s →
      P (commit s1)) :
    ∀ {s s'}, DStep s s' → P s → P s' := by
  intro s s' h
  induction h with
  | quiet h1 h2 h3 h4 => exact hq _ _ h1 h2 h3 h4
  | commit s => exact hc s
  | commitPool h1 h2 h3 h4 => exact hp _ _ h1 h2 h3 h4
  | trans _ _ ih1 ih2 => exact fun h => ih2 (ih1 h)

/-! ### one lemma per primitive -/

theorem dstep_put (s : State) (x : Proxy) : DStep s (s.put x) := DStep.quiet rfl rfl rfl rfl

theorem dstep_add (s : State) (x : Proxy) : DStep s (s.add x) := by
  unfold State.add; split
  · exact DStep.refl s
  · exact DStep.quiet rfl rfl rfl rfl

theorem dstep_dbInsert (s : State) (x : Proxy) : DStep s (dbInsert s x) := DStep.quiet rfl rfl rfl rfl

theorem dstep_dbQueue (s : State) (k : UpdKind) (x : Proxy) (o : List String) : DStep s (dbQueue s k x o) :=
  DStep.quiet rfl rfl rfl rfl

theorem dstep_dbUpdateOutputs (g : Graph) (s : State) (x : Proxy) : DStep s (dbUpdateOutputs g s x) :=
  dstep_dbQueue _ _ _ _

theorem dstep_dbPutHold (s : State) : DStep s (dbPutHold s) := DStep.quiet rfl rfl rfl rfl

theorem putTaskPool_proj (s : State) :
    (putTaskPool s).dead = s.dead ∧ (putTaskPool s).fuse = s.fuse ∧ (putTaskPool s).cdb = s.cdb := by
  unfold putTaskPool
  simp only
  have : ∀ (l : List Proxy) (st : State),
      (l.foldl (fun st x => if x.upd then dbQueue st .pool x else st) st).dead = st.dead ∧
      (l.foldl (fun st x => if x.upd then dbQueue st .pool x else st) st).fuse = st.fuse ∧
      (l.foldl (fun st x => if x.upd then dbQueue st .pool x else st) st).cdb = st.cdb := by
    intro l
    induction l with
    | nil => intro st; exact ⟨rfl, rfl, rfl⟩
    | cons x l ih =>
      intro st
      simp only [List.foldl_cons]
      by_cases hx : x.upd = true
      · simp only [hx, if_true]
        exact ih (dbQueue st .pool x)
      · simp only [hx]
        exact ih st
  exact this s.pool s

theorem putTaskPool_dead (s : State) : (putTaskPool s).dead = s.dead := (putTaskPool_proj s).1
theorem putTaskPool_fuse (s : State) : (putTaskPool s).fuse = s.fuse := (putTaskPool_proj s).2.1
theorem putTaskPool_cdb (s : State) : (putTaskPool s).cdb = s.cdb := (putTaskPool_proj s).2.2

theorem dstep_commitP (b : Bool) (s : State) : DStep s (commitP b s) := by
  unfold commitP; split
  · exact DStep.commitPool (putTaskPool_dead s) (putTaskPool_fuse s) (putTaskPool_cdb s) rfl
  · exact DStep.commit s

theorem dstep_holdNew (s : State) (n : String) (p : Int) (y : Proxy) : DStep s (holdNew s n p y).1 := by
  unfold holdNew
  repeat' split
  all_goals first | exact DStep.refl _ | exact DStep.quiet rfl rfl rfl rfl

theorem dstep_spawnTask (g : Graph) (s : State) (n : String) (p : Int) : DStep s (spawnTask g s n p).1 := by
  unfold spawnTask
  repeat' split
  all_goals first
    | exact DStep.refl _
    | exact DStep.quiet rfl rfl rfl rfl
    | exact DStep.trans (dstep_dbInsert _ _) (DStep.trans (dstep_holdNew _ _ _ _) (dstep_dbInsert _ _))
    | exact dstep_holdNew _ _ _ _

theorem dstep_spawnAndAdd (g : Graph) (s : State) (n : String) (p : Int) : DStep s (spawnAndAdd g s n p) := by
  unfold spawnAndAdd
  split
  · exact DStep.refl s
  · have h := dstep_spawnTask g s n p
    split
    · rename_i s' x he
      rw [he] at h
      exact DStep.trans h (dstep_add _ _)
    · rename_i s' he
      rw [he] at h
      exact h

theorem dstep_spawnNextParentless (g : Graph) (s : State) (x : Proxy) : DStep s (spawnNextParentless g s x) := by
  unfold spawnNextParentless
  repeat' split
  all_goals first | exact DStep.refl _ | exact dstep_spawnAndAdd _ _ _ _

theorem dstep_computeRunahead (g : Graph) (s : State) (f : Bool) : DStep s (computeRunahead g s f) := by
  unfold computeRunahead
  simp only
  repeat' split
  all_goals first | exact DStep.refl _ | exact DStep.quiet rfl rfl rfl rfl

theorem dstep_releaseRunahead (g : Graph) (s : State) : DStep s (releaseRunahead g s).1 := by
  unfold releaseRunahead
  split
  · exact DStep.refl s
  · split
    · exact DStep.refl s
    · simp only
      apply dstep_foldl
      intro st x
      refine DStep.trans ?_ (dstep_spawnNextParentless _ _ _)
      split
      · exact dstep_put _ _
      · exact DStep.refl _

theorem dstep_releaseRunaheadN (g : Graph) : ∀ (n : Nat) (s : State), DStep s (releaseRunaheadN g n s) := by
  intro n; induction n with
  | zero => intro s; exact DStep.refl s
  | succ n ih =>
    intro s
    unfold releaseRunaheadN
    have h := dstep_releaseRunahead g s
    generalize releaseRunahead g s = r at h
    obtain ⟨s', b⟩ := r
    simp only
    split
    · exact DStep.trans h (ih _)
    · exact h

theorem dstep_queueIfReady (s : State) (x : Proxy) : DStep s (queueIfReady s x) := by
  unfold queueIfReady; split
  · exact dstep_put _ _
  · exact DStep.refl s

theorem dstep_holdActive (s : State) (x : Proxy) : DStep s (holdActive s x) := by
  unfold holdActive
  simp only
  refine DStep.trans ?_ (dstep_dbPutHold _)
  split
  · exact dstep_put _ _
  · exact DStep.quiet rfl rfl rfl rfl

theorem dstep_releaseHeldActive (s : State) (x : Proxy) : DStep s (releaseHeldActive s x) := by
  unfold releaseHeldActive
  simp only
  refine DStep.trans ?_ (dstep_dbPutHold _)
  split
  · exact DStep.quiet rfl rfl rfl rfl
  · exact DStep.quiet rfl rfl rfl rfl

theorem dstep_loadFromPoint (g : Graph) : DStep ({ stopPoint := g.stopPoint } : State) (loadFromPoint g) := by
  unfold loadFromPoint
  simp only
  refine DStep.trans (DStep.trans (DStep.trans (dstep_foldl _ ?_ _ _) (dstep_computeRunahead _ _ _))
    (dstep_releaseRunaheadN _ _ _)) (dstep_foldl _ ?_ _ _)
  · intro st t
    split
    · exact dstep_spawnAndAdd _ _ _ _
    · exact DStep.refl _
  · intro st x
    split
    · exact dstep_queueIfReady _ _
    · exact DStep.refl _

theorem dstep_releaseAndSubmit (s : State) : DStep s (releaseAndSubmit s) := by
  unfold releaseAndSubmit
  simp only
  split
  · exact DStep.refl s
  · refine DStep.trans (dstep_foldl _ ?_ _ _) (DStep.quiet rfl rfl rfl rfl)
    intro st x
    exact DStep.quiet rfl rfl rfl rfl

theorem dstep_dropFromPool (s : State) (x : Proxy) : DStep s (dropFromPool s x) := DStep.quiet rfl rfl rfl rfl

theorem dstep_remove (g : Graph) (s : State) (x : Proxy) : DStep s (remove g s x) := by
  unfold remove
  simp only
  refine DStep.trans ?_ (dstep_commitP _ _)
  refine DStep.trans ?_ (dstep_dbQueue _ _ _ _)
  refine DStep.trans ?_ (dstep_dropFromPool _ _)
  split
  · exact DStep.trans (dstep_releaseHeldActive s x) (dstep_spawnNextParentless _ _ _)
  · exact dstep_releaseHeldActive s x

theorem dstep_removeIfComplete (g : Graph) (s : State) (x : Proxy) : DStep s (removeIfComplete g s x) := by
  unfold removeIfComplete
  split
  · exact DStep.refl s
  · simp only
    have h1 : DStep s (if s.stopTask == some (x.pt, x.name) then { s with stopTaskFinished := true } else s) := by
      split
      · exact DStep.quiet rfl rfl rfl rfl
      · exact DStep.refl s
    split
    · exact h1
    · split
      · exact DStep.trans h1 (dstep_remove _ _ _)
      · exact h1

theorem dstep_recordAbs (g : Graph) (s : State) (a : Atom) (b : Bool) : DStep s (recordAbs g s a b) := by
  unfold recordAbs
  split
  · refine DStep.trans ?_ (dstep_commitP _ _)
    exact DStep.quiet rfl rfl rfl rfl
  · exact DStep.refl s

theorem dstep_findOrSpawnChild (g : Graph) (s : State) (c : Child) : DStep s (findOrSpawnChild g s c).1 := by
  unfold findOrSpawnChild
  split
  · exact DStep.refl s
  · exact dstep_spawnTask _ _ _ _

theorem dstep_satisfyTargets (a : Atom) (ts : List (Int × String)) (acc : State × List (Int × String)) :
    DStep acc.1 (satisfyTargets a ts acc).1 := by
  unfold satisfyTargets
  apply dstep_foldl_fst
  intro acc k
  split
  · exact DStep.refl _
  · exact dstep_put _ _

theorem dstep_spawnChild (g : Graph) (p : Int) (n out : String) (acc : State × List (Int × String)) (c : Child) :
    DStep acc.1 (spawnChild g p n out acc c).1 := by
  unfold spawnChild
  simp only
  have h1 := dstep_recordAbs g acc.1 ⟨p, n, out⟩ c.isAbs
  have h2 := dstep_findOrSpawnChild g (recordAbs g acc.1 ⟨p, n, out⟩ c.isAbs) c
  split
  · exact DStep.trans h1 h2
  · refine DStep.trans (DStep.trans h1 h2) ?_
    refine DStep.trans ?_ (dstep_satisfyTargets _ _ _)
    simp only
    split
    · exact DStep.refl _
    · exact dstep_add _ _

theorem dstep_removeSuicides (g : Graph) (s : State) (ks : List (Int × String)) : DStep s (removeSuicides g s ks) := by
  unfold removeSuicides
  apply dstep_foldl
  intro st k
  split
  · exact dstep_remove _ _ _
  · exact DStep.refl _

theorem dstep_spawnOnOutput (g : Graph) (s : State) (p : Int) (n out : String) : DStep s (spawnOnOutput g s p n out) := by
  unfold spawnOnOutput
  split
  · exact DStep.refl s
  · rename_i x _
    simp only
    have h1 : DStep s ((if x.flows.isEmpty then [] else childrenOf g x out).foldl (spawnChild g p n out) (s, [])).1 :=
      dstep_foldl_fst _ (fun acc c => dstep_spawnChild g p n out acc c) _ (s, [])
    generalize (if x.flows.isEmpty then [] else childrenOf g x out).foldl (spawnChild g p n out) (s, []) = R at h1
    have h2 : DStep s (if R.2.isEmpty then removeSuicides g R.1 R.2 else commitP g.poolAtSuicide (removeSuicides g R.1 R.2)) := by
      split
      · exact DStep.trans h1 (dstep_removeSuicides _ _ _)
      · exact DStep.trans h1 (DStep.trans (dstep_removeSuicides _ _ _) (dstep_commitP _ _))
    generalize (if R.2.isEmpty then removeSuicides g R.1 R.2 else commitP g.poolAtSuicide (removeSuicides g R.1 R.2)) = s4 at h2
    split
    · exact DStep.trans h2 (dstep_removeIfComplete _ _ _)
    · exact h2

theorem dstep_store (s : State) (x : Proxy) (tr : Bool) : DStep s (store s x tr) := by
  unfold store
  split
  · exact DStep.quiet rfl rfl rfl rfl
  · exact dstep_put _ _

theorem dstep_spawnChildren (g : Graph) (s : State) (p : Int) (n out : String) (tr : Bool) :
    DStep s (spawnChildren g s p n out tr) := by
  unfold spawnChildren
  simp only
  have h1 : DStep s (match lookup s p n with | some xt => dbUpdateOutputs g s xt.1 | none => s) := by
    split
    · exact dstep_dbUpdateOutputs _ _ _
    · exact DStep.refl s
  split
  · exact h1
  · exact DStep.trans h1 (dstep_spawnOnOutput _ _ _ _ _)

theorem dstep_handleMessage (g : Graph) (s : State) (p : Int) (n : String) (flag : Flag) (msg : String)
    (c : Option Bool) (x : Proxy) (tr : Bool) : DStep s (handleMessage g s p n flag msg c x tr).1 := by
  unfold handleMessage
  repeat' split
  all_goals first
    | exact DStep.refl _
    | exact dstep_store _ _ _
    | exact dstep_spawnChildren _ _ _ _ _ _
    | exact DStep.trans (dstep_store _ _ _) (dstep_spawnChildren _ _ _ _ _ _)

theorem dstep_processMessage (g : Graph) : ∀ (fuel : Nat) (s : State) (p : Int) (n : String) (flag : Flag) (sn : Nat)
    (msg : String), DStep s (processMessage g fuel s p n flag sn msg).1 := by
  intro fuel
  induction fuel with
  | zero => intro s p n flag sn msg; unfold processMessage; exact DStep.refl s
  | succ fuel ih =>
    intro s p n flag sn msg
    unfold processMessage
    split
    · exact DStep.refl s
    · rename_i xt _
      split
      · exact DStep.refl s
      · simp only
        have h1 : DStep s ((impliedOutputs msg (completeOutput g xt.1 msg).1).foldl
            (fun st m => (processMessage g fuel st p n .internal sn m).1) (store s (completeOutput g xt.1 msg).1 xt.2)) :=
          DStep.trans (dstep_store _ _ _) (dstep_foldl _ (fun st m => ih st p n .internal sn m) _ _)
        generalize (impliedOutputs msg (completeOutput g xt.1 msg).1).foldl
            (fun st m => (processMessage g fuel st p n .internal sn m).1) (store s (completeOutput g xt.1 msg).1 xt.2) = s2 at h1
        split
        · exact h1
        · exact DStep.trans h1 (dstep_handleMessage _ _ _ _ _ _ _ _ _)

theorem dstep_processOne (g : Graph) (p : Int) (n : String) (acc : State × Bool) (m : Msg) :
    DStep acc.1 (processOne g p n acc m).1 := by
  unfold processOne
  exact dstep_processMessage _ _ _ _ _ _ _ _

theorem dstep_processGroup (g : Graph) (s : State) (grp : (Int × String) × List Msg) : DStep s (processGroup g s grp) := by
  unfold processGroup
  split
  · exact DStep.refl s
  · simp only
    have h1 : DStep s (grp.2.foldl (processOne g grp.1.1 grp.1.2) (s, false)).1 :=
      dstep_foldl_fst _ (fun acc m => dstep_processOne g _ _ acc m) _ (s, false)
    split
    · exact DStep.trans h1 (DStep.quiet rfl rfl rfl rfl)
    · exact h1

theorem dstep_processQueue (g : Graph) (s : State) : DStep s (processQueue g s) := by
  unfold processQueue
  refine DStep.trans ?_ (dstep_foldl _ (fun st grp => dstep_processGroup g st grp) _ _)
  exact DStep.quiet rfl rfl rfl rfl

theorem dstep_checkStalled (g : Graph) (s : State) : DStep s (checkStalled g s) := by
  unfold checkStalled
  repeat' split
  all_goals first | exact DStep.refl _ | exact DStep.quiet rfl rfl rfl rfl

theorem dstep_checkAutoShutdown (g : Graph) (s : State) : DStep s (checkAutoShutdown g s).1 := by
  unfold checkAutoShutdown
  split
  · exact DStep.refl s
  · simp only
    split
    · exact dstep_checkStalled _ _
    · split
      · exact dstep_checkStalled _ _
      · exact DStep.trans (dstep_checkStalled g s) (DStep.quiet rfl rfl rfl rfl)

theorem dstep_sweepQueue (s : State) : DStep s (sweepQueue s) := by
  unfold sweepQueue
  apply dstep_foldl
  intro st x
  split
  · split
    · simp only
      exact DStep.trans (dstep_put _ _) (dstep_queueIfReady _ _)
    · exact DStep.refl _
  · exact DStep.refl _

theorem dstep_stopTaskDone (s : State) : DStep s (stopTaskDone s).1 := by
  unfold stopTaskDone
  split
  · exact DStep.quiet rfl rfl rfl rfl
  · exact DStep.refl s

theorem dstep_finishLoop (g : Graph) (s : State) : DStep s (finishLoop g s) := by
  unfold finishLoop
  simp only
  have h1 : DStep s (if s.pool.any (·.upd) then { s with restartWait := false } else s) := by
    split
    · exact DStep.quiet rfl rfl rfl rfl
    · exact DStep.refl s
  generalize (if s.pool.any (·.upd) then { s with restartWait := false } else s) = s1 at h1
  have h2 : DStep s1 (commit (if (s.schedUpd || s.pool.any (·.upd)) then clearUpd (putTaskPool s1) else putTaskPool s1)) := by
    split
    · exact DStep.commitPool (putTaskPool_dead s1) (putTaskPool_fuse s1) (putTaskPool_cdb s1) rfl
    · exact DStep.commitPool (putTaskPool_dead s1) (putTaskPool_fuse s1) (putTaskPool_cdb s1) rfl
  generalize commit (if (s.schedUpd || s.pool.any (·.upd)) then clearUpd (putTaskPool s1) else putTaskPool s1) = s3 at h2 ⊢
  split
  · exact DStep.trans h1 (DStep.trans h2 (dstep_checkStalled _ _))
  · exact DStep.trans h1 h2

theorem dstep_mainLoop (g : Graph) (s : State) : DStep s (mainLoop g s) := by
  unfold mainLoop
  split
  · exact DStep.refl s
  · simp only
    have h1 : DStep s (releaseRunahead g (computeRunahead g s)).1 :=
      DStep.trans (dstep_computeRunahead _ _ _) (dstep_releaseRunahead _ _)
    generalize (releaseRunahead g (computeRunahead g s)).1 = s1 at h1
    have h2 : DStep s1 (if s1.stopMode.isNone then
        match stopTaskDone s1 with
        | (s, std) =>
          if std then { s with stopMode := some "AUTOMATIC" }
          else
            match checkAutoShutdown g s with
            | (s, auto) => if auto then { s with stopMode := some "AUTOMATIC" } else s
      else s1) := by
      split
      · have ha := dstep_stopTaskDone s1
        generalize stopTaskDone s1 = r at ha
        obtain ⟨sa, std⟩ := r
        simp only
        split
        · exact DStep.trans ha (DStep.quiet rfl rfl rfl rfl)
        · have hb := dstep_checkAutoShutdown g sa
          generalize checkAutoShutdown g sa = r2 at hb
          obtain ⟨sb, auto⟩ := r2
          simp only
          split
          · exact DStep.trans ha (DStep.trans hb (DStep.quiet rfl rfl rfl rfl))
          · exact DStep.trans ha hb
      · exact DStep.refl s1
    generalize (if s1.stopMode.isNone then
        match stopTaskDone s1 with
        | (s, std) =>
          if std then { s with stopMode := some "AUTOMATIC" }
          else
            match checkAutoShutdown g s with
            | (s, auto) => if auto then { s with stopMode := some "AUTOMATIC" } else s
      else s1) = s2 at h2
    split
    · exact DStep.trans h1 (DStep.trans h2 (DStep.quiet rfl rfl rfl rfl))
    · refine DStep.trans h1 (DStep.trans h2 ?_)
      refine DStep.trans ?_ (dstep_finishLoop _ _)
      refine DStep.trans ?_ (dstep_processQueue _ _)
      refine DStep.trans (dstep_sweepQueue s2) ?_
      split
      · exact dstep_releaseAndSubmit _
      · exact DStep.refl _

theorem dstep_setStopPoint (s : State) (p : Int) : DStep s (setStopPoint s p) := by
  unfold setStopPoint
  simp only
  repeat' split
  all_goals first | exact DStep.refl _ | exact DStep.quiet rfl rfl rfl rfl

theorem dstep_setHoldPoint (s : State) (p : Int) : DStep s (setHoldPoint s p) := by
  unfold setHoldPoint
  simp only
  refine DStep.trans (b := s.pool.foldl (fun st x => if x.pt > p then
      match st.get? x.pt x.name with | some y => holdActive st y | none => st
    else st) { s with holdPoint := some p }) ?_ (DStep.quiet rfl rfl rfl rfl)
  refine DStep.trans (b := { s with holdPoint := some p }) (DStep.quiet rfl rfl rfl rfl) (dstep_foldl _ ?_ _ _)
  intro st x
  repeat' split
  all_goals first | exact DStep.refl _ | exact dstep_holdActive _ _

theorem dstep_holdTasks (s : State) (ids : List (Int × String)) : DStep s (holdTasks s ids) := by
  unfold holdTasks
  refine DStep.trans (dstep_foldl _ ?_ _ _) (dstep_dbPutHold _)
  intro st k
  repeat' split
  all_goals first | exact DStep.refl _ | exact dstep_holdActive _ _ | exact DStep.quiet rfl rfl rfl rfl

theorem dstep_releaseTasks (s : State) (ids : List (Int × String)) : DStep s (releaseTasks s ids) := by
  unfold releaseTasks
  refine DStep.trans (dstep_foldl _ ?_ _ _) (dstep_dbPutHold _)
  intro st k
  repeat' split
  all_goals first | exact DStep.refl _ | exact dstep_releaseHeldActive _ _ | exact DStep.quiet rfl rfl rfl rfl

theorem dstep_releaseHoldPoint (s : State) : DStep s (releaseHoldPoint s) := by
  unfold releaseHoldPoint
  simp only
  refine DStep.trans (b := dbPutHold { (s.pool.foldl (fun st x => match st.get? x.pt x.name with
    | some y => releaseHeldActive st y | none => st) { s with holdPoint := none }) with tasksToHold := [] }) ?_
      (DStep.quiet rfl rfl rfl rfl)
  refine DStep.trans ?_ (dstep_dbPutHold _)
  refine DStep.trans (b := s.pool.foldl (fun st x => match st.get? x.pt x.name with
    | some y => releaseHeldActive st y | none => st) { s with holdPoint := none }) ?_ (DStep.quiet rfl rfl rfl rfl)
  refine DStep.trans (b := { s with holdPoint := none }) (DStep.quiet rfl rfl rfl rfl) (dstep_foldl _ ?_ _ _)
  intro st x
  split
  · exact dstep_releaseHeldActive _ _
  · exact DStep.refl _

theorem dstep_clearOp (s : State) : DStep s (clearOp s) := DStep.quiet rfl rfl rfl rfl

/-! ### Invariants of the database part -/

/-- no fuse burns and the process is alive -/
def Alive (s : State) : Prop := s.fuse = none ∧ s.dead = false

/-- a task-pool write is never left queued (unless the process has died) -/
def QP (s : State) : Prop := s.dead = true ∨ s.q.pool = none

/-- the state of the scheduler between two ops -/
def Live (s : State) : Prop := s.fuse = none ∧ s.dead = false ∧ s.q.pool = none

theorem commit_alive (s : State) (h : Alive s) : Alive (commit s) ∧ (commit s).q.pool = none := by
  unfold commit
  simp only [h.2, h.1]
  exact ⟨⟨rfl, rfl⟩, rfl⟩

theorem alive_dstep {s s' : State} (h : DStep s s') (ha : Alive s) : Alive s' := by
  refine dstep_inv Alive ?_ ?_ ?_ h ha
  · intro s s' h1 h2 _ _ hs; exact ⟨h2.trans hs.1, h1.trans hs.2⟩
  · intro s hs; exact (commit_alive s hs).1
  · intro s s1 h1 h2 _ _ hs; exact (commit_alive s1 ⟨h2.trans hs.1, h1.trans hs.2⟩).1

theorem commit_qp (s : State) : QP (commit s) := by
  unfold commit QP
  split
  · rename_i hd; exact Or.inl hd
  · split
    · exact Or.inl rfl
    · exact Or.inr rfl
    · exact Or.inr rfl

theorem qp_dstep {s s' : State} (h : DStep s s') (hq : QP s) : QP s' := by
  refine dstep_inv QP ?_ ?_ ?_ h hq
  · intro s s' h1 _ _ h4 hs
    rcases hs with hs | hs
    · exact Or.inl (h1.trans hs)
    · exact Or.inr (h4.trans hs)
  · intro s _; exact commit_qp s
  · intro s s1 _ _ _ _ _; exact commit_qp s1

theorem live_dstep {s s' : State} (h : DStep s s') (hl : Live s) : Live s' := by
  have ha := alive_dstep h ⟨hl.1, hl.2.1⟩
  have hq := qp_dstep h (Or.inr hl.2.2)
  refine ⟨ha.1, ha.2, ?_⟩
  rcases hq with hq | hq
  · rw [ha.2] at hq; exact absurd hq (by simp)
  · exact hq

/-- **a dead process commits nothing**: whatever the model still computes after the death leaves the database alone -/
theorem dead_dstep {s s' : State} (h : DStep s s') (hd : s.dead = true) : s'.dead = true ∧ s'.cdb = s.cdb := by
  have key : ∀ {a b : State}, DStep a b → a.dead = true → b.dead = true ∧ b.cdb = a.cdb := by
    intro a b hab
    induction hab with
    | quiet h1 _ h3 _ => intro ha; exact ⟨h1.trans ha, h3⟩
    | commit a => intro ha; unfold commit; simp [ha]
    | @commitPool a a1 h1 _ h3 _ =>
      intro ha
      have hd1 : a1.dead = true := h1.trans ha
      unfold commit; simp only [hd1, if_true]; exact ⟨trivial, h3⟩
    | trans _ _ ih1 ih2 =>
      intro ha
      have h1 := ih1 ha
      have h2 := ih2 h1.1
      exact ⟨h2.1, h2.2.trans h1.2⟩
  exact key h hd

/-! ### start-up, restart and the ops -/

theorem live_startCommit (g : Graph) (s : State) (h : Alive s) : Live (startCommit g s) ∧ (startCommit g s).q = {} := by
  have h3 : Alive (if g.poolAtStart then putTaskPool s else s) := by
    split
    · exact ⟨(putTaskPool_fuse s).trans h.1, (putTaskPool_dead s).trans h.2⟩
    · exact h
  unfold startCommit
  exact ⟨⟨h3.1, h3.2, rfl⟩, rfl⟩

theorem dstep_reapplyHold (s : State) : DStep s (reapplyHold s) := by
  unfold reapplyHold
  split
  · exact dstep_setHoldPoint _ _
  · exact DStep.refl s

/-- a newly started scheduler is alive, with no fuse and an empty database queue -/
theorem live_startFrom (g : Graph) (s : State) : Live (startFrom g s) ∧ (startFrom g s).q = {} := by
  unfold startFrom
  apply live_startCommit
  exact alive_dstep (dstep_reapplyHold _) ⟨rfl, rfl⟩

theorem live_showDb (s : State) (h : Live s) : Live (showDb s) := by
  unfold showDb; split
  · exact h
  · exact h

theorem live_crashRestart (g : Graph) (s : State) : Live (crashRestart g s) := by
  have h := (live_startFrom g s).1
  unfold crashRestart
  exact h

theorem live_loopCrash (g : Graph) (c : State) (k : Nat) (hc : Live c) : Live (loopCrash g c k) := by
  unfold loopCrash
  simp only
  have hq : QP (mainLoop g { c with fuse := some k }) := qp_dstep (dstep_mainLoop g _) (Or.inr hc.2.2)
  generalize mainLoop g { c with fuse := some k } = m at hq
  by_cases hd : m.dead = true
  · rw [if_pos hd]; exact live_crashRestart g m
  · rw [if_neg hd]
    have hd' : m.dead = false := by cases h : m.dead <;> simp_all
    rcases hq with hq | hq
    · exact absurd hq hd
    · exact ⟨rfl, hd', hq⟩

theorem live_init (g : Graph) : Live (init g) := by
  unfold init
  exact (live_startCommit g _ (alive_dstep (dstep_loadFromPoint g) ⟨rfl, rfl⟩)).1

/-- the ops that neither restart nor kill the scheduler are steps of the database part -/
theorem live_step (g : Graph) (s : State) (op : Op) (h : Live s) : Live (step g s op) := by
  have hc : Live (clearOp s) := live_dstep (dstep_clearOp s) h
  unfold step
  simp only
  generalize clearOp s = c at hc
  cases op with
  | loop => exact live_showDb _ (live_dstep (dstep_mainLoop g c) hc)
  | subres p n ok sn => exact live_dstep (dstep_processMessage _ _ _ _ _ _ _ _) hc
  | msg p n sn text => exact hc
  | hold ids => exact live_dstep (dstep_holdTasks _ _) hc
  | release ids => exact live_dstep (dstep_releaseTasks _ _) hc
  | setHoldPoint p => exact live_dstep (dstep_setHoldPoint _ _) hc
  | releaseHoldPoint => exact live_dstep (dstep_releaseHoldPoint _) hc
  | stop mode => exact hc
  | stopPoint p => exact live_dstep (dstep_setStopPoint _ _) hc
  | stopTask p n => exact hc
  | pause => simp only; split <;> exact hc
  | resume => simp only; split <;> exact hc
  | restart => exact (live_startFrom g _).1
  | crash => exact live_crashRestart g c
  | loopCrash k => exact live_showDb _ (live_loopCrash g c k hc)
  | pollres p n sn text =>
    simp only
    split
    · exact live_dstep (dstep_processMessage _ _ _ _ _ _ _ _) hc
    · exact hc

/-- **between ops the scheduler is alive, no fuse burns and no task-pool write is pending**, in every state of
every run (all graphs, all op lists, kill points included) -/
theorem live_run (g : Graph) (ops : List Op) : ∀ s ∈ run g ops, Live s :=
  run_inv Live g (live_init g) (fun s op h => live_step g s op h) ops

/-! ### what a restart restores -/

def keys (s : State) : List (Int × String) := s.pool.map fun x => (x.pt, x.name)

theorem keys_put (s : State) (x : Proxy) : keys (s.put x) = keys s := by
  unfold keys State.put
  simp only [List.map_map]
  apply List.map_congr_left
  intro y _
  simp only [Function.comp]
  split
  · rename_i h
    simp only [Bool.and_eq_true, beq_iff_eq] at h
    rw [h.1, h.2]
  · rfl

/-- the part of the state that the re-application of the hold point at start-up leaves alone: the instances of the
pool, the committed database and the queued row / pool / absolute-output operations -/
structure SameCore (s s' : State) : Prop where
  keys : keys s' = keys s
  cdb : s'.cdb = s.cdb
  ins : s'.q.ins = s.q.ins
  upd : s'.q.upd = s.q.upd
  pool : s'.q.pool = s.q.pool
  abs : s'.q.abs = s.q.abs

theorem SameCore.refl (s : State) : SameCore s s := ⟨rfl, rfl, rfl, rfl, rfl, rfl⟩

theorem SameCore.trans {a b c : State} (h1 : SameCore a b) (h2 : SameCore b c) : SameCore a c :=
  ⟨h2.keys.trans h1.keys, h2.cdb.trans h1.cdb, h2.ins.trans h1.ins, h2.upd.trans h1.upd, h2.pool.trans h1.pool,
    h2.abs.trans h1.abs⟩

theorem sameCore_foldl {α} (f : State → α → State) (h : ∀ s a, SameCore s (f s a)) :
    ∀ (l : List α) (s : State), SameCore s (l.foldl f s) := by
  intro l; induction l with
  | nil => intro s; exact SameCore.refl s
  | cons a l ih => intro s; exact SameCore.trans (h s a) (ih _)

theorem sameCore_put (s : State) (x : Proxy) : SameCore s (s.put x) := ⟨keys_put s x, rfl, rfl, rfl, rfl, rfl⟩

theorem sameCore_holdActive (s : State) (x : Proxy) : SameCore s (holdActive s x) := by
  unfold holdActive
  simp only
  split
  · exact ⟨keys_put s _, rfl, rfl, rfl, rfl, rfl⟩
  · exact ⟨keys_put s _, rfl, rfl, rfl, rfl, rfl⟩

theorem sameCore_setHoldPoint (s : State) (p : Int) : SameCore s (setHoldPoint s p) := by
  unfold setHoldPoint
  simp only
  have h : SameCore s (s.pool.foldl (fun st x => if x.pt > p then
      match st.get? x.pt x.name with | some y => holdActive st y | none => st
    else st) { s with holdPoint := some p }) := by
    refine SameCore.trans (b := { s with holdPoint := some p }) ⟨rfl, rfl, rfl, rfl, rfl, rfl⟩ (sameCore_foldl _ ?_ _ _)
    intro st x
    repeat' split
    all_goals first | exact SameCore.refl _ | exact sameCore_holdActive _ _
  exact ⟨h.keys, h.cdb, h.ins, h.upd, h.pool, h.abs⟩

theorem sameCore_reapplyHold (s : State) : SameCore s (reapplyHold s) := by
  unfold reapplyHold
  split
  · exact sameCore_setHoldPoint _ _
  · exact SameCore.refl s

theorem putTaskPool_pool (s : State) : (putTaskPool s).pool = s.pool := by
  unfold putTaskPool
  simp only
  have : ∀ (l : List Proxy) (st : State),
      (l.foldl (fun st x => if x.upd then dbQueue st .pool x else st) st).pool = st.pool := by
    intro l
    induction l with
    | nil => intro st; rfl
    | cons x l ih =>
      intro st
      simp only [List.foldl_cons]
      by_cases hx : x.upd = true
      · simp only [hx, if_true]; exact ih (dbQueue st .pool x)
      · simp only [hx]; exact ih st
  exact this s.pool s

theorem startCommit_pool (g : Graph) (s : State) : (startCommit g s).pool = s.pool := by
  unfold startCommit
  simp only
  split
  · exact putTaskPool_pool s
  · rfl

/-- **the restored pool comes from the pool table**: the instances in the pool of a restarted scheduler are those of
the committed `task_pool` table that have a `task_states` row (the JOIN) -/
theorem keys_startFrom (g : Graph) (s : State) :
    keys (startFrom g s) = (s.cdb.pool.filterMap (restoreProxy g s.cdb.rows)).map fun x => (x.pt, x.name) := by
  unfold startFrom
  have h1 : keys (startCommit g (reapplyHold (loadDb g s))) = keys (reapplyHold (loadDb g s)) := by
    unfold keys; rw [startCommit_pool]
  rw [h1, (sameCore_reapplyHold _).keys]
  rfl

theorem restoreProxy_key (g : Graph) (rows : List Row) (x y : Proxy) (h : restoreProxy g rows x = some y) :
    y.pt = x.pt ∧ y.name = x.name ∧ ∃ r ∈ rows, r.isKey x.pt x.name = true := by
  unfold restoreProxy at h
  split at h
  · exact absurd h (by simp)
  · rename_i r hr
    simp only [Option.some.injEq] at h
    subst h
    exact ⟨rfl, rfl, r, List.mem_of_find?_eq_some hr, by simpa using List.find?_some hr⟩

theorem mem_keys_startFrom (g : Graph) (s : State) (k : Int × String) (h : k ∈ keys (startFrom g s)) :
    k ∈ s.cdb.pool.map (fun x => (x.pt, x.name)) ∧ ∃ r ∈ s.cdb.rows, r.isKey k.1 k.2 = true := by
  rw [keys_startFrom] at h
  obtain ⟨y, hy, hk⟩ := List.mem_map.mp h
  obtain ⟨x, hx, hxy⟩ := List.mem_filterMap.mp hy
  obtain ⟨h1, h2, r, hr, hrk⟩ := restoreProxy_key g _ x y hxy
  subst hk
  refine ⟨List.mem_map.mpr ⟨x, hx, by rw [h1, h2]⟩, r, hr, by rw [h1, h2]; exact hrk⟩

/-- a row without completed outputs blocks the spawn: "task was removed" -/
theorem spawnTask_blocked (g : Graph) (s : State) (n : String) (p : Int) (r : Row)
    (hr : histOf s p n = some r) (ho : r.outs = []) : (spawnTask g s n p).2 = none := by
  unfold spawnTask
  simp only [hr, Option.isNone_some, Bool.false_and, Bool.false_eq_true, if_false]
  split
  · rfl
  · unfold revive
    simp only [ho, List.isEmpty_nil, if_true]

/-- a row of a finished task with complete outputs blocks the spawn: "already finished and completed" -/
theorem spawnTask_finished (g : Graph) (s : State) (n : String) (p : Int) (r : Row) (t : TaskDefn)
    (hr : histOf s p n = some r) (hf : r.status.isFinal = true) (ht : g.task? n = some t)
    (hc : isComplete t r.outs = true) : (spawnTask g s n p).2 = none := by
  unfold spawnTask
  simp only [hr, Option.isNone_some, Bool.false_and, Bool.false_eq_true, if_false]
  split
  · rfl
  · unfold revive
    simp only [hf, ht, hc, if_true]
    split
    · rfl
    · rename_i heq
      split at heq <;> exact absurd heq (by simp)

theorem flushRows_nil (rows : List Row) : flushRows rows [] [] = rows := by
  unfold flushRows updKinds
  rfl

/-- on the code as found the commit of a restart writes no row: the rows are those of the database at the death -/
theorem rows_startFrom (g : Graph) (s : State) (hf : g.poolAtStart = false) :
    (startFrom g s).cdb.rows = s.cdb.rows := by
  unfold startFrom startCommit
  simp only [hf, Bool.false_eq_true, if_false]
  have h := sameCore_reapplyHold (loadDb g s)
  unfold applyQ
  simp only
  rw [h.ins, h.upd, h.cdb]
  exact flushRows_nil _

end CylcModel.Sched3Crash
