/-
Helper lemmas over the `Sched3Set` model (flows + `cylc set`), one lemma per primitive.
Used by Props/C29.lean and Props/C08Sched.lean.
-/
import CylcModel.Sched3X

namespace CylcModel.Sched3X

/-! ### Generic lifting -/

theorem foldl_inv {α σ} (P : σ → Prop) (f : σ → α → σ) (h : ∀ s a, P s → P (f s a)) :
    ∀ (l : List α) (s : σ), P s → P (l.foldl f s) := by
  intro l; induction l with
  | nil => intro s hs; exact hs
  | cons a l ih => intro s hs; exact ih _ (h s a hs)

/-- every state of a run satisfies `P` when the start-up state does and every step preserves it -/
theorem run_inv (P : State → Prop) (g : Graph) (h0 : P (init g)) (hs : ∀ s op, P s → P (step g s op)) :
    ∀ ops, ∀ s ∈ run g ops, P s := by
  intro ops
  unfold run
  have key : ∀ (ops : List Op) (acc : List State) (cur : State),
      (∀ s ∈ acc, P s) → P cur →
      ∀ s ∈ (ops.foldl (fun (a : List State × State) op =>
          let s' := step g a.2 op; (a.1 ++ [s'], s')) (acc, cur)).1, P s := by
    intro ops
    induction ops with
    | nil => intro acc cur hacc _ s hm; exact hacc s hm
    | cons op ops ih =>
      intro acc cur hacc hcur
      simp only [List.foldl_cons]
      apply ih
      · intro s hm
        rcases List.mem_append.mp hm with h | h
        · exact hacc s h
        · simp at h; subst h; exact hs _ _ hcur
      · exact hs _ _ hcur
  exact key ops [init g] (init g) (by intro s hm; simp at hm; subst hm; exact h0) h0

/-! ### Pool lookups -/

theorem find?_addBucket (pred : Proxy → Bool) (x : Proxy) (hx : pred x = false) :
    ∀ l : List Proxy, (addBucket x l).find? pred = l.find? pred := by
  intro l
  induction l with
  | nil => simp [addBucket, hx]
  | cons y ys ih =>
    unfold addBucket
    split
    · by_cases hy : pred y = true
      · simp [List.find?, hy]
      · have hy' : pred y = false := by simpa using hy
        simp [List.find?, hy', hx]
    · by_cases hy : pred y = true
      · simp [List.find?, hy]
      · have hy' : pred y = false := by simpa using hy
        simp [List.find?, hy', ih]

theorem mem_addBucket (x : Proxy) : ∀ (l : List Proxy) (y : Proxy), y ∈ addBucket x l ↔ y = x ∨ y ∈ l := by
  intro l
  induction l with
  | nil => intro y; simp [addBucket]
  | cons z zs ih =>
    intro y
    unfold addBucket
    split
    · simp only [List.mem_cons]
      constructor
      · rintro (h | h | h)
        · exact Or.inr (Or.inl h)
        · exact Or.inl h
        · exact Or.inr (Or.inr h)
      · rintro (h | h | h)
        · exact Or.inr (Or.inl h)
        · exact Or.inl h
        · exact Or.inr (Or.inr h)
    · simp only [List.mem_cons, ih]
      constructor
      · rintro (h | h | h)
        · exact Or.inr (Or.inl h)
        · exact Or.inl h
        · exact Or.inr (Or.inr h)
      · rintro (h | h | h)
        · exact Or.inr (Or.inl h)
        · exact Or.inl h
        · exact Or.inr (Or.inr h)

/-- the proxies of the pool that a later state still has, unchanged -/
def Preserve (s s' : State) : Prop := ∀ p n y, s.get? p n = some y → s'.get? p n = some y

theorem Preserve.refl (s : State) : Preserve s s := fun _ _ _ h => h

theorem Preserve.trans {a b c : State} (h1 : Preserve a b) (h2 : Preserve b c) : Preserve a c :=
  fun p n y h => h2 p n y (h1 p n y h)

theorem preserve_of_pool_eq {s s' : State} (h : s'.pool = s.pool) : Preserve s s' := by
  intro p n y hy
  unfold State.get? at *
  rw [h]; exact hy

theorem get?_key {s : State} {p : Int} {n : String} {y : Proxy} (h : s.get? p n = some y) :
    y.pt = p ∧ y.name = n := by
  unfold State.get? at h
  have := List.find?_some h
  simpa using this

theorem preserve_add (s : State) (x : Proxy) : Preserve s (s.add x) := by
  intro p n y hy
  unfold State.add
  split
  · exact hy
  · rename_i hn
    have hnone : s.get? x.pt x.name = none := by
      cases hg : s.get? x.pt x.name with
      | none => rfl
      | some v => simp [hg] at hn
    unfold State.get? at hy ⊢
    simp only
    rw [find?_addBucket]
    · exact hy
    · -- x does not have the key (p, n): that key is in the pool, x's is not
      cases hc : (x.pt == p && x.name == n) with
      | false => rfl
      | true =>
        simp only [Bool.and_eq_true, beq_iff_eq] at hc
        unfold State.get? at hnone
        rw [hc.1, hc.2] at hnone
        rw [hnone] at hy
        cases hy

theorem get?_add_self (s : State) (x : Proxy) (h : s.get? x.pt x.name = none) :
    (s.add x).get? x.pt x.name = some x := by
  unfold State.add
  simp [h]
  unfold State.get? at h ⊢
  simp only
  -- induction over the pool: no element has x's key
  have hnone := List.find?_eq_none.mp h
  generalize s.pool = l at hnone
  induction l with
  | nil => simp [addBucket]
  | cons y ys ih =>
    have hy : (y.pt == x.pt && y.name == x.name) = false := by
      have := hnone y (by simp)
      simpa using this
    have ihs := ih (fun z hz => hnone z (by simp [hz]))
    unfold addBucket
    split
    · simp [List.find?, hy]
    · simp [List.find?, hy, ihs]

theorem get?_put_self (s : State) (x : Proxy) (h : (s.get? x.pt x.name).isSome = true) :
    (s.put x).get? x.pt x.name = some x := by
  unfold State.put State.get? at *
  simp only
  generalize s.pool = l at h
  induction l with
  | nil => simp at h
  | cons y ys ih =>
    simp only [List.map_cons]
    by_cases hy : (y.pt == x.pt && y.name == x.name) = true
    · simp [List.find?, hy]
    · have hy' : (y.pt == x.pt && y.name == x.name) = false := by simpa using hy
      simp only [hy', Bool.false_eq_true, if_false, List.find?, hy']
      apply ih
      simpa [List.find?, hy'] using h

/-- replacing the elements of one key leaves the search for another key alone -/
theorem find?_map_replace (q k : Proxy → Bool) (x : Proxy) (hq : q x = false)
    (hk : ∀ y, k y = true → q y = false) :
    ∀ l : List Proxy, (l.map fun y => if k y = true then x else y).find? q = l.find? q := by
  intro l
  induction l with
  | nil => rfl
  | cons y ys ih =>
    simp only [List.map_cons]
    cases hy : k y with
    | true =>
      simp only [if_true]
      rw [List.find?_cons, List.find?_cons, hq, hk y hy]
      exact ih
    | false =>
      simp only [Bool.false_eq_true, if_false]
      rw [List.find?_cons, List.find?_cons, ih]

theorem get?_put_other (s : State) (x : Proxy) (p : Int) (n : String) (hk : ¬ (x.pt = p ∧ x.name = n)) :
    (s.put x).get? p n = s.get? p n := by
  unfold State.put State.get?
  simp only
  have hq : (x.pt == p && x.name == n) = false := by
    cases hc : (x.pt == p && x.name == n) with
    | false => rfl
    | true => simp only [Bool.and_eq_true, beq_iff_eq] at hc; exact absurd hc hk
  exact find?_map_replace (fun z => z.pt == p && z.name == n) (fun y => y.pt == x.pt && y.name == x.name) x hq
    (by
      intro y hy
      simp only [Bool.and_eq_true, beq_iff_eq] at hy
      simp only [hy.1, hy.2]; exact hq) s.pool

/-- `put` at a key: the new proxy when the key is pooled, nothing new otherwise -/
theorem get?_put (s : State) (x : Proxy) (p : Int) (n : String) :
    (s.put x).get? p n =
      if x.pt = p ∧ x.name = n then (if (s.get? p n).isSome then some x else none) else s.get? p n := by
  by_cases hk : x.pt = p ∧ x.name = n
  · simp only [hk, and_self, if_true]
    obtain ⟨h1, h2⟩ := hk
    subst h1; subst h2
    by_cases hs : (s.get? x.pt x.name).isSome = true
    · simp [hs, get?_put_self s x hs]
    · simp only [hs, Bool.false_eq_true, if_false]
      have hnone : s.get? x.pt x.name = none := by
        cases hg : s.get? x.pt x.name with
        | none => rfl
        | some v => simp [hg] at hs
      unfold State.put State.get? at *
      simp only
      have hall := List.find?_eq_none.mp hnone
      apply List.find?_eq_none.mpr
      intro z hz
      obtain ⟨y, hy, rfl⟩ := List.mem_map.mp hz
      have hyk := hall y hy
      have hyk' : (y.pt == x.pt && y.name == x.name) = false := by simpa using hyk
      simp [hyk']
  · simp only [hk, if_false]
    exact get?_put_other s x p n hk

/-! ### fields of derived proxies -/

@[simp] theorem reset_pt (x : Proxy) (a : Option Status) (b c d : Option Bool) :
    (x.reset a b c d).pt = x.pt := by unfold Proxy.reset; simp only; split <;> rfl
@[simp] theorem reset_name (x : Proxy) (a : Option Status) (b c d : Option Bool) :
    (x.reset a b c d).name = x.name := by unfold Proxy.reset; simp only; split <;> rfl
@[simp] theorem reset_flows (x : Proxy) (a : Option Status) (b c d : Option Bool) :
    (x.reset a b c d).flows = x.flows := by unfold Proxy.reset; simp only; split <;> rfl
@[simp] theorem reset_done (x : Proxy) (a : Option Status) (b c d : Option Bool) :
    (x.reset a b c d).done = x.done := by unfold Proxy.reset; simp only; split <;> rfl
@[simp] theorem reset_pre (x : Proxy) (a : Option Status) (b c d : Option Bool) :
    (x.reset a b c d).pre = x.pre := by unfold Proxy.reset; simp only; split <;> rfl
@[simp] theorem satisfyMe_pt (x : Proxy) (a : Atom) : (x.satisfyMe a).pt = x.pt := rfl
@[simp] theorem satisfyMe_name (x : Proxy) (a : Atom) : (x.satisfyMe a).name = x.name := rfl
@[simp] theorem satisfyMe_flows (x : Proxy) (a : Atom) : (x.satisfyMe a).flows = x.flows := rfl
@[simp] theorem satisfyMe_status (x : Proxy) (a : Atom) : (x.satisfyMe a).status = x.status := rfl

theorem foldl_satisfyMe_fields (l : List Atom) (x : Proxy) :
    (l.foldl (fun z a => z.satisfyMe a) x).pt = x.pt ∧ (l.foldl (fun z a => z.satisfyMe a) x).name = x.name ∧
    (l.foldl (fun z a => z.satisfyMe a) x).flows = x.flows := by
  induction l generalizing x with
  | nil => exact ⟨rfl, rfl, rfl⟩
  | cons a l ih => simp only [List.foldl_cons]; have := ih (x.satisfyMe a); simpa using this

theorem mkProxy_key {g : Graph} {n : String} {p : Int} {x : Proxy} (h : mkProxy g n p = some x) :
    x.pt = p ∧ x.name = n := by
  unfold mkProxy at h
  split at h
  · cases h
  · split at h
    · cases h
    · split at h
      · cases h
      · simp only [Option.some.injEq] at h
        subst h; exact ⟨rfl, rfl⟩

/-! ### the database queue does not touch the pool -/

@[simp] theorem pool_dbInsert (s : State) (x : Proxy) : (dbInsert s x).pool = s.pool := rfl
@[simp] theorem pool_dbQueue (s : State) (k : UpdKind) (x : Proxy) (o : List (String × Bool)) :
    (dbQueue s k x o).pool = s.pool := rfl
@[simp] theorem pool_dbUpdateState (s : State) (x : Proxy) (t : Bool) : (dbUpdateState s x t).pool = s.pool := rfl
@[simp] theorem pool_dbUpdateOutputs (g : Graph) (s : State) (x : Proxy) : (dbUpdateOutputs g s x).pool = s.pool := rfl
@[simp] theorem pool_dbUpdateFlowWait (s : State) (x : Proxy) : (dbUpdateFlowWait s x).pool = s.pool := rfl
@[simp] theorem pool_dbUpdatePool (s : State) (x : Proxy) : (dbUpdatePool s x).pool = s.pool := rfl
@[simp] theorem pool_flushDb (s : State) : (flushDb s).pool = s.pool := rfl

theorem get?_of_pool_eq {s s' : State} (h : s'.pool = s.pool) (p : Int) (n : String) : s'.get? p n = s.get? p n := by
  unfold State.get?; rw [h]

theorem pool_loadHistoricalOutputs (g : Graph) (s : State) (x : Proxy) :
    (loadHistoricalOutputs g s x).1.pool = s.pool := by
  unfold loadHistoricalOutputs
  simp only
  split
  · rfl
  · split <;> rfl

theorem loadHistoricalOutputs_fields (g : Graph) (s : State) (x : Proxy) :
    (loadHistoricalOutputs g s x).2.pt = x.pt ∧ (loadHistoricalOutputs g s x).2.name = x.name ∧
    (loadHistoricalOutputs g s x).2.flows = x.flows := by
  unfold loadHistoricalOutputs
  simp only
  -- the fold only extends `done`
  have hfold : ∀ (info : List (List (String × Bool) × Flows)) (acc : Proxy × Bool),
      (info.foldl (fun (acc : Proxy × Bool) e =>
        if fMeets acc.1.flows e.2 then
          (e.1.foldl (fun (z : Proxy) m =>
            if hasOutput g z m.1 && !z.done.contains m.1 then { z with done := z.done ++ [m.1] } else z) acc.1, true)
        else acc) acc).1.pt = acc.1.pt ∧
      (info.foldl (fun (acc : Proxy × Bool) e =>
        if fMeets acc.1.flows e.2 then
          (e.1.foldl (fun (z : Proxy) m =>
            if hasOutput g z m.1 && !z.done.contains m.1 then { z with done := z.done ++ [m.1] } else z) acc.1, true)
        else acc) acc).1.name = acc.1.name ∧
      (info.foldl (fun (acc : Proxy × Bool) e =>
        if fMeets acc.1.flows e.2 then
          (e.1.foldl (fun (z : Proxy) m =>
            if hasOutput g z m.1 && !z.done.contains m.1 then { z with done := z.done ++ [m.1] } else z) acc.1, true)
        else acc) acc).1.flows = acc.1.flows := by
    intro info
    induction info with
    | nil => intro acc; exact ⟨rfl, rfl, rfl⟩
    | cons e info ih =>
      intro acc
      simp only [List.foldl_cons]
      have inner : ∀ (ms : List (String × Bool)) (z : Proxy),
          (ms.foldl (fun (z : Proxy) m =>
            if hasOutput g z m.1 && !z.done.contains m.1 then { z with done := z.done ++ [m.1] } else z) z).pt = z.pt ∧
          (ms.foldl (fun (z : Proxy) m =>
            if hasOutput g z m.1 && !z.done.contains m.1 then { z with done := z.done ++ [m.1] } else z) z).name = z.name ∧
          (ms.foldl (fun (z : Proxy) m =>
            if hasOutput g z m.1 && !z.done.contains m.1 then { z with done := z.done ++ [m.1] } else z) z).flows = z.flows := by
        intro ms
        induction ms with
        | nil => intro z; exact ⟨rfl, rfl, rfl⟩
        | cons m ms ihm =>
          intro z
          simp only [List.foldl_cons]
          split
          · have := ihm { z with done := z.done ++ [m.1] }
            simpa using this
          · exact ihm z
      split
      · have h1 := ih (e.1.foldl (fun (z : Proxy) m =>
            if hasOutput g z m.1 && !z.done.contains m.1 then { z with done := z.done ++ [m.1] } else z) acc.1, true)
        have h2 := inner e.1 acc.1
        simp only at h1
        exact ⟨h1.1.trans h2.1, h1.2.1.trans h2.2.1, h1.2.2.trans h2.2.2⟩
      · exact ih acc
  split
  · exact ⟨rfl, rfl, rfl⟩
  · have := hfold (selectTaskOutputs (rowsFor s x.pt x.name)) (x, false)
    split <;> exact this

/-! ### spawning: existing proxies are left alone, new ones carry the given flows -/

theorem get?_add_cases (s : State) (x : Proxy) (p : Int) (n : String) (z : Proxy)
    (h : (s.add x).get? p n = some z) : s.get? p n = some z ∨ z = x := by
  cases hg : s.get? x.pt x.name with
  | some v =>
    have e : s.add x = s := by unfold State.add; simp [hg]
    rw [e] at h; exact Or.inl h
  | none =>
    cases hc : (x.pt == p && x.name == n) with
    | false =>
      left
      have e : (s.add x).get? p n = s.get? p n := by
        unfold State.add
        simp only [hg, Option.isSome_none, Bool.false_eq_true, if_false]
        unfold State.get?
        simp only
        exact find?_addBucket _ _ hc _
      rw [e] at h; exact h
    | true =>
      right
      simp only [Bool.and_eq_true, beq_iff_eq] at hc
      have e := get?_add_self s x hg
      rw [hc.1, hc.2] at e
      rw [e] at h
      exact (Option.some.inj h).symm

/-- proxies that are in `s'` but were not (as they are) in `s` carry the flows `F` -/
def NewHave (F : Flows) (s s' : State) : Prop :=
  ∀ p n y, s'.get? p n = some y → s.get? p n = some y ∨ y.flows = F

theorem NewHave.refl (F : Flows) (s : State) : NewHave F s s := fun _ _ _ h => Or.inl h

theorem NewHave.trans {F : Flows} {a b c : State} (h1 : NewHave F a b) (h2 : NewHave F b c) : NewHave F a c := by
  intro p n y hy
  rcases h2 p n y hy with h | h
  · exact h1 p n y h
  · exact Or.inr h

theorem newHave_of_pool_eq {F : Flows} {s s' : State} (h : s'.pool = s.pool) : NewHave F s s' := by
  intro p n y hy
  left
  rw [← get?_of_pool_eq h]; exact hy

theorem newHave_add (F : Flows) (s : State) (x : Proxy) (hx : x.flows = F) : NewHave F s (s.add x) := by
  intro p n y hy
  rcases get?_add_cases s x p n y hy with h | h
  · exact Or.inl h
  · right; rw [h]; exact hx

/-- what a spawner does to the pool: nothing to the proxies that are there; what it adds, and what it returns,
carries the flows it was given (and the returned proxy has the requested key) -/
def SpawnOk (F : Flows) (name : String) (p : Int) (s : State) (r : State × Option Proxy) : Prop :=
  Preserve s r.1 ∧ NewHave F s r.1 ∧ ∀ y, r.2 = some y → y.flows = F ∧ y.pt = p ∧ y.name = name

theorem spawnOnAllOutputsWith_ok (spawn : State → String → Int → Flows → State × Option Proxy)
    (hspawn : ∀ st n q f, SpawnOk f n q st (spawn st n q f)) (g : Graph) (s : State) (x : Proxy) :
    Preserve s (spawnOnAllOutputsWith spawn g s x) ∧ NewHave x.flows s (spawnOnAllOutputsWith spawn g s x) := by
  unfold spawnOnAllOutputsWith
  split
  · exact ⟨Preserve.refl s, NewHave.refl _ s⟩
  · split
    · exact ⟨Preserve.refl s, NewHave.refl _ s⟩
    · rename_i t _
      apply foldl_inv (fun st => Preserve s st ∧ NewHave x.flows s st)
      · intro st o hst
        apply foldl_inv (fun st => Preserve s st ∧ NewHave x.flows s st)
        · intro st c hst
          split
          · exact hst
          · have hs := hspawn st c.name c.pt x.flows
            split
            · rename_i st' y heq
              rw [heq] at hs
              obtain ⟨hp, hn, hr⟩ := hs
              have hy := hr y rfl
              refine ⟨hst.1.trans (hp.trans (preserve_add _ _)), hst.2.trans (hn.trans (newHave_add _ _ _ ?_))⟩
              simpa using hy.1
            · rename_i st' heq
              rw [heq] at hs
              exact ⟨hst.1.trans hs.1, hst.2.trans hs.2.1⟩
        · exact hst
      · exact ⟨Preserve.refl s, NewHave.refl _ s⟩

end CylcModel.Sched3X
