/-
C46 helper lemmas: the warm-start invariant of the `Sched` model as an instance of `Frame`.

  every pooled proxy, every history row and every recorded launch is at or after the start point,
  and the prerequisites of every pooled proxy satisfy a predicate `P` that the graph guarantees for
  instances at or after the start point and that survives atom satisfaction.
-/
import CylcModel.SchedFrame
import CylcModel.SchedAbsStart
import CylcModel.SchedStart

namespace CylcModel.Sched

/-- all pre-start atoms of a prerequisite list are satisfied -/
def PreStartOk (g : Graph) (pre : List Pre) : Prop :=
  ∀ pr ∈ pre, ∀ e ∈ pr.atoms, e.1.pt < g.start → e.2 = true

theorem preStartOk_satisfy (g : Graph) (pre : List Pre) (a : Atom) (h : PreStartOk g pre) :
    PreStartOk g (pre.map (·.satisfy a)) := by
  intro pr hpr e he hlt
  obtain ⟨pr0, hpr0, rfl⟩ := List.mem_map.mp hpr
  obtain ⟨e0, he0, h1, h2⟩ := mem_satisfy_atoms he
  exact h2 (h pr0 hpr0 e0 he0 (by rw [← h1]; exact hlt))

theorem preStartOk_of_wf {g : Graph} (hwf : preStartSatB g = true) {n : String} {t : TaskDefn} {p : Int}
    {d : InstDef} (ht : g.task? n = some t) (hd : t.inst? p = some d) (hp : g.start ≤ p) :
    PreStartOk g d.pre := by
  unfold preStartSatB at hwf
  have h1 := List.all_eq_true.mp hwf t (task?_mem ht)
  have h2 := List.all_eq_true.mp h1 (p, d) (inst?_mem hd)
  simp only [Bool.or_eq_true, decide_eq_true_eq] at h2
  rcases h2 with h2 | h2
  · omega
  · intro pr hpr e he hlt
    have h3 := List.all_eq_true.mp h2 pr hpr
    have h4 := List.all_eq_true.mp h3 e he
    simp only [Bool.or_eq_true, Bool.not_eq_true', decide_eq_false_iff_not] at h4
    rcases h4 with h4 | h4
    · exact absurd hlt h4
    · exact h4

/-! ### the frame -/

def Q46 (g : Graph) (P : List Pre → Prop) (_s : State) (x : Proxy) : Prop := g.start ≤ x.pt ∧ P x.pre

def J46 (g : Graph) (s : State) : Prop :=
  (∀ h ∈ s.hist, g.start ≤ h.pt) ∧ (∀ l ∈ s.launched, g.start ≤ l.1)

theorem foldl_satisfyMe_P (P : List Pre → Prop) (hsat : ∀ pre a, P pre → P (pre.map (·.satisfy a)))
    (l : List Atom) (y : Proxy) (h : P y.pre) : P (l.foldl (fun z a => z.satisfyMe a) y).pre := by
  induction l generalizing y with
  | nil => exact h
  | cons a l ih =>
    simp only [List.foldl_cons]
    exact ih _ (hsat _ _ h)

/-- the warm-start frame, for any predicate on prerequisites that the graph grants to instances at or
after the start point and that atom satisfaction preserves -/
theorem frame46 (g : Graph) (P : List Pre → Prop)
    (hsat : ∀ pre a, P pre → P (pre.map (·.satisfy a)))
    (hinit : ∀ (n : String) (t : TaskDefn) (p : Int) (d : InstDef), g.task? n = some t → t.inst? p = some d →
      g.start ≤ p → P d.pre) :
    Frame g (fun _ => True) (Q46 g P) (J46 g) where
  qcongr := fun _ _ _ _ _ _ h => h
  jcongr := by
    intro s s' _ hh _ hl h
    unfold J46
    rw [hh, hl]; exact h
  upd := by
    intro s x x' h hs
    exact ⟨by rw [hs.1]; exact h.1, by rw [hs.2.2]; exact h.2⟩
  sat := by
    intro s x a h
    exact ⟨h.1, hsat _ _ h.2⟩
  child := fun _ _ _ _ _ _ => trivial
  nextp := fun _ _ _ _ _ => trivial
  spawn := by
    intro s n p z h _ hz
    rw [spawnTask_eq] at hz
    cases hc : spawnCore g s.hist n p with
    | none => simp [hc] at hz
    | some y =>
      simp only [hc, Option.map_some, Option.some.injEq] at hz
      obtain ⟨t, d, ht, hd, hp, hn, hpre, hst⟩ := spawnCore_some hc
      have hge : g.start ≤ p := by
        cases hl : lastHist s.hist n p with
        | none => have := hst hl; omega
        | some hh =>
          obtain ⟨hm, hpt⟩ := lastHist_mem hl
          have := h.2.1 hh hm
          omega
      have hy : P y.pre := by rw [hpre]; exact hinit n t p d ht hd hge
      subst hz
      refine ⟨by rw [(absFinish_key g s.absDone n y).1, hp]; exact hge, ?_⟩
      unfold absFinish
      split
      · split
        · exact foldl_satisfyMe_P P hsat _ _ hy
        · exact hy
      · exact hy
  add := by
    intro s z h hz _ _
    refine ⟨?_, h.2⟩
    intro x hx
    rcases List.mem_append.mp hx with hx | hx
    · exact h.1 x hx
    · simp at hx; subst hx; exact hz
  remove := by
    intro s x gh h hx
    refine ⟨?_, ?_, h.2.2⟩
    · intro y hy
      exact h.1 y (List.mem_filter.mp hy).1
    · intro hh hm
      rcases List.mem_append.mp hm with hm | hm
      · exact h.2.1 hh hm
      · simp at hm; subst hm; exact (h.1 x hx).1
  launch := by
    intro s x n h hx
    refine ⟨h.1, h.2.1, ?_⟩
    intro l hl
    rcases List.mem_append.mp hl with hl | hl
    · exact h.2.2 l hl
    · simp at hl; subst hl; exact hx.1
  clear := by
    intro s h
    refine ⟨h.1, h.2.1, ?_⟩
    intro l hl
    simp [clearOp] at hl

theorem absClosed46 (g : Graph) (P : List Pre → Prop) : AbsClosed (Q46 g P) (J46 g) := by
  intro s a h
  exact ⟨h.1, h.2⟩

theorem holds46_empty (g : Graph) (P : List Pre → Prop) : Holds (Q46 g P) (J46 g) ({} : State) := by
  refine ⟨?_, ?_, ?_⟩ <;> intro _ h <;> simp at h

/-- the warm-start invariant in every state of every run -/
theorem holds46_run (g : Graph) (P : List Pre → Prop)
    (hsat : ∀ pre a, P pre → P (pre.map (·.satisfy a)))
    (hinit : ∀ (n : String) (t : TaskDefn) (p : Int) (d : InstDef), g.task? n = some t → t.inst? p = some d →
      g.start ≤ p → P d.pre)
    (ops : List Op) : ∀ s ∈ run g ops, Holds (Q46 g P) (J46 g) s :=
  let F := frame46 g P hsat hinit
  F.holds_run (F.holds_spawnOnOutput (absClosed46 g P)) (holds46_empty g P) (fun _ _ _ _ => trivial) ops

/-! ### start-task starts (`SchedStart.lean`) -/

/-- every state of a run from `s0` satisfies `P` when `s0` does and every step preserves it -/
theorem runFrom_inv (P : State → Prop) (g : Graph) (s0 : State) (h0 : P s0)
    (hs : ∀ s op, P s → P (step g s op)) : ∀ ops, ∀ s ∈ runFrom g s0 ops, P s := by
  intro ops
  unfold runFrom
  have key : ∀ (ops : List Op) (acc : List State) (cur : State),
      (∀ s ∈ acc, P s) → P cur →
      ∀ s ∈ (ops.foldl (fun (a : List State × State) op =>
          let s' := step g a.2 op; (a.1 ++ [s'], s')) (acc, cur)).1, P s := by
    intro ops
    induction ops with
    | nil => intro acc cur hacc _ s hm; exact hacc s hm
    | cons op ops ih =>
      intro acc cur hacc hcur
      simp only [List.foldl_cons]
      apply ih
      · intro s hm
        rcases List.mem_append.mp hm with h | h
        · exact hacc s h
        · simp at h; subst h; exact hs _ _ hcur
      · exact hs _ _ hcur
  exact key ops [s0] s0 (by intro s hm; simp at hm; subst hm; exact h0) h0

section StartTasks
variable {g : Graph} {A : Int × String → Prop} {Q : State → Proxy → Prop} {J : State → Prop} (F : Frame g A Q J)
include F

theorem Frame.holds_loadStartTask (hforce : ∀ s x, Q s x → Q s x.forceSatisfy) (s : State) (k : Int × String)
    (hk : A k) (h : Holds Q J s) : Holds Q J (loadStartTask g s k) := by
  unfold loadStartTask
  split
  · exact h
  · split
    · rename_i x hx
      have hkey := spawnTask_key hx
      apply F.holds_add h (hforce _ _ (F.spawn s k.2 k.1 x h hk hx))
      show (spawnTask g s x.name x.pt).isSome = true
      rw [hkey.1, hkey.2, hx]; rfl
    · exact h

/-- the start-up state of a start-task start has the invariant -/
theorem Frame.holds_initTasks (hforce : ∀ s x, Q s x → Q s x.forceSatisfy) (h0 : Holds Q J ({} : State))
    (starts : List (Int × String)) (hst : ∀ k ∈ starts, A k) : Holds Q J (initTasks g starts) := by
  unfold initTasks
  apply foldl_inv_mem (Holds Q J) _ _ _ _ h0
  intro s k hk h
  exact F.holds_loadStartTask hforce s k (hst k hk) h

/-- the invariant in every state of every start-task run -/
theorem Frame.holds_runTasks (hSOO : ∀ (s : State) (p : Int) (n out : String), Holds Q J s →
      Holds Q J (spawnOnOutput g s p n out))
    (hforce : ∀ s x, Q s x → Q s x.forceSatisfy) (h0 : Holds Q J ({} : State))
    (starts : List (Int × String)) (hst : ∀ k ∈ starts, A k) (ops : List Op) :
    ∀ s ∈ runTasks g starts ops, Holds Q J s :=
  runFrom_inv (Holds Q J) g _ (F.holds_initTasks hforce h0 starts hst) (F.holds_step hSOO) ops

end StartTasks

theorem forceAll_preStartOk (g : Graph) (pre : List Pre) : PreStartOk g (pre.map Pre.forceAll) := by
  intro pr hpr e he _
  obtain ⟨pr0, _, rfl⟩ := List.mem_map.mp hpr
  unfold Pre.forceAll at he
  simp only at he
  obtain ⟨e0, _, rfl⟩ := List.mem_map.mp he
  rfl

/-- the warm-start invariant in every state of every start-task run -/
theorem holds46_runTasks (g : Graph) (P : List Pre → Prop)
    (hsat : ∀ pre a, P pre → P (pre.map (·.satisfy a)))
    (hforce : ∀ pre, P pre → P (pre.map Pre.forceAll))
    (hinit : ∀ (n : String) (t : TaskDefn) (p : Int) (d : InstDef), g.task? n = some t → t.inst? p = some d →
      g.start ≤ p → P d.pre)
    (starts : List (Int × String)) (ops : List Op) :
    ∀ s ∈ runTasks g starts ops, Holds (Q46 g P) (J46 g) s :=
  let F := frame46 g P hsat hinit
  F.holds_runTasks (F.holds_spawnOnOutput (absClosed46 g P))
    (fun _ _ hx => ⟨hx.1, hforce _ hx.2⟩) (holds46_empty g P) starts (fun _ _ => trivial) ops

/-! ### what the start tasks lead to -/

/-- the instances the start tasks lead to: graph children of any output, next parentless instances -/
inductive LeadsTo (g : Graph) (starts : List (Int × String)) : Int × String → Prop
  | start {k : Int × String} : k ∈ starts → LeadsTo g starts k
  | child {p : Int} {n out : String} {c : Child} : LeadsTo g starts (p, n) →
      c ∈ childrenOf g { pt := p, name := n } out → LeadsTo g starts (c.pt, c.name)
  | next {p np : Int} {n : String} : LeadsTo g starts (p, n) →
      nextParentless g { pt := p, name := n } = some np → LeadsTo g starts (np, n)

def QCl (g : Graph) (starts : List (Int × String)) (_s : State) (x : Proxy) : Prop :=
  LeadsTo g starts (x.pt, x.name)

def JCl (g : Graph) (starts : List (Int × String)) (s : State) : Prop :=
  ∀ l ∈ s.launched, LeadsTo g starts (l.1, l.2.1)

theorem frameCl (g : Graph) (starts : List (Int × String)) :
    Frame g (LeadsTo g starts) (QCl g starts) (JCl g starts) where
  qcongr := fun _ _ _ _ _ _ h => h
  jcongr := by
    intro s s' _ _ _ hl h
    unfold JCl; rw [hl]; exact h
  upd := by
    intro s x x' h hs
    unfold QCl at h ⊢
    rw [hs.1, hs.2.1]; exact h
  sat := fun _ _ _ h => h
  spawn := by
    intro s n p z _ hA hz
    have hk := spawnTask_key hz
    unfold QCl
    rw [hk.1, hk.2]; exact hA
  child := by
    intro s x out c hx hc
    rw [childrenOf_congr g x { pt := x.pt, name := x.name } out rfl rfl] at hc
    exact LeadsTo.child hx hc
  nextp := by
    intro s x np hx hnp
    rw [nextParentless_congr g x { pt := x.pt, name := x.name } rfl rfl] at hnp
    exact LeadsTo.next hx hnp
  add := by
    intro s z h hz _ _
    refine ⟨?_, h.2⟩
    intro x hx
    rcases List.mem_append.mp hx with hx | hx
    · exact h.1 x hx
    · simp at hx; subst hx; exact hz
  remove := by
    intro s x gh h _
    exact ⟨fun y hy => h.1 y (List.mem_filter.mp hy).1, h.2⟩
  launch := by
    intro s x n h hx
    refine ⟨h.1, ?_⟩
    intro l hl
    rcases List.mem_append.mp hl with hl | hl
    · exact h.2 l hl
    · simp at hl; subst hl; exact hx
  clear := by
    intro s h
    refine ⟨h.1, ?_⟩
    intro l hl
    simp [clearOp] at hl

theorem absClosedCl (g : Graph) (starts : List (Int × String)) : AbsClosed (QCl g starts) (JCl g starts) := by
  intro s a h
  exact ⟨h.1, h.2⟩

theorem holdsCl_runTasks (g : Graph) (starts : List (Int × String)) (ops : List Op) :
    ∀ s ∈ runTasks g starts ops, Holds (QCl g starts) (JCl g starts) s :=
  let F := frameCl g starts
  F.holds_runTasks (F.holds_spawnOnOutput (absClosedCl g starts)) (fun _ _ hx => hx)
    ⟨by intro x hx; simp at hx, by intro l hl; simp at hl⟩ starts (fun _ hk => LeadsTo.start hk) ops

/-- every start task that `spawn_task` accepts is in the start-up pool -/
theorem initTasks_mem (g : Graph) (starts : List (Int × String)) (k : Int × String) (hk : k ∈ starts)
    (hsp : (spawnTask g {} k.2 k.1).isSome = true) :
    ∃ x ∈ (initTasks g starts).pool, x.pt = k.1 ∧ x.name = k.2 := by
  unfold initTasks
  -- the fold only adds proxies: history and `absDone` stay empty, members stay members
  have key : ∀ (l : List (Int × String)) (s : State), s.hist = [] → s.absDone = [] →
      ((∃ x ∈ s.pool, x.pt = k.1 ∧ x.name = k.2) ∨ k ∈ l) →
      ∃ x ∈ (l.foldl (loadStartTask g) s).pool, x.pt = k.1 ∧ x.name = k.2 := by
    intro l; induction l with
    | nil =>
      intro s _ _ h
      rcases h with h | h
      · exact h
      · simp at h
    | cons a l ih =>
      intro s hh ha h
      simp only [List.foldl_cons]
      have hstep : (loadStartTask g s a).hist = [] ∧ (loadStartTask g s a).absDone = [] ∧
          (∀ x ∈ s.pool, x ∈ (loadStartTask g s a).pool) := by
        unfold loadStartTask
        split
        · exact ⟨hh, ha, fun _ hx => hx⟩
        · split
          · refine ⟨?_, ?_, fun _ hx => mem_add hx⟩
            · unfold State.add; split <;> exact hh
            · unfold State.add; split <;> exact ha
          · exact ⟨hh, ha, fun _ hx => hx⟩
      apply ih _ hstep.1 hstep.2.1
      rcases h with ⟨x, hx, hkx⟩ | h
      · exact Or.inl ⟨x, hstep.2.2 x hx, hkx⟩
      · rcases List.mem_cons.mp h with rfl | h
        · left
          unfold loadStartTask
          cases hg : s.get? k.1 k.2 with
          | some y =>
            obtain ⟨hy, hp, hn⟩ := get?_mem hg
            exact ⟨y, hy, hp, hn⟩
          | none =>
            have hcongr : spawnTask g s k.2 k.1 = spawnTask g {} k.2 k.1 :=
              spawnTask_congr (s := {}) (s' := s) g hh ha k.2 k.1
            cases hs : spawnTask g s k.2 k.1 with
            | none => rw [hcongr] at hs; rw [hs] at hsp; simp at hsp
            | some z =>
              simp only
              have hkey := spawnTask_key hs
              refine ⟨z.forceSatisfy, ?_, hkey.1, hkey.2⟩
              unfold State.add
              have hg' : s.get? z.forceSatisfy.pt z.forceSatisfy.name = none := by
                show s.get? z.pt z.name = none
                rw [hkey.1, hkey.2]; exact hg
              simp [hg']
        · exact Or.inr h
  exact key starts {} rfl rfl (Or.inr hk)

end CylcModel.Sched
