/-
C46 helper lemmas: the warm-start invariant of the `Sched` model as an instance of `Frame`.

  every pooled proxy, every history row and every recorded launch is at or after the start point,
  and the prerequisites of every pooled proxy satisfy a predicate `P` that the graph guarantees for
  instances at or after the start point and that survives atom satisfaction.
-/
import CylcModel.SchedFrame
import CylcModel.SchedAbsStart

namespace CylcModel.Sched

/-- all pre-start atoms of a prerequisite list are satisfied -/
def PreStartOk (g : Graph) (pre : List Pre) : Prop :=
  ∀ pr ∈ pre, ∀ e ∈ pr.atoms, e.1.pt < g.start → e.2 = true

theorem preStartOk_satisfy (g : Graph) (pre : List Pre) (a : Atom) (h : PreStartOk g pre) :
    PreStartOk g (pre.map (·.satisfy a)) := by
  intro pr hpr e he hlt
  obtain ⟨pr0, hpr0, rfl⟩ := List.mem_map.mp hpr
  obtain ⟨e0, he0, h1, h2⟩ := mem_satisfy_atoms he
  exact h2 (h pr0 hpr0 e0 he0 (by rw [← h1]; exact hlt))

theorem preStartOk_of_wf {g : Graph} (hwf : preStartSatB g = true) {n : String} {t : TaskDefn} {p : Int}
    {d : InstDef} (ht : g.task? n = some t) (hd : t.inst? p = some d) (hp : g.start ≤ p) :
    PreStartOk g d.pre := by
  unfold preStartSatB at hwf
  have h1 := List.all_eq_true.mp hwf t (task?_mem ht)
  have h2 := List.all_eq_true.mp h1 (p, d) (inst?_mem hd)
  simp only [Bool.or_eq_true, decide_eq_true_eq] at h2
  rcases h2 with h2 | h2
  · omega
  · intro pr hpr e he hlt
    have h3 := List.all_eq_true.mp h2 pr hpr
    have h4 := List.all_eq_true.mp h3 e he
    simp only [Bool.or_eq_true, Bool.not_eq_true', decide_eq_false_iff_not] at h4
    rcases h4 with h4 | h4
    · exact absurd hlt h4
    · exact h4

/-! ### the frame -/

def Q46 (g : Graph) (P : List Pre → Prop) (_s : State) (x : Proxy) : Prop := g.start ≤ x.pt ∧ P x.pre

def J46 (g : Graph) (s : State) : Prop :=
  (∀ h ∈ s.hist, g.start ≤ h.pt) ∧ (∀ l ∈ s.launched, g.start ≤ l.1)

theorem foldl_satisfyMe_P (P : List Pre → Prop) (hsat : ∀ pre a, P pre → P (pre.map (·.satisfy a)))
    (l : List Atom) (y : Proxy) (h : P y.pre) : P (l.foldl (fun z a => z.satisfyMe a) y).pre := by
  induction l generalizing y with
  | nil => exact h
  | cons a l ih =>
    simp only [List.foldl_cons]
    exact ih _ (hsat _ _ h)

/-- the warm-start frame, for any predicate on prerequisites that the graph grants to instances at or
after the start point and that atom satisfaction preserves -/
theorem frame46 (g : Graph) (P : List Pre → Prop)
    (hsat : ∀ pre a, P pre → P (pre.map (·.satisfy a)))
    (hinit : ∀ (n : String) (t : TaskDefn) (p : Int) (d : InstDef), g.task? n = some t → t.inst? p = some d →
      g.start ≤ p → P d.pre) :
    Frame g (Q46 g P) (J46 g) where
  qcongr := fun _ _ _ _ _ _ h => h
  jcongr := by
    intro s s' _ hh _ hl h
    unfold J46
    rw [hh, hl]; exact h
  upd := by
    intro s x x' h hs
    exact ⟨by rw [hs.1]; exact h.1, by rw [hs.2.2]; exact h.2⟩
  sat := by
    intro s x a h
    exact ⟨h.1, hsat _ _ h.2⟩
  spawn := by
    intro s n p z h hz
    rw [spawnTask_eq] at hz
    cases hc : spawnCore g s.hist n p with
    | none => simp [hc] at hz
    | some y =>
      simp only [hc, Option.map_some, Option.some.injEq] at hz
      obtain ⟨t, d, ht, hd, hp, hn, hpre, hst⟩ := spawnCore_some hc
      have hge : g.start ≤ p := by
        cases hl : lastHist s.hist n p with
        | none => have := hst hl; omega
        | some hh =>
          obtain ⟨hm, hpt⟩ := lastHist_mem hl
          have := h.2.1 hh hm
          omega
      have hy : P y.pre := by rw [hpre]; exact hinit n t p d ht hd hge
      subst hz
      refine ⟨by rw [(absFinish_key g s.absDone n y).1, hp]; exact hge, ?_⟩
      unfold absFinish
      split
      · split
        · exact foldl_satisfyMe_P P hsat _ _ hy
        · exact hy
      · exact hy
  add := by
    intro s z h hz _ _
    refine ⟨?_, h.2⟩
    intro x hx
    rcases List.mem_append.mp hx with hx | hx
    · exact h.1 x hx
    · simp at hx; subst hx; exact hz
  remove := by
    intro s x gh h hx
    refine ⟨?_, ?_, h.2.2⟩
    · intro y hy
      exact h.1 y (List.mem_filter.mp hy).1
    · intro hh hm
      rcases List.mem_append.mp hm with hm | hm
      · exact h.2.1 hh hm
      · simp at hm; subst hm; exact (h.1 x hx).1
  launch := by
    intro s x n h hx
    refine ⟨h.1, h.2.1, ?_⟩
    intro l hl
    rcases List.mem_append.mp hl with hl | hl
    · exact h.2.2 l hl
    · simp at hl; subst hl; exact hx.1
  clear := by
    intro s h
    refine ⟨h.1, h.2.1, ?_⟩
    intro l hl
    simp [clearOp] at hl

theorem absClosed46 (g : Graph) (P : List Pre → Prop) : AbsClosed (Q46 g P) (J46 g) := by
  intro s a h
  exact ⟨h.1, h.2⟩

theorem holds46_empty (g : Graph) (P : List Pre → Prop) : Holds (Q46 g P) (J46 g) ({} : State) := by
  refine ⟨?_, ?_, ?_⟩ <;> intro _ h <;> simp at h

/-- the warm-start invariant in every state of every run -/
theorem holds46_run (g : Graph) (P : List Pre → Prop)
    (hsat : ∀ pre a, P pre → P (pre.map (·.satisfy a)))
    (hinit : ∀ (n : String) (t : TaskDefn) (p : Int) (d : InstDef), g.task? n = some t → t.inst? p = some d →
      g.start ≤ p → P d.pre)
    (ops : List Op) : ∀ s ∈ run g ops, Holds (Q46 g P) (J46 g) s :=
  let F := frame46 g P hsat hinit
  F.holds_run (F.holds_spawnOnOutput (absClosed46 g P)) (holds46_empty g P) ops

end CylcModel.Sched
