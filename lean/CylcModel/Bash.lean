/-
Bash — executable model for C41 (literal task environment values reach the job unchanged).

Two parts.

1. `define`: port of `JobFileWriter._get_variable_value_definition` (cylc/flow/job_file.py) for an
   empty `param_var` map, and `bodyText`: the assignment lines `_write_runtime_environment` writes
   into `cylc__job__inst__user_env`.
2. `run`: a character-level state machine (a fold over the text) for the fragment of bash the
   generated function body lives in: simple commands made of one assignment word, double and
   single quoting, backslash escapes, `$NAME` / `${NAME}` inside double quotes, comments, a
   tilde-prefix at the start of the value.  Everything else bash could do (command substitution,
   further words on a line, metacharacters outside quotes ...) is answered `unsupported`: the
   model declines instead of guessing.  Bash itself is environment: assumed, validated by running
   the real `bash` on every generated case.

Texts are `List Char`.  Core Lean only.
-/
import CylcModel.Generated.BashCfg

namespace CylcModel.Bash

abbrev Str := List Char

/-! ## Python side -/

/-- `\s` of Python's `re` on `str` = `str.isspace` (table regenerated from the live interpreter) -/
def isPySpace (c : Char) : Bool := Generated.BashCfg.pySpace.contains c.toNat

/-- characters that make a value "shell text" for the repaired quoting (`[$`\\]`) -/
def isExpChar (c : Char) : Bool := c == '$' || c == '`' || c == '\\'

/-- the repaired `_get_variable_value_definition` escapes `"` in values free of `$`, backquote
and backslash; the unrepaired one never does (`esc` = `Generated.BashCfg.escapesDquote`) -/
def esc1 (c : Char) : Str := if c == '"' then ['\\', '"'] else [c]

def escape (esc : Bool) (v : Str) : Str :=
  if esc && !(v.any isExpChar) then v.flatMap esc1 else v

/-- `re.match(r"^(~[^/\s]*/)(.*)$", value)`: `some (head, tail)`.
`.` does not match a newline and `$` also matches before one final newline, which is then
not part of the tail. -/
def tildeSlash (v : Str) : Option (Str × Str) :=
  match v with
  | '~' :: r =>
    let pre := r.takeWhile (fun c => !(c == '/' || isPySpace c))
    match r.dropWhile (fun c => !(c == '/' || isPySpace c)) with
    | '/' :: tail =>
      let tail' := if tail.getLast? == some '\n' then tail.dropLast else tail
      if tail'.contains '\n' then none else some ('~' :: pre ++ ['/'], tail')
    | _ => none
  | _ => none

/-- `re.match(r"^~[^\s]*$", value)` -/
def tildeBare (v : Str) : Bool :=
  match v with
  | '~' :: r =>
    let r' := if r.getLast? == some '\n' then r.dropLast else r
    !(r'.any isPySpace)
  | _ => false

/-- `_get_variable_value_definition(value, {})` -/
def define (esc : Bool) (value : Str) : Str :=
  let v := escape esc value
  match tildeSlash v with
  | some (head, tail) => head ++ ['"'] ++ tail ++ ['"']
  | none => if tildeBare v then v else ['"'] ++ v ++ ['"']

/-- one assignment line of the function body, with the newline that ends it -/
def line (esc : Bool) (d : Str × Str) : Str :=
  "    ".toList ++ d.1 ++ ['='] ++ define esc d.2 ++ ['\n']

/-- The text between the `export ...` line and the closing `}` of `cylc__job__inst__user_env`
(`"\n    A=...\n    B=...\n"`). -/
def bodyText (esc : Bool) (defs : List (Str × Str)) : Str :=
  '\n' :: defs.flatMap (line esc)

/-! ## bash side -/

abbrev Env := List (Str × Str)

def Env.get (e : Env) (n : Str) : Option Str := (e.find? (fun p => p.1 == n)).map (·.2)
def Env.set (e : Env) (n v : Str) : Env := (n, v) :: e.filter (fun p => !(p.1 == n))

def isNameStart (c : Char) : Bool := c.isAlpha || c == '_'
def isNameChar (c : Char) : Bool := c.isAlphanum || c == '_'

/-- unquoted characters the model does not interpret -/
def isMeta (c : Char) : Bool :=
  c == '$' || c == '`' || c == ';' || c == '&' || c == '|' || c == '<' || c == '>' ||
  c == '(' || c == ')' || c == '~'

/-- after `$` inside double quotes these start an expansion the model does not interpret -/
def isDollarSpecial (c : Char) : Bool :=
  c == '(' || c == '[' || c == '?' || c == '$' || c == '!' || c == '#' || c == '*' || c == '@' ||
  c == '-' || c == '\'' || c.isDigit

inductive Mode
  | start                 -- between commands
  | comment (next : Bool) -- in a `#` comment; `next` = an assignment is pending
  | lhs (n : Str)         -- reading the name of an assignment word
  | vstart                -- right after `NAME=`
  | tilde (p : Str)       -- reading a tilde-prefix (unquoted characters after the `~`)
  | plain                 -- in the value, outside quotes
  | plainBs               -- ... after a backslash
  | dq | dqBs | dqDollar | dqVar (v : Str) | dqBrace (v : Str)
  | sq
  | after                 -- the assignment word has ended, the command has not
  deriving Repr, DecidableEq

inductive Status | run | unsupported
  deriving Repr, DecidableEq

structure St where
  mode : Mode := .start
  name : Str := []
  val : Str := []
  env : Env := []
  status : Status := .run
  deriving Repr, DecidableEq

/-- tilde expansion of a completed tilde-prefix `~p`: `none` = not interpreted by the model -/
def expandTilde (homes : Env) (env : Env) (p : Str) : Option Str :=
  match p with
  | [] => env.get "HOME".toList
  | c :: _ =>
    if c == '+' || c == '-' || c.isDigit then none
    else some ((homes.get p).getD ('~' :: p))

def commit (s : St) : St := { s with mode := .start, env := s.env.set s.name s.val, name := [], val := [] }
def bad (s : St) : St := { s with status := .unsupported }
def push (s : St) (c : Char) : St := { s with val := s.val ++ [c] }
def pushs (s : St) (cs : Str) : St := { s with val := s.val ++ cs }

/-- end of the assignment word at an unquoted blank (`nl = false`) or newline (`nl = true`) -/
def endWord (s : St) (nl : Bool) : St := if nl then commit s else { s with mode := .after }

/-- an unquoted character of the value (modes `plain`, and `vstart`/`tilde` once decided) -/
def plainChar (s : St) (c : Char) : St :=
  if c == '"' then { s with mode := .dq }
  else if c == '\'' then { s with mode := .sq }
  else if c == '\\' then { s with mode := .plainBs }
  else if c == ' ' || c == '\t' then endWord s false
  else if c == '\n' then endWord s true
  else if isMeta c then bad s
  else push { s with mode := .plain } c

/-- a character inside double quotes (mode `dq`) -/
def dqChar (s : St) (c : Char) : St :=
  if c == '"' then { s with mode := .plain }
  else if c == '\\' then { s with mode := .dqBs }
  else if c == '$' then { s with mode := .dqDollar }
  else if c == '`' then bad s
  else push { s with mode := .dq } c

def lookupVar (s : St) (v : Str) : Str := (s.env.get v).getD []

def step (homes : Env) (s : St) (c : Char) : St :=
  match s.status with
  | .unsupported => s
  | .run =>
  match s.mode with
  | .start =>
    if c == ' ' || c == '\t' || c == '\n' then s
    else if c == '#' then { s with mode := .comment false }
    else if isNameStart c then { s with mode := .lhs [c] }
    else bad s
  | .comment next =>
    if c == '\n' then (if next then commit s else { s with mode := .start }) else s
  | .lhs n =>
    if isNameChar c then { s with mode := .lhs (n ++ [c]) }
    else if c == '=' then { s with mode := .vstart, name := n, val := [] }
    else bad s
  | .vstart =>
    if c == '~' then { s with mode := .tilde [] } else plainChar s c
  | .tilde p =>
    if c == '/' || c == ':' || c == ' ' || c == '\t' || c == '\n' then
      match expandTilde homes s.env p with
      | none => bad s
      | some h =>
        if c == ':' then bad s        -- a further tilde-prefix may follow: not interpreted
        else plainChar (pushs s h) c
    else if c == '"' || c == '\'' || c == '\\' then
      -- a quoted character: no tilde-prefix, the text read so far is literal
      plainChar (pushs s ('~' :: p)) c
    else if isMeta c then bad s
    else { s with mode := .tilde (p ++ [c]) }
  | .plain => plainChar s c
  | .plainBs => if c == '\n' then bad s else push { s with mode := .plain } c
  | .dq => dqChar s c
  | .dqBs =>
    if c == '$' || c == '`' || c == '"' || c == '\\' then push { s with mode := .dq } c
    else if c == '\n' then { s with mode := .dq }
    else push (push { s with mode := .dq } '\\') c
  | .dqDollar =>
    if isNameStart c then { s with mode := .dqVar [c] }
    else if c == '{' then { s with mode := .dqBrace [] }
    else if isDollarSpecial c || c == '\\' then bad s   -- (`$\<newline>NAME`: the continuation is removed first)
    else dqChar (push { s with mode := .dq } '$') c
  | .dqVar v =>
    if isNameChar c then { s with mode := .dqVar (v ++ [c]) }
    else dqChar (pushs { s with mode := .dq } (lookupVar s v)) c
  | .dqBrace v =>
    if c == '}' then
      (match v with
       | [] => bad s
       | _ => pushs { s with mode := .dq } (lookupVar s v))
    else if (v.isEmpty && isNameStart c) || (!v.isEmpty && isNameChar c) then { s with mode := .dqBrace (v ++ [c]) }
    else bad s
  | .sq => if c == '\'' then { s with mode := .plain } else push s c
  | .after =>
    if c == ' ' || c == '\t' then s
    else if c == '\n' then commit s
    else if c == '#' then { s with mode := .comment true }
    else bad s

inductive Outcome
  | ok (env : Env)
  | syntax          -- end of text inside a quotation: bash rejects the whole function
  | unsupported     -- outside the modelled fragment
  deriving Repr, DecidableEq

/-- What the end of the body text (the line `}` follows) makes of the final state. -/
def finish (s : St) : Outcome :=
  match s.status with
  | .unsupported => .unsupported
  | .run =>
    match s.mode with
    | .dq | .dqBs | .dqDollar | .dqVar _ | .dqBrace _ | .sq => .syntax
    | .start => .ok s.env
    | _ => .unsupported   -- (not reachable: the body text always ends with a newline)

/-- Run the body text of the environment function in environment `env`. -/
def run (homes : Env) (text : Str) (env : Env) : Outcome :=
  finish (text.foldl (step homes) { env := env })

/-- `WorkflowConfig.filter_env` (cylc/flow/config.py) on one namespace: `[environment filter]`
`include` (empty = everything) / `exclude` decide MEMBERSHIP only; the order stays the
configuration order of `[environment]` -/
def filterEnv (incl excl : List Str) (defs : List (Str × Str)) : List (Str × Str) :=
  defs.filter fun d => (incl.isEmpty || incl.contains d.1) && !excl.contains d.1

/-- the whole pipeline: definitions -> function body -> bash -/
def exportEnv (esc : Bool) (homes : Env) (defs : List (Str × Str)) (env : Env) : Outcome :=
  run homes (bodyText esc defs) env

end CylcModel.Bash
