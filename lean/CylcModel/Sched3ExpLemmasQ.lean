/-
`queue_*`: no primitive of the `Sched3Exp` model but the op `msg` (append) and `processQueue` (reset) touches the
message queue.  Generated mechanically from the `expLog_*` family of `Sched3ExpLemmas` (same proofs, other field);
used to carry "no job message `expired` is queued" (`QueueOK`) through a main loop up to `processQueue`.
-/
import CylcModel.Sched3ExpLemmas

namespace CylcModel.Sched3Exp


theorem queue_spawnTask (g : Graph) (s : State) (n : String) (p : Int) :
    (spawnTask g s n p).1.queue = s.queue := by
  rw [spawnTask_state]


theorem queue_add (s : State) (x : Proxy) : (s.add x).queue = s.queue := by
  unfold State.add; split <;> rfl


theorem queue_spawnAndAdd (g : Graph) (s : State) (n : String) (p : Int) :
    (spawnAndAdd g s n p).queue = s.queue := by
  unfold spawnAndAdd
  split
  · rfl
  · split
    · rename_i h; rw [queue_add]; have := queue_spawnTask g s n p; rw [h] at this; exact this
    · rename_i h; have := queue_spawnTask g s n p; rw [h] at this; exact this


theorem queue_spawnNextParentless (g : Graph) (s : State) (x : Proxy) :
    (spawnNextParentless g s x).queue = s.queue := by
  unfold spawnNextParentless
  split
  · rfl
  · split
    · exact queue_spawnAndAdd _ _ _ _
    · rfl


theorem queue_computeRunahead (g : Graph) (s : State) (f : Bool) :
    (computeRunahead g s f).queue = s.queue := by
  unfold computeRunahead
  simp only
  split
  · rfl
  · split <;> rfl


theorem queue_releaseRunahead (g : Graph) (s : State) : (releaseRunahead g s).1.queue = s.queue := by
  unfold releaseRunahead
  split
  · rfl
  · split
    · rfl
    · simp only
      apply foldl_inv (fun st : State => st.queue = s.queue)
      · intro st x hst
        rw [queue_spawnNextParentless]
        split
        · exact hst
        · exact hst
      · rfl


theorem queue_releaseHeldActive (s : State) (x : Proxy) : (releaseHeldActive s x).queue = s.queue := by
  unfold releaseHeldActive
  simp only
  split <;> rfl


theorem queue_holdActive (s : State) (x : Proxy) : (holdActive s x).queue = s.queue := by
  unfold holdActive
  simp only
  split <;> rfl


theorem queue_remove (g : Graph) (s : State) (x : Proxy) : (remove g s x).queue = s.queue := by
  unfold remove
  simp only
  split
  · rw [queue_spawnNextParentless, queue_releaseHeldActive]
  · rw [queue_releaseHeldActive]


theorem queue_removeIfComplete (g : Graph) (s : State) (x : Proxy) :
    (removeIfComplete g s x).queue = s.queue := by
  unfold removeIfComplete
  split
  · rfl
  · simp only
    have key : ∀ s1 : State, s1.queue = s.queue →
        (match g.task? x.name with
          | none => s1
          | some t => if isComplete t x.done = true then remove g s1 x else s1).queue = s.queue := by
      intro s1 h1
      split
      · exact h1
      · split
        · rw [queue_remove]; exact h1
        · exact h1
    apply key
    split <;> rfl


theorem queue_put (s : State) (x : Proxy) : (s.put x).queue = s.queue := rfl


theorem queue_spawnChildFin (p : Int) (n out : String) (sui : List (Int × String)) (c : Child)
    (st1 : State) (ch : Option Proxy) (inPool : Bool) :
    (spawnChildFin p n out sui c st1 ch inPool).1.queue = st1.queue := by
  unfold spawnChildFin
  split
  · rfl
  · refine foldl_inv (fun a : State × List (Int × String) => a.1.queue = st1.queue) _ ?_ _ _ ?_
    · intro a k ha
      simp only
      split
      · exact ha
      · exact ha
    · simp only
      split
      · rfl
      · rw [queue_add]


theorem queue_spawnChild (g : Graph) (p : Int) (n out : String) (acc : State × List (Int × String)) (c : Child) :
    (spawnChild g p n out acc c).1.queue = acc.1.queue := by
  obtain ⟨st, sui⟩ := acc
  rw [spawnChild_eq]
  simp only
  have h0 : (if (c.isAbs && !st.absDone.contains ⟨p, n, out⟩) = true then
      { st with absDone := st.absDone ++ [⟨p, n, out⟩] } else st).queue = st.queue := by
    split <;> rfl
  generalize (if (c.isAbs && !st.absDone.contains ⟨p, n, out⟩) = true then
      { st with absDone := st.absDone ++ [⟨p, n, out⟩] } else st) = st0 at h0 ⊢
  split
  · rw [queue_spawnChildFin]; exact h0
  · rw [queue_spawnChildFin, queue_spawnTask]; exact h0


theorem queue_spawnOnOutput (g : Graph) (s : State) (p : Int) (n out : String) :
    (spawnOnOutput g s p n out).queue = s.queue := by
  unfold spawnOnOutput
  split
  · rfl
  · simp only
    have h1 : ∀ (cs : List Child) (acc : State × List (Int × String)),
        (cs.foldl (spawnChild g p n out) acc).1.queue = acc.1.queue := by
      intro cs; induction cs with
      | nil => intro acc; rfl
      | cons c cs ih => intro acc; simp only [List.foldl_cons]; rw [ih, queue_spawnChild]
    have h2 : ∀ (ks : List (Int × String)) (st : State),
        (ks.foldl (fun (st : State) k => match st.get? k.1 k.2 with
          | some z => remove g st z
          | none => st) st).queue = st.queue := by
      intro ks; induction ks with
      | nil => intro st; rfl
      | cons k ks ih =>
        intro st
        simp only [List.foldl_cons]
        rw [ih]
        split
        · rw [queue_remove]
        · rfl
    generalize hR : (List.foldl (spawnChild g p n out) (s, []) _) = R
    have hRn : R.1.queue = s.queue := by rw [← hR, h1]
    have h3 := h2 R.2 R.1
    split
    · rw [queue_removeIfComplete]; exact h3.trans hRn
    · exact h3.trans hRn


theorem queue_store (s : State) (x : Proxy) (tr : Bool) : (store s x tr).queue = s.queue := by
  unfold store; split <;> rfl


theorem queue_histOutputs (s : State) (p : Int) (n : String) : (histOutputs s p n).queue = s.queue := by
  unfold histOutputs
  split
  · split <;> rfl
  · rfl


theorem queue_spawnChildren (g : Graph) (s : State) (p : Int) (n out : String) (tr : Bool) :
    (spawnChildren g s p n out tr).queue = s.queue := by
  unfold spawnChildren; split
  · exact queue_histOutputs _ _ _
  · exact queue_spawnOnOutput _ _ _ _ _


theorem queue_pmFinal (g : Graph) (s : State) (p : Int) (n : String) (x : Proxy) (tr : Bool) (st : Status)
    (out : String) : (pmFinal g s p n x tr st out).queue = s.queue := by
  unfold pmFinal
  simp only
  rw [queue_spawnChildren, queue_store]


theorem queue_checkStalled (g : Graph) (s : State) : (checkStalled g s).queue = s.queue := by
  unfold checkStalled; split
  · rfl
  · split
    · rfl
    · split <;> rfl


theorem queue_checkAutoShutdown (g : Graph) (s : State) : (checkAutoShutdown g s).1.queue = s.queue := by
  unfold checkAutoShutdown
  split
  · rfl
  · simp only
    split
    · exact queue_checkStalled _ _
    · split
      · exact queue_checkStalled _ _
      · exact queue_checkStalled _ _


theorem queue_stopTaskDone (s : State) : (stopTaskDone s).1.queue = s.queue := by
  unfold stopTaskDone; split <;> rfl


theorem queue_queueIfReady (s : State) (x : Proxy) : (queueIfReady s x).queue = s.queue := by
  unfold queueIfReady; split <;> rfl


theorem queue_sweepQueue (s : State) : (sweepQueue s).queue = s.queue := by
  unfold sweepQueue
  refine foldl_inv (fun st : State => st.queue = s.queue) _ ?_ _ _ rfl
  intro st x hst
  split
  · split
    · rw [queue_queueIfReady]; exact hst
    · exact hst
  · exact hst


theorem queue_finishLoop (g : Graph) (s : State) : (finishLoop g s).queue = s.queue := by
  unfold finishLoop
  extract_lets hasUpd s1 s2 s3
  have h1 : s1.queue = s.queue := by simp only [s1]; split <;> rfl
  have h2 : s2.queue = s.queue := by simp only [s2]; split <;> exact h1
  have h3 : s3.queue = s.queue := h2
  split
  · rw [queue_checkStalled]; exact h3
  · exact h3




theorem queue_submitOne (s : State) (x : Proxy) : (submitOne s x).queue = s.queue := rfl


theorem queue_releaseSubmitOne (rel : Bool) (s : State) (x : Proxy) :
    (releaseSubmitOne rel s x).queue = s.queue := rfl

theorem queue_releaseAndSubmit (s : State) : (releaseAndSubmit s).queue = s.queue := by
  unfold releaseAndSubmit
  extract_lets trig s1 pre
  have h1 : s1.queue = s.queue := rfl
  split
  · exact h1
  · show (List.foldl (releaseSubmitOne (!s1.paused)) s1 pre).queue = s.queue
    exact foldl_inv (fun st : State => st.queue = s.queue) (releaseSubmitOne (!s1.paused))
      (fun st x h => (queue_releaseSubmitOne _ st x).trans h) _ _ h1

theorem queue_setHoldPoint (s : State) (p : Int) : (setHoldPoint s p).queue = s.queue := by
  unfold setHoldPoint
  simp only
  refine foldl_inv (fun st : State => st.queue = s.queue) _ ?_ _ _ rfl
  intro st x hst
  split
  · split
    · rw [queue_holdActive]; exact hst
    · exact hst
  · exact hst


theorem queue_holdTasks (s : State) (ids : List (Int × String)) : (holdTasks s ids).queue = s.queue := by
  unfold holdTasks
  refine foldl_inv (fun st : State => st.queue = s.queue) _ ?_ _ _ rfl
  intro st k hst
  split
  · rw [queue_holdActive]; exact hst
  · split
    · exact hst
    · exact hst


theorem queue_releaseTasks (s : State) (ids : List (Int × String)) : (releaseTasks s ids).queue = s.queue := by
  unfold releaseTasks
  refine foldl_inv (fun st : State => st.queue = s.queue) _ ?_ _ _ rfl
  intro st k hst
  split
  · exact hst
  · split
    · rw [queue_releaseHeldActive]; exact hst
    · exact hst


theorem queue_releaseHoldPoint (s : State) : (releaseHoldPoint s).queue = s.queue := by
  unfold releaseHoldPoint
  simp only
  refine foldl_inv (fun st : State => st.queue = s.queue) _ ?_ _ _ rfl
  intro st x hst
  split
  · rw [queue_releaseHeldActive]; exact hst
  · exact hst


theorem queue_setStopPoint (s : State) (p : Int) : (setStopPoint s p).queue = s.queue := by
  unfold setStopPoint
  split
  · rfl
  · simp only
    split
    · split <;> rfl
    · rfl



theorem queue_queueOrTrigger (s : State) (x : Proxy) : (queueOrTrigger s x).queue = s.queue := by
  unfold queueOrTrigger
  split
  · rfl
  · simp only
    split <;> rfl


theorem queue_trigger (g : Graph) (s : State) (p : Int) (n : String) : (trigger g s p n).queue = s.queue := by
  unfold trigger
  split
  · rfl
  · simp only
    rw [queue_releaseRunahead]
    split
    · rfl
    · exact queue_queueOrTrigger _ _


theorem queue_processExpired (g : Graph) (s : State) (x : Proxy) (tr : Bool) :
    (processExpired g s x tr).queue = s.queue := by
  unfold processExpired
  extract_lets y changed s0 s1
  have h1 : s1.queue = s.queue := by
    simp only [s1, s0]; rw [queue_spawnChildren, queue_store]
  split
  · exact h1
  · exact h1

theorem queue_pmDispatch (g : Graph) (s : State) (p : Int) (n : String) (flag : Flag) (msg : String)
    (c : Option Bool) (x : Proxy) (tr : Bool) : (pmDispatch g s p n flag msg c x tr).1.queue = s.queue := by
  unfold pmDispatch
  repeat' split
  all_goals first
    | rfl
    | (simp only [queue_spawnChildren, queue_store, queue_pmFinal, queue_processExpired])
    | (rw [queue_spawnChildren])

theorem queue_processMessage (g : Graph) : ∀ (fuel : Nat) (s : State) (p : Int) (n : String) (flag : Flag)
    (sn : Nat) (msg : String), (processMessage g fuel s p n flag sn msg).1.queue = s.queue := by
  intro fuel
  induction fuel with
  | zero => intro s p n flag sn msg; rfl
  | succ fuel ih =>
    intro s p n flag sn msg
    unfold processMessage
    split
    · rfl
    · rename_i x tr _
      split
      · rfl
      · simp only
        have himp : ∀ (l : List String) (st : State),
            (l.foldl (fun st m => (processMessage g fuel st p n .internal sn m).1) st).queue = st.queue := by
          intro l; induction l with
          | nil => intro st; rfl
          | cons a l ihl => intro st; simp only [List.foldl_cons]; rw [ihl, ih]
        generalize hS : (List.foldl (fun st m => (processMessage g fuel st p n Flag.internal sn m).1) _ _) = S
        have hSn : S.queue = s.queue := by rw [← hS, himp, queue_store]
        split
        · exact hSn
        · rw [queue_pmDispatch]; exact hSn

theorem queue_clockExpireOne (g : Graph) (s : State) (k : Int × String) : (clockExpireOne g s k).queue = s.queue := by
  unfold clockExpireOne
  split
  · rfl
  · split
    · exact queue_processMessage _ _ _ _ _ _ _ _
    · rfl

theorem queue_clockExpireTasks (g : Graph) (s : State) : (clockExpireTasks g s).queue = s.queue := by
  unfold clockExpireTasks
  exact foldl_inv (fun st : State => st.queue = s.queue) (clockExpireOne g)
    (fun st k h => (queue_clockExpireOne g st k).trans h) _ _ rfl

end CylcModel.Sched3Exp
