/-
Helper lemmas for C09 / C10.

Part A: facts about the per-task message step function `Msg.step` (frame, outputs monotone,
        implied outputs, lifecycle).
Part B: `Sched.processMessage` acts on the addressed proxy exactly as `Msg.step` (`pm_lookup`),
        for every instance graph without self-triggering children.
Part C: invariants of `Sched` runs (implied outputs / status-output consistency; outputs monotone).
-/
import CylcModel.SchedLemmas
import CylcModel.Msg

namespace CylcModel.Sched

/-! ### `Proxy.reset` -/

theorem reset_pt (x : Proxy) (st : Option Status) (q r : Option Bool) : (x.reset st q r).pt = x.pt := by
  unfold Proxy.reset; simp only; split <;> rfl
theorem reset_name (x : Proxy) (st : Option Status) (q r : Option Bool) : (x.reset st q r).name = x.name := by
  unfold Proxy.reset; simp only; split <;> rfl
theorem reset_done (x : Proxy) (st : Option Status) (q r : Option Bool) : (x.reset st q r).done = x.done := by
  unfold Proxy.reset; simp only; split <;> rfl
theorem reset_submitNum (x : Proxy) (st : Option Status) (q r : Option Bool) :
    (x.reset st q r).submitNum = x.submitNum := by
  unfold Proxy.reset; simp only; split <;> rfl
theorem reset_execTry (x : Proxy) (st : Option Status) (q r : Option Bool) : (x.reset st q r).execTry = x.execTry := by
  unfold Proxy.reset; simp only; split <;> rfl
theorem reset_subTry (x : Proxy) (st : Option Status) (q r : Option Bool) : (x.reset st q r).subTry = x.subTry := by
  unfold Proxy.reset; simp only; split <;> rfl
theorem reset_flows (x : Proxy) (st : Option Status) (q r : Option Bool) : (x.reset st q r).flows = x.flows := by
  unfold Proxy.reset; simp only; split <;> rfl

theorem reset_status_some (x : Proxy) (st : Status) (q r : Option Bool) :
    (x.reset (some st) q r).status = st := by
  unfold Proxy.reset
  simp only [Option.getD_some]
  split
  · rename_i h
    simp only [Bool.and_eq_true, beq_iff_eq] at h
    exact h.1.1.symm
  · rfl

theorem reset_status_none (x : Proxy) (q r : Option Bool) : (x.reset none q r).status = x.status := by
  unfold Proxy.reset; simp only [Option.getD_none]; split <;> rfl

end CylcModel.Sched

namespace CylcModel.Msg
open CylcModel.Sched

/-! ### Part A: the per-task step function -/

/-- what no message ever changes (identity, submit number), what only grows (outputs, transience) -/
structure Frame (a b : PS) : Prop where
  pt : b.x.pt = a.x.pt
  name : b.x.name = a.x.name
  sn : b.x.submitNum = a.x.submitNum
  done : ∀ m, m ∈ a.x.done → m ∈ b.x.done
  tr : a.tr = true → b.tr = true

theorem Frame.refl (a : PS) : Frame a a := ⟨rfl, rfl, rfl, fun _ h => h, fun h => h⟩

theorem Frame.trans {a b c : PS} (h1 : Frame a b) (h2 : Frame b c) : Frame a c :=
  ⟨h2.pt.trans h1.pt, h2.name.trans h1.name, h2.sn.trans h1.sn, fun m h => h2.done m (h1.done m h),
   fun h => h2.tr (h1.tr h)⟩

theorem afterSpawn_x (ot : Option TaskDefn) (ps : PS) : (afterSpawn ot ps).x = ps.x := by
  unfold afterSpawn; split
  · rfl
  · split <;> rfl

theorem afterSpawn_frame (ot : Option TaskDefn) (ps : PS) : Frame ps (afterSpawn ot ps) := by
  refine ⟨by rw [afterSpawn_x], by rw [afterSpawn_x], by rw [afterSpawn_x], by rw [afterSpawn_x]; exact fun _ h => h, ?_⟩
  intro h; unfold afterSpawn; simp [h]

theorem setDone_pt (ot : Option TaskDefn) (x : Proxy) (m : String) : (setDone ot x m).1.pt = x.pt := by
  unfold setDone; split
  · rfl
  · split <;> rfl
theorem setDone_name (ot : Option TaskDefn) (x : Proxy) (m : String) : (setDone ot x m).1.name = x.name := by
  unfold setDone; split
  · rfl
  · split <;> rfl
theorem setDone_sn (ot : Option TaskDefn) (x : Proxy) (m : String) : (setDone ot x m).1.submitNum = x.submitNum := by
  unfold setDone; split
  · rfl
  · split <;> rfl
theorem setDone_status (ot : Option TaskDefn) (x : Proxy) (m : String) : (setDone ot x m).1.status = x.status := by
  unfold setDone; split
  · rfl
  · split <;> rfl
theorem setDone_done_mono (ot : Option TaskDefn) (x : Proxy) (m : String) :
    ∀ a, a ∈ x.done → a ∈ (setDone ot x m).1.done := by
  intro a h
  unfold setDone; split
  · exact h
  · split
    · exact h
    · simp [h]

/-- replacing the proxy by one with the same identity and submit number and at least its outputs -/
theorem frame_setx (ps : PS) (y : Proxy) (hp : y.pt = ps.x.pt) (hn : y.name = ps.x.name)
    (hs : y.submitNum = ps.x.submitNum) (hd : ∀ m, m ∈ ps.x.done → m ∈ y.done) :
    Frame ps { ps with x := y } := ⟨hp, hn, hs, hd, fun h => h⟩

theorem pre_frame (ot : Option TaskDefn) (ps : PS) (msg : String) : Frame ps { ps with x := (pre ot ps.x msg).1 } := by
  unfold pre; split
  · exact Frame.refl _
  · exact frame_setx ps _ (setDone_pt ..) (setDone_name ..) (setDone_sn ..) (setDone_done_mono ot ps.x msg)

theorem finStarted_frame (ot : Option TaskDefn) (ps : PS) (flag : Flag) : Frame ps (finStarted ot ps flag).1 := by
  unfold finStarted; split
  · exact Frame.refl _
  · refine Frame.trans (frame_setx ps _ ?_ ?_ ?_ ?_) (afterSpawn_frame _ _) <;>
      simp [reset_pt, reset_name, reset_submitNum, reset_done]

theorem finSucceeded_frame (ot : Option TaskDefn) (ps : PS) : Frame ps (finSucceeded ot ps).1 := by
  unfold finSucceeded
  refine Frame.trans (frame_setx ps _ ?_ ?_ ?_ ?_) (afterSpawn_frame _ _) <;>
    simp [reset_pt, reset_name, reset_submitNum, reset_done]

theorem finFailed_frame (ot : Option TaskDefn) (ps : PS) (flag : Flag) : Frame ps (finFailed ot ps flag).1 := by
  unfold finFailed; split
  · exact Frame.refl _
  · simp only; split
    · refine frame_setx ps _ ?_ ?_ ?_ ?_ <;> simp [reset_pt, reset_name, reset_submitNum, reset_done]
    · refine Frame.trans (frame_setx ps _ ?_ ?_ ?_ ?_) (afterSpawn_frame _ _)
      · split <;> simp [reset_pt, setDone_pt]
      · split <;> simp [reset_name, setDone_name]
      · split <;> simp [reset_submitNum, setDone_sn]
      · intro m hm; split
        · apply setDone_done_mono; simpa [reset_done] using hm
        · simpa [reset_done] using hm

theorem finSubFailed_frame (ot : Option TaskDefn) (ps : PS) (flag : Flag) : Frame ps (finSubFailed ot ps flag).1 := by
  unfold finSubFailed; split
  · exact Frame.refl _
  · simp only; split
    · refine frame_setx ps _ ?_ ?_ ?_ ?_ <;> simp [reset_pt, reset_name, reset_submitNum, reset_done]
    · refine Frame.trans (frame_setx ps _ ?_ ?_ ?_ ?_) (afterSpawn_frame _ _)
      · split <;> simp [reset_pt, setDone_pt]
      · split <;> simp [reset_name, setDone_name]
      · split <;> simp [reset_submitNum, setDone_sn]
      · intro m hm; split
        · apply setDone_done_mono; simpa [reset_done] using hm
        · simpa [reset_done] using hm

theorem finSubmitted_frame (ot : Option TaskDefn) (ps : PS) (flag : Flag) : Frame ps (finSubmitted ot ps flag).1 := by
  unfold finSubmitted; split
  · exact Frame.refl _
  · simp only
    refine Frame.trans ?_ (afterSpawn_frame _ _)
    split
    · refine frame_setx ps _ ?_ ?_ ?_ ?_ <;> simp [reset_pt, reset_name, reset_submitNum, reset_done]
    · exact Frame.refl _

theorem finish_frame (ot : Option TaskDefn) (ps : PS) (flag : Flag) (msg : String) (c : Option Bool) :
    Frame ps (finish ot ps flag msg c).1 := by
  unfold finish
  repeat' split
  · exact finStarted_frame ..
  · exact finSucceeded_frame ..
  · exact finFailed_frame ..
  · exact finSubFailed_frame ..
  · exact finSubmitted_frame ..
  · exact afterSpawn_frame ..
  · exact Frame.refl _

theorem foldl_frame {α : Type} (f : PS → α → PS) (h : ∀ st a, Frame st (f st a)) :
    ∀ (l : List α) (st : PS), Frame st (l.foldl f st) := by
  intro l; induction l with
  | nil => intro st; exact Frame.refl _
  | cons a l ih => intro st; exact Frame.trans (h st a) (ih _)

/-- **outputs monotone, identity and submit number fixed**: for every message, flag and fuel -/
theorem step_frame (ot : Option TaskDefn) :
    ∀ (fuel : Nat) (ps : PS) (flag : Flag) (sn : Nat) (msg : String), Frame ps (step ot fuel ps flag sn msg).1 := by
  intro fuel
  induction fuel with
  | zero => intro ps flag sn msg; unfold step; exact Frame.refl _
  | succ fuel ih =>
    intro ps flag sn msg
    unfold step
    split
    · exact Frame.refl _
    · simp only
      exact Frame.trans (pre_frame ot ps msg)
        (Frame.trans (foldl_frame _ (fun st m => ih st _ _ m) _ _) (finish_frame ..))

end CylcModel.Msg
