/-
Helper lemmas for C09 / C10.

Part A: facts about the per-task message step function `Msg.step` (frame, outputs monotone,
        implied outputs, lifecycle).
Part B: `Sched.processMessage` acts on the addressed proxy exactly as `Msg.step` (`pm_lookup`),
        for every instance graph without self-triggering children.
Part C: invariants of `Sched` runs (implied outputs / status-output consistency; outputs monotone).
-/
import CylcModel.SchedLemmas
import CylcModel.Msg

namespace CylcModel.Sched

/-! ### `Proxy.reset` -/

theorem reset_pt (x : Proxy) (st : Option Status) (q r : Option Bool) : (x.reset st q r).pt = x.pt := by
  unfold Proxy.reset; simp only; split <;> rfl
theorem reset_name (x : Proxy) (st : Option Status) (q r : Option Bool) : (x.reset st q r).name = x.name := by
  unfold Proxy.reset; simp only; split <;> rfl
theorem reset_done (x : Proxy) (st : Option Status) (q r : Option Bool) : (x.reset st q r).done = x.done := by
  unfold Proxy.reset; simp only; split <;> rfl
theorem reset_submitNum (x : Proxy) (st : Option Status) (q r : Option Bool) :
    (x.reset st q r).submitNum = x.submitNum := by
  unfold Proxy.reset; simp only; split <;> rfl
theorem reset_execTry (x : Proxy) (st : Option Status) (q r : Option Bool) : (x.reset st q r).execTry = x.execTry := by
  unfold Proxy.reset; simp only; split <;> rfl
theorem reset_subTry (x : Proxy) (st : Option Status) (q r : Option Bool) : (x.reset st q r).subTry = x.subTry := by
  unfold Proxy.reset; simp only; split <;> rfl
theorem reset_flows (x : Proxy) (st : Option Status) (q r : Option Bool) : (x.reset st q r).flows = x.flows := by
  unfold Proxy.reset; simp only; split <;> rfl

theorem reset_status_some (x : Proxy) (st : Status) (q r : Option Bool) :
    (x.reset (some st) q r).status = st := by
  unfold Proxy.reset
  simp only [Option.getD_some]
  split
  · rename_i h
    simp only [Bool.and_eq_true, beq_iff_eq] at h
    exact h.1.1.symm
  · rfl

theorem reset_status_none (x : Proxy) (q r : Option Bool) : (x.reset none q r).status = x.status := by
  unfold Proxy.reset; simp only [Option.getD_none]; split <;> rfl

end CylcModel.Sched

namespace CylcModel.Msg
open CylcModel.Sched

/-! ### Part A: the per-task step function -/

/-- what no message ever changes (identity, submit number), what only grows (outputs, transience) -/
structure Frame (a b : PS) : Prop where
  pt : b.x.pt = a.x.pt
  name : b.x.name = a.x.name
  sn : b.x.submitNum = a.x.submitNum
  done : ∀ m, m ∈ a.x.done → m ∈ b.x.done
  tr : a.tr = true → b.tr = true

theorem Frame.refl (a : PS) : Frame a a := ⟨rfl, rfl, rfl, fun _ h => h, fun h => h⟩

theorem Frame.trans {a b c : PS} (h1 : Frame a b) (h2 : Frame b c) : Frame a c :=
  ⟨h2.pt.trans h1.pt, h2.name.trans h1.name, h2.sn.trans h1.sn, fun m h => h2.done m (h1.done m h),
   fun h => h2.tr (h1.tr h)⟩

theorem afterSpawn_x (ot : Option TaskDefn) (ps : PS) : (afterSpawn ot ps).x = ps.x := by
  unfold afterSpawn; split
  · rfl
  · split <;> rfl

theorem afterSpawn_frame (ot : Option TaskDefn) (ps : PS) : Frame ps (afterSpawn ot ps) := by
  refine ⟨by rw [afterSpawn_x], by rw [afterSpawn_x], by rw [afterSpawn_x], by rw [afterSpawn_x]; exact fun _ h => h, ?_⟩
  intro h; unfold afterSpawn; simp [h]

theorem setDone_pt (ot : Option TaskDefn) (x : Proxy) (m : String) : (setDone ot x m).1.pt = x.pt := by
  unfold setDone; split
  · rfl
  · split <;> rfl
theorem setDone_name (ot : Option TaskDefn) (x : Proxy) (m : String) : (setDone ot x m).1.name = x.name := by
  unfold setDone; split
  · rfl
  · split <;> rfl
theorem setDone_sn (ot : Option TaskDefn) (x : Proxy) (m : String) : (setDone ot x m).1.submitNum = x.submitNum := by
  unfold setDone; split
  · rfl
  · split <;> rfl
theorem setDone_status (ot : Option TaskDefn) (x : Proxy) (m : String) : (setDone ot x m).1.status = x.status := by
  unfold setDone; split
  · rfl
  · split <;> rfl
theorem setDone_done_mono (ot : Option TaskDefn) (x : Proxy) (m : String) :
    ∀ a, a ∈ x.done → a ∈ (setDone ot x m).1.done := by
  intro a h
  unfold setDone; split
  · exact h
  · split
    · exact h
    · simp [h]

/-- replacing the proxy by one with the same identity and submit number and at least its outputs -/
theorem frame_setx (ps : PS) (y : Proxy) (hp : y.pt = ps.x.pt) (hn : y.name = ps.x.name)
    (hs : y.submitNum = ps.x.submitNum) (hd : ∀ m, m ∈ ps.x.done → m ∈ y.done) :
    Frame ps { ps with x := y } := ⟨hp, hn, hs, hd, fun h => h⟩

theorem pre_frame (ot : Option TaskDefn) (ps : PS) (msg : String) : Frame ps { ps with x := (pre ot ps.x msg).1 } := by
  unfold pre; split
  · exact Frame.refl _
  · exact frame_setx ps _ (setDone_pt ..) (setDone_name ..) (setDone_sn ..) (setDone_done_mono ot ps.x msg)

theorem finStarted_frame (ot : Option TaskDefn) (ps : PS) (flag : Flag) : Frame ps (finStarted ot ps flag).1 := by
  unfold finStarted; split
  · exact Frame.refl _
  · refine Frame.trans (frame_setx ps _ ?_ ?_ ?_ ?_) (afterSpawn_frame _ _) <;>
      simp [reset_pt, reset_name, reset_submitNum, reset_done]

theorem finSucceeded_frame (ot : Option TaskDefn) (ps : PS) : Frame ps (finSucceeded ot ps).1 := by
  unfold finSucceeded
  refine Frame.trans (frame_setx ps _ ?_ ?_ ?_ ?_) (afterSpawn_frame _ _) <;>
    simp [reset_pt, reset_name, reset_submitNum, reset_done]

theorem finFailed_frame (ot : Option TaskDefn) (ps : PS) (flag : Flag) : Frame ps (finFailed ot ps flag).1 := by
  unfold finFailed; split
  · exact Frame.refl _
  · simp only; split
    · refine frame_setx ps _ ?_ ?_ ?_ ?_ <;> simp [reset_pt, reset_name, reset_submitNum, reset_done]
    · refine Frame.trans (frame_setx ps _ ?_ ?_ ?_ ?_) (afterSpawn_frame _ _)
      · split <;> simp [reset_pt, setDone_pt]
      · split <;> simp [reset_name, setDone_name]
      · split <;> simp [reset_submitNum, setDone_sn]
      · intro m hm; split
        · apply setDone_done_mono; simpa [reset_done] using hm
        · simpa [reset_done] using hm

theorem finSubFailed_frame (ot : Option TaskDefn) (ps : PS) (flag : Flag) : Frame ps (finSubFailed ot ps flag).1 := by
  unfold finSubFailed; split
  · exact Frame.refl _
  · simp only; split
    · refine frame_setx ps _ ?_ ?_ ?_ ?_ <;> simp [reset_pt, reset_name, reset_submitNum, reset_done]
    · refine Frame.trans (frame_setx ps _ ?_ ?_ ?_ ?_) (afterSpawn_frame _ _)
      · split <;> simp [reset_pt, setDone_pt]
      · split <;> simp [reset_name, setDone_name]
      · split <;> simp [reset_submitNum, setDone_sn]
      · intro m hm; split
        · apply setDone_done_mono; simpa [reset_done] using hm
        · simpa [reset_done] using hm

theorem finSubmitted_frame (ot : Option TaskDefn) (ps : PS) (flag : Flag) : Frame ps (finSubmitted ot ps flag).1 := by
  unfold finSubmitted; split
  · exact Frame.refl _
  · simp only
    refine Frame.trans ?_ (afterSpawn_frame _ _)
    split
    · refine frame_setx ps _ ?_ ?_ ?_ ?_ <;> simp [reset_pt, reset_name, reset_submitNum, reset_done]
    · exact Frame.refl _

theorem finish_frame (ot : Option TaskDefn) (ps : PS) (flag : Flag) (msg : String) (c : Option Bool) :
    Frame ps (finish ot ps flag msg c).1 := by
  unfold finish
  repeat' split
  · exact finStarted_frame ..
  · exact finSucceeded_frame ..
  · exact finFailed_frame ..
  · exact finSubFailed_frame ..
  · exact finSubmitted_frame ..
  · exact afterSpawn_frame ..
  · exact Frame.refl _

theorem foldl_frame {α : Type} (f : PS → α → PS) (h : ∀ st a, Frame st (f st a)) :
    ∀ (l : List α) (st : PS), Frame st (l.foldl f st) := by
  intro l; induction l with
  | nil => intro st; exact Frame.refl _
  | cons a l ih => intro st; exact Frame.trans (h st a) (ih _)

/-- **outputs monotone, identity and submit number fixed**: for every message, flag and fuel -/
theorem step_frame (ot : Option TaskDefn) :
    ∀ (fuel : Nat) (ps : PS) (flag : Flag) (sn : Nat) (msg : String), Frame ps (step ot fuel ps flag sn msg).1 := by
  intro fuel
  induction fuel with
  | zero => intro ps flag sn msg; unfold step; exact Frame.refl _
  | succ fuel ih =>
    intro ps flag sn msg
    unfold step
    split
    · exact Frame.refl _
    · simp only
      exact Frame.trans (pre_frame ot ps msg)
        (Frame.trans (foldl_frame _ (fun st m => ih st _ _ m) _ _) (finish_frame ..))

end CylcModel.Msg

namespace CylcModel.Msg
open CylcModel.Sched

/-- the "waiting with a retry lined up" guard -/
def guard2 (ps : PS) : Bool :=
  !ps.tr && ps.x.status == .waiting && ps.x.submitNum > 0 && (ps.x.subTry > 0 || ps.x.execTry > 0)

theorem dropped_internal (ps : PS) (sn : Nat) : dropped ps .internal sn = guard2 ps := by
  simp [dropped, guard2]

theorem dropped_polled (ps : PS) (sn : Nat) : dropped ps .polled sn = guard2 ps := by
  simp [dropped, guard2]

theorem step_eq (ot : Option TaskDefn) (f : Nat) (q : PS) (flag : Flag) (sn : Nat) (msg : String)
    (h : dropped q flag sn = false) :
    step ot (f + 1) q flag sn msg =
      finish ot ((implied (pre ot q.x msg).1 msg).foldl (fun st m => (step ot f st .internal sn m).1)
        { q with x := (pre ot q.x msg).1 }) flag msg (pre ot q.x msg).2 := by
  rw [step]; simp [h]

theorem step_dropped (ot : Option TaskDefn) (f : Nat) (q : PS) (flag : Flag) (sn : Nat) (msg : String)
    (h : dropped q flag sn = true) : step ot f q flag sn msg = (q, false) := by
  cases f with
  | zero => rw [step]
  | succ f => rw [step]; simp [h]

theorem step_submitted (ot : Option TaskDefn) (f : Nat) (q : PS) (flag : Flag) (sn : Nat)
    (h : dropped q flag sn = false) :
    step ot (f + 1) q flag sn "submitted" = finSubmitted ot { q with x := (setDone ot q.x "submitted").1 } flag := by
  rw [step]
  simp [h, pre, implied, finish]

/-- the proxy after the implied `submitted` (when it is not complete yet) -/
def withSub (ot : Option TaskDefn) (q : PS) : PS :=
  if q.x.isDone "submitted" then q
  else (finSubmitted ot { q with x := (setDone ot q.x "submitted").1 } .internal).1

theorem guard2_setDone (ot : Option TaskDefn) (q : PS) (m : String) :
    guard2 { q with x := (setDone ot q.x m).1 } = guard2 q := by
  unfold guard2 setDone
  split
  · rfl
  · split <;> rfl

theorem step_started (ot : Option TaskDefn) (f : Nat) (q : PS) (flag : Flag) (sn : Nat)
    (h : dropped q flag sn = false) (hg : guard2 q = false) :
    step ot (f + 2) q flag sn "started" =
      finStarted ot (withSub ot { q with x := (setDone ot q.x "started").1 }) flag := by
  rw [step]
  simp only [h, pre, implied, finish]
  simp
  unfold withSub
  cases hd : (setDone ot q.x "started").1.isDone "submitted"
  · have hg' : dropped { q with x := (setDone ot q.x "started").1 } .internal sn = false := by
      rw [dropped_internal, guard2_setDone]; exact hg
    simp [hd, step_submitted ot f _ .internal sn hg']
  · simp [hd]
end CylcModel.Msg

namespace CylcModel.Msg
open CylcModel.Sched

/-- the proxy after the implied `started` (when it is not complete yet) -/
def withSta (ot : Option TaskDefn) (q : PS) : PS :=
  if q.x.isDone "started" then q
  else (finStarted ot (withSub ot { q with x := (setDone ot q.x "started").1 }) .internal).1

theorem afterSpawn_tr_or (ot : Option TaskDefn) (ps : PS) : (afterSpawn ot ps).tr = ps.tr ∨ (afterSpawn ot ps).tr = true := by
  unfold afterSpawn; split
  · left; rfl
  · split
    · right; rfl
    · left; rfl

theorem guard2_afterSpawn (ot : Option TaskDefn) (ps : PS) (h : guard2 ps = false) : guard2 (afterSpawn ot ps) = false := by
  unfold guard2 at *
  rw [afterSpawn_x]
  rcases afterSpawn_tr_or ot ps with h1 | h1
  · rw [h1]; exact h
  · rw [h1]; simp

theorem guard2_withSub (ot : Option TaskDefn) (q : PS) (h : guard2 q = false) : guard2 (withSub ot q) = false := by
  unfold withSub
  split
  · exact h
  · unfold finSubmitted
    simp only [show (Flag.internal == Flag.received) = false from rfl, Bool.false_and, Bool.false_eq_true, if_false]
    apply guard2_afterSpawn
    split
    · unfold guard2
      simp [reset_status_some, reset_status_none]
    · rw [guard2_setDone]; exact h

theorem isDone_setDone_other (ot : Option TaskDefn) (x : Proxy) (m a : String) (h : a ≠ m) :
    (setDone ot x m).1.isDone a = x.isDone a := by
  unfold setDone Proxy.isDone
  split
  · rfl
  · split
    · rfl
    · simp [h]

theorem withSub_isDone_started (ot : Option TaskDefn) (q : PS) :
    (withSub ot q).x.isDone "started" = q.x.isDone "started" := by
  unfold withSub
  split
  · rfl
  · unfold finSubmitted
    simp only [show (Flag.internal == Flag.received) = false from rfl, Bool.false_and, Bool.false_eq_true, if_false]
    rw [afterSpawn_x]
    split
    · simp only [Proxy.isDone, reset_done]
      exact isDone_setDone_other ot q.x "submitted" "started" (by decide)
    · exact isDone_setDone_other ot q.x "submitted" "started" (by decide)

theorem fold_implied2 (ot : Option TaskDefn) (f : Nat) (q : PS) (sn : Nat) (hg : guard2 q = false) :
    (["submitted", "started"].filter fun m => !q.x.isDone m).foldl
        (fun st m => (step ot (f + 2) st .internal sn m).1) q = withSta ot (withSub ot q) := by
  have hd : dropped q .internal sn = false := by rw [dropped_internal]; exact hg
  have hg1 : guard2 (withSub ot q) = false := guard2_withSub ot q hg
  have hd1 : dropped (withSub ot q) .internal sn = false := by rw [dropped_internal]; exact hg1
  cases h1 : q.x.isDone "submitted" <;> cases h2 : q.x.isDone "started"
  · -- both missing
    have e1 : withSub ot q = (finSubmitted ot { q with x := (setDone ot q.x "submitted").1 } .internal).1 := by
      unfold withSub; simp [h1]
    simp only [List.filter, h1, h2, Bool.not_false, List.foldl]
    rw [step_submitted ot (f + 1) q .internal sn hd, ← e1, step_started ot f _ .internal sn hd1 hg1]
    unfold withSta
    rw [withSub_isDone_started, h2]; simp
  · have e1 : withSub ot q = (finSubmitted ot { q with x := (setDone ot q.x "submitted").1 } .internal).1 := by
      unfold withSub; simp [h1]
    simp only [List.filter, h1, h2, Bool.not_false, Bool.not_true, List.foldl]
    rw [step_submitted ot (f + 1) q .internal sn hd, ← e1]
    unfold withSta
    rw [withSub_isDone_started, h2]; simp
  · have e1 : withSub ot q = q := by unfold withSub; simp [h1]
    simp only [List.filter, h1, h2, Bool.not_false, Bool.not_true, List.foldl]
    rw [step_started ot f q .internal sn hd hg, e1]
    unfold withSta
    simp [h2]
  · have e1 : withSub ot q = q := by unfold withSub; simp [h1]
    simp only [List.filter, h1, h2, Bool.not_true, List.foldl]
    rw [e1]; unfold withSta; simp [h2]
end CylcModel.Msg

namespace CylcModel.Msg
open CylcModel.Sched

theorem step_succeeded (ot : Option TaskDefn) (f : Nat) (q : PS) (flag : Flag) (sn : Nat)
    (h : dropped q flag sn = false) (hg : guard2 q = false) :
    step ot (f + 3) q flag sn "succeeded" =
      finSucceeded ot (withSta ot (withSub ot { q with x := (setDone ot q.x "succeeded").1 })) := by
  rw [step_eq ot (f + 2) q flag sn "succeeded" h]
  have hg1 : guard2 { q with x := (setDone ot q.x "succeeded").1 } = false := by rw [guard2_setDone]; exact hg
  have := fold_implied2 ot f { q with x := (setDone ot q.x "succeeded").1 } sn hg1
  simp only [pre, implied, finish] at this ⊢
  simp at this ⊢
  rw [this]

theorem step_failed (ot : Option TaskDefn) (f : Nat) (q : PS) (flag : Flag) (sn : Nat)
    (h : dropped q flag sn = false) (hg : guard2 q = false) :
    step ot (f + 3) q flag sn "failed" = finFailed ot (withSta ot (withSub ot q)) flag := by
  rw [step_eq ot (f + 2) q flag sn "failed" h]
  have := fold_implied2 ot f q sn hg
  simp only [pre, implied, finish] at this ⊢
  simp at this ⊢
  rw [this]

theorem step_subfailed (ot : Option TaskDefn) (f : Nat) (q : PS) (flag : Flag) (sn : Nat)
    (h : dropped q flag sn = false) :
    step ot (f + 1) q flag sn "submit-failed" = finSubFailed ot q flag := by
  rw [step_eq ot f q flag sn "submit-failed" h]
  simp [pre, implied, finish]

/-- a message that is none of the five job events: at most completes its own output -/
theorem step_other (ot : Option TaskDefn) (f : Nat) (q : PS) (flag : Flag) (sn : Nat) (msg : String)
    (h : dropped q flag sn = false)
    (h1 : msg ≠ "started") (h2 : msg ≠ "succeeded") (h3 : msg ≠ "failed") (h4 : msg ≠ "submit-failed")
    (h5 : msg ≠ "submitted") :
    step ot (f + 1) q flag sn msg =
      (if (setDone ot q.x msg).2 == some true then (afterSpawn ot { q with x := (setDone ot q.x msg).1 }, false)
       else ({ q with x := (setDone ot q.x msg).1 }, false)) := by
  rw [step_eq ot f q flag sn msg h]
  simp [pre, implied, finish, h1, h2, h3, h4, h5]
end CylcModel.Msg

namespace CylcModel.Msg
open CylcModel.Sched

theorem mem_setDone (ot : Option TaskDefn) (x : Proxy) (m a : String) :
    a ∈ (setDone ot x m).1.done ↔ (a ∈ x.done ∨ (a = m ∧ hasOut ot m = true)) := by
  unfold setDone
  by_cases h : hasOut ot m = true
  · simp only [h, Bool.not_true, Bool.false_eq_true, if_false]
    by_cases hd : x.isDone m = true
    · simp only [hd, if_true]
      unfold Proxy.isDone at hd
      constructor
      · intro ha; exact Or.inl ha
      · rintro (ha | ⟨rfl, _⟩)
        · exact ha
        · simpa using hd
    · simp only [hd]
      simp
  · simp [h]

theorem setDone_fields (ot : Option TaskDefn) (x : Proxy) (m : String) :
    (setDone ot x m).1.status = x.status ∧ (setDone ot x m).1.execTry = x.execTry ∧
    (setDone ot x m).1.subTry = x.subTry ∧ (setDone ot x m).1.submitNum = x.submitNum := by
  unfold setDone; split
  · exact ⟨rfl, rfl, rfl, rfl⟩
  · split <;> exact ⟨rfl, rfl, rfl, rfl⟩

/-- effect of the implied `submitted` -/
theorem withSub_eff (ot : Option TaskDefn) (q : PS) :
    (∀ a, a ∈ (withSub ot q).x.done ↔ (a ∈ q.x.done ∨ (a = "submitted" ∧ hasOut ot "submitted" = true))) ∧
    ((withSub ot q).x.status = q.x.status ∨ (q.x.status = .preparing ∧ (withSub ot q).x.status = .submitted)) ∧
    (withSub ot q).x.execTry = q.x.execTry ∧ (withSub ot q).x.subTry = q.x.subTry ∧
    (withSub ot q).x.submitNum = q.x.submitNum := by
  unfold withSub
  by_cases hd : q.x.isDone "submitted" = true
  · simp only [hd, if_true]
    refine ⟨?_, by simp⟩
    intro a
    constructor
    · intro h; exact Or.inl h
    · rintro (h | ⟨rfl, _⟩)
      · exact h
      · simpa [Proxy.isDone] using hd
  · simp only [hd]
    unfold finSubmitted
    simp only [show (Flag.internal == Flag.received) = false from rfl, Bool.false_and, Bool.false_eq_true, if_false]
    rw [afterSpawn_x]
    have hf := setDone_fields ot q.x "submitted"
    split
    · rename_i hp
      simp only [beq_iff_eq] at hp
      refine ⟨?_, Or.inr ⟨by rw [← hf.1]; exact hp, by simp [reset_status_some, reset_status_none]⟩, ?_, ?_, ?_⟩
      · intro a; simp only [reset_done]; exact mem_setDone ot q.x "submitted" a
      · simp [reset_execTry, hf.2.1]
      · simp [reset_subTry, hf.2.2.1]
      · simp [reset_submitNum, hf.2.2.2]
    · exact ⟨fun a => mem_setDone ot q.x "submitted" a, Or.inl hf.1, hf.2.1, hf.2.2.1, hf.2.2.2⟩
end CylcModel.Msg

namespace CylcModel.Msg
open CylcModel.Sched

theorem finStarted_internal (ot : Option TaskDefn) (q : PS) :
    (finStarted ot q .internal).1.x = { (q.x.reset (status := some .running)) with subTry := 0 } := by
  unfold finStarted
  simp only [show (Flag.internal == Flag.received) = false from rfl, Bool.false_and, Bool.false_eq_true, if_false]
  rw [afterSpawn_x]

/-- effect of the implied `started` -/
theorem withSta_eff (ot : Option TaskDefn) (q : PS) :
    (∀ a, a ∈ (withSta ot q).x.done ↔ (a ∈ q.x.done ∨ ("started" ∉ q.x.done ∧
        ((a = "started" ∧ hasOut ot "started" = true) ∨ (a = "submitted" ∧ hasOut ot "submitted" = true))))) ∧
    (("started" ∈ q.x.done ∧ (withSta ot q).x.status = q.x.status ∧ (withSta ot q).x.subTry = q.x.subTry) ∨
     ("started" ∉ q.x.done ∧ (withSta ot q).x.status = .running ∧ (withSta ot q).x.subTry = 0)) ∧
    (withSta ot q).x.execTry = q.x.execTry ∧ (withSta ot q).x.submitNum = q.x.submitNum := by
  unfold withSta
  by_cases hd : q.x.isDone "started" = true
  · have hm : "started" ∈ q.x.done := by simpa [Proxy.isDone] using hd
    simp only [hd, if_true]
    refine ⟨fun a => ?_, Or.inl ⟨hm, by simp⟩, by simp⟩
    constructor
    · intro h; exact Or.inl h
    · rintro (h | ⟨h, _⟩)
      · exact h
      · exact absurd hm h
  · have hm : "started" ∉ q.x.done := by simpa [Proxy.isDone] using hd
    simp only [hd, Bool.false_eq_true, if_false]
    rw [finStarted_internal]
    obtain ⟨e1, _, e3, _, e5⟩ := withSub_eff ot { q with x := (setDone ot q.x "started").1 }
    have hf := setDone_fields ot q.x "started"
    refine ⟨fun a => ?_, Or.inr ⟨hm, by simp [reset_status_some], rfl⟩, ?_, ?_⟩
    · simp only [reset_done]
      rw [e1 a, mem_setDone]
      constructor
      · rintro ((h | h) | h)
        · exact Or.inl h
        · exact Or.inr ⟨hm, Or.inl h⟩
        · exact Or.inr ⟨hm, Or.inr h⟩
      · rintro (h | ⟨_, h | h⟩)
        · exact Or.inl (Or.inl h)
        · exact Or.inl (Or.inr h)
        · exact Or.inr h
    · simp only [reset_execTry]; rw [e3]; exact hf.2.1
    · simp only [reset_submitNum]; rw [e5]; exact hf.2.2.2
end CylcModel.Msg

namespace CylcModel.Msg
open CylcModel.Sched

/-- status / outputs consistency of a proxy: a job that runs has been submitted and started, and
succeeded / failed complete imply submitted and started complete -/
def Good (x : Proxy) : Prop :=
  ((x.status = .running ∨ x.status = .succeeded ∨ x.status = .failed) → "submitted" ∈ x.done ∧ "started" ∈ x.done) ∧
  (x.status = .submitted → "submitted" ∈ x.done) ∧
  (("succeeded" ∈ x.done ∨ "failed" ∈ x.done) → "submitted" ∈ x.done ∧ "started" ∈ x.done)

/-- the task has the standard outputs `submitted` and `started` -/
def StdOut (ot : Option TaskDefn) : Prop := hasOut ot "submitted" = true ∧ hasOut ot "started" = true

theorem guard2_of_not_dropped (q : PS) (flag : Flag) (sn : Nat) (h : dropped q flag sn = false) : guard2 q = false := by
  unfold dropped at h; unfold guard2
  simp only [Bool.or_eq_false_iff] at h
  exact h.2

theorem good_succeeded (ot : Option TaskDefn) (hs : StdOut ot) (f : Nat) (q : PS) (flag : Flag) (sn : Nat)
    (hd : dropped q flag sn = false) :
    Good (step ot (f + 3) q flag sn "succeeded").1.x := by
  rw [step_succeeded ot f q flag sn hd (guard2_of_not_dropped q flag sn hd)]
  unfold finSucceeded
  rw [afterSpawn_x]
  obtain ⟨e2, _⟩ := withSta_eff ot (withSub ot { q with x := (setDone ot q.x "succeeded").1 })
  obtain ⟨e1, _⟩ := withSub_eff ot { q with x := (setDone ot q.x "succeeded").1 }
  unfold Good
  simp only [reset_done, reset_status_some]
  have a1 := e2 "submitted"; have a2 := e2 "started"
  have b1 := e1 "submitted"; have b2 := e1 "started"
  simp only [hs.1, hs.2] at a1 a2 b1 b2
  simp at a1 a2 b1 b2
  grind
end CylcModel.Msg

namespace CylcModel.Msg
open CylcModel.Sched

/-! #### what each top-level message does (not dropped, standard outputs present) -/

theorem sum_submitted (ot : Option TaskDefn) (hs : StdOut ot) (f : Nat) (q : PS) (flag : Flag) (sn : Nat)
    (hd : dropped q flag sn = false) :
    let r := step ot (f + 1) q flag sn "submitted"
    (∀ a, a ∈ r.1.x.done ↔ (a ∈ q.x.done ∨ a = "submitted")) ∧
    ((r.2 = true ∧ flag = .received ∧ q.x.status.rank ≥ Status.submitted.rank ∧ r.1.x.status = q.x.status) ∨
     (r.2 = false ∧ ¬(flag = .received ∧ q.x.status.rank ≥ Status.submitted.rank) ∧
      r.1.x.status = (if q.x.status = .preparing then .submitted else q.x.status))) ∧
    r.1.x.execTry = q.x.execTry ∧ r.1.x.subTry = q.x.subTry := by
  intro r
  have hr : r = finSubmitted ot { q with x := (setDone ot q.x "submitted").1 } flag := step_submitted ot f q flag sn hd
  have hf := setDone_fields ot q.x "submitted"
  have hm : ∀ a, a ∈ (setDone ot q.x "submitted").1.done ↔ (a ∈ q.x.done ∨ a = "submitted") := by
    intro a; rw [mem_setDone]; simp [hs.1]
  rw [hr]
  unfold finSubmitted
  split
  · rename_i hc
    simp only [Bool.and_eq_true, beq_iff_eq, decide_eq_true_eq, hf.1] at hc
    exact ⟨hm, Or.inl ⟨rfl, hc.1, hc.2, hf.1⟩, hf.2.1, hf.2.2.1⟩
  · rename_i hc
    simp only [Bool.and_eq_true, beq_iff_eq, decide_eq_true_eq, hf.1] at hc
    simp only
    rw [afterSpawn_x]
    by_cases hp : q.x.status = .preparing
    · simp only [hf.1, hp, beq_self_eq_true, if_true, reset_done, reset_execTry, reset_subTry, reset_status_none,
        reset_status_some]
      refine ⟨hm, Or.inr ⟨trivial, ?_, trivial⟩, hf.2.1, hf.2.2.1⟩
      rw [hp] at hc; exact hc
    · have : ((setDone ot q.x "submitted").1.status == Status.preparing) = false := by
        rw [hf.1]; simpa using hp
      simp only [this, Bool.false_eq_true, if_false, hp]
      exact ⟨hm, Or.inr ⟨trivial, hc, hf.1⟩, hf.2.1, hf.2.2.1⟩
end CylcModel.Msg

namespace CylcModel.Msg
open CylcModel.Sched

theorem sum_started (ot : Option TaskDefn) (hs : StdOut ot) (f : Nat) (q : PS) (flag : Flag) (sn : Nat)
    (hd : dropped q flag sn = false) :
    let r := step ot (f + 2) q flag sn "started"
    (∀ a, a ∈ r.1.x.done ↔ (a ∈ q.x.done ∨ a = "started" ∨ a = "submitted")) ∧
    (∃ s2, (s2 = q.x.status ∨ (q.x.status = .preparing ∧ s2 = .submitted)) ∧
      ((r.2 = true ∧ flag = .received ∧ s2.rank > Status.running.rank ∧ r.1.x.status = s2) ∨
       (r.2 = false ∧ ¬(flag = .received ∧ s2.rank > Status.running.rank) ∧ r.1.x.status = .running))) ∧
    r.1.x.execTry = q.x.execTry := by
  intro r
  have hr : r = finStarted ot (withSub ot { q with x := (setDone ot q.x "started").1 }) flag :=
    step_started ot f q flag sn hd (guard2_of_not_dropped q flag sn hd)
  obtain ⟨e1, e2, e3, _, _⟩ := withSub_eff ot { q with x := (setDone ot q.x "started").1 }
  have hf := setDone_fields ot q.x "started"
  have hm : ∀ a, a ∈ (withSub ot { q with x := (setDone ot q.x "started").1 }).x.done ↔
      (a ∈ q.x.done ∨ a = "started" ∨ a = "submitted") := by
    intro a; rw [e1 a, mem_setDone]; simp [hs.1, hs.2]; grind
  simp only [hf.1] at e2
  simp only [hf.2.1] at e3
  rw [hr]
  unfold finStarted
  split
  · rename_i hc
    simp only [Bool.and_eq_true, beq_iff_eq, decide_eq_true_eq] at hc
    exact ⟨hm, ⟨_, e2, Or.inl ⟨rfl, hc.1, hc.2, rfl⟩⟩, e3⟩
  · rename_i hc
    simp only [Bool.and_eq_true, beq_iff_eq, decide_eq_true_eq] at hc
    simp only
    rw [afterSpawn_x]
    simp only [reset_done, reset_execTry, reset_status_some]
    exact ⟨hm, ⟨_, e2, Or.inr ⟨trivial, hc, trivial⟩⟩, e3⟩

theorem sum_succeeded (ot : Option TaskDefn) (hs : StdOut ot) (f : Nat) (q : PS) (flag : Flag) (sn : Nat)
    (hd : dropped q flag sn = false) :
    let r := step ot (f + 3) q flag sn "succeeded"
    (∀ a, a ∈ r.1.x.done ↔ (a ∈ q.x.done ∨ a = "started" ∨ a = "submitted" ∨
        (a = "succeeded" ∧ hasOut ot "succeeded" = true))) ∧
    r.2 = false ∧ r.1.x.status = .succeeded ∧ r.1.x.execTry = q.x.execTry := by
  intro r
  have hr : r = finSucceeded ot (withSta ot (withSub ot { q with x := (setDone ot q.x "succeeded").1 })) :=
    step_succeeded ot f q flag sn hd (guard2_of_not_dropped q flag sn hd)
  obtain ⟨a1, _, a3, _⟩ := withSta_eff ot (withSub ot { q with x := (setDone ot q.x "succeeded").1 })
  obtain ⟨b1, _, b3, _, _⟩ := withSub_eff ot { q with x := (setDone ot q.x "succeeded").1 }
  have hf := setDone_fields ot q.x "succeeded"
  rw [hr]
  unfold finSucceeded
  rw [afterSpawn_x]
  simp only [reset_done, reset_execTry, reset_status_some]
  refine ⟨?_, trivial, trivial, ?_⟩
  · intro a
    rw [a1 a, b1 a, b1 "started", mem_setDone, mem_setDone]
    simp [hs.1, hs.2]; grind
  · rw [a3, b3]; exact hf.2.1
end CylcModel.Msg

namespace CylcModel.Msg
open CylcModel.Sched

theorem sum_failed (ot : Option TaskDefn) (hs : StdOut ot) (f : Nat) (q : PS) (flag : Flag) (sn : Nat)
    (hd : dropped q flag sn = false) :
    let r := step ot (f + 3) q flag sn "failed"
    ∃ s2, ((("started" ∈ q.x.done) ∧ (s2 = q.x.status ∨ (q.x.status = .preparing ∧ s2 = .submitted))) ∨
           ("started" ∉ q.x.done ∧ s2 = .running)) ∧
      ((r.2 = true ∧ flag = .received ∧ s2.rank > Status.failed.rank ∧ r.1.x.status = s2 ∧
          r.1.x.execTry = q.x.execTry ∧
          (∀ a, a ∈ r.1.x.done ↔ (a ∈ q.x.done ∨ a = "started" ∨ a = "submitted"))) ∨
       (r.2 = false ∧ ¬(flag = .received ∧ s2.rank > Status.failed.rank) ∧
          (q.x.submitNum > 0 ∧ q.x.execTry < execMax ot) ∧ r.1.x.status = .waiting ∧
          r.1.x.execTry = q.x.execTry + 1 ∧
          (∀ a, a ∈ r.1.x.done ↔ (a ∈ q.x.done ∨ a = "started" ∨ a = "submitted"))) ∨
       (r.2 = false ∧ ¬(flag = .received ∧ s2.rank > Status.failed.rank) ∧
          ¬(q.x.submitNum > 0 ∧ q.x.execTry < execMax ot) ∧ r.1.x.status = .failed ∧
          r.1.x.execTry = q.x.execTry ∧
          (∀ a, a ∈ r.1.x.done ↔ (a ∈ q.x.done ∨ a = "started" ∨ a = "submitted" ∨
            (a = "failed" ∧ hasOut ot "failed" = true ∧ s2 ≠ .failed))))) := by
  intro r
  have hr : r = finFailed ot (withSta ot (withSub ot q)) flag :=
    step_failed ot f q flag sn hd (guard2_of_not_dropped q flag sn hd)
  obtain ⟨a1, a2, a3, a4⟩ := withSta_eff ot (withSub ot q)
  obtain ⟨b1, b2, b3, _, b5⟩ := withSub_eff ot q
  have hm : ∀ a, a ∈ (withSta ot (withSub ot q)).x.done ↔ (a ∈ q.x.done ∨ a = "started" ∨ a = "submitted") := by
    intro a
    rw [a1 a, b1 a, b1 "started"]
    simp [hs.1, hs.2]; grind
  have hst : "started" ∈ (withSub ot q).x.done ↔ "started" ∈ q.x.done := by rw [b1 "started"]; simp
  refine ⟨(withSta ot (withSub ot q)).x.status, ?_, ?_⟩
  · rcases a2 with ⟨h1, h2, _⟩ | ⟨h1, h2, _⟩
    · left; refine ⟨hst.mp h1, ?_⟩; rw [h2]; exact b2
    · right; exact ⟨fun h => h1 (hst.mpr h), h2⟩
  · rw [hr]
    unfold finFailed
    split
    · rename_i hc
      simp only [Bool.and_eq_true, beq_iff_eq, decide_eq_true_eq] at hc
      left
      exact ⟨rfl, hc.1, hc.2, rfl, by rw [a3, b3], hm⟩
    · rename_i hc
      simp only [Bool.and_eq_true, beq_iff_eq, decide_eq_true_eq] at hc
      simp only
      split
      · rename_i hr2
        simp only [Bool.and_eq_true, decide_eq_true_eq, a3, b3, a4, b5] at hr2
        right; left
        simp only [reset_done, reset_status_some]
        exact ⟨trivial, hc, hr2, trivial, by rw [a3, b3], hm⟩
      · rename_i hr2
        simp only [Bool.and_eq_true, decide_eq_true_eq, a3, b3, a4, b5] at hr2
        right; right
        rw [afterSpawn_x]
        refine ⟨rfl, hc, hr2, ?_, ?_, ?_⟩
        · split <;> simp [setDone_fields, reset_status_some]
        · split <;> simp [setDone_fields, reset_execTry, a3, b3]
        · intro a
          split
          · rename_i hne
            rw [mem_setDone]
            simp only [reset_done]
            rw [hm a]
            simp only [bne_iff_ne, ne_eq] at hne
            grind
          · rename_i hne
            simp only [reset_done]
            rw [hm a]
            simp only [bne_iff_ne, ne_eq, Decidable.not_not] at hne
            grind
end CylcModel.Msg

namespace CylcModel.Msg
open CylcModel.Sched

theorem sum_subfailed (ot : Option TaskDefn) (f : Nat) (q : PS) (flag : Flag) (sn : Nat)
    (hd : dropped q flag sn = false) :
    let r := step ot (f + 1) q flag sn "submit-failed"
    ((r.2 = true ∧ flag = .received ∧ q.x.status.rank > Status.submitFailed.rank ∧ r.1.x.status = q.x.status ∧
        r.1.x.subTry = q.x.subTry ∧ r.1.x.done = q.x.done) ∨
     (r.2 = false ∧ ¬(flag = .received ∧ q.x.status.rank > Status.submitFailed.rank) ∧
        (q.x.submitNum > 0 ∧ q.x.subTry < subMax ot) ∧ r.1.x.status = .waiting ∧
        r.1.x.subTry = q.x.subTry + 1 ∧ r.1.x.done = q.x.done) ∨
     (r.2 = false ∧ ¬(flag = .received ∧ q.x.status.rank > Status.submitFailed.rank) ∧
        ¬(q.x.submitNum > 0 ∧ q.x.subTry < subMax ot) ∧ r.1.x.status = .submitFailed ∧
        r.1.x.subTry = q.x.subTry ∧
        (∀ a, a ∈ r.1.x.done ↔ (a ∈ q.x.done ∨
          (a = "submit-failed" ∧ hasOut ot "submit-failed" = true ∧ q.x.status ≠ .submitFailed))))) ∧
    r.1.x.execTry = q.x.execTry := by
  intro r
  have hr : r = finSubFailed ot q flag := step_subfailed ot f q flag sn hd
  rw [hr]
  unfold finSubFailed
  split
  · rename_i hc
    simp only [Bool.and_eq_true, beq_iff_eq, decide_eq_true_eq] at hc
    exact ⟨Or.inl ⟨rfl, hc.1, hc.2, rfl, rfl, rfl⟩, rfl⟩
  · rename_i hc
    simp only [Bool.and_eq_true, beq_iff_eq, decide_eq_true_eq] at hc
    simp only
    split
    · rename_i hr2
      simp only [Bool.and_eq_true, decide_eq_true_eq] at hr2
      simp only [reset_done, reset_status_some, reset_execTry]
      exact ⟨Or.inr (Or.inl ⟨trivial, hc, hr2, trivial, trivial, trivial⟩), trivial⟩
    · rename_i hr2
      simp only [Bool.and_eq_true, decide_eq_true_eq] at hr2
      rw [afterSpawn_x]
      refine ⟨Or.inr (Or.inr ⟨rfl, hc, hr2, ?_, ?_, ?_⟩), ?_⟩
      · split <;> simp [setDone_fields, reset_status_some]
      · split <;> simp [setDone_fields, reset_subTry]
      · intro a
        split
        · rename_i hne
          rw [mem_setDone]
          simp only [reset_done, bne_iff_ne, ne_eq] at hne ⊢
          grind
        · rename_i hne
          simp only [reset_done, bne_iff_ne, ne_eq, Decidable.not_not] at hne ⊢
          grind
      · split <;> simp [setDone_fields, reset_execTry]

theorem sum_other (ot : Option TaskDefn) (f : Nat) (q : PS) (flag : Flag) (sn : Nat) (msg : String)
    (hd : dropped q flag sn = false)
    (h1 : msg ≠ "started") (h2 : msg ≠ "succeeded") (h3 : msg ≠ "failed") (h4 : msg ≠ "submit-failed")
    (h5 : msg ≠ "submitted") :
    let r := step ot (f + 1) q flag sn msg
    (∀ a, a ∈ r.1.x.done ↔ (a ∈ q.x.done ∨ (a = msg ∧ hasOut ot msg = true))) ∧
    r.2 = false ∧ r.1.x.status = q.x.status ∧ r.1.x.execTry = q.x.execTry ∧ r.1.x.subTry = q.x.subTry := by
  intro r
  have hr := step_other ot f q flag sn msg hd h1 h2 h3 h4 h5
  have hf := setDone_fields ot q.x msg
  have hr' : r = (if (setDone ot q.x msg).2 == some true then (afterSpawn ot { q with x := (setDone ot q.x msg).1 }, false)
       else ({ q with x := (setDone ot q.x msg).1 }, false)) := hr
  rw [hr']
  split
  · rw [afterSpawn_x]
    exact ⟨fun a => mem_setDone ot q.x msg a, rfl, hf.1, hf.2.1, hf.2.2.1⟩
  · exact ⟨fun a => mem_setDone ot q.x msg a, rfl, hf.1, hf.2.1, hf.2.2.1⟩
end CylcModel.Msg

namespace CylcModel.Msg
open CylcModel.Sched

/-! #### the lifecycle relation of the property text -/

/-- forward along waiting → preparing → submitted → running → succeeded | failed, with submit-failed
reachable from preparing / submitted and expired from waiting only.  A waiting task has no job: the only
ways out of waiting are job preparation and expiry (a task waiting for its automatic retry must not be
moved by the messages of the job that failed). -/
def Fwd : Status → Status → Bool
  | .waiting, b => b == .waiting || b == .preparing || b == .expired
  | .preparing, b => b == .preparing || b == .submitted || b == .running || b == .succeeded || b == .failed ||
      b == .submitFailed
  | .submitted, b => b == .submitted || b == .running || b == .succeeded || b == .failed || b == .submitFailed
  | .running, b => b == .running || b == .succeeded || b == .failed
  | a, b => a == b

/-- forward, or back to waiting from preparing / submitted / running (automatic retry) -/
def Allowed (a b : Status) : Bool :=
  Fwd a b || (b == .waiting && (a == .preparing || a == .submitted || a == .running))

/-- the inputs on which cylc-flow by design leaves the lifecycle (each disjunct has a counterexample
theorem in `Props/C09.lean` and a finding): a polled / internal message believed although it is behind
the status; a job message after submit-failed or expired; `succeeded` after failed; a job event for a
waiting task that is NOT sitting out a retry (never submitted, no job exists: "waiting tasks normally
advance to a new state due to any message" — while a task waiting for its automatic retry drops every
message, `retry_pending_dropped`); and (unreachable, cf. `Good`) a repeated failure event of a finished
task that still has a retry -/
def Deviant (ot : Option TaskDefn) (flag : Flag) (x : Proxy) (msg : String) : Bool :=
  (x.status == .waiting && (msg == "started" || msg == "succeeded" || msg == "failed" || msg == "submit-failed")) ||
  (msg == "started" && (x.status == .expired || x.status == .submitFailed ||
      (flag != .received && (x.status == .failed || x.status == .succeeded)))) ||
  (msg == "succeeded" && (x.status == .expired || x.status == .submitFailed || x.status == .failed)) ||
  (msg == "failed" && (x.status == .expired || x.status == .submitFailed ||
      (flag != .received && x.status == .succeeded) ||
      (x.status == .failed && x.submitNum > 0 && x.execTry < execMax ot))) ||
  (msg == "submit-failed" && (x.status == .expired ||
      (flag != .received && (x.status == .running || x.status == .failed || x.status == .succeeded)) ||
      (x.status == .submitFailed && x.submitNum > 0 && x.subTry < subMax ot)))

theorem fwd_refl (a : Status) : Fwd a a = true := by cases a <;> rfl
theorem allowed_refl (a : Status) : Allowed a a = true := by cases a <;> rfl

theorem msg_cases (msg : String) :
    msg = "started" ∨ msg = "succeeded" ∨ msg = "failed" ∨ msg = "submit-failed" ∨ msg = "submitted" ∨
    (msg ≠ "started" ∧ msg ≠ "succeeded" ∧ msg ≠ "failed" ∧ msg ≠ "submit-failed" ∧ msg ≠ "submitted") := by
  by_cases h1 : msg = "started"
  · exact Or.inl h1
  by_cases h2 : msg = "succeeded"
  · exact Or.inr (Or.inl h2)
  by_cases h3 : msg = "failed"
  · exact Or.inr (Or.inr (Or.inl h3))
  by_cases h4 : msg = "submit-failed"
  · exact Or.inr (Or.inr (Or.inr (Or.inl h4)))
  by_cases h5 : msg = "submitted"
  · exact Or.inr (Or.inr (Or.inr (Or.inr (Or.inl h5))))
  exact Or.inr (Or.inr (Or.inr (Or.inr (Or.inr ⟨h1, h2, h3, h4, h5⟩))))

/-- **status / outputs consistency is preserved by every message** (any flag, stale or not) -/
theorem good_step (ot : Option TaskDefn) (hs : StdOut ot) (f : Nat) (q : PS) (flag : Flag) (sn : Nat) (msg : String)
    (hg : Good q.x) : Good (step ot (f + 3) q flag sn msg).1.x := by
  by_cases hd : dropped q flag sn = true
  · rw [step_dropped ot _ q flag sn msg hd]; exact hg
  · simp only [Bool.not_eq_true] at hd
    unfold Good at hg ⊢
    rcases msg_cases msg with rfl | rfl | rfl | rfl | rfl | ⟨h1, h2, h3, h4, h5⟩
    · obtain ⟨e, ⟨s2, hs2, hb⟩, _⟩ := sum_started ot hs (f + 1) q flag sn hd
      have a1 := e "submitted"; have a2 := e "started"; have a3 := e "succeeded"; have a4 := e "failed"
      simp at a1 a2 a3 a4
      grind
    · obtain ⟨e, _, hst, _⟩ := sum_succeeded ot hs f q flag sn hd
      have a1 := e "submitted"; have a2 := e "started"; have a3 := e "succeeded"; have a4 := e "failed"
      simp at a1 a2 a3 a4
      grind
    · obtain ⟨s2, hs2, hb⟩ := sum_failed ot hs f q flag sn hd
      rcases hb with ⟨_, _, _, hst, _, e⟩ | ⟨_, _, _, hst, _, e⟩ | ⟨_, _, _, hst, _, e⟩
      all_goals
        have a1 := e "submitted"; have a2 := e "started"; have a3 := e "succeeded"; have a4 := e "failed"
        simp at a1 a2 a3 a4
        grind
    · obtain ⟨hb, _⟩ := sum_subfailed ot (f + 2) q flag sn hd
      rcases hb with ⟨_, _, _, hst, _, e⟩ | ⟨_, _, _, hst, _, e⟩ | ⟨_, _, _, hst, _, e⟩
      · rw [hst, e]; exact hg
      · rw [hst, e]; grind
      · have a1 := e "submitted"; have a2 := e "started"; have a3 := e "succeeded"; have a4 := e "failed"
        simp at a1 a2 a3 a4
        grind
    · obtain ⟨e, hb, _⟩ := sum_submitted ot hs (f + 2) q flag sn hd
      have a1 := e "submitted"; have a2 := e "started"; have a3 := e "succeeded"; have a4 := e "failed"
      simp at a1 a2 a3 a4
      grind
    · obtain ⟨e, _, hst, _⟩ := sum_other ot (f + 2) q flag sn msg hd h1 h2 h3 h4 h5
      have a1 := e "submitted"; have a2 := e "started"; have a3 := e "succeeded"; have a4 := e "failed"
      simp [Ne.symm h2, Ne.symm h3, Ne.symm h1, Ne.symm h5] at a1 a2 a3 a4
      grind
end CylcModel.Msg

namespace CylcModel.Msg
open CylcModel.Sched

/-- **lifecycle**: a message that is not one of the by-design deviations moves the status forward
along the lifecycle or returns it to waiting for an automatic retry (the retry counter advances,
and a retry was left) -/
theorem lifecycle_step (ot : Option TaskDefn) (hs : StdOut ot) (f : Nat) (q : PS) (flag : Flag) (sn : Nat)
    (msg : String) (hg : Good q.x) (hdev : Deviant ot flag q.x msg = false) :
    let r := (step ot (f + 3) q flag sn msg).1
    Allowed q.x.status r.x.status = true ∧
    (r.x.status = .waiting → q.x.status ≠ .waiting →
      ((msg = "failed" ∧ q.x.execTry < execMax ot ∧ r.x.execTry = q.x.execTry + 1) ∨
       (msg = "submit-failed" ∧ q.x.subTry < subMax ot ∧ r.x.subTry = q.x.subTry + 1))) := by
  intro r
  by_cases hd : dropped q flag sn = true
  · have : r = q := by show (step ot (f + 3) q flag sn msg).1 = q; rw [step_dropped ot _ q flag sn msg hd]
    rw [this]; exact ⟨allowed_refl _, fun h1 h2 => absurd h1 h2⟩
  · simp only [Bool.not_eq_true] at hd
    unfold Good at hg
    rcases msg_cases msg with rfl | rfl | rfl | rfl | rfl | ⟨h1, h2, h3, h4, h5⟩
    · obtain ⟨_, ⟨s2, hs2, hb⟩, _⟩ := sum_started ot hs (f + 1) q flag sn hd
      simp [Deviant] at hdev
      cases hq : q.x.status <;> cases flag <;> simp_all [Allowed, Fwd, Status.rank, r] <;> grind
    · obtain ⟨_, _, hst, _⟩ := sum_succeeded ot hs f q flag sn hd
      simp [Deviant] at hdev
      cases hq : q.x.status <;> simp_all [Allowed, Fwd, r]
    · obtain ⟨s2, hs2, hb⟩ := sum_failed ot hs f q flag sn hd
      simp [Deviant] at hdev
      rcases hb with ⟨_, _, hrk, hst, he, _⟩ | ⟨_, hnp, hre, hst, he, _⟩ | ⟨_, hnp, hre, hst, he, _⟩
      · cases hq : q.x.status <;> cases flag <;> simp_all [Allowed, Fwd, Status.rank, r] <;> grind
      · cases hq : q.x.status <;> cases flag <;> simp_all [Allowed, Fwd, Status.rank, r] <;> grind
      · cases hq : q.x.status <;> cases flag <;> simp_all [Allowed, Fwd, Status.rank, r] <;> grind
    · obtain ⟨hb, _⟩ := sum_subfailed ot (f + 2) q flag sn hd
      simp [Deviant] at hdev
      rcases hb with ⟨_, _, hrk, hst, he, _⟩ | ⟨_, hnp, hre, hst, he, _⟩ | ⟨_, hnp, hre, hst, he, _⟩
      · cases hq : q.x.status <;> cases flag <;> simp_all [Allowed, Fwd, Status.rank, r]
      · cases hq : q.x.status <;> cases flag <;> simp_all [Allowed, Fwd, Status.rank, r] <;> grind
      · cases hq : q.x.status <;> cases flag <;> simp_all [Allowed, Fwd, Status.rank, r] <;> grind
    · obtain ⟨_, hb, _⟩ := sum_submitted ot hs (f + 2) q flag sn hd
      cases hq : q.x.status <;> simp_all [Allowed, Fwd, Status.rank, r] <;> grind
    · obtain ⟨_, _, hst, _⟩ := sum_other ot (f + 2) q flag sn msg hd h1 h2 h3 h4 h5
      have : r.x.status = q.x.status := hst
      rw [this]; exact ⟨allowed_refl _, fun a b => absurd a b⟩

/-- **a task waiting for its automatic retry (same submit number as the job that failed, a retry consumed)
drops every message** — duplicates and late messages of the failed job, its poll results, any flag -/
theorem retry_pending_dropped (ot : Option TaskDefn) (fuel : Nat) (ps : PS) (flag : Flag) (sn : Nat) (msg : String)
    (htr : ps.tr = false) (hw : ps.x.status = .waiting) (hsn : ps.x.submitNum > 0)
    (htry : ps.x.subTry > 0 ∨ ps.x.execTry > 0) : step ot fuel ps flag sn msg = (ps, false) := by
  apply step_dropped
  unfold dropped
  rcases htry with h | h <;> simp [htr, hw, hsn, h]
end CylcModel.Msg

namespace CylcModel.Sched
open CylcModel.Msg

/-! ### Part B: `processMessage` acts on the addressed proxy as `Msg.step` -/

theorem get?_some_key {s : State} {p : Int} {n : String} {x : Proxy} (h : s.get? p n = some x) :
    x.pt = p ∧ x.name = n := by
  unfold State.get? at h
  have := List.find?_some h
  simpa using this

theorem find_map_same (l : List Proxy) (p : Int) (n : String) (x y : Proxy)
    (h : l.find? (fun z => z.pt == p && z.name == n) = some x) (hp : y.pt = p) (hn : y.name = n) :
    (l.map fun z => if z.pt == y.pt && z.name == y.name then y else z).find? (fun z => z.pt == p && z.name == n)
      = some y := by
  induction l with
  | nil => simp at h
  | cons a l ih =>
    simp only [List.map_cons, List.find?_cons]
    by_cases ha : (a.pt == p && a.name == n) = true
    · have h1 : (a.pt == y.pt && a.name == y.name) = true := by rw [hp, hn]; exact ha
      have h2 : (y.pt == p && y.name == n) = true := by simp [hp, hn]
      simp only [h1, if_true, h2]
    · simp only [Bool.not_eq_true] at ha
      have h1 : (a.pt == y.pt && a.name == y.name) = false := by rw [hp, hn]; exact ha
      simp only [h1, Bool.false_eq_true, if_false, ha]
      apply ih
      simpa [List.find?_cons, ha] using h

theorem find_map_ne (l : List Proxy) (p : Int) (n : String) (y : Proxy) (h : ¬ (y.pt = p ∧ y.name = n)) :
    (l.map fun z => if z.pt == y.pt && z.name == y.name then y else z).find? (fun z => z.pt == p && z.name == n)
      = l.find? (fun z => z.pt == p && z.name == n) := by
  have h1 : (y.pt == p && y.name == n) = false := by
    simp only [Bool.and_eq_false_iff, beq_eq_false_iff_ne]
    by_cases hp : y.pt = p
    · right; intro hn; exact h ⟨hp, hn⟩
    · left; exact hp
  induction l with
  | nil => rfl
  | cons a l ih =>
    simp only [List.map_cons, List.find?_cons]
    by_cases ha : (a.pt == y.pt && a.name == y.name) = true
    · simp only [ha, if_true]
      simp only [Bool.and_eq_true, beq_iff_eq] at ha
      have h2 : (a.pt == p && a.name == n) = false := by rw [ha.1, ha.2]; exact h1
      simp only [h1, h2]
      exact ih
    · simp only [ha, Bool.false_eq_true, if_false]
      split
      · rfl
      · exact ih

theorem get?_put_same (s : State) (p : Int) (n : String) (x y : Proxy) (h : s.get? p n = some x)
    (hp : y.pt = p) (hn : y.name = n) : (s.put y).get? p n = some y :=
  find_map_same s.pool p n x y h hp hn

theorem get?_put_ne (s : State) (p : Int) (n : String) (y : Proxy) (h : ¬ (y.pt = p ∧ y.name = n)) :
    (s.put y).get? p n = s.get? p n :=
  find_map_ne s.pool p n y h

theorem get?_put_none (s : State) (p : Int) (n : String) (y : Proxy) (h : s.get? p n = none) :
    (s.put y).get? p n = none := by
  by_cases hk : y.pt = p ∧ y.name = n
  · unfold State.get? State.put at *
    simp only
    rw [List.find?_eq_none] at h ⊢
    intro z hz
    obtain ⟨w, hw, rfl⟩ := List.mem_map.mp hz
    have := h w hw
    by_cases hc : (w.pt == y.pt && w.name == y.name) = true
    · rw [hk.1, hk.2] at hc; exact absurd hc this
    · simp only [hc, Bool.false_eq_true, if_false]; exact this
  · rw [get?_put_ne s p n y hk]; exact h

/-- no ghost (object removed earlier in this op) shadows the live proxy of (p, n) -/
def GhostOK (s : State) (p : Int) (n : String) : Prop :=
  (s.get? p n).isSome → ∀ y ∈ s.ghosts, (y.pt == p && y.name == n) = false

theorem lookup_cases {s : State} {p : Int} {n : String} {x : Proxy} {tr : Bool} (h : lookup s p n = some (x, tr)) :
    (tr = false ∧ s.get? p n = some x) ∨
    (tr = true ∧ s.get? p n = none ∧ s.ghosts.find? (fun z => z.pt == p && z.name == n) = some x) := by
  unfold lookup at h
  cases hg : s.get? p n with
  | some x0 =>
    simp only [hg, Option.some.injEq, Prod.mk.injEq] at h
    left; exact ⟨h.2.symm, by rw [h.1]⟩
  | none =>
    simp only [hg, Option.map_eq_some_iff, Prod.mk.injEq] at h
    obtain ⟨a, ha, rfl, rfl⟩ := h
    right; exact ⟨rfl, rfl, ha⟩

theorem lookup_key {s : State} {p : Int} {n : String} {x : Proxy} {tr : Bool} (h : lookup s p n = some (x, tr)) :
    x.pt = p ∧ x.name = n := by
  rcases lookup_cases h with ⟨_, hg⟩ | ⟨_, _, hg⟩
  · exact get?_some_key hg
  · have := List.find?_some hg
    simpa using this

theorem lookup_store (s : State) (p : Int) (n : String) (x y : Proxy) (tr : Bool)
    (h : lookup s p n = some (x, tr)) (hp : y.pt = p) (hn : y.name = n) :
    lookup (store s y tr) p n = some (y, tr) := by
  rcases lookup_cases h with ⟨rfl, hg⟩ | ⟨rfl, hg, hf⟩
  · unfold store lookup
    simp only [Bool.false_eq_true, if_false]
    rw [get?_put_same s p n x y hg hp hn]
  · unfold store lookup
    simp only [if_true]
    have : ({ s with ghosts := s.ghosts.map fun z => if z.pt == y.pt && z.name == y.name then y else z } : State).get? p n
        = none := hg
    rw [this]
    simp only
    rw [find_map_same s.ghosts p n x y hf hp hn]
    rfl

theorem ghostOK_store (s : State) (p : Int) (n : String) (x y : Proxy) (tr : Bool)
    (h : lookup s p n = some (x, tr)) (hgo : GhostOK s p n) : GhostOK (store s y tr) p n := by
  rcases lookup_cases h with ⟨rfl, hg⟩ | ⟨rfl, hg, hf⟩
  · unfold store GhostOK at *
    simp only [Bool.false_eq_true, if_false]
    intro _
    exact hgo (by rw [hg]; rfl)
  · unfold store GhostOK
    simp only [if_true]
    intro hsome
    have : ({ s with ghosts := s.ghosts.map fun z => if z.pt == y.pt && z.name == y.name then y else z } : State).get? p n
        = none := hg
    rw [this] at hsome
    simp at hsome

/-- no ghost has the key (p, n) -/
def NoG (p : Int) (n : String) (s : State) : Prop := ∀ y ∈ s.ghosts, (y.pt == p && y.name == n) = false

theorem get?_add_some (s : State) (p : Int) (n : String) (x y : Proxy) (h : s.get? p n = some x) :
    (s.add y).get? p n = some x := by
  unfold State.add
  split
  · exact h
  · unfold State.get? at *
    simp only [List.find?_append, h, Option.some_or]

theorem ghosts_add (s : State) (y : Proxy) : (s.add y).ghosts = s.ghosts := by
  unfold State.add; split <;> rfl

theorem ghosts_put (s : State) (y : Proxy) : (s.put y).ghosts = s.ghosts := rfl

theorem get?_spawnAndAdd_some (g : Graph) (s : State) (p : Int) (n : String) (x : Proxy) (nm : String) (q : Int)
    (h : s.get? p n = some x) : (spawnAndAdd g s nm q).get? p n = some x := by
  unfold spawnAndAdd
  split
  · exact h
  · split
    · exact get?_add_some s p n x _ h
    · exact h

theorem ghosts_spawnAndAdd (g : Graph) (s : State) (nm : String) (q : Int) :
    (spawnAndAdd g s nm q).ghosts = s.ghosts := by
  unfold spawnAndAdd
  split
  · rfl
  · split
    · exact ghosts_add _ _
    · rfl

theorem get?_spawnNextParentless_some (g : Graph) (s : State) (p : Int) (n : String) (x z : Proxy)
    (h : s.get? p n = some x) : (spawnNextParentless g s z).get? p n = some x := by
  unfold spawnNextParentless
  split
  · exact h
  · split
    · exact get?_spawnAndAdd_some g s p n x _ _ h
    · exact h

theorem ghosts_spawnNextParentless (g : Graph) (s : State) (z : Proxy) :
    (spawnNextParentless g s z).ghosts = s.ghosts := by
  unfold spawnNextParentless
  split
  · rfl
  · split
    · exact ghosts_spawnAndAdd _ _ _ _
    · rfl

theorem find?_filter_keep {α : Type} (l : List α) (f q : α → Bool) (h : ∀ a, f a = true → q a = true) :
    (l.filter q).find? f = l.find? f := by
  induction l with
  | nil => rfl
  | cons a l ih =>
    by_cases hq : q a = true
    · simp only [List.filter_cons, hq, if_true, List.find?_cons]
      split
      · rfl
      · exact ih
    · have hf : f a = false := by
        cases hfa : f a with
        | false => rfl
        | true => exact absurd (h a hfa) hq
      simp only [List.filter_cons, hq, Bool.false_eq_true, if_false, List.find?_cons, hf]
      exact ih

/-- removing another proxy keeps the proxy of (p, n) and adds no ghost with that key -/
theorem remove_keep (g : Graph) (s : State) (p : Int) (n : String) (x z : Proxy)
    (h : s.get? p n = some x) (hz : ¬ (z.pt = p ∧ z.name = n)) (hng : NoG p n s) :
    (remove g s z).get? p n = some x ∧ NoG p n (remove g s z) := by
  unfold remove
  simp only
  have h1 : (if (!z.flows.isEmpty && z.runahead) = true then spawnNextParentless g s z else s).get? p n = some x := by
    split
    · exact get?_spawnNextParentless_some g s p n x z h
    · exact h
  have h2 : (if (!z.flows.isEmpty && z.runahead) = true then spawnNextParentless g s z else s).ghosts = s.ghosts := by
    split
    · exact ghosts_spawnNextParentless g s z
    · rfl
  generalize (if (!z.flows.isEmpty && z.runahead) = true then spawnNextParentless g s z else s) = s1 at h1 h2
  constructor
  · unfold State.get? at *
    simp only
    rw [find?_filter_keep]
    · exact h1
    · intro a ha
      simp only [Bool.and_eq_true, beq_iff_eq] at ha
      simp only [Bool.not_eq_true', Bool.and_eq_false_iff, beq_eq_false_iff_ne]
      by_cases hp : a.pt = z.pt
      · right; intro hn; exact hz ⟨by rw [← hp]; exact ha.1, by rw [← hn]; exact ha.2⟩
      · left; exact hp
  · unfold NoG at *
    simp only [h2]
    intro y hy
    rcases List.mem_append.mp hy with hy | hy
    · exact hng y hy
    · simp only [List.mem_singleton] at hy
      subst hy
      simp only [Bool.and_eq_false_iff, beq_eq_false_iff_ne]
      by_cases hp : y.pt = p
      · right; intro hn; exact hz ⟨hp, hn⟩
      · left; exact hp

theorem satisfyMe_pt (x : Proxy) (a : Atom) : (x.satisfyMe a).pt = x.pt := rfl
theorem satisfyMe_name (x : Proxy) (a : Atom) : (x.satisfyMe a).name = x.name := rfl

/-- one child of `spawn_on_output` leaves the parent's own proxy alone, when the child is not the parent -/
theorem spawnChild_keep (g : Graph) (p : Int) (n out : String) (x : Proxy) (acc : State × List (Int × String))
    (c : Child) (hc : c.name = n → (c.pt ≠ p ∧ c.isAbs = false))
    (h : acc.1.get? p n = some x) (hng : NoG p n acc.1) (hs : ∀ k ∈ acc.2, k ≠ (p, n)) :
    (spawnChild g p n out acc c).1.get? p n = some x ∧ NoG p n (spawnChild g p n out acc c).1 ∧
    (∀ k ∈ (spawnChild g p n out acc c).2, k ≠ (p, n)) := by
  obtain ⟨st, sui⟩ := acc
  simp only at h hng hs
  unfold spawnChild
  simp only
  have h0 : (if (c.isAbs && !st.absDone.contains ⟨p, n, out⟩) = true then
      { st with absDone := st.absDone ++ [⟨p, n, out⟩] } else st).get? p n = some x := by
    split
    · exact h
    · exact h
  have g0 : NoG p n (if (c.isAbs && !st.absDone.contains ⟨p, n, out⟩) = true then
      { st with absDone := st.absDone ++ [⟨p, n, out⟩] } else st) := by
    split
    · exact hng
    · exact hng
  generalize (if (c.isAbs && !st.absDone.contains ⟨p, n, out⟩) = true then
      { st with absDone := st.absDone ++ [⟨p, n, out⟩] } else st) = st0 at h0 g0 ⊢
  -- the fold over the proxies whose prerequisites are satisfied
  have hfold : ∀ (ks : List (Int × String)), (∀ k ∈ ks, k ≠ (p, n)) → ∀ (a : State × List (Int × String)),
      a.1.get? p n = some x → NoG p n a.1 → (∀ k ∈ a.2, k ≠ (p, n)) →
      (ks.foldl (fun (a : State × List (Int × String)) k =>
        match a.1.get? k.1 k.2 with
        | none => a
        | some z =>
          let z := z.satisfyMe ⟨p, n, out⟩
          (a.1.put z, if (z.suicideNow && !a.2.contains k) = true then a.2 ++ [k] else a.2)) a).1.get? p n = some x ∧
      NoG p n (ks.foldl (fun (a : State × List (Int × String)) k =>
        match a.1.get? k.1 k.2 with
        | none => a
        | some z =>
          let z := z.satisfyMe ⟨p, n, out⟩
          (a.1.put z, if (z.suicideNow && !a.2.contains k) = true then a.2 ++ [k] else a.2)) a).1 ∧
      (∀ k ∈ (ks.foldl (fun (a : State × List (Int × String)) k =>
        match a.1.get? k.1 k.2 with
        | none => a
        | some z =>
          let z := z.satisfyMe ⟨p, n, out⟩
          (a.1.put z, if (z.suicideNow && !a.2.contains k) = true then a.2 ++ [k] else a.2)) a).2, k ≠ (p, n)) := by
    intro ks; induction ks with
    | nil => intro _ a ha hg hk; exact ⟨ha, hg, hk⟩
    | cons k ks ih =>
      intro hks a ha hg hk
      simp only [List.foldl_cons]
      apply ih (fun k' hk' => hks k' (List.mem_cons_of_mem _ hk'))
      · split
        · exact ha
        · rename_i z hz
          simp only
          have hzk := get?_some_key hz
          rw [get?_put_ne]
          · exact ha
          · simp only [satisfyMe_pt, satisfyMe_name]
            intro hcon
            apply hks k (List.mem_cons_self)
            rw [← hcon.1, ← hcon.2, hzk.1, hzk.2]
      · split
        · exact hg
        · exact hg
      · split
        · exact hk
        · simp only
          split
          · intro k' hk'
            rcases List.mem_append.mp hk' with h1 | h1
            · exact hk k' h1
            · simp only [List.mem_singleton] at h1
              rw [h1]; exact hks k (List.mem_cons_self)
          · exact hk
  split
  · exact ⟨h0, g0, hs⟩
  · rename_i y _
    apply hfold
    · -- the targets are not the parent
      intro k hk
      by_cases habs : c.isAbs = true
      · have hcn : c.name ≠ n := fun e => by have := (hc e).2; rw [habs] at this; exact absurd this (by decide)
        simp only [habs, if_true] at hk
        have hgen : ∀ (pl : List Proxy) (k : Int × String),
            k ∈ (if ((pl.filter fun z => z.name == c.name).map fun z => (z.pt, z.name)).contains (c.pt, c.name) = true
              then (pl.filter fun z => z.name == c.name).map fun z => (z.pt, z.name)
              else ((pl.filter fun z => z.name == c.name).map fun z => (z.pt, z.name)) ++ [(c.pt, c.name)]) →
            k.2 = c.name := by
          intro pl k hk
          have hm : ∀ k, k ∈ ((pl.filter fun z => z.name == c.name).map fun z => (z.pt, z.name)) → k.2 = c.name := by
            intro k hk
            obtain ⟨z, hz, rfl⟩ := List.mem_map.mp hk
            have := (List.mem_filter.mp hz).2
            simpa using this
          split at hk
          · exact hm k hk
          · rcases List.mem_append.mp hk with h1 | h1
            · exact hm k h1
            · simp only [List.mem_singleton] at h1; rw [h1]
        have hname : k.2 = c.name := hgen _ k hk
        intro e; rw [e] at hname; exact hcn hname.symm
      · simp only [habs, Bool.false_eq_true, if_false, List.mem_singleton] at hk
        rw [hk]
        intro e
        simp only [Prod.mk.injEq] at e
        exact (hc e.2).1 e.1
    · simp only
      split
      · exact h0
      · exact get?_add_some _ _ _ _ _ h0
    · simp only
      split
      · exact g0
      · unfold NoG; rw [ghosts_add]; exact g0
    · exact hs

theorem get?_remove_self (g : Graph) (s : State) (x : Proxy) : (remove g s x).get? x.pt x.name = none := by
  unfold remove State.get?
  simp only
  rw [List.find?_eq_none]
  intro y hy
  have := (List.mem_filter.mp hy).2
  simp only [Bool.not_eq_true', Bool.and_eq_false_iff, beq_eq_false_iff_ne] at this
  simp only [Bool.and_eq_true, beq_iff_eq, not_and]
  intro h1 h2
  rcases this with h | h
  · exact h h1
  · exact h h2

theorem ghosts_remove (g : Graph) (s : State) (x : Proxy) : (remove g s x).ghosts = s.ghosts ++ [x] := by
  unfold remove
  simp only
  split
  · rw [ghosts_spawnNextParentless]
  · rfl

theorem wf_child (g : Graph) (hwf : noSelfChild g = true) (x : Proxy) (out : String) (c : Child)
    (hc : c ∈ childrenOf g x out) : c.name = x.name → (c.pt ≠ x.pt ∧ c.isAbs = false) := by
  unfold childrenOf at hc
  cases ht : g.task? x.name with
  | none => simp [ht] at hc
  | some t =>
    cases hi : t.inst? x.pt with
    | none => simp [ht, hi] at hc
    | some d =>
      simp only [ht, hi, Option.bind_some] at hc
      cases hf : d.children.find? (·.1 == out) with
      | none => simp [hf] at hc
      | some oc =>
        obtain ⟨o, cs⟩ := oc
        simp only [hf] at hc
        -- membership facts
        have htm : t ∈ g.tasks := List.mem_of_find?_eq_some ht
        have htn : t.name = x.name := by
          have := List.find?_some ht; simpa using this
        unfold TaskDefn.inst? at hi
        cases hfi : t.insts.find? (·.1 == x.pt) with
        | none => simp [hfi] at hi
        | some pd =>
          simp only [hfi, Option.map_some, Option.some.injEq] at hi
          have hpdm : pd ∈ t.insts := List.mem_of_find?_eq_some hfi
          have hpd1 : pd.1 = x.pt := by have := List.find?_some hfi; simpa using this
          have hocm : (o, cs) ∈ d.children := List.mem_of_find?_eq_some hf
          unfold noSelfChild at hwf
          have h1 := List.all_eq_true.mp hwf t htm
          have h2 := List.all_eq_true.mp h1 pd hpdm
          rw [hi] at h2
          have h3 := List.all_eq_true.mp h2 (o, cs) hocm
          have h4 := List.all_eq_true.mp h3 c hc
          intro hcn
          have : (c.name == t.name) = true := by rw [htn, hcn]; simp
          simp only [this, Bool.not_true, Bool.false_or, Bool.and_eq_true, bne_iff_ne, ne_eq, Bool.not_eq_true'] at h4
          exact ⟨by rw [← hpd1]; exact h4.1, h4.2⟩

theorem spawnOnOutput_lookup (g : Graph) (hwf : noSelfChild g = true) (s : State) (p : Int) (n out : String)
    (x : Proxy) (h : s.get? p n = some x) (hng : NoG p n s) :
    lookup (spawnOnOutput g s p n out) p n =
      some ((afterSpawn (g.task? n) ⟨x, false⟩).x, (afterSpawn (g.task? n) ⟨x, false⟩).tr) ∧
    GhostOK (spawnOnOutput g s p n out) p n := by
  have hk := get?_some_key h
  unfold spawnOnOutput
  simp only [h]
  -- the children
  have hcs : ∀ c ∈ (if x.flows.isEmpty = true then [] else childrenOf g x out),
      c.name = n → (c.pt ≠ p ∧ c.isAbs = false) := by
    intro c hc
    split at hc
    · simp at hc
    · have := wf_child g hwf x out c hc
      rw [hk.1, hk.2] at this; exact this
  generalize (if x.flows.isEmpty = true then [] else childrenOf g x out) = cs at hcs
  have h1 : ∀ (cs : List Child), (∀ c ∈ cs, c.name = n → (c.pt ≠ p ∧ c.isAbs = false)) →
      ∀ (acc : State × List (Int × String)), acc.1.get? p n = some x → NoG p n acc.1 → (∀ k ∈ acc.2, k ≠ (p, n)) →
      (cs.foldl (spawnChild g p n out) acc).1.get? p n = some x ∧ NoG p n (cs.foldl (spawnChild g p n out) acc).1 ∧
      (∀ k ∈ (cs.foldl (spawnChild g p n out) acc).2, k ≠ (p, n)) := by
    intro cs; induction cs with
    | nil => intro _ acc a b c; exact ⟨a, b, c⟩
    | cons c cs ih =>
      intro hcs acc a b d
      simp only [List.foldl_cons]
      obtain ⟨a', b', d'⟩ := spawnChild_keep g p n out x acc c (hcs c List.mem_cons_self) a b d
      exact ih (fun c' hc' => hcs c' (List.mem_cons_of_mem _ hc')) _ a' b' d'
  have h2 : ∀ (ks : List (Int × String)), (∀ k ∈ ks, k ≠ (p, n)) → ∀ (st : State), st.get? p n = some x → NoG p n st →
      (ks.foldl (fun (st : State) k => match st.get? k.1 k.2 with
        | some z => remove g st z
        | none => st) st).get? p n = some x ∧
      NoG p n (ks.foldl (fun (st : State) k => match st.get? k.1 k.2 with
        | some z => remove g st z
        | none => st) st) := by
    intro ks; induction ks with
    | nil => intro _ st a b; exact ⟨a, b⟩
    | cons k ks ih =>
      intro hks st a b
      simp only [List.foldl_cons]
      apply ih (fun k' hk' => hks k' (List.mem_cons_of_mem _ hk'))
      · split
        · rename_i z hz
          have hzk := get?_some_key hz
          exact (remove_keep g st p n x z a (by
            intro hcon; apply hks k List.mem_cons_self
            rw [← hcon.1, ← hcon.2, hzk.1, hzk.2]) b).1
        · exact a
      · split
        · rename_i z hz
          have hzk := get?_some_key hz
          exact (remove_keep g st p n x z a (by
            intro hcon; apply hks k List.mem_cons_self
            rw [← hcon.1, ← hcon.2, hzk.1, hzk.2]) b).2
        · exact b
  obtain ⟨a1, b1, d1⟩ := h1 cs hcs (s, []) h hng (by intro k hk; simp at hk)
  generalize hR : List.foldl (spawnChild g p n out) (s, []) cs = R at a1 b1 d1
  obtain ⟨a2, b2⟩ := h2 R.2 d1 R.1 a1 b1
  generalize hS : (List.foldl (fun (st : State) k => match st.get? k.1 k.2 with
        | some z => remove g st z
        | none => st) R.1 R.2) = S at a2 b2
  simp only [a2]
  -- remove_if_complete on the proxy itself
  unfold removeIfComplete afterSpawn Msg.complete
  simp only [Bool.false_eq_true, if_false, hk.2]
  have hlive : lookup S p n = some (x, false) ∧ GhostOK S p n := by
    refine ⟨by unfold lookup; rw [a2], fun _ => b2⟩
  by_cases hfin : x.status.isFinal = true
  · simp only [hfin, Bool.not_true, Bool.false_eq_true, if_false, Bool.true_and]
    cases ht : g.task? n with
    | none => simpa using hlive
    | some t =>
      simp only
      by_cases hcomp : isComplete t x.done = true
      · simp only [hcomp, if_true]
        -- removed: the ghost is found
        have hnone : (remove g S x).get? p n = none := by
          have := get?_remove_self g S x; rw [hk.1, hk.2] at this; exact this
        constructor
        · unfold lookup
          rw [hnone]
          simp only [ghosts_remove, List.find?_append]
          have : S.ghosts.find? (fun z => z.pt == p && z.name == n) = none := by
            rw [List.find?_eq_none]; intro y hy; simpa using b2 y hy
          rw [this]
          simp [hk.1, hk.2]
        · intro hsome; rw [hnone] at hsome; simp at hsome
      · simp only [hcomp, Bool.false_eq_true, if_false]
        exact hlive
  · simp only [hfin, Bool.not_false, if_true, Bool.false_and, Bool.false_eq_true, if_false]
    exact hlive

theorem spawnChildren_lookup (g : Graph) (hwf : noSelfChild g = true) (s : State) (p : Int) (n out : String)
    (x : Proxy) (tr : Bool) (h : lookup s p n = some (x, tr)) (hgo : GhostOK s p n) :
    lookup (spawnChildren g s p n out tr) p n =
      some ((afterSpawn (g.task? n) ⟨x, tr⟩).x, (afterSpawn (g.task? n) ⟨x, tr⟩).tr) ∧
    GhostOK (spawnChildren g s p n out tr) p n := by
  rcases lookup_cases h with ⟨rfl, hg⟩ | ⟨rfl, hg, hf⟩
  · unfold spawnChildren
    simp only [Bool.false_eq_true, if_false]
    exact spawnOnOutput_lookup g hwf s p n out x hg (hgo (by rw [hg]; rfl))
  · unfold spawnChildren afterSpawn
    simp only [if_true]
    exact ⟨h, hgo⟩

theorem setComplete_eq (g : Graph) (x : Proxy) (n msg : String) (hn : x.name = n) :
    setComplete g x msg = Msg.setDone (g.task? n) x msg := by
  subst hn
  unfold setComplete Msg.setDone hasOutput Msg.hasOut
  rfl

/-- the simulation relation: the state's live proxy (or transient object) for (p, n) is `ps` -/
def Sim (p : Int) (n : String) (s : State) (ps : PS) : Prop :=
  lookup s p n = some (ps.x, ps.tr) ∧ GhostOK s p n

theorem sim_store (p : Int) (n : String) (s : State) (ps : PS) (y : Proxy) (h : Sim p n s ps)
    (hp : y.pt = p) (hn : y.name = n) : Sim p n (store s y ps.tr) { ps with x := y } :=
  ⟨lookup_store s p n ps.x y ps.tr h.1 hp hn, ghostOK_store s p n ps.x y ps.tr h.1 h.2⟩

theorem sim_spawn (g : Graph) (hwf : noSelfChild g = true) (p : Int) (n out : String) (s : State) (ps : PS)
    (h : Sim p n s ps) : Sim p n (spawnChildren g s p n out ps.tr) (afterSpawn (g.task? n) ps) :=
  spawnChildren_lookup g hwf s p n out ps.x ps.tr h.1 h.2
end CylcModel.Sched

namespace CylcModel.Sched
open CylcModel.Msg

theorem pre_key (ot : Option TaskDefn) (x : Proxy) (msg : String) :
    (Msg.pre ot x msg).1.pt = x.pt ∧ (Msg.pre ot x msg).1.name = x.name := by
  unfold Msg.pre; split
  · exact ⟨rfl, rfl⟩
  · exact ⟨setDone_pt .., setDone_name ..⟩

theorem pm_sim (g : Graph) (hwf : noSelfChild g = true) (p : Int) (n : String) :
    ∀ (fuel : Nat) (s : State) (ps : PS) (flag : Flag) (sn : Nat) (msg : String), Sim p n s ps →
      Sim p n (processMessage g fuel s p n flag sn msg).1 (Msg.step (g.task? n) fuel ps flag sn msg).1 ∧
      (processMessage g fuel s p n flag sn msg).2 = (Msg.step (g.task? n) fuel ps flag sn msg).2 := by
  intro fuel; induction fuel with
  | zero => intro s ps flag sn msg h; unfold processMessage Msg.step; exact ⟨h, rfl⟩
  | succ fuel ih =>
    intro s ps flag sn msg h
    have hk := lookup_key h.1
    unfold processMessage
    rw [Msg.step]
    simp only [h.1]
    unfold Msg.dropped
    by_cases g1 : (!ps.tr && flag == Flag.received && sn != ps.x.submitNum) = true
    · simp only [g1, if_true, Bool.true_or]; exact ⟨h, by first | rfl | trivial⟩
    · by_cases g2 : (!ps.tr && ps.x.status == Status.waiting && decide (ps.x.submitNum > 0) &&
                  (decide (ps.x.subTry > 0) || decide (ps.x.execTry > 0))) = true
      · simp only [g1, g2, if_true, Bool.or_true]; exact ⟨h, by first | rfl | trivial⟩
      · simp only [g1, g2, Bool.false_eq_true, if_false, Bool.or_self]
        have e0 : (if (msg == "submit-failed" || msg == "failed") = true then (ps.x, some false)
            else setComplete g ps.x msg) = Msg.pre (g.task? n) ps.x msg := by
          unfold Msg.pre; rw [setComplete_eq g ps.x n msg hk.2]
        rw [e0]
        have hpk := pre_key (g.task? n) ps.x msg
        have h1 : Sim p n (store s (Msg.pre (g.task? n) ps.x msg).1 ps.tr) { ps with x := (Msg.pre (g.task? n) ps.x msg).1 } :=
          sim_store p n s ps _ h (hpk.1.trans hk.1) (hpk.2.trans hk.2)
        have hfold : ∀ (l : List String) (st : State) (q : PS), Sim p n st q →
            Sim p n (l.foldl (fun st m => (processMessage g fuel st p n Flag.internal sn m).1) st)
              (l.foldl (fun st m => (Msg.step (g.task? n) fuel st Flag.internal sn m).1) q) := by
          intro l; induction l with
          | nil => intro st q hq; exact hq
          | cons a l ihl => intro st q hq; exact ihl _ _ (ih st q _ _ a hq).1
        generalize hSF : List.foldl (fun st m => (processMessage g fuel st p n Flag.internal sn m).1) _ _ = SF
        have h2 : Sim p n SF (List.foldl (fun st m => (Msg.step (g.task? n) fuel st Flag.internal sn m).1)
            { ps with x := (Msg.pre (g.task? n) ps.x msg).1 } (Msg.implied (Msg.pre (g.task? n) ps.x msg).1 msg)) := by
          rw [← hSF]; exact hfold _ _ _ h1
        generalize List.foldl (fun st m => (Msg.step (g.task? n) fuel st Flag.internal sn m).1)
            { ps with x := (Msg.pre (g.task? n) ps.x msg).1 } (Msg.implied (Msg.pre (g.task? n) ps.x msg).1 msg) = ps2 at h2 ⊢
        simp only [h2.1]
        have hk2 := lookup_key h2.1
        have hst : ∀ (y : Proxy), y.pt = ps2.x.pt → y.name = ps2.x.name →
            Sim p n (store SF y ps2.tr) { ps2 with x := y } :=
          fun y a b => sim_store p n SF ps2 y h2 (a.trans hk2.1) (b.trans hk2.2)
        have hsp : ∀ (out : String) (y : Proxy), y.pt = ps2.x.pt → y.name = ps2.x.name →
            Sim p n (spawnChildren g (store SF y ps2.tr) p n out ps2.tr) (afterSpawn (g.task? n) { ps2 with x := y }) :=
          fun out y a b => sim_spawn g hwf p n out _ { ps2 with x := y } (hst y a b)
        unfold Msg.finish
        by_cases m1 : (msg == "started") = true
        · simp only [m1, if_true]
          unfold Msg.finStarted
          by_cases c1 : (flag == Flag.received && decide (ps2.x.status.rank > Status.running.rank)) = true
          · simp only [c1, if_true]; exact ⟨h2, by first | rfl | trivial⟩
          · simp only [c1, Bool.false_eq_true, if_false]
            exact ⟨hsp "started" _ (reset_pt ..) (reset_name ..), by first | rfl | trivial⟩
        · simp only [m1, Bool.false_eq_true, if_false]
          by_cases m2 : (msg == "succeeded") = true
          · simp only [m2, if_true]
            unfold Msg.finSucceeded
            exact ⟨hsp "succeeded" _ (reset_pt ..) (reset_name ..), by first | rfl | trivial⟩
          · simp only [m2, Bool.false_eq_true, if_false]
            by_cases m3 : (msg == "failed") = true
            · simp only [m3, if_true]
              unfold Msg.finFailed Msg.execMax
              by_cases c1 : (flag == Flag.received && decide (ps2.x.status.rank > Status.failed.rank)) = true
              · simp only [c1, if_true]; exact ⟨h2, by first | rfl | trivial⟩
              · simp only [c1, Bool.false_eq_true, if_false]
                by_cases c2 : (decide (ps2.x.submitNum > 0) && decide (ps2.x.execTry < Msg.execMax (g.task? n))) = true
                · unfold Msg.execMax at c2
                  have : Sim p n (store SF { (ps2.x.reset (status := some .waiting)) with
                      execTry := ps2.x.execTry + 1, retryWait := true } ps2.tr) _ :=
                    hst _ (reset_pt ..) (reset_name ..)
                  cases ht : g.task? n <;> rw [ht] at c2 <;> simp only [] at c2 ⊢ <;> simp only [c2, if_true] <;>
                    exact ⟨this, by first | rfl | trivial⟩
                · unfold Msg.execMax at c2
                  have e : (if (ps2.x.status != Status.failed) = true then
                        setComplete g (ps2.x.reset (some Status.failed)) "failed"
                      else (ps2.x.reset (some Status.failed), none)).1 =
                      (if (ps2.x.status != Status.failed) = true then
                        (Msg.setDone (g.task? n) (ps2.x.reset (some Status.failed)) "failed").1
                      else ps2.x.reset (some Status.failed)) := by
                    split
                    · rw [setComplete_eq g _ n "failed" ((reset_name ..).trans hk2.2)]
                    · rfl
                  rw [e]
                  have hyk : (if (ps2.x.status != Status.failed) = true then
                        (Msg.setDone (g.task? n) (ps2.x.reset (some Status.failed)) "failed").1
                      else ps2.x.reset (some Status.failed)).pt = ps2.x.pt ∧
                      (if (ps2.x.status != Status.failed) = true then
                        (Msg.setDone (g.task? n) (ps2.x.reset (some Status.failed)) "failed").1
                      else ps2.x.reset (some Status.failed)).name = ps2.x.name := by
                    constructor <;> split <;> simp [setDone_pt, setDone_name, reset_pt, reset_name]
                  generalize (if (ps2.x.status != Status.failed) = true then
                        (Msg.setDone (g.task? n) (ps2.x.reset (some Status.failed)) "failed").1
                      else ps2.x.reset (some Status.failed)) = y at hyk ⊢
                  have := hsp "failed" y hyk.1 hyk.2
                  revert this
                  cases ht : g.task? n <;> rw [ht] at c2 <;> simp only [] at c2 ⊢ <;>
                    simp only [c2, Bool.false_eq_true, if_false] <;> intro this <;>
                    exact ⟨this, by first | rfl | trivial⟩
            · simp only [m3, Bool.false_eq_true, if_false]
              by_cases m4 : (msg == "submit-failed") = true
              · simp only [m4, if_true]
                unfold Msg.finSubFailed Msg.subMax
                by_cases c1 : (flag == Flag.received && decide (ps2.x.status.rank > Status.submitFailed.rank)) = true
                · simp only [c1, if_true]; exact ⟨h2, by first | rfl | trivial⟩
                · simp only [c1, Bool.false_eq_true, if_false]
                  by_cases c2 : (decide (ps2.x.submitNum > 0) && decide (ps2.x.subTry < Msg.subMax (g.task? n))) = true
                  · unfold Msg.subMax at c2
                    have : Sim p n (store SF { (ps2.x.reset (status := some .waiting)) with
                        subTry := ps2.x.subTry + 1, retryWait := true } ps2.tr) _ :=
                      hst _ (reset_pt ..) (reset_name ..)
                    cases ht : g.task? n <;> rw [ht] at c2 <;> simp only [] at c2 ⊢ <;> simp only [c2, if_true] <;>
                      exact ⟨this, by first | rfl | trivial⟩
                  · unfold Msg.subMax at c2
                    have e : (if (ps2.x.status != Status.submitFailed) = true then
                          setComplete g (ps2.x.reset (some Status.submitFailed)) "submit-failed"
                        else (ps2.x.reset (some Status.submitFailed), none)).1 =
                        (if (ps2.x.status != Status.submitFailed) = true then
                          (Msg.setDone (g.task? n) (ps2.x.reset (some Status.submitFailed)) "submit-failed").1
                        else ps2.x.reset (some Status.submitFailed)) := by
                      split
                      · rw [setComplete_eq g _ n "submit-failed" ((reset_name ..).trans hk2.2)]
                      · rfl
                    rw [e]
                    have hyk : (if (ps2.x.status != Status.submitFailed) = true then
                          (Msg.setDone (g.task? n) (ps2.x.reset (some Status.submitFailed)) "submit-failed").1
                        else ps2.x.reset (some Status.submitFailed)).pt = ps2.x.pt ∧
                        (if (ps2.x.status != Status.submitFailed) = true then
                          (Msg.setDone (g.task? n) (ps2.x.reset (some Status.submitFailed)) "submit-failed").1
                        else ps2.x.reset (some Status.submitFailed)).name = ps2.x.name := by
                      constructor <;> split <;> simp [setDone_pt, setDone_name, reset_pt, reset_name]
                    generalize (if (ps2.x.status != Status.submitFailed) = true then
                          (Msg.setDone (g.task? n) (ps2.x.reset (some Status.submitFailed)) "submit-failed").1
                        else ps2.x.reset (some Status.submitFailed)) = y at hyk ⊢
                    have := hsp "submit-failed" y hyk.1 hyk.2
                    revert this
                    cases ht : g.task? n <;> rw [ht] at c2 <;> simp only [] at c2 ⊢ <;>
                      simp only [c2, Bool.false_eq_true, if_false] <;> intro this <;>
                      exact ⟨this, by first | rfl | trivial⟩
              · simp only [m4, Bool.false_eq_true, if_false]
                by_cases m5 : (msg == "submitted") = true
                · simp only [m5, if_true]
                  unfold Msg.finSubmitted
                  by_cases c1 : (flag == Flag.received && decide (ps2.x.status.rank ≥ Status.submitted.rank)) = true
                  · simp only [c1, if_true]; exact ⟨h2, by first | rfl | trivial⟩
                  · simp only [c1, Bool.false_eq_true, if_false]
                    refine ⟨?_, by first | rfl | trivial⟩
                    by_cases c2 : (ps2.x.status == Status.preparing) = true
                    · simp only [c2, if_true]
                      exact hsp "submitted" _ (by simp [reset_pt]) (by simp [reset_name])
                    · simp only [c2, Bool.false_eq_true, if_false]
                      exact sim_spawn g hwf p n "submitted" SF ps2 h2
                · simp only [m5, Bool.false_eq_true, if_false]
                  by_cases c1 : ((Msg.pre (g.task? n) ps.x msg).2 == some true) = true
                  · simp only [c1, if_true]
                    exact ⟨sim_spawn g hwf p n msg SF ps2 h2, by first | rfl | trivial⟩
                  · simp only [c1, Bool.false_eq_true, if_false]
                    exact ⟨h2, by first | rfl | trivial⟩
end CylcModel.Sched

namespace CylcModel.Sched
open CylcModel.Msg

/-! ### Part C: completed outputs are never un-completed, in any run of `Sched` -/

/-- the DB record of the latest removal of (p, n), as `spawn_task` reads it -/
def lastHist (s : State) (p : Int) (n : String) : Option Hist :=
  (s.hist.filter fun h => h.pt == p && h.name == n).getLast?

/-- the completed outputs on record for the instance (p, n): of its pooled proxy, else of its latest DB
record (a later respawn starts from these), else none -/
def recDone (s : State) (p : Int) (n : String) : List String :=
  match s.get? p n with
  | some x => x.done
  | none => match lastHist s p n with
    | some h => h.done
    | none => []

/-- every output on record in `s` is on record in `s'`, for every task instance -/
structure Mono (s s' : State) : Prop where
  le : ∀ p n m, m ∈ recDone s p n → m ∈ recDone s' p n

theorem Mono.refl (s : State) : Mono s s := ⟨fun _ _ _ h => h⟩
theorem Mono.trans {a b c : State} (h1 : Mono a b) (h2 : Mono b c) : Mono a c :=
  ⟨fun p n m h => h2.le p n m (h1.le p n m h)⟩

theorem mono_of_eq (s s' : State) (hp : s'.pool = s.pool) (hh : s'.hist = s.hist) : Mono s s' := by
  constructor
  intro p n m h
  unfold recDone lastHist State.get? at *
  rw [hp, hh]; exact h

theorem mono_foldl {α : Type} (f : State → α → State) (h : ∀ s a, Mono s (f s a)) :
    ∀ (l : List α) (s : State), Mono s (l.foldl f s) := by
  intro l; induction l with
  | nil => intro s; exact Mono.refl _
  | cons a l ih => intro s; exact Mono.trans (h s a) (ih _)

/-- replacing a pooled proxy by one with at least its outputs -/
theorem mono_put (s : State) (y : Proxy)
    (h : ∀ x, s.get? y.pt y.name = some x → ∀ m, m ∈ x.done → m ∈ y.done) : Mono s (s.put y) := by
  constructor
  intro p n m hm
  unfold recDone at *
  by_cases hk : y.pt = p ∧ y.name = n
  · cases hg : s.get? p n with
    | some x =>
      rw [get?_put_same s p n x y hg hk.1 hk.2]
      simp only [hg] at hm
      exact h x (by rw [hk.1, hk.2]; exact hg) m hm
    | none =>
      rw [get?_put_none s p n y hg]
      simp only [hg] at hm
      exact hm
  · rw [get?_put_ne s p n y hk]
    exact hm

theorem get?_add_other (s : State) (y : Proxy) (p : Int) (n : String) (h : ¬ (y.pt = p ∧ y.name = n)) :
    (s.add y).get? p n = s.get? p n := by
  unfold State.add
  split
  · rfl
  · unfold State.get?
    simp only [List.find?_append]
    have : [y].find? (fun x => x.pt == p && x.name == n) = none := by
      simp only [List.find?_cons, List.find?_nil]
      have : (y.pt == p && y.name == n) = false := by
        simp only [Bool.and_eq_false_iff, beq_eq_false_iff_ne]
        by_cases hp : y.pt = p
        · right; intro hn; exact h ⟨hp, hn⟩
        · left; exact hp
      simp [this]
    rw [this]; simp

theorem get?_add_new (s : State) (y : Proxy) (h : s.get? y.pt y.name = none) :
    (s.add y).get? y.pt y.name = some y := by
  unfold State.add
  simp only [h, Option.isSome_none, Bool.false_eq_true, if_false]
  unfold State.get? at *
  simp only [List.find?_append, h, Option.none_or]
  simp

/-- adding a proxy that carries at least the outputs of the DB record of its instance -/
theorem mono_add (s : State) (y : Proxy)
    (h : s.get? y.pt y.name = none → ∀ m, m ∈ recDone s y.pt y.name → m ∈ y.done) : Mono s (s.add y) := by
  constructor
  intro p n m hm
  by_cases hk : y.pt = p ∧ y.name = n
  · obtain ⟨rfl, rfl⟩ := hk
    cases hg : s.get? y.pt y.name with
    | some x =>
      have : s.add y = s := by unfold State.add; simp [hg]
      rw [this]; exact hm
    | none =>
      unfold recDone
      rw [get?_add_new s y hg]
      exact h hg m hm
  · unfold recDone at *
    rw [get?_add_other s y p n hk]
    have : (s.add y).hist = s.hist := by unfold State.add; split <;> rfl
    unfold lastHist at *
    rw [this]; exact hm

theorem foldl_satisfyMe_fields (l : List Atom) (y : Proxy) :
    (l.foldl (fun z a => z.satisfyMe a) y).pt = y.pt ∧ (l.foldl (fun z a => z.satisfyMe a) y).name = y.name ∧
    (l.foldl (fun z a => z.satisfyMe a) y).done = y.done := by
  induction l generalizing y with
  | nil => exact ⟨rfl, rfl, rfl⟩
  | cons a l ih =>
    simp only [List.foldl_cons]
    obtain ⟨h1, h2, h3⟩ := ih (y.satisfyMe a)
    exact ⟨h1, h2, h3⟩

theorem mkProxy_key (g : Graph) (nm : String) (q : Int) (x : Proxy) (h : mkProxy g nm q = some x) :
    x.pt = q ∧ x.name = nm ∧ x.done = [] := by
  unfold mkProxy at h
  cases ht : g.task? nm with
  | none => simp [ht] at h
  | some t =>
    simp only [ht, Option.bind_eq_bind, Option.bind_some] at h
    split at h
    · simp at h
    · cases hi : t.inst? q with
      | none => simp [hi] at h
      | some d =>
        simp only [hi, Option.bind_some, Option.pure_def, Option.some.injEq] at h
        subst h
        exact ⟨rfl, rfl, rfl⟩

/-- the absolute-trigger fix-up at the end of `spawn_task` -/
def absFix (g : Graph) (s : State) (nm : String) (y : Proxy) : Proxy :=
  match g.task? nm with
  | some t => if t.hasAbs && !y.prereqsSatisfied then s.absDone.foldl (fun z a => z.satisfyMe a) y else y
  | none => y

theorem absFix_fields (g : Graph) (s : State) (nm : String) (y : Proxy) :
    (absFix g s nm y).pt = y.pt ∧ (absFix g s nm y).name = y.name ∧ (absFix g s nm y).done = y.done := by
  unfold absFix
  split
  · split
    · exact foldl_satisfyMe_fields s.absDone y
    · exact ⟨rfl, rfl, rfl⟩
  · exact ⟨rfl, rfl, rfl⟩

/-- the DB-history part of `spawn_task` -/
def revive (g : Graph) (nm : String) (x : Proxy) (hist : Option Hist) : Option Proxy :=
  match hist with
  | none => some x
  | some h =>
    if h.done.isEmpty then none
    else
      let y := { x with status := h.status, submitNum := h.submitNum, done := h.done }
      if h.status.isFinal then
        match g.task? nm with
        | some t => if isComplete t h.done then none else some y
        | none => none
      else some y

theorem revive_spec (g : Graph) (nm : String) (x r : Proxy) (hist : Option Hist) (h : revive g nm x hist = some r) :
    r.pt = x.pt ∧ r.name = x.name ∧
    (∀ m, m ∈ (match hist with | some h => h.done | none => []) → m ∈ r.done) := by
  unfold revive at h
  cases hist with
  | none =>
    simp only [Option.some.injEq] at h; subst h
    exact ⟨rfl, rfl, by intro m hm; simp at hm⟩
  | some hr =>
    simp only at h
    by_cases he : hr.done.isEmpty = true
    · simp [he] at h
    · simp only [he, Bool.false_eq_true, if_false] at h
      have hy : ∀ (o : Option Proxy), o = some r →
          (o = some { x with status := hr.status, submitNum := hr.submitNum, done := hr.done } ∨ o = none) →
          r.pt = x.pt ∧ r.name = x.name ∧ (∀ m, m ∈ hr.done → m ∈ r.done) := by
        intro o ho hc
        rcases hc with hc | hc
        · rw [hc] at ho; simp only [Option.some.injEq] at ho; subst ho
          exact ⟨rfl, rfl, fun m hm => hm⟩
        · rw [hc] at ho; simp at ho
      apply hy _ h
      split
      · split
        · split
          · right; rfl
          · left; rfl
        · right; rfl
      · left; rfl

theorem spawnTask_eq (g : Graph) (s : State) (nm : String) (q : Int) :
    spawnTask g s nm q =
      if (lastHist s q nm).isNone && q < g.start then none
      else match mkProxy g nm q with
        | none => none
        | some x => (revive g nm x (lastHist s q nm)).map (absFix g s nm) := by
  unfold spawnTask revive absFix lastHist
  rfl

/-- `spawn_task`: the new proxy is the instance asked for and carries the outputs of its latest DB record -/
theorem spawnTask_spec (g : Graph) (s : State) (nm : String) (q : Int) (y : Proxy)
    (h : spawnTask g s nm q = some y) :
    y.pt = q ∧ y.name = nm ∧
    (∀ m, m ∈ (match lastHist s q nm with | some h => h.done | none => []) → m ∈ y.done) := by
  rw [spawnTask_eq] at h
  by_cases hc : ((lastHist s q nm).isNone && decide (q < g.start)) = true
  · simp [hc] at h
  · simp only [hc, Bool.false_eq_true, if_false] at h
    cases hm : mkProxy g nm q with
    | none => simp [hm] at h
    | some x =>
      obtain ⟨hx1, hx2, _⟩ := mkProxy_key g nm q x hm
      simp only [hm] at h
      cases hr : revive g nm x (lastHist s q nm) with
      | none => simp [hr] at h
      | some r =>
        simp only [hr, Option.map_some, Option.some.injEq] at h
        obtain ⟨r1, r2, r3⟩ := revive_spec g nm x r _ hr
        obtain ⟨f1, f2, f3⟩ := absFix_fields g s nm r
        subst h
        exact ⟨f1.trans (r1.trans hx1), f2.trans (r2.trans hx2), by rw [f3]; exact r3⟩

theorem recDone_absent (s : State) (p : Int) (n : String) (h : s.get? p n = none) :
    recDone s p n = (match lastHist s p n with | some h => h.done | none => []) := by
  unfold recDone; rw [h]

theorem mono_spawnAndAdd (g : Graph) (s : State) (nm : String) (q : Int) : Mono s (spawnAndAdd g s nm q) := by
  unfold spawnAndAdd
  split
  · exact Mono.refl _
  · split
    · rename_i x hx
      obtain ⟨h1, h2, h3⟩ := spawnTask_spec g s nm q x hx
      apply mono_add
      intro hg m hm
      rw [h1, h2] at hg hm
      rw [recDone_absent s q nm hg] at hm
      exact h3 m hm
    · exact Mono.refl _

theorem mono_spawnNextParentless (g : Graph) (s : State) (x : Proxy) : Mono s (spawnNextParentless g s x) := by
  unfold spawnNextParentless
  split
  · exact Mono.refl _
  · split
    · exact mono_spawnAndAdd _ _ _ _
    · exact Mono.refl _

theorem getLast?_filter_append_ne (l : List Hist) (h : Hist) (f : Hist → Bool) (hf : f h = false) :
    ((l ++ [h]).filter f).getLast? = (l.filter f).getLast? := by
  simp [List.filter_append, hf]

theorem getLast?_filter_append_eq (l : List Hist) (h : Hist) (f : Hist → Bool) (hf : f h = true) :
    ((l ++ [h]).filter f).getLast? = some h := by
  simp [List.filter_append, hf]

/-- the state `remove` starts from: the next parentless instance may be spawned first -/
def preRemove (g : Graph) (s : State) (x : Proxy) : State :=
  if !x.flows.isEmpty && x.runahead then spawnNextParentless g s x else s

theorem remove_hist (g : Graph) (s : State) (x : Proxy) :
    (remove g s x).hist = (preRemove g s x).hist ++ [⟨x.pt, x.name, x.status, x.submitNum, x.done⟩] := by
  unfold remove preRemove; rfl

theorem remove_get?_other (g : Graph) (s : State) (x : Proxy) (p : Int) (n : String) (hk : ¬ (x.pt = p ∧ x.name = n)) :
    (remove g s x).get? p n = (preRemove g s x).get? p n := by
  unfold remove preRemove State.get?
  simp only
  apply find?_filter_keep
  intro a ha
  simp only [Bool.and_eq_true, beq_iff_eq] at ha
  simp only [Bool.not_eq_true', Bool.and_eq_false_iff, beq_eq_false_iff_ne]
  by_cases hp : a.pt = x.pt
  · right; intro hn; exact hk ⟨by rw [← hp]; exact ha.1, by rw [← hn]; exact ha.2⟩
  · left; exact hp

/-- removing the pooled proxy `x` of its instance: the DB record takes over its outputs -/
theorem mono_remove (g : Graph) (s : State) (x : Proxy) (hx : s.get? x.pt x.name = some x) :
    Mono s (remove g s x) := by
  have h1 : Mono s (preRemove g s x) := by
    unfold preRemove; split
    · exact mono_spawnNextParentless _ _ _
    · exact Mono.refl _
  have h2 : (preRemove g s x).get? x.pt x.name = some x := by
    unfold preRemove; split
    · exact get?_spawnNextParentless_some g s x.pt x.name x x hx
    · exact hx
  apply Mono.trans h1
  constructor
  intro p n m hm
  by_cases hk : x.pt = p ∧ x.name = n
  · obtain ⟨rfl, rfl⟩ := hk
    unfold recDone at hm ⊢
    rw [h2] at hm
    rw [get?_remove_self]
    unfold lastHist
    rw [remove_hist, getLast?_filter_append_eq _ _ _ (by simp)]
    exact hm
  · unfold recDone at hm ⊢
    rw [remove_get?_other g s x p n hk]
    have hlast : lastHist (remove g s x) p n = lastHist (preRemove g s x) p n := by
      unfold lastHist
      rw [remove_hist]
      apply getLast?_filter_append_ne
      simp only [Bool.and_eq_false_iff, beq_eq_false_iff_ne]
      by_cases hp : x.pt = p
      · right; intro hn; exact hk ⟨hp, hn⟩
      · left; exact hp
    rw [hlast]
    exact hm

theorem mono_removeIfComplete (g : Graph) (s : State) (x : Proxy) (hx : s.get? x.pt x.name = some x) :
    Mono s (removeIfComplete g s x) := by
  unfold removeIfComplete
  split
  · exact Mono.refl _
  · split
    · exact Mono.refl _
    · split
      · exact mono_remove g s x hx
      · exact Mono.refl _

theorem mono_spawnChild (g : Graph) (p : Int) (n out : String) (acc : State × List (Int × String)) (c : Child) :
    Mono acc.1 (spawnChild g p n out acc c).1 := by
  obtain ⟨st, sui⟩ := acc
  unfold spawnChild
  simp only
  have h0 : Mono st (if (c.isAbs && !st.absDone.contains ⟨p, n, out⟩) = true then
      { st with absDone := st.absDone ++ [⟨p, n, out⟩] } else st) := by
    split
    · exact mono_of_eq _ _ rfl rfl
    · exact Mono.refl _
  -- spawn_task reads pool-independent data: the same result in the state with the recorded absolute output
  have hsp : ∀ (st0 : State), st0.hist = st.hist → st0.pool = st.pool → True := fun _ _ _ => trivial
  generalize hst0 : (if (c.isAbs && !st.absDone.contains ⟨p, n, out⟩) = true then
      { st with absDone := st.absDone ++ [⟨p, n, out⟩] } else st) = st0 at h0 ⊢
  apply Mono.trans h0
  have hfold : ∀ (ks : List (Int × String)) (a : State × List (Int × String)),
      Mono a.1 (ks.foldl (fun (a : State × List (Int × String)) k =>
        match a.1.get? k.1 k.2 with
        | none => a
        | some z =>
          let z := z.satisfyMe ⟨p, n, out⟩
          (a.1.put z, if (z.suicideNow && !a.2.contains k) = true then a.2 ++ [k] else a.2)) a).1 := by
    intro ks; induction ks with
    | nil => intro a; exact Mono.refl _
    | cons k ks ih =>
      intro a
      simp only [List.foldl_cons]
      refine Mono.trans ?_ (ih _)
      split
      · exact Mono.refl _
      · rename_i z hz
        simp only
        have hzk := get?_some_key hz
        apply mono_put
        intro x hx m hm
        simp only [satisfyMe_pt, satisfyMe_name, hzk.1, hzk.2] at hx
        rw [hz] at hx
        simp only [Option.some.injEq] at hx
        subst hx
        exact hm
  split
  · exact Mono.refl _
  · rename_i y hy
    refine Mono.trans ?_ (hfold _ _)
    simp only
    split
    · exact Mono.refl _
    · rename_i hin
      -- the child was not pooled: it comes from spawn_task
      have hnone : st0.get? c.pt c.name = none := by
        cases hg : st0.get? c.pt c.name with
        | none => rfl
        | some v => simp [hg] at hin
      rw [hnone] at hy
      simp only at hy
      obtain ⟨h1, h2, h3⟩ := spawnTask_spec g st0 c.name c.pt y hy
      apply mono_add
      intro hg m hm
      simp only [satisfyMe_pt, satisfyMe_name, h1, h2] at hg hm
      rw [recDone_absent st0 c.pt c.name hg] at hm
      exact h3 m hm

theorem mono_spawnOnOutput (g : Graph) (s : State) (p : Int) (n out : String) : Mono s (spawnOnOutput g s p n out) := by
  unfold spawnOnOutput
  split
  · exact Mono.refl _
  · simp only
    have h1 : ∀ (cs : List Child) (acc : State × List (Int × String)),
        Mono acc.1 (cs.foldl (spawnChild g p n out) acc).1 := by
      intro cs; induction cs with
      | nil => intro acc; exact Mono.refl _
      | cons c cs ih => intro acc; exact Mono.trans (mono_spawnChild g p n out acc c) (ih _)
    have h2 : ∀ (ks : List (Int × String)) (st : State),
        Mono st (ks.foldl (fun (st : State) k => match st.get? k.1 k.2 with
          | some z => remove g st z
          | none => st) st) := by
      intro ks; induction ks with
      | nil => intro st; exact Mono.refl _
      | cons k ks ih =>
        intro st
        simp only [List.foldl_cons]
        refine Mono.trans ?_ (ih _)
        split
        · rename_i z hz
          have hzk := get?_some_key hz
          exact mono_remove g st z (by rw [hzk.1, hzk.2]; exact hz)
        · exact Mono.refl _
    generalize hR : (List.foldl (spawnChild g p n out) (s, []) _) = R
    have hRm : Mono s R.1 := by rw [← hR]; exact h1 _ (s, [])
    have h3 := h2 R.2 R.1
    generalize (List.foldl (fun (st : State) k => match st.get? k.1 k.2 with
          | some z => remove g st z
          | none => st) R.1 R.2) = S at h3 ⊢
    refine Mono.trans hRm (Mono.trans h3 ?_)
    split
    · rename_i x' hx'
      have hk := get?_some_key hx'
      exact mono_removeIfComplete g S x' (by rw [hk.1, hk.2]; exact hx')
    · exact Mono.refl _

theorem mono_spawnChildren (g : Graph) (s : State) (p : Int) (n out : String) (tr : Bool) :
    Mono s (spawnChildren g s p n out tr) := by
  unfold spawnChildren; split
  · exact Mono.refl _
  · exact mono_spawnOnOutput _ _ _ _ _

/-- storing an updated copy of the looked-up proxy that has at least its outputs -/
theorem mono_store (s : State) (p : Int) (n : String) (x y : Proxy) (tr : Bool)
    (h : lookup s p n = some (x, tr)) (hp : y.pt = p) (hn : y.name = n) (hd : ∀ m, m ∈ x.done → m ∈ y.done) :
    Mono s (store s y tr) := by
  rcases lookup_cases h with ⟨rfl, hg⟩ | ⟨rfl, _, _⟩
  · unfold store
    simp only [Bool.false_eq_true, if_false]
    apply mono_put
    intro x0 hx0 m hm
    rw [hp, hn, hg] at hx0
    simp only [Option.some.injEq] at hx0
    subst hx0
    exact hd m hm
  · unfold store
    simp only [if_true]
    exact mono_of_eq _ _ rfl rfl

theorem setComplete_fields (g : Graph) (x : Proxy) (m : String) :
    (setComplete g x m).1.pt = x.pt ∧ (setComplete g x m).1.name = x.name ∧
    (∀ a, a ∈ x.done → a ∈ (setComplete g x m).1.done) := by
  unfold setComplete
  split
  · exact ⟨rfl, rfl, fun _ h => h⟩
  · split
    · exact ⟨rfl, rfl, fun _ h => h⟩
    · exact ⟨rfl, rfl, fun a h => by simp [h]⟩

theorem mono_processMessage (g : Graph) : ∀ (fuel : Nat) (s : State) (p : Int) (n : String) (flag : Flag)
    (sn : Nat) (msg : String), Mono s (processMessage g fuel s p n flag sn msg).1 := by
  intro fuel
  induction fuel with
  | zero => intro s p n flag sn msg; unfold processMessage; exact Mono.refl _
  | succ fuel ih =>
    intro s p n flag sn msg
    unfold processMessage
    split
    · exact Mono.refl _
    · rename_i x tr hl
      have hk := lookup_key hl
      split
      · exact Mono.refl _
      · split
        · exact Mono.refl _
        · simp only
          have hst1 : Mono s (store s (if (msg == "submit-failed" || msg == "failed") = true then (x, some false)
              else setComplete g x msg).1 tr) := by
            apply mono_store s p n x _ tr hl
            · split
              · exact hk.1
              · exact (setComplete_fields g x msg).1.trans hk.1
            · split
              · exact hk.2
              · exact (setComplete_fields g x msg).2.1.trans hk.2
            · split
              · exact fun _ h => h
              · exact (setComplete_fields g x msg).2.2
          have himp : ∀ (l : List String) (st : State),
              Mono st (l.foldl (fun st m => (processMessage g fuel st p n .internal sn m).1) st) := by
            intro l; induction l with
            | nil => intro st; exact Mono.refl _
            | cons a l ihl => intro st; exact Mono.trans (ih _ _ _ _ _ _) (ihl _)
          generalize hS : (List.foldl (fun st m => (processMessage g fuel st p n Flag.internal sn m).1) _ _) = S
          have hSm : Mono s S := by rw [← hS]; exact Mono.trans hst1 (himp _ _)
          split
          · exact hSm
          · rename_i x2 tr2 hl2
            have hk2 := lookup_key hl2
            have hstore : ∀ (y : Proxy), y.pt = x2.pt → y.name = x2.name → (∀ m, m ∈ x2.done → m ∈ y.done) →
                Mono s (store S y tr2) :=
              fun y a b c => Mono.trans hSm (mono_store S p n x2 y tr2 hl2 (a.trans hk2.1) (b.trans hk2.2) c)
            have hsp : ∀ (out : String) (y : Proxy), y.pt = x2.pt → y.name = x2.name →
                (∀ m, m ∈ x2.done → m ∈ y.done) → Mono s (spawnChildren g (store S y tr2) p n out tr2) :=
              fun out y a b c => Mono.trans (hstore y a b c) (mono_spawnChildren _ _ _ _ _ _)
            have hsc : ∀ (out : String) (st : Status) (w : String),
                Mono s (spawnChildren g (store S (setComplete g (x2.reset (some st)) w).1 tr2) p n out tr2) := by
              intro out st w
              obtain ⟨a, b, c⟩ := setComplete_fields g (x2.reset (some st)) w
              exact hsp out _ (a.trans (reset_pt ..)) (b.trans (reset_name ..))
                (fun m hm => c m (by rw [reset_done]; exact hm))
            have hrs : ∀ (st : Option Status) (q r : Option Bool), (∀ m, m ∈ x2.done → m ∈ (x2.reset st q r).done) :=
              fun st q r m hm => by rw [reset_done]; exact hm
            repeat' split
            all_goals try (exact hSm)
            all_goals try (exact Mono.trans hSm (mono_spawnChildren _ _ _ _ _ _))
            all_goals try (simp only [])
            all_goals first
              | (refine hsp _ _ ?_ ?_ ?_ <;> first
                  | exact ((setComplete_fields g _ _).1.trans (reset_pt ..))
                  | exact ((setComplete_fields g _ _).2.1.trans (reset_name ..))
                  | exact fun m hm => (setComplete_fields g _ _).2.2 m (by rw [reset_done]; exact hm)
                  | (simp only [reset_pt, reset_name]; done)
                  | exact fun m hm => (by simpa only [reset_done] using hm))
              | (refine hstore _ ?_ ?_ ?_ <;> first
                  | (simp only [reset_pt, reset_name]; done)
                  | exact fun m hm => (by simpa only [reset_done] using hm))

theorem mono_processQueue (g : Graph) (s : State) : Mono s (processQueue g s) := by
  unfold processQueue
  refine Mono.trans (mono_of_eq s { s with queue := [] } rfl rfl) ?_
  apply mono_foldl
  intro st grp
  simp only
  split
  · exact Mono.refl _
  · have : ∀ (l : List Msg) (acc : State × Bool),
        Mono acc.1 (l.foldl (fun (acc : State × Bool) m =>
          let (st', pl) := processMessage g 4 acc.1 grp.1.1 grp.1.2 .received m.submitNum m.text
          (st', acc.2 || pl)) acc).1 := by
      intro l; induction l with
      | nil => intro acc; exact Mono.refl _
      | cons m l ihl =>
        intro acc
        exact Mono.trans (mono_processMessage g 4 acc.1 grp.1.1 grp.1.2 .received m.submitNum m.text)
          (ihl ((processMessage g 4 acc.1 grp.1.1 grp.1.2 .received m.submitNum m.text).1,
            acc.2 || (processMessage g 4 acc.1 grp.1.1 grp.1.2 .received m.submitNum m.text).2))
    have h2 := this grp.2 (st, false)
    split
    · exact Mono.trans h2 (mono_of_eq _ _ rfl rfl)
    · exact h2

theorem hist_computeRunahead (g : Graph) (s : State) (f : Bool) : (computeRunahead g s f).hist = s.hist := by
  unfold computeRunahead
  simp only
  split
  · rfl
  · split <;> rfl

theorem mono_computeRunahead (g : Graph) (s : State) (f : Bool) : Mono s (computeRunahead g s f) :=
  mono_of_eq _ _ (pool_computeRunahead g s f) (hist_computeRunahead g s f)

theorem mono_put_fresh (s : State) (y z : Proxy) (h : s.get? y.pt y.name = some y)
    (hp : z.pt = y.pt) (hn : z.name = y.name) (hd : ∀ m, m ∈ y.done → m ∈ z.done) : Mono s (s.put z) := by
  apply mono_put
  intro x hx m hm
  rw [hp, hn, h] at hx
  simp only [Option.some.injEq] at hx
  subst hx
  exact hd m hm

theorem mono_releaseRunahead (g : Graph) (s : State) : Mono s (releaseRunahead g s).1 := by
  unfold releaseRunahead
  split
  · exact Mono.refl _
  · split
    · exact Mono.refl _
    · simp only
      apply mono_foldl
      intro st x
      refine Mono.trans ?_ (mono_spawnNextParentless g _ x)
      split
      · rename_i y hy
        have hk := get?_some_key hy
        exact mono_put_fresh st y _ (by rw [hk.1, hk.2]; exact hy) (reset_pt ..) (reset_name ..)
          (fun m hm => by rw [reset_done]; exact hm)
      · exact Mono.refl _

theorem mono_releaseRunaheadN (g : Graph) : ∀ (n : Nat) (s : State), Mono s (releaseRunaheadN g n s) := by
  intro n; induction n with
  | zero => intro s; exact Mono.refl _
  | succ n ih =>
    intro s
    unfold releaseRunaheadN
    simp only
    split
    · exact Mono.trans (mono_releaseRunahead g s) (ih _)
    · exact mono_releaseRunahead g s

/-- `queue_if_ready` on the pooled proxy itself -/
theorem mono_queueIfReady (s : State) (x : Proxy) (h : s.get? x.pt x.name = some x) : Mono s (queueIfReady s x) := by
  unfold queueIfReady; split
  · exact mono_put_fresh s x _ h (reset_pt ..) (reset_name ..) (fun m hm => by rw [reset_done]; exact hm)
  · exact Mono.refl _

theorem mono_sweepQueue (s : State) : Mono s (sweepQueue s) := by
  unfold sweepQueue
  apply mono_foldl
  intro st x
  split
  · rename_i y hy
    have hk := get?_some_key hy
    have hy' : st.get? y.pt y.name = some y := by rw [hk.1, hk.2]; exact hy
    split
    · have h1 : Mono st (st.put { y with retryWait := false }) :=
        mono_put_fresh st y _ hy' rfl rfl (fun m hm => hm)
      refine Mono.trans h1 ?_
      apply mono_queueIfReady
      exact get?_put_same st y.pt y.name y _ hy' rfl rfl
    · exact Mono.refl _
  · exact Mono.refl _

theorem mono_checkStalled (g : Graph) (s : State) : Mono s (checkStalled g s) := by
  unfold checkStalled; split
  · exact Mono.refl _
  · split
    · exact mono_of_eq _ _ rfl rfl
    · exact Mono.refl _

theorem mono_checkAutoShutdown (g : Graph) (s : State) : Mono s (checkAutoShutdown g s).1 := by
  unfold checkAutoShutdown
  simp only
  split
  · exact mono_checkStalled _ _
  · split <;> exact mono_checkStalled _ _

theorem find?_map_key (l : List Proxy) (f : Proxy → Proxy) (p : Int) (n : String)
    (hf : ∀ x, (f x).pt = x.pt ∧ (f x).name = x.name) :
    (l.map f).find? (fun x => x.pt == p && x.name == n) = (l.find? (fun x => x.pt == p && x.name == n)).map f := by
  induction l with
  | nil => rfl
  | cons a l ih =>
    simp only [List.map_cons, List.find?_cons, (hf a).1, (hf a).2]
    split
    · rfl
    · exact ih

/-- a map over the pool that keeps identities and outputs -/
theorem mono_map (s s' : State) (f : Proxy → Proxy) (hf : ∀ x, (f x).pt = x.pt ∧ (f x).name = x.name)
    (hd : ∀ x, (f x).done = x.done) (hp : s'.pool = s.pool.map f) (hh : s'.hist = s.hist) : Mono s s' := by
  constructor
  intro p n m hm
  unfold recDone lastHist State.get? at *
  rw [hp, hh, find?_map_key s.pool f p n hf]
  cases hg : s.pool.find? (fun x => x.pt == p && x.name == n) with
  | none => simp only [hg, Option.map_none] at hm ⊢; exact hm
  | some x => simp only [hg, Option.map_some] at hm ⊢; rw [hd]; exact hm

theorem mono_finishLoop (g : Graph) (s : State) : Mono s (finishLoop g s) := by
  unfold finishLoop
  simp only
  have h5 : Mono s (if (s.schedUpd || s.pool.any (·.upd)) = true then
      { s with stalled := false, schedUpd := false, pool := s.pool.map fun x => { x with upd := false } }
    else s) := by
    split
    · exact mono_map _ _ (fun x => { x with upd := false }) (fun _ => ⟨rfl, rfl⟩) (fun _ => rfl) rfl rfl
    · exact Mono.refl _
  generalize (if (s.schedUpd || s.pool.any (·.upd)) = true then
      { s with stalled := false, schedUpd := false, pool := s.pool.map fun x => { x with upd := false } }
    else s) = s5 at h5 ⊢
  have h6 : Mono s5 { s5 with db := some s5.pool } := mono_of_eq _ _ rfl rfl
  split
  · exact Mono.trans h5 (Mono.trans h6 (mono_checkStalled _ _))
  · exact Mono.trans h5 h6

theorem key_unique : ∀ (l : List Proxy), (l.map fun x => (x.pt, x.name)).Nodup →
    ∀ a, a ∈ l → ∀ b, b ∈ l → a.pt = b.pt → a.name = b.name → a = b := by
  intro l; induction l with
  | nil => intro _ a ha; simp at ha
  | cons c l ih =>
    intro hnd a ha b hb hp hn
    simp only [List.map_cons, List.nodup_cons] at hnd
    rcases List.mem_cons.mp ha with rfl | ha' <;> rcases List.mem_cons.mp hb with rfl | hb'
    · rfl
    · exfalso; apply hnd.1
      exact List.mem_map.mpr ⟨b, hb', by rw [hp, hn]⟩
    · exfalso; apply hnd.1
      exact List.mem_map.mpr ⟨a, ha', by rw [hp, hn]⟩
    · exact ih hnd.2 a ha' b hb' hp hn

theorem mono_releaseAndSubmit (s : State) (hnd : NoDup s) : Mono s (releaseAndSubmit s) := by
  unfold releaseAndSubmit
  simp only
  split
  · exact Mono.refl _
  · -- through the fold every pooled proxy keeps the outputs of the original proxy of its instance
    have hfold : ∀ (l : List Proxy), (∀ x ∈ l, x ∈ s.pool) → ∀ (st : State),
        (Mono s st ∧ ∀ z ∈ st.pool, ∃ z0 ∈ s.pool, z0.pt = z.pt ∧ z0.name = z.name ∧ z.done = z0.done) →
        (Mono s (l.foldl (fun (st : State) x =>
          let y := x.reset (queued := some false)
          let y := { (y.reset (status := some .preparing)) with submitNum := x.submitNum + 1 }
          { (st.put y) with launched := st.launched ++ [(x.pt, x.name, x.submitNum + 1)] }) st)) := by
      intro l; induction l with
      | nil => intro _ st h; exact h.1
      | cons x l ih =>
        intro hl st hst
        simp only [List.foldl_cons]
        apply ih (fun x' hx' => hl x' (List.mem_cons_of_mem _ hx'))
        have hxs : x ∈ s.pool := hl x List.mem_cons_self
        have hy : ∃ y : Proxy, y = ({ ((x.reset (queued := some false)).reset (status := some .preparing)) with
            submitNum := x.submitNum + 1 } : Proxy) := ⟨_, rfl⟩
        obtain ⟨y, hy⟩ := hy
        have hyp : y.pt = x.pt := by rw [hy]; simp [reset_pt]
        have hyn : y.name = x.name := by rw [hy]; simp [reset_name]
        have hyd : y.done = x.done := by rw [hy]; simp [reset_done]
        rw [← hy]
        constructor
        · refine Mono.trans hst.1 (Mono.trans (mono_put st y ?_) (mono_of_eq (st.put y) _ rfl rfl))
          intro x0 hx0 m hm
          rw [hyp, hyn] at hx0
          have hx0m : x0 ∈ st.pool := List.mem_of_find?_eq_some hx0
          have hx0k := get?_some_key hx0
          obtain ⟨z0, hz0, hp, hn, hd⟩ := hst.2 x0 hx0m
          have : z0 = x := key_unique s.pool hnd z0 hz0 x hxs (by rw [hp, hx0k.1]) (by rw [hn, hx0k.2])
          subst this
          rw [hyd, ← hd]; exact hm
        · intro z hz
          simp only [State.put] at hz
          obtain ⟨w, hw, rfl⟩ := List.mem_map.mp hz
          split
          · exact ⟨x, hxs, hyp.symm, hyn.symm, hyd⟩
          · exact hst.2 w hw
    have key := hfold (s.pool.filter (·.queued)) (fun x hx => (List.mem_filter.mp hx).1) s
      ⟨Mono.refl _, fun z hz => ⟨z, hz, rfl, rfl, rfl⟩⟩
    exact Mono.trans key (mono_of_eq _ _ rfl rfl)

theorem mono_mainLoop (g : Graph) (s : State) (hnd : NoDup s) : Mono s (mainLoop g s) := by
  unfold mainLoop
  split
  · exact Mono.refl _
  · simp only
    have n1 := nodup_releaseRunahead g _ (nodup_computeRunahead g s false hnd)
    have n2 := nodup_checkAutoShutdown g _ n1
    have m1 : Mono s (releaseRunahead g (computeRunahead g s)).1 :=
      Mono.trans (mono_computeRunahead g s false) (mono_releaseRunahead g _)
    have m2 : Mono s (checkAutoShutdown g (releaseRunahead g (computeRunahead g s)).1).1 :=
      Mono.trans m1 (mono_checkAutoShutdown g _)
    split
    · exact Mono.trans m2 (mono_of_eq _ _ rfl rfl)
    · have n3 := nodup_sweepQueue _ n2
      exact Mono.trans m2 (Mono.trans (mono_sweepQueue _) (Mono.trans (mono_releaseAndSubmit _ n3)
        (Mono.trans (mono_processQueue g _) (mono_finishLoop g _))))

/-- **one op of the scheduler never un-completes an output on record** -/
theorem mono_step (g : Graph) (s : State) (op : Op) (hnd : NoDup s) : Mono s (step g s op) := by
  unfold step
  have hc : Mono s (clearOp s) := mono_of_eq _ _ rfl rfl
  have nc : NoDup (clearOp s) := hnd
  cases op with
  | loop => exact Mono.trans hc (mono_mainLoop g _ nc)
  | subres p n ok sn => exact Mono.trans hc (mono_processMessage g 4 _ _ _ _ _ _)
  | msg p n sn text => exact Mono.trans hc (mono_of_eq _ _ rfl rfl)

theorem nodup_stepX (g : Graph) (s : State) (op : XOp) (h : NoDup s) : NoDup (stepX g s op) := by
  cases op with
  | base op => exact nodup_step g s op h
  | poll p n sn text =>
    show NoDup (if pollMatches s p n sn then
      (if isVacated text then (match (clearOp s).get? p n with
          | some x => (clearOp s).put (vacateProxy x)
          | none => clearOp s)
        else (processMessage g 4 (clearOp s) p n .polled sn text).1) else clearOp s)
    split
    · split
      · split
        · exact nodup_put _ _ (show NoDup (clearOp s) from h)
        · exact h
      · exact nodup_processMessage g 4 _ _ _ _ _ _ (show NoDup (clearOp s) from h)
    · exact h

theorem mono_stepX (g : Graph) (s : State) (op : XOp) (hnd : NoDup s) : Mono s (stepX g s op) := by
  cases op with
  | base op => exact mono_step g s op hnd
  | poll p n sn text =>
    show Mono s (if pollMatches s p n sn then
      (if isVacated text then (match (clearOp s).get? p n with
          | some x => (clearOp s).put (vacateProxy x)
          | none => clearOp s)
        else (processMessage g 4 (clearOp s) p n .polled sn text).1) else clearOp s)
    have hc : Mono s (clearOp s) := mono_of_eq s (clearOp s) rfl rfl
    split
    · split
      · split
        · rename_i x hx
          have hk := get?_some_key hx
          refine Mono.trans hc (mono_put_fresh (clearOp s) x _ (by rw [hk.1, hk.2]; exact hx) ?_ ?_ ?_)
          · unfold vacateProxy; split
            · rfl
            · split
              · rfl
              · simp [reset_pt]
          · unfold vacateProxy; split
            · rfl
            · split
              · rfl
              · simp [reset_name]
          · intro m hm; unfold vacateProxy; split
            · exact hm
            · split
              · exact hm
              · simpa [reset_done] using hm
        · exact hc
      · exact Mono.trans hc (mono_processMessage g 4 _ _ _ _ _ _)
    · exact hc

/-- every state of an extended run satisfies `P` when the start-up state does and every step preserves it -/
theorem runX_inv (P : State → Prop) (g : Graph) (h0 : P (init g)) (hs : ∀ s op, P s → P (stepX g s op)) :
    ∀ ops, ∀ s ∈ runX g ops, P s := by
  intro ops
  unfold runX
  have key : ∀ (ops : List XOp) (acc : List State) (cur : State),
      (∀ s ∈ acc, P s) → P cur →
      ∀ s ∈ (ops.foldl (fun (a : List State × State) op =>
          let s' := stepX g a.2 op; (a.1 ++ [s'], s')) (acc, cur)).1, P s := by
    intro ops
    induction ops with
    | nil => intro acc cur hacc _ s hm; exact hacc s hm
    | cons op ops ih =>
      intro acc cur hacc hcur
      simp only [List.foldl_cons]
      apply ih
      · intro s hm
        rcases List.mem_append.mp hm with h | h
        · exact hacc s h
        · simp at h; subst h; exact hs _ _ hcur
      · exact hs _ _ hcur
  exact key ops [init g] (init g) (by intro s hm; simp at hm; subst hm; exact h0) h0

/-- the same with the step hypothesis restricted to the ops of the list -/
theorem runX_inv_mem (P : State → Prop) (g : Graph) (ops : List XOp) (h0 : P (init g))
    (hs : ∀ s op, op ∈ ops → P s → P (stepX g s op)) : ∀ s ∈ runX g ops, P s := by
  unfold runX
  have key : ∀ (l : List XOp), (∀ op ∈ l, op ∈ ops) → ∀ (acc : List State) (cur : State),
      (∀ s ∈ acc, P s) → P cur →
      ∀ s ∈ (l.foldl (fun (a : List State × State) op =>
          let s' := stepX g a.2 op; (a.1 ++ [s'], s')) (acc, cur)).1, P s := by
    intro l
    induction l with
    | nil => intro _ acc cur hacc _ s hm; exact hacc s hm
    | cons op l ih =>
      intro hl acc cur hacc hcur
      simp only [List.foldl_cons]
      have hstep := hs cur op (hl op List.mem_cons_self) hcur
      apply ih (fun o ho => hl o (List.mem_cons_of_mem _ ho))
      · intro s hm
        rcases List.mem_append.mp hm with h | h
        · exact hacc s h
        · simp at h; subst h; exact hstep
      · exact hstep
  exact key ops (fun _ h => h) [init g] (init g) (by intro s hm; simp at hm; subst hm; exact h0) h0

theorem nodup_runX (g : Graph) (ops : List XOp) : ∀ s ∈ runX g ops, NoDup s :=
  runX_inv NoDup g (nodup_loadFromPoint g) (nodup_stepX g) ops

end CylcModel.Sched
