/-
`Sched3Reload` — `Sched2` extended with `cylc reload` (property C27).  A copy of `Sched2` (which stays frozen),
extended by a line-by-line port of

  cylc/flow/commands.py    reload_workflow (pause, `_set_workflow_params` from the committed DB rows: the DB stop point
                           becomes the sticky `--stopcp` option, load of the new definition or rejection,
                           `put_workflow_params` = rewrite of the whole workflow_params table - the hold point row is
                           dropped -, `pool.reload`, forced `compute_runahead` + `release_runahead_tasks`, resume)
  cylc/flow/task_pool.py   reload, _reload_taskdefs (stop point reset, orphans = names of the old task list missing from
                           the new one; an orphan is removed iff waiting / held / queued, else kept with
                           `graph_children = {}`; every other proxy is re-created from the new definition at its point -
                           valid for the new sequences or not - and swapped in), check_task_output (committed
                           task_outputs rows), the queue manager rebuilt empty
  cylc/flow/task_proxy.py  copy_to_reload_successor (submit number, try timers, outputs OBJECT - the old outputs and
                           completion expression stay -, held / runahead / updated flags, NOT the queued flag, NOT the
                           run mode; prerequisite atoms keep their pre-reload state, new atoms are looked up in the
                           DB; suicide prerequisites start afresh; `_cylc` retry xtriggers are carried over)
  cylc/flow/scheduler.py   process_command_queue inside `_main_loop` (op `reload` with `inloop`), `is_reloaded`
                           ("a reload cannot un-stall the workflow by itself")
  cylc/flow/task_job_mgr.py  _set_retry_timers (`set_delays` at every preparation: the retry limits of a job are those of
                           the definition current when it was prepared)
  cylc/flow/workflow_db_mgr.py  the queued writes of the stop / hold point rows (flushed at the commit points)

New state: the current instance graph lives in the state (`State.g`; `Op.reload` carries the new one, re-extracted from
the reloaded configuration), per-proxy outputs / completion expression / retry limits, `noSpawn`, `dbOut` (committed
task_outputs rows; `spawn_task` revives a removed instance from them), `optStopCp`, `dbHoldCp`, queued DB writes,
`reloaded`, `qMembers` (members of the default queue: a proxy flagged queued whose name is no member is never released),
the behaviour flags `Flags` (three defects with proposed repairs, probed from the live code), and per proxy `dbSn` /
`tsDirty`: the submit number of the task_states row and `TaskState.time_updated` (the row is refreshed by
`put_task_pool` only for proxies whose state was reset; a reload does NOT carry `time_updated` over, so the refresh
is lost and a later restart takes the stale submit number - ported as is).  A restart builds every proxy from the
definition on disk: a task the definition no longer has gets an implicit definition (no sequences, standard
outputs, blank completion expression = any final output).

Original header of Sched2 / Sched v1:

`Sched2` — `Sched` (v1) extended with holds, stop modes / stop point / stop task, pause and
clean restart (commands applied between main loops).  A copy, so that v1 and its proofs stay frozen.
Original header of v1 follows.

`Sched` — the scheduler core as one state machine (DESIGN §4 layer B), stage 1:
spawn-on-demand pool, runahead limiting, queue-if-ready / release, job messages,
completion-based removal, auto shutdown and stall detection, single original flow.

The model runs over an *instance graph*: for every task name and cycle point the
prerequisites (atoms + and/or expression), the graph children per output, the next
parentless point — i.e. what `TaskProxy.__init__` / `TaskDef` compute from the loaded
configuration (those static computations are the subject of C13–C16; here they are inputs).

Anchors: cylc/flow/task_pool.py (load_from_point, compute_runahead, release_runahead_tasks,
queue_if_ready, release_queued_tasks, spawn_on_output, spawn_task, remove, remove_if_complete,
is_stalled), cylc/flow/scheduler.py (_main_loop, workflow_shutdown, check_auto_shutdown,
process_queued_task_messages, check_workflow_stalled), cylc/flow/task_events_mgr.py
(process_message and helpers), cylc/flow/task_job_mgr.py (prep_submit_task_jobs).

Not modelled in this stage (never generated): commands, holds, several flows, flow-wait,
suicide triggers, xtriggers, clock expiry, queue limits, future-offset runahead extension,
stop points, Cylc-7 compatibility mode.  Core Lean only.
-/
namespace CylcModel.Sched3Reload

/-! ### Static instance graph -/

inductive Status where
  | waiting | expired | preparing | submitFailed | submitted | running | failed | succeeded
  deriving Repr, DecidableEq, Inhabited

/-- position in `TASK_STATUSES_ORDERED` -/
def Status.rank : Status → Nat
  | .waiting => 0 | .expired => 1 | .preparing => 2 | .submitFailed => 3
  | .submitted => 4 | .running => 5 | .failed => 6 | .succeeded => 7

def Status.str : Status → String
  | .waiting => "waiting" | .expired => "expired" | .preparing => "preparing"
  | .submitFailed => "submit-failed" | .submitted => "submitted" | .running => "running"
  | .failed => "failed" | .succeeded => "succeeded"

def Status.isFinal : Status → Bool
  | .expired | .submitFailed | .failed | .succeeded => true
  | _ => false

def Status.isActive : Status → Bool        -- TASK_STATUSES_ACTIVE
  | .submitted | .running => true
  | _ => false

structure Atom where
  pt : Int
  task : String
  out : String          -- the output *message*
  deriving Repr, DecidableEq, Inhabited

/-- and/or expression over atom indices (prerequisites) -/
inductive BE where
  | atom (i : Nat)
  | and (l r : BE)
  | or (l r : BE)
  deriving Repr, DecidableEq, Inhabited

/-- and/or expression over completion variables (trigger names with `-` → `_`) -/
inductive CE where
  | var (v : String)
  | and (l r : CE)
  | or (l r : CE)
  deriving Repr, DecidableEq, Inhabited

structure Pre where
  atoms : List (Atom × Bool)      -- satisfied flag
  expr : Option BE                -- `none`: conjunction of all atoms
  deriving Repr, DecidableEq, Inhabited

structure Child where
  name : String
  pt : Int
  isAbs : Bool
  deriving Repr, DecidableEq, Inhabited

structure InstDef where
  pre : List Pre
  sui : List Pre
  children : List (String × List Child)     -- keyed by output message
  nextParentless : Option Int
  deriving Repr, Inhabited

structure OutDef where
  trigger : String
  message : String
  deriving Repr, DecidableEq, Inhabited

structure TaskDefn where
  name : String
  insts : List (Int × InstDef)              -- valid points only
  firstParentless : Option Int
  completion : CE
  outputs : List OutDef
  execRetries : Nat := 0                    -- number of `execution retry delays`
  subRetries : Nat := 0                     -- number of `submission retry delays`
  hasAbs : Bool := false                    -- `TaskDef.has_abs_triggers`
  offInsts : List (Int × InstDef) := []     -- what a proxy built at a point NOT valid for the task gets (reload)
  deriving Repr, Inhabited

structure Graph where
  icp : Int
  fcp : Int
  start : Int
  runahead : Nat                            -- `Pn`
  tasks : List TaskDefn                     -- in `task_name_list` order
  seqs : List (List Int)                    -- valid points of every sequence, ascending
  stopPoint : Option Int := none            -- `TaskPool.stop_point` (the final point unless set otherwise)
  cfgStop : Option Int := none              -- `config.stop_point` when the graph was extracted
  cfgStopFile : Option Int := none          -- `[scheduling]stop after cycle point` as written in flow.cylc
  deriving Repr, Inhabited

def Graph.task? (g : Graph) (name : String) : Option TaskDefn := g.tasks.find? (·.name == name)

def TaskDefn.inst? (t : TaskDefn) (p : Int) : Option InstDef := (t.insts.find? (·.1 == p)).map (·.2)

/-- the instance data of a proxy constructed at `p`, on sequence or not (`TaskProxy.__init__` does not check) -/
def TaskDefn.anyInst (t : TaskDefn) (p : Int) : InstDef :=
  match t.inst? p with
  | some d => d
  | none => match t.offInsts.find? (·.1 == p) with
    | some (_, d) => d
    | none => { pre := [], sui := [], children := [], nextParentless := none }

/-! ### Dynamic state -/

structure Proxy where
  pt : Int
  name : String
  status : Status := .waiting
  held : Bool := false
  queued : Bool := false
  runahead : Bool := true
  flows : List Nat := [1]
  submitNum : Nat := 0
  done : List String := []                  -- completed output *messages*
  pre : List Pre := []
  sui : List Pre := []
  upd : Bool := false                       -- TaskState.is_updated
  execTry : Nat := 0                        -- try_timers[EXECUTION_RETRY].num
  subTry : Nat := 0                         -- try_timers[SUBMISSION_RETRY].num
  retryWait : Bool := false                 -- an unsatisfied `_cylc_retry` / `_cylc_submit_retry` xtrigger
  live : Bool := false                      -- `run_mode == LIVE` (set at job preparation, lost on restart)
  timers : Bool := false                    -- `try_timers` exist (created at the first preparation, saved in the DB)
  outs : List OutDef := []                  -- the outputs of the proxy's `TaskOutputs` object (survives a reload)
  comp : CE := .var "succeeded"             -- its completion expression
  tdExec : Nat := 0                         -- number of execution retry delays of `itask.tdef` (an orphan keeps its old tdef)
  tdSub : Nat := 0
  execMax : Nat := 0                        -- delays held by the try timers (`set_delays` at each preparation)
  subMax : Nat := 0
  noSpawn : Bool := false                   -- `graph_children = {}` (orphaned by a reload)
  dbSn : Nat := 0                           -- `submit_num` of the instance's task_states row
  tsDirty : Bool := false                   -- `TaskState.time_updated` is set: the row is refreshed by the next put_task_pool
  forced : List String := []                -- output messages completed by `cylc set --out` (`TaskOutputs._forced`)
  deriving Repr, Inhabited

structure Hist where                        -- a removed instance as recorded in the DB
  pt : Int
  name : String
  status : Status
  submitNum : Nat
  done : List String := []                  -- completed output messages (`task_outputs` table)
  erased : Bool := false                    -- `cylc remove` took the rows out of every flow (the submit number still counts)
  deriving Repr, Inhabited

structure Msg where
  pt : Int
  name : String
  submitNum : Nat
  text : String
  deriving Repr, Inhabited

/-- behaviour switches of the code (two defects found by this check; the values of the live source are probed
by the harness, `Generated/ReloadFlags.lean`) -/
structure Flags where
  /-- after a reload the rebuilt queue manager adopts the orphans (`adopt_tasks`); `false` (unrepaired code): an
  orphan that becomes ready again (retry) is flagged queued but sits in no queue and is never released -/
  adoptOrphans : Bool := false
  /-- an orphan that is held (or queued) is removed whatever its status, even when its job is submitted / running /
  finished (unrepaired code); `false`: only waiting orphans are removed -/
  dropHeldOrphans : Bool := true
  /-- the rewrite of the workflow_params table by a reload includes the hold point row; `false` (unrepaired code):
  the row is dropped, a restart after a reload forgets the hold point -/
  keepHoldCp : Bool := false
  deriving Repr, DecidableEq, Inhabited

structure State where
  pool : List Proxy := []
  hist : List Hist := []
  rhLimit : Option Int := none
  prevBase : Option Int := none
  prevSeqPts : List Int := []
  stalled : Bool := false
  stop : Option String := none
  schedUpd : Bool := true                   -- Scheduler.is_updated
  queue : List Msg := []                    -- Scheduler.message_queue
  launched : List (Int × String × Nat) := []  -- launches of the current op
  polls : List (Int × String) := []           -- polls requested in the current op
  absDone : List Atom := []                   -- `abs_outputs_done`
  tasksToHold : List (String × Int) := []     -- `tasks_to_hold`
  holdPoint : Option Int := none              -- `hold_point`
  stopPoint : Option Int := none              -- `TaskPool.stop_point` (dynamic: `cylc stop <point>`)
  stopMode : Option String := none            -- `Scheduler.stop_mode` (requested), `stop` = SchedulerStop raised
  stopTask : Option (Int × String) := none    -- `stop_task_id`
  stopTaskFinished : Bool := false
  paused : Bool := false
  dbStopCp : Option Int := none               -- workflow_params `stopcp` in the DB
  restartWait : Bool := false                 -- `is_restart_timeout_wait`
  db : Option (List Proxy) := none            -- `task_pool` DB table as committed by the latest main loop
  ghosts : List Proxy := []                   -- proxies removed during the current op (`transient` objects
                                              -- still referenced by the message batch being processed)
  g : Graph := default                        -- the loaded configuration (replaced by a reload)
  reloaded : Bool := false                    -- `Scheduler.is_reloaded`
  optStopCp : Option Int := none              -- `options.stopcp` (set from the DB by a restart / reload; sticky)
  dbStopQ : Option (Option Int) := none       -- queued, not yet committed write of the `stopcp` row
  dbHoldCp : Option Int := none               -- workflow_params `holdcp` in the DB (committed)
  dbHoldQ : Option (Option Int) := none       -- queued write of the `holdcp` row
  dbOut : List ((Int × String) × List String) := []   -- `task_outputs` rows: completed output messages
  qMembers : List String := []                -- members of the (single, unlimited) default queue
  fl : Flags := {}
  deriving Repr, Inhabited

/-! ### Expressions -/

def BE.eval (sat : Nat → Bool) : BE → Bool
  | .atom i => sat i
  | .and l r => l.eval sat && r.eval sat
  | .or l r => l.eval sat || r.eval sat

def CE.eval (σ : String → Bool) : CE → Bool
  | .var v => σ v
  | .and l r => l.eval σ && r.eval σ
  | .or l r => l.eval σ || r.eval σ

def Pre.isSatisfied (p : Pre) : Bool :=
  match p.expr with
  | none => p.atoms.all (·.2)
  | some e => e.eval fun i => match p.atoms[i]? with | some a => a.2 | none => false

/-- `Prerequisite.satisfy_me` for one output of one upstream instance -/
def Pre.satisfy (p : Pre) (a : Atom) : Pre :=
  { p with atoms := p.atoms.map fun (b, s) => if b == a then (b, true) else (b, s) }

def Proxy.prereqsSatisfied (x : Proxy) : Bool := x.pre.all Pre.isSatisfied

def Proxy.satisfyMe (x : Proxy) (a : Atom) : Proxy :=
  { x with pre := x.pre.map (·.satisfy a), sui := x.sui.map (·.satisfy a) }

def compVar (trigger : String) : String := trigger.replace "-" "_"

/-- `TaskOutputs.is_complete` -/
def isComplete (t : TaskDefn) (done : List String) : Bool :=
  t.completion.eval fun v =>
    t.outputs.any fun o => compVar o.trigger == v && done.contains o.message

/-- `itask.state.outputs.is_complete()`: the proxy's own outputs object -/
def Proxy.isComplete (x : Proxy) : Bool :=
  x.comp.eval fun v => x.outs.any fun o => compVar o.trigger == v && x.done.contains o.message

def Proxy.key (x : Proxy) : Int × String := (x.pt, x.name)

/-! ### Pool primitives -/

def State.get? (s : State) (p : Int) (n : String) : Option Proxy :=
  s.pool.find? fun x => x.pt == p && x.name == n

def State.put (s : State) (x : Proxy) : State :=
  { s with pool := s.pool.map fun y => if y.pt == x.pt && y.name == x.name then x else y }

/-- `add_to_pool`: no-op when the key is present -/
def State.add (s : State) (x : Proxy) : State :=
  if (s.get? x.pt x.name).isSome then s else { s with pool := s.pool ++ [x] }

/-- `TaskState.reset` for the flags used here; sets `upd` when anything changed -/
def Proxy.reset (x : Proxy) (status : Option Status := none) (queued : Option Bool := none)
    (runahead : Option Bool := none) (held : Option Bool := none) : Proxy :=
  let y := { x with status := status.getD x.status, queued := queued.getD x.queued,
                    runahead := runahead.getD x.runahead, held := held.getD x.held }
  if y.status == x.status && y.queued == x.queued && y.runahead == x.runahead && y.held == x.held then x
  else { y with upd := true, tsDirty := true }

/-- the task_outputs value of a manually completed output is a placeholder, not the message -/
def forcedMark : String := "(manually completed) "

def unmark (m : String) : String := if m.startsWith forcedMark then (m.drop forcedMark.length).toString else m

/-- `can_be_spawned` + proxy construction; `none` when out of bounds / off sequence -/
def mkProxy (g : Graph) (name : String) (p : Int) : Option Proxy := do
  let t ← g.task? name
  if p < g.icp || p > g.fcp then none
  let d ← t.inst? p
  pure { pt := p, name := name, pre := d.pre, sui := d.sui, outs := t.outputs, comp := t.completion,
         tdExec := t.execRetries, tdSub := t.subRetries }

/-- `spawn_task` (single flow): consult the DB history of the instance, then build the proxy;
a new proxy is held when a hold was requested for it earlier or it lies beyond the hold point -/
def spawnTask (g : Graph) (s : State) (name : String) (p : Int) : State × Option Proxy :=
  -- (`_get_task_history`: the rows `cylc remove` erased belong to no flow any more, but their submit number counts)
  let hist := (s.hist.filter fun h => h.pt == p && h.name == name && !h.erased).getLast?
  let maxSn := ((s.hist.filter fun h => h.pt == p && h.name == name).map (·.submitNum)).foldl max 0
  if hist.isNone && p < g.start then (s, none)       -- warm start: pre-start instances count as run
  else match mkProxy g name p with
    | none => (s, none)
    | some x0 =>
      let x := { x0 with submitNum := maxSn, dbSn := maxSn }
      -- `_load_historical_outputs`: the completed outputs come from the committed task_outputs row (matched by
      -- trigger: a manually completed one counts, its forced mark is not restored)
      let hdone : List String := match s.dbOut.find? (·.1 == (p, name)) with | some r => r.2.map unmark | none => []
      let revived : Option Proxy :=
        match hist with
        | none => some x
        | some h =>
          if hdone.isEmpty then none                  -- "task was removed" (suicide leaves no outputs)
          else
            let y := { x with status := h.status, done := hdone }
            if h.status.isFinal then
              match g.task? name with
              | some t => if isComplete t hdone then none else some y    -- finished and complete: not re-run
              | none => none
            else some y
      match revived with
      | none => (s, none)
      | some y =>
        -- hold (requested earlier, or beyond the hold point)
        let (s, y) :=
          if s.tasksToHold.contains (name, p) then (s, y.reset (held := some true))
          else match s.holdPoint with
            | some hp => if p > hp then
                ({ s with tasksToHold := s.tasksToHold ++ [(name, p)] }, y.reset (held := some true))
              else (s, y)
            | none => (s, y)
        -- satisfy absolute triggers from the record of completed absolute outputs
        let y := match g.task? name with
          | some t => if t.hasAbs && !y.prereqsSatisfied then s.absDone.foldl (fun z a => z.satisfyMe a) y else y
          | none => y
        (s, some y)

/-- `get_or_spawn_task` + `add_to_pool` as used by parentless spawning -/
def spawnAndAdd (g : Graph) (s : State) (name : String) (p : Int) : State :=
  if (s.get? p name).isSome then s            -- merge_flows: same flow, nothing to do
  else match spawnTask g s name p with
    | (s, some x) => s.add x
    | (s, none) => s

def nextParentless (g : Graph) (x : Proxy) : Option Int := do
  let t ← g.task? x.name
  -- (`itask.tdef.next_point_parentless(start, point)`: also from a point that a reload left off-sequence)
  (t.anyInst x.pt).nextParentless

/-- `spawn_next_parentless` -/
def spawnNextParentless (g : Graph) (s : State) (x : Proxy) : State :=
  if x.flows.isEmpty || x.pt < g.start then s
  else match nextParentless g x with
    | some np => spawnAndAdd g s x.name np
    | none => s

/-! ### Runahead -/

def insertSorted (x : Int) : List Int → List Int
  | [] => [x]
  | y :: ys => if x < y then x :: y :: ys else if x == y then y :: ys else y :: insertSorted x ys

def sortDedup (l : List Int) : List Int := l.foldl (fun acc x => insertSorted x acc) []

def minOf : List Int → Option Int
  | [] => none
  | x :: xs => some (xs.foldl min x)

/-- `compute_runahead` (count-cycles limit `Pn`, no future offsets, no stop point) -/
def computeRunahead (g : Graph) (s : State) (force : Bool := false) : State :=
  let base : Option Int :=
    if s.pool.isEmpty then minOf (g.seqs.filterMap fun q => q.find? (· ≥ g.start))
    else minOf (s.pool.map (·.pt))
  match base with
  | none => s
  | some b =>
    let prevBase := s.prevBase.getD b
    let s := { s with prevBase := some prevBase }
    if !force && s.rhLimit.isSome && (b == prevBase || s.rhLimit == s.stopPoint) then s
    else
      let pts : List Int :=
        if !force && !s.prevSeqPts.isEmpty && b == prevBase then s.prevSeqPts
        else sortDedup (g.seqs.flatMap fun q => (q.filter (· ≥ b)).take (g.runahead + 1))
      let limit0 : Int :=
        match (pts.take (g.runahead + 1)).getLast? with
        | none => b
        | some l => l
      let limit : Int := match s.stopPoint with
        | some sp => min sp limit0
        | none => limit0
      { s with prevSeqPts := pts, prevBase := some b, rhLimit := some limit }

/-- `release_runahead_tasks`; returns whether anything was released -/
def releaseRunahead (g : Graph) (s : State) : State × Bool :=
  match s.rhLimit with
  | none => (s, false)
  | some lim =>
    if s.pool.isEmpty then (s, false) else
    let rel := s.pool.filter fun x => x.pt ≤ lim && x.runahead
    let s' := rel.foldl (fun (st : State) x =>
        let st := match st.get? x.pt x.name with
          | some y => st.put (y.reset (runahead := some false))
          | none => st
        spawnNextParentless g st x) s
    (s', !rel.isEmpty)

def releaseRunaheadN (g : Graph) : Nat → State → State
  | 0, s => s
  | n + 1, s => let (s', r) := releaseRunahead g s; if r then releaseRunaheadN g n s' else s'

/-! ### Queueing and release -/

def Proxy.isReadyToRun (x : Proxy) : Bool :=
  !x.held && x.status == .waiting && x.prereqsSatisfied && !x.retryWait

/-- `queue_if_ready` -/
def queueIfReady (s : State) (x : Proxy) : State :=
  if !x.queued && !x.runahead && x.isReadyToRun then s.put (x.reset (queued := some true)) else s

/-- `hold_active_task` on a pooled proxy -/
def holdActive (s : State) (x : Proxy) : State :=
  let s := s.put (x.reset (held := some true))
  if s.tasksToHold.contains (x.name, x.pt) then s
  else { s with tasksToHold := s.tasksToHold ++ [(x.name, x.pt)] }

/-- `release_held_active_task` on a pooled proxy -/
def releaseHeldActive (s : State) (x : Proxy) : State :=
  let s :=
    if x.held then
      let y := x.reset (held := some false)
      let y := if !y.runahead && y.isReadyToRun then y.reset (queued := some true) else y
      s.put y
    else s
  { s with tasksToHold := s.tasksToHold.filter (· != (x.name, x.pt)) }

/-- `load_from_point` -/
def loadFromPoint (fl : Flags) (g : Graph) : State :=
  let s : State := { stopPoint := g.stopPoint, g := g, fl := fl, qMembers := g.tasks.map (·.name) }
  let s := g.tasks.foldl (fun st t =>
      match t.firstParentless with
      | some p => spawnAndAdd g st t.name p
      | none => st) s
  let s := computeRunahead g s
  let s := releaseRunaheadN g 10 s
  s.pool.foldl (fun st x => match st.get? x.pt x.name with
    | some y => queueIfReady st y | none => st) s

/-- `release_queued_tasks` (unlimited queues) + `prep_submit_task_jobs` with the stub job runner:
every queued task enters `preparing` under the next submit number and is launched. -/
def releaseAndSubmit (s : State) : State :=
  -- (a task flagged queued whose name is not a member of the queue was never pushed: it is not released)
  let rel := s.pool.filter fun x => x.queued && !x.held && s.qMembers.contains x.name
  if rel.isEmpty then s else
  let s := rel.foldl (fun (st : State) x =>
      let y := x.reset (queued := some false)
      let y := { (y.reset (status := some .preparing)) with
                 submitNum := x.submitNum + 1, live := true, timers := true,
                 execMax := x.tdExec, subMax := x.tdSub }
      { (st.put y) with launched := st.launched ++ [(x.pt, x.name, x.submitNum + 1)] }) s
  { s with schedUpd := true }

/-! ### Removal and spawning on outputs -/

/-- `process_queued_ops`: queued writes of workflow parameters reach the DB -/
def flushDb (s : State) : State :=
  let s := match s.dbStopQ with | some v => { s with dbStopCp := v, dbStopQ := none } | none => s
  match s.dbHoldQ with | some v => { s with dbHoldCp := v, dbHoldQ := none } | none => s

/-- `remove` -/
def remove (g : Graph) (s : State) (x : Proxy) : State :=
  let s := releaseHeldActive s x
  let x := (s.get? x.pt x.name).getD x
  let s := if !x.flows.isEmpty && x.runahead then spawnNextParentless g s x else s
  flushDb { s with
    pool := s.pool.filter (fun y => !(y.pt == x.pt && y.name == x.name)),
    hist := s.hist ++ [⟨x.pt, x.name, x.status, x.submitNum, x.done, false⟩],
    ghosts := s.ghosts ++ [x] }

/-- `remove_if_complete` -/
def removeIfComplete (g : Graph) (s : State) (x : Proxy) : State :=
  if !x.status.isFinal then s
  else
  let s := if s.stopTask == some (x.pt, x.name) then { s with stopTaskFinished := true } else s
  if x.isComplete then remove g s x else s

def childrenOf (g : Graph) (x : Proxy) (out : String) : List Child :=
  if x.noSpawn then [] else
  match g.task? x.name with
  | none => []
  | some t => match (t.anyInst x.pt).children.find? (·.1 == out) with
    | some (_, cs) => cs
    | none => []

def Proxy.suicideNow (x : Proxy) : Bool := !x.sui.isEmpty && x.sui.all Pre.isSatisfied

/-- one child of `spawn_on_output`: record an absolute output, find or spawn the child, satisfy the
prerequisite (for an absolute trigger: of every pooled instance of the child task), collect suicides -/
def spawnChild (g : Graph) (p : Int) (n out : String) (acc : State × List (Int × String)) (c : Child) :
    State × List (Int × String) :=
  let (st, sui) := acc
  let atom : Atom := ⟨p, n, out⟩
  let st := if c.isAbs then flushDb st else st          -- the absolute output is committed at once
  let st := if c.isAbs && !st.absDone.contains atom then { st with absDone := st.absDone ++ [atom] } else st
  let inPool := (st.get? c.pt c.name).isSome
  let (st, child) : State × Option Proxy :=
    match st.get? c.pt c.name with
    | some y => (st, some y)
    | none => spawnTask g st c.name c.pt
  match child with
  | none => (st, sui)
  | some y =>
    let st := if inPool then st else st.add (y.satisfyMe atom)
    let targets : List (Int × String) :=
      if c.isAbs then
        let others := (st.pool.filter fun z => z.name == c.name).map fun z => (z.pt, z.name)
        if others.contains (c.pt, c.name) then others else others ++ [(c.pt, c.name)]
      else [(c.pt, c.name)]
    targets.foldl (fun (a : State × List (Int × String)) k =>
      match a.1.get? k.1 k.2 with
      | none => a
      | some z =>
        let z := z.satisfyMe atom
        (a.1.put z, if z.suicideNow && !a.2.contains k then a.2 ++ [k] else a.2)) (st, sui)

/-- `spawn_on_output` -/
def spawnOnOutput (g : Graph) (s : State) (p : Int) (n : String) (out : String) : State :=
  match s.get? p n with
  | none => s
  | some x =>
    let cs := if x.flows.isEmpty then [] else childrenOf g x out
    let (s, suicides) := cs.foldl (spawnChild g p n out) (s, [])
    let s := suicides.foldl (fun (st : State) k => match st.get? k.1 k.2 with
      | some z => remove g st z
      | none => st) s
    match s.get? p n with
    | some x' => removeIfComplete g s x'
    | none => s

/-! ### Messages -/

def Proxy.isDone (x : Proxy) (msg : String) : Bool := x.done.contains msg

def hasOutput (_g : Graph) (x : Proxy) (msg : String) : Bool :=
  x.outs.any (·.message == msg)

/-- `set_message_complete`: `some true` newly completed, `some false` already, `none` no such output -/
def setComplete (g : Graph) (x : Proxy) (msg : String) : Proxy × Option Bool :=
  if !hasOutput g x msg then (x, none)
  else if x.isDone msg then (x, some false)
  else ({ x with done := x.done ++ [msg] }, some true)

inductive Flag where | internal | received | polled
  deriving Repr, DecidableEq

/-- the live proxy, or the transient object of an instance removed earlier in this op -/
def lookup (s : State) (p : Int) (n : String) : Option (Proxy × Bool) :=
  match s.get? p n with
  | some x => some (x, false)
  | none => (s.ghosts.find? fun x => x.pt == p && x.name == n).map fun x => (x, true)

def store (s : State) (x : Proxy) (transient : Bool) : State :=
  if transient then
    { s with ghosts := s.ghosts.map fun y => if y.pt == x.pt && y.name == x.name then x else y }
  else s.put x

/-- `put_update_task_outputs`: the `task_outputs` row of the instance := the proxy's completed outputs -/
def putOutputs (s : State) (x : Proxy) : State :=
  -- (`get_completed_outputs`: the message, or the placeholder for a forced output - `check_task_output` looks for
  -- the message among these values, so a manually completed output does not count as recorded)
  let row := x.done.map fun m => if x.forced.contains m then forcedMark ++ m else m
  if s.dbOut.any (·.1 == (x.pt, x.name)) then
    { s with dbOut := s.dbOut.map fun r => if r.1 == (x.pt, x.name) then (r.1, row) else r }
  else { s with dbOut := s.dbOut ++ [((x.pt, x.name), row)] }

/-- `spawn_children`: the outputs row is updated; transient objects do not spawn -/
def spawnChildren (g : Graph) (s : State) (p : Int) (n : String) (out : String) (transient : Bool) : State :=
  let s := match lookup s p n with | some (x, _) => putOutputs s x | none => s
  if transient then s else spawnOnOutput g s p n out

/-- `process_message` for one (non-forced) message; returns the new state and whether a poll is
requested.  `fuel` bounds the implied-output recursion (depth ≤ 3). -/
def processMessage (g : Graph) : Nat → State → Int → String → Flag → Nat → String → State × Bool
  | 0, s, _, _, _, _, _ => (s, false)
  | fuel + 1, s, p, n, flag, sn, msg =>
    match lookup s p n with
    | none => (s, false)
    | some (x, tr) =>
      -- _process_message_check (a transient object skips the checks)
      if !tr && flag == .received && sn != x.submitNum then (s, false) else
      -- a waiting task with a retry lined up ignores (late) messages
      if !tr && x.status == .waiting && x.live && (x.subTry > 0 || x.execTry > 0) then (s, false) else
      -- complete the corresponding output
      let (x, completed) :=
        if msg == "submit-failed" || msg == "failed" then (x, some false)
        else setComplete g x msg
      let s := store s x tr
      -- implied outputs first
      let implied : List String :=
        (if msg == "succeeded" || msg == "failed" then ["submitted", "started"]
         else if msg == "started" then ["submitted"] else []).filter fun m => !x.isDone m
      let s := implied.foldl (fun st m => (processMessage g fuel st p n .internal sn m).1) s
      match lookup s p n with
      | none => (s, false)
      | some (x, tr) =>
      if msg == "started" then
        if flag == .received && x.status.rank > Status.running.rank then (s, true) else
        -- submission was successful: the submission try number is reset
        let s := store s { (x.reset (status := some .running)) with subTry := 0 } tr
        (spawnChildren g s p n "started" tr, false)
      else if msg == "succeeded" then
        let s := store s (x.reset (status := some .succeeded)) tr
        (spawnChildren g s p n "succeeded" tr, false)
      else if msg == "failed" then
        if flag == .received && x.status.rank > Status.failed.rank then (s, true) else
        let maxTry := x.execMax
        if x.timers && x.execTry < maxTry then
          -- an execution retry is lined up: back to waiting behind a retry xtrigger
          let y := { (x.reset (status := some .waiting)) with execTry := x.execTry + 1, retryWait := true }
          (store s y tr, false)
        else
        -- definitive failure
        let y := x.reset (status := some .failed)
        let (y, _) := if x.status != .failed then setComplete g y "failed" else (y, none)
        let s := store s y tr
        (spawnChildren g s p n "failed" tr, false)
      else if msg == "submit-failed" then
        if flag == .received && x.status.rank > Status.submitFailed.rank then (s, true) else
        let maxTry := x.subMax
        if x.timers && x.subTry < maxTry then
          let y := { (x.reset (status := some .waiting)) with subTry := x.subTry + 1, retryWait := true }
          (store s y tr, false)
        else
        let y := x.reset (status := some .submitFailed)
        let (y, _) := if x.status != .submitFailed then setComplete g y "submit-failed" else (y, none)
        let s := store s y tr
        (spawnChildren g s p n "submit-failed" tr, false)
      else if msg == "submitted" then
        if flag == .received && x.status.rank ≥ Status.submitted.rank then (s, true) else
        let s := if x.status == .preparing then
            store s ((x.reset (status := some .submitted)).reset (queued := some false)) tr else s
        (spawnChildren g s p n "submitted" tr, false)
      else if completed == some true then
        (spawnChildren g s p n msg tr, false)
      else (s, false)

/-- group queued messages by task id in order of first arrival (`dict.setdefault`) -/
def groupMsgs (q : List Msg) : List ((Int × String) × List Msg) :=
  q.foldl (fun acc m =>
    if acc.any (fun e => e.1 == (m.pt, m.name)) then
      acc.map fun e => if e.1 == (m.pt, m.name) then (e.1, e.2 ++ [m]) else e
    else acc ++ [((m.pt, m.name), [m])]) []

/-- `process_queued_task_messages` -/
def processQueue (g : Graph) (s : State) : State :=
  let groups := groupMsgs s.queue
  let s := { s with queue := [] }
  groups.foldl (fun (st : State) grp =>
    let (p, n) := grp.1
    match st.get? p n with
    | none => st                                   -- no proxy: job-only processing
    | some _ =>
      let (st, poll) := grp.2.foldl (fun (acc : State × Bool) m =>
          let (st', pl) := processMessage g 4 acc.1 p n .received m.submitNum m.text
          (st', acc.2 || pl)) (st, false)
      if poll then { st with polls := st.polls ++ [(p, n)] } else st) s

/-! ### Stall and shutdown -/

/-- `TaskPool.is_stalled` (no stop point) -/
def isStalled (_g : Graph) (s : State) : Bool :=
  if s.pool.any (fun x => x.status.isActive || x.status == .preparing ||
      (x.status == .waiting && !x.runahead && x.prereqsSatisfied)) then false
  else
    let incomplete := s.pool.any fun x => x.status.isFinal && !x.isComplete
    let beyond (p : Int) : Bool := match s.stopPoint with | some sp => p > sp | none => false
    let unsatisfied := s.pool.any fun x => !beyond x.pt && x.pre.any fun pr =>
      !pr.isSatisfied && pr.atoms.any (fun a => !a.2 && !beyond a.1.pt)
    incomplete || unsatisfied

/-- `check_workflow_stalled` -/
def checkStalled (g : Graph) (s : State) : State :=
  if s.stalled then s else if s.paused then s else if isStalled g s then { s with stalled := true } else s

/-- `check_auto_shutdown` (with its stall-check side effect) -/
def checkAutoShutdown (g : Graph) (s : State) : State × Bool :=
  if s.paused || s.restartWait then (s, false) else
  let s := checkStalled g s
  if s.stalled then (s, false)
  else if s.pool.any (fun x => x.status == .preparing || x.status == .submitted ||
      x.status == .running || (x.status == .waiting && !x.runahead)) then (s, false)
  else ({ s with dbStopQ := if s.stopPoint.isSome then some none else s.dbStopQ }, true)   -- the stop point is forgotten once reached

/-! ### Operations -/

inductive Op where
  | loop
  | subres (pt : Int) (name : String) (ok : Bool) (sn : Nat)
  | msg (pt : Int) (name : String) (sn : Nat) (text : String)
  | hold (ids : List (Int × String))
  | release (ids : List (Int × String))
  | setHoldPoint (p : Int)
  | releaseHoldPoint
  | stop (mode : String)                  -- "REQUEST(CLEAN)" | "REQUEST(NOW)" | "REQUEST(NOW-NOW)"
  | stopPoint (p : Int)
  | stopTask (pt : Int) (name : String)
  | pause
  | resume
  | restart
  /-- `cylc reload`: `ng` = the instance graph of the new definition (`none`: the definition was rejected),
  `inloop`: queued and executed by a main-loop iteration (else run between main loops), `skipped`: not attempted -/
  | reload (ng : Option Graph) (inloop : Bool) (skipped : Bool)
  /-- `cylc remove pt/name` (one instance, all flows); `order`: the order in which its graph children were walked -/
  | rm (pt : Int) (name : String) (order : List (Int × String))
  /-- `cylc set --out=trig pt/name` (pooled target, custom output, default flow) -/
  | setOut (pt : Int) (name : String) (trig : String)
  deriving Repr

def clearOp (s : State) : State := { s with launched := [], polls := [], ghosts := [], db := none }

/-- the queue-if-ready sweep over waiting, unqueued, released proxies -/
def sweepQueue (s : State) : State :=
  s.pool.foldl (fun st x => match st.get? x.pt x.name with
    | some y =>
      if y.status == .waiting && !y.queued && !y.runahead then
        -- zero-delay retry clock triggers are satisfied by the time of the next sweep
        let y := { y with retryWait := false }
        queueIfReady (st.put y) y
      else st
    | none => st) s

/-- end of the main loop: updated flags, DB commit of the task pool, stall check -/
def finishLoop (g : Graph) (s : State) : State :=
  let hasUpd := s.schedUpd || s.pool.any (·.upd)
  let s := if s.pool.any (·.upd) then { s with restartWait := false } else s
  let s := if hasUpd then
      -- (a reload cannot un-stall the workflow by itself)
      { s with stalled := if s.reloaded then s.stalled else false, reloaded := false,
               schedUpd := false,
               -- (`put_task_pool`: the task_states row of a proxy whose state was reset is refreshed)
               pool := s.pool.map fun x => { x with upd := false, tsDirty := false,
                                                    dbSn := if x.tsDirty then x.submitNum else x.dbSn } }
    else s
  let s := flushDb { s with db := some s.pool }      -- put_task_pool + process_queued_ops
  if !hasUpd && s.stopMode.isNone then checkStalled g s else s

/-- `TaskPool.can_stop` -/
def canStop (s : State) : Bool :=
  match s.stopMode with
  | none => false
  | some m =>
    if m == "REQUEST(NOW-NOW)" then true
    else !(s.pool.any fun x => (m == "REQUEST(CLEAN)" || m == "REQUEST(KILL)") && x.status.isActive)

/-- `stop_task_done` -/
def stopTaskDone (s : State) : State × Bool :=
  if s.stopTask.isSome && s.stopTaskFinished then
    ({ s with stopTask := none, stopTaskFinished := false }, true)
  else (s, false)

/-- `set_stop_point` -/
def setStopPoint (s : State) (p : Int) : State :=
  if s.stopPoint == some p then s else
  -- (`commands.stop` also records the point as the `--stopcp` option)
  let s := { s with stopPoint := some p, dbStopQ := some (some p), optStopCp := some p }
  match s.rhLimit with
  | some l =>
    if l > p then
      { s with rhLimit := some p,
               pool := s.pool.map fun x =>
                 if x.pt > p && x.status == .waiting then x.reset (runahead := some true) else x }
    else s
  | none => s

/-- `set_hold_point` -/
def setHoldPoint (s : State) (p : Int) : State :=
  let s := { s with holdPoint := some p, dbHoldQ := some (some p) }
  s.pool.foldl (fun st x => if x.pt > p then
      match st.get? x.pt x.name with | some y => holdActive st y | none => st
    else st) s

/-- `hold_tasks` (ids are valid instances: pooled ones are held, future ones recorded) -/
def holdTasks (s : State) (ids : List (Int × String)) : State :=
  -- (`id_match`: a name the configuration does not know - a task orphaned by a reload - matches nothing)
  (ids.filter fun k => (s.g.task? k.2).isSome).foldl (fun st k => match st.get? k.1 k.2 with
    | some y => holdActive st y
    | none => if st.tasksToHold.contains (k.2, k.1) then st
              else { st with tasksToHold := st.tasksToHold ++ [(k.2, k.1)] }) s

/-- `release_held_tasks`: only ids currently in `tasks_to_hold` are matched -/
def releaseTasks (s : State) (ids : List (Int × String)) : State :=
  (ids.filter fun k => (s.g.task? k.2).isSome).foldl (fun st k =>
    if !st.tasksToHold.contains (k.2, k.1) then st else
    match st.get? k.1 k.2 with
    | some y => releaseHeldActive st y
    | none => { st with tasksToHold := st.tasksToHold.filter (· != (k.2, k.1)) }) s

/-- `release_hold_point` -/
def releaseHoldPoint (s : State) : State :=
  let s := { s with holdPoint := none, dbHoldQ := some none }
  let s := s.pool.foldl (fun st x => match st.get? x.pt x.name with
    | some y => releaseHeldActive st y | none => st) s
  { s with tasksToHold := [] }

/-! ### Reload -/

/-- `check_task_output`: is the output message recorded in the committed `task_outputs` row of the instance -/
def checkOutput (s : State) (a : Atom) : Bool :=
  match s.dbOut.find? (·.1 == (a.pt, a.task)) with
  | some r => r.2.contains a.out
  | none => false

/-- `copy_to_reload_successor`, prerequisites: an atom of the new definition keeps the state it had before the
reload (built by a dict comprehension: the last occurrence wins), an atom that is new is looked up in the DB -/
def reloadPre (s : State) (old : List Pre) (new : List Pre) : List Pre :=
  let preReload : List (Atom × Bool) := old.flatMap (·.atoms)
  new.map fun pr => { pr with atoms := pr.atoms.map fun (a, _) =>
    match (preReload.filter (·.1 == a)).getLast? with
    | some (_, v) => (a, v)
    | none => (a, checkOutput s a) }

/-- the successor of a pooled proxy whose task is still defined: `TaskProxy(...)` from the new definition at the
same point (valid for the new sequences or not), then `copy_to_reload_successor`: everything is carried over
except the queued flag and the run mode; suicide prerequisites start afresh; the outputs object (with its
completion expression) is the old one -/
def reloadProxy (g' : Graph) (s : State) (x : Proxy) : Proxy :=
  match g'.task? x.name with
  | some t =>
    let d := t.anyInst x.pt
    { x with queued := false, live := false, noSpawn := false, tsDirty := false,
             pre := reloadPre s x.pre d.pre, sui := d.sui, tdExec := t.execRetries, tdSub := t.subRetries }
  | none =>
    -- (a proxy orphaned by an earlier reload: `get_taskdef` makes up an implicit definition without sequences)
    { x with queued := false, live := false, noSpawn := false, tsDirty := false,
             pre := [], sui := [], tdExec := 0, tdSub := 0 }

/-- `TaskPool._reload_taskdefs`: the stop point is reset from the configuration; orphans (tasks of the old task
list that the new one lacks) are removed if waiting / held / queued, else kept but barred from spawning; every
other proxy is replaced by its successor, in place -/
def reloadOne (g' : Graph) (orphans : List String) (st : State) (x0 : Proxy) : State :=
  match st.get? x0.pt x0.name with
  | none => st
  | some x =>
    if orphans.contains x.name then
      if x.status == .waiting || (st.fl.dropHeldOrphans && (x.held || x.queued)) then remove g' st x
      else st.put { x with noSpawn := true }
    else st.put (reloadProxy g' st x)

/-- the tasks of the old task list that the new one lacks -/
def orphansOf (g g' : Graph) : List String :=
  (g.tasks.map (·.name)).filter fun n => !(g'.tasks.map (·.name)).contains n

def reloadTaskdefs (g' : Graph) (s : State) (cfgStop : Option Int) : State :=
  let newNames := g'.tasks.map (·.name)
  let orphans := orphansOf s.g g'
  let s := { s with g := g', stopPoint := some (cfgStop.getD g'.fcp),
                    qMembers := newNames ++ (if s.fl.adoptOrphans then orphans else []) }
  s.pool.foldl (reloadOne g' orphans) s

/-- pause for the reload; the DB queue is flushed ("see #5593") only if the workflow was not paused already -/
def reloadPause (s : State) : State :=
  if s.paused then s else flushDb { s with paused := true }

/-- `_set_workflow_params(select_workflow_params())`: the committed DB stop point becomes `options.stopcp` -/
def reloadParams (s : State) : State :=
  { s with optStopCp := match s.optStopCp with | some p => some p | none => s.dbStopCp }

/-- `process_stop_cycle_point` of the new configuration: the option, else flow.cylc; ignored beyond the final point -/
def reloadCfgStop (g' : Graph) (s : State) : Option Int :=
  match (match s.optStopCp with | some p => some p | none => g'.cfgStopFile) with
  | some p => if p > g'.fcp then none else some p
  | none => none

/-- `put_workflow_params` + commit: the whole workflow_params table is rewritten (`stopcp` := the option; no `holdcp`
row unless repaired: only a still queued write of it survives); `is_updated`, `is_reloaded` -/
def reloadDbWrite (s : State) : State :=
  { s with dbStopCp := s.optStopCp, dbStopQ := none,
           dbHoldCp := (if s.fl.keepHoldCp then s.holdPoint
                        else match s.dbHoldQ with | some v => v | none => none),
           dbHoldQ := none,
           schedUpd := true, reloaded := true }

/-- the new definition is accepted: `apply_new_config`, DB parameters, `pool.reload`, then
`if compute_runahead(force=True): release_runahead_tasks()` -/
def reloadApply (g' : Graph) (s : State) : State :=
  let s := reloadTaskdefs g' (reloadDbWrite s) (reloadCfgStop g' s)
  let hasBase := !s.pool.isEmpty || (minOf (g'.seqs.filterMap fun q => q.find? (· ≥ g'.start))).isSome
  let s := computeRunahead g' s (force := true)
  if hasBase then (releaseRunahead g' s).1 else s

/-- resume if the workflow was not paused before the reload (and flush) -/
def reloadResume (wasPaused : Bool) (s : State) : State :=
  if wasPaused then s else flushDb { s with paused := false }

/-- `commands.reload_workflow` (no task is preparing).  `ng = none`: the new definition is rejected. -/
def reloadCmd (ng : Option Graph) (s : State) : State :=
  let s1 := reloadParams (reloadPause s)
  let s2 := match ng with
    | none => s1
    | some g' => reloadApply g' s1
  reloadResume s.paused s2

/-- `workflow_shutdown` up to the decision to stop: stop task done, automatic shutdown -/
def workflowShutdown (g : Graph) (s : State) : State :=
  if s.stopMode.isNone then
    let (s, std) := stopTaskDone s
    if std then { s with stopMode := some "AUTOMATIC" }
    else
      let (s, auto) := checkAutoShutdown g s
      if auto then { s with stopMode := some "AUTOMATIC" } else s
  else s

/-- `process_command_queue`: a queued reload command runs (and counts as an update) -/
def applyCmd (s : State) (cmd : Option (Option Graph)) : State :=
  match cmd with
  | some ng => { (reloadCmd ng s) with schedUpd := true }
  | none => s

/-- queue-if-ready sweep, job release, message queue, end-of-loop bookkeeping -/
def loopRest (s : State) : State :=
  let g := s.g
  let s := sweepQueue s
  let s := if s.stopMode.isNone && !s.paused then releaseAndSubmit s else s
  let s := processQueue g s
  finishLoop g s

/-- the main loop after the shutdown check: command queue (`cmd`: a reload command waiting in it), queue-if-ready
sweep, job release, message queue, end-of-loop bookkeeping -/
def loopBody (s : State) (cmd : Option (Option Graph)) : State :=
  loopRest (applyCmd s cmd)

/-- one iteration of `Scheduler._main_loop`; `cmd`: a reload command waiting in the command queue -/
def mainLoop (s : State) (cmd : Option (Option Graph) := none) : State :=
  if s.stop.isSome then s else
  let g := s.g
  let s := computeRunahead g s
  let s := (releaseRunahead g s).1
  let s := workflowShutdown g s
  if canStop s then { s with stop := s.stopMode } else loopBody s cmd

def stdOutputs : List OutDef :=
  ["expired", "submitted", "submit-failed", "started", "succeeded", "failed"].map fun o => ⟨o, o⟩

/-- `FINAL_OUTPUT_COMPLETION`: what a blank completion expression means -/
def finalCompletion : CE :=
  .or (.or (.or (.var "succeeded") (.var "failed")) (.var "submit_failed")) (.var "expired")

/-- clean restart from the database written at shutdown (`load_db_task_pool_for_restart`, `configure`) -/
def restart (g : Graph) (s : State) : State :=
  let s := flushDb s
  let restore (x : Proxy) : Proxy :=
    -- (the shutdown writes the task pool: pending task_states refreshes reach the DB; the submit number of the
    -- restarted proxy is the one of its task_states row)
    let dbSn := if x.tsDirty then x.submitNum else x.dbSn
    let (status, sn) := if x.status == .preparing then (Status.waiting, dbSn - 1) else (x.status, dbSn)
    let keepOut := status == .running || status == .failed || status == .succeeded
    let final := status == .failed || status == .succeeded || status == .expired
    -- the proxy is built from the definition on disk; for a task the definition no longer has (orphaned by a
    -- reload) `get_taskdef` makes up an implicit definition: no sequences, standard outputs, empty completion
    -- expression (= any final output)
    let x := match g.task? x.name with
      | some t => { x with outs := t.outputs, comp := t.completion, tdExec := t.execRetries, tdSub := t.subRetries,
                           noSpawn := false }
      | none => { x with outs := stdOutputs, comp := finalCompletion, tdExec := 0, tdSub := 0, noSpawn := false,
                         pre := [], sui := [] }
    -- (the proxies whose state is reset while loading - preparing -> waiting, released final ones - get a fresh
    -- `time_updated`: their task_states row is refreshed by the next put_task_pool)
    { x with status := status, submitNum := sn, dbSn := dbSn, tsDirty := (x.status == .preparing) || final,
             forced := [],
             done := if keepOut then x.done.filter (fun m => x.outs.any (·.message == m)) else [],
             queued := false, runahead := !final, retryWait := false, live := false,
             upd := (x.status == .preparing) || final }
  -- stop point: DB `stopcp`, else flow.cylc, else the final point
  let cfgStop : Option Int := match s.dbStopCp with | some p => some p | none => g.cfgStopFile
  let pool := s.pool.map restore
  let wait := pool.isEmpty || (match cfgStop with
    | some sp => pool.all (fun x => x.pt > sp)
    | none => false)
  let s' : State :=
    { pool := pool, hist := s.hist, absDone := s.absDone,
      tasksToHold := s.tasksToHold, holdPoint := s.dbHoldCp, stopPoint := some (cfgStop.getD g.fcp),
      dbStopCp := s.dbStopCp, restartWait := wait,
      stopTask := s.stopTask, stopTaskFinished := false, schedUpd := true,
      g := g, optStopCp := s.dbStopCp, dbHoldCp := s.dbHoldCp, dbOut := s.dbOut,
      fl := s.fl, qMembers := g.tasks.map (·.name) }
  -- `configure` re-applies the hold point after the pool is loaded
  match s'.holdPoint with
  | some hp => setHoldPoint s' hp
  | none => s'

/-! ### `cylc remove` (one instance, all flows) and `cylc set --out` (one custom output of a pooled task) -/

/-- `remove_task_from_flows` (no --flow): the task_states / task_outputs rows of the instance leave every flow - they no
longer count as history or as recorded outputs, only their submit number still does -/
def eraseHistory (s : State) (p : Int) (n : String) : State :=
  { s with hist := s.hist.map fun h => if h.pt == p && h.name == n then { h with erased := true } else h,
           dbOut := s.dbOut.filter fun r => r.1 != (p, n) }

/-- `Prerequisite.unset_naturally_satisfied`: every (not force-) satisfied atom on an output of `p/n` -/
def Pre.unsetFrom (pr : Pre) (p : Int) (n : String) : Pre :=
  { pr with atoms := pr.atoms.map fun (a, v) => if a.pt == p && a.task == n then (a, false) else (a, v) }

def Pre.dependsOn (pr : Pre) (p : Int) (n : String) : Bool :=
  pr.atoms.any fun (a, v) => a.pt == p && a.task == n && v

/-- one pooled graph child of the removed instance `p/n` stands down: its prerequisites on `p/n` are unset; if it is
then no longer ready it is unqueued, and removed (history erased) when no satisfied prerequisite is left -/
def standDown (g : Graph) (p : Int) (n : String) (st : State) (c : Int × String) : State × Bool :=
  match st.get? c.1 c.2 with
  | none => (st, false)
  | some y =>
    if !((y.pre ++ y.sui).any fun pr => pr.dependsOn p n) then (st, false) else
    let y := { y with pre := y.pre.map (·.unsetFrom p n), sui := y.sui.map (·.unsetFrom p n) }
    let st := st.put y
    if y.status.rank ≥ Status.preparing.rank || y.prereqsSatisfied then (st, true) else
    let y := y.reset (queued := some false)
    let st := st.put y
    if c == (p, n) || y.pre.any (fun pr => pr.atoms.any (·.2)) then (st, true) else
    (eraseHistory (remove g st y) c.1 c.2, true)

/-- does a (non-forced) `compute_runahead` recompute the limit (its return value) -/
def runaheadRecomputes (g : Graph) (s : State) : Bool :=
  let base : Option Int :=
    if s.pool.isEmpty then minOf (g.seqs.filterMap fun q => q.find? (· ≥ g.start))
    else minOf (s.pool.map (·.pt))
  match base with
  | none => false
  | some b => !(s.rhLimit.isSome && (b == s.prevBase.getD b || s.rhLimit == s.stopPoint))

def dedupKeys : List (Int × String) → List (Int × String)
  | [] => []
  | k :: ks => if (dedupKeys ks).contains k then dedupKeys ks else k :: dedupKeys ks

/-- the pooled graph children of the removed instance stand down, in the order given; has any changed -/
def standDownAll (g : Graph) (p : Int) (n : String) (s : State) (cs : List (Int × String)) : State × Bool :=
  cs.foldl (fun (acc : State × Bool) c => ((standDown g p n acc.1 c).1, acc.2 || (standDown g p n acc.1 c).2)) (s, false)

/-- the graph children of `p/n` (`generate_graph_children`, a set), in the order the code walked them -/
def childOrder (t : TaskDefn) (p : Int) (order : List (Int × String)) : List (Int × String) :=
  let children := dedupKeys (((t.anyInst p).children.flatMap (·.2)).map fun c => (c.pt, c.name))
  (order.filter children.contains) ++ (children.filter fun c => !order.contains c)

/-- `if removed and compute_runahead(): release_runahead_tasks()` -/
def removeTail (g : Graph) (s : State) (removed : Bool) : State :=
  if removed then
    if runaheadRecomputes g s then (releaseRunahead g (computeRunahead g s)).1 else computeRunahead g s
  else s

/-- the target leaves the pool (if it is there) -/
def removeTarget (g : Graph) (s : State) (p : Int) (n : String) : State :=
  match s.get? p n with
  | some x => remove g s x
  | none => s

/-- `commands.remove_tasks` for ONE matched instance and no `--flow` (= all flows): `_remove_matched_tasks`.  `order`:
the order in which the code walked the (set of) graph children.  A pooled target is taken out of the pool (a target
with a job is not modelled: the kill of its job is not), its pooled graph children stand down, its history is erased,
the runahead limit is recomputed if anything was removed. -/
def removeTask (g : Graph) (s : State) (p : Int) (n : String) (order : List (Int × String)) : State :=
  match g.task? n with
  | none => s                                     -- `id_match`: not a task of the configuration
  | some t =>
    if (s.get? p n).isNone && (t.inst? p).isNone then s else   -- neither pooled nor a valid instance: unmatched
    let s0 := flushDb s
    let rowsExist := (s0.get? p n).isSome || s0.hist.any fun h => h.pt == p && h.name == n && !h.erased
    let r := standDownAll g p n (removeTarget g s0 p n) (childOrder t p order)
    removeTail g (flushDb (eraseHistory r.1 p n)) (rowsExist || r.2)

/-- the forced completion of one output message of the pooled proxy `x` -/
def forceOutput (g : Graph) (s : State) (x : Proxy) (msg : String) : State :=
  if !x.outs.any (·.message == msg) || x.done.contains msg then s else
  spawnChildren g (s.put { x with done := x.done ++ [msg], forced := x.forced ++ [msg] }) x.pt x.name msg false

/-- `if not itask.state(waiting): state_reset(is_runahead=False, is_queued=False)` -/
def setTail (s : State) (p : Int) (n : String) : State :=
  match s.get? p n with
  | some y => if y.status != .waiting then s.put (y.reset (runahead := some false) (queued := some false)) else s
  | none => s

/-- `cylc set --out=<trig>` on the pooled instance `p/n`, default flow, no --wait, `trig` a custom output
(`set_prereqs_and_outputs` -> `_set_outputs_itask` -> `process_message(forced=True)`): the output is completed with
the forced mark, the outputs row is updated, the children are spawned / satisfied as for a natural completion; a
non-waiting target is taken off the runahead / queued flags.  (Targets outside the pool and standard outputs are not
modelled.) -/
def setOut (g : Graph) (s : State) (p : Int) (n : String) (trig : String) : State :=
  match s.get? p n with
  | none => s
  | some x =>
    match (g.task? n).bind fun t => t.outputs.find? (·.trigger == trig) with
    | none => setTail s p n
    | some o => setTail (forceOutput g s x o.message) p n

def step (s : State) (op : Op) : State :=
  let s := clearOp s
  let g := s.g
  match op with
  | .loop => mainLoop s
  | .subres p n ok sn =>
      (processMessage g 4 s p n .internal sn (if ok then "submitted" else "submit-failed")).1
  | .msg p n sn text => { s with queue := s.queue ++ [⟨p, n, sn, text⟩] }
  | .hold ids => holdTasks s ids
  | .release ids => releaseTasks s ids
  | .setHoldPoint p => setHoldPoint s p
  | .releaseHoldPoint => releaseHoldPoint s
  | .stop mode => { s with stopMode := some mode }
  | .stopPoint p => setStopPoint s p
  | .stopTask p n => { s with stopTask := some (p, n), stopTaskFinished := false }
  | .pause => { s with paused := true }
  | .resume => { s with paused := false }
  | .restart => restart g s
  | .reload ng inloop skipped =>
      if skipped then s else if inloop then mainLoop s (some ng) else reloadCmd ng s
  | .rm p n order => removeTask g s p n order
  | .setOut p n trig => setOut g s p n trig

def init (fl : Flags) (g : Graph) : State :=
  let s := loadFromPoint fl g
  s

/-- all states of a run: after start-up, then after each op -/
def run (fl : Flags) (g : Graph) (ops : List Op) : List State :=
  (ops.foldl (fun (acc : List State × State) op =>
    let s' := step acc.2 op
    (acc.1 ++ [s'], s')) ([init fl g], init fl g)).1

end CylcModel.Sched3Reload
