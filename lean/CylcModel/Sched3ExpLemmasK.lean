/-
`spawnOnOutput` and the pool (C32, expire_children): which keys the processing of an output can add
(`spawnOnOutput_keys`: children of the output, or the next parentless instance of a proxy it removed), and that the
child reached by one `spawnChild` step has its prerequisite on the output satisfied (`spawnChild_sat`).
Also: `spawnTask` in named parts (as in `SchedLemmasC06`) and the fields of a freshly spawned proxy.
-/
import CylcModel.Sched3ExpLemmas

namespace CylcModel.Sched3Exp

/-! ### fields `Proxy.reset` never touches -/

@[simp] theorem reset_manual (x : Proxy) (a : Option Status) (b c d : Option Bool) :
    (x.reset a b c d).manual = x.manual := by unfold Proxy.reset; simp only; split <;> rfl
@[simp] theorem reset_wjp (x : Proxy) (a : Option Status) (b c d : Option Bool) :
    (x.reset a b c d).wjp = x.wjp := by unfold Proxy.reset; simp only; split <;> rfl
@[simp] theorem reset_dbManual (x : Proxy) (a : Option Status) (b c d : Option Bool) :
    (x.reset a b c d).dbManual = x.dbManual := by unfold Proxy.reset; simp only; split <;> rfl
@[simp] theorem reset_expire (x : Proxy) (a : Option Status) (b c d : Option Bool) :
    (x.reset a b c d).expire = x.expire := by unfold Proxy.reset; simp only; split <;> rfl
@[simp] theorem reset_pre (x : Proxy) (a : Option Status) (b c d : Option Bool) :
    (x.reset a b c d).pre = x.pre := by unfold Proxy.reset; simp only; split <;> rfl
@[simp] theorem reset_sui (x : Proxy) (a : Option Status) (b c d : Option Bool) :
    (x.reset a b c d).sui = x.sui := by unfold Proxy.reset; simp only; split <;> rfl
@[simp] theorem reset_flows (x : Proxy) (a : Option Status) (b c d : Option Bool) :
    (x.reset a b c d).flows = x.flows := by unfold Proxy.reset; simp only; split <;> rfl
@[simp] theorem reset_queued_none (x : Proxy) (a : Option Status) (c d : Option Bool) :
    (x.reset a none c d).queued = x.queued := by unfold Proxy.reset; simp only; split <;> simp
@[simp] theorem reset_status_none (x : Proxy) (b c d : Option Bool) :
    (x.reset none b c d).status = x.status := by unfold Proxy.reset; simp only; split <;> simp
@[simp] theorem reset_runahead_none (x : Proxy) (a : Option Status) (b d : Option Bool) :
    (x.reset a b none d).runahead = x.runahead := by unfold Proxy.reset; simp only; split <;> simp

theorem mkProxy_fields {g : Graph} {n : String} {p : Int} {x : Proxy} (h : mkProxy g n p = some x) :
    x.pt = p ∧ x.name = n ∧ x.held = false := by
  unfold mkProxy at h
  simp only [Option.bind_eq_bind, Option.pure_def] at h
  cases ht : g.task? n with
  | none => simp [ht] at h
  | some t =>
    simp only [ht, Option.bind_some] at h
    split at h
    · simp at h
    · cases hd : t.inst? p with
      | none => simp [hd] at h
      | some d =>
        simp only [hd, Option.bind_some, Option.some.injEq] at h
        subst h
        exact ⟨rfl, rfl, rfl⟩

/-- the DB-history part of `spawnTask`, on its own -/
def reviveAtSpawn (g : Graph) (s : State) (name : String) (p : Int) (x : Proxy) : Option Proxy :=
  match (s.hist.filter fun h => h.pt == p && h.name == name).getLast? with
  | none => some x
  | some h =>
    if h.done.isEmpty then none
    else
      let y := { x with status := h.status, submitNum := h.submitNum, done := h.done }
      if h.status.isFinal then
        match g.task? name with
        | some t => if isComplete t h.done then none else some y
        | none => none
      else some y

/-- the hold decision of `spawnTask`, on its own -/
def holdAtSpawn (s : State) (name : String) (p : Int) (y : Proxy) : State × Proxy :=
  if s.tasksToHold.contains (name, p) then (s, y.reset (held := some true))
  else match s.holdPoint with
    | some hp => if p > hp then
        ({ s with tasksToHold := s.tasksToHold ++ [(name, p)] }, y.reset (held := some true))
      else (s, y)
    | none => (s, y)

/-- the absolute-trigger part of `spawnTask`, on its own -/
def absAtSpawn (g : Graph) (s : State) (name : String) (y : Proxy) : Proxy :=
  match g.task? name with
  | some t => if t.hasAbs && !y.prereqsSatisfied then s.absDone.foldl (fun z a => z.satisfyMe a) y else y
  | none => y

/-- `spawnTask` in named parts -/
theorem spawnTask_eq (g : Graph) (s : State) (name : String) (p : Int) :
    spawnTask g s name p =
      (if (s.hist.filter fun h => h.pt == p && h.name == name).getLast?.isNone && p < g.start then (s, none)
       else match mkProxy g name p with
        | none => (s, none)
        | some x =>
          match reviveAtSpawn g s name p x with

          | none => (s, none)
          | some y => ((holdAtSpawn s name p y).1, some (absAtSpawn g (holdAtSpawn s name p y).1 name (holdAtSpawn s name p y).2))) := by
  unfold spawnTask reviveAtSpawn holdAtSpawn absAtSpawn
  rfl


theorem reviveAtSpawn_fields {g : Graph} {s : State} {n : String} {p : Int} {x y : Proxy}
    (h : reviveAtSpawn g s n p x = some y) :
    y.pt = x.pt ∧ y.name = x.name ∧ y.held = x.held ∧ y.queued = x.queued ∧ y.manual = x.manual ∧ y.wjp = x.wjp ∧
      y.dbManual = x.dbManual ∧ y.upd = x.upd := by
  unfold reviveAtSpawn at h
  split at h
  · simp only [Option.some.injEq] at h; subst h; exact ⟨rfl, rfl, rfl, rfl, rfl, rfl, rfl, rfl⟩
  · split at h
    · simp at h
    · simp only at h
      split at h
      · split at h
        · split at h
          · simp at h
          · simp only [Option.some.injEq] at h; subst h; exact ⟨rfl, rfl, rfl, rfl, rfl, rfl, rfl, rfl⟩
        · simp at h
      · simp only [Option.some.injEq] at h; subst h; exact ⟨rfl, rfl, rfl, rfl, rfl, rfl, rfl, rfl⟩

theorem foldl_satisfyMe_more (l : List Atom) (x : Proxy) :
    (l.foldl (fun z a => z.satisfyMe a) x).queued = x.queued ∧ (l.foldl (fun z a => z.satisfyMe a) x).manual = x.manual ∧
      (l.foldl (fun z a => z.satisfyMe a) x).wjp = x.wjp ∧ (l.foldl (fun z a => z.satisfyMe a) x).dbManual = x.dbManual ∧
      (l.foldl (fun z a => z.satisfyMe a) x).status = x.status ∧ (l.foldl (fun z a => z.satisfyMe a) x).upd = x.upd := by
  induction l generalizing x with
  | nil => exact ⟨rfl, rfl, rfl, rfl, rfl, rfl⟩
  | cons a l ih => simp only [List.foldl_cons]; exact ih _

theorem absAtSpawn_fields (g : Graph) (s : State) (n : String) (y : Proxy) :
    (absAtSpawn g s n y).pt = y.pt ∧ (absAtSpawn g s n y).name = y.name ∧ (absAtSpawn g s n y).queued = y.queued ∧
      (absAtSpawn g s n y).manual = y.manual ∧ (absAtSpawn g s n y).wjp = y.wjp ∧
      (absAtSpawn g s n y).dbManual = y.dbManual ∧ (absAtSpawn g s n y).status = y.status ∧
      (absAtSpawn g s n y).upd = y.upd := by
  unfold absAtSpawn
  split
  · split
    · have h1 := foldl_satisfyMe s.absDone y
      have h2 := foldl_satisfyMe_more s.absDone y
      exact ⟨h1.1, h1.2.1, h2.1, h2.2.1, h2.2.2.1, h2.2.2.2.1, h2.2.2.2.2.1, h2.2.2.2.2.2⟩
    · exact ⟨rfl, rfl, rfl, rfl, rfl, rfl, rfl, rfl⟩
  · exact ⟨rfl, rfl, rfl, rfl, rfl, rfl, rfl, rfl⟩

theorem holdAtSpawn_fields (s : State) (n : String) (p : Int) (y : Proxy) :
    (holdAtSpawn s n p y).2.pt = y.pt ∧ (holdAtSpawn s n p y).2.name = y.name ∧
      (holdAtSpawn s n p y).2.queued = y.queued ∧ (holdAtSpawn s n p y).2.manual = y.manual ∧
      (holdAtSpawn s n p y).2.wjp = y.wjp ∧ (holdAtSpawn s n p y).2.dbManual = y.dbManual ∧
      (holdAtSpawn s n p y).2.status = y.status ∧
      (holdAtSpawn s n p y).1.pool = s.pool ∧ (holdAtSpawn s n p y).1.ghosts = s.ghosts ∧
      (holdAtSpawn s n p y).1.toTrigger = s.toTrigger := by
  unfold holdAtSpawn
  split
  · simp
  · split
    · split
      · simp
      · simp
    · simp

/-- a proxy that `spawnTask` returns: its key, and the flags a new (or revived) proxy starts with -/
theorem spawnTask_proxy {g : Graph} {s : State} {n : String} {p : Int} {y : Proxy}
    (h : (spawnTask g s n p).2 = some y) :
    y.pt = p ∧ y.name = n ∧ y.queued = false ∧ y.manual = false ∧ y.wjp = false ∧ y.dbManual = false := by
  rw [spawnTask_eq] at h
  split at h
  · simp at h
  · split at h
    · simp at h
    · rename_i x hx
      split at h
      · simp at h
      · rename_i y1 hy1
        simp only [Option.some.injEq] at h
        have hm : x.pt = p ∧ x.name = n ∧ x.queued = false ∧ x.manual = false ∧ x.wjp = false ∧ x.dbManual = false := by
          unfold mkProxy at hx
          simp only [Option.bind_eq_bind, Option.pure_def] at hx
          cases ht : g.task? n with
          | none => simp [ht] at hx
          | some t =>
            simp only [ht, Option.bind_some] at hx
            split at hx
            · simp at hx
            · cases hd : t.inst? p with
              | none => simp [hd] at hx
              | some d =>
                simp only [hd, Option.bind_some, Option.some.injEq] at hx
                subst hx
                exact ⟨rfl, rfl, rfl, rfl, rfl, rfl⟩
        obtain ⟨r1, r2, _, r4, r5, r6, r7, _⟩ := reviveAtSpawn_fields hy1
        obtain ⟨s1, s2, s3, s4, s5, s6, _, _, _, _⟩ := holdAtSpawn_fields s n p y1
        obtain ⟨a1, a2, a3, a4, a5, a6, _, _⟩ := absAtSpawn_fields g (holdAtSpawn s n p y1).1 n (holdAtSpawn s n p y1).2
        subst h
        refine ⟨?_, ?_, ?_, ?_, ?_, ?_⟩
        · rw [a1, s1, r1]; exact hm.1
        · rw [a2, s2, r2]; exact hm.2.1
        · rw [a3, s3, r4]; exact hm.2.2.1
        · rw [a4, s4, r5]; exact hm.2.2.2.1
        · rw [a5, s5, r6]; exact hm.2.2.2.2.1
        · rw [a6, s6, r7]; exact hm.2.2.2.2.2

theorem ghosts_spawnTask (g : Graph) (s : State) (n : String) (p : Int) :
    (spawnTask g s n p).1.ghosts = s.ghosts := by
  rw [spawnTask_state]

/-! ### which keys `spawnOnOutput` can add -/

/-- key `k` is accounted for: in the pool before (`base`), a listed child (`cs`), or the next parentless instance
of a proxy removed in this op -/
def KeyOK (g : Graph) (base cs : List (Int × String)) (st : State) (k : Int × String) : Prop :=
  k ∈ base ∨ k ∈ cs ∨ ∃ y ∈ st.ghosts, y.name = k.2 ∧ nextParentless g y = some k.1

def KeysOK (g : Graph) (base cs : List (Int × String)) (st : State) : Prop :=
  ∀ x ∈ st.pool, KeyOK g base cs st (x.pt, x.name)

theorem keyOK_mono {g : Graph} {base cs : List (Int × String)} {st st' : State} {k : Int × String}
    (hg : ∀ y ∈ st.ghosts, y ∈ st'.ghosts) (h : KeyOK g base cs st k) : KeyOK g base cs st' k := by
  rcases h with h | h | ⟨y, hy, h1, h2⟩
  · exact Or.inl h
  · exact Or.inr (Or.inl h)
  · exact Or.inr (Or.inr ⟨y, hg y hy, h1, h2⟩)

theorem keysOK_of_eq {g : Graph} {base cs : List (Int × String)} {st st' : State}
    (hp : st'.pool = st.pool) (hg : st'.ghosts = st.ghosts) (h : KeysOK g base cs st) : KeysOK g base cs st' := by
  intro x hx
  rw [hp] at hx
  exact keyOK_mono (by intro y hy; rw [hg]; exact hy) (h x hx)

theorem keysOK_put {g : Graph} {base cs : List (Int × String)} {st : State} (x : Proxy)
    (h : KeysOK g base cs st) : KeysOK g base cs (st.put x) := by
  intro y hy
  rcases mem_put hy with ⟨rfl, z, hz, hz1, hz2⟩ | ⟨hy', _⟩
  · have := h z hz
    rw [hz1, hz2] at this
    exact this
  · exact h y hy'

theorem keysOK_add {g : Graph} {base cs : List (Int × String)} {st : State} (x : Proxy)
    (h : KeysOK g base cs st) (hx : KeyOK g base cs st (x.pt, x.name)) : KeysOK g base cs (st.add x) := by
  intro y hy
  have hgh : (st.add x).ghosts = st.ghosts := by unfold State.add; split <;> rfl
  rcases mem_add hy with hy' | ⟨rfl, _⟩
  · exact keyOK_mono (by intro z hz; rw [hgh]; exact hz) (h y hy')
  · exact keyOK_mono (by intro z hz; rw [hgh]; exact hz) hx

theorem ghosts_add (s : State) (x : Proxy) : (s.add x).ghosts = s.ghosts := by
  unfold State.add; split <;> rfl

theorem mem_spawnAndAdd {g : Graph} {s : State} {n : String} {p : Int} {z : Proxy}
    (h : z ∈ (spawnAndAdd g s n p).pool) : z ∈ s.pool ∨ (z.pt = p ∧ z.name = n) := by
  unfold spawnAndAdd at h
  split at h
  · exact Or.inl h
  · split at h
    · rename_i s' x hsp
      have h2 : (spawnTask g s n p).2 = some x := by rw [hsp]
      have h1 : s'.pool = s.pool := by
        have := pool_spawnTask g s n p; rw [hsp] at this; exact this
      rcases mem_add h with h' | ⟨rfl, _⟩
      · left; rw [← h1]; exact h'
      · right; have := spawnTask_proxy h2; exact ⟨this.1, this.2.1⟩
    · rename_i s' hsp
      have h1 : s'.pool = s.pool := by
        have := pool_spawnTask g s n p; rw [hsp] at this; exact this
      left; rw [← h1]; exact h

theorem ghosts_spawnAndAdd (g : Graph) (s : State) (n : String) (p : Int) :
    (spawnAndAdd g s n p).ghosts = s.ghosts := by
  unfold spawnAndAdd
  split
  · rfl
  · split
    · rename_i s' x hsp
      rw [ghosts_add]; have := ghosts_spawnTask g s n p; rw [hsp] at this; exact this
    · rename_i s' hsp
      have := ghosts_spawnTask g s n p; rw [hsp] at this; exact this

theorem mem_spawnNextParentless {g : Graph} {s : State} {x z : Proxy}
    (h : z ∈ (spawnNextParentless g s x).pool) :
    z ∈ s.pool ∨ (z.name = x.name ∧ nextParentless g x = some z.pt) := by
  unfold spawnNextParentless at h
  split at h
  · exact Or.inl h
  · split at h
    · rename_i np hnp
      rcases mem_spawnAndAdd h with h' | ⟨h1, h2⟩
      · exact Or.inl h'
      · right; exact ⟨h2, by rw [hnp, h1]⟩
    · exact Or.inl h

theorem ghosts_spawnNextParentless (g : Graph) (s : State) (x : Proxy) :
    (spawnNextParentless g s x).ghosts = s.ghosts := by
  unfold spawnNextParentless
  split
  · rfl
  · split
    · exact ghosts_spawnAndAdd _ _ _ _
    · rfl

theorem mem_releaseHeldActive {s : State} {x y : Proxy} (h : y ∈ (releaseHeldActive s x).pool) :
    (∃ z ∈ s.pool, z.pt = y.pt ∧ z.name = y.name) := by
  unfold releaseHeldActive at h
  simp only at h
  split at h
  · rcases mem_put h with ⟨rfl, z, hz, hz1, hz2⟩ | ⟨hy', _⟩
    · exact ⟨z, hz, hz1, hz2⟩
    · exact ⟨y, hy', rfl, rfl⟩
  · exact ⟨y, h, rfl, rfl⟩

theorem ghosts_releaseHeldActive (s : State) (x : Proxy) : (releaseHeldActive s x).ghosts = s.ghosts := by
  unfold releaseHeldActive
  simp only
  split <;> rfl

theorem keysOK_releaseHeldActive {g : Graph} {base cs : List (Int × String)} {st : State} (x : Proxy)
    (h : KeysOK g base cs st) : KeysOK g base cs (releaseHeldActive st x) := by
  intro y hy
  obtain ⟨z, hz, hz1, hz2⟩ := mem_releaseHeldActive hy
  have := h z hz
  rw [hz1, hz2] at this
  exact keyOK_mono (by intro w hw; rw [ghosts_releaseHeldActive]; exact hw) this

theorem getD_key (s : State) (x : Proxy) :
    ((s.get? x.pt x.name).getD x).pt = x.pt ∧ ((s.get? x.pt x.name).getD x).name = x.name := by
  cases hg : s.get? x.pt x.name with
  | none => exact ⟨rfl, rfl⟩
  | some y => have := get?_some_mem hg; exact ⟨this.2.1, this.2.2⟩

theorem nextParentless_congr (g : Graph) {x y : Proxy} (h1 : x.pt = y.pt) (h2 : x.name = y.name) :
    nextParentless g x = nextParentless g y := by
  unfold nextParentless; rw [h1, h2]

/-- `remove`: the pool shrinks, except for the next parentless instance of the removed proxy, which is then
among the ghosts -/
theorem keysOK_remove {g : Graph} {base cs : List (Int × String)} {st : State} (x : Proxy)
    (h : KeysOK g base cs st) : KeysOK g base cs (remove g st x) := by
  unfold remove
  extract_lets s1 x' s2
  have h1 : KeysOK g base cs s1 := keysOK_releaseHeldActive x h
  have hx' : x'.pt = x.pt ∧ x'.name = x.name := getD_key s1 x
  intro z hz
  simp only at hz
  have hz2 : z ∈ s2.pool := (List.mem_filter.mp hz).1
  have hg2 : s2.ghosts = s1.ghosts := by
    simp only [s2]; split
    · exact ghosts_spawnNextParentless _ _ _
    · rfl
  have hmem : z ∈ s1.pool ∨ (z.name = x'.name ∧ nextParentless g x' = some z.pt) := by
    simp only [s2] at hz2
    split at hz2
    · exact mem_spawnNextParentless hz2
    · exact Or.inl hz2
  rcases hmem with hm | ⟨hn, hp⟩
  · refine keyOK_mono ?_ (h1 z hm)
    intro w hw
    show w ∈ s2.ghosts ++ [x']
    rw [hg2]; exact List.mem_append_left _ hw
  · right; right
    refine ⟨x', ?_, hn.symm, hp⟩
    show x' ∈ s2.ghosts ++ [x']
    simp

theorem keysOK_removeIfComplete {g : Graph} {base cs : List (Int × String)} {st : State} (x : Proxy)
    (h : KeysOK g base cs st) : KeysOK g base cs (removeIfComplete g st x) := by
  unfold removeIfComplete
  split
  · exact h
  · simp only
    have key : ∀ s1 : State, KeysOK g base cs s1 →
        KeysOK g base cs (match g.task? x.name with
          | none => s1
          | some t => if isComplete t x.done = true then remove g s1 x else s1) := by
      intro s1 h1
      split
      · exact h1
      · split
        · exact keysOK_remove x h1
        · exact h1
    apply key
    split
    · exact keysOK_of_eq rfl rfl h
    · exact h

theorem keysOK_spawnChildFin {g : Graph} {base cs : List (Int × String)} (p : Int) (n out : String)
    (sui : List (Int × String)) (c : Child) (st1 : State) (ch : Option Proxy) (inPool : Bool)
    (hc : (c.pt, c.name) ∈ cs) (hch : ∀ y, ch = some y → y.pt = c.pt ∧ y.name = c.name)
    (h : KeysOK g base cs st1) : KeysOK g base cs (spawnChildFin p n out sui c st1 ch inPool).1 := by
  unfold spawnChildFin
  split
  · exact h
  · rename_i y
    have hy := hch y rfl
    refine foldl_inv (fun a : State × List (Int × String) => KeysOK g base cs a.1) _ ?_ _ _ ?_
    · intro a k ha
      simp only
      split
      · exact ha
      · exact keysOK_put _ ha
    · simp only
      split
      · exact h
      · apply keysOK_add _ h
        right; left
        show ((y.satisfyMe ⟨p, n, out⟩).pt, (y.satisfyMe ⟨p, n, out⟩).name) ∈ cs
        rw [satisfyMe_pt, satisfyMe_name, hy.1, hy.2]; exact hc

theorem keysOK_spawnChild {g : Graph} {base cs : List (Int × String)} (p : Int) (n out : String)
    (acc : State × List (Int × String)) (c : Child) (hc : (c.pt, c.name) ∈ cs)
    (h : KeysOK g base cs acc.1) : KeysOK g base cs (spawnChild g p n out acc c).1 := by
  obtain ⟨st, sui⟩ := acc
  rw [spawnChild_eq]
  simp only
  have h0 : KeysOK g base cs (if (c.isAbs && !st.absDone.contains ⟨p, n, out⟩) = true then
      { st with absDone := st.absDone ++ [⟨p, n, out⟩] } else st) := by
    split
    · exact keysOK_of_eq rfl rfl h
    · exact h
  generalize (if (c.isAbs && !st.absDone.contains ⟨p, n, out⟩) = true then
      { st with absDone := st.absDone ++ [⟨p, n, out⟩] } else st) = st0 at h0 ⊢
  split
  · rename_i y hy
    have := get?_some_mem hy
    exact keysOK_spawnChildFin p n out sui c st0 (some y) true hc
      (by intro y' he; cases he; exact ⟨this.2.1, this.2.2⟩) h0
  · apply keysOK_spawnChildFin p n out sui c _ _ false hc
    · intro y he
      have := spawnTask_proxy he
      exact ⟨this.1, this.2.1⟩
    · exact keysOK_of_eq (pool_spawnTask _ _ _ _) (ghosts_spawnTask _ _ _ _) h0

/-- **keys after `spawnOnOutput`**: every pooled key was pooled before, or is a child of the output, or is the next
parentless instance of a proxy removed meanwhile -/
theorem spawnOnOutput_keys (g : Graph) (s : State) (p : Int) (n out : String) (x : Proxy)
    (hx : s.get? p n = some x) :
    KeysOK g (keysOf s.pool) ((childrenOf g x out).map fun c => (c.pt, c.name)) (spawnOnOutput g s p n out) := by
  have hbase : KeysOK g (keysOf s.pool) ((childrenOf g x out).map fun c => (c.pt, c.name)) s := by
    intro y hy
    left
    unfold keysOf
    exact List.mem_map.mpr ⟨y, hy, rfl⟩
  unfold spawnOnOutput
  simp only [hx]
  have h1 : ∀ (cs' : List Child) (acc : State × List (Int × String)),
      (∀ c ∈ cs', (c.pt, c.name) ∈ (childrenOf g x out).map fun c => (c.pt, c.name)) →
      KeysOK g (keysOf s.pool) ((childrenOf g x out).map fun c => (c.pt, c.name)) acc.1 →
      KeysOK g (keysOf s.pool) ((childrenOf g x out).map fun c => (c.pt, c.name))
        (cs'.foldl (spawnChild g p n out) acc).1 := by
    intro cs'; induction cs' with
    | nil => intro acc _ h; exact h
    | cons c cs' ih =>
      intro acc hc h
      simp only [List.foldl_cons]
      exact ih _ (fun c' hc' => hc c' (List.mem_cons_of_mem _ hc'))
        (keysOK_spawnChild p n out acc c (hc c List.mem_cons_self) h)
  have h2 : ∀ (ks : List (Int × String)) (st : State),
      KeysOK g (keysOf s.pool) ((childrenOf g x out).map fun c => (c.pt, c.name)) st →
      KeysOK g (keysOf s.pool) ((childrenOf g x out).map fun c => (c.pt, c.name))
        (ks.foldl (fun (st : State) k => match st.get? k.1 k.2 with
          | some z => remove g st z
          | none => st) st) := by
    intro ks; induction ks with
    | nil => intro st h; exact h
    | cons k ks ih =>
      intro st h
      simp only [List.foldl_cons]
      apply ih
      split
      · exact keysOK_remove _ h
      · exact h
  generalize hR : (List.foldl (spawnChild g p n out) (s, []) _) = R
  have hRn : KeysOK g (keysOf s.pool) ((childrenOf g x out).map fun c => (c.pt, c.name)) R.1 := by
    rw [← hR]
    apply h1
    · intro c hc
      split at hc
      · simp at hc
      · exact List.mem_map.mpr ⟨c, hc, rfl⟩
    · exact hbase
  have h3 := h2 R.2 R.1 hRn
  split
  · exact keysOK_removeIfComplete _ h3
  · exact h3

/-! ### the `expired` output of a pooled proxy -/

theorem keysOf_put (s : State) (y : Proxy) : keysOf (s.put y).pool = keysOf s.pool := by
  unfold keysOf State.put
  simp only [List.map_map]
  apply List.map_congr_left
  intro z _
  simp only [Function.comp]
  split
  · rename_i h
    simp only [Bool.and_eq_true, beq_iff_eq] at h
    rw [h.1, h.2]
  · rfl

theorem get?_put {s : State} {p : Int} {n : String} {x y : Proxy} (h : s.get? p n = some x)
    (hy : y.pt = p ∧ y.name = n) : (s.put y).get? p n = some y := by
  unfold State.get? State.put
  unfold State.get? at h
  exact find?_map_replace p n y hy _ _ h

theorem childrenOf_congr (g : Graph) {x y : Proxy} (h1 : y.pt = x.pt) (h2 : y.name = x.name) (out : String) :
    childrenOf g y out = childrenOf g x out := by
  unfold childrenOf; rw [h1, h2]

theorem expireReset_key (x : Proxy) : x.expireReset.pt = x.pt ∧ x.expireReset.name = x.name := by
  unfold Proxy.expireReset; simp

/-- **expire_children, upper bound**: processing the expiry of a pooled proxy adds to the pool only children of its
`expired` output, or the next parentless instance of a proxy removed meanwhile (by a suicide trigger on the output) -/
theorem processExpired_keys (g : Graph) (s : State) (x x0 : Proxy) (hx : s.get? x.pt x.name = some x0) :
    KeysOK g (keysOf s.pool) ((childrenOf g x "expired").map fun c => (c.pt, c.name)) (processExpired g s x false) := by
  unfold processExpired
  extract_lets y changed s0 s1
  have hy : y.pt = x.pt ∧ y.name = x.name := expireReset_key x
  have h0 : s0 = s.put y := by simp only [s0]; unfold store; simp
  have hg0 : s0.get? x.pt x.name = some y := by rw [h0]; exact get?_put hx hy
  have hk0 : keysOf s0.pool = keysOf s.pool := by rw [h0]; exact keysOf_put s y
  have h1 : KeysOK g (keysOf s.pool) ((childrenOf g x "expired").map fun c => (c.pt, c.name)) s1 := by
    simp only [s1]
    unfold spawnChildren
    simp only [Bool.false_eq_true, if_false]
    have := spawnOnOutput_keys g s0 x.pt x.name "expired" y hg0
    rw [hk0, childrenOf_congr g hy.1 hy.2] at this
    exact this
  split
  · exact keysOK_of_eq rfl rfl h1
  · exact h1

/-! ### the child reached by a `spawnChild` step has its prerequisite satisfied -/

/-- every atom of `z` (prerequisites and suicide prerequisites) on the output `a` is satisfied -/
def AtomSat (z : Proxy) (a : Atom) : Prop := ∀ pr ∈ z.pre ++ z.sui, ∀ b ∈ pr.atoms, b.1 = a → b.2 = true

theorem atomSat_satisfyMe (z : Proxy) (a : Atom) : AtomSat (z.satisfyMe a) a := by
  intro pr hpr b hb hba
  unfold Proxy.satisfyMe at hpr
  simp only [List.mem_append, List.mem_map] at hpr
  have key : ∀ pr0 : Pre, pr = pr0.satisfy a → b.2 = true := by
    intro pr0 he
    subst he
    unfold Pre.satisfy at hb
    simp only [List.mem_map] at hb
    obtain ⟨b0, _, hb0⟩ := hb
    split at hb0
    · rw [← hb0]
    · rename_i hne
      rw [← hb0] at hba
      simp only at hba
      simp [hba] at hne
  rcases hpr with ⟨pr0, _, he⟩ | ⟨pr0, _, he⟩
  · exact key pr0 he.symm
  · exact key pr0 he.symm

theorem get?_isSome_put {s : State} {p : Int} {n : String} (y : Proxy) (h : (s.get? p n).isSome = true) :
    ((s.put y).get? p n).isSome = true := by
  cases hg : s.get? p n with
  | none => simp [hg] at h
  | some x =>
    obtain ⟨hx, h1, h2⟩ := get?_some_mem hg
    by_cases hk : y.pt = p ∧ y.name = n
    · rw [get?_put hg hk]; rfl
    · have : x ∈ (s.put y).pool := mem_put_of_ne hx (by rw [h1, h2]; intro hh; exact hk ⟨hh.1.symm, hh.2.symm⟩)
      have h3 := get?_isSome_of_mem this
      rw [h1, h2] at h3
      exact h3

/-- one step of the target loop of `spawnChildFin` -/
def satStep (a : Atom) (acc : State × List (Int × String)) (k : Int × String) : State × List (Int × String) :=
  match acc.1.get? k.1 k.2 with
  | none => acc
  | some z =>
    let z := z.satisfyMe a
    (acc.1.put z, if z.suicideNow && !acc.2.contains k then acc.2 ++ [k] else acc.2)

def SatAt (c : Int × String) (a : Atom) (st : State) : Prop :=
  ∀ z ∈ st.pool, z.pt = c.1 → z.name = c.2 → AtomSat z a

theorem satAt_satStep (c : Int × String) (a : Atom) (acc : State × List (Int × String)) (k : Int × String)
    (h : SatAt c a acc.1) : SatAt c a (satStep a acc k).1 := by
  unfold satStep
  split
  · exact h
  · intro z hz h1 h2
    rcases mem_put hz with ⟨rfl, _⟩ | ⟨hz', _⟩
    · exact atomSat_satisfyMe _ _
    · exact h z hz' h1 h2

theorem satAt_satStep_self (c : Int × String) (a : Atom) (acc : State × List (Int × String))
    (hp : (acc.1.get? c.1 c.2).isSome = true) : SatAt c a (satStep a acc c).1 := by
  unfold satStep
  cases hg : acc.1.get? c.1 c.2 with
  | none => simp [hg] at hp
  | some z0 =>
    simp only
    intro z hz h1 h2
    rcases mem_put hz with ⟨rfl, _⟩ | ⟨_, hne⟩
    · exact atomSat_satisfyMe _ _
    · exfalso
      apply hne
      have := get?_some_mem hg
      rw [satisfyMe_pt, satisfyMe_name, this.2.1, this.2.2]
      exact ⟨h1, h2⟩

theorem pooled_satStep (c : Int × String) (a : Atom) (acc : State × List (Int × String)) (k : Int × String)
    (hp : (acc.1.get? c.1 c.2).isSome = true) : ((satStep a acc k).1.get? c.1 c.2).isSome = true := by
  unfold satStep
  split
  · exact hp
  · exact get?_isSome_put _ hp

theorem satAt_fold (c : Int × String) (a : Atom) : ∀ (ks : List (Int × String)) (acc : State × List (Int × String)),
    (acc.1.get? c.1 c.2).isSome = true → (c ∈ ks ∨ SatAt c a acc.1) → SatAt c a (ks.foldl (satStep a) acc).1 := by
  intro ks
  induction ks with
  | nil =>
    intro acc _ h
    rcases h with h | h
    · simp at h
    · exact h
  | cons k ks ih =>
    intro acc hp h
    simp only [List.foldl_cons]
    apply ih _ (pooled_satStep c a acc k hp)
    by_cases hk : k = c
    · right; subst hk; exact satAt_satStep_self k a acc hp
    · rcases h with h | h
      · rcases List.mem_cons.mp h with h' | h'
        · exact absurd h'.symm hk
        · exact Or.inl h'
      · right; exact satAt_satStep c a acc k h

theorem mem_targets (c : Child) (others : List (Int × String)) :
    (c.pt, c.name) ∈ (if c.isAbs = true then
        (if others.contains (c.pt, c.name) = true then others else others ++ [(c.pt, c.name)])
      else [(c.pt, c.name)]) := by
  split
  · split
    · rename_i hc; simpa using hc
    · simp
  · simp

theorem spawnChildFin_sat (p : Int) (n out : String) (sui : List (Int × String)) (c : Child) (st1 : State)
    (y : Proxy) (inPool : Bool) (hy : y.pt = c.pt ∧ y.name = c.name)
    (hin : inPool = true → (st1.get? c.pt c.name).isSome = true)
    (hout : inPool = false → st1.get? c.pt c.name = none) :
    SatAt (c.pt, c.name) ⟨p, n, out⟩ (spawnChildFin p n out sui c st1 (some y) inPool).1 := by
  unfold spawnChildFin
  simp only
  refine satAt_fold (c.pt, c.name) ⟨p, n, out⟩ _ (_, sui) ?_ ?_
  · -- the child is pooled when the target loop starts
    simp only
    split
    · rename_i hi; exact hin hi
    · rename_i hi
      have hn := hout (by simpa using hi)
      have hmem : y.satisfyMe ⟨p, n, out⟩ ∈ (st1.add (y.satisfyMe ⟨p, n, out⟩)).pool := by
        unfold State.add
        rw [satisfyMe_pt, satisfyMe_name, hy.1, hy.2, hn]
        simp only [Option.isSome_none, Bool.false_eq_true, if_false]
        exact (mem_insertBucket _ _ _).mpr (Or.inl rfl)
      have := get?_isSome_of_mem hmem
      rw [satisfyMe_pt, satisfyMe_name, hy.1, hy.2] at this
      exact this
  · left
    exact mem_targets c _

/-- **expire_children, lower bound, one child**: after the `spawnChild` step for child `c` of output `out` of
`(p, n)`, every proxy in the pool under the key of `c` has its prerequisites on that output satisfied -/
theorem spawnChild_sat (g : Graph) (p : Int) (n out : String) (acc : State × List (Int × String)) (c : Child) :
    SatAt (c.pt, c.name) ⟨p, n, out⟩ (spawnChild g p n out acc c).1 := by
  obtain ⟨st, sui⟩ := acc
  rw [spawnChild_eq]
  simp only
  have hget : ∀ st0 : State, (if (c.isAbs && !st.absDone.contains ⟨p, n, out⟩) = true then
      { st with absDone := st.absDone ++ [⟨p, n, out⟩] } else st) = st0 → True := fun _ _ => trivial
  generalize (if (c.isAbs && !st.absDone.contains ⟨p, n, out⟩) = true then
      { st with absDone := st.absDone ++ [⟨p, n, out⟩] } else st) = st0
  split
  · rename_i y hy
    have := get?_some_mem hy
    exact spawnChildFin_sat p n out sui c st0 y true ⟨this.2.1, this.2.2⟩ (fun _ => by rw [hy]; rfl)
      (fun h => by simp at h)
  · rename_i hnone
    cases hsp : (spawnTask g st0 c.name c.pt).2 with
    | none =>
      unfold spawnChildFin
      simp only
      intro z hz h1 h2
      rw [pool_spawnTask] at hz
      exact absurd ⟨h1, h2⟩ (get?_none_forall hnone z hz)
    | some y =>
      have hy := spawnTask_proxy hsp
      apply spawnChildFin_sat p n out sui c _ y false ⟨hy.1, hy.2.1⟩ (fun h => by simp at h)
      intro _
      unfold State.get?
      rw [pool_spawnTask]
      exact hnone

end CylcModel.Sched3Exp
