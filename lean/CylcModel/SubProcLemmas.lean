/-
Helper lemmas for C42 over the `SubProc` model: counting callbacks / queued / running entries
through `reap`, `launch`, `step`, `exec`.
-/
import CylcModel.SubProc
namespace CylcModel.SubProc

/-! ### counting lemmas -/

theorem cbN_nil (id : Nat) : cbN id [] = 0 := rfl
theorem cbN_cons_cb (id i : Nat) (o : Outcome) (evs : List Ev) :
    cbN id (.cb i o :: evs) = cbN id evs + (if i = id then 1 else 0) := by
  simp [cbN, isCb, List.countP_cons]
theorem cbN_cons_start (id : Nat) (c : Cmd) (evs : List Ev) : cbN id (.start c :: evs) = cbN id evs := by
  simp [cbN, isCb]
theorem cbN_append (id : Nat) (a b : List Ev) : cbN id (a ++ b) = cbN id a + cbN id b := by
  simp [cbN, List.countP_append]
theorem qN_nil (id : Nat) : qN id [] = 0 := rfl
theorem qN_cons (id : Nat) (c : Cmd) (q : List Cmd) : qN id (c :: q) = qN id q + (if c.id = id then 1 else 0) := by
  simp [qN, List.countP_cons]
theorem qN_append (id : Nat) (a b : List Cmd) : qN id (a ++ b) = qN id a + qN id b := by
  simp [qN, List.countP_append]
theorem rN_nil (id : Nat) : rN id [] = 0 := rfl
theorem rN_cons (id : Nat) (r : Run) (rs : List Run) : rN id (r :: rs) = rN id rs + (if r.cmd.id = id then 1 else 0) := by
  simp [rN, List.countP_cons]
theorem rN_append (id : Nat) (a b : List Run) : rN id (a ++ b) = rN id a + rN id b := by
  simp [rN, List.countP_append]

/-! ### reap -/

theorem reap_count (id : Nat) (now : Int) (ex : List Nat) (ka : Bool) (rel : List Nat) (rs : List Run) :
    cbN id (reap now ex ka rel rs).2 + rN id (reap now ex ka rel rs).1 = rN id rs := by
  induction rs with
  | nil => simp [reap, cbN_nil, rN_nil]
  | cons r rs ih =>
    simp only [reap]
    split
    · simp only [cbN_cons_cb, rN_cons]; omega
    · split
      · simp only [cbN_cons_cb, rN_cons]; omega
      · simp only [rN_cons]; omega

theorem reap_length (now : Int) (ex : List Nat) (ka : Bool) (rel : List Nat) (rs : List Run) :
    (reap now ex ka rel rs).1.length ≤ rs.length := by
  induction rs with
  | nil => simp [reap]
  | cons r rs ih =>
    simp only [reap]
    split
    · simp only [List.length_cons]; omega
    · split
      · simp only [List.length_cons]; omega
      · simp only [List.length_cons]; omega

theorem reap_no_start (now : Int) (ex : List Nat) (ka : Bool) (rel : List Nat) (rs : List Run) (c : Cmd) :
    Ev.start c ∉ (reap now ex ka rel rs).2 := by
  induction rs with
  | nil => simp [reap]
  | cons r rs ih =>
    simp only [reap]
    split
    · simp [ih]
    · split
      · simp [ih]
      · exact ih

theorem reap_all_exited (now : Int) (ex : List Nat) (ka : Bool) (rel : List Nat) (rs : List Run)
    (h : ∀ r ∈ rs, r.cmd.id ∈ ex) : (reap now ex ka rel rs).1 = [] := by
  induction rs with
  | nil => simp [reap]
  | cons r rs ih =>
    simp only [reap]
    have h1 : ex.contains r.cmd.id = true := by
      simpa using h r (by simp)
    simp only [h1, if_true]
    exact ih fun r' hr' => h r' (by simp [hr'])

/-! ### launch -/

/-- no callback dropped by `launch` -/
def LaunchSafe (fl : Flags) (stopping : Bool) (q : List Cmd) : Prop :=
  fl.dropStop = false ∨ stopping = false ∨ ∀ c ∈ q, c.submit = false

theorem launch_count_le (fl : Flags) (size : Nat) (dl : Int) (st : Bool) (id : Nat) (q : List Cmd) :
    ∀ rs : List Run,
    cbN id (launch fl size dl st q rs).2.2 + qN id (launch fl size dl st q rs).1
      + rN id (launch fl size dl st q rs).2.1 ≤ qN id q + rN id rs := by
  induction q with
  | nil => intro rs; simp [launch, cbN_nil, qN_nil]
  | cons c q ih =>
    intro rs
    simp only [launch]
    split
    · split
      · have := ih rs
        generalize launch fl size dl st q rs = L at this ⊢
        obtain ⟨q', rs', ev⟩ := L
        split
        · simp only [qN_cons] at this ⊢; omega
        · simp only [qN_cons, cbN_cons_cb] at this ⊢; omega
      · split
        · have := ih rs
          generalize launch fl size dl st q rs = L at this ⊢
          obtain ⟨q', rs', ev⟩ := L
          simp only [qN_cons, cbN_cons_cb] at this ⊢; omega
        · have := ih (rs ++ [⟨c, dl⟩])
          generalize launch fl size dl st q (rs ++ [⟨c, dl⟩]) = L at this ⊢
          obtain ⟨q', rs', ev⟩ := L
          simp only [qN_cons, cbN_cons_start, rN_append, rN_cons, rN_nil] at this ⊢
          omega
    · simp [cbN_nil]

theorem launch_count_eq (fl : Flags) (size : Nat) (dl : Int) (st : Bool) (id : Nat) (q : List Cmd)
    (hs : LaunchSafe fl st q) :
    ∀ rs : List Run,
    cbN id (launch fl size dl st q rs).2.2 + qN id (launch fl size dl st q rs).1
      + rN id (launch fl size dl st q rs).2.1 = qN id q + rN id rs := by
  induction q with
  | nil => intro rs; simp [launch, cbN_nil, qN_nil]
  | cons c q ih =>
    intro rs
    have hs' : LaunchSafe fl st q := by
      rcases hs with h | h | h
      · exact Or.inl h
      · exact Or.inr (Or.inl h)
      · exact Or.inr (Or.inr fun c' hc' => h c' (by simp [hc']))
    simp only [launch]
    split
    · split
      · rename_i hcond
        have := ih hs' rs
        have hd : fl.dropStop = false := by
          rcases hs with h | h | h
          · exact h
          · simp [h] at hcond
          · have := h c (by simp); simp [this] at hcond
        generalize launch fl size dl st q rs = L at this ⊢
        obtain ⟨q', rs', ev⟩ := L
        simp only [hd, Bool.false_eq_true, if_false, qN_cons, cbN_cons_cb] at this ⊢
        omega
      · split
        · have := ih hs' rs
          generalize launch fl size dl st q rs = L at this ⊢
          obtain ⟨q', rs', ev⟩ := L
          simp only [qN_cons, cbN_cons_cb] at this ⊢; omega
        · have := ih hs' (rs ++ [⟨c, dl⟩])
          generalize launch fl size dl st q (rs ++ [⟨c, dl⟩]) = L at this ⊢
          obtain ⟨q', rs', ev⟩ := L
          simp only [qN_cons, cbN_cons_start, rN_append, rN_cons, rN_nil] at this ⊢
          omega
    · simp [cbN_nil]

theorem launch_length (fl : Flags) (size : Nat) (dl : Int) (st : Bool) (q : List Cmd) :
    ∀ rs : List Run, rs.length ≤ size → (launch fl size dl st q rs).2.1.length ≤ size := by
  induction q with
  | nil => intro rs h; simpa [launch] using h
  | cons c q ih =>
    intro rs h
    simp only [launch]
    split
    · rename_i hlt
      split
      · exact ih rs h
      · split
        · exact ih rs h
        · apply ih
          simp only [List.length_append, List.length_cons, List.length_nil]
          omega
    · exact h

theorem launch_starts (fl : Flags) (size : Nat) (dl : Int) (q : List Cmd) :
    ∀ rs : List Run, ∀ c, Ev.start c ∈ (launch fl size dl true q rs).2.2 → c.submit = false := by
  induction q with
  | nil => intro rs c h; simp [launch] at h
  | cons c0 q ih =>
    intro rs c h
    simp only [launch] at h
    split at h
    · split at h
      · split at h
        · exact ih rs c h
        · simp only [List.mem_cons] at h
          rcases h with h | h
          · cases h
          · exact ih rs c h
      · rename_i hns
        split at h
        · simp only [List.mem_cons] at h
          rcases h with h | h
          · cases h
          · exact ih rs c h
        · simp only [List.mem_cons] at h
          rcases h with h | h
          · injection h with h
            subst h
            simpa using hns
          · exact ih _ c h
    · simp at h

/-- the queue after `launch` is a suffix of the queue before -/
theorem launch_queue_sub (fl : Flags) (size : Nat) (dl : Int) (st : Bool) (q : List Cmd) :
    ∀ rs : List Run, ∀ c ∈ (launch fl size dl st q rs).1, c ∈ q := by
  induction q with
  | nil => intro rs c h; simp [launch] at h
  | cons c0 q ih =>
    intro rs c h
    simp only [launch] at h
    split at h
    · split at h
      · exact List.mem_cons_of_mem _ (ih rs c h)
      · split at h
        · exact List.mem_cons_of_mem _ (ih rs c h)
        · exact List.mem_cons_of_mem _ (ih _ c h)
    · exact h

theorem launch_nil (fl : Flags) (size : Nat) (dl : Int) (st : Bool) (rs : List Run) :
    launch fl size dl st [] rs = ([], rs, []) := rfl

/-! ### one operation -/

/-- callbacks are conserved by the step from `s` -/
def StepSafe (fl : Flags) (s : State) (op : Op) : Prop :=
  match op with
  | .process _ => LaunchSafe fl s.stopping s.queue
  | .terminate _ => fl.dropTerm = false ∨ s.queue = []
  | _ => True

def putDelta (id : Nat) (op : Op) : Nat := if isPut id op then 1 else 0

theorem doProcess_count_le (fl : Flags) (s : State) (ex : List Nat) (ka : Bool) (id : Nat) :
    cbN id (doProcess fl s ex ka).2 + qN id (doProcess fl s ex ka).1.queue
      + rN id (doProcess fl s ex ka).1.running ≤ qN id s.queue + rN id s.running := by
  simp only [doProcess]
  have h1 := reap_count id s.now ex ka s.released s.running
  have h2 := launch_count_le fl s.size (s.now + s.timeout) s.stopping id s.queue
    (reap s.now ex ka s.released s.running).1
  generalize reap s.now ex ka s.released s.running = R at h1 h2 ⊢
  obtain ⟨keep, ev1⟩ := R
  simp only at h1 h2 ⊢
  generalize launch fl s.size (s.now + s.timeout) s.stopping s.queue keep = L at h2 ⊢
  obtain ⟨q', rs', ev2⟩ := L
  simp only [cbN_append] at h1 h2 ⊢
  omega

theorem doProcess_count_eq (fl : Flags) (s : State) (ex : List Nat) (ka : Bool) (id : Nat)
    (hs : LaunchSafe fl s.stopping s.queue) :
    cbN id (doProcess fl s ex ka).2 + qN id (doProcess fl s ex ka).1.queue
      + rN id (doProcess fl s ex ka).1.running = qN id s.queue + rN id s.running := by
  simp only [doProcess]
  have h1 := reap_count id s.now ex ka s.released s.running
  have h2 := launch_count_eq fl s.size (s.now + s.timeout) s.stopping id s.queue hs
    (reap s.now ex ka s.released s.running).1
  generalize reap s.now ex ka s.released s.running = R at h1 h2 ⊢
  obtain ⟨keep, ev1⟩ := R
  simp only at h1 h2 ⊢
  generalize launch fl s.size (s.now + s.timeout) s.stopping s.queue keep = L at h2 ⊢
  obtain ⟨q', rs', ev2⟩ := L
  simp only [cbN_append] at h1 h2 ⊢
  omega

theorem cbN_map_stopping (id : Nat) (q : List Cmd) :
    cbN id (q.map fun c => Ev.cb c.id .stopping) = qN id q := by
  induction q with
  | nil => rfl
  | cons c q ih => simp only [List.map_cons, cbN_cons_cb, qN_cons, ih]

theorem step_count_le (fl : Flags) (s : State) (op : Op) (id : Nat) :
    cbN id (step fl s op).2 + qN id (step fl s op).1.queue + rN id (step fl s op).1.running
      ≤ qN id s.queue + rN id s.running + putDelta id op := by
  cases op with
  | put c =>
    simp only [step, putDelta, isPut, beq_iff_eq]
    split
    · simp only [cbN_cons_cb, cbN_nil]; omega
    · simp only [cbN_nil, qN_append, qN_cons, qN_nil]; omega
  | process ex => simpa [step, putDelta, isPut] using doProcess_count_le fl s ex false id
  | advance dt => simp [step, putDelta, isPut, cbN_nil]
  | release i => simp [step, putDelta, isPut, cbN_nil]
  | setStopping => simp [step, putDelta, isPut, cbN_nil]
  | close => simp [step, putDelta, isPut, cbN_nil]
  | terminate ex =>
    simp only [step, putDelta, isPut]
    have h := doProcess_count_le fl { s with stopping := true, closed := true, queue := [] } ex true id
    have hm := cbN_map_stopping id s.queue
    generalize doProcess fl { s with stopping := true, closed := true, queue := [] } ex true = D at h ⊢
    obtain ⟨s', ev⟩ := D
    simp only [cbN_append, qN_nil] at h ⊢
    split
    · simp only [cbN_nil]; omega
    · omega

theorem step_count_eq (fl : Flags) (s : State) (op : Op) (id : Nat) (hs : StepSafe fl s op) :
    cbN id (step fl s op).2 + qN id (step fl s op).1.queue + rN id (step fl s op).1.running
      = qN id s.queue + rN id s.running + putDelta id op := by
  cases op with
  | put c =>
    simp only [step, putDelta, isPut, beq_iff_eq]
    split
    · simp only [cbN_cons_cb, cbN_nil]; omega
    · simp only [cbN_nil, qN_append, qN_cons, qN_nil]; omega
  | process ex => simpa [step, putDelta, isPut] using doProcess_count_eq fl s ex false id hs
  | advance dt => simp [step, putDelta, isPut, cbN_nil]
  | release i => simp [step, putDelta, isPut, cbN_nil]
  | setStopping => simp [step, putDelta, isPut, cbN_nil]
  | close => simp [step, putDelta, isPut, cbN_nil]
  | terminate ex =>
    simp only [step, putDelta, isPut]
    have h := doProcess_count_eq fl { s with stopping := true, closed := true, queue := [] } ex true id
      (Or.inr (Or.inr (by simp)))
    have hm := cbN_map_stopping id s.queue
    generalize doProcess fl { s with stopping := true, closed := true, queue := [] } ex true = D at h ⊢
    obtain ⟨s', ev⟩ := D
    simp only [cbN_append, qN_nil] at h ⊢
    rcases hs with hs | hs
    · simp only [hs, Bool.false_eq_true, if_false]; omega
    · simp only [hs, List.map_nil, ite_self, cbN_nil, qN_nil, Bool.false_eq_true, if_false] at h hm ⊢; omega

theorem doProcess_size (fl : Flags) (s : State) (ex : List Nat) (ka : Bool) :
    (doProcess fl s ex ka).1.size = s.size := rfl

theorem doProcess_running_le (fl : Flags) (s : State) (ex : List Nat) (ka : Bool) (h : s.running.length ≤ s.size) :
    (doProcess fl s ex ka).1.running.length ≤ s.size := by
  simp only [doProcess]
  exact launch_length _ _ _ _ _ _ (Nat.le_trans (reap_length _ _ _ _ _) h)

theorem step_running_le (fl : Flags) (s : State) (op : Op) (h : s.running.length ≤ s.size) :
    (step fl s op).1.running.length ≤ s.size ∧ (step fl s op).1.size = s.size := by
  cases op with
  | put c =>
    simp only [step]
    split <;> exact ⟨h, rfl⟩
  | process ex => exact ⟨doProcess_running_le fl s ex false h, rfl⟩
  | advance dt => exact ⟨h, rfl⟩
  | release i => exact ⟨h, rfl⟩
  | setStopping => exact ⟨h, rfl⟩
  | close => exact ⟨h, rfl⟩
  | terminate ex =>
    exact ⟨doProcess_running_le fl { s with stopping := true, closed := true, queue := [] } ex true h, rfl⟩

theorem step_stopping (fl : Flags) (s : State) (op : Op) (h : s.stopping = true) :
    (step fl s op).1.stopping = true := by
  cases op with
  | put c => simp only [step]; split <;> simp [h]
  | process ex => simp [step, doProcess, h]
  | advance dt => simp [step, h]
  | release i => simp [step, h]
  | setStopping => simp [step]
  | close => simp [step]
  | terminate ex => simp [step, doProcess]

theorem step_starts (fl : Flags) (s : State) (op : Op) (h : s.stopping = true) (c : Cmd)
    (hc : Ev.start c ∈ (step fl s op).2) : c.submit = false := by
  have hp : ∀ (s : State) ex ka, s.stopping = true → Ev.start c ∈ (doProcess fl s ex ka).2 → c.submit = false := by
    intro s ex ka h hc
    simp only [doProcess, List.mem_append] at hc
    rcases hc with hc | hc
    · exact absurd hc (reap_no_start _ _ _ _ _ _)
    · rw [h] at hc
      exact launch_starts _ _ _ _ _ _ hc
  cases op with
  | put c0 =>
    simp only [step] at hc
    split at hc <;> simp at hc
  | process ex => exact hp s ex false h (by simpa [step] using hc)
  | advance dt => simp [step] at hc
  | release i => simp [step] at hc
  | setStopping => simp [step] at hc
  | close => simp [step] at hc
  | terminate ex =>
    simp only [step, List.mem_append] at hc
    rcases hc with hc | hc
    · split at hc
      · simp at hc
      · simp at hc
    · exact hp _ ex true rfl hc

/-! ### whole histories -/

theorem putN_cons (id : Nat) (op : Op) (ops : List Op) : putN id (op :: ops) = putDelta id op + putN id ops := by
  unfold putN putDelta
  rw [List.countP_cons]
  omega

theorem exec_count_le (fl : Flags) (id : Nat) (ops : List Op) :
    ∀ s : State, cbN id (exec fl s ops).2 + qN id (exec fl s ops).1.queue + rN id (exec fl s ops).1.running
      ≤ qN id s.queue + rN id s.running + putN id ops := by
  induction ops with
  | nil => intro s; simp [exec, cbN_nil, putN]
  | cons op ops ih =>
    intro s
    simp only [exec]
    have h1 := step_count_le fl s op id
    have h2 := ih (step fl s op).1
    rw [putN_cons]
    generalize step fl s op = S1 at h1 h2 ⊢
    obtain ⟨s1, ev1⟩ := S1
    simp only at h1 h2 ⊢
    generalize exec fl s1 ops = S2 at h2 ⊢
    obtain ⟨s2, ev2⟩ := S2
    simp only [cbN_append] at h1 h2 ⊢
    omega

/-- every step of the run from `s` conserves callbacks -/
def RunSafe (fl : Flags) : State → List Op → Prop
  | _, [] => True
  | s, op :: ops => StepSafe fl s op ∧ RunSafe fl (step fl s op).1 ops

theorem exec_count_eq (fl : Flags) (id : Nat) (ops : List Op) :
    ∀ s : State, RunSafe fl s ops →
      cbN id (exec fl s ops).2 + qN id (exec fl s ops).1.queue + rN id (exec fl s ops).1.running
      = qN id s.queue + rN id s.running + putN id ops := by
  induction ops with
  | nil => intro s _; simp [exec, cbN_nil, putN]
  | cons op ops ih =>
    intro s hs
    simp only [exec]
    have h1 := step_count_eq fl s op id hs.1
    have h2 := ih (step fl s op).1 hs.2
    rw [putN_cons]
    generalize step fl s op = S1 at h1 h2 ⊢
    obtain ⟨s1, ev1⟩ := S1
    simp only at h1 h2 ⊢
    generalize exec fl s1 ops = S2 at h2 ⊢
    obtain ⟨s2, ev2⟩ := S2
    simp only [cbN_append] at h1 h2 ⊢
    omega

theorem runSafe_sound (ops : List Op) : ∀ s : State, RunSafe Flags.sound s ops := by
  induction ops with
  | nil => intro s; trivial
  | cons op ops ih =>
    intro s
    refine ⟨?_, ih _⟩
    cases op <;> simp [StepSafe, LaunchSafe, Flags.sound]

/-! ### histories on which even the dropping flags lose nothing -/

def isTerm : Op → Bool
  | .terminate _ => true
  | _ => false
def isStop : Op → Bool
  | .setStopping | .close | .terminate _ => true
  | _ => false
def isSubmitPut : Op → Bool
  | .put c => c.submit
  | _ => false

/-- the history hypothesis of the partial statement -/
def DropFree (fl : Flags) (ops : List Op) : Prop :=
  (fl.dropTerm = false ∨ ops.all (fun o => !isTerm o) = true) ∧
  (fl.dropStop = false ∨ ops.all (fun o => !isSubmitPut o) = true ∨ ops.all (fun o => !isStop o) = true)

theorem step_queue_nosubmit (fl : Flags) (s : State) (op : Op) (hop : isSubmitPut op = false)
    (h : ∀ c ∈ s.queue, c.submit = false) : ∀ c ∈ (step fl s op).1.queue, c.submit = false := by
  cases op with
  | put c0 =>
    simp only [step]
    split
    · exact h
    · intro c hc
      simp only [List.mem_append, List.mem_singleton] at hc
      rcases hc with hc | hc
      · exact h c hc
      · subst hc; simpa [isSubmitPut] using hop
  | process ex =>
    intro c hc
    simp only [step, doProcess] at hc
    exact h c (launch_queue_sub _ _ _ _ _ _ c hc)
  | advance dt => exact h
  | release i => exact h
  | setStopping => exact h
  | close => exact h
  | terminate ex =>
    intro c hc
    simp only [step, doProcess, launch_nil] at hc
    simp at hc

theorem step_not_stopping (fl : Flags) (s : State) (op : Op) (hop : isStop op = false)
    (h : s.stopping = false) : (step fl s op).1.stopping = false := by
  cases op with
  | put c => simp only [step]; split <;> simp [h]
  | process ex => simp [step, doProcess, h]
  | advance dt => simp [step, h]
  | release i => simp [step, h]
  | setStopping => simp [isStop] at hop
  | close => simp [isStop] at hop
  | terminate ex => simp [isStop] at hop

theorem runSafe_of (fl : Flags) (ops : List Op)
    (hT : fl.dropTerm = false ∨ ops.all (fun o => !isTerm o) = true) :
    ∀ s : State,
      (fl.dropStop = false ∨ (ops.all (fun o => !isSubmitPut o) = true ∧ ∀ c ∈ s.queue, c.submit = false)
        ∨ (ops.all (fun o => !isStop o) = true ∧ s.stopping = false)) →
      RunSafe fl s ops := by
  induction ops with
  | nil => intro s _; trivial
  | cons op ops ih =>
    intro s hS
    have hT' : fl.dropTerm = false ∨ ops.all (fun o => !isTerm o) = true := by
      rcases hT with h | h
      · exact Or.inl h
      · right; simp only [List.all_cons, Bool.and_eq_true] at h; exact h.2
    refine ⟨?_, ih hT' _ ?_⟩
    · cases op with
      | process ex =>
        simp only [StepSafe, LaunchSafe]
        rcases hS with h | h | h
        · exact Or.inl h
        · exact Or.inr (Or.inr h.2)
        · exact Or.inr (Or.inl h.2)
      | terminate ex =>
        simp only [StepSafe]
        rcases hT with h | h
        · exact Or.inl h
        · simp [isTerm] at h
      | put c => trivial
      | advance dt => trivial
      | release i => trivial
      | setStopping => trivial
      | close => trivial
    · rcases hS with h | h | h
      · exact Or.inl h
      · simp only [List.all_cons, Bool.and_eq_true, Bool.not_eq_true'] at h
        exact Or.inr (Or.inl ⟨h.1.2, step_queue_nosubmit fl s op h.1.1 h.2⟩)
      · simp only [List.all_cons, Bool.and_eq_true, Bool.not_eq_true'] at h
        exact Or.inr (Or.inr ⟨h.1.2, step_not_stopping fl s op h.1.1 h.2⟩)

theorem exec_running_le (fl : Flags) (ops : List Op) :
    ∀ s : State, s.running.length ≤ s.size →
      (exec fl s ops).1.running.length ≤ s.size ∧ (exec fl s ops).1.size = s.size := by
  induction ops with
  | nil => intro s h; exact ⟨h, rfl⟩
  | cons op ops ih =>
    intro s h
    simp only [exec]
    have h1 := step_running_le fl s op h
    have h2 := ih (step fl s op).1 (by rw [h1.2]; exact h1.1)
    rw [h1.2] at h2
    exact h2

theorem exec_stopping (fl : Flags) (ops : List Op) :
    ∀ s : State, s.stopping = true →
      (exec fl s ops).1.stopping = true ∧ ∀ c, Ev.start c ∈ (exec fl s ops).2 → c.submit = false := by
  induction ops with
  | nil => intro s h; exact ⟨h, by simp [exec]⟩
  | cons op ops ih =>
    intro s h
    simp only [exec]
    have h1 := step_stopping fl s op h
    have h2 := ih (step fl s op).1 h1
    refine ⟨h2.1, ?_⟩
    intro c hc
    simp only [List.mem_append] at hc
    rcases hc with hc | hc
    · exact step_starts fl s op h c hc
    · exact h2.2 c hc

theorem exec_append (fl : Flags) (pre post : List Op) :
    ∀ s : State, exec fl s (pre ++ post) =
      ((exec fl (exec fl s pre).1 post).1, (exec fl s pre).2 ++ (exec fl (exec fl s pre).1 post).2) := by
  induction pre with
  | nil => intro s; simp [exec]
  | cons op pre ih =>
    intro s
    simp only [List.cons_append, exec, ih, List.append_assoc]

/-! ### the 255 callback -/

theorem exitOutcome_host255 (c : Cmd) (h : exitOutcome c = .host255) :
    c.remote = true ∧ c.cb255 = true ∧ c.code = 255 := by
  unfold exitOutcome at h
  split at h
  · rename_i hc
    simp only [Bool.and_eq_true, beq_iff_eq] at hc
    exact ⟨hc.1.1, hc.2, hc.1.2⟩
  · cases h

theorem reap_host255 (now : Int) (ex : List Nat) (ka : Bool) (rel : List Nat) (rs : List Run) (id : Nat)
    (h : Ev.cb id .host255 ∈ (reap now ex ka rel rs).2) :
    ∃ r ∈ rs, r.cmd.id = id ∧ r.cmd.remote = true ∧ r.cmd.cb255 = true ∧ r.cmd.code = 255 := by
  induction rs with
  | nil => simp [reap] at h
  | cons r rs ih =>
    simp only [reap] at h
    split at h
    · simp only [List.mem_cons] at h
      rcases h with h | h
      · injection h with h1 h2
        split at h2
        · cases h2
        · exact ⟨r, by simp, h1.symm, exitOutcome_host255 _ h2.symm⟩
      · obtain ⟨r', hr', hh⟩ := ih h
        exact ⟨r', List.mem_cons_of_mem _ hr', hh⟩
    · split at h
      · simp only [List.mem_cons] at h
        rcases h with h | h
        · injection h with _ h2; cases h2
        · obtain ⟨r', hr', hh⟩ := ih h
          exact ⟨r', List.mem_cons_of_mem _ hr', hh⟩
      · obtain ⟨r', hr', hh⟩ := ih h
        exact ⟨r', List.mem_cons_of_mem _ hr', hh⟩

theorem launch_no_host255 (fl : Flags) (size : Nat) (dl : Int) (st : Bool) (q : List Cmd) (id : Nat) :
    ∀ rs : List Run, Ev.cb id .host255 ∉ (launch fl size dl st q rs).2.2 := by
  induction q with
  | nil => intro rs; simp [launch]
  | cons c q ih =>
    intro rs h
    simp only [launch] at h
    split at h
    · split at h
      · split at h
        · exact ih rs h
        · simp only [List.mem_cons] at h
          rcases h with h | h
          · injection h with _ h2; cases h2
          · exact ih rs h
      · split at h
        · simp only [List.mem_cons] at h
          rcases h with h | h
          · injection h with _ h2; cases h2
          · exact ih rs h
        · simp only [List.mem_cons] at h
          rcases h with h | h
          · cases h
          · exact ih _ h
    · simp at h

theorem doProcess_host255 (fl : Flags) (s : State) (ex : List Nat) (ka : Bool) (id : Nat)
    (h : Ev.cb id .host255 ∈ (doProcess fl s ex ka).2) :
    ∃ r ∈ s.running, r.cmd.id = id ∧ r.cmd.remote = true ∧ r.cmd.cb255 = true ∧ r.cmd.code = 255 := by
  simp only [doProcess, List.mem_append] at h
  rcases h with h | h
  · exact reap_host255 _ _ _ _ _ _ h
  · exact absurd h (launch_no_host255 _ _ _ _ _ _ _)

theorem step_host255 (fl : Flags) (s : State) (op : Op) (id : Nat) (h : Ev.cb id .host255 ∈ (step fl s op).2) :
    ∃ r ∈ s.running, r.cmd.id = id ∧ r.cmd.remote = true ∧ r.cmd.cb255 = true ∧ r.cmd.code = 255 := by
  cases op with
  | put c =>
    simp only [step] at h
    split at h
    · simp only [List.mem_singleton] at h
      injection h with _ h2; cases h2
    · simp at h
  | process ex => exact doProcess_host255 fl s ex false id (by simpa [step] using h)
  | advance dt => simp [step] at h
  | release i => simp [step] at h
  | setStopping => simp [step] at h
  | close => simp [step] at h
  | terminate ex =>
    simp only [step, List.mem_append] at h
    rcases h with h | h
    · split at h
      · simp at h
      · simp only [List.mem_map] at h
        obtain ⟨c, _, hc⟩ := h
        injection hc with _ h2; cases h2
    · exact doProcess_host255 fl { s with stopping := true, closed := true, queue := [] } ex true id h

end CylcModel.SubProc
