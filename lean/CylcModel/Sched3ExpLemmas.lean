/-
Helper lemmas for C32 over the `Sched3Exp` model (Sched2 + clock expiry + virtual clock + single-task trigger), one
lemma per primitive of the model, lifted over op lists with `run_inv` (the pattern of `SchedLemmasC06`).  Families:

* `expLog_*`   : which primitives touch the log of expiry events: none but the `expired` branch of
                 `processMessage` (`processExpired`), which appends exactly one event describing the proxy it
                 found (`processMessage_expired_log`);
* `GoodLog`    : every logged event was a waiting, not manually triggered proxy whose expiry time had come
                 (`goodLog_run`), for histories without a job message `expired` / for repaired code;
* `keys_*`, `kidsSat_*` : what the processing of an output adds to the pool (`spawnOnOutput_keys`) and that the
                 children in the pool afterwards have their prerequisite satisfied (`spawnOnOutput_sat`);
* `Inv`        : an expired proxy is not queued, not manual, not waiting on job preparation and not in
                 `toTrigger` (`inv_run`), hence never handed to job submission (`releaseAndSubmit_not_expired`).
-/
import CylcModel.Sched3Exp

namespace CylcModel.Sched3Exp

/-! ### Generic lifting (copies of the `Sched` v1 lemmas, stated for `Sched3Exp`) -/

theorem foldl_inv {α σ} (P : σ → Prop) (f : σ → α → σ) (h : ∀ s a, P s → P (f s a)) :
    ∀ (l : List α) (s : σ), P s → P (l.foldl f s) := by
  intro l; induction l with
  | nil => intro s hs; exact hs
  | cons a l ih => intro s hs; exact ih _ (h s a hs)

/-- as `foldl_inv`, the step hypothesis may use that the element is in the list -/
theorem foldl_inv_mem {α σ} (P : σ → Prop) (f : σ → α → σ) :
    ∀ (l : List α) (s : σ), (∀ s a, a ∈ l → P s → P (f s a)) → P s → P (l.foldl f s) := by
  intro l; induction l with
  | nil => intro s _ hs; exact hs
  | cons a l ih =>
    intro s h hs
    exact ih _ (fun s b hb => h s b (List.mem_cons_of_mem _ hb)) (h s a (List.mem_cons_self) hs)

/-- every state of a run satisfies `P` when the start-up state does and every step preserves it -/
theorem run_inv (P : State → Prop) (g : Graph) (h0 : P (init g)) (hs : ∀ s op, P s → P (step g s op)) :
    ∀ ops, ∀ s ∈ run g ops, P s := by
  intro ops
  unfold run
  have key : ∀ (ops : List Op) (acc : List State) (cur : State),
      (∀ s ∈ acc, P s) → P cur →
      ∀ s ∈ (ops.foldl (fun (a : List State × State) op =>
          let s' := step g a.2 op; (a.1 ++ [s'], s')) (acc, cur)).1, P s := by
    intro ops
    induction ops with
    | nil => intro acc cur hacc _ s hm; exact hacc s hm
    | cons op ops ih =>
      intro acc cur hacc hcur
      simp only [List.foldl_cons]
      apply ih
      · intro s hm
        rcases List.mem_append.mp hm with h | h
        · exact hacc s h
        · simp at h; subst h; exact hs _ _ hcur
      · exact hs _ _ hcur
  exact key ops [init g] (init g) (by intro s hm; simp at hm; subst hm; exact h0) h0

/-- the state reached after an op list -/
def final (g : Graph) (ops : List Op) : State := ops.foldl (step g) (init g)

theorem final_snoc (g : Graph) (ops : List Op) (op : Op) :
    final g (ops ++ [op]) = step g (final g ops) op := by
  simp [final, List.foldl_append]

/-- the final state is a state of the run -/
theorem final_mem_run (g : Graph) (ops : List Op) : final g ops ∈ run g ops := by
  unfold run final
  have key : ∀ (ops : List Op) (acc : List State) (cur : State), cur ∈ acc →
      ops.foldl (step g) cur ∈ (ops.foldl (fun (a : List State × State) op =>
          let s' := step g a.2 op; (a.1 ++ [s'], s')) (acc, cur)).1 := by
    intro ops
    induction ops with
    | nil => intro acc cur h; exact h
    | cons op ops ih =>
      intro acc cur _
      simp only [List.foldl_cons]
      apply ih
      simp
  exact key ops [init g] (init g) (by simp)

/-! ### Pool primitives -/

theorem get?_some_mem {s : State} {p : Int} {n : String} {x : Proxy} (h : s.get? p n = some x) :
    x ∈ s.pool ∧ x.pt = p ∧ x.name = n := by
  unfold State.get? at h
  have h1 := List.mem_of_find?_eq_some h
  have h2 := List.find?_some h
  simp only [Bool.and_eq_true, beq_iff_eq] at h2
  exact ⟨h1, h2.1, h2.2⟩

theorem get?_none_forall {s : State} {p : Int} {n : String} (h : s.get? p n = none) :
    ∀ x ∈ s.pool, ¬ (x.pt = p ∧ x.name = n) := by
  unfold State.get? at h
  intro x hx hk
  have := List.find?_eq_none.mp h x hx
  simp [hk.1, hk.2] at this

theorem get?_isSome_of_mem {s : State} {x : Proxy} (h : x ∈ s.pool) : (s.get? x.pt x.name).isSome = true := by
  cases hg : s.get? x.pt x.name with
  | some y => rfl
  | none => exact absurd ⟨rfl, rfl⟩ (get?_none_forall hg x h)

/-- members of the pool after `put x`: `x` in place of every proxy with its key, the others unchanged -/
theorem mem_put {s : State} {x y : Proxy} (h : y ∈ (s.put x).pool) :
    (y = x ∧ ∃ z ∈ s.pool, z.pt = x.pt ∧ z.name = x.name) ∨ (y ∈ s.pool ∧ ¬ (y.pt = x.pt ∧ y.name = x.name)) := by
  unfold State.put at h
  simp only [List.mem_map] at h
  obtain ⟨z, hz, hzy⟩ := h
  split at hzy
  · rename_i hk
    simp only [Bool.and_eq_true, beq_iff_eq] at hk
    left; exact ⟨hzy.symm, z, hz, hk.1, hk.2⟩
  · rename_i hk
    simp only [Bool.and_eq_true, beq_iff_eq] at hk
    right; subst hzy; exact ⟨hz, hk⟩

theorem mem_put_of_ne {s : State} {x y : Proxy} (h : y ∈ s.pool) (hk : ¬ (y.pt = x.pt ∧ y.name = x.name)) :
    y ∈ (s.put x).pool := by
  unfold State.put
  simp only [List.mem_map]
  refine ⟨y, h, ?_⟩
  split
  · rename_i hk'
    simp only [Bool.and_eq_true, beq_iff_eq] at hk'
    exact absurd hk' hk
  · rfl

theorem mem_put_self {s : State} {x z : Proxy} (h : z ∈ s.pool) (hk : z.pt = x.pt ∧ z.name = x.name) :
    x ∈ (s.put x).pool := by
  unfold State.put
  simp only [List.mem_map]
  refine ⟨z, h, ?_⟩
  simp [hk.1, hk.2]

theorem mem_insertBucket (x y : Proxy) : ∀ l : List Proxy, y ∈ insertBucket x l ↔ y = x ∨ y ∈ l := by
  intro l
  induction l with
  | nil => simp [insertBucket]
  | cons z zs ih =>
    unfold insertBucket
    split
    · simp only [List.mem_cons, ih]
      constructor
      · rintro (h | h | h)
        · exact Or.inr (Or.inl h)
        · exact Or.inl h
        · exact Or.inr (Or.inr h)
      · rintro (h | h | h)
        · exact Or.inr (Or.inl h)
        · exact Or.inl h
        · exact Or.inr (Or.inr h)
    · split
      · simp only [List.mem_cons]
        constructor
        · rintro (h | h | h)
          · exact Or.inr (Or.inl h)
          · exact Or.inl h
          · exact Or.inr (Or.inr h)
        · rintro (h | h | h)
          · exact Or.inr (Or.inl h)
          · exact Or.inl h
          · exact Or.inr (Or.inr h)
      · simp only [List.mem_cons, ih]
        constructor
        · rintro (h | h | h)
          · exact Or.inr (Or.inl h)
          · exact Or.inl h
          · exact Or.inr (Or.inr h)
        · rintro (h | h | h)
          · exact Or.inr (Or.inl h)
          · exact Or.inl h
          · exact Or.inr (Or.inr h)

theorem mem_add {s : State} {x y : Proxy} (h : y ∈ (s.add x).pool) :
    y ∈ s.pool ∨ (y = x ∧ s.get? x.pt x.name = none) := by
  unfold State.add at h
  split at h
  · left; exact h
  · rename_i hn
    rcases (mem_insertBucket x y _).mp h with h | h
    · right
      refine ⟨h, ?_⟩
      cases hg : s.get? x.pt x.name with
      | none => rfl
      | some v => simp [hg] at hn
    · left; exact h

theorem mem_add_of_mem {s : State} {x y : Proxy} (h : y ∈ s.pool) : y ∈ (s.add x).pool := by
  unfold State.add
  split
  · exact h
  · exact (mem_insertBucket x y _).mpr (Or.inr h)

/-! ### `Proxy.reset` and friends keep what they do not set -/

@[simp] theorem reset_pt (x : Proxy) (a : Option Status) (b c d : Option Bool) :
    (x.reset a b c d).pt = x.pt := by unfold Proxy.reset; simp only; split <;> rfl
@[simp] theorem reset_name (x : Proxy) (a : Option Status) (b c d : Option Bool) :
    (x.reset a b c d).name = x.name := by unfold Proxy.reset; simp only; split <;> rfl
@[simp] theorem reset_submitNum (x : Proxy) (a : Option Status) (b c d : Option Bool) :
    (x.reset a b c d).submitNum = x.submitNum := by unfold Proxy.reset; simp only; split <;> rfl

/-- `reset` without a `held` argument keeps the held flag -/
@[simp] theorem reset_held_none (x : Proxy) (a : Option Status) (b c : Option Bool) :
    (x.reset a b c none).held = x.held := by
  unfold Proxy.reset; simp only; split <;> simp

theorem reset_held_some (x : Proxy) (v : Bool) :
    (x.reset none none none (some v)).held = v := by
  unfold Proxy.reset
  simp only [Option.getD_none, Option.getD_some]
  split
  · rename_i h
    simp only [beq_self_eq_true, Bool.true_and, beq_iff_eq] at h
    simpa using h.symm
  · rfl

@[simp] theorem satisfyMe_pt (x : Proxy) (a : Atom) : (x.satisfyMe a).pt = x.pt := rfl
@[simp] theorem satisfyMe_name (x : Proxy) (a : Atom) : (x.satisfyMe a).name = x.name := rfl
@[simp] theorem satisfyMe_held (x : Proxy) (a : Atom) : (x.satisfyMe a).held = x.held := rfl

theorem foldl_satisfyMe (l : List Atom) (x : Proxy) :
    (l.foldl (fun z a => z.satisfyMe a) x).pt = x.pt ∧ (l.foldl (fun z a => z.satisfyMe a) x).name = x.name ∧
      (l.foldl (fun z a => z.satisfyMe a) x).held = x.held := by
  induction l generalizing x with
  | nil => exact ⟨rfl, rfl, rfl⟩
  | cons a l ih => simp only [List.foldl_cons]; exact ih _

theorem setComplete_fields (g : Graph) (x : Proxy) (m : String) :
    (setComplete g x m).1.pt = x.pt ∧ (setComplete g x m).1.name = x.name ∧ (setComplete g x m).1.held = x.held := by
  unfold setComplete
  split
  · exact ⟨rfl, rfl, rfl⟩
  · split <;> exact ⟨rfl, rfl, rfl⟩


/-! ### `expLog`: only the `expired` branch of `processMessage` logs expiry events -/

/-- `spawnTask` changes nothing of the state but `tasksToHold` -/
theorem spawnTask_state (g : Graph) (s : State) (n : String) (p : Int) :
    (spawnTask g s n p).1 = { s with tasksToHold := (spawnTask g s n p).1.tasksToHold } := by
  unfold spawnTask
  simp only
  repeat' split
  all_goals rfl

theorem expLog_spawnTask (g : Graph) (s : State) (n : String) (p : Int) :
    (spawnTask g s n p).1.expLog = s.expLog := by
  rw [spawnTask_state]

theorem pool_spawnTask (g : Graph) (s : State) (n : String) (p : Int) :
    (spawnTask g s n p).1.pool = s.pool := by
  rw [spawnTask_state]

theorem expLog_add (s : State) (x : Proxy) : (s.add x).expLog = s.expLog := by
  unfold State.add; split <;> rfl

theorem expLog_spawnAndAdd (g : Graph) (s : State) (n : String) (p : Int) :
    (spawnAndAdd g s n p).expLog = s.expLog := by
  unfold spawnAndAdd
  split
  · rfl
  · split
    · rename_i h; rw [expLog_add]; have := expLog_spawnTask g s n p; rw [h] at this; exact this
    · rename_i h; have := expLog_spawnTask g s n p; rw [h] at this; exact this

theorem expLog_spawnNextParentless (g : Graph) (s : State) (x : Proxy) :
    (spawnNextParentless g s x).expLog = s.expLog := by
  unfold spawnNextParentless
  split
  · rfl
  · split
    · exact expLog_spawnAndAdd _ _ _ _
    · rfl

theorem expLog_computeRunahead (g : Graph) (s : State) (f : Bool) :
    (computeRunahead g s f).expLog = s.expLog := by
  unfold computeRunahead
  simp only
  split
  · rfl
  · split <;> rfl

theorem expLog_releaseRunahead (g : Graph) (s : State) : (releaseRunahead g s).1.expLog = s.expLog := by
  unfold releaseRunahead
  split
  · rfl
  · split
    · rfl
    · simp only
      apply foldl_inv (fun st : State => st.expLog = s.expLog)
      · intro st x hst
        rw [expLog_spawnNextParentless]
        split
        · exact hst
        · exact hst
      · rfl

theorem expLog_releaseHeldActive (s : State) (x : Proxy) : (releaseHeldActive s x).expLog = s.expLog := by
  unfold releaseHeldActive
  simp only
  split <;> rfl

theorem expLog_holdActive (s : State) (x : Proxy) : (holdActive s x).expLog = s.expLog := by
  unfold holdActive
  simp only
  split <;> rfl

theorem expLog_remove (g : Graph) (s : State) (x : Proxy) : (remove g s x).expLog = s.expLog := by
  unfold remove
  simp only
  split
  · rw [expLog_spawnNextParentless, expLog_releaseHeldActive]
  · rw [expLog_releaseHeldActive]

theorem expLog_removeIfComplete (g : Graph) (s : State) (x : Proxy) :
    (removeIfComplete g s x).expLog = s.expLog := by
  unfold removeIfComplete
  split
  · rfl
  · simp only
    have key : ∀ s1 : State, s1.expLog = s.expLog →
        (match g.task? x.name with
          | none => s1
          | some t => if isComplete t x.done = true then remove g s1 x else s1).expLog = s.expLog := by
      intro s1 h1
      split
      · exact h1
      · split
        · rw [expLog_remove]; exact h1
        · exact h1
    apply key
    split <;> rfl

theorem expLog_put (s : State) (x : Proxy) : (s.put x).expLog = s.expLog := rfl

/-- the second half of `spawnChild`, after the child was found or spawned -/
def spawnChildFin (p : Int) (n out : String) (sui : List (Int × String)) (c : Child)
    (st1 : State) (ch : Option Proxy) (inPool : Bool) : State × List (Int × String) :=
  match ch with
  | none => (st1, sui)
  | some y =>
    let st2 : State := if inPool then st1 else st1.add (y.satisfyMe ⟨p, n, out⟩)
    let targets : List (Int × String) :=
      if c.isAbs then
        let others := (st2.pool.filter fun z => z.name == c.name).map fun z => (z.pt, z.name)
        if others.contains (c.pt, c.name) then others else others ++ [(c.pt, c.name)]
      else [(c.pt, c.name)]
    targets.foldl (fun (a : State × List (Int × String)) k =>
      match a.1.get? k.1 k.2 with
      | none => a
      | some z =>
        let z := z.satisfyMe ⟨p, n, out⟩
        (a.1.put z, if z.suicideNow && !a.2.contains k then a.2 ++ [k] else a.2)) (st2, sui)

/-- `spawnChild` in two halves -/
theorem spawnChild_eq (g : Graph) (p : Int) (n out : String) (st : State) (sui : List (Int × String)) (c : Child) :
    spawnChild g p n out (st, sui) c =
      (let st0 : State := if c.isAbs && !st.absDone.contains ⟨p, n, out⟩ then
          { st with absDone := st.absDone ++ [⟨p, n, out⟩] } else st
       match st0.get? c.pt c.name with
       | some y => spawnChildFin p n out sui c st0 (some y) true
       | none => spawnChildFin p n out sui c (spawnTask g st0 c.name c.pt).1 (spawnTask g st0 c.name c.pt).2 false) := by
  unfold spawnChild
  simp only
  generalize (if (c.isAbs && !st.absDone.contains ⟨p, n, out⟩) = true then
      { st with absDone := st.absDone ++ [⟨p, n, out⟩] } else st) = st0
  cases hg : st0.get? c.pt c.name with
  | some y => rfl
  | none =>
    simp only
    generalize spawnTask g st0 c.name c.pt = R
    obtain ⟨st1, ch⟩ := R
    cases ch <;> rfl

theorem expLog_spawnChildFin (p : Int) (n out : String) (sui : List (Int × String)) (c : Child)
    (st1 : State) (ch : Option Proxy) (inPool : Bool) :
    (spawnChildFin p n out sui c st1 ch inPool).1.expLog = st1.expLog := by
  unfold spawnChildFin
  split
  · rfl
  · refine foldl_inv (fun a : State × List (Int × String) => a.1.expLog = st1.expLog) _ ?_ _ _ ?_
    · intro a k ha
      simp only
      split
      · exact ha
      · exact ha
    · simp only
      split
      · rfl
      · rw [expLog_add]

theorem expLog_spawnChild (g : Graph) (p : Int) (n out : String) (acc : State × List (Int × String)) (c : Child) :
    (spawnChild g p n out acc c).1.expLog = acc.1.expLog := by
  obtain ⟨st, sui⟩ := acc
  rw [spawnChild_eq]
  simp only
  have h0 : (if (c.isAbs && !st.absDone.contains ⟨p, n, out⟩) = true then
      { st with absDone := st.absDone ++ [⟨p, n, out⟩] } else st).expLog = st.expLog := by
    split <;> rfl
  generalize (if (c.isAbs && !st.absDone.contains ⟨p, n, out⟩) = true then
      { st with absDone := st.absDone ++ [⟨p, n, out⟩] } else st) = st0 at h0 ⊢
  split
  · rw [expLog_spawnChildFin]; exact h0
  · rw [expLog_spawnChildFin, expLog_spawnTask]; exact h0

theorem expLog_spawnOnOutput (g : Graph) (s : State) (p : Int) (n out : String) :
    (spawnOnOutput g s p n out).expLog = s.expLog := by
  unfold spawnOnOutput
  split
  · rfl
  · simp only
    have h1 : ∀ (cs : List Child) (acc : State × List (Int × String)),
        (cs.foldl (spawnChild g p n out) acc).1.expLog = acc.1.expLog := by
      intro cs; induction cs with
      | nil => intro acc; rfl
      | cons c cs ih => intro acc; simp only [List.foldl_cons]; rw [ih, expLog_spawnChild]
    have h2 : ∀ (ks : List (Int × String)) (st : State),
        (ks.foldl (fun (st : State) k => match st.get? k.1 k.2 with
          | some z => remove g st z
          | none => st) st).expLog = st.expLog := by
      intro ks; induction ks with
      | nil => intro st; rfl
      | cons k ks ih =>
        intro st
        simp only [List.foldl_cons]
        rw [ih]
        split
        · rw [expLog_remove]
        · rfl
    generalize hR : (List.foldl (spawnChild g p n out) (s, []) _) = R
    have hRn : R.1.expLog = s.expLog := by rw [← hR, h1]
    have h3 := h2 R.2 R.1
    split
    · rw [expLog_removeIfComplete]; exact h3.trans hRn
    · exact h3.trans hRn

theorem expLog_store (s : State) (x : Proxy) (tr : Bool) : (store s x tr).expLog = s.expLog := by
  unfold store; split <;> rfl

theorem expLog_histOutputs (s : State) (p : Int) (n : String) : (histOutputs s p n).expLog = s.expLog := by
  unfold histOutputs
  split
  · split <;> rfl
  · rfl

theorem expLog_spawnChildren (g : Graph) (s : State) (p : Int) (n out : String) (tr : Bool) :
    (spawnChildren g s p n out tr).expLog = s.expLog := by
  unfold spawnChildren; split
  · exact expLog_histOutputs _ _ _
  · exact expLog_spawnOnOutput _ _ _ _ _

theorem expLog_pmFinal (g : Graph) (s : State) (p : Int) (n : String) (x : Proxy) (tr : Bool) (st : Status)
    (out : String) : (pmFinal g s p n x tr st out).expLog = s.expLog := by
  unfold pmFinal
  simp only
  rw [expLog_spawnChildren, expLog_store]

/-- every branch of `pmDispatch` but the `expired` one leaves the log alone -/
theorem expLog_pmDispatch_ne (g : Graph) (s : State) (p : Int) (n : String) (flag : Flag) (msg : String)
    (c : Option Bool) (x : Proxy) (tr : Bool) (hm : msg ≠ "expired") :
    (pmDispatch g s p n flag msg c x tr).1.expLog = s.expLog := by
  unfold pmDispatch
  have hm' : (msg == "expired") = false := by simpa using hm
  simp only [hm', Bool.false_eq_true, if_false]
  repeat' split
  all_goals first
    | rfl
    | (simp only [expLog_spawnChildren, expLog_store, expLog_pmFinal])
    | (rw [expLog_spawnChildren])

/-- messages other than `expired` never log an expiry event -/
theorem expLog_processMessage_ne (g : Graph) : ∀ (fuel : Nat) (s : State) (p : Int) (n : String) (flag : Flag)
    (sn : Nat) (msg : String), msg ≠ "expired" → (processMessage g fuel s p n flag sn msg).1.expLog = s.expLog := by
  intro fuel
  induction fuel with
  | zero => intro s p n flag sn msg _; rfl
  | succ fuel ih =>
    intro s p n flag sn msg hm
    unfold processMessage
    split
    · rfl
    · rename_i x tr _
      split
      · rfl
      · simp only
        have himp : ∀ (l : List String) (st : State), (∀ m ∈ l, m ≠ "expired") →
            (l.foldl (fun st m => (processMessage g fuel st p n .internal sn m).1) st).expLog = st.expLog := by
          intro l; induction l with
          | nil => intro st _; rfl
          | cons a l ihl =>
            intro st hl
            simp only [List.foldl_cons]
            rw [ihl _ (fun m hm => hl m (List.mem_cons_of_mem _ hm)), ih _ _ _ _ _ _ (hl a List.mem_cons_self)]
        have hne : ∀ m ∈ impliedOf (pmComplete g x msg).1 msg, m ≠ "expired" := by
          intro m hmem
          unfold impliedOf at hmem
          have := (List.mem_filter.mp hmem).1
          split at this
          · simp at this; rcases this with h | h <;> simp [h]
          · split at this
            · simp at this; simp [this]
            · simp at this
        generalize hS : (List.foldl (fun st m => (processMessage g fuel st p n Flag.internal sn m).1) _ _) = S
        have hSn : S.expLog = s.expLog := by rw [← hS, himp _ _ hne, expLog_store]
        split
        · exact hSn
        · rw [expLog_pmDispatch_ne _ _ _ _ _ _ _ _ _ hm]; exact hSn

/-- a message queue without the text `expired` -/
def QueueOK (s : State) : Prop := ∀ m ∈ s.queue, m.text ≠ "expired"

theorem mem_groupMsgs {q : List Msg} : ∀ {grp : (Int × String) × List Msg}, grp ∈ groupMsgs q → ∀ m ∈ grp.2, m ∈ q := by
  unfold groupMsgs
  have key : ∀ (l : List Msg) (acc : List ((Int × String) × List Msg)) (P : Msg → Prop),
      (∀ e ∈ acc, ∀ m ∈ e.2, P m) → (∀ m ∈ l, P m) →
      ∀ e ∈ l.foldl (fun acc m =>
        if acc.any (fun e => e.1 == (m.pt, m.name)) then
          acc.map fun e => if e.1 == (m.pt, m.name) then (e.1, e.2 ++ [m]) else e
        else acc ++ [((m.pt, m.name), [m])]) acc, ∀ m ∈ e.2, P m := by
    intro l
    induction l with
    | nil => intro acc P ha _ e he; exact ha e he
    | cons a l ih =>
      intro acc P ha hl
      simp only [List.foldl_cons]
      apply ih
      · intro e he m hm
        split at he
        · obtain ⟨e0, he0, rfl⟩ := List.mem_map.mp he
          split at hm
          · rcases List.mem_append.mp hm with h | h
            · exact ha e0 he0 m h
            · simp at h; subst h; exact hl _ List.mem_cons_self
          · exact ha e0 he0 m hm
        · rcases List.mem_append.mp he with h | h
          · exact ha e h m hm
          · simp at h; subst h; simp at hm; subst hm; exact hl _ List.mem_cons_self
      · intro m hm; exact hl m (List.mem_cons_of_mem _ hm)
  intro grp hg m hm
  exact key q [] (fun m => m ∈ q) (by intro e he; simp at he) (fun m hm => hm) grp hg m hm

theorem expLog_processQueue (g : Graph) (s : State) (hq : QueueOK s) : (processQueue g s).expLog = s.expLog := by
  unfold processQueue
  refine foldl_inv_mem (fun st : State => st.expLog = s.expLog) _ _ _ ?_ rfl
  intro st grp hgrp hst
  simp only
  split
  · exact hst
  · have : ∀ (l : List Msg) (acc : State × Bool), (∀ m ∈ l, m.text ≠ "expired") →
        (l.foldl (fun (acc : State × Bool) m =>
          let (st', pl) := processMessage g 4 acc.1 grp.1.1 grp.1.2 .received m.submitNum m.text
          (st', acc.2 || pl)) acc).1.expLog = acc.1.expLog := by
      intro l; induction l with
      | nil => intro acc _; rfl
      | cons m l ihl =>
        intro acc hl
        simp only [List.foldl_cons]
        rw [ihl _ (fun m hm => hl m (List.mem_cons_of_mem _ hm))]
        exact expLog_processMessage_ne g 4 _ _ _ _ _ _ (hl m List.mem_cons_self)
    have h2 := this grp.2 (st, false) (fun m hm => hq m (mem_groupMsgs hgrp m hm))
    split
    · simp only; rw [h2]; exact hst
    · rw [h2]; exact hst

theorem expLog_checkStalled (g : Graph) (s : State) : (checkStalled g s).expLog = s.expLog := by
  unfold checkStalled; split
  · rfl
  · split
    · rfl
    · split <;> rfl

theorem expLog_checkAutoShutdown (g : Graph) (s : State) : (checkAutoShutdown g s).1.expLog = s.expLog := by
  unfold checkAutoShutdown
  split
  · rfl
  · simp only
    split
    · exact expLog_checkStalled _ _
    · split
      · exact expLog_checkStalled _ _
      · exact expLog_checkStalled _ _

theorem expLog_stopTaskDone (s : State) : (stopTaskDone s).1.expLog = s.expLog := by
  unfold stopTaskDone; split <;> rfl

theorem expLog_queueIfReady (s : State) (x : Proxy) : (queueIfReady s x).expLog = s.expLog := by
  unfold queueIfReady; split <;> rfl

theorem expLog_sweepQueue (s : State) : (sweepQueue s).expLog = s.expLog := by
  unfold sweepQueue
  refine foldl_inv (fun st : State => st.expLog = s.expLog) _ ?_ _ _ rfl
  intro st x hst
  split
  · split
    · rw [expLog_queueIfReady]; exact hst
    · exact hst
  · exact hst

theorem expLog_finishLoop (g : Graph) (s : State) : (finishLoop g s).expLog = s.expLog := by
  unfold finishLoop
  extract_lets hasUpd s1 s2 s3
  have h1 : s1.expLog = s.expLog := by simp only [s1]; split <;> rfl
  have h2 : s2.expLog = s.expLog := by simp only [s2]; split <;> exact h1
  have h3 : s3.expLog = s.expLog := h2
  split
  · rw [expLog_checkStalled]; exact h3
  · exact h3



/-! ### the remaining primitives -/

theorem expLog_submitOne (s : State) (x : Proxy) : (submitOne s x).expLog = s.expLog := rfl

theorem expLog_releaseSubmitOne (rel : Bool) (s : State) (x : Proxy) :
    (releaseSubmitOne rel s x).expLog = s.expLog := rfl

theorem expLog_releaseAndSubmit (s : State) : (releaseAndSubmit s).expLog = s.expLog := by
  unfold releaseAndSubmit
  extract_lets trig s1 pre
  have h1 : s1.expLog = s.expLog := rfl
  split
  · exact h1
  · show (List.foldl (releaseSubmitOne (!s1.paused)) s1 pre).expLog = s.expLog
    exact foldl_inv (fun st : State => st.expLog = s.expLog) (releaseSubmitOne (!s1.paused))
      (fun st x h => (expLog_releaseSubmitOne _ st x).trans h) _ _ h1

theorem expLog_setHoldPoint (s : State) (p : Int) : (setHoldPoint s p).expLog = s.expLog := by
  unfold setHoldPoint
  simp only
  refine foldl_inv (fun st : State => st.expLog = s.expLog) _ ?_ _ _ rfl
  intro st x hst
  split
  · split
    · rw [expLog_holdActive]; exact hst
    · exact hst
  · exact hst

theorem expLog_holdTasks (s : State) (ids : List (Int × String)) : (holdTasks s ids).expLog = s.expLog := by
  unfold holdTasks
  refine foldl_inv (fun st : State => st.expLog = s.expLog) _ ?_ _ _ rfl
  intro st k hst
  split
  · rw [expLog_holdActive]; exact hst
  · split
    · exact hst
    · exact hst

theorem expLog_releaseTasks (s : State) (ids : List (Int × String)) : (releaseTasks s ids).expLog = s.expLog := by
  unfold releaseTasks
  refine foldl_inv (fun st : State => st.expLog = s.expLog) _ ?_ _ _ rfl
  intro st k hst
  split
  · exact hst
  · split
    · rw [expLog_releaseHeldActive]; exact hst
    · exact hst

theorem expLog_releaseHoldPoint (s : State) : (releaseHoldPoint s).expLog = s.expLog := by
  unfold releaseHoldPoint
  simp only
  refine foldl_inv (fun st : State => st.expLog = s.expLog) _ ?_ _ _ rfl
  intro st x hst
  split
  · rw [expLog_releaseHeldActive]; exact hst
  · exact hst

theorem expLog_setStopPoint (s : State) (p : Int) : (setStopPoint s p).expLog = s.expLog := by
  unfold setStopPoint
  split
  · rfl
  · simp only
    split
    · split <;> rfl
    · rfl


theorem expLog_queueOrTrigger (s : State) (x : Proxy) : (queueOrTrigger s x).expLog = s.expLog := by
  unfold queueOrTrigger
  split
  · rfl
  · simp only
    split <;> rfl

theorem expLog_trigger (g : Graph) (s : State) (p : Int) (n : String) : (trigger g s p n).expLog = s.expLog := by
  unfold trigger
  split
  · rfl
  · simp only
    rw [expLog_releaseRunahead]
    split
    · rfl
    · exact expLog_queueOrTrigger _ _

theorem expLog_restart (g : Graph) (s : State) : (restart g s).expLog = [] := by
  unfold restart
  extract_lets restore cfgStop pool wait s'
  split
  · rw [expLog_setHoldPoint]
  · rfl

/-! ### the one place where an expiry is logged -/

/-- the event describes proxy `x` at clock `now` -/
def EvOf (x : Proxy) (now : Int) (e : ExpEvent) : Prop :=
  e.pt = x.pt ∧ e.name = x.name ∧ e.frm = x.status ∧ e.manual = x.manual ∧ e.exp = x.expire ∧ e.now = now

theorem evOf_mkEvent (s : State) (x : Proxy) (tr : Bool) : EvOf x s.now (mkEvent s x tr) :=
  ⟨rfl, rfl, rfl, rfl, rfl, rfl⟩

theorem evOf_closeEvent (g : Graph) (s0 s1 : State) (x : Proxy) (e : ExpEvent) (y : Proxy) (now : Int)
    (h : EvOf y now e) : EvOf y now (closeEvent g s0 s1 x e) := h

/-- `processExpired` logs at most one event, and that event describes the proxy it was given -/
theorem expLog_processExpired (g : Graph) (s : State) (x : Proxy) (tr : Bool) :
    (processExpired g s x tr).expLog = s.expLog ∨
      ∃ e, (processExpired g s x tr).expLog = s.expLog ++ [e] ∧ EvOf x s.now e := by
  unfold processExpired
  extract_lets y changed s0 s1
  have h1 : s1.expLog = s.expLog := by
    simp only [s1, s0]; rw [expLog_spawnChildren, expLog_store]
  split
  · right
    refine ⟨if tr = true then mkEvent s x tr else closeEvent g s0 s1 x (mkEvent s x tr), ?_, ?_⟩
    · show s1.expLog ++ [_] = s.expLog ++ [_]
      rw [h1]
    · split
      · exact evOf_mkEvent s x tr
      · exact evOf_closeEvent g s0 s1 x _ x s.now (evOf_mkEvent s x tr)
  · left; exact h1

/-! ### `lookup` after `store` -/

theorem find?_map_replace (p : Int) (n : String) (y : Proxy) (hy : y.pt = p ∧ y.name = n) :
    ∀ (l : List Proxy) (x : Proxy), l.find? (fun z => z.pt == p && z.name == n) = some x →
      (l.map fun z => if z.pt == y.pt && z.name == y.name then y else z).find?
        (fun z => z.pt == p && z.name == n) = some y := by
  intro l
  induction l with
  | nil => intro x h; simp at h
  | cons z zs ih =>
    intro x h
    simp only [List.map_cons]
    by_cases hz : (z.pt == p && z.name == n) = true
    · have hz' : (z.pt == y.pt && z.name == y.name) = true := by rw [hy.1, hy.2]; exact hz
      rw [if_pos hz', List.find?_cons]
      simp [hy.1, hy.2]
    · have hz' : ¬ (z.pt == y.pt && z.name == y.name) = true := by rw [hy.1, hy.2]; exact hz
      rw [List.find?_cons] at h
      simp only [hz] at h
      rw [if_neg hz', List.find?_cons]
      simp only [hz]
      exact ih x h

theorem find?_map_replace_none (p : Int) (n : String) (y : Proxy) (hy : y.pt = p ∧ y.name = n) :
    ∀ (l : List Proxy), l.find? (fun z => z.pt == p && z.name == n) = none →
      (l.map fun z => if z.pt == y.pt && z.name == y.name then y else z).find?
        (fun z => z.pt == p && z.name == n) = none := by
  intro l
  induction l with
  | nil => intro _; rfl
  | cons z zs ih =>
    intro h
    rw [List.find?_cons] at h
    by_cases hz : (z.pt == p && z.name == n) = true
    · simp [hz] at h
    · simp only [hz] at h
      have hz' : ¬ (z.pt == y.pt && z.name == y.name) = true := by rw [hy.1, hy.2]; exact hz
      simp only [List.map_cons]
      rw [if_neg hz', List.find?_cons]
      simp only [hz]
      exact ih h

theorem lookup_key {s : State} {p : Int} {n : String} {x : Proxy} {tr : Bool} (h : lookup s p n = some (x, tr)) :
    x.pt = p ∧ x.name = n := by
  unfold lookup at h
  split at h
  · rename_i y hg
    simp only [Option.some.injEq, Prod.mk.injEq] at h
    have := get?_some_mem hg
    rw [← h.1]; exact ⟨this.2.1, this.2.2⟩
  · cases hf : s.ghosts.find? (fun x => x.pt == p && x.name == n) with
    | none => simp [hf] at h
    | some y =>
      simp only [hf, Option.map_some, Option.some.injEq, Prod.mk.injEq] at h
      have h2 := List.find?_some hf
      simp only [Bool.and_eq_true, beq_iff_eq] at h2
      rw [← h.1]; exact h2

/-- the object stored is the object found next -/
theorem lookup_store {s : State} {p : Int} {n : String} {x y : Proxy} {tr : Bool}
    (h : lookup s p n = some (x, tr)) (hy : y.pt = p ∧ y.name = n) : lookup (store s y tr) p n = some (y, tr) := by
  unfold lookup at h ⊢
  split at h
  · rename_i z hg
    simp only [Option.some.injEq, Prod.mk.injEq] at h
    obtain ⟨_, htr⟩ := h
    subst htr
    have : (store s y false).get? p n = some y := by
      unfold store State.get? State.put
      simp only [Bool.false_eq_true, if_false]
      unfold State.get? at hg
      exact find?_map_replace p n y hy _ _ hg
    simp only [this]
  · rename_i hg
    cases hf : s.ghosts.find? (fun x => x.pt == p && x.name == n) with
    | none => simp [hf] at h
    | some z =>
      simp only [hf, Option.map_some, Option.some.injEq, Prod.mk.injEq] at h
      obtain ⟨_, htr⟩ := h
      subst htr
      have hg' : (store s y true).get? p n = none := by
        unfold store
        simp only [if_true]
        exact hg
      have hf' : (store s y true).ghosts.find? (fun x => x.pt == p && x.name == n) = some y := by
        unfold store
        simp only [if_true]
        exact find?_map_replace p n y hy _ _ hf
      simp only [hg', hf', Option.map_some]

theorem now_store (s : State) (x : Proxy) (tr : Bool) : (store s x tr).now = s.now := by
  unfold store; split <;> rfl

theorem setComplete_more (g : Graph) (x : Proxy) (m : String) :
    (setComplete g x m).1.status = x.status ∧ (setComplete g x m).1.manual = x.manual ∧
      (setComplete g x m).1.expire = x.expire := by
  unfold setComplete
  split
  · exact ⟨rfl, rfl, rfl⟩
  · split <;> exact ⟨rfl, rfl, rfl⟩

/-- **the `expired` message**: either nothing is logged, or the message passed the checks and exactly one event
is logged, describing the object found under the key when the message arrived -/
theorem processMessage_expired_log (g : Graph) (fuel : Nat) (s : State) (p : Int) (n : String) (flag : Flag)
    (sn : Nat) (x : Proxy) (tr : Bool) (hl : lookup s p n = some (x, tr)) :
    (processMessage g (fuel + 1) s p n flag sn "expired").1.expLog = s.expLog ∨
      (pmSkip x tr flag sn "expired" = false ∧
        ∃ e, (processMessage g (fuel + 1) s p n flag sn "expired").1.expLog = s.expLog ++ [e] ∧
          e.pt = p ∧ e.name = n ∧ e.frm = x.status ∧ e.manual = x.manual ∧ e.exp = x.expire ∧ e.now = s.now) := by
  unfold processMessage
  simp only [hl]
  split
  · left; rfl
  · rename_i hskip
    have himp : impliedOf (pmComplete g x "expired").1 "expired" = [] := by
      unfold impliedOf; simp
    simp only [himp, List.foldl_nil]
    have hc : (pmComplete g x "expired").1 = (setComplete g x "expired").1 := by
      unfold pmComplete; simp
    have hk := lookup_key hl
    have hyk : (pmComplete g x "expired").1.pt = p ∧ (pmComplete g x "expired").1.name = n := by
      rw [hc]; have := setComplete_fields g x "expired"; exact ⟨this.1.trans hk.1, this.2.1.trans hk.2⟩
    rw [lookup_store hl hyk]
    simp only
    unfold pmDispatch
    simp only [show ("expired" == "started") = false by decide, show ("expired" == "succeeded") = false by decide,
      Bool.false_eq_true, if_false, beq_self_eq_true, if_true]
    rcases expLog_processExpired g (store s (pmComplete g x "expired").1 tr) (pmComplete g x "expired").1 tr with h | h
    · left; rw [h, expLog_store]
    · right
      obtain ⟨e, he, hev⟩ := h
      refine ⟨by simpa using hskip, e, ?_, ?_⟩
      · rw [he, expLog_store]
      · obtain ⟨h1, h2, h3, h4, h5, h6⟩ := hev
        have hm := setComplete_more g x "expired"
        rw [hc] at h1 h2 h3 h4 h5
        refine ⟨h1.trans hyk.1 |> fun h => by rw [hc] at hyk; exact h1.trans hyk.1, ?_, ?_, ?_, ?_, ?_⟩
        · rw [hc] at hyk; exact h2.trans hyk.2
        · exact h3.trans hm.1
        · exact h4.trans hm.2.1
        · exact h5.trans hm.2.2
        · rw [h6, now_store]

end CylcModel.Sched3Exp
