/-
Component `Perm` (property C44): private workflow files are created owner-only.

Executable model (core Lean only) of the file-mode effects of scheduler start-up:
  * `key_housekeeping(id, create=True)` (cylc/flow/network/authentication.py) =
    `remove_keys_on_server` + `create_server_keys` (cylc/flow/workflow_files.py):
    old keys removed, `os.umask(KEY_UMASK)`, `zmq.auth.create_certificates` writes the server
    public/private key with `open(.., 'w')`, `shutil.copyfile` makes the client private key and the
    server-held copy of the public key, umask restored;
  * `WorkflowDatabaseManager.on_workflow_start(is_restart)` (cylc/flow/workflow_db_mgr.py):
    private DB unlinked unless restarting, created by sqlite, `os.chmod(pri, PERM_PRIVATE)`, public DB
    made by `copy_pri_to_pub` (mkstemp + `shutil.copy` + rename + chmod back to the old mode).

POSIX creation semantics are environment (assumed, validated exhaustively over all 512 umasks by
the correspondence runs): `open(O_CREAT, req)` gives a *new* file mode `req & ~umask` and leaves an
existing file's mode alone; `chmod` sets the mode exactly; `rename` carries the mode along.
`open()` asks for 0o666, sqlite for 0o644, `mkstemp` for 0o600.

The umask literal of `create_server_keys` and the mode passed to `chmod` for the private DB are
*generated* from the live code (recorded `os.umask` / `os.chmod` calls) into
`CylcModel/Generated/PermCfg.lean`; `none` = the call is not made.
-/
import CylcModel.Generated.PermCfg

namespace CylcModel.Perm

/-- the files start-up touches -/
inductive F where
  | priDb | pubDb | tmpPub | srvPub | srvPriv | cliPriv | cliPubCopy
  deriving Repr, DecidableEq

def allModeBits : Nat := 0o777

/-- mode of a file newly created by `open(O_CREAT, req)` under `umask` -/
def createMode (req umask : Nat) : Nat := req &&& (allModeBits ^^^ (umask &&& allModeBits))

structure St where
  umask : Nat
  files : F → Option Nat        -- `none` = does not exist

def St.set (s : St) (f : F) (m : Option Nat) : St :=
  { s with files := fun g => if g = f then m else s.files g }

/-- `open(f, O_CREAT, req)`: creates when absent, never changes an existing file's mode -/
def St.create (s : St) (f : F) (req : Nat) : St :=
  match s.files f with
  | some _ => s
  | none => s.set f (some (createMode req s.umask))

/-- `os.chmod` (the file exists whenever the code calls it) -/
def St.chmod (s : St) (f : F) (m : Nat) : St :=
  match s.files f with
  | some _ => s.set f (some (m &&& allModeBits))
  | none => s

def St.unlink (s : St) (f : F) : St := s.set f none

/-- `os.rename(a, b)` -/
def St.rename (s : St) (a b : F) : St := (s.set b (s.files a)).set a none

/-- `shutil.copy(a, b)`: `copyfile` (creates `b` with 0o666 when absent) + `copymode` -/
def St.copyWithMode (s : St) (a b : F) : St :=
  let s := s.create b 0o666
  match s.files a with
  | some m => s.chmod b m
  | none => s

open CylcModel.Generated in
/-- `key_housekeeping(id, create=True)` -/
def keysStart (s : St) : St :=
  -- remove_keys_on_server
  let s := (((s.unlink .srvPub).unlink .srvPriv).unlink .cliPriv).unlink .cliPubCopy
  -- create_server_keys
  let old := s.umask
  let s := match PermCfg.keyUmask with
    | some u => { s with umask := u }
    | none => s
  let s := (s.create .srvPub 0o666).create .srvPriv 0o666      -- zmq.auth.create_certificates
  let s := s.create .cliPriv 0o666                              -- shutil.copyfile(server private, client private)
  let s := s.create .cliPubCopy 0o666                           -- shutil.copyfile(server public, client_public_keys/)
  { s with umask := old }

open CylcModel.Generated in
/-- `WorkflowDatabaseManager.on_workflow_start(is_restart)` -/
def dbStart (isRestart : Bool) (s : St) : St :=
  let s := if isRestart then s else s.unlink .priDb
  let s := s.create .priDb 0o644                                -- sqlite3 creates the file
  let s := match PermCfg.dbChmod with
    | some m => s.chmod .priDb m
    | none => s
  -- copy_pri_to_pub
  let s := s.create .tmpPub 0o600                               -- mkstemp
  let s := s.create .pubDb 0o666                                -- open(pub, "a")
  let stMode := s.files .pubDb
  let s := s.copyWithMode .priDb .tmpPub
  let s := s.rename .tmpPub .pubDb
  match stMode with
  | some m => s.chmod .pubDb m
  | none => s

/-- start-up as the scheduler runs it: keys in `install`, then the databases -/
def startup (isRestart : Bool) (s : St) : St := dbStart isRestart (keysStart s)

/-- the files property C44 is about -/
def privateFiles : List F := [.priDb, .srvPriv, .cliPriv]

/-- not readable, writable (or executable) by group or others -/
def ownerOnly (m : Nat) : Bool := m &&& 0o077 == 0

end CylcModel.Perm
